/-
Lemmas about the Array2D model: Go slice primitives pointwise (`getElem?`), the loop invariant of slices.Fill,
and the characterisation of every Array2D method in terms of the cell accessor `cellAt`.
-/
import TypVerif.Model.Array2D
import TypVerif.Lemmas.Array2DArith
namespace TypVerif.Lemmas.Array2D
open TypVerif.Model.Array2D

theorem getElem?_splice (c s : List Int) (d n : Nat) (hn : n ≤ s.length) (h : d + n ≤ c.length) (j : Nat) :
    (c.take d ++ s.take n ++ c.drop (d + n))[j]? = if d ≤ j ∧ j < d + n then s[j - d]? else c[j]? := by
  have l1 : (c.take d).length = d := by simp; omega
  have l2 : (s.take n).length = n := by simp; omega
  by_cases h1 : j < d
  · rw [List.append_assoc, List.getElem?_append_left (by omega), List.getElem?_take, if_pos h1, if_neg (by omega)]
  · by_cases h2 : j < d + n
    · rw [List.getElem?_append_left (by simp only [List.length_append]; omega),
        List.getElem?_append_right (by omega), l1, List.getElem?_take, if_pos (by omega), if_pos (by omega)]
    · rw [List.getElem?_append_right (by simp only [List.length_append]; omega), List.length_append, l1, l2,
        List.getElem?_drop, if_neg (by omega)]
      congr 1; omega

theorem length_copyAt (c : List Int) (d dn : Nat) (src : List Int) (h : d + min dn src.length ≤ c.length) :
    (copyAt c d dn src).length = c.length := by
  simp only [copyAt, List.length_append, List.length_take, List.length_drop]
  omega

theorem getElem?_copyAt (c : List Int) (d dn : Nat) (src : List Int) (h : d + min dn src.length ≤ c.length) (j : Nat) :
    (copyAt c d dn src)[j]? = if d ≤ j ∧ j < d + min dn src.length then src[j - d]? else c[j]? := by
  simp only [copyAt]
  exact getElem?_splice c src d _ (by omega) h j

theorem length_winRead (c : List Int) (lo hi : Nat) (h : hi ≤ c.length) : (winRead c (lo, hi)).length = hi - lo := by
  simp [winRead]; omega

theorem getElem?_winRead (c : List Int) (lo hi : Nat) (i : Nat) :
    (winRead c (lo, hi))[i]? = if lo + i < hi then c[lo + i]? else none := by
  simp only [winRead, List.getElem?_drop, List.getElem?_take]

/-- loop invariant of the doubling loop of slices.Fill -/
theorem fillLoop_spec (lo len : Nat) (v : Int) : ∀ (fuel i : Nat) (c : List Int),
    lo + len ≤ c.length → 1 ≤ i → len ≤ fuel + i →
    (∀ j, lo ≤ j → j < lo + min i len → c[j]? = some v) →
    (fillLoop lo len fuel i c).length = c.length ∧
    (∀ j, lo ≤ j → j < lo + len → (fillLoop lo len fuel i c)[j]? = some v) ∧
    (∀ j, ¬ (lo ≤ j ∧ j < lo + len) → (fillLoop lo len fuel i c)[j]? = c[j]?) := by
  intro fuel
  induction fuel with
  | zero =>
    intro i c hL hi hf inv
    unfold fillLoop
    refine ⟨rfl, ?_, fun _ _ => rfl⟩
    intro j h1 h2; exact inv j h1 (by omega)
  | succ fuel ih =>
    intro i c hL hi hf inv
    unfold fillLoop
    by_cases hlt : i < len
    · rw [if_pos hlt]
      have hsrc : (winRead c (lo, lo + i)).length = i := by rw [length_winRead _ _ _ (by omega)]; omega
      have hb : lo + i + min (len - i) (winRead c (lo, lo + i)).length ≤ c.length := by rw [hsrc]; omega
      have hlen := length_copyAt c (lo + i) (len - i) _ hb
      have hget := getElem?_copyAt c (lo + i) (len - i) _ hb
      rw [hsrc] at hget
      obtain ⟨r1, r2, r3⟩ := ih (i + i) _ (by rw [hlen]; exact hL) (by omega) (by omega) (by
        intro j h1 h2
        rw [hget j]
        by_cases hc : lo + i ≤ j ∧ j < lo + i + min (len - i) i
        · rw [if_pos hc, getElem?_winRead, if_pos (by omega)]
          exact inv _ (by omega) (by omega)
        · rw [if_neg hc]; exact inv j h1 (by omega))
      refine ⟨by rw [r1, hlen], r2, ?_⟩
      intro j hj
      rw [r3 j hj, hget j, if_neg (by omega)]
    · rw [if_neg hlt]
      refine ⟨rfl, ?_, fun _ _ => rfl⟩
      intro j h1 h2; exact inv j h1 (by omega)

/-- slices.Fill assigns exactly the window -/
theorem sliceFill_spec (c : List Int) (lo len : Nat) (v : Int) (h : lo + len ≤ c.length) :
    (sliceFill c lo len v).length = c.length ∧
    ∀ j, (sliceFill c lo len v)[j]? = if lo ≤ j ∧ j < lo + len then some v else c[j]? := by
  unfold sliceFill
  by_cases h0 : len = 0
  · rw [if_pos h0]; refine ⟨rfl, ?_⟩; intro j; rw [if_neg (by omega)]
  · rw [if_neg h0]
    obtain ⟨r1, r2, r3⟩ := fillLoop_spec lo len v len 1 (c.set lo v) (by simp; omega) (by omega) (by omega) (by
      intro j h1 h2
      have : j = lo := by omega
      subst this
      simp [List.getElem?_set]; omega)
    refine ⟨by rw [r1]; simp, ?_⟩
    intro j
    by_cases hc : lo ≤ j ∧ j < lo + len
    · rw [if_pos hc]; exact r2 j hc.1 hc.2
    · rw [if_neg hc, r3 j hc, List.getElem?_set]
      rw [if_neg (by omega)]

open TypVerif.Model.Array2D

/-- well-formed array: non-negative sizes and a backing slice of `w*h` cells (what New2D builds) -/
def WF (a : A2D) : Prop := 0 ≤ a.w ∧ 0 ≤ a.h ∧ (a.cells.length : Int) = a.w * a.h

/-- coordinate inside the bounds -/
def InB (a : A2D) (x y : Int) : Prop := 0 ≤ x ∧ x < a.w ∧ 0 ≤ y ∧ y < a.h

instance (a : A2D) (x y : Int) : Decidable (InB a x y) := by unfold InB; exact inferInstance

/-- the backing cell addressed by (x,y) -/
def cellAt (a : A2D) (x y : Int) : Option Int := a.cells[(idx a.w x y).toNat]?

def ofOpt : Option Int → Except String Int
  | some v => .ok v
  | none => .error pBounds

theorem oob_false {n i : Int} : oob n i = false ↔ (0 ≤ i ∧ i < n) := by
  simp [oob]

theorem oob_true {n i : Int} : oob n i = true ↔ ¬ (0 ≤ i ∧ i < n) := by
  simp [oob]; omega

theorem getGuard_iff {a : A2D} {x y : Int} : getGuard a.w a.h x y = true ↔ InB a x y := by
  simp [getGuard, oob, InB]; omega

theorem sliceGet_nonneg {c : List Int} {i : Int} (h : 0 ≤ i) : sliceGet c i = ofOpt c[i.toNat]? := by
  unfold sliceGet
  by_cases h1 : i < (c.length : Int)
  · rw [if_pos ⟨h, h1⟩]
    cases h2 : c[i.toNat]? <;> rfl
  · rw [if_neg (by omega)]
    have : c[i.toNat]? = none := by rw [List.getElem?_eq_none_iff]; omega
    rw [this]; rfl

theorem idx_nonneg {a : A2D} {x y : Int} (h : InB a x y) : 0 ≤ idx a.w x y := by
  unfold InB at h; unfold idx
  have := Array2DArith.mul_nonneg' (w := a.w) (y := y) (by omega) (by omega)
  omega

theorem idx_lt_len {a : A2D} (wf : WF a) {x y : Int} (h : InB a x y) : idx a.w x y < (a.cells.length : Int) := by
  unfold InB at h; unfold idx
  have := Array2DArith.idx_lt h.1 h.2.1 h.2.2.1 h.2.2.2
  rw [wf.2.2]; omega

theorem get_eq (a : A2D) (x y : Int) :
    get a x y = if InB a x y then ofOpt (cellAt a x y) else .error pCustom := by
  unfold Model.Array2D.get
  by_cases hx : oob a.w x = true
  · rw [if_pos hx, if_neg]; rw [oob_true] at hx; unfold InB; omega
  · rw [if_neg hx]
    by_cases hy : oob a.h y = true
    · rw [if_pos hy, if_neg]; rw [oob_true] at hy; unfold InB; omega
    · rw [if_neg hy]
      have hx' := oob_false.mp (by simpa using hx)
      have hy' := oob_false.mp (by simpa using hy)
      have hb : InB a x y := ⟨hx'.1, hx'.2, hy'.1, hy'.2⟩
      rw [if_pos hb]
      unfold getUnchecked cellAt
      exact sliceGet_nonneg (idx_nonneg hb)

theorem cellAt_some {a : A2D} (wf : WF a) {x y : Int} (h : InB a x y) : ∃ v, cellAt a x y = some v := by
  have h1 := idx_nonneg h
  have h2 := idx_lt_len wf h
  unfold cellAt
  have : (idx a.w x y).toNat < a.cells.length := by omega
  exact ⟨a.cells[(idx a.w x y).toNat], List.getElem?_eq_getElem this⟩

theorem set_eq {a : A2D} (wf : WF a) (x y v : Int) :
    set a x y v = if InB a x y then .ok { a with cells := a.cells.set (idx a.w x y).toNat v } else .error pCustom := by
  unfold Model.Array2D.set
  by_cases hx : oob a.w x = true
  · rw [if_pos hx, if_neg]; rw [oob_true] at hx; unfold InB; omega
  · rw [if_neg hx]
    by_cases hy : oob a.h y = true
    · rw [if_pos hy, if_neg]; rw [oob_true] at hy; unfold InB; omega
    · rw [if_neg hy]
      have hx' := oob_false.mp (by simpa using hx)
      have hy' := oob_false.mp (by simpa using hy)
      have hb : InB a x y := ⟨hx'.1, hx'.2, hy'.1, hy'.2⟩
      rw [if_pos hb]
      unfold setUnchecked sliceSet
      rw [if_pos ⟨idx_nonneg hb, idx_lt_len wf hb⟩]
      rfl

open TypVerif.Model.Array2D

theorem wf_setCells {a : A2D} (wf : WF a) {c : List Int} (h : c.length = a.cells.length) :
    WF { a with cells := c } := by
  unfold WF at *; simp only; rw [h]; exact wf

theorem idx_toNat_inj {a : A2D} {x y x' y' : Int} (h : InB a x y) (h' : InB a x' y') :
    (idx a.w x y).toNat = (idx a.w x' y').toNat ↔ (x' = x ∧ y' = y) := by
  have n1 := idx_nonneg h
  have n2 := idx_nonneg h'
  constructor
  · intro e
    have e' : idx a.w x y = idx a.w x' y' := by omega
    unfold idx at e'; unfold InB at h h'
    have := Array2DArith.idx_inj h.1 h.2.1 h'.1 h'.2.1 e'
    omega
  · intro ⟨e1, e2⟩; rw [e1, e2]

/-- Set(x,y,v) succeeded: description of the new array -/
theorem set_ok {a a' : A2D} (wf : WF a) {x y v : Int} (h : Model.Array2D.set a x y v = .ok a') :
    InB a x y ∧ a' = { a with cells := a.cells.set (idx a.w x y).toNat v } := by
  rw [set_eq wf] at h
  by_cases hb : InB a x y
  · rw [if_pos hb] at h
    exact ⟨hb, (Except.ok.inj h).symm⟩
  · rw [if_neg hb] at h; cases h

theorem set_get {a a' : A2D} (wf : WF a) {x y v : Int} (h : Model.Array2D.set a x y v = .ok a') (x' y' : Int) :
    Model.Array2D.get a' x' y' = if x' = x ∧ y' = y then .ok v else Model.Array2D.get a x' y' := by
  obtain ⟨hb, rfl⟩ := set_ok wf h
  rw [get_eq, get_eq]
  by_cases hb' : InB a x' y'
  · have hb'' : InB { a with cells := a.cells.set (idx a.w x y).toNat v } x' y' := hb'
    rw [if_pos hb', if_pos hb'']
    unfold cellAt
    simp only
    rw [List.getElem?_set]
    by_cases e : x' = x ∧ y' = y
    · rw [if_pos e, if_pos ((idx_toNat_inj hb hb').mpr e)]
      have := idx_nonneg hb; have := idx_lt_len wf hb
      rw [if_pos (by omega)]; rfl
    · rw [if_neg e, if_neg (fun e' => e ((idx_toNat_inj hb hb').mp e'))]
  · have hb'' : ¬ InB { a with cells := a.cells.set (idx a.w x y).toNat v } x' y' := hb'
    rw [if_neg hb', if_neg hb'']
    rw [if_neg]
    intro ⟨e1, e2⟩; subst e1; subst e2; exact hb' hb

/-- Set changes no other cell: neither as seen through Get nor in the backing slice; sizes stay -/
theorem set_frame {a a' : A2D} (wf : WF a) {x y v : Int} (h : Model.Array2D.set a x y v = .ok a') :
    a'.w = a.w ∧ a'.h = a.h ∧ WF a' ∧
    (∀ x' y', ¬ (x' = x ∧ y' = y) → Model.Array2D.get a' x' y' = Model.Array2D.get a x' y') ∧
    (∀ j, j ≠ (idx a.w x y).toNat → a'.cells[j]? = a.cells[j]?) := by
  refine ⟨?_, ?_, ?_, ?_, ?_⟩
  · obtain ⟨_, rfl⟩ := set_ok wf h; rfl
  · obtain ⟨_, rfl⟩ := set_ok wf h; rfl
  · obtain ⟨_, rfl⟩ := set_ok wf h; exact wf_setCells wf (by simp)
  · intro x' y' ne; rw [set_get wf h, if_neg ne]
  · obtain ⟨_, rfl⟩ := set_ok wf h
    intro j hj; simp only; rw [List.getElem?_set, if_neg (fun e => hj e.symm)]

/-- Get/Set panic (with typ's own message) exactly outside the bounds; inside they succeed -/
theorem oob_panics {a : A2D} (wf : WF a) (x y : Int) :
    (¬ InB a x y → Model.Array2D.get a x y = .error pCustom ∧ ∀ v, Model.Array2D.set a x y v = .error pCustom) ∧
    (InB a x y → (∃ r, Model.Array2D.get a x y = .ok r) ∧ ∀ v, ∃ a', Model.Array2D.set a x y v = .ok a') := by
  constructor
  · intro hb
    refine ⟨by rw [get_eq, if_neg hb], fun v => by rw [set_eq wf, if_neg hb]⟩
  · intro hb
    obtain ⟨r, hr⟩ := cellAt_some wf hb
    refine ⟨⟨r, by rw [get_eq, if_pos hb, hr]; rfl⟩, fun v => ⟨_, by rw [set_eq wf, if_pos hb]⟩⟩

open TypVerif.Model.Array2D

/-- facts about the window `[xa + y*w, 1 + xb + y*w)` of row y (xa ≤ xb+1: possibly empty) -/
theorem win_live {a : A2D} (wf : WF a) {y xa xb lo hi : Int}
    (hy : 0 ≤ y ∧ y < a.h) (hxa : 0 ≤ xa) (hab : xa ≤ xb + 1) (hxb : xb < a.w)
    (hlo : lo = xa + y * a.w) (hhi : hi = 1 + xb + y * a.w) :
    mkWin a.cells lo hi = .ok (lo.toNat, hi.toNat) ∧
    (winRead a.cells (lo.toNat, hi.toNat)).length = (xb + 1 - xa).toNat ∧
    (∀ i, 0 ≤ i → i ≤ xb - xa → (winRead a.cells (lo.toNat, hi.toNat))[i.toNat]? = cellAt a (xa + i) y) ∧
    (∀ i v, 0 ≤ i → i ≤ xb - xa →
      winSet a.cells (lo.toNat, hi.toNat) i v = .ok (a.cells.set (idx a.w (xa + i) y).toNat v)) ∧
    (∀ i v, ¬ (0 ≤ i ∧ i ≤ xb - xa) → winSet a.cells (lo.toNat, hi.toNat) i v = .error pBounds) := by
  obtain ⟨w0, h0, hlen⟩ := wf
  have p1 := Array2DArith.mul_nonneg' w0 hy.1
  have p2 := Array2DArith.row_end_le w0 hy.2
  have b1 : 0 ≤ lo := by omega
  have b2 : lo ≤ hi := by omega
  have b3 : hi ≤ (a.cells.length : Int) := by omega
  refine ⟨?_, ?_, ?_, ?_, ?_⟩
  · unfold mkWin; rw [if_pos ⟨b1, b2, b3⟩]
  · rw [length_winRead _ _ _ (by omega)]; omega
  · intro i hi0 hi1
    rw [getElem?_winRead, if_pos (by omega)]
    unfold cellAt idx
    congr 1; omega
  · intro i v hi0 hi1
    unfold winSet winLen
    simp only
    rw [if_pos (by omega)]
    unfold idx
    congr 2; omega
  · intro i v hi
    unfold winSet winLen
    simp only
    rw [if_neg (by omega)]

theorem row_ok {a : A2D} (wf : WF a) {y : Int} (hy : 0 ≤ y ∧ y < a.h) :
    row a y = .ok ((rowLo a.w y).toNat, (rowHi a.w y).toNat) := by
  unfold row
  rw [if_neg (by rw [oob_true]; simp; omega)]
  exact (win_live wf (xa := 0) (xb := a.w - 1) hy (by omega) (by have := wf.1; omega) (by omega)
    (by unfold rowLo; omega) (by unfold rowHi; omega)).1

theorem row_err {a : A2D} {y : Int} (hy : ¬ (0 ≤ y ∧ y < a.h)) : row a y = .error pCustom := by
  unfold row; rw [if_pos (oob_true.mpr hy)]

/-- Row(y) is a live window onto exactly the cells (0..w-1, y) -/
theorem row_live {a : A2D} (wf : WF a) (y : Int) :
    (¬ (0 ≤ y ∧ y < a.h) → rowRead a y = .error pCustom ∧ ∀ i v, rowset a y i v = .error pCustom) ∧
    ((0 ≤ y ∧ y < a.h) →
      (∃ l, rowRead a y = .ok l ∧ l.length = a.w.toNat ∧ ∀ x, 0 ≤ x → x < a.w → l[x.toNat]? = cellAt a x y) ∧
      (∀ i v, 0 ≤ i → i < a.w → rowset a y i v = Model.Array2D.set a i y v) ∧
      (∀ i v, ¬ (0 ≤ i ∧ i < a.w) → rowset a y i v = .error pBounds)) := by
  constructor
  · intro hy
    unfold rowRead rowset
    rw [row_err hy]
    exact ⟨rfl, fun _ _ => rfl⟩
  · intro hy
    have hw := wf.1
    obtain ⟨_, l2, l3, l4, l5⟩ := win_live wf (xa := 0) (xb := a.w - 1) (lo := rowLo a.w y) (hi := rowHi a.w y)
      hy (by omega) (by omega) (by omega) (by unfold rowLo; omega) (by unfold rowHi; omega)
    unfold rowRead rowset
    rw [row_ok wf hy]
    refine ⟨⟨_, rfl, by rw [l2]; omega, ?_⟩, ?_, ?_⟩
    · intro x hx0 hx1
      have := l3 x hx0 (by omega)
      rw [Int.zero_add] at this; exact this
    · intro i v hi0 hi1
      have := l4 i v hi0 (by omega)
      rw [Int.zero_add] at this
      show (do let c ← winSet a.cells _ i v; pure { a with cells := c }) = _
      rw [this, set_eq wf, if_pos ⟨hi0, hi1, hy.1, hy.2⟩]; rfl
    · intro i v hi
      show (do let c ← winSet a.cells _ i v; pure { a with cells := c }) = _
      rw [l5 i v (by omega)]; rfl

theorem rowSpanGuard_iff {a : A2D} {x1 x2 y : Int} :
    rowSpanGuard a.w a.h x1 x2 y = true ↔ (0 ≤ x1 ∧ x1 < a.w) ∧ (0 ≤ y ∧ y < a.h) ∧ (0 ≤ x2 ∧ x2 < a.w) := by
  simp [rowSpanGuard, oob]; omega

theorem rowSpan_eq {a : A2D} (x1 x2 y : Int) :
    rowSpan a x1 x2 y = if rowSpanGuard a.w a.h x1 x2 y then mkWin a.cells (spanLo a.w x1 y) (spanHi a.w x2 y)
      else .error pCustom := by
  unfold rowSpan rowSpanGuard
  cases oob a.w x1 <;> cases oob a.h y <;> cases oob a.w x2 <;> rfl

/-- RowSpan(x1,x2,y) with x1 ≤ x2 is a live window onto exactly the cells (x1..x2, y) -/
theorem rowSpan_live {a : A2D} (wf : WF a) (x1 x2 y : Int) :
    (rowSpanGuard a.w a.h x1 x2 y = false →
      spanRead a x1 x2 y = .error pCustom ∧ ∀ i v, spanset a x1 x2 y i v = .error pCustom) ∧
    (rowSpanGuard a.w a.h x1 x2 y = true → x1 ≤ x2 →
      (∃ l, spanRead a x1 x2 y = .ok l ∧ l.length = (x2 - x1 + 1).toNat ∧
        ∀ i, 0 ≤ i → i ≤ x2 - x1 → l[i.toNat]? = cellAt a (x1 + i) y) ∧
      (∀ i v, 0 ≤ i → i ≤ x2 - x1 → spanset a x1 x2 y i v = Model.Array2D.set a (x1 + i) y v) ∧
      (∀ i v, ¬ (0 ≤ i ∧ i ≤ x2 - x1) → spanset a x1 x2 y i v = .error pBounds)) ∧
    (rowSpanGuard a.w a.h x1 x2 y = true → x1 = x2 + 1 → spanRead a x1 x2 y = .ok []) ∧
    (rowSpanGuard a.w a.h x1 x2 y = true → x1 > x2 + 1 → spanRead a x1 x2 y = .error pBounds) := by
  refine ⟨?_, ?_, ?_, ?_⟩
  · intro g
    unfold spanRead spanset
    rw [rowSpan_eq, g]
    exact ⟨rfl, fun _ _ => rfl⟩
  · intro g h12
    obtain ⟨g1, g2, g3⟩ := rowSpanGuard_iff.mp g
    obtain ⟨l1, l2, l3, l4, l5⟩ := win_live wf (xa := x1) (xb := x2) (lo := spanLo a.w x1 y) (hi := spanHi a.w x2 y)
      g2 g1.1 (by omega) g3.2 rfl rfl
    unfold spanRead spanset
    rw [rowSpan_eq, g, if_pos rfl, l1]
    refine ⟨⟨_, rfl, by rw [l2]; congr 1; omega, l3⟩, ?_, ?_⟩
    · intro i v hi0 hi1
      show (do let c ← winSet a.cells _ i v; pure { a with cells := c }) = _
      rw [l4 i v hi0 hi1, set_eq wf, if_pos ⟨by omega, by omega, g2.1, g2.2⟩]; rfl
    · intro i v hi
      show (do let c ← winSet a.cells _ i v; pure { a with cells := c }) = _
      rw [l5 i v hi]; rfl
  · intro g h12
    obtain ⟨g1, g2, g3⟩ := rowSpanGuard_iff.mp g
    obtain ⟨l1, l2, _, _, _⟩ := win_live wf (xa := x1) (xb := x2) (lo := spanLo a.w x1 y) (hi := spanHi a.w x2 y)
      g2 g1.1 (by omega) g3.2 rfl rfl
    unfold spanRead
    rw [rowSpan_eq, g, if_pos rfl, l1]
    show Except.ok _ = Except.ok []
    congr 1
    apply List.eq_nil_of_length_eq_zero
    rw [l2]; omega
  · intro g h12
    unfold spanRead
    rw [rowSpan_eq, g, if_pos rfl]
    unfold mkWin spanLo spanHi
    rw [if_neg (by omega)]; rfl

open TypVerif.Model.Array2D

/-- membership of a cell index in the window of row y, in coordinates -/
theorem mem_window_iff {a : A2D} {x' y' xa xb y : Int} (hb : InB a x' y') (hxa : 0 ≤ xa) (hxb : xb < a.w) (hy : 0 ≤ y) :
    ((spanLo a.w xa y).toNat ≤ (idx a.w x' y').toNat ∧ (idx a.w x' y').toNat < (spanHi a.w xb y).toNat) ↔
    (y' = y ∧ xa ≤ x' ∧ x' ≤ xb) := by
  have n1 := idx_nonneg hb
  have hw : 0 ≤ a.w := by unfold InB at hb; omega
  have n2 := Array2DArith.mul_nonneg' hw hy
  have key := Array2DArith.idx_in_window (w := a.w) (x1 := xa) (x2 := xb) (y := y) (x' := x') (y' := y') hxa hxb hb.1 hb.2.1
  unfold idx at n1 ⊢
  unfold spanLo spanHi
  rw [← key]
  omega

/-- the state of the backing slice while Fill works: rows y1 .. y-1 of the rectangle hold v, everything else is as in `a` -/
def FillInv (a : A2D) (x1 y1 x2 : Int) (v : Int) (c : List Int) (y : Int) : Prop :=
  c.length = a.cells.length ∧
  ∀ x' y', InB a x' y' →
    c[(idx a.w x' y').toNat]? =
      if y1 ≤ y' ∧ y' < y ∧ x1 ≤ x' ∧ x' ≤ x2 then some v else a.cells[(idx a.w x' y').toNat]?

theorem fillInv_first {a : A2D} (wf : WF a) {x1 y1 x2 : Int} (v : Int)
    (hx1 : 0 ≤ x1) (hx12 : x1 ≤ x2) (hx2 : x2 < a.w) (hy1 : 0 ≤ y1 ∧ y1 < a.h) :
    FillInv a x1 y1 x2 v
      (sliceFill a.cells (spanLo a.w x1 y1).toNat (winLen ((spanLo a.w x1 y1).toNat, (spanHi a.w x2 y1).toNat)) v) (y1 + 1) := by
  obtain ⟨w0, h0, hlen⟩ := wf
  have p1 := Array2DArith.mul_nonneg' w0 hy1.1
  have p2 := Array2DArith.row_end_le w0 hy1.2
  have hb : (spanLo a.w x1 y1).toNat + winLen ((spanLo a.w x1 y1).toNat, (spanHi a.w x2 y1).toNat) ≤ a.cells.length := by
    unfold winLen spanLo spanHi; simp only; omega
  obtain ⟨s1, s2⟩ := sliceFill_spec a.cells _ _ v hb
  refine ⟨s1, ?_⟩
  intro x' y' hbx
  rw [s2]
  have key := mem_window_iff (a := a) (xa := x1) (xb := x2) (y := y1) hbx hx1 hx2 hy1.1
  have e : (spanLo a.w x1 y1).toNat + winLen ((spanLo a.w x1 y1).toNat, (spanHi a.w x2 y1).toNat) = (spanHi a.w x2 y1).toNat := by
    unfold winLen spanLo spanHi; simp only; omega
  rw [e]
  by_cases hc : y' = y1 ∧ x1 ≤ x' ∧ x' ≤ x2
  · rw [if_pos (key.mpr hc), if_pos (by omega)]
  · rw [if_neg (fun h => hc (key.mp h)), if_neg (by omega)]

/-- one iteration of the row-copy loop -/
theorem fillInv_step {a : A2D} (wf : WF a) {x1 y1 x2 y : Int} (v : Int) (c : List Int)
    (hx1 : 0 ≤ x1) (hx12 : x1 ≤ x2) (hx2 : x2 < a.w) (hy1 : 0 ≤ y1 ∧ y1 < a.h) (hy : y1 < y ∧ y < a.h)
    (inv : FillInv a x1 y1 x2 v c y) :
    mkWin c (spanLo a.w x1 y) (spanHi a.w x2 y) = .ok ((spanLo a.w x1 y).toNat, (spanHi a.w x2 y).toNat) ∧
    FillInv a x1 y1 x2 v
      (copyAt c (spanLo a.w x1 y).toNat (winLen ((spanLo a.w x1 y).toNat, (spanHi a.w x2 y).toNat))
        (winRead c ((spanLo a.w x1 y1).toNat, (spanHi a.w x2 y1).toNat))) (y + 1) := by
  obtain ⟨ilen, icell⟩ := inv
  have wf' : WF { a with cells := c } := wf_setCells wf ilen
  obtain ⟨w0, h0, hlen⟩ := wf
  have q1 := Array2DArith.mul_nonneg' w0 hy1.1
  have q2 := Array2DArith.row_end_le w0 hy1.2
  have p1 := Array2DArith.mul_nonneg' w0 (show 0 ≤ y by omega)
  have p2 := Array2DArith.row_end_le w0 hy.2
  have m1 := (win_live wf' (xa := x1) (xb := x2) (y := y) (lo := spanLo a.w x1 y) (hi := spanHi a.w x2 y)
    ⟨by omega, hy.2⟩ hx1 (by omega) hx2 rfl rfl).1
  refine ⟨m1, ?_⟩
  have hsrc : (winRead c ((spanLo a.w x1 y1).toNat, (spanHi a.w x2 y1).toNat)).length = (x2 - x1 + 1).toNat := by
    rw [length_winRead _ _ _ (by unfold spanHi; omega)]; unfold spanLo spanHi; omega
  have hwl : winLen ((spanLo a.w x1 y).toNat, (spanHi a.w x2 y).toNat) = (x2 - x1 + 1).toNat := by
    unfold winLen spanLo spanHi; simp only; omega
  have hb : (spanLo a.w x1 y).toNat + min (winLen ((spanLo a.w x1 y).toNat, (spanHi a.w x2 y).toNat))
      (winRead c ((spanLo a.w x1 y1).toNat, (spanHi a.w x2 y1).toNat)).length ≤ c.length := by
    rw [hsrc, hwl]; unfold spanLo; omega
  refine ⟨by rw [length_copyAt _ _ _ _ hb]; exact ilen, ?_⟩
  intro x' y' hbx
  rw [getElem?_copyAt _ _ _ _ hb, hsrc, hwl]
  have key := mem_window_iff (a := a) (xa := x1) (xb := x2) (y := y) hbx hx1 hx2 (by omega)
  have e : (spanLo a.w x1 y).toNat + min (x2 - x1 + 1).toNat (x2 - x1 + 1).toNat = (spanHi a.w x2 y).toNat := by
    unfold spanLo spanHi; omega
  rw [e]
  by_cases hc : y' = y ∧ x1 ≤ x' ∧ x' ≤ x2
  · rw [if_pos (key.mpr hc), if_pos (by omega)]
    -- the source cell is cell (x', y1) of the first row, already v
    rw [getElem?_winRead]
    have hb1 : InB a x' y1 := ⟨hbx.1, hbx.2.1, hy1.1, hy1.2⟩
    have hsame : (spanLo a.w x1 y1).toNat + ((idx a.w x' y').toNat - (spanLo a.w x1 y).toNat) = (idx a.w x' y1).toNat := by
      obtain ⟨rfl, _, _⟩ := hc
      have := idx_nonneg hbx; have := idx_nonneg hb1
      unfold idx at *; unfold spanLo; omega
    rw [hsame, if_pos (by have := idx_nonneg hb1; unfold idx at *; unfold spanHi; omega), icell x' y1 hb1,
      if_pos (by omega)]
  · rw [if_neg (fun h => hc (key.mp h)), icell x' y' hbx]
    by_cases hd : y1 ≤ y' ∧ y' < y ∧ x1 ≤ x' ∧ x' ≤ x2
    · rw [if_pos hd, if_pos (by omega)]
    · rw [if_neg hd, if_neg (by omega)]

/-- the row-copy loop of Fill -/
theorem fillRows_spec {a : A2D} (wf : WF a) {x1 y1 x2 y2 : Int} (v : Int)
    (hx1 : 0 ≤ x1) (hx12 : x1 ≤ x2) (hx2 : x2 < a.w) (hy1 : 0 ≤ y1 ∧ y1 < a.h) (hy2 : y2 < a.h) :
    ∀ (fuel : Nat) (y : Int) (c : List Int), y1 < y → y ≤ y2 + 1 → fuel = (y2 + 1 - y).toNat →
      FillInv a x1 y1 x2 v c y →
      ∃ c', fillRows a.w x1 x2 y2 ((spanLo a.w x1 y1).toNat, (spanHi a.w x2 y1).toNat) fuel y c = .ok c' ∧
        FillInv a x1 y1 x2 v c' (y2 + 1) := by
  intro fuel
  induction fuel with
  | zero =>
    intro y c h1 h2 hf inv
    have : y = y2 + 1 := by omega
    subst this
    exact ⟨c, rfl, inv⟩
  | succ fuel ih =>
    intro y c h1 h2 hf inv
    have hle : y ≤ y2 := by omega
    obtain ⟨m1, inv'⟩ := fillInv_step wf v c hx1 hx12 hx2 hy1 ⟨h1, by omega⟩ inv
    obtain ⟨c', r1, r2⟩ := ih (y + 1) _ (by omega) (by omega) (by omega) inv'
    refine ⟨c', ?_, r2⟩
    unfold fillRows
    rw [if_pos hle, m1]
    exact r1

open TypVerif.Model.Array2D

/-- reading a cell of an array whose backing slice satisfies a pointwise description -/
theorem get_of_cells {a : A2D} {c : List Int} {P : Int → Int → Prop} [∀ x y, Decidable (P x y)] {v : Int}
    (hP : ∀ x y, P x y → InB a x y)
    (hc : ∀ x' y', InB a x' y' → c[(idx a.w x' y').toNat]? = if P x' y' then some v else a.cells[(idx a.w x' y').toNat]?)
    (x y : Int) :
    Model.Array2D.get { a with cells := c } x y = if P x y then .ok v else Model.Array2D.get a x y := by
  rw [get_eq, get_eq]
  by_cases hb : InB a x y
  · have hb' : InB { a with cells := c } x y := hb
    rw [if_pos hb, if_pos hb']
    unfold cellAt; simp only
    rw [hc x y hb]
    by_cases hp : P x y
    · rw [if_pos hp, if_pos hp]; rfl
    · rw [if_neg hp, if_neg hp]
  · have hb' : ¬ InB { a with cells := c } x y := hb
    rw [if_neg hb, if_neg hb', if_neg (fun hp => hb (hP x y hp))]

/-- Fill with sorted, in-bounds corners -/
theorem fillCore_spec {a : A2D} (wf : WF a) {x1 y1 x2 y2 : Int} (v : Int)
    (hx1 : 0 ≤ x1) (hx12 : x1 ≤ x2) (hx2 : x2 < a.w) (hy1 : 0 ≤ y1) (hy12 : y1 ≤ y2) (hy2 : y2 < a.h) :
    ∃ a', fillCore a x1 y1 x2 y2 v = .ok a' ∧ a'.w = a.w ∧ a'.h = a.h ∧ WF a' ∧
      ∀ x y, Model.Array2D.get a' x y =
        if x1 ≤ x ∧ x ≤ x2 ∧ y1 ≤ y ∧ y ≤ y2 then .ok v else Model.Array2D.get a x y := by
  have m1 := (win_live wf (xa := x1) (xb := x2) (y := y1) (lo := spanLo a.w x1 y1) (hi := spanHi a.w x2 y1)
    ⟨hy1, by omega⟩ hx1 (by omega) hx2 rfl rfl).1
  have inv1 := fillInv_first wf v hx1 hx12 hx2 ⟨hy1, by omega⟩
  obtain ⟨c', r1, r2⟩ := fillRows_spec wf v hx1 hx12 hx2 ⟨hy1, by omega⟩ hy2 (y2 - y1).toNat (y1 + 1) _
    (by omega) (by omega) (by omega) inv1
  refine ⟨{ a with cells := c' }, ?_, rfl, rfl, wf_setCells wf r2.1, ?_⟩
  · unfold fillCore
    rw [m1]
    show (do let c ← fillRows a.w x1 x2 y2 _ (y2 - y1).toNat (y1 + 1) _; pure { a with cells := c }) = _
    rw [r1]; rfl
  · intro x y
    have := get_of_cells (a := a) (c := c') (P := fun x y => x1 ≤ x ∧ x ≤ x2 ∧ y1 ≤ y ∧ y ≤ y2) (v := v)
      (fun x y hp => ⟨by omega, by omega, by omega, by omega⟩)
      (fun x' y' hb => by
        rw [r2.2 x' y' hb]
        by_cases hd : y1 ≤ y' ∧ y' < y2 + 1 ∧ x1 ≤ x' ∧ x' ≤ x2
        · rw [if_pos hd, if_pos (by omega)]
        · rw [if_neg hd, if_neg (by omega)]) x y
    exact this

theorem fillGuard_iff {a : A2D} {x1 y1 x2 y2 : Int} :
    fillGuard a.w a.h x1 y1 x2 y2 = true ↔
      (0 ≤ x1 ∧ x1 < a.w) ∧ (0 ≤ y1 ∧ y1 < a.h) ∧ (0 ≤ x2 ∧ x2 < a.w) ∧ (0 ≤ y2 ∧ y2 < a.h) := by
  simp [fillGuard, oob]; omega

theorem fill_eq {a : A2D} (x1 y1 x2 y2 v : Int) :
    fill a x1 y1 x2 y2 v =
      if fillGuard a.w a.h x1 y1 x2 y2 then
        fillCore a (if x2 < x1 then x2 else x1) (if y2 < y1 then y2 else y1)
          (if x2 < x1 then x1 else x2) (if y2 < y1 then y1 else y2) v
      else .error pCustom := by
  unfold fill fillGuard
  cases oob a.w x1 <;> cases oob a.h y1 <;> cases oob a.w x2 <;> cases oob a.h y2 <;>
    simp only [Bool.not_true, Bool.not_false, Bool.and_true, Bool.and_false, Bool.false_eq_true, if_true, if_false] <;>
    (by_cases hx : x2 < x1 <;> by_cases hy : y2 < y1 <;> simp [hx, hy])

/-- Fill assigns exactly the inclusive rectangle, whichever corners are given; it panics iff a corner is outside -/
theorem fill_exact {a : A2D} (wf : WF a) (x1 y1 x2 y2 v : Int) :
    (fillGuard a.w a.h x1 y1 x2 y2 = false → fill a x1 y1 x2 y2 v = .error pCustom) ∧
    (fillGuard a.w a.h x1 y1 x2 y2 = true →
      ∃ a', fill a x1 y1 x2 y2 v = .ok a' ∧ a'.w = a.w ∧ a'.h = a.h ∧ WF a' ∧
        ∀ x y, Model.Array2D.get a' x y =
          if min x1 x2 ≤ x ∧ x ≤ max x1 x2 ∧ min y1 y2 ≤ y ∧ y ≤ max y1 y2 then .ok v
          else Model.Array2D.get a x y) := by
  constructor
  · intro g; rw [fill_eq, g]; rfl
  · intro g
    obtain ⟨g1, g2, g3, g4⟩ := fillGuard_iff.mp g
    rw [fill_eq, g, if_pos rfl]
    obtain ⟨a', r1, r2, r3, r4, r5⟩ := fillCore_spec wf (x1 := if x2 < x1 then x2 else x1) (y1 := if y2 < y1 then y2 else y1)
      (x2 := if x2 < x1 then x1 else x2) (y2 := if y2 < y1 then y1 else y2) v
      (by split <;> omega) (by split <;> omega) (by split <;> omega) (by split <;> omega) (by split <;> omega) (by split <;> omega)
    refine ⟨a', r1, r2, r3, r4, ?_⟩
    intro x y
    rw [r5 x y]
    have e : ((if x2 < x1 then x2 else x1) ≤ x ∧ x ≤ (if x2 < x1 then x1 else x2) ∧
        (if y2 < y1 then y2 else y1) ≤ y ∧ y ≤ (if y2 < y1 then y1 else y2)) ↔
        (min x1 x2 ≤ x ∧ x ≤ max x1 x2 ∧ min y1 y2 ≤ y ∧ y ≤ max y1 y2) := by
      by_cases hx : x2 < x1 <;> by_cases hy : y2 < y1 <;> simp only [hx, hy, if_true, if_false] <;> omega
    by_cases hc : min x1 x2 ≤ x ∧ x ≤ max x1 x2 ∧ min y1 y2 ≤ y ∧ y ≤ max y1 y2
    · rw [if_pos hc, if_pos (e.mpr hc)]
    · rw [if_neg hc, if_neg (fun h => hc (e.mp h))]

open TypVerif.Model.Array2D

theorem newLen_nonneg {w h : Int} (hw : 0 ≤ w) (hh : 0 ≤ h) : 0 ≤ newLen w h := Int.mul_nonneg hw hh

theorem sliceFill_replicate (n : Nat) (v : Int) :
    sliceFill (List.replicate n (0 : Int)) 0 (List.replicate n (0 : Int)).length v = List.replicate n v := by
  obtain ⟨s1, s2⟩ := sliceFill_spec (List.replicate n (0 : Int)) 0 (List.replicate n (0 : Int)).length v (by omega)
  apply List.ext_getElem?
  intro j
  rw [s2 j, List.getElem?_replicate, List.getElem?_replicate, List.length_replicate]
  by_cases h : j < n
  · rw [if_pos (by omega), if_pos h]
  · rw [if_neg (by omega), if_neg h, if_neg h]

/-- New2D: a well-formed array of zeros -/
theorem new2D_spec {w h : Int} (hw : 0 ≤ w) (hh : 0 ≤ h) :
    new2D w h = .ok ⟨w, h, List.replicate (w * h).toNat 0⟩ ∧ WF ⟨w, h, List.replicate (w * h).toNat 0⟩ := by
  have := newLen_nonneg hw hh
  unfold new2D
  rw [if_neg (by omega)]
  unfold newLen at *
  exact ⟨rfl, hw, hh, by simp only [List.length_replicate]; omega⟩

/-- New2DFilled: a well-formed array in which every cell holds v -/
theorem new2DFilled_spec {w h : Int} (v : Int) (hw : 0 ≤ w) (hh : 0 ≤ h) :
    new2DFilled w h v = .ok ⟨w, h, List.replicate (w * h).toNat v⟩ ∧ WF ⟨w, h, List.replicate (w * h).toNat v⟩ := by
  have := newLen_nonneg hw hh
  unfold new2DFilled
  rw [if_neg (by omega)]
  simp only
  rw [sliceFill_replicate]
  unfold newLen at *
  exact ⟨rfl, hw, hh, by simp only [List.length_replicate]; omega⟩

theorem get_replicate {w h v : Int} (hw : 0 ≤ w) (hh : 0 ≤ h) (x y : Int) :
    Model.Array2D.get ⟨w, h, List.replicate (w * h).toNat v⟩ x y =
      if 0 ≤ x ∧ x < w ∧ 0 ≤ y ∧ y < h then .ok v else .error pCustom := by
  have wf : WF ⟨w, h, List.replicate (w * h).toNat v⟩ := ⟨hw, hh, by simp only [List.length_replicate]; have := Int.mul_nonneg hw hh; omega⟩
  rw [get_eq]
  by_cases hb : InB ⟨w, h, List.replicate (w * h).toNat v⟩ x y
  · rw [if_pos hb, if_pos (show 0 ≤ x ∧ x < w ∧ 0 ≤ y ∧ y < h from hb)]
    have h1 := idx_nonneg hb
    have h2 := idx_lt_len wf hb
    unfold cellAt
    simp only [List.getElem?_replicate]
    simp only [List.length_replicate] at h1 h2
    rw [if_pos (by omega)]; rfl
  · rw [if_neg hb, if_neg (show ¬ (0 ≤ x ∧ x < w ∧ 0 ≤ y ∧ y < h) from hb)]

/-- Clone copies every cell (and, being a fresh value in the functional model, shares nothing) -/
theorem clone_eq (a : A2D) : clone a = a := by
  unfold clone copyAt
  simp

theorem mapM_ok {α β : Type} (f : α → Except String β) (g : α → β) (l : List α) (h : ∀ x ∈ l, f x = .ok (g x)) :
    l.mapM f = .ok (l.map g) := by
  induction l with
  | nil => rfl
  | cons x xs ih =>
    rw [List.mapM_cons, h x List.mem_cons_self, ih (fun y hy => h y (List.mem_cons_of_mem _ hy))]
    rfl

/-- the traversal of String() reads every cell (x,y), row by row -/
theorem cellsRows_spec {a : A2D} (wf : WF a) :
    cellsRows a = .ok ((List.range a.h.toNat).map fun (y : Nat) =>
      (List.range a.w.toNat).map fun (x : Nat) => (cellAt a (Int.ofNat x) (Int.ofNat y)).getD 0) := by
  unfold cellsRows
  apply mapM_ok
  intro y hy
  apply mapM_ok
  intro x hx
  have hy' := List.mem_range.mp hy
  have hx' := List.mem_range.mp hx
  have hb : InB a (Int.ofNat x) (Int.ofNat y) := by
    unfold InB; simp only [Int.ofNat_eq_natCast]; omega
  obtain ⟨v, hv⟩ := cellAt_some wf hb
  unfold getUnchecked
  rw [sliceGet_nonneg (idx_nonneg hb)]
  unfold cellAt at hv ⊢
  rw [hv]; rfl

open TypVerif.Model.Array2D

/-- the jagged value that lands on cell (x', y') when the rows `rest` are copied to rows y, y+1, … -/
def jagAt (rest : List (List Int)) (y x' y' : Int) : Option Int :=
  if y ≤ y' then (rest[(y' - y).toNat]?).bind (fun r => r[x'.toNat]?) else none

def orElse (o : Option Int) (d : Option Int) : Option Int :=
  match o with
  | some v => some v
  | none => d

/-- copying one jagged row onto Row(y) -/
theorem cellAt_copyRow {a : A2D} (wf : WF a) {y : Int} (hy : 0 ≤ y ∧ y < a.h) (r : List Int) :
    WF { a with cells := copyAt a.cells (rowLo a.w y).toNat (winLen ((rowLo a.w y).toNat, (rowHi a.w y).toNat)) r } ∧
    ∀ x' y', InB a x' y' →
      cellAt { a with cells := copyAt a.cells (rowLo a.w y).toNat (winLen ((rowLo a.w y).toNat, (rowHi a.w y).toNat)) r } x' y' =
        if y' = y then orElse r[x'.toNat]? (cellAt a x' y') else cellAt a x' y' := by
  have wf0 := wf
  obtain ⟨w0, h0, hlen⟩ := wf
  have p1 := Array2DArith.mul_nonneg' w0 hy.1
  have p2 := Array2DArith.row_end_le w0 hy.2
  have hwl : winLen ((rowLo a.w y).toNat, (rowHi a.w y).toNat) = a.w.toNat := by
    unfold winLen rowLo rowHi; simp only; omega
  have hb : (rowLo a.w y).toNat + min (winLen ((rowLo a.w y).toNat, (rowHi a.w y).toNat)) r.length ≤ a.cells.length := by
    rw [hwl]; unfold rowLo; omega
  refine ⟨wf_setCells wf0 (length_copyAt _ _ _ _ hb), ?_⟩
  intro x' y' hbx
  unfold cellAt
  simp only
  rw [getElem?_copyAt _ _ _ _ hb, hwl]
  have n1 := idx_nonneg hbx
  have key := Array2DArith.idx_in_window (w := a.w) (x1 := 0) (x2 := a.w - 1) (y := y) (x' := x') (y' := y')
    (by omega) (by omega) hbx.1 hbx.2.1
  by_cases hyy : y' = y
  · subst hyy
    rw [if_pos rfl]
    by_cases hx : x'.toNat < r.length
    · rw [if_pos (by unfold idx at *; unfold rowLo; have := hbx.1; have := hbx.2.1; omega)]
      have e : (idx a.w x' y').toNat - (rowLo a.w y').toNat = x'.toNat := by
        unfold idx at *; unfold rowLo; have := hbx.1; omega
      rw [e]
      have : r[x'.toNat]? = some r[x'.toNat] := List.getElem?_eq_getElem hx
      rw [this]; rfl
    · rw [if_neg (by unfold idx at *; unfold rowLo; have := hbx.1; omega)]
      have : r[x'.toNat]? = none := by rw [List.getElem?_eq_none_iff]; omega
      rw [this]; rfl
  · rw [if_neg hyy, if_neg]
    intro ⟨c1, c2⟩
    apply hyy
    have : 0 + y * a.w ≤ x' + y' * a.w ∧ x' + y' * a.w < 1 + (a.w - 1) + y * a.w := by
      unfold idx at *; unfold rowLo at *; omega
    exact (key.mp this).1

theorem jaggedLoop_spec : ∀ (rest : List (List Int)) (a : A2D) (y : Int), WF a → 0 ≤ y →
    ∃ a', jaggedLoop a y rest = .ok a' ∧ a'.w = a.w ∧ a'.h = a.h ∧ WF a' ∧
      ∀ x' y', InB a x' y' → cellAt a' x' y' = orElse (jagAt rest y x' y') (cellAt a x' y') := by
  intro rest
  induction rest with
  | nil =>
    intro a y wf hy
    refine ⟨a, rfl, rfl, rfl, wf, ?_⟩
    intro x' y' _
    unfold jagAt
    split <;> rfl
  | cons r rest ih =>
    intro a y wf hy
    unfold jaggedLoop
    by_cases hge : y ≥ a.h
    · rw [if_pos hge]
      refine ⟨a, rfl, rfl, rfl, wf, ?_⟩
      intro x' y' hb
      unfold jagAt
      rw [if_neg (by unfold InB at hb; omega)]; rfl
    · rw [if_neg hge]
      have hy' : 0 ≤ y ∧ y < a.h := ⟨hy, by omega⟩
      rw [row_ok wf hy']
      obtain ⟨wf1, c1⟩ := cellAt_copyRow wf hy' r
      obtain ⟨a', r1, r2, r3, r4, r5⟩ := ih _ (y + 1) wf1 (by omega)
      refine ⟨a', r1, r2, r3, r4, ?_⟩
      intro x' y' hb
      rw [r5 x' y' hb, c1 x' y' hb]
      unfold jagAt
      by_cases h1 : y' = y
      · subst h1
        rw [if_neg (by omega), if_pos rfl, if_pos (by omega)]
        have : (y' - y').toNat = 0 := by omega
        rw [this]; rfl
      · rw [if_neg h1]
        by_cases h2 : y + 1 ≤ y'
        · rw [if_pos h2, if_pos (by omega)]
          have : (y' - y).toNat = (y' - (y + 1)).toNat + 1 := by omega
          rw [this, List.getElem?_cons_succ]
        · rw [if_neg h2, if_neg (by omega)]

/-- New2DFromJagged: cell (x,y) = jagged[y][x] when both exist and are in bounds, zero otherwise -/
theorem fromJagged_spec {w h : Int} (hw : 0 ≤ w) (hh : 0 ≤ h) (jagged : List (List Int)) :
    ∃ a', fromJagged w h jagged = .ok a' ∧ a'.w = w ∧ a'.h = h ∧ WF a' ∧
      ∀ x y, Model.Array2D.get a' x y =
        if 0 ≤ x ∧ x < w ∧ 0 ≤ y ∧ y < h then
          .ok (((jagged[y.toNat]?).bind (fun r => r[x.toNat]?)).getD 0)
        else .error pCustom := by
  obtain ⟨n1, wf0⟩ := new2D_spec hw hh
  obtain ⟨a', r1, r2, r3, r4, r5⟩ := jaggedLoop_spec jagged _ 0 wf0 (by omega)
  refine ⟨a', ?_, r2, r3, r4, ?_⟩
  · unfold fromJagged; rw [n1]; exact r1
  · intro x y
    rw [get_eq]
    by_cases hb : 0 ≤ x ∧ x < w ∧ 0 ≤ y ∧ y < h
    · have hb' : InB a' x y := by unfold InB; rw [r2, r3]; exact hb
      rw [if_pos hb', if_pos hb, r5 x y hb]
      have z : cellAt ⟨w, h, List.replicate (w * h).toNat 0⟩ x y = some 0 := by
        have g := get_replicate (v := 0) hw hh x y
        rw [get_eq, if_pos hb, if_pos (show InB ⟨w, h, List.replicate (w * h).toNat 0⟩ x y from hb)] at g
        cases hc : cellAt ⟨w, h, List.replicate (w * h).toNat 0⟩ x y with
        | none => rw [hc] at g; cases g
        | some v => rw [hc] at g; cases g; rfl
      rw [z]
      unfold jagAt
      rw [if_pos hb.2.2.1, Int.sub_zero]
      cases (jagged[y.toNat]?).bind (fun r => r[x.toNat]?) <;> rfl
    · have hb' : ¬ InB a' x y := by unfold InB; rw [r2, r3]; exact hb
      rw [if_neg hb', if_neg hb]

/-- a 3×2 array (w ≠ h) used for the non-vacuity examples of `Props/C08.lean` -/
def ex32 : A2D := ⟨3, 2, [1, 2, 3, 4, 5, 6]⟩
theorem ex32_wf : WF ex32 := by unfold WF ex32; decide

end TypVerif.Lemmas.Array2D
