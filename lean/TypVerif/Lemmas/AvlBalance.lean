import TypVerif.Lemmas.AvlBasic
/-
C02: `rebalance` restores the AVL invariant; `add`, `remove`, `popLeftMost` preserve it and change the height by at
most one.
-/
namespace TypVerif.Lemmas.Avl
open TypVerif.Model.Avl TypVerif.Model.Avl.Node TypVerif.Spec.Avl

variable {α : Type}

theorem height_ge (t : Node α) : height t ≥ -1 := by
  cases t with
  | nil => simp [height]
  | node l v h r => simp only [height]; have := height_ge l; omega

@[simp] theorem height_nil : height (nil : Node α) = -1 := rfl
theorem height_node (l : Node α) v h r : height (node l v h r) = 1 + max (height l) (height r) := rfl
@[simp] theorem height_mk (l : Node α) v r : height (mk l v r) = 1 + max (height l) (height r) := rfl
@[simp] theorem height_leaf (v : α) : height (leaf v) = 0 := by simp [leaf, height]

theorem hgt_eq_height {t : Node α} (h : AVL t) : hgt t = height t := by
  cases t with
  | nil => rfl
  | node l v c r => simp only [AVL] at h; simp only [hgt, height]; exact h.2.2.1

theorem calcHeight_eq (l r : Node α) (hl : hgt l ≥ -1) (hr : hgt r ≥ -1) :
    calcHeight l r = 1 + max (hgt l) (hgt r) := by
  cases l <;> cases r <;> simp only [calcHeight, hgt] at * <;> omega

theorem calcHeight_avl {l r : Node α} (hl : AVL l) (hr : AVL r) :
    calcHeight l r = 1 + max (height l) (height r) := by
  have h1 := hgt_eq_height hl
  have h2 := hgt_eq_height hr
  have := height_ge l
  have := height_ge r
  rw [calcHeight_eq l r (by omega) (by omega), h1, h2]

theorem avl_mk {l r : Node α} (v : α) (hl : AVL l) (hr : AVL r)
    (h1 : height l - height r ≤ 1) (h2 : height r - height l ≤ 1) : AVL (mk l v r) := by
  unfold mk; simp only [AVL]
  exact ⟨hl, hr, calcHeight_avl hl hr, h1, h2⟩

theorem avl_leaf (v : α) : AVL (leaf v) := by
  simp [leaf, AVL, height]

theorem refresh_avl {t : Node α} (h : AVL t) : refresh t = t := by
  cases t with
  | nil => rfl
  | node l v c r =>
    simp only [AVL] at h
    simp only [refresh, mk]
    rw [calcHeight_avl h.1 h.2.1, h.2.2.1]

theorem avl_node_iff (l : Node α) v h r : AVL (node l v h r) ↔
    (AVL l ∧ AVL r ∧ h = 1 + max (height l) (height r) ∧ height l - height r ≤ 1 ∧ height r - height l ≤ 1) := by
  simp only [AVL]

/-- the linear-time checker used by the C02 judge decides `AVL` and computes the height -/
theorem avlHeight?_iff (t : Node α) (k : Int) : avlHeight? t = some k ↔ AVL t ∧ height t = k := by
  induction t generalizing k with
  | nil => simp [avlHeight?, AVL, height]
  | node l v h r ihl ihr =>
    simp only [avlHeight?, AVL, height]
    cases hl : avlHeight? l with
    | none =>
      simp only
      constructor
      · intro hx; cases hx
      · rintro ⟨⟨al, _⟩, _⟩
        have := (ihl (height l)).mpr ⟨al, rfl⟩
        rw [hl] at this; cases this
    | some a =>
      cases hr : avlHeight? r with
      | none =>
        simp only
        constructor
        · intro hx; cases hx
        · rintro ⟨⟨_, ar, _⟩, _⟩
          have := (ihr (height r)).mpr ⟨ar, rfl⟩
          rw [hr] at this; cases this
      | some b =>
        obtain ⟨al, ea⟩ := (ihl a).mp hl
        obtain ⟨ar, eb⟩ := (ihr b).mp hr
        simp only
        subst ea eb
        constructor
        · intro hx
          split at hx
          · rename_i hc
            cases hx
            exact ⟨⟨al, ar, hc.1, hc.2.1, hc.2.2⟩, hc.1.symm⟩
          · cases hx
        · rintro ⟨⟨_, _, e1, e2, e3⟩, e4⟩
          rw [if_pos ⟨e1, e2, e3⟩, e1, e4]

/-- `balance` in terms of true heights -/
theorem balance_mk {l r : Node α} (v : α) (hl : AVL l) (hr : AVL r) :
    balance (mk l v r) = if height l - height r > 1 then -1 else if height r - height l > 1 then 1 else 0 := by
  simp only [mk, balance, hgt_eq_height hl, hgt_eq_height hr]

/-- The heart of C02: `rebalance` applied to a cell whose subtrees are AVL and whose heights differ by at most 2
yields an AVL tree, of height `1 + max` when nothing had to be done and `max` or `1 + max` after a rotation. -/
theorem rebalance_spec (l : Node α) (v : α) (r : Node α) (hl : AVL l) (hr : AVL r)
    (hd1 : height l - height r ≤ 2) (hd2 : height r - height l ≤ 2) :
    AVL (rebalance (mk l v r)) ∧
    (height l - height r ≤ 1 → height r - height l ≤ 1 →
      height (rebalance (mk l v r)) = 1 + max (height l) (height r)) ∧
    (height (rebalance (mk l v r)) = max (height l) (height r) ∨
      height (rebalance (mk l v r)) = 1 + max (height l) (height r)) := by
  have hb := balance_mk v hl hr
  have gl := height_ge l
  have gr := height_ge r
  by_cases c1 : height l - height r > 1
  · -- left heavy
    have hb' : balance (mk l v r) = -1 := by rw [hb]; simp [c1]
    cases l with
    | nil => simp at c1; omega
    | node ll lv lh lr =>
      have hl' := hl
      simp only [AVL] at hl'
      obtain ⟨all, alr, hlh, b1, b2⟩ := hl'
      have gll := height_ge ll
      have glr := height_ge lr
      rw [height_node] at c1 hd1 hd2 ⊢
      by_cases c2 : height lr > height ll
      · -- double rotation
        cases lr with
        | nil => simp at c2; omega
        | node lrl lrv lrh lrr =>
          have alr' := alr
          simp only [AVL] at alr'
          obtain ⟨a1, a2, hh, b3, b4⟩ := alr'
          have g1 := height_ge lrl
          have g2 := height_ge lrr
          have e : rebalance (mk (node ll lv lh (node lrl lrv lrh lrr)) v r)
              = mk (mk ll lv lrl) lrv (mk lrr v r) := by
            have hc : hgt (node lrl lrv lrh lrr) > hgt ll := by
              rw [hgt_eq_height alr, hgt_eq_height all]; exact c2
            unfold rebalance
            simp only [mk] at hb' ⊢
            simp only [hb']
            simp [isNil, hc, rotateRightLeft, rotateLeft, rotateRight, refresh_avl a1, refresh_avl a2, mk]
          rw [e]
          rw [height_node] at c2 b1 b2 c1 hd1 hd2 ⊢
          have A1 : AVL (mk ll lv lrl) := avl_mk lv all a1 (by omega) (by omega)
          have A2 : AVL (mk lrr v r) := avl_mk v a2 hr (by omega) (by omega)
          refine ⟨avl_mk lrv A1 A2 (by simp only [height_mk]; omega) (by simp only [height_mk]; omega), ?_, ?_⟩
          · intro h; omega
          · simp only [height_mk]; omega
      · -- single rotation
        have e : rebalance (mk (node ll lv lh lr) v r) = mk ll lv (mk lr v r) := by
          have hc : ¬ hgt lr > hgt ll := by
            rw [hgt_eq_height alr, hgt_eq_height all]; exact c2
          unfold rebalance
          simp only [mk] at hb' ⊢
          simp only [hb']
          simp [isNil, hc, rotateRight, refresh_avl alr, mk]
        rw [e]
        have A2 : AVL (mk lr v r) := avl_mk v alr hr (by omega) (by omega)
        refine ⟨avl_mk lv all A2 (by simp only [height_mk]; omega) (by simp only [height_mk]; omega), ?_, ?_⟩
        · intro h; omega
        · simp only [height_mk]; omega
  · by_cases c3 : height r - height l > 1
    · -- right heavy
      have hb' : balance (mk l v r) = 1 := by rw [hb]; simp [c1, c3]
      cases r with
      | nil => simp at c3; omega
      | node rl rv rh rr =>
        have hr' := hr
        simp only [AVL] at hr'
        obtain ⟨arl, arr, hrh, b1, b2⟩ := hr'
        have grl := height_ge rl
        have grr := height_ge rr
        rw [height_node] at c3 hd1 hd2 ⊢
        by_cases c2 : height rl > height rr
        · cases rl with
          | nil => simp at c2; omega
          | node rll rlv rlh rlr =>
            have arl' := arl
            simp only [AVL] at arl'
            obtain ⟨a1, a2, hh, b3, b4⟩ := arl'
            have g1 := height_ge rll
            have g2 := height_ge rlr
            have e : rebalance (mk l v (node (node rll rlv rlh rlr) rv rh rr))
                = mk (mk l v rll) rlv (mk rlr rv rr) := by
              have hc : hgt (node rll rlv rlh rlr) > hgt rr := by
                rw [hgt_eq_height arl, hgt_eq_height arr]; exact c2
              unfold rebalance
              simp only [mk] at hb' ⊢
              simp only [hb']
              simp [isNil, hc, rotateLeftRight, rotateLeft, rotateRight, refresh_avl a1, refresh_avl a2, mk]
            rw [e]
            rw [height_node] at c2 b1 b2 c3 hd1 hd2 ⊢
            have A1 : AVL (mk l v rll) := avl_mk v hl a1 (by omega) (by omega)
            have A2 : AVL (mk rlr rv rr) := avl_mk rv a2 arr (by omega) (by omega)
            refine ⟨avl_mk rlv A1 A2 (by simp only [height_mk]; omega) (by simp only [height_mk]; omega), ?_, ?_⟩
            · intro h h'; omega
            · simp only [height_mk]; omega
        · have e : rebalance (mk l v (node rl rv rh rr)) = mk (mk l v rl) rv rr := by
            have hc : ¬ hgt rl > hgt rr := by
              rw [hgt_eq_height arl, hgt_eq_height arr]; exact c2
            unfold rebalance
            simp only [mk] at hb' ⊢
            simp only [hb']
            simp [isNil, hc, rotateLeft, refresh_avl arl, mk]
          rw [e]
          have A1 : AVL (mk l v rl) := avl_mk v hl arl (by omega) (by omega)
          refine ⟨avl_mk rv A1 arr (by simp only [height_mk]; omega) (by simp only [height_mk]; omega), ?_, ?_⟩
          · intro h h'; omega
          · simp only [height_mk]; omega
    · -- balanced: nothing happens
      have hb' : balance (mk l v r) = 0 := by rw [hb]; simp [c1, c3]
      have e : rebalance (mk l v r) = mk l v r := by
        unfold rebalance
        simp only [mk] at hb' ⊢
        simp [hb']
      rw [e]
      refine ⟨avl_mk v hl hr (by omega) (by omega), ?_, ?_⟩
      · intro _ _; rfl
      · right; rfl

/-- `rebalance` never dereferences a nil pointer on cells whose subtrees have correct cached heights. -/
theorem rebalanceE_eq (l : Node α) (v : α) (h : Int) (r : Node α) (hl : AVL l) (hr : AVL r) :
    rebalanceE (node l v h r) = .ok (rebalance (node l v h r)) := by
  have gl := height_ge l
  have gr := height_ge r
  have e1 := hgt_eq_height hl
  have e2 := hgt_eq_height hr
  by_cases c1 : hgt l - hgt r > 1
  · have hb : balance (node l v h r) = -1 := by simp [balance, c1]
    cases l with
    | nil => simp only [hgt] at c1 e2; omega
    | node ll lv lh lr =>
      simp only [AVL] at hl
      have e3 := hgt_eq_height hl.1
      have e4 := hgt_eq_height hl.2.1
      have g3 := height_ge ll
      by_cases c2 : hgt lr > hgt ll
      · cases lr with
        | nil => rw [e3, e4] at c2; simp only [height_nil] at c2; omega
        | node lrl lrv lrh lrr =>
          simp only [rebalanceE, rebalance, hb, isNil, c2]
          simp [rotateRightLeftE, rotateRightLeft, rotateRightE, rotateRight, rotateLeftE, rotateLeft, bind, Except.bind, mk]
      · simp only [rebalanceE, rebalance, hb, isNil, c2]
        simp [rotateRightE, rotateRight]
  · by_cases c3 : hgt r - hgt l > 1
    · have hb : balance (node l v h r) = 1 := by simp [balance, c1, c3]
      cases r with
      | nil => simp only [hgt] at c3 e1; omega
      | node rl rv rh rr =>
        simp only [AVL] at hr
        have e3 := hgt_eq_height hr.1
        have e4 := hgt_eq_height hr.2.1
        have g4 := height_ge rr
        by_cases c2 : hgt rl > hgt rr
        · cases rl with
          | nil => rw [e3, e4] at c2; simp only [height_nil] at c2; omega
          | node rll rlv rlh rlr =>
            simp only [rebalanceE, rebalance, hb, isNil, c2]
            simp [rotateLeftRightE, rotateLeftRight, rotateRightE, rotateRight, rotateLeftE, rotateLeft, bind, Except.bind, mk]
        · simp only [rebalanceE, rebalance, hb, isNil, c2]
          simp [rotateLeftE, rotateLeft]
    · have hb : balance (node l v h r) = 0 := by simp [balance, c1, c3]
      simp [rebalanceE, rebalance, hb]

/-- C02.add_avl -/
theorem add_avl (cmp : α → α → Int) (x : α) (t : Node α) (ht : AVL t) :
    AVL (add cmp x t) ∧ (height (add cmp x t) = height t ∨ height (add cmp x t) = height t + 1) := by
  induction t with
  | nil => simp only [add]; exact ⟨avl_leaf x, by simp⟩
  | node l v h r ihl ihr =>
    simp only [AVL] at ht
    obtain ⟨al, ar, _, b1, b2⟩ := ht
    simp only [add, height_node]
    split
    · obtain ⟨al', hh⟩ := ihl al
      obtain ⟨A, B, C⟩ := rebalance_spec (add cmp x l) v r al' ar (by omega) (by omega)
      refine ⟨A, ?_⟩
      omega
    · obtain ⟨ar', hh⟩ := ihr ar
      obtain ⟨A, B, C⟩ := rebalance_spec l v (add cmp x r) al ar' (by omega) (by omega)
      refine ⟨A, ?_⟩
      omega

/-- C02.popLeftMost_avl -/
theorem popLeftMost_avl (l : Node α) (v : α) (r : Node α) (hl : AVL l) (hr : AVL r)
    (b1 : height l - height r ≤ 1) (b2 : height r - height l ≤ 1) :
    AVL (popLeftMost l v r).1 ∧
    (height (popLeftMost l v r).1 = 1 + max (height l) (height r) ∨
     height (popLeftMost l v r).1 = max (height l) (height r)) := by
  induction l generalizing v r with
  | nil =>
    simp only [popLeftMost, height_nil] at *
    have := height_ge r
    exact ⟨hr, by omega⟩
  | node ll lv lh lr ihl _ =>
    simp only [AVL] at hl
    obtain ⟨all, alr, _, c1, c2⟩ := hl
    obtain ⟨A0, H0⟩ := ihl lv lr all alr c1 c2
    simp only [popLeftMost, height_node] at *
    obtain ⟨A, B, C⟩ := rebalance_spec (popLeftMost ll lv lr).1 v r A0 hr (by omega) (by omega)
    refine ⟨A, ?_⟩
    omega

/-- C02.remove_avl -/
theorem remove_avl [DecidableEq α] (cmp : α → α → Int) (x : α) (t : Node α) (ht : AVL t) :
    AVL (remove cmp x t).1 ∧
    (height (remove cmp x t).1 = height t ∨ height (remove cmp x t).1 = height t - 1) := by
  induction t with
  | nil => simp [remove, AVL]
  | node l v h r ihl ihr =>
    have ht' := ht
    simp only [AVL] at ht'
    obtain ⟨al, ar, _, b1, b2⟩ := ht'
    have gl := height_ge l
    have gr := height_ge r
    unfold remove
    split
    · -- found here
      cases l with
      | nil =>
        cases r with
        | nil => simp [AVL, height]
        | node rl rv rh rr => simp only [height_node, height_nil] at *; exact ⟨ar, by omega⟩
      | node ll lv lh lr =>
        cases r with
        | nil => simp only [height_node, height_nil] at *; exact ⟨al, by omega⟩
        | node rl rv rh rr =>
          simp only
          have ar' := ar
          simp only [AVL] at ar'
          obtain ⟨arl, arr, _, c1, c2⟩ := ar'
          obtain ⟨A0, H0⟩ := popLeftMost_avl rl rv rr arl arr c1 c2
          simp only [height_node] at *
          obtain ⟨A, B, C⟩ := rebalance_spec (node ll lv lh lr) (popLeftMost rl rv rr).2 (popLeftMost rl rv rr).1 al A0
            (by simp only [height_node]; omega) (by simp only [height_node]; omega)
          simp only [height_node] at A B C
          refine ⟨A, ?_⟩
          omega
    · split
      · obtain ⟨A0, H0⟩ := ihl al
        rcases hrem : remove cmp x l with ⟨newNode, ok⟩
        rw [hrem] at A0 H0
        simp only at A0 H0 ⊢
        cases ok with
        | true =>
          simp only [if_true, height_node]
          obtain ⟨A, B, C⟩ := rebalance_spec newNode v r A0 ar (by omega) (by omega)
          refine ⟨A, ?_⟩
          omega
        | false => exact ⟨ht, Or.inl rfl⟩
      · split
        · obtain ⟨A0, H0⟩ := ihr ar
          rcases hrem : remove cmp x r with ⟨newNode, ok⟩
          rw [hrem] at A0 H0
          simp only at A0 H0 ⊢
          cases ok with
          | true =>
            simp only [if_true, height_node]
            obtain ⟨A, B, C⟩ := rebalance_spec l v newNode al A0 (by omega) (by omega)
            refine ⟨A, ?_⟩
            omega
          | false => exact ⟨ht, Or.inl rfl⟩
        · exact ⟨ht, Or.inl rfl⟩

end TypVerif.Lemmas.Avl
