import TypVerif.Drv.C10
/-
What the C10 judge (`Drv.C10.step`) does to its state set on an event line.
-/
namespace TypVerif.Lemmas.ConcAcceptC10
open TypVerif TypVerif.Proto TypVerif.Model.PubSub TypVerif.Drv.C10

theorem parseEvent_ps (t d : Int) : parseEvent [.w "ps", .i t, .i d] = none := by
  simp [parseEvent]

theorem parseEvent_live : parseEvent [.w "live"] = none := by
  simp [parseEvent]

theorem rejected_ne_ok (x : String) : "rejected:" ++ x ≠ "ok" := by
  intro h
  have := congrArg String.length h
  simp [String.length_append] at this
  have h9 : "rejected:".length = 9 := by decide
  have h2 : "ok".length = 2 := by decide
  omega

/-- on a line that parses as the event `e`, while the judge has neither rejected nor given up (`skipped`), and does not give
up on this line, the new state set is `advance cfg ss e` (same `cfg`), and the line is rejected iff that set is empty -/
theorem step_event (j : J) (toks : List Val) (impl : String) (e : Event)
    (hp : parseEvent toks = some e) (hrej : j.rej = none) (hsk : j.skipped = false)
    (hsk' : (step j toks impl).1.skipped = false) :
    (step j toks impl).1.ss = advance j.cfg j.ss e ∧ (step j toks impl).1.cfg = j.cfg ∧
    ((step j toks impl).1.rej = none ↔ advance j.cfg j.ss e ≠ []) ∧
    ((step j toks impl).2.model = "ok" ↔ advance j.cfg j.ss e ≠ []) := by
  unfold step at hsk' ⊢
  split at hsk'
  · rw [parseEvent_ps] at hp; cases hp
  · rw [parseEvent_live] at hp; cases hp
  · simp only [hp, hsk, hrej] at hsk' ⊢
    simp only [Bool.false_eq_true, ↓reduceIte] at hsk' ⊢
    split at hsk'
    · cases hsk'
    · rename_i h1
      rw [if_neg h1]
      split at hsk'
      · cases hsk'
      · rename_i h2
        rw [if_neg h2]
        refine ⟨rfl, rfl, ?_, ?_⟩
        · simp only
          cases advance j.cfg j.ss e <;> simp
        · simp only
          cases advance j.cfg j.ss e with
          | nil => simpa using rejected_ne_ok _
          | cons => simp

end TypVerif.Lemmas.ConcAcceptC10
