import TypVerif.Model.PubSub
/-
The inductive invariant `Safe` behind `C10.no_panic_partial` (system without clones) and generic
preservation lemmas.
-/
namespace TypVerif.Lemmas.PubSubSafe
open TypVerif TypVerif.Model.PubSub

def holdsRead : Task → Bool
  | .syncLoop .. => true
  | .waitWg .. => true
  | .asyncSend .. => true
  | _ => false

/-- channels the task may still send on -/
def targets : Task → List Chan
  | .syncLoop _ _ work _ => work.map (·.c)
  | .asyncSend _ it _ => [it.c]
  | .wgSend _ _ it _ => [it.c]
  | _ => []

def isWgSend (w : Nat) : Task → Bool
  | .wgSend _ w' _ _ => w' == w
  | _ => false

def isWaitWg (w : Nat) : Task → Bool
  | .waitWg _ _ w' => w' == w
  | _ => false

/-- every object reference of the task is the root (there are no clones) -/
def objOk : Task → Prop
  | .pubStart _ o _ _ => o = 0
  | .syncLoop _ o _ _ => o = 0
  | .waitWg _ o _ => o = 0
  | .asyncStart o _ => o = 0
  | .asyncSend o _ _ => o = 0
  | .wgSend o _ _ _ => o = 0
  | .subStart o _ _ => o = 0
  | .subWait o _ _ => o = 0
  | .unsubStart _ o _ => o = 0
  | .unsubWait _ o _ => o = 0
  | .uaStart _ o => o = 0
  | .uaWait _ o => o = 0
  | .woStart _ _ _ => False
  | _ => True

structure Safe (s : State) : Prop where
  objs1 : s.objs.length = 1
  obj0 : ∀ t ∈ s.tasks, objOk t
  readers : (s.obj 0).rw.readers = s.tasks.countP holdsRead
  opn : ∀ c ∈ (s.obj 0).subs, isClosed s.chans c = false
  nodup : (s.obj 0).subs.Nodup
  exist : ∀ c ∈ (s.obj 0).subs, hasChan s.chans c = true
  targ : ∀ t ∈ s.tasks, ∀ c ∈ targets t, c ∈ (s.obj 0).subs
  wgc : ∀ w, s.wgs.getD w 0 = s.tasks.countP (isWgSend w)
  wgw : ∀ w, 0 < s.wgs.getD w 0 → ∃ t ∈ s.tasks, isWaitWg w t = true
  nopanic : s.panicked = none

theorem safe_init : Safe ({} : State) := by
  constructor <;> simp [State.obj]

/-! ### list helpers -/

theorem countP_set_eq {α} (p : α → Bool) (l : List α) (i : Nat) (t t' : α) (hi : l[i]? = some t) :
    (l.set i t').countP p + (if p t then 1 else 0) = l.countP p + (if p t' then 1 else 0) := by
  have hlt : i < l.length := by
    rcases Nat.lt_or_ge i l.length with h | h
    · exact h
    · simp [List.getElem?_eq_none h] at hi
  have hget : l[i] = t := by
    have := List.getElem?_eq_getElem hlt
    rw [this] at hi; exact Option.some.inj hi
  have h1 := List.countP_set (p := p) (l := l) (a := t') hlt
  have h2 : (if p l[i] = true then 1 else 0) ≤ l.countP p := List.boole_getElem_le_countP (p := p) hlt
  rw [hget] at h1 h2
  omega

theorem forall_set {α} (P : α → Prop) (l : List α) (i : Nat) (t' : α)
    (h : ∀ x ∈ l, P x) (ht : P t') : ∀ x ∈ l.set i t', P x := by
  intro x hx
  rcases List.mem_or_eq_of_mem_set hx with h1 | h1
  · exact h x h1
  · exact h1 ▸ ht

theorem exists_set {α} (q : α → Bool) (l : List α) (i : Nat) (t t' : α) (hi : l[i]? = some t)
    (h : ∃ x ∈ l, q x = true) (ht : q t = true → q t' = true) : ∃ x ∈ l.set i t', q x = true := by
  obtain ⟨x, hx, hq⟩ := h
  obtain ⟨j, hj, hjx⟩ := List.getElem_of_mem hx
  by_cases hij : i = j
  · subst hij
    have hlt : i < l.length := hj
    have : l[i]? = some x := by rw [List.getElem?_eq_getElem hlt, hjx]
    rw [this] at hi
    have hxt : x = t := Option.some.inj hi
    refine ⟨t', List.mem_set hlt t', ht (hxt ▸ hq)⟩
  · refine ⟨x, ?_, hq⟩
    have hj' : j < (l.set i t').length := by simpa using hj
    have : (l.set i t')[j] = x := by simp [List.getElem_set, hij, hjx]
    exact this ▸ List.getElem_mem hj'


/-! ### generic preservation: task `i` is replaced, `subs` unchanged -/

theorem safe_replace {s s' : State} {i : Nat} {t t' : Task} (hs : Safe s) (hi : s.tasks[i]? = some t)
    (htasks : s'.tasks = s.tasks.set i t')
    (hobjs : s'.objs.length = 1)
    (hsubs : (s'.obj 0).subs = (s.obj 0).subs)
    (hrd : (s'.obj 0).rw.readers + (if holdsRead t then 1 else 0)
            = (s.obj 0).rw.readers + (if holdsRead t' then 1 else 0))
    (hcl : ∀ c, isClosed s'.chans c = isClosed s.chans c)
    (hex : ∀ c, hasChan s.chans c = true → hasChan s'.chans c = true)
    (hwg : ∀ w, s'.wgs.getD w 0 + (if isWgSend w t then 1 else 0)
            = s.wgs.getD w 0 + (if isWgSend w t' then 1 else 0))
    (hnew : ∀ w, isWgSend w t' = true → isWgSend w t = true)
    (hww : ∀ w, isWaitWg w t = true → isWaitWg w t' = true ∨ s'.wgs.getD w 0 = 0)
    (hobj : objOk t')
    (htarg : ∀ c ∈ targets t', c ∈ (s.obj 0).subs)
    (hp : s'.panicked = none) : Safe s' := by
  constructor
  · exact hobjs
  · rw [htasks]; exact forall_set _ _ _ _ hs.obj0 hobj
  · have h1 := countP_set_eq holdsRead s.tasks i t t' hi
    have h2 := hs.readers
    rw [htasks]; omega
  · intro c hc; rw [hcl]; exact hs.opn c (hsubs ▸ hc)
  · rw [hsubs]; exact hs.nodup
  · intro c hc; exact hex c (hs.exist c (hsubs ▸ hc))
  · rw [htasks, hsubs]; exact forall_set _ _ _ _ hs.targ htarg
  · intro w
    have h1 := countP_set_eq (isWgSend w) s.tasks i t t' hi
    have h2 := hs.wgc w
    have h3 := hwg w
    rw [htasks]; omega
  · intro w hw
    have h3 := hwg w
    have ha : (if isWgSend w t' = true then 1 else 0) ≤ (if isWgSend w t = true then 1 else 0) := by
      by_cases hn : isWgSend w t' = true
      · simp [hn, hnew w hn]
      · simp [hn]
    have hpos : 0 < s.wgs.getD w 0 := by omega
    have hex' := hs.wgw w hpos
    rw [htasks]
    refine exists_set (isWaitWg w) s.tasks i t t' hi hex' ?_
    intro hq
    rcases hww w hq with h | h
    · exact h
    · omega
  · exact hp

/-- a task that holds the read lock makes the reader count positive -/
theorem readers_pos {s : State} {i : Nat} {t : Task} (hs : Safe s) (hi : s.tasks[i]? = some t)
    (hr : holdsRead t = true) : 0 < (s.obj 0).rw.readers := by
  rw [hs.readers]
  exact List.countP_pos_iff.mpr ⟨t, List.mem_of_getElem? hi, hr⟩

theorem wg_pos {s : State} {i w : Nat} {t : Task} (hs : Safe s) (hi : s.tasks[i]? = some t)
    (hr : isWgSend w t = true) : 0 < s.wgs.getD w 0 := by
  rw [hs.wgc]
  exact List.countP_pos_iff.mpr ⟨t, List.mem_of_getElem? hi, hr⟩

end TypVerif.Lemmas.PubSubSafe
