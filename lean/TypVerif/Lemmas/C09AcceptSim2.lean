import TypVerif.Lemmas.C09AcceptSim1
/-
Acceptance soundness for the judge `Drv/C09.lean`: well-formedness (`WF`) is an invariant of the model.
-/
namespace TypVerif.Lemmas.C09Accept
open TypVerif TypVerif.Conc TypVerif.Model.KeyedMutex TypVerif.Drv.C09
open TypVerif.Lemmas.KeyedMutex

theorem sim_wf_same {a a' : State} (hw : WF a) (hmap : a'.map = a.map) (hlen : a.heap.length ≤ a'.heap.length)
    (hl : ∀ m, Live a' m → Live a m) : WF a' :=
  ⟨by rw [hmap]; exact hw.keysNd, fun m h => Nat.lt_of_lt_of_le (hw.liveLt m (hl m h)) hlen⟩

theorem sim_wf_step {rw g : Bool} {ops : List Op} {a a' : State} {t : Nat} {l : Option Event}
    (hw : WF a) (ht : t < a.pcs.length) (h : Step rw g ops a t l a') : WF a' := by
  cases h with
  | inv op hpc hop hok =>
    exact sim_wf_same hw rfl (Nat.le_refl _) (fun m h => sim_live_set_same (fun m hm => by cases hm) h)
  | ret r hpc =>
    exact sim_wf_same hw rfl (Nat.le_refl _) (fun m h => sim_live_set_same (fun m hm => by cases hm) h)
  | tryFail kd k m hpc hkd =>
    exact sim_wf_same hw rfl (Nat.le_refl _) (fun m h => sim_live_set_same (fun m hm => by cases hm) h)
  | hit kd k m hpc hkd hget =>
    refine sim_wf_same hw rfl ?_ (fun m' h => sim_live_set_same (fun m' hm => ?_) h)
    · show a.heap.length ≤ (a.heap ++ [Mu.free]).length
      rw [List.length_append]; exact Nat.le_add_right _ _
    · cases hm
      exact sim_live_map hget
  | miss kd k hpc hkd hget =>
    constructor
    · show (((k, a.heap.length) :: a.map).map (·.1)).Nodup
      rw [List.map_cons, List.nodup_cons]
      exact ⟨sim_get_none_keys hget, hw.keysNd⟩
    · intro m' h
      show m' < (a.heap ++ [Mu.free]).length
      rw [List.length_append, List.length_singleton]
      rcases sim_live_set h with ⟨k', hm⟩ | hm | hm
      · rcases List.mem_cons.mp hm with hm | hm
        · cases hm; exact Nat.lt_succ_self _
        · exact Nat.lt_succ_of_lt (hw.liveLt m' (.inl ⟨k', hm⟩))
      · exact Nat.lt_succ_of_lt (hw.liveLt m' (.inr hm))
      · cases hm; exact Nat.lt_succ_self _
  | clear k hpc hg =>
    constructor
    · exact sim_del_keys_nodup k hw.keysNd
    · intro m' h
      show m' < a.heap.length
      rcases sim_live_set h with ⟨k', hm⟩ | hm | hm
      · exact hw.liveLt m' (.inl ⟨k', sim_mem_del hm⟩)
      · exact hw.liveLt m' (.inr hm)
      · cases hm
  | queue k m p' pending' wq' hpc hp' _ =>
    have hm : Live a m := by
      apply sim_live_pc ht
      rcases hpc with e | e | e <;> rw [e] <;> rfl
    refine sim_wf_same hw rfl ?_ (fun m' h => sim_live_set_same (fun m' hm' => ?_) h)
    · show a.heap.length ≤ (a.heap.set m _).length
      rw [List.length_set]; exact Nat.le_refl _
    · rcases hp' with e | e | e <;> subst e <;> cases hm' <;> exact hm
  | acqW k m r hpc _ _ =>
    refine sim_wf_same hw rfl ?_ (fun m' h => sim_live_set_same (fun m' hm' => by cases hm') h)
    show a.heap.length ≤ (a.heap.set m _).length
    rw [List.length_set]; exact Nat.le_refl _
  | unlock k m p' wq' hpc hp' _ =>
    have hm : Live a m := by
      apply sim_live_pc ht
      rw [hpc]; rfl
    refine sim_wf_same hw rfl ?_ (fun m' h => sim_live_set_same (fun m' hm' => ?_) h)
    · show a.heap.length ≤ (a.heap.set m _).length
      rw [List.length_set]; exact Nat.le_refl _
    · rcases hp' with e | e <;> subst e <;> cases hm' <;> exact hm
  | acqR kd k m r hpc _ _ =>
    refine sim_wf_same hw rfl ?_ (fun m' h => sim_live_set_same (fun m' hm' => by cases hm') h)
    show a.heap.length ≤ (a.heap.set m _).length
    rw [List.length_set]; exact Nat.le_refl _
  | runlock k m hpc =>
    refine sim_wf_same hw rfl ?_ (fun m' h => sim_live_set_same (fun m' hm' => by cases hm') h)
    show a.heap.length ≤ (a.heap.set m _).length
    rw [List.length_set]; exact Nat.le_refl _

/-- well-formedness is preserved by every step of the model -/
theorem wf_succ {rw g : Bool} {ops : List Op} {a a' : State} {l : Option Event}
    (hw : WF a) (h : (l, a') ∈ succ rw g ops a) : WF a' := by
  obtain ⟨t, ht, hs⟩ := step_of_succ h
  exact sim_wf_step hw ht hs

end TypVerif.Lemmas.C09Accept
