import TypVerif.Lemmas.SmcQuiet
import TypVerif.Lemmas.SmcEntry
import TypVerif.Lemmas.SmcMaps
/-
C04 concurrent half: the steps of `LoadOrStore` that are not quiet —
`losLoad` / `losLoad2` (`tryLoadOrStore`'s pointer loads: linearization when a value is found),
`losCas` (linearization when the CAS on a nil pointer succeeds), `losRead2` (the locked re-read: linearization when
the key is new and `amended` is already set: `finishNew`), `losUnexp` (un-expunge).

General lemmas: `R_step_parts` (assembly of `R` after a step of `t`), `R_effect_core` (a step of `t` whose effect on
the shared data is `sh1`, followed by a change of `mu/misses` only).
-/
namespace TypVerif.Lemmas.Smc
open TypVerif.Model TypVerif.Model.SyncMapConc TypVerif.Model.RelObj
open TypVerif.Model.SyncMap (alookup ainsert aerase akeys)

set_option linter.unusedSimpArgs false
set_option linter.unusedVariables false
set_option linter.unusedSectionVars false

variable {K V : Type} [DecidableEq K] [DecidableEq V] [Inhabited V]
variable {menu : List (Op K V)} {s : State K V} {a : AState K V} {t : Tid}

/-! ### general lemmas -/

omit [Inhabited V] in
/-- assembly of `R` after a step of goroutine `t` to `(sh', pc')` -/
theorem R_step_parts (hR : R s a) (ht : t < s.pcs.length) {a' : AState K V} {sh' : Shared K V} {pc' : Pc K V}
    (hGS : GS sh' (unprocessed (setPc s t sh' pc')))
    (hmu : ∀ u, sh'.mu = some u → u < s.pcs.length)
    (hoU : ∀ u, u ≠ t → unlinkedPc (s.pc u) (a'.pcs u) = unlinkedPc (s.pc u) (a.pcs u))
    (hunl : ∀ e ∈ unlinkedPc pc' (a'.pcs t), e ∈ unlinkedPc (s.pc t) (a.pcs t))
    (habs : ∀ k, a'.obj k = absOf sh' k)
    (hself : T sh' t pc' (a'.pcs t))
    (hoth : ∀ u, u ≠ t → T sh' u (s.pc u) (a'.pcs u))
    (hobs : Obs a'.obj a'.pcs) : R (setPc s t sh' pc') a' := by
  apply R_of_parts
  · rw [G_iff]
    refine ⟨hGS, ⟨?_, ?_⟩⟩
    · intro u hu
      rw [setPc_pcs_length]
      exact hmu u hu
    · exact hR.g.unlinked_setPc sh' hoU (fun e he => Or.inl (hunl e he))
  · exact habs
  · intro u
    simp only [setPc_sh]
    by_cases hut : u = t
    · subst hut
      rw [pc_setPc_self ht]
      exact hself
    · rw [pc_setPc_ne hut]
      exact hoth u hut
  · exact hobs

omit [Inhabited V] in
/-- A step of `t` whose effect on the shared data is `sh1` (for which the library supplies the bystanders' `T`, `GS`
and `absOf`), possibly followed by `unlock` / `missStep` (`SameData sh' sh1`).  The abstract state `a'` has object
`obj'` and, off `t`, the pcs of `a` observed in `obj'`. -/
theorem R_effect_core (hR : R s a) (ht : t < s.pcs.length) {a' : AState K V} {obj' : K → Option V}
    (hobj : a'.obj = obj') (hpcs : ∀ u, u ≠ t → a'.pcs u = observePc obj' (a.pcs u)) (hobs : Obs a'.obj a'.pcs)
    {sh1 sh' : Shared K V} {pc' : Pc K V}
    (hT1 : ∀ u, u ≠ t → T sh1 u (s.pc u) (a.pcs u))
    (hGS1 : GS sh1 (unprocessed s))
    (habs1 : ∀ k, obj' k = absOf sh1 k)
    (hmu1 : sh1.mu = s.sh.mu)
    (hd : SameData sh' sh1) (hfault : sh'.fault = false) (hmu : MuStep sh' s.sh t)
    (hself : T sh' t pc' (a'.pcs t))
    (hunp : unprocPc (s.pc t) = []) (hunp' : unprocPc pc' = [])
    (hunl : ∀ e ∈ unlinkedPc pc' (a'.pcs t), e ∈ unlinkedPc (s.pc t) (a.pcs t)) :
    R (setPc s t sh' pc') a' := by
  apply R_step_parts hR ht
  · exact (hGS1.of_sameData hd hfault).congr (fun p => mem_unprocessed_setPc_of_nil hunp hunp')
  · intro u hu
    rcases hmu with h | ⟨_, h2⟩ | ⟨_, h2⟩
    · exact hR.g.muBound u (h ▸ hu)
    · rw [h2] at hu; cases hu; exact ht
    · rw [h2] at hu; cases hu
  · intro u hu
    rw [hpcs u hu, unlinkedPc_observePc]
  · exact hunl
  · intro k
    rw [hobj, habs1 k]
    exact (absOf_congr hd k).symm
  · exact hself
  · intro u hut
    rw [hpcs u hut]
    have hown : Own sh' u ↔ Own sh1 u := (hmu.own_iff hut).trans (Own_congr hmu1 u).symm
    exact (T_congr hd hown _ _).mpr (T_observePc (hT1 u hut) obj')
  · exact hobs

omit [Inhabited V] in
theorem pend_pending {p : APc K V} {op : Op K V} (h : Pend p op) : ∃ seen, p = .pending op seen := by
  cases p with
  | idle => exact h.elim
  | done op' r' => exact h.elim
  | pending op' seen =>
    have : op' = op := h
    subst this
    exact ⟨seen, rfl⟩

omit [Inhabited V] in
theorem unlinkedPc_losMiss (k : K) (r : Res K V) (q : APc K V) : unlinkedPc (.losMiss k r : Pc K V) q = [] := by
  cases q <;> rfl

/-! ### `tryLoadOrStore`: the pointer loads -/

omit [Inhabited V] in
/-- the loaded pointer holds a value: linearization step, the shared data does not change -/
theorem R_losOk_loaded {c : LosCtx} {k : K} {v w : V} {e : EId} {i : Nat} (hR : R s a) (ht : t < s.pcs.length)
    (hpend : Pend (a.pcs t) (.loadOrStore k v)) (hhold : LosHold s.sh t c k e)
    (hlin : isLin s.sh (s.pc t) (a.pcs t) = true) (hunp : unprocPc (s.pc t) = [])
    (hp : getP s.sh e = .val i w) {sh' : Shared K V} {pc' : Pc K V} (hok : losOk s.sh c k w true = (sh', pc')) :
    R (setPc s t sh' pc') (witness s t none a) := by
  have hx : (getP s.sh e).isExpunged = false := by rw [hp]; rfl
  have hcur := hhold.cur_of_not_expunged hx
  have hobjk : a.obj k = some w := by rw [hR.abs k, hR.g.absOf_of_cur hcur, hp]; rfl
  obtain ⟨seen, hseen⟩ := pend_pending hpend
  have happ : applyOp a.obj (.loadOrStore k v) = [(a.obj, .pair w true)] := applyOp_loadOrStore_some v hobjk
  have hobj := witness_obj_lin s t a hlin hseen happ
  have hself := witness_pcs_lin_self s t a hlin hseen happ
  have hoth : ∀ u, u ≠ t → (witness s t none a).pcs u = observePc a.obj (a.pcs u) :=
    fun u hu => witness_pcs_lin_other s t a hlin hseen happ hu
  have hunp' : ∀ pc'' : Pc K V, ∀ p, p ∈ unprocPc (s.pc t) → p ∈ unprocPc pc'' := by
    intro pc'' p hp; rw [hunp] at hp; cases hp
  cases c with
  | fast =>
    simp only [losOk, Prod.mk.injEq] at hok
    obtain ⟨rfl, rfl⟩ := hok
    apply R_quiet_core hR ht hobj hoth (obs_witness _ _ _ _) (SameData.refl _) hR.g.nofault (MuStep.same _ _)
    · rw [hself]
      simp only [T, RetOk]
      exact ⟨trivial, hhold.1⟩
    · exact hunp' _
    · intro e' he; rw [unlinkedPc_ret] at he; cases he
  | slowRead =>
    simp only [losOk, Prod.mk.injEq] at hok
    obtain ⟨rfl, rfl⟩ := hok
    apply R_quiet_core hR ht hobj hoth (obs_witness _ _ _ _) (sameData_unlock _) hR.g.nofault
      (MuStep.unlock hhold.1 rfl)
    · rw [hself]
      simp only [T, RetOk]
      exact ⟨trivial, Own_unlock _ _⟩
    · exact hunp' _
    · intro e' he; rw [unlinkedPc_ret] at he; cases he
  | slowDirty =>
    simp only [losOk, missTail] at hok
    obtain ⟨hown, hrk, hdk⟩ := hhold
    have ham := hR.g.amended_of_dirty_only hrk hdk
    by_cases hm : (missStep s.sh).2 = true
    · rw [if_pos hm] at hok
      simp only [Prod.mk.injEq] at hok
      obtain ⟨rfl, rfl⟩ := hok
      apply R_quiet_core hR ht hobj hoth (obs_witness _ _ _ _) (sameData_missStep_fst _) hR.g.nofault
        (MuStep.of_eq rfl)
      · rw [hself]
        refine (T_congr (sameData_missStep_fst s.sh) (Own_missStep_fst _ _) _ _).mpr ?_
        simp only [T, DoneWith, isLosOf, decide_true, true_and]
        exact ⟨rfl, hown, ham, hR.g.dirty_isSome_of_amended ham⟩
      · exact hunp' _
      · intro e' he; rw [unlinkedPc_losMiss] at he; cases he
    · rw [if_neg hm] at hok
      simp only [Prod.mk.injEq] at hok
      obtain ⟨rfl, rfl⟩ := hok
      apply R_quiet_core hR ht hobj hoth (obs_witness _ _ _ _) (sameData_unlock_missStep_fst _) hR.g.nofault
        (MuStep.unlock hown rfl)
      · rw [hself]
        simp only [T, RetOk]
        exact ⟨trivial, Own_unlock _ _⟩
      · exact hunp' _
      · intro e' he; rw [unlinkedPc_ret] at he; cases he

/-- both load sites of `tryLoadOrStore` -/
theorem R_losLoaded {c : LosCtx} {k : K} {v : V} {e : EId} (hR : R s a) (ht : t < s.pcs.length)
    (hpend : Pend (a.pcs t) (.loadOrStore k v)) (hhold : LosHold s.sh t c k e)
    (hlin : isLin s.sh (s.pc t) (a.pcs t) = isVal (getP s.sh e)) (hunp : unprocPc (s.pc t) = [])
    {sh' : Shared K V} {pc' : Pc K V} (hex : losLoaded s.sh c k v e = (sh', pc')) :
    R (setPc s t sh' pc') (witness s t none a) := by
  have hunp' : ∀ pc'' : Pc K V, ∀ p, p ∈ unprocPc (s.pc t) → p ∈ unprocPc pc'' := by
    intro pc'' p hp; rw [hunp] at hp; cases hp
  have hunl : ∀ pc'' : Pc K V, (∀ d k e, pc'' ≠ .ladMiss d k e) →
      ∀ e ∈ unlinkedPc pc'' (a.pcs t), e ∈ unlinkedPc (s.pc t) (a.pcs t) := by
    intro pc'' h e he; rw [unlinkedPc_of_pend hpend h] at he; cases he
  unfold losLoaded at hex
  cases hp : getP s.sh e with
  | expunged =>
    rw [hp] at hlin
    simp only [hp] at hex
    cases c with
    | fast =>
      simp only [losFail, Prod.mk.injEq] at hex
      obtain ⟨rfl, rfl⟩ := hex
      refine R_quiet_same hR ht hlin ?_ (hunp' _) (hunl _ (by intro d k e h; cases h))
      simp only [T]
      exact ⟨hpend, hhold.1⟩
    | slowRead =>
      have := hhold.2.2
      rw [hp] at this
      cases this
    | slowDirty =>
      have := hR.g.dirty_only_not_expunged hhold.2.1 hhold.2.2
      rw [hp] at this
      cases this
  | val i w =>
    rw [hp] at hlin
    simp only [hp] at hex
    exact R_losOk_loaded hR ht hpend hhold hlin hunp hp hex
  | nil =>
    rw [hp] at hlin
    simp only [hp, Prod.mk.injEq] at hex
    obtain ⟨rfl, rfl⟩ := hex
    refine R_quiet_same hR ht hlin ?_ (hunp' _) (hunl _ (by intro d k e h; cases h))
    simp only [T]
    exact ⟨hpend, hhold⟩

theorem stepOK_losLoad {c : LosCtx} {k : K} {v : V} {e : EId} (hR : R s a) (ht : t < s.pcs.length)
    (hpc : s.pc t = .losLoad c k v e) : StepOK menu s a t := by
  have hT := hR.thr t
  rw [hpc] at hT
  simp only [T] at hT
  apply stepOK_of_internal hR ht (by rw [hpc]; simp) (by rw [hpc]; simp) _ (pickOK_of_nil (by rw [hpc]; rfl))
  intro sh' pc' hex
  rw [hpc] at hex
  simp only [exec, Option.some.injEq] at hex
  exact R_losLoaded hR ht hT.1 hT.2 (by rw [hpc]; rfl) (by rw [hpc]; rfl) hex

theorem stepOK_losLoad2 {c : LosCtx} {k : K} {v : V} {e : EId} (hR : R s a) (ht : t < s.pcs.length)
    (hpc : s.pc t = .losLoad2 c k v e) : StepOK menu s a t := by
  have hT := hR.thr t
  rw [hpc] at hT
  simp only [T] at hT
  apply stepOK_of_internal hR ht (by rw [hpc]; simp) (by rw [hpc]; simp) _ (pickOK_of_nil (by rw [hpc]; rfl))
  intro sh' pc' hex
  rw [hpc] at hex
  simp only [exec, Option.some.injEq] at hex
  exact R_losLoaded hR ht hT.1 hT.2 (by rw [hpc]; rfl) (by rw [hpc]; rfl) hex

/-! ### `tryLoadOrStore`: the CAS -/

theorem stepOK_losCas {c : LosCtx} {k : K} {v : V} {e : EId} (hR : R s a) (ht : t < s.pcs.length)
    (hpc : s.pc t = .losCas c k v e) : StepOK menu s a t := by
  have hT := hR.thr t
  rw [hpc] at hT
  simp only [T] at hT
  obtain ⟨hpend, hhold⟩ := hT
  have hunp : unprocPc (s.pc t) = [] := by rw [hpc]; rfl
  have hunp' : ∀ pc'' : Pc K V, ∀ p, p ∈ unprocPc (s.pc t) → p ∈ unprocPc pc'' := by
    intro pc'' p hp; rw [hunp] at hp; cases hp
  have hunl : ∀ pc'' : Pc K V, (∀ d k e, pc'' ≠ .ladMiss d k e) →
      ∀ e ∈ unlinkedPc pc'' (a.pcs t), e ∈ unlinkedPc (s.pc t) (a.pcs t) := by
    intro pc'' h e he; rw [unlinkedPc_of_pend hpend h] at he; cases he
  apply stepOK_of_internal hR ht (by rw [hpc]; simp) (by rw [hpc]; simp) _ (pickOK_of_nil (by rw [hpc]; rfl))
  intro sh' pc' hex
  rw [hpc] at hex
  simp only [exec] at hex
  cases hn : (getP s.sh e).isNil with
  | false =>
    have hlin : isLin s.sh (s.pc t) (a.pcs t) = false := by rw [hpc]; exact hn
    simp only [hn, Bool.false_eq_true, if_false, Option.some.injEq, Prod.mk.injEq] at hex
    obtain ⟨rfl, rfl⟩ := hex
    refine R_quiet_same hR ht hlin ?_ (hunp' _) (hunl _ (by intro d k e h; cases h))
    simp only [T]
    exact ⟨hpend, hhold⟩
  | true =>
    have hlin : isLin s.sh (s.pc t) (a.pcs t) = true := by rw [hpc]; exact hn
    simp only [hn, if_true, Option.some.injEq] at hex
    have hx : (getP s.sh e).isExpunged = false := not_isExpunged_of_isNil hn
    have hcur := hhold.cur_of_not_expunged hx
    have hobjk : a.obj k = none := by
      rw [hR.abs k, hR.g.absOf_of_cur hcur]
      exact value?_none_of_isNil hn
    obtain ⟨seen, hseen⟩ := pend_pending hpend
    have happ : applyOp a.obj (.loadOrStore k v) = [(put a.obj k v, .pair v false)] :=
      applyOp_loadOrStore_none v hobjk
    have hobj := witness_obj_lin s t a hlin hseen happ
    have hself := witness_pcs_lin_self s t a hlin hseen happ
    have hoth : ∀ u, u ≠ t → (witness s t none a).pcs u = observePc (put a.obj k v) (a.pcs u) :=
      fun u hu => witness_pcs_lin_other s t a hlin hseen happ hu
    obtain ⟨hTall, hGS, habs⟩ := storeVal_all ((G_iff _ _).mp hR.g).1 hR.thr v hx hcur
    have habs1 : ∀ k', put a.obj k v k' = absOf (storeVal s.sh e v) k' := by
      intro k'
      rw [habs k', put_apply, hR.abs k']
    have hfault : (storeVal s.sh e v).fault = false := hR.g.nofault
    cases c with
    | fast =>
      simp only [losOk, Prod.mk.injEq] at hex
      obtain ⟨rfl, rfl⟩ := hex
      apply R_effect_core hR ht hobj hoth (obs_witness _ _ _ _) (fun u _ => hTall u) hGS habs1 rfl
        (SameData.refl _) hfault (MuStep.of_eq rfl) _ hunp rfl
      · intro e' he; rw [unlinkedPc_ret] at he; cases he
      · rw [hself]
        simp only [T, RetOk]
        exact ⟨trivial, hhold.1⟩
    | slowRead =>
      simp only [losOk, Prod.mk.injEq] at hex
      obtain ⟨rfl, rfl⟩ := hex
      apply R_effect_core hR ht hobj hoth (obs_witness _ _ _ _) (fun u _ => hTall u) hGS habs1 rfl
        (sameData_unlock _) hfault (MuStep.unlock hhold.1 rfl) _ hunp rfl
      · intro e' he; rw [unlinkedPc_ret] at he; cases he
      · rw [hself]
        simp only [T, RetOk]
        exact ⟨trivial, Own_unlock _ _⟩
    | slowDirty =>
      have h1 := hR.g.dirty_only_isVal hhold.2.1 hhold.2.2
      have h2 := not_isNil_of_isVal h1
      rw [hn] at h2
      cases h2

/-! ### the locked re-read -/

theorem stepOK_losRead2 {k : K} {v : V} (hR : R s a) (ht : t < s.pcs.length)
    (hpc : s.pc t = .losRead2 k v) : StepOK menu s a t := by
  have hT := hR.thr t
  rw [hpc] at hT
  simp only [T] at hT
  obtain ⟨hpend, hown⟩ := hT
  have hunp : unprocPc (s.pc t) = [] := by rw [hpc]; rfl
  have hunp' : ∀ pc'' : Pc K V, ∀ p, p ∈ unprocPc (s.pc t) → p ∈ unprocPc pc'' := by
    intro pc'' p hp; rw [hunp] at hp; cases hp
  have hunl : ∀ pc'' : Pc K V, (∀ d k e, pc'' ≠ .ladMiss d k e) →
      ∀ e ∈ unlinkedPc pc'' (a.pcs t), e ∈ unlinkedPc (s.pc t) (a.pcs t) := by
    intro pc'' h e he; rw [unlinkedPc_of_pend hpend h] at he; cases he
  apply stepOK_of_internal hR ht (by rw [hpc]; simp) (by rw [hpc]; simp) _ (pickOK_of_nil (by rw [hpc]; rfl))
  intro sh' pc' hex
  rw [hpc] at hex
  simp only [exec] at hex
  cases hr : alookup k s.sh.readM with
  | some e =>
    have hlin : isLin s.sh (s.pc t) (a.pcs t) = false := by rw [hpc]; simp [isLin, hr]
    simp only [hr, Option.some.injEq, Prod.mk.injEq] at hex
    obtain ⟨rfl, rfl⟩ := hex
    refine R_quiet_same hR ht hlin ?_ (hunp' _) (hunl _ (by intro d k e h; cases h))
    simp only [T]
    exact ⟨hpend, hown, hr⟩
  | none =>
    cases hdk : alookup k (dirtyMap s.sh) with
    | some e =>
      have hlin : isLin s.sh (s.pc t) (a.pcs t) = false := by rw [hpc]; simp [isLin, hr, hdk]
      simp only [hr, hdk, Option.some.injEq, Prod.mk.injEq] at hex
      obtain ⟨rfl, rfl⟩ := hex
      refine R_quiet_same hR ht hlin ?_ (hunp' _) (hunl _ (by intro d k e h; cases h))
      simp only [T, LosHold]
      exact ⟨hpend, hown, hr, hdk⟩
    | none =>
      simp only [hr, hdk, Option.some.injEq] at hex
      unfold newTail at hex
      cases ha : s.sh.amended with
      | false =>
        have hlin : isLin s.sh (s.pc t) (a.pcs t) = false := by rw [hpc]; simp [isLin, hr, hdk, ha]
        simp only [ha, Bool.not_false, if_true] at hex
        cases hds : s.sh.dirty.isSome with
        | true =>
          simp only [hds, if_true, Prod.mk.injEq] at hex
          obtain ⟨rfl, rfl⟩ := hex
          refine R_quiet_same hR ht hlin ?_ (hunp' _) (hunl _ (by intro d k e h; cases h))
          simp only [T, NewTail, newOp]
          exact ⟨⟨hpend, hown, trivial, ha, hr⟩, hds⟩
        | false =>
          simp only [hds, Bool.false_eq_true, if_false, Prod.mk.injEq] at hex
          obtain ⟨rfl, rfl⟩ := hex
          refine R_quiet_same hR ht hlin ?_ (hunp' _) (hunl _ (by intro d k e h; cases h))
          simp only [T, NewTail, newOp]
          refine ⟨⟨hpend, hown, trivial, ha, hr⟩, ?_⟩
          cases hd : s.sh.dirty with
          | none => rfl
          | some d => rw [hd] at hds; cases hds
      | true =>
        have hlin : isLin s.sh (s.pc t) (a.pcs t) = true := by rw [hpc]; simp [isLin, hr, hdk, ha]
        simp only [ha, Bool.not_true, Bool.false_eq_true, if_false, finishNew, newRes, Prod.mk.injEq] at hex
        obtain ⟨rfl, rfl⟩ := hex
        have hds := hR.g.dirty_isSome_of_amended ha
        have hGS := ((G_iff _ _).mp hR.g).1
        have hobjk : a.obj k = none := by rw [hR.abs k, absOf_of_none_none hr hdk]
        obtain ⟨seen, hseen⟩ := pend_pending hpend
        have happ : applyOp a.obj (.loadOrStore k v) = [(put a.obj k v, .pair v false)] :=
          applyOp_loadOrStore_none v hobjk
        have hobj := witness_obj_lin s t a hlin hseen happ
        have hself := witness_pcs_lin_self s t a hlin hseen happ
        have hoth : ∀ u, u ≠ t → (witness s t none a).pcs u = observePc (put a.obj k v) (a.pcs u) :=
          fun u hu => witness_pcs_lin_other s t a hlin hseen happ hu
        have habs1 : ∀ k', put a.obj k v k' = absOf (addNew s.sh k v) k' := by
          intro k'
          rw [absOf_addNew hGS hds ha hr v k', put_apply, hR.abs k']
        apply R_effect_core hR ht hobj hoth (obs_witness _ _ _ _) (bystanders_addNew hR.thr hown hds hdk v)
          (GS_addNew hGS hds ha hr hdk v) habs1 (addNew_mu _ _ _) (sameData_unlock _)
          (addNew_fault_false hGS hds k v) (MuStep.unlock hown rfl) _ hunp rfl
        · intro e' he; rw [unlinkedPc_ret] at he; cases he
        · rw [hself]
          simp only [T, RetOk]
          exact ⟨trivial, Own_unlock _ _⟩

/-! ### un-expunge -/

theorem stepOK_losUnexp {k : K} {v : V} {e : EId} (hR : R s a) (ht : t < s.pcs.length)
    (hpc : s.pc t = .losUnexp k v e) : StepOK menu s a t := by
  have hT := hR.thr t
  rw [hpc] at hT
  simp only [T] at hT
  obtain ⟨hpend, hown, hr⟩ := hT
  have hlin : isLin s.sh (s.pc t) (a.pcs t) = false := by rw [hpc]; rfl
  have hunp : unprocPc (s.pc t) = [] := by rw [hpc]; rfl
  have hunp' : ∀ pc'' : Pc K V, ∀ p, p ∈ unprocPc (s.pc t) → p ∈ unprocPc pc'' := by
    intro pc'' p hp; rw [hunp] at hp; cases hp
  have hunl : ∀ pc'' : Pc K V, (∀ d k e, pc'' ≠ .ladMiss d k e) →
      ∀ e ∈ unlinkedPc pc'' (a.pcs t), e ∈ unlinkedPc (s.pc t) (a.pcs t) := by
    intro pc'' h e he; rw [unlinkedPc_of_pend hpend h] at he; cases he
  apply stepOK_of_internal hR ht (by rw [hpc]; simp) (by rw [hpc]; simp) _ (pickOK_of_nil (by rw [hpc]; rfl))
  intro sh' pc' hex
  rw [hpc] at hex
  simp only [exec] at hex
  cases hx : (getP s.sh e).isExpunged with
  | false =>
    simp only [hx, Bool.false_eq_true, if_false, Option.some.injEq, Prod.mk.injEq] at hex
    obtain ⟨rfl, rfl⟩ := hex
    refine R_quiet_same hR ht hlin ?_ (hunp' _) (hunl _ (by intro d k e h; cases h))
    simp only [T, LosHold]
    exact ⟨hpend, hown, hr, hx⟩
  | true =>
    simp only [hx, if_true, Option.some.injEq, Prod.mk.injEq] at hex
    obtain ⟨rfl, rfl⟩ := hex
    have hempty : ∀ p, p ∉ unprocessed s := by
      intro p hp
      rw [unprocessed_eq_nil_of_own hR.thr hown hunp] at hp
      cases hp
    obtain ⟨hT1, hGS1, ⟨hds', hdk', hx', hf'⟩, habs⟩ :=
      unexp_all ((G_iff _ _).mp hR.g).1 hR.thr hown hempty hr hx
    apply R_effect_core hR ht (witness_obj_tau s t a hlin) (fun u _ => witness_pcs_tau s t a hlin u)
      (obs_witness _ _ _ _) hT1 hGS1 (fun k' => by rw [habs k', hR.abs k']) (unexp_mu _ _ _)
      (SameData.refl _) hf' (MuStep.of_eq (unexp_mu _ _ _)) _ hunp rfl
    · intro e' he
      rw [witness_pcs_tau s t a hlin, unlinkedPc_observePc] at he
      exact hunl _ (by intro d k e h; cases h) e' he
    · rw [witness_pcs_tau s t a hlin]
      apply T_observePc
      simp only [T, LosHold]
      refine ⟨hpend, ?_, ?_, hx'⟩
      · show (setDirty (setP s.sh e .nil) k e).mu = some t
        rw [unexp_mu]; exact hown
      · rw [unexp_readM]; exact hr

end TypVerif.Lemmas.Smc
