import TypVerif.Lemmas.AvlSorted
import TypVerif.Lemmas.AvlWorld
/-
C01: the model refines the sorted-multiset specification on every history (simulation relation per handle).
-/
set_option linter.unusedSectionVars false
namespace TypVerif.Lemmas.Avl
open TypVerif.Model.Avl TypVerif.Model.Avl.Node TypVerif.Spec.Avl

variable {α ι : Type} [DecidableEq α]

/-- simulation relation between a model tree and its abstract counterpart -/
structure Rel (cmps : ι → α → α → Int) (t : Tree α) (s : STree ι α) : Prop where
  cmp_eq : t.compare = cmps s.ci
  bst : BST t.compare t.root
  ino : inorder t.root = s.elems
  cnt : t.count = s.elems.length

theorem Rel.sorted {cmps : ι → α → α → Int} (ok : ∀ c, CmpOK (cmps c)) {t : Tree α} {s : STree ι α}
    (r : Rel cmps t s) : Sorted (cmps s.ci) s.elems := by
  rw [← r.ino, ← r.cmp_eq]
  exact (bst_iff_sorted (by rw [r.cmp_eq]; exact ok _) _).mp r.bst

theorem preorder_perm_inorder (t : Node α) : (preorder t).Perm (inorder t) := by
  induction t with
  | nil => exact List.Perm.refl _
  | node l v h r ihl ihr =>
    simp only [preorder, inorder]
    exact (List.Perm.cons v (List.Perm.append ihl ihr)).trans List.perm_middle.symm

theorem postorder_perm_inorder (t : Node α) : (postorder t).Perm (inorder t) := by
  induction t with
  | nil => exact List.Perm.refl _
  | node l v h r ihl ihr =>
    simp only [postorder, inorder]
    refine (List.Perm.append ihl (List.perm_append_comm (l₁ := postorder r) (l₂ := [v]))).trans ?_
    exact List.Perm.append_left _ (List.Perm.cons v ihr)

theorem Rel_new (cmps : ι → α → α → Int) (c : ι) : Rel cmps (Tree.new (cmps c)) { ci := c, elems := [] } :=
  ⟨rfl, trivial, rfl, rfl⟩

theorem Rel_add {cmps : ι → α → α → Int} (ok : ∀ c, CmpOK (cmps c)) {t : Tree α} {s : STree ι α}
    (r : Rel cmps t s) (v : α) : Rel cmps (t.Add v) (s.add cmps v) := by
  have okc : CmpOK t.compare := by rw [r.cmp_eq]; exact ok _
  refine ⟨r.cmp_eq, ?_, ?_, ?_⟩
  · rw [Add_root]; exact bst_add okc v _ r.bst
  · rw [Add_root, inorder_add_eq okc v _ r.bst, r.ino, r.cmp_eq]; rfl
  · simp only [Add_count, STree.add, length_sinsert, r.cnt]; omega

theorem Rel_remove {cmps : ι → α → α → Int} (ok : ∀ c, CmpOK (cmps c)) {t : Tree α} {s : STree ι α}
    (r : Rel cmps t s) (v : α) :
    Rel cmps (t.Remove v).1 (s.remove v).1 ∧ (t.Remove v).2 = (s.remove v).2 := by
  have okc : CmpOK t.compare := by rw [r.cmp_eq]; exact ok _
  have hs : Sorted t.compare s.elems := by rw [r.cmp_eq]; exact r.sorted ok
  have hb : (remove t.compare v t.root).2 = decide (v ∈ s.elems) := by
    rw [remove_snd_eq_contains, ← r.ino]
    by_cases hm : v ∈ inorder t.root
    · simp [hm, (contains_iff okc v _ r.bst).mpr hm]
    · have : contains t.compare v t.root = false := by
        cases hc : contains t.compare v t.root
        · rfl
        · exact absurd ((contains_iff okc v _ r.bst).mp hc) hm
      simp [hm, this]
  refine ⟨?_, by rw [Remove_snd, hb]; rfl⟩
  by_cases hm : v ∈ s.elems
  · have ht : (remove t.compare v t.root).2 = true := by rw [hb]; simp [hm]
    obtain ⟨A, B, e1, e2⟩ := remove_true t.compare v t.root ht
    have hsub : (A ++ B).Sublist s.elems := by
      rw [← r.ino, e1]; exact List.Sublist.append_left (List.sublist_cons_self v B) A
    have hsAB : Sorted t.compare (A ++ B) := List.Pairwise.sublist hsub hs
    have hsE : Sorted t.compare (s.elems.erase v) := List.Pairwise.sublist List.erase_sublist hs
    have hperm : (A ++ B).Perm (s.elems.erase v) := by
      have p1 : (v :: (A ++ B)).Perm s.elems := by rw [← r.ino, e1]; exact List.perm_middle.symm
      have p2 : s.elems.Perm (v :: s.elems.erase v) := List.perm_cons_erase hm
      exact List.Perm.cons_inv (p1.trans p2)
    have heq : A ++ B = s.elems.erase v := sorted_unique okc hsAB hsE hperm
    refine ⟨by simpa [STree.remove] using r.cmp_eq, ?_, ?_, ?_⟩
    · rw [Remove_compare, Remove_root, bst_iff_sorted okc, e2]; exact hsAB
    · rw [Remove_root, e2, heq]; rfl
    · rw [Remove_count, ht]
      simp only [if_true, STree.remove, List.length_erase_of_mem hm, r.cnt]
      have : s.elems.length ≥ 1 := List.length_pos_of_mem hm
      omega
  · have ht : (remove t.compare v t.root).2 = false := by rw [hb]; simp [hm]
    have e := remove_false t.compare v t.root ht
    refine ⟨by simpa [STree.remove] using r.cmp_eq, ?_, ?_, ?_⟩
    · rw [Remove_compare, Remove_root, e]; exact r.bst
    · rw [Remove_root, e, r.ino]; simp [STree.remove, List.erase_of_not_mem hm]
    · rw [Remove_count, ht]; simp [STree.remove, List.erase_of_not_mem hm, r.cnt]

theorem Rel_contains {cmps : ι → α → α → Int} (ok : ∀ c, CmpOK (cmps c)) {t : Tree α} {s : STree ι α}
    (r : Rel cmps t s) (v : α) : t.Contains v = s.contains v := by
  have okc : CmpOK t.compare := by rw [r.cmp_eq]; exact ok _
  rw [Contains_eq]
  unfold STree.contains
  rw [← r.ino]
  by_cases hm : v ∈ inorder t.root
  · simp [hm, (contains_iff okc v _ r.bst).mpr hm]
  · have : contains t.compare v t.root = false := by
      cases hc : contains t.compare v t.root
      · rfl
      · exact absurd ((contains_iff okc v _ r.bst).mp hc) hm
    simp [hm, this]

theorem Rel_clear {cmps : ι → α → α → Int} {t : Tree α} {s : STree ι α}
    (r : Rel cmps t s) : Rel cmps t.Clear s.clear :=
  ⟨r.cmp_eq, trivial, rfl, rfl⟩

/-- folding `Add` over a list: comparator kept, BST kept, contents = old contents + the list, count advanced -/
theorem foldl_Add_spec {cmp : α → α → Int} (okc : CmpOK cmp) (L : List α) (c : Tree α)
    (hc : c.compare = cmp) (hb : BST cmp c.root) :
    let c' := L.foldl (fun (c : Tree α) v => c.Add v) c
    c'.compare = cmp ∧ BST cmp c'.root ∧ (inorder c'.root).Perm (L ++ inorder c.root) ∧
      c'.count = c.count + L.length := by
  induction L generalizing c with
  | nil => simp [hc, hb]
  | cons a L ih =>
    have hb' : BST cmp (c.Add a).root := by rw [Add_root, hc]; exact bst_add okc a _ hb
    obtain ⟨h1, h2, h3, h4⟩ := ih (c.Add a) (by simp [hc]) hb'
    simp only [List.foldl_cons]
    refine ⟨h1, h2, ?_, ?_⟩
    · refine h3.trans ?_
      rw [Add_root]
      refine (List.Perm.append_left L (inorder_add_perm c.compare a c.root)).trans ?_
      simp
    · rw [h4]; simp; omega

/-- C01.clone on well-formed trees -/
theorem Clone_spec {cmp : α → α → Int} (okc : CmpOK cmp) (t : Tree α) (hc : t.compare = cmp)
    (hb : BST cmp t.root) :
    t.Clone.compare = cmp ∧ BST cmp t.Clone.root ∧ inorder t.Clone.root = inorder t.root ∧
      t.Clone.count = (inorder t.root).length := by
  rw [Clone_eq]
  obtain ⟨h1, h2, h3, h4⟩ := foldl_Add_spec okc (preorder t.root) (Tree.new t.compare) (by simp [Tree.new, hc])
    (by simp [Tree.new, BST])
  refine ⟨h1, h2, ?_, ?_⟩
  · apply sorted_unique okc ((bst_iff_sorted okc _).mp h2) ((bst_iff_sorted okc _).mp hb)
    refine h3.trans ?_
    simpa [Tree.new] using preorder_perm_inorder t.root
  · rw [h4]; simp [Tree.new, (preorder_perm_inorder t.root).length_eq]

theorem Rel_clone {cmps : ι → α → α → Int} (ok : ∀ c, CmpOK (cmps c)) {t : Tree α} {s : STree ι α}
    (r : Rel cmps t s) : Rel cmps t.Clone s.clone := by
  have okc : CmpOK t.compare := by rw [r.cmp_eq]; exact ok _
  obtain ⟨h1, h2, h3, h4⟩ := Clone_spec okc t rfl r.bst
  exact ⟨by rw [h1]; exact r.cmp_eq, by rw [h1]; exact h2, by rw [h3]; exact r.ino,
    by rw [h4, r.ino]; rfl⟩

/-! ### worlds -/

def ORel (cmps : ι → α → α → Int) : Option (Tree α) → Option (STree ι α) → Prop
  | some t, some s => Rel cmps t s
  | none, none => True
  | _, _ => False

def WRel (cmps : ι → α → α → Int) (wm : World (Tree α)) (ws : World (STree ι α)) : Prop :=
  ∀ h, ORel cmps (wm.get h) (ws.get h)

theorem WRel_set {cmps : ι → α → α → Int} {wm : World (Tree α)} {ws : World (STree ι α)}
    (hw : WRel cmps wm ws) (h : Nat) {t : Tree α} {s : STree ι α} (r : Rel cmps t s) :
    WRel cmps (wm.set h t) (ws.set h s) := by
  intro h'
  rw [get_set, get_set]
  by_cases e : h = h'
  · simp only [e, if_true]; exact r
  · simp only [e, if_false]; exact hw h'

theorem step_refines {cmps : ι → α → α → Int} (ok : ∀ c, CmpOK (cmps c))
    {wm : World (Tree α)} {ws : World (STree ι α)} (hw : WRel cmps wm ws) (op : Op ι α) :
    (modelStep cmps wm op).2 = (specStep cmps ws op).2 ∧
    WRel cmps (modelStep cmps wm op).1 (specStep cmps ws op).1 := by
  cases op with
  | new h c => exact ⟨rfl, WRel_set hw h (Rel_new cmps c)⟩
  | add h v =>
    have hh := hw h
    simp only [modelStep, specStep]
    cases hm : wm.get h <;> cases hs : ws.get h <;> rw [hm, hs] at hh <;> simp only [ORel] at hh
    · exact ⟨rfl, hw⟩
    · exact ⟨rfl, WRel_set hw h (Rel_add ok hh v)⟩
  | remove h v =>
    have hh := hw h
    simp only [modelStep, specStep]
    cases hm : wm.get h <;> cases hs : ws.get h <;> rw [hm, hs] at hh <;> simp only [ORel] at hh
    · exact ⟨rfl, hw⟩
    · obtain ⟨r1, r2⟩ := Rel_remove ok hh v
      exact ⟨by simp only [r2], WRel_set hw h r1⟩
  | contains h v =>
    have hh := hw h
    simp only [modelStep, specStep]
    cases hm : wm.get h <;> cases hs : ws.get h <;> rw [hm, hs] at hh <;> simp only [ORel] at hh
    · exact ⟨rfl, hw⟩
    · exact ⟨by simp only [Rel_contains ok hh v], hw⟩
  | len h =>
    have hh := hw h
    simp only [modelStep, specStep]
    cases hm : wm.get h <;> cases hs : ws.get h <;> rw [hm, hs] at hh <;> simp only [ORel] at hh
    · exact ⟨rfl, hw⟩
    · exact ⟨by simp only [Tree.Len, STree.len, hh.cnt], hw⟩
  | clear h =>
    have hh := hw h
    simp only [modelStep, specStep]
    cases hm : wm.get h <;> cases hs : ws.get h <;> rw [hm, hs] at hh <;> simp only [ORel] at hh
    · exact ⟨rfl, hw⟩
    · exact ⟨rfl, WRel_set hw h (Rel_clear hh)⟩
  | clone h h2 =>
    have hh := hw h
    simp only [modelStep, specStep]
    cases hm : wm.get h <;> cases hs : ws.get h <;> rw [hm, hs] at hh <;> simp only [ORel] at hh
    · exact ⟨rfl, hw⟩
    · exact ⟨rfl, WRel_set hw h2 (Rel_clone ok hh)⟩
  | inorder h =>
    have hh := hw h
    simp only [modelStep, specStep]
    cases hm : wm.get h <;> cases hs : ws.get h <;> rw [hm, hs] at hh <;> simp only [ORel] at hh
    · exact ⟨rfl, hw⟩
    · exact ⟨by simp only [SliceInOrder_eq, hh.ino], hw⟩

theorem runFrom_refines {cmps : ι → α → α → Int} (ok : ∀ c, CmpOK (cmps c))
    (wm : World (Tree α)) (ws : World (STree ι α)) (hw : WRel cmps wm ws) (ops : List (Op ι α)) :
    (runFrom (modelStep cmps) wm ops).2 = (runFrom (specStep cmps) ws ops).2 ∧
    WRel cmps (runFrom (modelStep cmps) wm ops).1 (runFrom (specStep cmps) ws ops).1 := by
  induction ops generalizing wm ws with
  | nil => exact ⟨rfl, hw⟩
  | cons op ops ih =>
    obtain ⟨h1, h2⟩ := step_refines ok hw op
    obtain ⟨h3, h4⟩ := ih _ _ h2
    simp only [runFrom]
    exact ⟨by rw [h1, h3], h4⟩

/-- C01.refines -/
theorem refines {cmps : ι → α → α → Int} (ok : ∀ c, CmpOK (cmps c)) (ops : List (Op ι α)) :
    (runModel cmps ops).2 = (runSpec cmps ops).2 ∧ WRel cmps (runModel cmps ops).1 (runSpec cmps ops).1 :=
  runFrom_refines ok [] [] (fun _ => trivial) ops

end TypVerif.Lemmas.Avl
