import TypVerif.Lemmas.ConcAccept
import TypVerif.Drv.C10
/-
`succJ` (the successor function of the C10 judge, `Drv/C10.lean`) is sound with respect to the model: each of its
steps is one step of `succ`, or two internal steps of `succ` (the RLock of a `sendAsync` goroutine followed by that
goroutine's next own internal step).
-/
namespace TypVerif.Lemmas.ConcAcceptC10
open TypVerif TypVerif.Conc TypVerif.Model.PubSub TypVerif.Drv.C10

/-! ### frame of the steps of the model -/

/-- `s'` has the tasks, the panic flag and the exit flag of `s` -/
def J_Same (s s' : State) : Prop :=
  s'.tasks = s.tasks ∧ s'.panicked = s.panicked ∧ s'.exited = s.exited

/-- what every step preserves: the exit flag, and either the panic flag or the absence of fresh `asyncSend _ _ false` tasks -/
def J_Frame (s m : State) : Prop :=
  m.exited = s.exited ∧
    (m.panicked = s.panicked ∨
      ∀ (i o : Nat) (it : Item), m.tasks[i]? = some (Model.PubSub.Task.asyncSend o it false) →
        s.tasks[i]? = some (Model.PubSub.Task.asyncSend o it false))

theorem J_frame_eq {s m : State} (h1 : m.exited = s.exited) (h2 : m.panicked = s.panicked) : J_Frame s m :=
  ⟨h1, Or.inl h2⟩

theorem J_frame_tasks {s m : State} (h1 : m.exited = s.exited) (h2 : m.tasks = s.tasks) : J_Frame s m :=
  ⟨h1, Or.inr (fun i o it h => by rw [h2] at h; exact h)⟩

theorem J_frame_setDone {s m : State} (j : Nat) (he : m.exited = s.exited)
    (ht : m.tasks = s.tasks.set j .done) : J_Frame s m := by
  refine ⟨he, Or.inr ?_⟩
  intro i o it h
  rw [ht, List.getElem?_set] at h
  by_cases hji : j = i
  · rw [if_pos hji] at h
    by_cases hlt : j < s.tasks.length
    · rw [if_pos hlt] at h; cases h
    · rw [if_neg hlt] at h; cases h
  · rw [if_neg hji] at h; exact h

theorem J_mem_single {l l' : Option Event} {m X : State} (h : (l, m) ∈ [(l', X)]) : m = X := by
  simp only [List.mem_singleton, Prod.mk.injEq] at h
  exact h.2

theorem J_sendTo_same {s s' : State} {it : Item} (h : sendTo s it = .sent s') : J_Same s s' := by
  unfold sendTo at h
  split at h
  · cases h
  · split at h
    · cases h
    · split at h
      · injection h with h; subst h; exact ⟨rfl, rfl, rfl⟩
      · split at h
        · injection h with h; subst h; exact ⟨rfl, rfl, rfl⟩
        · cases h

theorem J_stepSend_frame (cfg : Cfg) (s : State) (it : Item) (cb : Bool) (fin setCb : State → State)
    (l : Option Event) (m : State) (h : (l, m) ∈ stepSend cfg s it cb fin setCb)
    (hfin : ∀ s', J_Same s s' → J_Frame s (fin s'))
    (hcb : ∀ s', J_Same s s' → J_Frame s (setCb s')) : J_Frame s m := by
  unfold stepSend at h
  split at h
  · rw [J_mem_single h]; exact hfin s ⟨rfl, rfl, rfl⟩
  · rcases List.mem_append.1 h with h | h
    · split at h
      · cases h
      · rw [J_mem_single h]; exact J_frame_tasks rfl rfl
      · rename_i s' hs
        rw [J_mem_single h]; exact hfin s' (J_sendTo_same hs)
    · split at h
      · rw [J_mem_single h]; exact hcb _ ⟨rfl, rfl, rfl⟩
      · cases h

theorem J_wgDone_same (s : State) (w : Nat) : (wgDone s w).tasks = s.tasks ∧ (wgDone s w).exited = s.exited := by
  unfold wgDone
  split <;> exact ⟨rfl, rfl⟩

theorem J_stepPubStart_frame (s : State) (i p o : Nat) (v : Variant) (evs : List Int)
    (l : Option Event) (m : State) (h : (l, m) ∈ stepPubStart s i p o v evs) : J_Frame s m := by
  unfold stepPubStart at h
  split at h
  · cases h
  · simp only at h
    split at h
    · split at h
      · rw [J_mem_single h]; exact J_frame_eq rfl rfl
      · rw [J_mem_single h]; exact J_frame_eq rfl rfl
    · split at h
      · rw [J_mem_single h]; exact J_frame_eq rfl rfl
      · rw [J_mem_single h]; exact J_frame_eq rfl rfl

theorem J_syncAdvance_frame (s s' : State) (i p o : Nat) (rest : List Item) (h : J_Same s s') :
    J_Frame s (syncAdvance i p o rest s') := by
  obtain ⟨_, h2, h3⟩ := h
  unfold syncAdvance
  split
  · exact J_frame_eq h3 h2
  · exact J_frame_eq h3 h2

theorem J_stepTask_frame (cfg : Cfg) (s : State) (i : Nat) (tk : Task)
    (l : Option Event) (m : State) (h : (l, m) ∈ stepTask cfg s i tk) : J_Frame s m := by
  cases tk with
  | pubStart p o v evs => exact J_stepPubStart_frame s i p o v evs l m h
  | syncLoop p o work cb =>
    simp only [stepTask] at h
    unfold stepSyncLoop at h
    split at h
    · cases h
    · exact J_stepSend_frame cfg s _ cb _ _ l m h (fun s' hs => J_syncAdvance_frame s s' i p o _ hs)
        (fun s' hs => J_frame_eq hs.2.2 hs.2.1)
  | waitWg p o w =>
    simp only [stepTask] at h
    unfold stepWaitWg at h
    split at h
    · rw [J_mem_single h]; exact J_frame_eq rfl rfl
    · cases h
  | pubRet p =>
    simp only [stepTask] at h
    rw [J_mem_single h]; exact J_frame_eq rfl rfl
  | asyncStart o it =>
    simp only [stepTask] at h
    unfold stepAsyncStart at h
    split at h
    · cases h
    · split at h
      · rw [J_mem_single h]; exact J_frame_eq rfl rfl
      · rw [J_mem_single h]; exact J_frame_eq rfl rfl
  | asyncSend o it cb =>
    simp only [stepTask] at h
    unfold stepAsyncSend at h
    exact J_stepSend_frame cfg s _ cb _ _ l m h (fun s' hs => J_frame_eq hs.2.2 hs.2.1)
      (fun s' hs => J_frame_eq hs.2.2 hs.2.1)
  | wgSend o w it cb =>
    simp only [stepTask] at h
    unfold stepWgSend at h
    refine J_stepSend_frame cfg s _ cb _ _ l m h (fun s' hs => ?_)
      (fun s' hs => J_frame_eq hs.2.2 hs.2.1)
    have hw := J_wgDone_same s' w
    refine J_frame_setDone i ?_ ?_
    · show (wgDone s' w).exited = s.exited
      rw [hw.2]; exact hs.2.2
    · show (wgDone s' w).tasks.set i .done = s.tasks.set i .done
      rw [hw.1, hs.1]
  | subStart o c cap =>
    simp only [stepTask] at h
    rw [J_mem_single h]; exact J_frame_eq rfl rfl
  | subWait o c cap =>
    simp only [stepTask] at h
    unfold stepSubWait at h
    split at h
    · cases h
    · rw [J_mem_single h]; exact J_frame_eq rfl rfl
  | subRet c =>
    simp only [stepTask] at h
    rw [J_mem_single h]; exact J_frame_eq rfl rfl
  | unsubStart u o c =>
    cases c with
    | none =>
      simp only [stepTask] at h
      rw [J_mem_single h]; exact J_frame_eq rfl rfl
    | some c =>
      simp only [stepTask] at h
      rw [J_mem_single h]; exact J_frame_eq rfl rfl
  | unsubWait u o c =>
    simp only [stepTask] at h
    unfold stepUnsubWait at h
    split at h
    · cases h
    · split at h
      · split at h
        · rw [J_mem_single h]; exact J_frame_tasks rfl rfl
        · rw [J_mem_single h]; exact J_frame_eq rfl rfl
      · rw [J_mem_single h]; exact J_frame_eq rfl rfl
  | unsubRet u code =>
    simp only [stepTask] at h
    rw [J_mem_single h]; exact J_frame_eq rfl rfl
  | uaStart u o =>
    simp only [stepTask] at h
    rw [J_mem_single h]; exact J_frame_eq rfl rfl
  | uaWait u o =>
    simp only [stepTask] at h
    unfold stepUaWait at h
    split at h
    · cases h
    · split at h
      · rw [J_mem_single h]; exact J_frame_tasks rfl rfl
      · rw [J_mem_single h]; exact J_frame_eq rfl rfl
  | uaRet u =>
    simp only [stepTask] at h
    rw [J_mem_single h]; exact J_frame_eq rfl rfl
  | woStart w o c =>
    simp only [stepTask] at h
    unfold stepWoStart at h
    split at h
    · cases h
    · rw [J_mem_single h]; exact J_frame_eq rfl rfl
  | done =>
    simp only [stepTask] at h
    cases h

theorem J_taskSteps_frame (cfg : Cfg) (s : State) (i : Nat)
    (l : Option Event) (m : State) (h : (l, m) ∈ taskSteps cfg s i) : J_Frame s m := by
  unfold taskSteps at h
  split at h
  · cases h
  · exact J_stepTask_frame cfg s i _ l m h

theorem J_recvSteps_frame (s : State) (ch : ChanSt)
    (l : Option Event) (m : State) (h : (l, m) ∈ recvSteps s ch) : J_Frame s m := by
  unfold recvSteps at h
  split at h
  · cases h
  · split at h
    · rw [J_mem_single h]; exact J_frame_eq rfl rfl
    · split at h
      · cases h
      · split at h
        · rw [J_mem_single h]; exact J_frame_eq rfl rfl
        · split at h
          · rw [J_mem_single h]; exact J_frame_eq rfl rfl
          · cases h

theorem J_envSteps_visible (cfg : Cfg) (s m : State) : (none, m) ∉ envSteps cfg s := by
  intro h
  unfold envSteps at h
  obtain ⟨e, _, he⟩ := List.mem_filterMap.1 h
  cases hx : envStep cfg s e with
  | none => rw [hx] at he; cases he
  | some s' => rw [hx] at he; cases he

theorem J_exitSteps_visible (s m : State) : (none, m) ∉ exitSteps s := by
  intro h
  unfold exitSteps at h
  obtain ⟨r, _, hr⟩ := List.mem_map.1 h
  cases hr

/-- the frame of an internal step of the model -/
theorem J_succ_internal_frame (cfg : Cfg) (s m : State) (h : (none, m) ∈ succ cfg s) :
    s.exited = false ∧ s.panicked = none ∧ J_Frame s m := by
  unfold succ at h
  split at h
  · cases h
  · rename_i hex
    split at h
    · have := List.mem_singleton.1 h
      cases this
    · rename_i hpan
      refine ⟨by simpa using hex, hpan, ?_⟩
      rcases List.mem_append.1 h with h | h
      · rcases List.mem_append.1 h with h | h
        · rcases List.mem_append.1 h with h | h
          · exact absurd h (J_envSteps_visible cfg s m)
          · obtain ⟨j, _, hj⟩ := List.mem_flatMap.1 h
            exact J_taskSteps_frame cfg s j none m hj
        · obtain ⟨ch, _, hc⟩ := List.mem_flatMap.1 h
          exact J_recvSteps_frame s ch none m hc
      · exact absurd h (J_exitSteps_visible s m)

/-- a step of task `i` is a step of the model (state neither exited nor panicked) -/
theorem J_taskSteps_succ (cfg : Cfg) (m t : State) (l : Option Event) (i : Nat)
    (hex : m.exited = false) (hpan : m.panicked = none) (hi : i < m.tasks.length)
    (h : (l, t) ∈ taskSteps cfg m i) : (l, t) ∈ succ cfg m := by
  unfold succ
  rw [if_neg (by simp [hex])]
  split
  · rename_i x hx; rw [hpan] at hx; cases hx
  · apply List.mem_append_left
    apply List.mem_append_left
    apply List.mem_append_right
    exact List.mem_flatMap.2 ⟨i, List.mem_range.2 hi, h⟩

/-! ### the judge's successor function -/

/-- every `succJ` step is one or two `succ` steps with the same label -/
theorem succJ_sound (cfg : Cfg) (s t : State) (l : Option Event) (h : (l, t) ∈ succJ cfg s) :
    (l, t) ∈ succ cfg s ∨ (l = none ∧ ∃ m, (none, m) ∈ succ cfg s ∧ (none, t) ∈ succ cfg m) := by
  unfold succJ at h
  obtain ⟨p, hp, hmem⟩ := List.mem_flatMap.1 h
  obtain ⟨pl, m⟩ := p
  simp only at hmem
  split at hmem
  · rw [List.mem_singleton.1 hmem]; exact Or.inl hp
  · rename_i hnone
    split at hmem
    · rw [List.mem_singleton.1 hmem]; exact Or.inl hp
    · rename_i i hfind
      have hpred := List.find?_some hfind
      obtain ⟨hts, hl⟩ := List.mem_filter.1 hmem
      have hl' : l = none := by
        cases l with
        | none => rfl
        | some e => simp at hl
      subst hl'
      obtain ⟨hsex, hspan, hmex, hfr⟩ := J_succ_internal_frame cfg s m hp
      split at hpred
      · rename_i o it o' it' hs hm
        have hi : i < m.tasks.length := by
          rcases Nat.lt_or_ge i m.tasks.length with hlt | hge
          · exact hlt
          · rw [List.getElem?_eq_none hge] at hm; cases hm
        have hmpan : m.panicked = none := by
          rcases hfr with hfr | hfr
          · rw [hfr]; exact hspan
          · have := hfr i o' it' hm
            rw [hs] at this
            cases this
        refine Or.inr ⟨rfl, m, hp, ?_⟩
        exact J_taskSteps_succ cfg m t none i (by rw [hmex]; exact hsex) hmpan hi hts
      · cases hpred

theorem succJ_exec (cfg : Cfg) (s t : State) (l : Option Event) (h : (l, t) ∈ succJ cfg s) :
    ∃ ls, Exec (sys cfg) s ls t ∧ visible ls = visible [l] := by
  rcases succJ_sound cfg s t l h with h1 | ⟨hl, m, h1, h2⟩
  · exact ⟨[l], Exec.single (sys := sys cfg) h1, rfl⟩
  · subst hl
    exact ⟨[none, none], Exec.cons (sys := sys cfg) h1 (Exec.single (sys := sys cfg) h2), rfl⟩

#print axioms succJ_sound
#print axioms succJ_exec

end TypVerif.Lemmas.ConcAcceptC10
