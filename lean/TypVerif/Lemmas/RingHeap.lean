import TypVerif.Model.Ring
import TypVerif.Lemmas.RingLinked
import TypVerif.Lemmas.RingWorld
/-
The heap seen through its views `nx pv val`, the abstraction invariant `RingWF`, lazy initialisation,
and the read-only loops (`Move`, `Len`, `Do`, forward / backward walks).
-/
namespace TypVerif.Lemmas.Ring
open TypVerif.Model TypVerif.Model.Ring TypVerif.Spec.RingOp TypVerif.Spec.RingSeq

/-! ### views of the writes (the only place where the store is looked at) -/

@[simp] theorem nx_setNext (h : RHeap) (a v) : (h.setNext a v).nx = upd h.nx a v := by
  funext x; simp only [RHeap.nx, RHeap.setNext, Store.get_set, upd]; split <;> simp_all
@[simp] theorem pv_setNext (h : RHeap) (a v) : (h.setNext a v).pv = h.pv := by
  funext x; simp only [RHeap.pv, RHeap.setNext, Store.get_set]; split <;> simp_all
@[simp] theorem val_setNext (h : RHeap) (a v) : (h.setNext a v).val = h.val := by
  funext x; simp only [RHeap.val, RHeap.setNext, Store.get_set]; split <;> simp_all
@[simp] theorem size_setNext (h : RHeap) (a v) : (h.setNext a v).size = h.size := rfl
@[simp] theorem nx_setPrev (h : RHeap) (a v) : (h.setPrev a v).nx = h.nx := by
  funext x; simp only [RHeap.nx, RHeap.setPrev, Store.get_set]; split <;> simp_all
@[simp] theorem pv_setPrev (h : RHeap) (a v) : (h.setPrev a v).pv = upd h.pv a v := by
  funext x; simp only [RHeap.pv, RHeap.setPrev, Store.get_set, upd]; split <;> simp_all
@[simp] theorem val_setPrev (h : RHeap) (a v) : (h.setPrev a v).val = h.val := by
  funext x; simp only [RHeap.val, RHeap.setPrev, Store.get_set]; split <;> simp_all
@[simp] theorem size_setPrev (h : RHeap) (a v) : (h.setPrev a v).size = h.size := rfl

@[simp] theorem alloc_snd (h : RHeap) (p) : (h.alloc p).2 = h.size := rfl
@[simp] theorem size_alloc (h : RHeap) (p) : (h.alloc p).1.size = h.size + 1 := rfl
@[simp] theorem nx_alloc (h : RHeap) (p) : (h.alloc p).1.nx = upd h.nx h.size none := by
  funext x; simp only [RHeap.nx, RHeap.alloc, Store.get_set, upd]; split <;> simp_all
@[simp] theorem pv_alloc (h : RHeap) (p) : (h.alloc p).1.pv = upd h.pv h.size p := by
  funext x; simp only [RHeap.pv, RHeap.alloc, Store.get_set, upd]; split <;> simp_all
theorem val_alloc (h : RHeap) (p) (x : Nat) : (h.alloc p).1.val x = if x = h.size then (h.size : Int) else h.val x := by
  simp only [RHeap.val, RHeap.alloc, Store.get_set]; split <;> simp_all

@[simp] theorem nx_empty (x) : RHeap.empty.nx x = none := by simp [RHeap.nx, RHeap.empty]; rfl
@[simp] theorem pv_empty (x) : RHeap.empty.pv x = none := by simp [RHeap.pv, RHeap.empty]; rfl
@[simp] theorem val_empty (x) : RHeap.empty.val x = 0 := by simp [RHeap.val, RHeap.empty]; rfl

/-! ### the invariant -/

/-- a ring of the world as laid out in the heap: an untouched zero value, or a doubly linked cycle -/
def Good (nx pv : PF) (c : List RingId) : Prop :=
  (∃ r, c = [r] ∧ nx r = none ∧ pv r = none) ∨ CycLinked nx pv c

structure RingWF (h : RHeap) (w : RWorld) : Prop where
  size_eq : h.size = w.size
  world : WorldWF w
  value_eq : ∀ i : Nat, i < h.size → h.val i = (i : Int)
  good : ∀ c ∈ w.cycles, Good h.nx h.pv c
  fresh : ∀ i : Nat, h.size ≤ i → h.nx i = none ∧ h.pv i = none ∧ h.val i = 0

theorem good_congr {nx pv nx' pv' : PF} {c : List RingId}
    (h1 : ∀ x ∈ c, nx' x = nx x) (h2 : ∀ x ∈ c, pv' x = pv x) (h : Good nx pv c) : Good nx' pv' c := by
  rcases h with ⟨r, rfl, h3, h4⟩ | h
  · exact Or.inl ⟨r, rfl, by rw [h1 r (by simp)]; exact h3, by rw [h2 r (by simp)]; exact h4⟩
  · refine Or.inr (linked_congr ?_ ?_ h)
    · intro x hx
      rcases List.mem_append.1 hx with hx | hx
      · exact h1 x hx
      · exact h1 x (List.mem_of_mem_take hx)
    · intro x hx
      rcases List.mem_append.1 hx with hx | hx
      · exact h2 x hx
      · exact h2 x (List.mem_of_mem_take hx)

theorem linked_nx_some {nx pv : PF} {l : List RingId} {r : RingId} (h : Linked nx pv (l ++ [r])) :
    ∀ y ∈ l, nx y ≠ none := by
  induction l with
  | nil => intro y hy; cases hy
  | cons a t ih =>
    intro y hy
    have ha : nx a ≠ none := by
      cases t with
      | nil => have := h.1; intro e; rw [e] at this; cases this
      | cons b t' => have := h.1; intro e; rw [e] at this; cases this
    have ht : Linked nx pv (t ++ [r]) := by
      cases t with
      | nil => trivial
      | cons b t' => exact h.2.2
    rcases List.mem_cons.1 hy with rfl | hy
    · exact ha
    · exact ih ht y hy

theorem linked_pv_some {nx pv : PF} {l : List RingId} {r : RingId} (h : Linked nx pv (r :: l)) :
    ∀ y ∈ l, pv y ≠ none := by
  have h' := (linked_reverse nx pv (r :: l)).1 h
  rw [List.reverse_cons] at h'
  intro y hy
  exact linked_nx_some h' y (List.mem_reverse.2 hy)

/-- members of a linked ring are initialised -/
theorem cycLinked_some {nx pv : PF} {c : List RingId} (h : CycLinked nx pv c) {y : RingId} (hy : y ∈ c) :
    nx y ≠ none ∧ pv y ≠ none := by
  have e := split_of_mem hy
  rw [e] at h
  have h' := cycLinked_rot h
  constructor
  · exact linked_nx_some h' y (by simp)
  · have : (y :: after y c ++ before y c ++ [y]) = y :: (after y c ++ before y c ++ [y]) := by simp
    rw [this] at h'
    exact linked_pv_some h' y (by simp)

/-- the bridge between the world and the heap: the ring of an initialised `r`, rotated to `r`, is linked -/
theorem bridge {h : RHeap} {w : RWorld} (wf : RingWF h w) {r : RingId} (hr : r < h.size)
    (hi : h.nx r ≠ none) :
    ∃ c t, c ∈ w.cycles ∧ r ∈ c ∧ cycOf w r = r :: t ∧ (r :: t).Perm c ∧ CycLinked h.nx h.pv c ∧
      Linked h.nx h.pv (r :: t ++ [r]) := by
  obtain ⟨c, hc, hrc⟩ := exists_cycle wf.world (wf.size_eq ▸ hr)
  refine ⟨c, after r c ++ before r c, hc, hrc, cycOf_eq wf.world hc hrc, ?_, ?_⟩
  · have := rotTo_perm hrc
    simpa [rotTo] using this
  · have hg := wf.good c hc
    have hcl : CycLinked h.nx h.pv c := by
      rcases hg with ⟨r', rfl, h3, _⟩ | hg
      · simp only [List.mem_singleton] at hrc
        subst hrc
        exact absurd h3 hi
      · exact hg
    refine ⟨hcl, ?_⟩
    have e := split_of_mem hrc
    have hcl' := hcl
    rw [e] at hcl'
    have := cycLinked_rot hcl'
    simpa using this

theorem members {h : RHeap} {w : RWorld} (wf : RingWF h w) {c : List RingId} (hc : c ∈ w.cycles)
    (hcl : CycLinked h.nx h.pv c) {y : RingId} (hy : y ∈ c) :
    y < h.size ∧ h.nx y ≠ none ∧ h.pv y ≠ none :=
  ⟨wf.size_eq ▸ mem_lt wf.world hc hy, (cycLinked_some hcl hy).1, (cycLinked_some hcl hy).2⟩

/-! ### lazy initialisation -/

theorem wf_init {h : RHeap} {w : RWorld} (wf : RingWF h w) {r : RingId} (hr : r < h.size)
    (hz : h.nx r = none) : RingWF (init h r).1 w := by
  unfold init
  refine ⟨by simpa using wf.size_eq, wf.world, by simpa using wf.value_eq, ?_, ?_⟩
  · intro c hc
    simp only [nx_setPrev, nx_setNext, pv_setPrev, pv_setNext]
    by_cases hrc : r ∈ c
    · rcases wf.good c hc with ⟨r', rfl, _, _⟩ | hg
      · simp only [List.mem_singleton] at hrc
        subst hrc
        right
        show Linked _ _ [r, r]
        exact ⟨upd_same _ _ _, upd_same _ _ _, trivial⟩
      · exact absurd hz (cycLinked_some hg hrc).1
    · apply good_congr _ _ (wf.good c hc)
      · intro x hx; exact upd_ne _ _ (fun e => hrc (e ▸ hx))
      · intro x hx; exact upd_ne _ _ (fun e => hrc (e ▸ hx))
  · intro i hi
    simp only [size_setPrev, size_setNext] at hi
    simp only [nx_setPrev, nx_setNext, pv_setPrev, pv_setNext, val_setPrev, val_setNext]
    have : i ≠ r := Nat.ne_of_gt (Nat.lt_of_lt_of_le hr hi)
    rw [upd_ne _ _ this, upd_ne _ _ this]
    exact wf.fresh i hi

theorem Next_spec {h : RHeap} {w : RWorld} (wf : RingWF h w) {r : RingId} (hr : r < h.size) :
    RingWF (Next h r).1 w ∧ (Next h r).1.nx r = some (Next h r).2 ∧ (Next h r).1.size = h.size ∧
      ∀ x, h.nx x ≠ none → (Next h r).1.nx x = h.nx x := by
  unfold Next
  cases hz : h.nx r with
  | none =>
    refine ⟨wf_init wf hr hz, by simp [init], by simp [init], ?_⟩
    intro x hx
    have : x ≠ r := fun e => hx (e ▸ hz)
    simp [init, upd_ne _ _ this]
  | some n => exact ⟨wf, hz, rfl, fun _ _ => rfl⟩

theorem Prev_spec {h : RHeap} {w : RWorld} (wf : RingWF h w) {s : RingId} (hs : s < h.size) :
    RingWF (Prev h s).1 w ∧ (∃ p, (Prev h s).2 = some p ∧ (Prev h s).1.pv s = some p) ∧
      (Prev h s).1.nx s ≠ none ∧ (Prev h s).1.size = h.size ∧
      ∀ x, h.nx x ≠ none → (Prev h s).1.nx x = h.nx x := by
  unfold Prev
  cases hz : h.nx s with
  | none =>
    refine ⟨wf_init wf hs hz, ⟨s, rfl, by simp [init]⟩, by simp [init], by simp [init], ?_⟩
    intro x hx
    have : x ≠ s := fun e => hx (e ▸ hz)
    simp [init, upd_ne _ _ this]
  | some n =>
    have hi : h.nx s ≠ none := by rw [hz]; simp
    obtain ⟨c, t, hc, hsc, _, _, hcl, _⟩ := bridge wf hs hi
    have := (members wf hc hcl hsc).2.2
    cases hp : h.pv s with
    | none => exact absurd hp this
    | some p =>
      dsimp only
      exact ⟨wf, ⟨p, rfl, rfl⟩, hi, rfl, fun _ _ => rfl⟩

/-- the value returned by `Next` / `Prev` -/
theorem nx_eq_nextOf {h : RHeap} {w : RWorld} (wf : RingWF h w) {r : RingId} (hr : r < h.size)
    (hi : h.nx r ≠ none) : h.nx r = some (nextOf w r) := by
  obtain ⟨c, t, _, _, hcy, _, _, hl⟩ := bridge wf hr hi
  rw [linked_head hl, nextOf, hcy, List.tail_cons]

theorem pv_eq_prevOf {h : RHeap} {w : RWorld} (wf : RingWF h w) {r : RingId} (hr : r < h.size)
    (hi : h.nx r ≠ none) : h.pv r = some (prevOf w r) := by
  obtain ⟨c, t, _, _, hcy, _, _, hl⟩ := bridge wf hr hi
  rw [linked_last hl, prevOf, hcy, List.getLastD_cons]

theorem nextOf_inited {h : RHeap} {w : RWorld} (wf : RingWF h w) {r : RingId} (hr : r < h.size)
    (hi : h.nx r ≠ none) : nextOf w r < h.size ∧ h.nx (nextOf w r) ≠ none := by
  obtain ⟨c, t, hc, _, hcy, hperm, hcl, _⟩ := bridge wf hr hi
  have hm : nextOf w r ∈ r :: t := by
    rw [nextOf, hcy, List.tail_cons]
    cases t <;> simp
  have := members wf hc hcl (hperm.mem_iff.1 hm)
  exact ⟨this.1, this.2.1⟩

theorem prevOf_inited {h : RHeap} {w : RWorld} (wf : RingWF h w) {r : RingId} (hr : r < h.size)
    (hi : h.nx r ≠ none) : prevOf w r < h.size ∧ h.nx (prevOf w r) ≠ none := by
  obtain ⟨c, t, hc, _, hcy, hperm, hcl, _⟩ := bridge wf hr hi
  have hm : prevOf w r ∈ r :: t := by
    rw [prevOf, hcy, List.getLastD_cons, List.getLastD_eq_getLast?]
    cases hl : t.getLast? with
    | none => simp
    | some x => simp [List.mem_of_getLast? hl]
  have := members wf hc hcl (hperm.mem_iff.1 hm)
  exact ⟨this.1, this.2.1⟩

/-! ### Move -/

theorem moveLoop_next {h : RHeap} {w : RWorld} (wf : RingWF h w) :
    ∀ (k : Nat) (x : RingId), x < h.size → h.nx x ≠ none →
      moveLoop h.nx k (some x) = .ok (some (iter (nextOf w) k x)) := by
  intro k
  induction k with
  | zero => intro x _ _; rfl
  | succ k ih =>
    intro x hx hi
    have := nextOf_inited wf hx hi
    simp only [moveLoop, iter]
    rw [nx_eq_nextOf wf hx hi]
    exact ih _ this.1 this.2

theorem moveLoop_prev {h : RHeap} {w : RWorld} (wf : RingWF h w) :
    ∀ (k : Nat) (x : RingId), x < h.size → h.nx x ≠ none →
      moveLoop h.pv k (some x) = .ok (some (iter (prevOf w) k x)) := by
  intro k
  induction k with
  | zero => intro x _ _; rfl
  | succ k ih =>
    intro x hx hi
    have := prevOf_inited wf hx hi
    simp only [moveLoop, iter]
    rw [pv_eq_prevOf wf hx hi]
    exact ih _ this.1 this.2

end TypVerif.Lemmas.Ring
