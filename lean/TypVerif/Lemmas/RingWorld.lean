import TypVerif.Spec.RingSeq
/-
List-level facts about the abstract ring world: `before`/`after`/`rotTo`, the ring of an id,
and the partition invariant `WorldWF`.
-/
namespace TypVerif.Lemmas.Ring
open TypVerif.Spec.RingOp TypVerif.Spec.RingSeq

theorem split_of_mem {r : RingId} {c : List RingId} (h : r ∈ c) : c = before r c ++ r :: after r c := by
  induction c with
  | nil => cases h
  | cons x xs ih =>
    unfold before after
    by_cases e : x = r
    · simp [e]
    · simp only [e, if_false, List.cons_append]
      have : r ∈ xs := by
        cases h with
        | head => exact absurd rfl e
        | tail _ h => exact h
      rw [← ih this]

theorem not_mem_before (r : RingId) (c : List RingId) : r ∉ before r c := by
  induction c with
  | nil => simp [before]
  | cons x xs ih =>
    unfold before
    by_cases e : x = r
    · simp [e]
    · simp only [e, if_false, List.mem_cons, not_or]
      exact ⟨fun e' => e e'.symm, ih⟩

theorem before_of_not_mem {r : RingId} {c : List RingId} (h : r ∉ c) : before r c = c := by
  induction c with
  | nil => rfl
  | cons x xs ih =>
    unfold before
    rw [List.mem_cons, not_or] at h
    have e : ¬ x = r := fun e => h.1 e.symm
    simp only [e, if_false]
    rw [ih h.2]

theorem after_of_not_mem {r : RingId} {c : List RingId} (h : r ∉ c) : after r c = [] := by
  induction c with
  | nil => rfl
  | cons x xs ih =>
    unfold after
    rw [List.mem_cons, not_or] at h
    have e : ¬ x = r := fun e => h.1 e.symm
    simp only [e, if_false]
    exact ih h.2

theorem rotTo_perm {r : RingId} {c : List RingId} (h : r ∈ c) : (rotTo r c).Perm c := by
  have e := split_of_mem h
  unfold rotTo
  have : (r :: after r c ++ before r c).Perm (before r c ++ r :: after r c) := by
    have := @List.perm_append_comm _ (r :: after r c) (before r c)
    simpa using this
  rw [← e] at this
  exact this

structure WorldWF (w : RWorld) : Prop where
  nodup : w.cycles.flatten.Nodup
  mem_iff : ∀ i : Nat, i ∈ w.cycles.flatten ↔ i < w.size
  length_eq : w.cycles.flatten.length = w.size
  nonempty : ∀ c ∈ w.cycles, c ≠ []

theorem WorldWF.of_perm {w w' : RWorld} (wf : WorldWF w) (hs : w'.size = w.size)
    (hp : w'.cycles.flatten.Perm w.cycles.flatten) (hne : ∀ c ∈ w'.cycles, c ≠ []) : WorldWF w' where
  nodup := hp.nodup_iff.2 wf.nodup
  mem_iff := fun i => by rw [hp.mem_iff, hs]; exact wf.mem_iff i
  length_eq := by rw [hp.length_eq, hs]; exact wf.length_eq
  nonempty := hne

theorem find_cycle {cs : List (List RingId)} (nd : cs.flatten.Nodup) {c : List RingId} (hc : c ∈ cs)
    {r : RingId} (hr : r ∈ c) : cs.find? (fun c => c.contains r) = some c := by
  induction cs with
  | nil => cases hc
  | cons d cs' ih =>
    rw [List.flatten_cons, List.nodup_append] at nd
    rw [List.find?_cons]
    rcases List.mem_cons.1 hc with rfl | hc'
    · have : c.contains r = true := by simp [hr]
      rw [this]
    · have hrf : r ∈ cs'.flatten := List.mem_flatten.2 ⟨c, hc', hr⟩
      have : d.contains r = false := by
        simp only [List.contains_eq_mem, decide_eq_false_iff_not]
        exact fun hd => nd.2.2 r hd r hrf rfl
      rw [this]
      exact ih nd.2.1 hc'

theorem mem_others {cs : List (List RingId)} {r : RingId} {d : List RingId} :
    d ∈ others cs r ↔ d ∈ cs ∧ r ∉ d := by
  simp [others]

theorem others_perm {cs : List (List RingId)} (nd : cs.flatten.Nodup) {c : List RingId} (hc : c ∈ cs)
    {r : RingId} (hr : r ∈ c) : cs.flatten.Perm (c ++ (others cs r).flatten) := by
  induction cs with
  | nil => cases hc
  | cons d cs' ih =>
    have nd' := nd
    rw [List.flatten_cons, List.nodup_append] at nd'
    unfold others
    rw [List.filter_cons]
    rcases List.mem_cons.1 hc with rfl | hc'
    · have : (!c.contains r) = false := by simp [hr]
      rw [this]
      have hall : List.filter (fun c => !c.contains r) cs' = cs' := by
        rw [List.filter_eq_self]
        intro e he
        simp only [List.contains_eq_mem, Bool.not_eq_eq_eq_not, Bool.not_true, decide_eq_false_iff_not]
        exact fun hre => nd'.2.2 r hr r (List.mem_flatten.2 ⟨e, he, hre⟩) rfl
      simp only [Bool.false_eq_true, if_false]
      rw [hall, List.flatten_cons]
    · have hrf : r ∈ cs'.flatten := List.mem_flatten.2 ⟨c, hc', hr⟩
      have : (!d.contains r) = true := by
        simp only [List.contains_eq_mem, Bool.not_eq_eq_eq_not, Bool.not_true, decide_eq_false_iff_not]
        exact fun hd => nd'.2.2 r hd r hrf rfl
      rw [this]
      simp only [if_true, List.flatten_cons]
      have ih' := ih nd'.2.1 hc'
      unfold others at ih'
      exact (ih'.append_left d).trans (List.perm_append_comm_assoc _ _ _)

/-- the ring of `r` is disjoint from every other ring -/
theorem others_disjoint {cs : List (List RingId)} (nd : cs.flatten.Nodup) {c : List RingId} (hc : c ∈ cs)
    {r : RingId} (hr : r ∈ c) {d : List RingId} (hd : d ∈ others cs r) {x : RingId} (hx : x ∈ c) : x ∉ d := by
  have hp := others_perm nd hc hr
  have nd2 := hp.nodup_iff.1 nd
  rw [List.nodup_append] at nd2
  exact fun hxd => nd2.2.2 x hx x (List.mem_flatten.2 ⟨d, hd, hxd⟩) rfl

theorem others_nodup {cs : List (List RingId)} (nd : cs.flatten.Nodup) {c : List RingId} (hc : c ∈ cs)
    {r : RingId} (hr : r ∈ c) : (others cs r).flatten.Nodup := by
  have nd2 := (others_perm nd hc hr).nodup_iff.1 nd
  rw [List.nodup_append] at nd2
  exact nd2.2.1

theorem cycle_nodup {cs : List (List RingId)} (nd : cs.flatten.Nodup) {c : List RingId} (hc : c ∈ cs) : c.Nodup :=
  (List.sublist_flatten_of_mem hc).nodup nd

theorem exists_cycle {w : RWorld} (wf : WorldWF w) {r : RingId} (hr : r < w.size) :
    ∃ c, c ∈ w.cycles ∧ r ∈ c := by
  have := (wf.mem_iff r).2 hr
  obtain ⟨c, hc, hrc⟩ := List.mem_flatten.1 this
  exact ⟨c, hc, hrc⟩

theorem cycOf_eq {w : RWorld} (wf : WorldWF w) {c : List RingId} (hc : c ∈ w.cycles) {r : RingId} (hr : r ∈ c) :
    cycOf w r = r :: (after r c ++ before r c) := by
  unfold cycOf
  rw [find_cycle wf.nodup hc hr]
  simp [rotTo]

theorem mem_lt {w : RWorld} (wf : WorldWF w) {c : List RingId} (hc : c ∈ w.cycles) {x : Nat} (hx : x ∈ c) :
    x < w.size := (wf.mem_iff x).1 (List.mem_flatten.2 ⟨c, hc, hx⟩)

theorem cycle_length_le {w : RWorld} (wf : WorldWF w) {c : List RingId} (hc : c ∈ w.cycles) :
    c.length ≤ w.size := by
  rw [← wf.length_eq]; exact (List.sublist_flatten_of_mem hc).length_le

end TypVerif.Lemmas.Ring
