import TypVerif.Conc.Sys
/-
Model of sync2.KeyedMutex / sync2.KeyedRWMutex (sync2/keyedmutex.go) as a transition system
(DESIGN §7.1, §8/C09).

    func (km *KeyedMutex[T]) LockKey(key T) {            func (km *KeyedRWMutex[T]) RLockKey(key T) {
        m, _ := km.m.LoadOrStore(key, &sync.Mutex{})         m, _ := km.m.LoadOrStore(key, &sync.RWMutex{})
        m.Lock()                                             m.RLock()
    }                                                    }
    TryLockKey: ... return m.TryLock()    UnlockKey: ... m.Unlock()    (R variants alike)
    func (km *Keyed*Mutex[T]) ClearKey(key T) { km.m.Delete(key) }

MODELLING DECISIONS (trusted base, nothing here is postulated in Lean — the model simply *is* this):

* `MapAtomic`: the field `km.m` (a `sync2.Map`) is modelled by its ATOMIC specification, a finite map
  `key ↦ MutexId` (assoc list, `get`/`del`), on which `LoadOrStore` and `Delete` are single atomic
  steps.  Justification: property C04 (sync2.Map is linearizable).  In particular the map has no
  internal lock in this model, so no thread can block inside a map operation.
* Heap: the mutexes live in `heap : List Mu`, a `*sync.Mutex` is its index.  `&sync.Mutex{}` is
  evaluated before `LoadOrStore` is called, so EVERY keyed call allocates a fresh cell (id = heap size)
  in its `LoadOrStore` step, also when the key exists (the unused cell is garbage), as in the source.
* `sync.Mutex` / `sync.RWMutex` BY CONTRACT, one automaton `Mu = (writer, readers, pending, wq)`:
    Mutex.Lock      enabled iff free (`writer = none`; a Mutex has no readers: `readers = []` always), takes it
    RWMutex.Lock    three steps: *enter* (always enabled; the caller joins `wq`, the goroutines inside the
                    writers' entry section — Go: it has taken, or queues for, the inner mutex `rw.w`),
                    *announce* (always enabled; it moves from `wq` to `pending`: from now on new readers
                    are refused — Go: "a blocked Lock call excludes new readers"), then
                    *acquire*, enabled iff `writer = none ∧ readers = []`
    RLock           enabled iff `writer = none ∧ pending = []`
    TryLock         never blocks; true (and acquires) iff `writer = none ∧ readers = [] ∧ pending = [] ∧ wq = []`
    TryRLock        never blocks; true (and acquires) iff `writer = none ∧ pending = []`
    Mutex.Unlock    always enabled, `writer := none`
    RWMutex.Unlock  two steps, both always enabled: *release* (`writer := none`, readers and writers may
                    proceed; the caller joins `wq` — Go: it still holds `rw.w`) and *leave* (`wq`)
    RUnlock         always enabled, one occurrence of the caller leaves `readers`
  The acquire condition is written uniformly `writer = none ∧ readers = []` for both flavours.  `pending` and `wq` are sets
  (a goroutine leaves by `filter`).  `wq` only
  ever makes a concurrent TryLock fail (it is what makes the model accept the TryLock failures that the
  two-word implementation of sync.RWMutex can exhibit while a Lock is entering or an Unlock is leaving);
  the timing of *enter*/*announce* is unconstrained, so the model over-approximates sync.RWMutex.
* Scripts: the system is parametrised by a finite alphabet `ops : List Op`; an idle thread may invoke
  ANY `op ∈ ops` allowed by the discipline below.  Every finite execution of every per-thread script
  is an execution of the system whose alphabet is the (finite) set of operations used, so theorems
  `∀ ops, ∀ s, Reachable (sys rw n ops) s → …` quantify over all scripts.  The state type does not depend
  on `ops` (the judge uses `ops := [op]` of the current event line).
* Environment discipline, encoded as guards of the *invocation* step (`invOk`) and of the delete step
  (`clearOk`) — these are the hypotheses of the property, not facts about the code:
    E1  `UnlockKey k` is only called by a thread that holds `k` for writing, `RUnlockKey k` only by a
        thread that holds `k` for reading ("threads only unlock what they hold");
    E2  no recursive read-locking: `RLockKey/TryRLockKey k` is not called by a thread that already
        read-holds `k` (prohibited by the documentation of sync.RWMutex);
    E3  the R-methods exist on KeyedRWMutex only (`rw = true`);
    E4  (ClearKey proviso) the `Delete` of `ClearKey k` happens only while no thread holds `k` and no
        thread is between its `LoadOrStore(k)` and its mutex action ("awaits k").
  `sysRaw` is the same system without E4; `Props/C09` shows that exclusion fails there.
* Ghost state: `wh`/`rh` = the pairs (thread, key) such that the thread is between its successful
  write/read acquisition of `key` and the matching release *action* (this interval contains the
  interval "returned from LockKey(k) … calls UnlockKey(k)" of the property).

Program counters (one atomic action per step):
  idle        not in a call                       --inv t op-->      los
  los kd k    `LoadOrStore(k, fresh)` (or `Delete(k)` for clear)      (internal)  act kd k m | ret done
  act kd k m  the mutex action on `m`                                  (internal)  ret r | ann k m | rel k m
  ann k m     RWMutex.Lock entered, about to announce                  (internal)  wait k m
  wait k m    RWMutex.Lock announced, waiting to acquire               (internal)  ret done
  rel k m     RWMutex.Unlock released, about to leave                  (internal)  ret done
  ret r       about to return                     --res t r-->       idle
-/
namespace TypVerif.Model.KeyedMutex
open TypVerif

inductive Kind where
  | lock | trylock | unlock | rlock | tryrlock | runlock | clear
  deriving DecidableEq, Repr, Hashable

structure Op where
  kind : Kind
  key : Nat
  deriving DecidableEq, Repr, Hashable

inductive Res where
  | done | tt | ff
  deriving DecidableEq, Repr, Hashable

inductive Event where
  | inv (t : Nat) (op : Op)
  | res (t : Nat) (r : Res)
  deriving DecidableEq, Repr, Hashable

/-- the mutex automaton (sync.Mutex uses `writer` only) -/
structure Mu where
  writer : Option Nat
  readers : List Nat
  pending : List Nat
  wq : List Nat
  deriving DecidableEq, Repr, Hashable

def Mu.free : Mu := ⟨none, [], [], []⟩

inductive Pc where
  | idle
  | los (kd : Kind) (k : Nat)
  | act (kd : Kind) (k m : Nat)
  | ann (k m : Nat)
  | wait (k m : Nat)
  | rel (k m : Nat)
  | ret (r : Res)
  deriving DecidableEq, Repr, Hashable

structure State where
  pcs : List Pc
  map : List (Nat × Nat)
  heap : List Mu
  wh : List (Nat × Nat)
  rh : List (Nat × Nat)
  deriving DecidableEq, Repr, Hashable

/-- the atomic map: lookup -/
def get : List (Nat × Nat) → Nat → Option Nat
  | [], _ => none
  | (k', v) :: r, k => if k' = k then some v else get r k

/-- the atomic map: delete -/
def del : List (Nat × Nat) → Nat → List (Nat × Nat)
  | [], _ => []
  | (k', v) :: r, k => if k' = k then del r k else (k', v) :: del r k

def State.pc (s : State) (t : Nat) : Pc := s.pcs.getD t .idle
def State.mu (s : State) (m : Nat) : Mu := s.heap.getD m Mu.free
def State.setPc (s : State) (t : Nat) (p : Pc) : State := { s with pcs := s.pcs.set t p }

/-- the thread has completed `LoadOrStore k` and not yet completed its mutex action -/
def onKey (k : Nat) : Pc → Bool
  | .act _ k' _ => k' == k
  | .ann k' _ => k' == k
  | .wait k' _ => k' == k
  | .rel k' _ => k' == k
  | _ => false

/-- discipline E1–E3 (guard of the invocation) -/
def invOk (rw : Bool) (s : State) (t : Nat) (op : Op) : Bool :=
  match op.kind with
  | .unlock => decide ((t, op.key) ∈ s.wh)
  | .runlock => rw && decide ((t, op.key) ∈ s.rh)
  | .rlock => rw && decide ((t, op.key) ∉ s.rh)
  | .tryrlock => rw && decide ((t, op.key) ∉ s.rh)
  | _ => true

/-- ClearKey proviso E4 (guard of the delete) -/
def clearOk (s : State) (k : Nat) : Bool :=
  s.wh.all (fun p => p.2 ≠ k) && s.rh.all (fun p => p.2 ≠ k) && s.pcs.all (fun p => !onKey k p)

/-- write acquisition of `m` for key `k` by `t`, returning `r` -/
def acqW (s : State) (t k m : Nat) (r : Res) : State :=
  { s with pcs := s.pcs.set t (.ret r),
           heap := s.heap.set m { (s.mu m) with writer := some t, pending := (s.mu m).pending.filter (· ≠ t) },
           wh := (t, k) :: s.wh }

/-- read acquisition -/
def acqR (s : State) (t k m : Nat) (r : Res) : State :=
  { s with pcs := s.pcs.set t (.ret r),
           heap := s.heap.set m { (s.mu m) with readers := t :: (s.mu m).readers },
           rh := (t, k) :: s.rh }

/-- a step that only moves `t` between the queues `pending`/`wq` of `m` -/
def queueStep (s : State) (t m : Nat) (p' : Pc) (pending' wq' : List Nat) : State :=
  { s with pcs := s.pcs.set t p',
           heap := s.heap.set m { (s.mu m) with pending := pending', wq := wq' } }

/-- release of the write lock, continuing at `p'` -/
def relW (s : State) (t k m : Nat) (p' : Pc) (wq' : List Nat) : State :=
  { s with pcs := s.pcs.set t p',
           heap := s.heap.set m { (s.mu m) with writer := none, wq := wq' },
           wh := s.wh.erase (t, k) }

/-- the mutex action of goroutine `t` at `act kd k m` -/
def actStep (rw : Bool) (s : State) (t : Nat) (kd : Kind) (k m : Nat) : List (Option Event × State) :=
  match kd with
  | .lock =>
    if rw then [(none, queueStep s t m (.ann k m) (s.mu m).pending (t :: (s.mu m).wq))]
    else if (s.mu m).writer = none ∧ (s.mu m).readers = [] then [(none, acqW s t k m .done)] else []
  | .trylock =>
    if (s.mu m).writer = none ∧ (s.mu m).readers = [] ∧ (s.mu m).pending = [] ∧ (s.mu m).wq = [] then
      [(none, acqW s t k m .tt)]
    else [(none, s.setPc t (.ret .ff))]
  | .unlock =>
    if rw then [(none, relW s t k m (.rel k m) (t :: (s.mu m).wq))]
    else [(none, relW s t k m (.ret .done) (s.mu m).wq)]
  | .rlock =>
    if (s.mu m).writer = none ∧ (s.mu m).pending = [] then [(none, acqR s t k m .done)] else []
  | .tryrlock =>
    if (s.mu m).writer = none ∧ (s.mu m).pending = [] then [(none, acqR s t k m .tt)]
    else [(none, s.setPc t (.ret .ff))]
  | .runlock =>
    [(none, { s with pcs := s.pcs.set t (.ret .done),
                     heap := s.heap.set m { (s.mu m) with readers := (s.mu m).readers.erase t },
                     rh := s.rh.erase (t, k) })]
  | .clear => []

/-- the atomic map step of goroutine `t` at `los kd k`; `guard = false` drops E4 -/
def losStep (guard : Bool) (s : State) (t : Nat) (kd : Kind) (k : Nat) : List (Option Event × State) :=
  if kd = .clear then
    if !guard || clearOk s k then [(none, { s with pcs := s.pcs.set t (.ret .done), map := del s.map k })] else []
  else
    match get s.map k with
    | some m => [(none, { s with pcs := s.pcs.set t (.act kd k m), heap := s.heap ++ [Mu.free] })]
    | none => [(none, { s with pcs := s.pcs.set t (.act kd k s.heap.length), heap := s.heap ++ [Mu.free],
                               map := (k, s.heap.length) :: s.map })]

/-- the steps of goroutine `t` -/
def stepT (rw guard : Bool) (ops : List Op) (s : State) (t : Nat) : List (Option Event × State) :=
  match s.pc t with
  | .idle => (ops.filter (invOk rw s t)).map (fun op => (some (.inv t op), s.setPc t (.los op.kind op.key)))
  | .los kd k => losStep guard s t kd k
  | .act kd k m => actStep rw s t kd k m
  | .ann k m => [(none, queueStep s t m (.wait k m) (t :: (s.mu m).pending) ((s.mu m).wq.filter (· ≠ t)))]
  | .wait k m =>
    if (s.mu m).writer = none ∧ (s.mu m).readers = [] then [(none, acqW s t k m .done)] else []
  | .rel k m => [(none, queueStep s t m (.ret .done) (s.mu m).pending ((s.mu m).wq.filter (· ≠ t)))]
  | .ret r => [(some (.res t r), s.setPc t .idle)]

def succ (rw guard : Bool) (ops : List Op) (s : State) : List (Option Event × State) :=
  (List.range s.pcs.length).flatMap (stepT rw guard ops s)

def init (n : Nat) : State :=
  { pcs := List.replicate n .idle, map := [], heap := [], wh := [], rh := [] }

/-- `n` goroutines using one KeyedMutex (`rw = false`) or KeyedRWMutex (`rw = true`) with operations from `ops`. -/
def sys (rw : Bool) (n : Nat) (ops : List Op) : Conc.Sys :=
  { State := State, Event := Event, init := init n, succ := succ rw true ops }

/-- the same without the ClearKey proviso E4 -/
def sysRaw (rw : Bool) (n : Nat) (ops : List Op) : Conc.Sys :=
  { State := State, Event := Event, init := init n, succ := succ rw false ops }

instance (rw : Bool) (n : Nat) (ops : List Op) : DecidableEq (sys rw n ops).State := inferInstanceAs (DecidableEq State)
instance (rw : Bool) (n : Nat) (ops : List Op) : DecidableEq (sys rw n ops).Event := inferInstanceAs (DecidableEq Event)
instance (rw : Bool) (n : Nat) (ops : List Op) : DecidableEq (sysRaw rw n ops).State := inferInstanceAs (DecidableEq State)
instance (rw : Bool) (n : Nat) (ops : List Op) : DecidableEq (sysRaw rw n ops).Event := inferInstanceAs (DecidableEq Event)

/-- thread `t` holds key `k` for writing / reading (ghost) -/
def State.holdsW (s : State) (t k : Nat) : Prop := (t, k) ∈ s.wh
def State.holdsR (s : State) (t k : Nat) : Prop := (t, k) ∈ s.rh
instance (s : State) (t k : Nat) : Decidable (s.holdsW t k) := inferInstanceAs (Decidable ((t, k) ∈ s.wh))
instance (s : State) (t k : Nat) : Decidable (s.holdsR t k) := inferInstanceAs (Decidable ((t, k) ∈ s.rh))

/-! ### vocabulary of the property statements -/

/-- the (key, mutex) a goroutine got from its completed `LoadOrStore` and is still using -/
def loc : Pc → Option (Nat × Nat)
  | .act _ k m => some (k, m)
  | .ann k m => some (k, m)
  | .wait k m => some (k, m)
  | .rel k m => some (k, m)
  | _ => none

/-- the mutex automaton is free and uncontended -/
def Mu.isFree (μ : Mu) : Prop := μ.writer = none ∧ μ.readers = [] ∧ μ.pending = [] ∧ μ.wq = []
/-- the mutex automaton lets a new reader in -/
def Mu.readable (μ : Mu) : Prop := μ.writer = none ∧ μ.pending = []

instance (μ : Mu) : Decidable (Mu.isFree μ) := by unfold Mu.isFree; exact inferInstance
instance (μ : Mu) : Decidable (Mu.readable μ) := by unfold Mu.readable; exact inferInstance

/-- goroutine `t` has an enabled step -/
def enabled (rw g : Bool) (ops : List Op) (s : State) (t : Nat) : Prop := stepT rw g ops s t ≠ []

/-- enabledness of the mutex action as a function of the automaton alone -/
def muEnabled (rw : Bool) (p : Pc) (μ : Mu) : Bool :=
  match p with
  | .act .lock _ _ => rw || decide (μ.writer = none ∧ μ.readers = [])
  | .act .rlock _ _ => decide (μ.writer = none ∧ μ.pending = [])
  | .act .clear _ _ => false
  | .act _ _ _ => true
  | .wait _ _ => decide (μ.writer = none ∧ μ.readers = [])
  | _ => true


end TypVerif.Model.KeyedMutex
