import TypVerif.Conc.Sys
/-
Model of sync2.Once1 / Once2 / Once3 (sync2/once.go) on top of Go's sync.Once (GOROOT/src/sync/once.go),
as a transition system (DESIGN §7.1, §8/C17).

    func (o *OnceN) Do(f) (R1..Rn) {            func (o *Once) Do(f func()) {        func (o *Once) doSlow(f func()) {
        o.once.Do(func() {                          if o.done.Load() == 0 {              o.m.Lock()
            o.R1, .., o.Rn = f()                        o.doSlow(f)                      defer o.m.Unlock()
        })                                          }                                    if o.done.Load() == 0 {
        return o.R1, .., o.Rn                   }                                            defer o.done.Store(1)
    }                                                                                        f()
                                                                                         }
                                                                                     }
The three wrappers differ only in the number of result fields; the arity is a parameter and the
result tuple is a `List Int`.  Threads (goroutines) are numbered; goroutine `t` passes its own
function `f_t`, whose result `res t` is arbitrary (the system is parametrised by `res`, the theorems
quantify over it; the state type does not depend on it, so the judge may choose it per event).

Shared state = exactly the Go fields: `done` (atomic.Uint32), `m` (sync.Mutex, by contract: Lock is
enabled iff free), the result fields.  Ghost state: `invoked` (the list of goroutines whose function
has been started, newest first) and `fres` (the result recorded when the invoked function returned).

Program counters (one atomic action per step):
  idle     Do not yet called                              --call t-->        fast
  fast     `o.done.Load()` on the fast path                (internal)         lock | read
  lock     `o.m.Lock()`   (enabled iff the mutex is free)  (internal)         check
  check    `o.done.Load()` in doSlow                        (internal)         callF | unlock
  callF    closure entered, `f()` is called                --fstart t-->      inF
  inF      f_t runs                                        --fend t r-->      assign r
  assign r `o.R1..Rn = r`                                   (internal)         store
  store    deferred `o.done.Store(1)`                       (internal)         unlock
  unlock   deferred `o.m.Unlock()`                          (internal)         read
  read     `return o.R1..Rn`                               --ret t fields-->  returned
-/
namespace TypVerif.Model.Once
open TypVerif

inductive Pc where
  | idle | fast | lock | check | callF | inF
  | assign (r : List Int)
  | store | unlock | read | returned
  deriving DecidableEq, Repr

inductive Event where
  | call (t : Nat)
  | fstart (t : Nat)
  | fend (t : Nat) (r : List Int)
  | ret (t : Nat) (r : List Int)
  deriving DecidableEq, Repr

structure State where
  pcs : List Pc
  done : Bool
  mu : Option Nat
  fields : List Int
  invoked : List Nat
  fres : Option (List Int)
  deriving DecidableEq, Repr

def State.pc (s : State) (t : Nat) : Pc := s.pcs.getD t .idle
def State.setPc (s : State) (t : Nat) (p : Pc) : State := { s with pcs := s.pcs.set t p }

/-- number of invocations of any of the functions so far -/
def State.invocations (s : State) : Nat := s.invoked.length
/-- the invoked function has completed -/
def State.finished (s : State) : Bool := s.fres.isSome

/-- the (at most one) step of goroutine `t` -/
def stepT (res : Nat → List Int) (s : State) (t : Nat) : List (Option Event × State) :=
  match s.pc t with
  | .idle => [(some (.call t), s.setPc t .fast)]
  | .fast => [(none, s.setPc t (if s.done then .read else .lock))]
  | .lock => if s.mu = none then [(none, { s.setPc t .check with mu := some t })] else []
  | .check => [(none, s.setPc t (if s.done then .unlock else .callF))]
  | .callF => [(some (.fstart t), { s.setPc t .inF with invoked := t :: s.invoked })]
  | .inF => [(some (.fend t (res t)), { s.setPc t (.assign (res t)) with fres := some (res t) })]
  | .assign r => [(none, { s.setPc t .store with fields := r })]
  | .store => [(none, { s.setPc t .unlock with done := true })]
  | .unlock => [(none, { s.setPc t .read with mu := none })]
  | .read => [(some (.ret t s.fields), s.setPc t .returned)]
  | .returned => []

def succ (res : Nat → List Int) (s : State) : List (Option Event × State) :=
  (List.range s.pcs.length).flatMap (stepT res s)

def init (n arity : Nat) : State :=
  { pcs := List.replicate n .idle, done := false, mu := none, fields := List.replicate arity 0,
    invoked := [], fres := none }

/-- `n` goroutines (any number), each calling `Do(f_t)` once, `f_t` returning `res t`. -/
abbrev sys (n arity : Nat) (res : Nat → List Int) : Conc.Sys :=
  { State := State, Event := Event, init := init n arity, succ := succ res }

instance (n arity : Nat) (res : Nat → List Int) : DecidableEq (sys n arity res).State :=
  inferInstanceAs (DecidableEq State)
instance (n arity : Nat) (res : Nat → List Int) : DecidableEq (sys n arity res).Event :=
  inferInstanceAs (DecidableEq Event)

end TypVerif.Model.Once
