/-
State space of the PubSub model (`/repo/chans/pubsub.go`, repaired version; `SendTimeout` of `/repo/chans/chans.go`).

Shared state = the Go fields: per PubSub object its `subs` and its OWN `sync.RWMutex` (by contract:
readers / writer / waiting writers); channels (buffer, capacity, closed) together with the environment's
receiver of that channel (allowance granted by the harness, the value it holds between taking it and
stamping `recv`, whether it saw the close); `sync.WaitGroup` counters; ghost logs; the panic flag.
Tasks are goroutines (never removed, a finished one becomes `.done`, so positions are stable).
-/
namespace TypVerif.Model.PubSub

abbrev Chan := Nat

structure RW where
  readers : Nat := 0
  writer : Bool := false      -- false in every reachable state: a writer's critical section is one step
  waiting : Nat := 0          -- writers that called Lock() and have not acquired yet
  deriving DecidableEq, Repr, Inhabited, Hashable

structure ChanSt where
  id : Chan
  cap : Nat
  buf : List Int := []
  closed : Bool := false
  allow : Nat := 0            -- receiver: how many more values it may take (harness gate)
  holding : Option Int := none -- receiver: took a value, `recv` not stamped yet
  rdone : Bool := false       -- receiver observed the close and stopped
  deriving DecidableEq, Repr, Inhabited, Hashable

structure ObjSt where
  subs : List Chan := []
  rw : RW := {}
  only : Option Chan := none  -- ghost: the channel given to WithOnly (none for the root)
  ready : Bool := true        -- false between the `withonly` event and the construction of the clone
  deriving DecidableEq, Repr, Inhabited, Hashable

inductive Variant where
  | pub | pubSlice | pubWait | pubSliceWait | pubSync | pubSliceSync
  deriving DecidableEq, Repr, Inhabited, Hashable

def Variant.isSync : Variant → Bool
  | .pubSync | .pubSliceSync => true
  | _ => false

def Variant.isWait : Variant → Bool
  | .pubWait | .pubSliceWait => true
  | _ => false

/-- one (event instance, subscriber) pair -/
structure Item where
  pid : Nat
  idx : Nat
  ev : Int
  c : Chan
  deriving DecidableEq, Repr, Inhabited, Hashable

inductive ErrCode where
  | nil | already | notinit
  deriving DecidableEq, Repr, Inhabited, Hashable

inductive Task where
  | pubStart (p o : Nat) (v : Variant) (evs : List Int)   -- invoked, before RLock
  | syncLoop (p o : Nat) (work : List Item) (cb : Bool)   -- PubSync loop, holds R(o); cb: head timed out, callback pending
  | waitWg (p o w : Nat)                                  -- Pub*Wait in wg.Wait(), holds R(o)
  | pubRet (p : Nat)                                      -- returned, `pubret` not stamped yet
  | asyncStart (o : Nat) (it : Item)                      -- sendAsync before RLock
  | asyncSend (o : Nat) (it : Item) (cb : Bool)           -- sendAsync in send, holds R(o)
  | wgSend (o w : Nat) (it : Item) (cb : Bool)            -- sendWaitGroup in send (protected by its waitWg)
  | subStart (o : Nat) (c : Chan) (cap : Nat)
  | subWait (o : Nat) (c : Chan) (cap : Nat)              -- in Lock()
  | subRet (c : Chan)
  | unsubStart (u o : Nat) (c : Option Chan)
  | unsubWait (u o : Nat) (c : Chan)                      -- in Lock()
  | unsubRet (u : Nat) (code : ErrCode)
  | uaStart (u o : Nat)
  | uaWait (u o : Nat)                                    -- in Lock()
  | uaRet (u : Nat)
  | woStart (w o : Nat) (c : Chan)                        -- WithOnly before RLock
  | done
  deriving DecidableEq, Repr, Inhabited, Hashable

structure State where
  objs : List ObjSt := [{}]
  chans : List ChanSt := []
  wgs : List Nat := []
  tasks : List Task := []
  pids : List Nat := []                       -- publisher ids used so far
  delivered : List (Nat × Nat × Chan) := []   -- ghost: (pid, event index, channel) handed off / buffered
  timedOut : List (Nat × Nat × Chan) := []    -- ghost: (pid, event index, channel) whose timer fired
  panicked : Option String := none
  exited : Bool := false
  deriving DecidableEq, Repr, Inhabited, Hashable

inductive Event where
  | sub (c : Chan) (cap : Int)
  | subret (c : Chan)
  | mkchan (c : Chan)
  | withonly (w via : Nat) (c : Chan)
  | pubinv (p via : Nat) (v : Variant) (evs : List Int)
  | pubret (p : Nat)
  | allow (c : Chan) (n : Nat)
  | recv (c : Chan) (v : Int)
  | closed (c : Chan)
  | tmo (v : Int)
  | unsubinv (u via : Nat) (c : Int)
  | unsubret (u : Nat) (code : ErrCode)
  | unsuballinv (u via : Nat)
  | unsuballret (u : Nat)
  | exit (r : String)
  deriving DecidableEq, Repr, Inhabited, Hashable

/-- system parameters: PubTimeoutAfter (ms; timed iff positive), DefaultBuffer, whether WithOnly may be
called, and the finite menu of invocation events the environment may issue (theorems quantify over it) -/
structure Cfg where
  timeout : Int := 0
  defBuf : Nat := 0
  allowClone : Bool := true
  env : List Event := []

end TypVerif.Model.PubSub
