import TypVerif.Model.SyncMapConc
/-
The map-mode core of the step-trace judge "C04conc" (`Drv/C04conc.lean`) as a PURE function.

A step trace recorded from the real `sync2.Map` under the controlled scheduler is a list of lines

  inv t op        goroutine `t` is idle and invokes `op`
  step t label    goroutine `t`, parked at hook `label`, performs that atomic action and runs to its next hook
  iter t k        the `for k, e := range read.m` loop of goroutine `t` chose key `k`
  res t r         goroutine `t` returns `r`

`applyLine` replays one line in a state of the step-level model `Model.SyncMapConc` (`none` = rejected), `replay` a
whole trace.  The acceptance conditions are those of `doInv/doStep/doIter/doRes` of the judge in MAP mode:

  inv   `t < s.pcs.length`, the model goroutine is idle                                   → parked at `.start op`
  step  the model goroutine is parked at the SAME label and `exec` is enabled (`exec` is `none` for an idle goroutine,
        for one about to return, and at the head of a `range` iteration, so those are rejected)  → the result of `exec`
  iter  the key is among the model's remaining choices `picks`                            → that choice
  res   the model goroutine is about to return (`.ret r'`) and `r' = r`                   → idle

`Lemmas/SyncMapTrace.lean` proves that an accepted line is a step of `SyncMapConc.succ` (so an accepted trace is an
execution of `SyncMapConc.sys`); `Props/C04trace.lean` concludes that the invocation/response history of an accepted
trace is linearizable.

The judge does not know the number of goroutines of a scenario in advance: it starts from `init 0` and appends idle
goroutines when an `inv` line mentions a larger goroutine id (`applyLinePad`, `replayPad`).  `Lemmas.SyncMapTrace.
replayPad_replay` shows that this is the same as replaying from `init n` with `n` = the final number of goroutines
(idle goroutines take no internal steps and padding does not change `State.pc`).
-/
namespace TypVerif.Model.SyncMapTrace
open TypVerif.Model.SyncMapConc

inductive Line (K V : Type) where
  | inv (t : Tid) (op : Op K V)
  | step (t : Tid) (label : String)
  | iter (t : Tid) (k : K)
  | res (t : Tid) (r : Res K V)
  deriving Repr, DecidableEq

variable {K V : Type} [DecidableEq K] [DecidableEq V]

/-- replay one line in a state with `s.pcs.length` goroutines; `none` = rejected -/
def applyLine [Inhabited V] (s : State K V) : Line K V → Option (State K V)
  | .inv t op =>
    if t < s.pcs.length then
      match s.pc t with
      | .idle => some (setPc s t s.sh (.start op))
      | _ => none
    else none
  | .step t label =>
    if (s.pc t).label = label then
      match exec s.sh t (s.pc t) with
      | some (sh', pc') => some (setPc s t sh' pc')
      | none => none
    else none
  | .iter t k =>
    match (picks (s.pc t)).find? (fun c => c.1 == k) with
    | some c => some (setPc s t s.sh c.2)
    | none => none
  | .res t r =>
    match s.pc t with
    | .ret r' => if r' = r then some (setPc s t s.sh .idle) else none
    | _ => none

/-- replay a trace: the fold of `applyLine` (`replay_eq_foldlM`) -/
def replay [Inhabited V] (s : State K V) : List (Line K V) → Option (State K V)
  | [] => some s
  | l :: ls =>
    match applyLine s l with
    | some s' => replay s' ls
    | none => none

/-- the visible event of a line -/
def Line.event : Line K V → Option (Event K V)
  | .inv t op => some (.inv t op)
  | .res t r => some (.res t r)
  | _ => none

/-- the `inv`/`res` lines of a trace, in order: its API-level history -/
def eventsOf (ls : List (Line K V)) : List (Event K V) := ls.filterMap Line.event

/-- the operations invoked in a trace -/
def invoked (ls : List (Line K V)) : List (Op K V) :=
  ls.filterMap (fun l => match l with | .inv _ op => some op | _ => none)

/-! ### the judge's variant: the number of goroutines grows on demand -/

/-- append idle goroutines up to `n` -/
def pad (s : State K V) (n : Nat) : State K V :=
  { s with pcs := s.pcs ++ List.replicate (n - s.pcs.length) .idle }

/-- what the judge does with a line: an `inv` of goroutine `t` first makes sure that there are at least `t + 1`
goroutines -/
def applyLinePad [Inhabited V] (s : State K V) (l : Line K V) : Option (State K V) :=
  match l with
  | .inv t _ => applyLine (pad s (t + 1)) l
  | _ => applyLine s l

def replayPad [Inhabited V] (s : State K V) : List (Line K V) → Option (State K V)
  | [] => some s
  | l :: ls =>
    match applyLinePad s l with
    | some s' => replayPad s' ls
    | none => none

end TypVerif.Model.SyncMapTrace
