import TypVerif.Conc.Sys
/-
Generic "atomic object" transition system (DESIGN §7.2, used by C18 for atomic.Value / AtomicValue and for
sync.Pool / Pool).

A sequential specification is `(σ, init, apply : σ → Op → List (σ × Res))`; a list of outcomes makes the
specification nondeterministic (sync.Pool.Get may hand out *some* pooled item, or none).
Any number of goroutines; goroutine `t` repeatedly
    idle        --inv t op-->   pending op          (visible; `op` is any member of `menu`)
    pending op  --(internal)--> done op r           the *linearization step*: `(σ', r) ∈ apply σ op`, `obj := σ'`
    done op r   --res t r-->    idle                (visible; the response carries the stored result)
i.e. every call takes effect in one atomic step somewhere between its invocation and its response.
Ghost state: `log`, the chronological record (newest first) of all three kinds of steps.  `succ` never
reads it (the judge erases it to keep its state sets small).
-/
namespace TypVerif.Model.AtomicObj
open TypVerif

structure Spec where
  σ : Type
  Op : Type
  Res : Type
  init : σ
  apply : σ → Op → List (σ × Res)

inductive TPc (Op Res : Type) where
  | idle
  | pending (op : Op)
  | done (op : Op) (r : Res)
  deriving DecidableEq, Repr

inductive Event (Op Res : Type) where
  | inv (t : Nat) (op : Op)
  | res (t : Nat) (r : Res)
  deriving DecidableEq, Repr

inductive Entry (Op Res : Type) where
  | inv (t : Nat) (op : Op)
  | lin (t : Nat) (op : Op) (r : Res)
  | res (t : Nat) (r : Res)
  deriving DecidableEq, Repr

structure State (σ Op Res : Type) where
  pcs : List (TPc Op Res)
  obj : σ
  log : List (Entry Op Res)
  deriving DecidableEq, Repr

variable {σ Op Res : Type}

def State.pc (s : State σ Op Res) (t : Nat) : TPc Op Res := s.pcs.getD t .idle

def Entry.tid : Entry Op Res → Nat
  | .inv t _ | .lin t _ _ | .res t _ => t

/-- the (finitely many) steps of goroutine `t` -/
def stepT (apply : σ → Op → List (σ × Res)) (menu : List Op) (s : State σ Op Res) (t : Nat) :
    List (Option (Event Op Res) × State σ Op Res) :=
  match s.pc t with
  | .idle => menu.map (fun op =>
      (some (.inv t op), { pcs := s.pcs.set t (.pending op), obj := s.obj, log := .inv t op :: s.log }))
  | .pending op => (apply s.obj op).map (fun p =>
      (none, { pcs := s.pcs.set t (.done op p.2), obj := p.1, log := .lin t op p.2 :: s.log }))
  | .done _ r => [(some (.res t r), { pcs := s.pcs.set t .idle, obj := s.obj, log := .res t r :: s.log })]

def succ (apply : σ → Op → List (σ × Res)) (menu : List Op) (s : State σ Op Res) :
    List (Option (Event Op Res) × State σ Op Res) :=
  (List.range s.pcs.length).flatMap (stepT apply menu s)

def init (S : Spec) (n : Nat) : State S.σ S.Op S.Res :=
  { pcs := List.replicate n .idle, obj := S.init, log := [] }

/-- `n` goroutines (any number) calling operations from `menu` (any finite menu) in any order -/
abbrev sys (S : Spec) (menu : List S.Op) (n : Nat) : Conc.Sys :=
  { State := State S.σ S.Op S.Res, Event := Event S.Op S.Res, init := init S n, succ := succ S.apply menu }

/-! ### histories -/

/-- the visible part of a log entry -/
def Entry.event? : Entry Op Res → Option (Event Op Res)
  | .inv t op => some (.inv t op)
  | .res t r => some (.res t r)
  | .lin _ _ _ => none

/-- the linearization part of a log entry -/
def Entry.lin? : Entry Op Res → Option (Op × Res)
  | .lin _ op r => some (op, r)
  | .inv _ _ => none
  | .res _ _ => none

/-- visible history of a (newest-first) log, oldest first -/
def histOf (log : List (Entry Op Res)) : List (Event Op Res) := (log.filterMap Entry.event?).reverse

/-- the sequential history of a (newest-first) log, newest first -/
def linsOf (log : List (Entry Op Res)) : List (Op × Res) := log.filterMap Entry.lin?

/-- `SeqRun S h σ`: the sequential object, started in `S.init`, can perform the history `h` (newest first) with
exactly these results and ends in `σ` -/
inductive SeqRun (S : Spec) : List (S.Op × S.Res) → S.σ → Prop where
  | nil : SeqRun S [] S.init
  | cons {h σ σ' op r} : SeqRun S h σ → (σ', r) ∈ S.apply σ op → SeqRun S ((op, r) :: h) σ'

/-- the per-goroutine protocol `inv op · lin op r · res r`, as an automaton over the log entries -/
def advance [DecidableEq Op] [DecidableEq Res] : TPc Op Res → Entry Op Res → Option (TPc Op Res)
  | .idle, .inv _ op => some (.pending op)
  | .pending op, .lin _ op' r => if op = op' then some (.done op' r) else none
  | .done _ r, .res _ r' => if r = r' then some .idle else none
  | _, _ => none

/-- the state of goroutine `t`'s protocol automaton after a (newest-first) log; `none` = protocol violated -/
def runThread [DecidableEq Op] [DecidableEq Res] (t : Nat) : List (Entry Op Res) → Option (TPc Op Res)
  | [] => some .idle
  | e :: rest =>
    match runThread t rest with
    | none => none
    | some p => if e.tid = t then advance p e else some p

/-- A visible history is linearizable w.r.t. `S` iff it can be completed by linearization points, one inside
the interval of every completed operation (and at most one inside every pending one), such that the
operations in the order of their points form a legal sequential history with the same results.
(Real-time order is respected because each point lies between its own invocation and response:
`Lemmas.AtomicObj.lin_in_interval`.) -/
def Linearizable (S : Spec) [DecidableEq S.Op] [DecidableEq S.Res] (tr : List (Event S.Op S.Res)) : Prop :=
  ∃ log : List (Entry S.Op S.Res),
    histOf log = tr ∧ (∃ σ, SeqRun S (linsOf log) σ) ∧ ∀ t, (runThread t log).isSome = true

end TypVerif.Model.AtomicObj
