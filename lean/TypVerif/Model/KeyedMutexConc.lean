import TypVerif.Conc.Sys
import TypVerif.Model.SyncMapConc
/-
`sync2.KeyedMutex` / `sync2.KeyedRWMutex` (`/repo/sync2/keyedmutex.go`) composed with the STEP-LEVEL model of the embedded
`sync2.Map` (`Model/SyncMapConc.lean`), as a `Conc.Sys`: no atomic-map assumption.

    func (km *KeyedMutex[T]) LockKey(key T) {            func (km *KeyedMutex[T]) UnlockKey(key T) {
        m, _ := km.m.LoadOrStore(key, &sync.Mutex{})         m, _ := km.m.LoadOrStore(key, &sync.Mutex{})
        verifMuLock(m)          // hook `lock`               m.Unlock()          // no hook of its own
        m.Lock()                                         }
    }                                                    func (km *Keyed*Mutex[T]) ClearKey(key T) { km.m.Delete(key) }
    TryLockKey / RLockKey / TryRLockKey alike (hooks `Keyed(RW)Mutex.Try(R)LockKey`, `rlock`), RUnlockKey like UnlockKey.

* State = the map's `SyncMapConc.State K MId` (the map's values are mutex identities), one `Phase` per goroutine, the mutex table
  `mus`, the next fresh identity `next` (every keyed call evaluates `&sync.Mutex{}` before `LoadOrStore`, so every invocation
  consumes a fresh identity), plus GHOST bookkeeping that no step's enabledness or visible effect depends on:
  `offers` (for which key an identity was offered to `LoadOrStore`), `wh` / `rh` (goroutine `t` is between its successful write /
  read acquisition of `(key, mutex)` and the matching release action), `faults` (keys on which an `Unlock`/`RUnlock` hit a mutex
  the caller does not hold — Go: "fatal error: sync: unlock of unlocked mutex").
* One internal step of a goroutine in phase `inMap` is ONE step of the map component (`mapSteps`: `SyncMapConc.exec` resp. one of
  `picks`, through `setPc`).  When the map call is about to return (`retOf`), the map's response step is fused into the same step
  (the map goroutine becomes idle again) and the keyed-mutex method continues (`finish` / `afterMap`): `Unlock` / `RUnlock`
  act on the returned mutex at once; `Lock` / `RLock` / `Try*` park at their own hook (`atHook kind k m`); `ClearKey` returns.
  This is exactly the composition the judge `Drv/C09conc.lean` replays real step traces in (`afterMap`, `doStep`).
* `sync.Mutex` / `sync.RWMutex` by contract: `writer : Option Tid`, `readers : List Tid`; `Lock` enabled iff free, `RLock` iff no
  writer, `Try*` always enabled and succeed iff the blocking version is enabled; `Unlock` clears `writer`, `RUnlock` removes one
  occurrence of the caller from `readers`.
* Environment discipline (hypothesis of the properties, guard `invOk` of the invocation step): `UnlockKey k` is only called by a
  goroutine that holds `k` for writing, `RUnlockKey k` only by one that holds `k` for reading.  Nothing else is restricted: any
  number of goroutines, any menu of operations, every interleaving of the atomic steps of `map.go` and of the mutex actions.
-/
namespace TypVerif.Model.KeyedMutexConc
open TypVerif TypVerif.Model.SyncMapConc

/-- identity of a `*sync.Mutex` / `*sync.RWMutex` -/
abbrev MId := Nat

inductive Kind where
  | lock | trylock | unlock | rlock | tryrlock | runlock | clear
  deriving DecidableEq, Repr

structure Op (K : Type) where
  kind : Kind
  key : K
  deriving DecidableEq, Repr

inductive Res where
  | done | tt | ff
  deriving DecidableEq, Repr

inductive Event (K : Type) where
  | inv (t : Tid) (op : Op K)
  | res (t : Tid) (r : Res)
  deriving DecidableEq, Repr

/-- progress of a keyed-mutex call -/
inductive Phase (K : Type) where
  | idle
  /-- inside the map call (`LoadOrStore(k, fresh)`, or `Delete(k)` for `clear`) -/
  | inMap (kind : Kind) (k : K)
  /-- parked at the keyed mutex's own hook, about to act on mutex `m` (obtained for key `k`) -/
  | atHook (kind : Kind) (k : K) (m : MId)
  /-- about to return `r` -/
  | ret (r : Res)
  deriving DecidableEq, Repr

/-- `sync.Mutex` / `sync.RWMutex` by contract -/
structure Mu where
  writer : Option Tid := none
  readers : List Tid := []
  deriving DecidableEq, Repr

structure State (K : Type) where
  map : SyncMapConc.State K MId := {}
  phases : List (Phase K) := []
  mus : List (MId × Mu) := []
  /-- identity of the next mutex offered to `LoadOrStore` -/
  next : MId := 1
  /-- ghost: `(m, k)`: identity `m` was offered to `LoadOrStore(k, _)` -/
  offers : List (MId × K) := []
  /-- ghost: `(t, k, m)`: goroutine `t` acquired mutex `m` for key `k` for writing and has not released it -/
  wh : List (Tid × K × MId) := []
  /-- ghost: the same for reading (with multiplicity) -/
  rh : List (Tid × K × MId) := []
  /-- ghost: keys on which an `Unlock` / `RUnlock` found a mutex its caller does not hold -/
  faults : List K := []
  deriving DecidableEq, Repr

variable {K : Type} [DecidableEq K]

/-! ### the mutex table -/

def getMu : List (MId × Mu) → MId → Mu
  | [], _ => {}
  | (i, x) :: r, m => if i = m then x else getMu r m

def putMu : List (MId × Mu) → MId → Mu → List (MId × Mu)
  | [], m, x => [(m, x)]
  | (i, y) :: r, m, x => if i = m then (m, x) :: r else (i, y) :: putMu r m x

def State.mu (s : State K) (m : MId) : Mu := getMu s.mus m
def State.setMu (s : State K) (m : MId) (x : Mu) : State K := { s with mus := putMu s.mus m x }

def State.phase (s : State K) (t : Tid) : Phase K := s.phases.getD t .idle
def State.setPhase (s : State K) (t : Tid) (p : Phase K) : State K := { s with phases := s.phases.set t p }

/-! ### the methods -/

/-- the map call a method starts with; `v` is the fresh mutex -/
def mapOp : Kind → K → MId → SyncMapConc.Op K MId
  | .clear, k, _ => .delete k
  | _, k, v => .loadOrStore k v

/-- goroutine `t` holds `k` for writing / reading (ghost) -/
def State.holdsW (s : State K) (t : Tid) (k : K) : Bool := s.wh.any (fun p => decide (p.1 = t ∧ p.2.1 = k))
def State.holdsR (s : State K) (t : Tid) (k : K) : Bool := s.rh.any (fun p => decide (p.1 = t ∧ p.2.1 = k))

/-- environment discipline: threads only unlock what they hold -/
def invOk (s : State K) (t : Tid) (op : Op K) : Bool :=
  match op.kind with
  | .unlock => s.holdsW t op.key
  | .runlock => s.holdsR t op.key
  | _ => true

/-- invocation: evaluate `&sync.Mutex{}` (fresh identity `s.next`) and enter the map call -/
def invStep (s : State K) (t : Tid) (op : Op K) : State K :=
  { s with map := setPc s.map t s.map.sh (.start (mapOp op.kind op.key s.next)),
           phases := s.phases.set t (.inMap op.kind op.key),
           next := s.next + 1,
           offers := if op.kind = .clear then s.offers else (s.next, op.key) :: s.offers }

/-- the map call has returned `m`: what the method does next, in the same step -/
def afterMap (s : State K) (t : Tid) (kind : Kind) (k : K) (m : MId) : State K :=
  match kind with
  | .clear => s.setPhase t (.ret .done)
  | .unlock =>
    let x := s.mu m
    { (s.setMu m { x with writer := none }).setPhase t (.ret .done) with
      wh := s.wh.erase (t, k, m),
      faults := if x.writer = some t then s.faults else k :: s.faults }
  | .runlock =>
    let x := s.mu m
    { (s.setMu m { x with readers := x.readers.erase t }).setPhase t (.ret .done) with
      rh := s.rh.erase (t, k, m),
      faults := if t ∈ x.readers then s.faults else k :: s.faults }
  | kd => s.setPhase t (.atHook kd k m)

/-- the result a map goroutine is about to return, if it is -/
def retOf {V : Type} : Pc K V → Option (SyncMapConc.Res K V)
  | .ret r => some r
  | _ => none

/-- the `actual` of a `LoadOrStore` result -/
def valOf {V : Type} : SyncMapConc.Res K V → Option V
  | .pair a _ => some a
  | _ => none

/-- the map call returns (`s.map`'s goroutine `t` is idle again): `LoadOrStore` returned `(m, _)` — continue with `afterMap`;
`Delete` returned — `ClearKey` returns.  (A `LoadOrStore` never returns anything but a pair, `Delete` nothing but `done`.) -/
def finish (s : State K) (t : Tid) (kind : Kind) (k : K) : Option MId → State K
  | some m => afterMap s t kind k m
  | none => s.setPhase t (.ret .done)

/-- the steps of the map component available to goroutine `t`: the atomic action it is parked at, or a choice of the next key
of a `range read.m` loop -/
def mapSteps (ms : SyncMapConc.State K MId) (t : Tid) : List (SyncMapConc.State K MId) :=
  (match exec ms.sh t (ms.pc t) with
   | some (sh', pc') => [setPc ms t sh' pc']
   | none => []) ++
  (picks (ms.pc t)).map (fun c => setPc ms t ms.sh c.2)

/-- the map component has moved to `ms'`; if its call is about to return, return from it and continue the method -/
def contMap (s : State K) (t : Tid) (kind : Kind) (k : K) (ms' : SyncMapConc.State K MId) : State K :=
  match retOf (ms'.pc t) with
  | none => { s with map := ms' }
  | some r => finish { s with map := setPc ms' t ms'.sh .idle } t kind k (valOf r)

/-- write acquisition of `m` (for key `k`) by `t`, returning `r` -/
def acqW (s : State K) (t : Tid) (k : K) (m : MId) (r : Res) : State K :=
  { (s.setMu m { s.mu m with writer := some t }).setPhase t (.ret r) with wh := (t, k, m) :: s.wh }

/-- read acquisition -/
def acqR (s : State K) (t : Tid) (k : K) (m : MId) (r : Res) : State K :=
  { (s.setMu m { s.mu m with readers := t :: (s.mu m).readers }).setPhase t (.ret r) with rh := (t, k, m) :: s.rh }

def Mu.free (x : Mu) : Prop := x.writer = none ∧ x.readers = []
def Mu.readable (x : Mu) : Prop := x.writer = none
instance (x : Mu) : Decidable x.free := by unfold Mu.free; infer_instance
instance (x : Mu) : Decidable x.readable := by unfold Mu.readable; infer_instance

/-- the mutex action of a goroutine parked at its hook (`none`: not enabled) -/
def hookStep (s : State K) (t : Tid) (kind : Kind) (k : K) (m : MId) : Option (State K) :=
  match kind with
  | .lock => if (s.mu m).free then some (acqW s t k m .done) else none
  | .rlock => if (s.mu m).readable then some (acqR s t k m .done) else none
  | .trylock => if (s.mu m).free then some (acqW s t k m .tt) else some (s.setPhase t (.ret .ff))
  | .tryrlock => if (s.mu m).readable then some (acqR s t k m .tt) else some (s.setPhase t (.ret .ff))
  | _ => none

/-- all steps of goroutine `t` -/
def stepT (menu : List (Op K)) (s : State K) (t : Tid) : List (Option (Event K) × State K) :=
  match s.phase t with
  | .idle => (menu.filter (invOk s t)).map (fun op => (some (.inv t op), invStep s t op))
  | .inMap kind k => (mapSteps s.map t).map (fun ms' => (none, contMap s t kind k ms'))
  | .atHook kind k m =>
    match hookStep s t kind k m with
    | some s' => [(none, s')]
    | none => []
  | .ret r => [(some (.res t r), s.setPhase t .idle)]

def succ (menu : List (Op K)) (s : State K) : List (Option (Event K) × State K) :=
  (List.range s.phases.length).flatMap (stepT menu s)

def init (n : Nat) : State K := { map := SyncMapConc.init n, phases := List.replicate n .idle }

/-- `n` goroutines (any number) calling keyed-mutex methods from `menu` (any finite menu) in any order, interleaved at the
granularity of the atomic actions of `map.go` and of the mutex actions -/
abbrev sys (K : Type) [DecidableEq K] (menu : List (Op K)) (n : Nat) : Conc.Sys :=
  { State := State K, Event := Event K, init := init n, succ := succ menu }

/-! ### vocabulary of the property statements -/

/-- goroutine `t` has obtained mutex `m` for key `k` and is still using it: it is parked at its hook with `m`, or holds `k`
through `m` (ghost) -/
def State.obtained (s : State K) (t : Tid) (k : K) (m : MId) : Prop :=
  (∃ kind, s.phase t = .atHook kind k m) ∨ (t, k, m) ∈ s.wh ∨ (t, k, m) ∈ s.rh

/-- the program points of `map.go` parked at `m.mu.Lock()` -/
def isLockPc {V : Type} : Pc K V → Bool
  | .loadLock _ => true
  | .storeLock _ _ => true
  | .losLock _ _ => true
  | .ladLock _ _ => true
  | .rangeLock => true
  | _ => false

/-- enabledness of the mutex action at the hook, as a function of the automaton alone -/
def hookEnabled : Kind → Mu → Prop
  | .lock, x => x.free
  | .rlock, x => x.readable
  | .trylock, _ => True
  | .tryrlock, _ => True
  | _, _ => False

/-- goroutine `t` has an enabled step -/
def enabled (menu : List (Op K)) (s : State K) (t : Tid) : Prop := stepT menu s t ≠ []

/-- run a schedule (a list of `(goroutine, index of the chosen step)`), for examples -/
def run (menu : List (Op K)) : List (Tid × Nat) → State K → State K
  | [], s => s
  | (t, i) :: r, s =>
    if t < s.phases.length then
      match (stepT menu s t)[i]? with
      | some p => run menu r p.2
      | none => run menu r s
    else run menu r s

end TypVerif.Model.KeyedMutexConc
