/-
Go's `sort.Search` (go1.23 `src/sort/search.go`), the actual loop:

    func Search(n int, f func(int) bool) int {
        i, j := 0, n
        for i < j {
            h := int(uint(i+j) >> 1) // avoid overflow when computing h
            if !f(h) { i = h + 1 } else { j = h }
        }
        return i
    }

Modelling decisions.
* `n` is always `len(slice)` at the call sites in go-typ/typ, hence a natural number; `i`, `j`, `h` stay in
  `[0, n]` (theorem `loop_bounds`), so natural numbers are adequate.  `int(uint(i+j) >> 1)` is `(i+j)/2` for
  `0 ≤ i+j < 2^64`, i.e. for every slice length Go can represent.
* The loop becomes structural recursion on a fuel argument; `search` supplies `n` units of fuel and
  `loop_fuel_irrelevant` shows that any amount `≥ j - i` gives the same result (the distance `j - i`
  at least halves in every iteration, so `n` is more than enough).
* The predicate is a total function `Nat → Bool`; `search_congr` shows it is only ever evaluated on `[0, n)`.
-/
namespace TypVerif.Model.GoSearch

/-- the `for i < j { … }` loop with explicit fuel -/
def loop (f : Nat → Bool) : Nat → Nat → Nat → Nat
  | 0, i, _ => i
  | fuel + 1, i, j =>
    if i < j then
      let h := (i + j) / 2
      if !f h then loop f fuel (h + 1) j
      else loop f fuel i h
    else i

/-- `sort.Search(n, f)` -/
def search (n : Nat) (f : Nat → Bool) : Nat := loop f n 0 n

/-- The loop invariant of the Go source ("f(i-1) == false, f(j) == true", with the conventions f(-1) = false,
f(n) = true), for an ARBITRARY predicate: with enough fuel the loop returns `r` with `i ≤ r ≤ j`, `f (r-1) = false`
unless `r = i`, and `f r = true` unless `r = j`. -/
theorem loop_spec (f : Nat → Bool) :
    ∀ fuel i j, i ≤ j → j - i ≤ fuel →
      i ≤ loop f fuel i j ∧ loop f fuel i j ≤ j ∧
      (i < loop f fuel i j → f (loop f fuel i j - 1) = false) ∧
      (loop f fuel i j < j → f (loop f fuel i j) = true) := by
  intro fuel
  induction fuel with
  | zero =>
    intro i j hij hf
    have : i = j := by omega
    subst this
    simp [loop]
  | succ fuel ih =>
    intro i j hij hf
    unfold loop
    by_cases hlt : i < j
    · simp only [hlt, if_true]
      have hh1 : i ≤ (i + j) / 2 := by omega
      have hh2 : (i + j) / 2 < j := by omega
      cases hfh : f ((i + j) / 2) with
      | false =>
        simp only [Bool.not_false, if_true]
        have := ih ((i + j) / 2 + 1) j (by omega) (by omega)
        obtain ⟨h1, h2, h3, h4⟩ := this
        refine ⟨by omega, h2, ?_, h4⟩
        intro _
        by_cases hc : (i + j) / 2 + 1 < loop f fuel ((i + j) / 2 + 1) j
        · exact h3 hc
        · have : loop f fuel ((i + j) / 2 + 1) j = (i + j) / 2 + 1 := by omega
          rw [this]; simpa using hfh
      | true =>
        simp only [Bool.not_true, Bool.false_eq_true, if_false]
        have := ih i ((i + j) / 2) (by omega) (by omega)
        obtain ⟨h1, h2, h3, h4⟩ := this
        refine ⟨h1, by omega, h3, ?_⟩
        intro _
        by_cases hc : loop f fuel i ((i + j) / 2) < (i + j) / 2
        · exact h4 hc
        · have : loop f fuel i ((i + j) / 2) = (i + j) / 2 := by omega
          rw [this]; exact hfh
    · have : i = j := by omega
      subst this
      simp

/-- the loop evaluates `f` only at indices in `[i, j)` -/
theorem loop_congr (f g : Nat → Bool) :
    ∀ fuel i j, (∀ k, i ≤ k → k < j → f k = g k) → loop f fuel i j = loop g fuel i j := by
  intro fuel
  induction fuel with
  | zero => intro i j _; rfl
  | succ fuel ih =>
    intro i j h
    unfold loop
    by_cases hlt : i < j
    · simp only [hlt, if_true]
      have hh1 : i ≤ (i + j) / 2 := by omega
      have hh2 : (i + j) / 2 < j := by omega
      rw [h _ hh1 hh2]
      rw [ih ((i + j) / 2 + 1) j (fun k h1 h2 => h k (by omega) h2)]
      rw [ih i ((i + j) / 2) (fun k h1 h2 => h k h1 (by omega))]
    · simp [hlt]

/-- more fuel than `j - i` changes nothing -/
theorem loop_fuel_irrelevant (f : Nat → Bool) :
    ∀ fuel₁ fuel₂ i j, j - i ≤ fuel₁ → j - i ≤ fuel₂ → loop f fuel₁ i j = loop f fuel₂ i j := by
  intro fuel₁
  induction fuel₁ with
  | zero =>
    intro fuel₂ i j h1 _
    have hij : ¬ i < j := by omega
    cases fuel₂ with
    | zero => rfl
    | succ n => simp [loop, hij]
  | succ fuel₁ ih =>
    intro fuel₂ i j h1 h2
    by_cases hlt : i < j
    · cases fuel₂ with
      | zero => omega
      | succ fuel₂ =>
        unfold loop
        simp only [hlt, if_true]
        rw [ih fuel₂ ((i + j) / 2 + 1) j (by omega) (by omega)]
        rw [ih fuel₂ i ((i + j) / 2) (by omega) (by omega)]
    · cases fuel₂ with
      | zero => simp [loop, hlt]
      | succ n => simp [loop, hlt]

/-- `sort.Search` evaluates `f` only on `[0, n)` -/
theorem search_congr (n : Nat) (f g : Nat → Bool) (h : ∀ k, k < n → f k = g k) :
    search n f = search n g :=
  loop_congr f g n 0 n (fun k _ hk => h k hk)

/-- ARBITRARY predicate: the result lies in `[0, n]`, the predicate is false just below it and true at it
(where those positions exist).  In particular the result is always a legal insertion index. -/
theorem search_arbitrary (n : Nat) (f : Nat → Bool) :
    search n f ≤ n ∧
    (0 < search n f → f (search n f - 1) = false) ∧
    (search n f < n → f (search n f) = true) := by
  have := loop_spec f n 0 n (Nat.zero_le _) (by omega)
  exact ⟨this.2.1, this.2.2.1, this.2.2.2⟩

theorem search_le (n : Nat) (f : Nat → Bool) : search n f ≤ n := (search_arbitrary n f).1

/-- a predicate of the shape false … false true … true on `[0, n)` -/
def Monotone (n : Nat) (f : Nat → Bool) : Prop :=
  ∀ i j, i ≤ j → j < n → f i = true → f j = true

/-- MONOTONE predicate: `sort.Search` returns the least index at which `f` holds, `n` if there is none:
everything below the result is false, everything from the result on (below `n`) is true. -/
theorem search_lower_bound (n : Nat) (f : Nat → Bool) (hm : Monotone n f) :
    search n f ≤ n ∧
    (∀ i, i < search n f → f i = false) ∧
    (∀ i, search n f ≤ i → i < n → f i = true) := by
  obtain ⟨h1, h2, h3⟩ := search_arbitrary n f
  refine ⟨h1, ?_, ?_⟩
  · intro i hi
    have hpos : 0 < search n f := by omega
    have hf := h2 hpos
    cases hfi : f i with
    | false => rfl
    | true =>
      have := hm i (search n f - 1) (by omega) (by omega) hfi
      rw [hf] at this; cases this
  · intro i hi hin
    exact hm (search n f) i hi hin (h3 (by omega))

/-- the same as a characterisation: `r = search n f` iff `r` is the least index in `[0,n]` with `f` true from there on -/
theorem search_eq_of_lower_bound (n : Nat) (f : Nat → Bool) (hm : Monotone n f) (r : Nat)
    (hr : r ≤ n) (hlo : ∀ i, i < r → f i = false) (hhi : r < n → f r = true) :
    search n f = r := by
  obtain ⟨h1, h2, h3⟩ := search_lower_bound n f hm
  by_cases hlt : search n f < r
  · have := hlo _ hlt
    have h4 := h3 (search n f) (Nat.le_refl _) (by omega)
    rw [this] at h4; cases h4
  · by_cases hgt : r < search n f
    · have := h2 r hgt
      rw [hhi (by omega)] at this; cases this
    · omega

end TypVerif.Model.GoSearch
