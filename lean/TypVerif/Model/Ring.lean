import TypVerif.Model.Store
import TypVerif.Spec.RingOp
/-
Pointer-level model of `/repo/lists/ring.go` (generic fork of Go's `container/ring`).

A `*Ring[int]` is an `Option RingId` (`none` = nil); the heap is a total store of cells, ids `< size`
are allocated.  Every method is modelled statement by statement with its reads and writes in source
order.  Reading or writing a field through a nil pointer is the explicit panic `"nilfunc"`.
Loops are structural recursions (on `n.natAbs` for `Move`, on `n` for `NewRing`, on a fuel argument
`= size` for `Len` / `Do`; running out of fuel is the explicit result `"fuel"`, which
`Lemmas.Ring.ring_refines` shows never to happen from the empty heap).
-/
namespace TypVerif.Model.Ring
open TypVerif.Model TypVerif.Spec.RingOp

structure RingCell where
  next : Option RingId := none
  prev : Option RingId := none
  value : Int := 0
  deriving Inhabited, Repr

structure RHeap where
  cells : Store RingCell
  size : Nat

def RHeap.empty : RHeap := ⟨Store.empty, 0⟩

namespace RHeap
/-- field reads -/
def nx (h : RHeap) (r : RingId) : Option RingId := (h.cells.get r).next
def pv (h : RHeap) (r : RingId) : Option RingId := (h.cells.get r).prev
def val (h : RHeap) (r : RingId) : Int := (h.cells.get r).value
/-- field writes `r.next = v`, `r.prev = v` -/
def setNext (h : RHeap) (r : RingId) (v : Option RingId) : RHeap :=
  { h with cells := h.cells.set r { h.cells.get r with next := v } }
def setPrev (h : RHeap) (r : RingId) (v : Option RingId) : RHeap :=
  { h with cells := h.cells.set r { h.cells.get r with prev := v } }
/-- `new(Ring)` / `&Ring{prev: p}`; the harness stores `Value = id` in every cell it creates. -/
def alloc (h : RHeap) (prev : Option RingId) : RHeap × RingId :=
  ({ cells := h.cells.set h.size { next := none, prev := prev, value := (h.size : Int) },
     size := h.size + 1 }, h.size)
end RHeap

/-- `func (r *Ring) init() *Ring { r.next = r; r.prev = r; return r }` -/
def init (h : RHeap) (r : RingId) : RHeap × RingId :=
  ((h.setNext r (some r)).setPrev r (some r), r)

/-- `Next`: `if r.next == nil { return r.init() }; return r.next` (never returns nil). -/
def Next (h : RHeap) (r : RingId) : RHeap × RingId :=
  match h.nx r with
  | none => init h r
  | some n => (h, n)

/-- `Prev`: `if r.next == nil { return r.init() }; return r.prev`. -/
def Prev (h : RHeap) (r : RingId) : RHeap × Option RingId :=
  match h.nx r with
  | none => let (h', x) := init h r; (h', some x)
  | some _ => (h, h.pv r)

/-- the two loops of `Move`: `for ; n < 0; n++ { r = r.prev }` and `for ; n > 0; n-- { r = r.next }`;
`k` iterations remain.  `r.prev` / `r.next` on a nil `r` panics. -/
def moveLoop (f : RingId → Option RingId) : Nat → Option RingId → Except String (Option RingId)
  | 0, r => .ok r
  | _ + 1, none => .error "nilfunc"
  | k + 1, some r => moveLoop f k (f r)

def Move (h : RHeap) (r : RingId) (n : Int) : RHeap × Except String (Option RingId) :=
  match h.nx r with
  | none => let (h', x) := init h r; (h', .ok (some x))
  | some _ =>
    if n < 0 then (h, moveLoop h.pv n.natAbs (some r))
    else if n > 0 then (h, moveLoop h.nx n.natAbs (some r))
    else (h, .ok (some r))

/-- loop of `NewRing`: `for i := 1; i < n; i++ { p.next = &Ring{prev: p}; p = p.next }`, `k` iterations remain. -/
def newLoop : Nat → RHeap → RingId → RHeap × RingId
  | 0, h, p => (h, p)
  | k + 1, h, p =>
    let (h1, q) := h.alloc (some p)
    let h2 := h1.setNext p (some q)
    newLoop k h2 q

def NewRing (h : RHeap) (n : Int) : RHeap × Option RingId :=
  if n ≤ 0 then (h, none)
  else
    let (h1, r) := h.alloc none          -- r := new(Ring)
    let (h2, p) := newLoop (n.toNat - 1) h1 r
    let h3 := h2.setNext p (some r)      -- p.next = r
    let h4 := h3.setPrev r (some p)      -- r.prev = p
    (h4, some r)

/-- `Link`: `n := r.Next(); if s != nil { p := s.Prev(); r.next = s; s.prev = r; n.prev = p; p.next = n }; return n` -/
def Link (h : RHeap) (r : RingId) (s : Option RingId) : RHeap × Except String RingId :=
  let (h1, n) := Next h r
  match s with
  | none => (h1, .ok n)
  | some s =>
    let (h2, p) := Prev h1 s
    let h3 := h2.setNext r (some s)
    let h4 := h3.setPrev s (some r)
    let h5 := h4.setPrev n p
    match p with
    | none => (h5, .error "nilfunc")       -- `p.next = n` with p == nil
    | some p => (h5.setNext p (some n), .ok n)

/-- `Unlink`: `if n <= 0 { return nil }; return r.Link(r.Move(n + 1))` -/
def Unlink (h : RHeap) (r : RingId) (n : Int) : RHeap × Except String (Option RingId) :=
  if n ≤ 0 then (h, .ok none)
  else
    match Move h r (n + 1) with
    | (h1, .error e) => (h1, .error e)
    | (h1, .ok s) =>
      match Link h1 r s with
      | (h2, .error e) => (h2, .error e)
      | (h2, .ok x) => (h2, .ok (some x))

/-- loop of `Len`: `for p := …; p != r; p = p.next { n++ }` -/
def lenLoop (h : RHeap) (r : RingId) : Nat → Option RingId → Int → Except String Int
  | 0, p, n => if p = some r then .ok n else .error "fuel"
  | fuel + 1, p, n =>
    if p = some r then .ok n
    else match p with
      | none => .error "nilfunc"
      | some q => lenLoop h r fuel (h.nx q) (n + 1)

/-- `Len` (nil receiver handled in `step`): `n = 1; for p := r.Next(); p != r; p = p.next { n++ }` -/
def Len (h : RHeap) (r : RingId) : RHeap × Except String Int :=
  let (h1, p) := Next h r
  (h1, lenLoop h1 r h1.size (some p) 1)

/-- loop of `Do`: `for p := …; p != r; p = p.next { f(p.Value) }`; `acc` collects the callback arguments. -/
def doLoop (h : RHeap) (r : RingId) : Nat → Option RingId → List Int → Except String (List Int)
  | 0, p, acc => if p = some r then .ok acc else .error "fuel"
  | fuel + 1, p, acc =>
    if p = some r then .ok acc
    else match p with
      | none => .error "nilfunc"
      | some q => doLoop h r fuel (h.nx q) (acc ++ [h.val q])

/-- `Do`: `f(r.Value); for p := r.Next(); p != r; p = p.next { f(p.Value) }` -/
def Do (h : RHeap) (r : RingId) : RHeap × Except String (List Int) :=
  let v := h.val r
  let (h1, p) := Next h r
  (h1, doLoop h1 r h1.size (some p) [v])

/-- harness walk `rfwd`: `out = [r]; for p := r.Next(); p != r && len(out) < fuel; p = p.Next() { out += p }` -/
def fwdLoop (r : RingId) : Nat → RHeap → RingId → RHeap × List RingId
  | 0, h, _ => (h, [])
  | fuel + 1, h, p =>
    if p = r then (h, [])
    else
      let (h1, q) := Next h p
      let (h2, l) := fwdLoop r fuel h1 q
      (h2, p :: l)

def Fwd (h : RHeap) (r : RingId) : Nat → RHeap × List RingId
  | 0 => (h, [])
  | fuel + 1 =>
    let (h1, p) := Next h r
    let (h2, l) := fwdLoop r fuel h1 p
    (h2, r :: l)

/-- harness walk `rbwd`, with `Prev()`; a nil intermediate pointer makes the next `Prev()` call panic. -/
def bwdLoop (r : RingId) : Nat → RHeap → Option RingId → RHeap × Except String (List RingId)
  | 0, h, _ => (h, .ok [])
  | fuel + 1, h, p =>
    if p = some r then (h, .ok [])
    else match p with
      | none => (h, .error "nilfunc")
      | some p =>
        let (h1, q) := Prev h p
        match bwdLoop r fuel h1 q with
        | (h2, .ok l) => (h2, .ok (p :: l))
        | (h2, .error e) => (h2, .error e)

def Bwd (h : RHeap) (r : RingId) : Nat → RHeap × Except String (List RingId)
  | 0 => (h, .ok [])
  | fuel + 1 =>
    let (h1, p) := Prev h r
    match bwdLoop r fuel h1 p with
    | (h2, .ok l) => (h2, .ok (r :: l))
    | (h2, .error e) => (h2, .error e)

/-- rendering of the Go-level outcome -/
def resRef : Except String (Option RingId) → Res
  | .ok r => .ref r
  | .error e => .panic e

/-- One harness line.  A nil receiver of `Next/Prev/Move/Link` and of `Unlink(n)` with `n > 0` is a nil
dereference (`"nilfunc"`, state unchanged); `Unlink(n)` with `n ≤ 0` returns nil before touching `r`;
`Len`/`Do` test `r != nil`.  Handles the harness never issued (`≥ size`) are rejected
as `"badref"` without touching the state (harness glue, identical in the specification). -/
def step (h : RHeap) : Op → RHeap × Res
  | .new n => let (h', r) := NewRing h n; (h', .ref r)
  | .zero => let (h', r) := h.alloc none; (h', .ref (some r))
  | .next none => (h, .panic "nilfunc")
  | .next (some r) =>
    if r < h.size then let (h', x) := Next h r; (h', .ref (some x)) else (h, .panic "badref")
  | .prev none => (h, .panic "nilfunc")
  | .prev (some r) =>
    if r < h.size then let (h', x) := Prev h r; (h', .ref x) else (h, .panic "badref")
  | .move none _ => (h, .panic "nilfunc")
  | .move (some r) n =>
    if r < h.size then let (h', x) := Move h r n; (h', resRef x) else (h, .panic "badref")
  | .link none _ => (h, .panic "nilfunc")
  | .link (some r) s =>
    if r < h.size ∧ validRef h.size s = true then
      match Link h r s with
      | (h', .ok x) => (h', .ref (some x))
      | (h', .error e) => (h', .panic e)
    else (h, .panic "badref")
  | .unlink none n => if n ≤ 0 then (h, .ref none) else (h, .panic "nilfunc")   -- `n <= 0` is tested before `r` is touched
  | .unlink (some r) n =>
    if r < h.size then let (h', x) := Unlink h r n; (h', resRef x) else (h, .panic "badref")
  | .len none => (h, .int 0)
  | .len (some r) =>
    if r < h.size then
      match Len h r with
      | (h', .ok n) => (h', .int n)
      | (h', .error e) => (h', .panic e)
    else (h, .panic "badref")
  | .doAll none => (h, .vals [])
  | .doAll (some r) =>
    if r < h.size then
      match Do h r with
      | (h', .ok l) => (h', .vals l)
      | (h', .error e) => (h', .panic e)
    else (h, .panic "badref")
  | .fwd none _ => (h, .refs [])
  | .fwd (some r) fuel =>
    if r < h.size then let (h', l) := Fwd h r fuel; (h', .refs l) else (h, .panic "badref")
  | .bwd none _ => (h, .refs [])
  | .bwd (some r) fuel =>
    if r < h.size then
      match Bwd h r fuel with
      | (h', .ok l) => (h', .refs l)
      | (h', .error e) => (h', .panic e)
    else (h, .panic "badref")

/-! ### coverage tags (unverified glue for the judge) -/

/-- the elements after `r` in `Next` order, read-only (a zero ring is `[r]`) -/
def walk (h : RHeap) (r : RingId) : Nat → RingId → List RingId
  | 0, _ => []
  | fuel + 1, p =>
    match h.nx p with
    | none => []
    | some q => if q = r then [] else q :: walk h r fuel q

def ringOf (h : RHeap) (r : RingId) : List RingId := r :: walk h r h.size r

private def lazyTag (h : RHeap) (r : RingId) : List String :=
  if r < h.size ∧ h.nx r = none then ["ring.lazyinit"] else []

private def sizeTag (h : RHeap) (r : RingId) : List String :=
  if (ringOf h r).length = 1 then ["ring.single"] else []

def tags (h : RHeap) : Op → List String
  | .new n => if n ≤ 0 then ["ring.new.nonpos"] else if n = 1 then ["ring.new.one"] else ["ring.new.many"]
  | .zero => ["ring.zero"]
  | .next none => ["ring.next.nil"]
  | .next (some r) => if r < h.size then "ring.next" :: lazyTag h r ++ sizeTag h r else ["ring.badref"]
  | .prev none => ["ring.prev.nil"]
  | .prev (some r) => if r < h.size then "ring.prev" :: lazyTag h r ++ sizeTag h r else ["ring.badref"]
  | .move none _ => ["ring.move.nil"]
  | .move (some r) n =>
    if r < h.size then
      (if n < 0 then "ring.move.neg" else if n > 0 then "ring.move.pos" else "ring.move.zero")
        :: (if n.natAbs ≥ (ringOf h r).length ∧ n ≠ 0 then ["ring.move.wrap"] else [])
        ++ lazyTag h r ++ sizeTag h r
    else ["ring.badref"]
  | .link none _ => ["ring.link.nilrecv"]
  | .link (some r) s =>
    if r < h.size ∧ validRef h.size s = true then
      match s with
      | none => "ring.link.nil" :: lazyTag h r
      | some s =>
        (if s = r then "ring.link.self"
         else if (ringOf h r).tail.headD r = s then "ring.link.adjacent"
         else if s ∈ ringOf h r then "ring.link.same"
         else "ring.link.diff") :: lazyTag h r ++ (if s = r then [] else lazyTag h s) ++ sizeTag h r
    else ["ring.badref"]
  | .unlink none n => if n ≤ 0 then ["ring.unlink.nilrecv.nonpos"] else ["ring.unlink.nilrecv"]
  | .unlink (some r) n =>
    if r < h.size then
      if n ≤ 0 then ["ring.unlink.nonpos"]
      else
        let len : Int := (ringOf h r).length
        (if (n + 1) % len = 0 then "ring.unlink.all"
         else if n % len = 0 then "ring.unlink.none"
         else "ring.unlink.some")
          :: (if n ≥ len then ["ring.unlink.wrap"] else []) ++ lazyTag h r ++ sizeTag h r
    else ["ring.badref"]
  | .len none => ["ring.len.nil"]
  | .len (some r) => if r < h.size then "ring.len" :: lazyTag h r ++ sizeTag h r else ["ring.badref"]
  | .doAll none => ["ring.do.nil"]
  | .doAll (some r) => if r < h.size then "ring.do" :: lazyTag h r ++ sizeTag h r else ["ring.badref"]
  | .fwd none _ => ["ring.fwd.nil"]
  | .fwd (some r) fuel =>
    if r < h.size then
      "ring.fwd" :: (if fuel < (ringOf h r).length then ["ring.walk.truncated"] else [])
        ++ (if fuel = 0 then [] else lazyTag h r)
    else ["ring.badref"]
  | .bwd none _ => ["ring.bwd.nil"]
  | .bwd (some r) fuel =>
    if r < h.size then
      "ring.bwd" :: (if fuel < (ringOf h r).length then ["ring.walk.truncated"] else [])
        ++ (if fuel = 0 then [] else lazyTag h r)
    else ["ring.badref"]

end TypVerif.Model.Ring
