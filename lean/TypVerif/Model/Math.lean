/-
Model of the numeric helpers (math.go) and the utility helpers (util.go) of typ.

Integer types are `BitVec w` with a signedness flag `sg` (`true` = int8..int64/int, `false` = uint8..uint64/uint):
Go's `<` is `BitVec.slt` / `BitVec.ult`, `-v`, `+`, `*` are the wrapping `BitVec` operations, and the conversion
`uint64(v)` is sign extension for signed and zero extension for unsigned operands.  The protocol passes values as
mathematical integers: `toInt sg v` / `ofInt w i`.

`Props/C20.lean` proves these definitions equal to the kernels regenerated from the Go source (`Gen.Math.*`, one
copy per integer type); this file must not import `Gen` (the driver is built from it).
-/
namespace TypVerif.Model.Math

def pCustom : String := "panic:custom"

/-! ### integer types -/

/-- Go `a < b` at an integer type -/
def lt (sg : Bool) {w : Nat} (a b : BitVec w) : Bool := if sg then BitVec.slt a b else BitVec.ult a b

/-- `uint64(v)` -/
def widen (sg : Bool) {w : Nat} (v : BitVec w) : BitVec 64 := if sg then BitVec.signExtend 64 v else BitVec.setWidth 64 v

/-- value of a Go integer as a mathematical integer -/
def toInt (sg : Bool) {w : Nat} (v : BitVec w) : Int := if sg then v.toInt else (v.toNat : Int)

/-- a mathematical integer as a Go integer (generators stay inside the type's range) -/
def ofInt (w : Nat) (i : Int) : BitVec w := BitVec.ofInt w i

/-- the `switch` of Digits10 on `n uint64` -/
def ladder (n : BitVec 64) : Int :=
  if BitVec.ult n 10#64 then 1
  else if BitVec.ult n 100#64 then 2
  else if BitVec.ult n 1000#64 then 3
  else if BitVec.ult n 10000#64 then 4
  else if BitVec.ult n 100000#64 then 5
  else if BitVec.ult n 1000000#64 then 6
  else if BitVec.ult n 10000000#64 then 7
  else if BitVec.ult n 100000000#64 then 8
  else if BitVec.ult n 1000000000#64 then 9
  else if BitVec.ult n 10000000000#64 then 10
  else if BitVec.ult n 100000000000#64 then 11
  else if BitVec.ult n 1000000000000#64 then 12
  else if BitVec.ult n 10000000000000#64 then 13
  else if BitVec.ult n 100000000000000#64 then 14
  else if BitVec.ult n 1000000000000000#64 then 15
  else if BitVec.ult n 10000000000000000#64 then 16
  else if BitVec.ult n 100000000000000000#64 then 17
  else if BitVec.ult n 1000000000000000000#64 then 18
  else if BitVec.ult n 10000000000000000000#64 then 19
  else 20

/-- Digits10: `n := uint64(v); if v < 0 { n = -n }; switch ...` -/
def digits10 (sg : Bool) {w : Nat} (v : BitVec w) : Int :=
  let n : BitVec 64 := widen sg v
  let n : BitVec 64 := if lt sg v 0#w then -n else n
  ladder n

/-- DigitsSign10 -/
def digitsSign10 (sg : Bool) {w : Nat} (v : BitVec w) : Int :=
  if lt sg v 0#w then digits10 sg (-v) + 1 else digits10 sg v

/-- Abs -/
def abs (sg : Bool) {w : Nat} (v : BitVec w) : BitVec w := if lt sg v 0#w then -v else v

/-- Clamp: `if v < min {return min}; if v > max {return max}; return v` -/
def clamp (sg : Bool) {w : Nat} (v min max : BitVec w) : BitVec w :=
  if lt sg v min then min else if lt sg max v then max else v

/-- Clamp01 -/
def clamp01 (sg : Bool) {w : Nat} (v : BitVec w) : BitVec w :=
  if lt sg v 0#w then 0#w else if lt sg 1#w v then 1#w else v

/-- Compare: `if a > b {return 1}; if a < b {return -1}; return 0` -/
def compare (sg : Bool) {w : Nat} (a b : BitVec w) : Int :=
  if lt sg b a then 1 else if lt sg a b then -1 else 0

/-- Less -/
def less (sg : Bool) {w : Nat} (a b : BitVec w) : Bool := lt sg a b

/-- Sum: `var sum T; for _, num := range v { sum += num }` -/
def sum {w : Nat} (vs : List (BitVec w)) : BitVec w := vs.foldl (fun s num => s + num) 0#w

/-- Product: `var product T = 1; for _, num := range v { product *= num }` -/
def product {w : Nat} (vs : List (BitVec w)) : BitVec w := vs.foldl (fun p num => p * num) 1#w

/-! ### generic over an ordered type, the order given as `lt` (Go's `<`; `a > b` is `lt b a`) -/

/-- Min: `switch len(v) { case 0: panic; case 1: return v[0]; default: min := v[0]; for _, v := range v[1:] { if v < min { min = v } } }` -/
def min {α : Type} (lt : α → α → Bool) : List α → Except String α
  | [] => .error pCustom
  | [x] => .ok x
  | x :: rest => .ok (rest.foldl (fun m v => if lt v m then v else m) x)

/-- Max -/
def max {α : Type} (lt : α → α → Bool) : List α → Except String α
  | [] => .error pCustom
  | [x] => .ok x
  | x :: rest => .ok (rest.foldl (fun m v => if lt m v then v else m) x)

def clampG {α : Type} (lt : α → α → Bool) (v lo hi : α) : α :=
  if lt v lo then lo else if lt hi v then hi else v

def compareG {α : Type} (lt : α → α → Bool) (a b : α) : Int :=
  if lt b a then 1 else if lt a b then -1 else 0

/-! ### util.go -/

/-- Zero / ZeroOf -/
def zero {α : Type} (z : α) : α := z
def zeroOf {α : Type} (z : α) (_ : α) : α := z

/-- Coal: `for _, v := range values { if v != zero { return v } }; return zero` -/
def coal {α : Type} [DecidableEq α] (z : α) : List α → α
  | [] => z
  | v :: rest => if v ≠ z then v else coal z rest

/-- IsZero: `if value == zero {return true}; if isZeroer, ok := any(value).(interface{ IsZero() bool }); ok { return isZeroer.IsZero() }; return false`.
The method set of the dynamic type is a model parameter (`none`: the type has no `IsZero` method). -/
def isZero {α : Type} [DecidableEq α] (z : α) (method : Option (α → Bool)) (value : α) : Bool :=
  if value = z then true
  else match method with
    | some m => m value
    | none => false

/-- Tern -/
def tern {α : Type} (cond : Bool) (ifTrue ifFalse : α) : α := if cond then ifTrue else ifFalse

/-- TernCast: `value.(T)` succeeds (`some`) or panics (the type assertion fails) -/
def ternCast {α : Type} (cond : Bool) (value : Option α) (ifFalse : α) : Except String α :=
  if cond then
    match value with
    | some v => .ok v
    | none => .error "panic:other"
  else .ok ifFalse

/-- Ref / DerefZero: a pointer is `none` (nil) or `some cell` -/
def ref {α : Type} (v : α) : Option α := some v
def derefZero {α : Type} (z : α) : Option α → α
  | none => z
  | some v => v

/-- IsNil: `any(value) == nil` — true only for an interface-typed value holding no dynamic type
(`none`); a typed nil pointer stored in an interface is `some _` and is not nil. -/
def isNil {α : Type} (dyn : Option α) : Bool := dyn.isNone

end TypVerif.Model.Math
