import TypVerif.Model.AtomicObj
/-
Sequential specifications of `map[K]V` and of a set as `AtomicObj.Spec`s (K = V = Int), used to judge API-level
histories of sync2.Map / sync2.Set recorded from the real code (DESIGN §7.2, §8 C04/C05).
The state is a key-sorted association list so that equal maps are equal terms (state sets stay small).
-/
namespace TypVerif.Model.MapObj
open TypVerif.Model

abbrev Tbl := List (Int × Int)

def lookup (m : Tbl) (k : Int) : Option Int := (m.find? (·.1 == k)).map (·.2)

def erase (m : Tbl) (k : Int) : Tbl := m.filter (·.1 != k)

def insert : Tbl → Int → Int → Tbl
  | [], k, v => [(k, v)]
  | (k', v') :: rest, k, v =>
    if k < k' then (k, v) :: (k', v') :: rest
    else if k == k' then (k, v) :: rest
    else (k', v') :: insert rest k v

inductive Op where
  | load (k : Int) | store (k v : Int) | loadOrStore (k v : Int) | loadAndDelete (k : Int) | delete (k : Int)
  deriving DecidableEq, Repr

inductive Res where
  | val (v : Int) (ok : Bool) | done
  deriving DecidableEq, Repr

def apply (m : Tbl) : Op → List (Tbl × Res)
  | .load k => [(m, match lookup m k with | some v => .val v true | none => .val 0 false)]
  | .store k v => [(insert m k v, .done)]
  | .loadOrStore k v =>
    [match lookup m k with | some a => (m, .val a true) | none => (insert m k v, .val v false)]
  | .loadAndDelete k =>
    [match lookup m k with | some a => (erase m k, .val a true) | none => (m, .val 0 false)]
  | .delete k => [(erase m k, .done)]

def mapSpec : AtomicObj.Spec := { σ := Tbl, Op := Op, Res := Res, init := [], apply := apply }
instance : DecidableEq mapSpec.σ := inferInstanceAs (DecidableEq Tbl)
instance : DecidableEq mapSpec.Op := inferInstanceAs (DecidableEq Op)
instance : DecidableEq mapSpec.Res := inferInstanceAs (DecidableEq Res)

/-! the set specification: Add = LoadOrStore, Remove = LoadAndDelete, Has = Load on a set of Int -/
abbrev SetSt := List Int

def sinsert : SetSt → Int → SetSt
  | [], k => [k]
  | k' :: rest, k => if k < k' then k :: k' :: rest else if k == k' then k' :: rest else k' :: sinsert rest k

inductive SOp where
  | add (v : Int) | remove (v : Int) | has (v : Int)
  deriving DecidableEq, Repr

def sapply (s : SetSt) : SOp → List (SetSt × Bool)
  | .add v => [if s.contains v then (s, false) else (sinsert s v, true)]
  | .remove v => [if s.contains v then (s.filter (· != v), true) else (s, false)]
  | .has v => [(s, s.contains v)]

def setSpec : AtomicObj.Spec := { σ := SetSt, Op := SOp, Res := Bool, init := [], apply := sapply }
instance : DecidableEq setSpec.σ := inferInstanceAs (DecidableEq SetSt)
instance : DecidableEq setSpec.Op := inferInstanceAs (DecidableEq SOp)
instance : DecidableEq setSpec.Res := inferInstanceAs (DecidableEq Bool)

end TypVerif.Model.MapObj
