/-
Model of arrays.Array2D[int]  (/repo/arrays/array2d.go) and of slices.Fill (/repo/slices/slices.go).

The backing slice is a `List Int` (`make([]T, n)` has len = cap = n, so "capacity" is the length of the list).
A sub-slice `a.slice[lo:hi]` is a *window* `(lo, hi)` onto the backing list: reading the window reads the
backing list, writing position `i` of the window writes backing cell `lo + i` (live window).  The Go slice
expression check `0 ≤ lo ≤ hi ≤ cap` is explicit (`mkWin`), an index expression check `0 ≤ i < len` too
(`sliceGet`, `sliceSet`, `winSet`).  Panics are `Except String _` with the protocol's class names:
`panic:custom` for the `panic(fmt.Sprintf(..))` guards of typ itself, `panic:bounds` for Go's own
index / slice-bounds run-time errors, `make` with a negative length is the run-time error "makeslice: len out of range", which the harness files under
`panic:bounds` as well (negative sizes are outside the property and are not generated).

The index and guard expressions are spelled here exactly as in the Go source; `Props/C08.lean` proves them equal
to the regenerated kernels `Gen.A2D.*` (this file must not import `Gen`: the driver is built from it).
-/
namespace TypVerif.Model.Array2D

def pCustom : String := "panic:custom"
def pBounds : String := "panic:bounds"

structure A2D where
  w : Int
  h : Int
  cells : List Int
  deriving Repr, BEq, DecidableEq

/-- `x + y*a.width` -/
def idx (w x y : Int) : Int := x + y * w

/-- `make([]T, width*height)` -/
def newLen (w h : Int) : Int := w * h
/-- `a.slice[y*a.width : a.width+y*a.width]` -/
def rowLo (w y : Int) : Int := y * w
def rowHi (w y : Int) : Int := w + y * w
/-- `a.slice[x1+y*a.width : 1+x2+y*a.width]` (RowSpan, and both slice expressions of Fill) -/
def spanLo (w x1 y : Int) : Int := x1 + y * w
def spanHi (w x2 y : Int) : Int := 1 + x2 + y * w

/-- `i < 0 || i >= n` -/
def oob (n i : Int) : Bool := decide (i < 0) || decide (i ≥ n)

/-- both guards of Get/Set passed -/
def getGuard (w h x y : Int) : Bool := !(oob w x) && !(oob h y)
def rowGuard (h y : Int) : Bool := !(oob h y)
def rowSpanGuard (w h x1 x2 y : Int) : Bool := !(oob w x1) && !(oob h y) && !(oob w x2)
def fillGuard (w h x1 y1 x2 y2 : Int) : Bool := !(oob w x1) && !(oob h y1) && !(oob w x2) && !(oob h y2)

/-! ### Go slice primitives on the backing list -/

/-- `s[i]` -/
def sliceGet (c : List Int) (i : Int) : Except String Int :=
  if 0 ≤ i ∧ i < (c.length : Int) then
    match c[i.toNat]? with
    | some v => .ok v
    | none => .error pBounds
  else .error pBounds

/-- `s[i] = v` -/
def sliceSet (c : List Int) (i : Int) (v : Int) : Except String (List Int) :=
  if 0 ≤ i ∧ i < (c.length : Int) then .ok (c.set i.toNat v) else .error pBounds

/-- `s[lo:hi]` as a window onto `c` (cap = length) -/
def mkWin (c : List Int) (lo hi : Int) : Except String (Nat × Nat) :=
  if 0 ≤ lo ∧ lo ≤ hi ∧ hi ≤ (c.length : Int) then .ok (lo.toNat, hi.toNat) else .error pBounds

/-- contents of a window -/
def winRead (c : List Int) (win : Nat × Nat) : List Int := (c.take win.2).drop win.1

def winLen (win : Nat × Nat) : Nat := win.2 - win.1

/-- `window[i] = v` (writes through to the backing list) -/
def winSet (c : List Int) (win : Nat × Nat) (i : Int) (v : Int) : Except String (List Int) :=
  if 0 ≤ i ∧ i < (winLen win : Int) then .ok (c.set (win.1 + i.toNat) v) else .error pBounds

/-- `copy(c[d : d+dn], src)` : writes the first `min dn (len src)` elements of `src` at `d` -/
def copyAt (c : List Int) (d dn : Nat) (src : List Int) : List Int :=
  let n := min dn src.length
  c.take d ++ src.take n ++ c.drop (d + n)

/-- `for i := 1; i < len(slice); i += i { copy(slice[i:], slice[:i]) }` on the window `[lo, lo+len)` -/
def fillLoop (lo len : Nat) : Nat → Nat → List Int → List Int
  | 0, _, c => c
  | fuel + 1, i, c =>
    if i < len then
      fillLoop lo len fuel (i + i) (copyAt c (lo + i) (len - i) (winRead c (lo, lo + i)))
    else c

/-- slices.Fill on the window `[lo, lo+len)` of `c` -/
def sliceFill (c : List Int) (lo len : Nat) (v : Int) : List Int :=
  if len = 0 then c
  else fillLoop lo len len 1 (c.set lo v)

/-! ### Array2D -/

def new2D (w h : Int) : Except String A2D :=
  if newLen w h < 0 then .error pBounds
  else .ok { w := w, h := h, cells := List.replicate (newLen w h).toNat 0 }

def new2DFilled (w h : Int) (v : Int) : Except String A2D :=
  if newLen w h < 0 then .error pBounds
  else
    let slice := List.replicate (newLen w h).toNat 0
    let slice := sliceFill slice 0 slice.length v
    .ok { w := w, h := h, cells := slice }

def getUnchecked (a : A2D) (x y : Int) : Except String Int := sliceGet a.cells (idx a.w x y)

def setUnchecked (a : A2D) (x y : Int) (v : Int) : Except String A2D := do
  let c ← sliceSet a.cells (idx a.w x y) v
  pure { a with cells := c }

def get (a : A2D) (x y : Int) : Except String Int :=
  if oob a.w x then .error pCustom
  else if oob a.h y then .error pCustom
  else getUnchecked a x y

def set (a : A2D) (x y : Int) (v : Int) : Except String A2D :=
  if oob a.w x then .error pCustom
  else if oob a.h y then .error pCustom
  else setUnchecked a x y v

def clone (a : A2D) : A2D :=
  let slice := List.replicate a.cells.length 0
  let slice := copyAt slice 0 slice.length a.cells
  { w := a.w, h := a.h, cells := slice }

def rowSpan (a : A2D) (x1 x2 y : Int) : Except String (Nat × Nat) :=
  if oob a.w x1 then .error pCustom
  else if oob a.h y then .error pCustom
  else if oob a.w x2 then .error pCustom
  else mkWin a.cells (spanLo a.w x1 y) (spanHi a.w x2 y)

def row (a : A2D) (y : Int) : Except String (Nat × Nat) :=
  if oob a.h y then .error pCustom
  else mkWin a.cells (rowLo a.w y) (rowHi a.w y)

/-- `a.Row(y)` read out -/
def rowRead (a : A2D) (y : Int) : Except String (List Int) := do
  let win ← row a y
  pure (winRead a.cells win)

/-- `a.Row(y)[i] = v` -/
def rowset (a : A2D) (y i v : Int) : Except String A2D := do
  let win ← row a y
  let c ← winSet a.cells win i v
  pure { a with cells := c }

def spanRead (a : A2D) (x1 x2 y : Int) : Except String (List Int) := do
  let win ← rowSpan a x1 x2 y
  pure (winRead a.cells win)

/-- `a.RowSpan(x1,x2,y)[i] = v` -/
def spanset (a : A2D) (x1 x2 y i v : Int) : Except String A2D := do
  let win ← rowSpan a x1 x2 y
  let c ← winSet a.cells win i v
  pure { a with cells := c }

/-- `for y := y1 + 1; y <= y2; y++ { copy(a.slice[x1+y*w : 1+x2+y*w], firstRow) }` -/
def fillRows (w x1 x2 y2 : Int) (first : Nat × Nat) : Nat → Int → List Int → Except String (List Int)
  | 0, _, c => .ok c
  | fuel + 1, y, c =>
    if y ≤ y2 then do
      let dst ← mkWin c (spanLo w x1 y) (spanHi w x2 y)
      fillRows w x1 x2 y2 first fuel (y + 1) (copyAt c dst.1 (winLen dst) (winRead c first))
    else .ok c

/-- the body of Fill after the guards and the sorting of the corners -/
def fillCore (a : A2D) (x1 y1 x2 y2 : Int) (v : Int) : Except String A2D := do
  let first ← mkWin a.cells (spanLo a.w x1 y1) (spanHi a.w x2 y1)
  let c := sliceFill a.cells first.1 (winLen first) v
  let c ← fillRows a.w x1 x2 y2 first (y2 - y1).toNat (y1 + 1) c
  pure { a with cells := c }

def fill (a : A2D) (x1 y1 x2 y2 : Int) (v : Int) : Except String A2D :=
  if oob a.w x1 then .error pCustom
  else if oob a.h y1 then .error pCustom
  else if oob a.w x2 then .error pCustom
  else if oob a.h y2 then .error pCustom
  else
    let xs := if x2 < x1 then (x2, x1) else (x1, x2)   -- x1, x2 = x2, x1
    let ys := if y2 < y1 then (y2, y1) else (y1, y2)   -- y1, y2 = y2, y1
    fillCore a xs.1 ys.1 xs.2 ys.2 v

/-- `for y, row := range jagged { if y >= height { break }; copy(arr.Row(y), row) }` -/
def jaggedLoop : A2D → Int → List (List Int) → Except String A2D
  | a, _, [] => .ok a
  | a, y, r :: rest =>
    if y ≥ a.h then .ok a
    else do
      let win ← row a y
      jaggedLoop { a with cells := copyAt a.cells win.1 (winLen win) r } (y + 1) rest

def fromJagged (w h : Int) (jagged : List (List Int)) : Except String A2D := do
  let arr ← new2D w h
  jaggedLoop arr 0 jagged

/-- the traversal of String(): rows of `getUnchecked(x, y)` for `y := 0; y < height`, `x := 0; x < width` -/
def cellsRows (a : A2D) : Except String (List (List Int)) :=
  (List.range a.h.toNat).mapM fun (y : Nat) =>
    (List.range a.w.toNat).mapM fun (x : Nat) => getUnchecked a (Int.ofNat x) (Int.ofNat y)

end TypVerif.Model.Array2D
