/-
Model of slices.Chunk / ChunkFunc / Windowed / WindowedFunc / Pairs / PairsFunc  (slices/slices.go).

Slices are modelled by `List α` (these functions only read their argument and build sub-slices of it;
the results are compared by contents).  Loops are structural recursion on a fuel argument that the
theorems show to be sufficient; `make([]S, lim)` is `List.replicate lim []` (nil slices) and
`chunks[i] = x` is `List.set`.  `size ≥ 1` is the property's precondition; `size = 0` is the Go
integer-division panic and is reported as such by the model.
-/
namespace TypVerif.Model.Chunk

variable {α : Type}

/-- `slice[j : j+size]` -/
def sub (s : List α) (lo hi : Nat) : List α := (s.take hi).drop lo

/-- the arithmetic kernel of Chunk: (div, rounded, lim) -/
def kernel (n size : Nat) : Nat × Nat × Nat :=
  let div := n / size
  let rounded := div * size
  let lim := if rounded != n then div + 1 else div
  (div, rounded, lim)

/-- `for i, j := 0, 0; j < rounded; i, j = i+1, j+size { chunks[i] = slice[j:j+size] }` -/
def chunkLoop (s : List α) (size rounded : Nat) : Nat → Nat → Nat → List (List α) → List (List α)
  | 0, _, _, chunks => chunks
  | fuel + 1, i, j, chunks =>
    if j < rounded then chunkLoop s size rounded fuel (i + 1) (j + size) (chunks.set i (sub s j (j + size)))
    else chunks

def chunk (s : List α) (size : Nat) : List (List α) :=
  if s.length = 0 then []
  else
    let (div, rounded, lim) := kernel s.length size
    let chunks := List.replicate lim []
    let chunks := chunkLoop s size rounded (div + 1) 0 0 chunks
    if div != lim then chunks.set (lim - 1) (s.drop rounded) else chunks

/-- ChunkFunc: the callback trace -/
def chunkFuncLoop (s : List α) (size rounded : Nat) : Nat → Nat → List (List α) → List (List α)
  | 0, _, trace => trace
  | fuel + 1, j, trace =>
    if j < rounded then chunkFuncLoop s size rounded fuel (j + size) (trace ++ [sub s j (j + size)])
    else trace

def chunkFunc (s : List α) (size : Nat) : List (List α) :=
  if s.length = 0 then []
  else
    let div := s.length / size
    let rounded := div * size
    let trace := chunkFuncLoop s size rounded (div + 1) 0 []
    if rounded != s.length then trace ++ [s.drop rounded] else trace

/-- `for i := 0; i < lim; i++ { windows[i] = slice[i:i+size] }` -/
def windowedLoop (s : List α) (size lim : Nat) : Nat → Nat → List (List α) → List (List α)
  | 0, _, ws => ws
  | fuel + 1, i, ws =>
    if i < lim then windowedLoop s size lim fuel (i + 1) (ws.set i (sub s i (i + size))) else ws

def windowed (s : List α) (size : Nat) : List (List α) :=
  if s.length < size then []
  else
    let lim := s.length - size + 1
    windowedLoop s size lim lim 0 (List.replicate lim [])

def windowedFuncLoop (s : List α) (size lim : Nat) : Nat → Nat → List (List α) → List (List α)
  | 0, _, tr => tr
  | fuel + 1, i, tr =>
    if i < lim then windowedFuncLoop s size lim fuel (i + 1) (tr ++ [sub s i (i + size)]) else tr

def windowedFunc (s : List α) (size : Nat) : List (List α) :=
  if s.length < size then []
  else
    let lim := s.length - size + 1
    windowedFuncLoop s size lim lim 0 []

/-- element access that the Go loop performs inside its bounds; `none` would be an index panic -/
def pairsLoop [Inhabited α] (s : List α) (lim : Nat) : Nat → Nat → List (α × α) → List (α × α)
  | 0, _, ps => ps
  | fuel + 1, i, ps =>
    if i < lim then pairsLoop s lim fuel (i + 1) (ps.set i (s[i]!, s[i+1]!)) else ps

def pairs [Inhabited α] (s : List α) : List (α × α) :=
  if s.length < 2 then []
  else
    let lim := s.length - 1
    pairsLoop s lim lim 0 (List.replicate lim (default, default))

def pairsFuncLoop [Inhabited α] (s : List α) (lim : Nat) : Nat → Nat → List (α × α) → List (α × α)
  | 0, _, tr => tr
  | fuel + 1, i, tr =>
    if i < lim then pairsFuncLoop s lim fuel (i + 1) (tr ++ [(s[i]!, s[i+1]!)]) else tr

def pairsFunc [Inhabited α] (s : List α) : List (α × α) :=
  if s.length < 2 then []
  else
    let lim := s.length - 1
    pairsFuncLoop s lim lim 0 []

end TypVerif.Model.Chunk
