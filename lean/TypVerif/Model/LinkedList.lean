import TypVerif.Model.Store
import TypVerif.Spec.ListOp
/-
Pointer-level heap model of `/repo/lists/list.go` (generic fork of Go's `container/list`).

Heap: element cells `{next prev : Ptr, list : Option ListId, value : Int}` and list cells
`{rootNext rootPrev : Ptr, len : Int}` (the sentinel `root Element` of a `List` has no own cell: only its
`next`/`prev` are ever used; `root.list` is never written and stays nil, `root.Value` stays the zero value).
A pointer is `null`, `root l` (= `&l.root`) or `elem e`.  The zero value of a `List` is `null/null/0`.

Every method performs its pointer reads and writes in source order, through the monad `M`
(state + panic; a panic keeps the heap as it was at the moment of the nil dereference, like Go's `recover`).

Element ids.  A fresh `&Element{Value: v}` gets the id `nextElem` (creation order), except inside
`PushFrontList`, where PROTOCOL.md numbers the new elements in front-to-back order of the receiving list
after the call: the `n = other.Len()` ids `base … base+n-1` are reserved up front and the element created
while the loop counter is `i` (it ends up at position `i-1`) gets id `base + i - 1`.  For `PushBackList`
creation order and front-to-back order coincide (`base + j` for the j-th created element).
-/
namespace TypVerif.Model.LinkedList
open TypVerif.Spec.ListOp
open TypVerif.Model

structure ElemCell where
  next : Ptr := .null
  prev : Ptr := .null
  list : Option ListId := none
  value : Int := 0
  deriving Repr

instance : Inhabited ElemCell := ⟨{}⟩

structure ListCell where
  rootNext : Ptr := .null
  rootPrev : Ptr := .null
  len : Int := 0
  deriving Repr

instance : Inhabited ListCell := ⟨{}⟩

structure Heap where
  elems : Store ElemCell
  lists : Store ListCell
  nextElem : Nat

def Heap.empty : Heap := { elems := Store.empty, lists := Store.empty, nextElem := 0 }

/-! ### field-level reads and writes (total; the nil check lives in the monadic accessors below) -/

def Heap.next (h : Heap) : Ptr → Ptr
  | .null => .null
  | .root l => (h.lists.get l).rootNext
  | .elem e => (h.elems.get e).next

def Heap.prev (h : Heap) : Ptr → Ptr
  | .null => .null
  | .root l => (h.lists.get l).rootPrev
  | .elem e => (h.elems.get e).prev

/-- `p.list`; the sentinel's `list` field is never written, it is nil -/
def Heap.listOf (h : Heap) : Ptr → Option ListId
  | .elem e => (h.elems.get e).list
  | _ => none

/-- `p.Value`; the sentinel's `Value` is never written, it is the zero value -/
def Heap.value (h : Heap) : Ptr → Int
  | .elem e => (h.elems.get e).value
  | _ => 0

def Heap.len (h : Heap) (l : ListId) : Int := (h.lists.get l).len

def Heap.setNext (h : Heap) (p q : Ptr) : Heap :=
  match p with
  | .null => h
  | .root l => { h with lists := h.lists.set l { h.lists.get l with rootNext := q } }
  | .elem e => { h with elems := h.elems.set e { h.elems.get e with next := q } }

def Heap.setPrev (h : Heap) (p q : Ptr) : Heap :=
  match p with
  | .null => h
  | .root l => { h with lists := h.lists.set l { h.lists.get l with rootPrev := q } }
  | .elem e => { h with elems := h.elems.set e { h.elems.get e with prev := q } }

def Heap.setList (h : Heap) (e : ElemId) (o : Option ListId) : Heap :=
  { h with elems := h.elems.set e { h.elems.get e with list := o } }

def Heap.setLen (h : Heap) (l : ListId) (n : Int) : Heap :=
  { h with lists := h.lists.set l { h.lists.get l with len := n } }

/-- `&Element{Value: v}` placed at id `e` -/
def Heap.newElemAt (h : Heap) (e : ElemId) (v : Int) : Heap :=
  { h with elems := h.elems.set e { value := v } }

def Heap.setNextElem (h : Heap) (n : Nat) : Heap := { h with nextElem := n }

/-! ### the monad: heap state + panic -/

inductive Result (α : Type) where
  | ok (a : α) (h : Heap)
  | panic (msg : String) (h : Heap)

def M (α : Type) := Heap → Result α

def M.pure {α} (a : α) : M α := fun h => .ok a h

def M.bind {α β} (x : M α) (f : α → M β) : M β := fun h =>
  match x h with
  | .ok a h' => f a h'
  | .panic m h' => .panic m h'

instance : Monad M where
  pure := M.pure
  bind := M.bind

def nilPanic {α} : M α := fun h => .panic "nilfunc" h

def getNext (p : Ptr) : M Ptr := fun h => if p = .null then .panic "nilfunc" h else .ok (h.next p) h
def getPrev (p : Ptr) : M Ptr := fun h => if p = .null then .panic "nilfunc" h else .ok (h.prev p) h
def getList (p : Ptr) : M (Option ListId) := fun h => if p = .null then .panic "nilfunc" h else .ok (h.listOf p) h
def getValue (p : Ptr) : M Int := fun h => if p = .null then .panic "nilfunc" h else .ok (h.value p) h
def setNext (p q : Ptr) : M Unit := fun h => if p = .null then .panic "nilfunc" h else .ok () (h.setNext p q)
def setPrev (p q : Ptr) : M Unit := fun h => if p = .null then .panic "nilfunc" h else .ok () (h.setPrev p q)
def setList (e : ElemId) (o : Option ListId) : M Unit := fun h => .ok () (h.setList e o)
def getLen (l : ListId) : M Int := fun h => .ok (h.len l) h
def setLen (l : ListId) (n : Int) : M Unit := fun h => .ok () (h.setLen l n)
def newElemAt (e : ElemId) (v : Int) : M Unit := fun h => .ok () (h.newElemAt e v)
def getNextElem : M Nat := fun h => .ok h.nextElem h
def setNextElem (n : Nat) : M Unit := fun h => .ok () (h.setNextElem n)

/-! ### list.go -/

/-- `func (e *Element) Next() *Element { if p := e.next; e.list != nil && p != &e.list.root { return p }; return nil }` -/
def elemNext (e : Ptr) : M Ptr := do
  let p ← getNext e
  let o ← getList e
  match o with
  | none => return .null
  | some l => if p ≠ .root l then return p else return .null

/-- `func (e *Element) Prev() *Element` -/
def elemPrev (e : Ptr) : M Ptr := do
  let p ← getPrev e
  let o ← getList e
  match o with
  | none => return .null
  | some l => if p ≠ .root l then return p else return .null

/-- `func (l *List) Init() *List { l.root.next = &l.root; l.root.prev = &l.root; l.len = 0; return l }` -/
def init (l : ListId) : M Unit := do
  setNext (.root l) (.root l)
  setPrev (.root l) (.root l)
  setLen l 0

/-- `func (l *List) Len() int { return l.len }` -/
def len (l : ListId) : M Int := getLen l

/-- `func (l *List) Front() *Element { if l.len == 0 { return nil }; return l.root.next }` -/
def front (l : ListId) : M Ptr := do
  let n ← getLen l
  if n = 0 then return .null else getNext (.root l)

/-- `func (l *List) Back() *Element { if l.len == 0 { return nil }; return l.root.prev }` -/
def back (l : ListId) : M Ptr := do
  let n ← getLen l
  if n = 0 then return .null else getPrev (.root l)

/-- `func (l *List) lazyInit() { if l.root.next == nil { l.Init() } }` -/
def lazyInit (l : ListId) : M Unit := do
  let n ← getNext (.root l)
  if n = .null then init l else return ()

/-- `insert inserts e after at, increments l.len, and returns e.` -/
def insert (l : ListId) (e : ElemId) (at' : Ptr) : M Ptr := do
  setPrev (.elem e) at'                 -- e.prev = at
  let n ← getNext at'
  setNext (.elem e) n                   -- e.next = at.next
  let p ← getPrev (.elem e)
  setNext p (.elem e)                   -- e.prev.next = e
  let n ← getNext (.elem e)
  setPrev n (.elem e)                   -- e.next.prev = e
  setList e (some l)                    -- e.list = l
  let k ← getLen l
  setLen l (k + 1)                      -- l.len++
  return .elem e

/-- `insertValue(v, at) = l.insert(&Element{Value: v}, at)`; the new cell gets id `id` -/
def insertValue (l : ListId) (id : ElemId) (v : Int) (at' : Ptr) : M Ptr := do
  newElemAt id v
  insert l id at'

/-- a fresh element in creation order: id = nextElem -/
def insertValueFresh (l : ListId) (v : Int) (at' : Ptr) : M Ptr := do
  let id ← getNextElem
  setNextElem (id + 1)
  insertValue l id v at'

/-- `remove removes e from its list, decrements l.len` -/
def remove (l : ListId) (e : ElemId) : M Unit := do
  let p ← getPrev (.elem e)
  let n ← getNext (.elem e)
  setNext p n                           -- e.prev.next = e.next
  let n ← getNext (.elem e)
  let p ← getPrev (.elem e)
  setPrev n p                           -- e.next.prev = e.prev
  setNext (.elem e) .null               -- e.next = nil
  setPrev (.elem e) .null               -- e.prev = nil
  setList e none                        -- e.list = nil
  let k ← getLen l
  setLen l (k - 1)                      -- l.len--

/-- `move moves e to next to at.` -/
def move (_l : ListId) (e : ElemId) (at' : Ptr) : M Unit := do
  if Ptr.elem e = at' then return () else
  let p ← getPrev (.elem e)
  let n ← getNext (.elem e)
  setNext p n                           -- e.prev.next = e.next
  let n ← getNext (.elem e)
  let p ← getPrev (.elem e)
  setPrev n p                           -- e.next.prev = e.prev
  setPrev (.elem e) at'                 -- e.prev = at
  let n ← getNext at'
  setNext (.elem e) n                   -- e.next = at.next
  let p ← getPrev (.elem e)
  setNext p (.elem e)                   -- e.prev.next = e
  let n ← getNext (.elem e)
  setPrev n (.elem e)                   -- e.next.prev = e

/-- `func (l *List) Remove(e *Element) any { if e.list == l { l.remove(e) }; return e.Value }`.
A sentinel pointer has `list == nil`, so the guard fails for it. -/
def removeM (l : ListId) (e : Ptr) : M Int :=
  match e with
  | .null => nilPanic
  | .root _ => return 0
  | .elem x => do
    let o ← getList (.elem x)
    if o = some l then remove l x
    getValue (.elem x)

/-- `func (l *List) PushFront(v any) *Element { l.lazyInit(); return l.insertValue(v, &l.root) }` -/
def pushFront (l : ListId) (v : Int) : M Ptr := do
  lazyInit l
  insertValueFresh l v (.root l)

/-- `func (l *List) PushBack(v any) *Element { l.lazyInit(); return l.insertValue(v, l.root.prev) }` -/
def pushBack (l : ListId) (v : Int) : M Ptr := do
  lazyInit l
  let p ← getPrev (.root l)
  insertValueFresh l v p

/-- `InsertBefore`: `if mark.list != l { return nil }; return l.insertValue(v, mark.prev)` -/
def insertBefore (l : ListId) (v : Int) (mark : Ptr) : M Ptr := do
  let o ← getList mark
  if o ≠ some l then return .null else
  let p ← getPrev mark
  insertValueFresh l v p

/-- `InsertAfter`: `if mark.list != l { return nil }; return l.insertValue(v, mark)` -/
def insertAfter (l : ListId) (v : Int) (mark : Ptr) : M Ptr := do
  let o ← getList mark
  if o ≠ some l then return .null else
  insertValueFresh l v mark

/-- `MoveToFront`: `if e.list != l || l.root.next == e { return }; l.move(e, &l.root)` -/
def moveToFront (l : ListId) (e : Ptr) : M Unit :=
  match e with
  | .null => nilPanic
  | .root _ => return ()
  | .elem x => do
    let o ← getList (.elem x)
    if o ≠ some l then return () else
    let n ← getNext (.root l)
    if n = .elem x then return () else
    move l x (.root l)

/-- `MoveToBack`: `if e.list != l || l.root.prev == e { return }; l.move(e, l.root.prev)` -/
def moveToBack (l : ListId) (e : Ptr) : M Unit :=
  match e with
  | .null => nilPanic
  | .root _ => return ()
  | .elem x => do
    let o ← getList (.elem x)
    if o ≠ some l then return () else
    let p ← getPrev (.root l)
    if p = .elem x then return () else
    let p ← getPrev (.root l)
    move l x p

/-- `MoveBefore`: `if e.list != l || e == mark || mark.list != l { return }; l.move(e, mark.prev)` -/
def moveBefore (l : ListId) (e mark : Ptr) : M Unit :=
  match e with
  | .null => nilPanic
  | .root _ => return ()
  | .elem x => do
    let o ← getList (.elem x)
    if o ≠ some l then return () else
    if Ptr.elem x = mark then return () else
    let om ← getList mark
    if om ≠ some l then return () else
    let p ← getPrev mark
    move l x p

/-- `MoveAfter`: `if e.list != l || e == mark || mark.list != l { return }; l.move(e, mark)` -/
def moveAfter (l : ListId) (e mark : Ptr) : M Unit :=
  match e with
  | .null => nilPanic
  | .root _ => return ()
  | .elem x => do
    let o ← getList (.elem x)
    if o ≠ some l then return () else
    if Ptr.elem x = mark then return () else
    let om ← getList mark
    if om ≠ some l then return () else
    move l x mark

/-- body of `for i, e := other.Len(), other.Front(); i > 0; i, e = i-1, e.Next() { l.insertValue(e.Value, l.root.prev) }`;
`k` = remaining iterations, `id` = id of the next new element -/
def pushBackLoop (l : ListId) : Nat → ElemId → Ptr → M Unit
  | 0, _, _ => return ()
  | k + 1, id, e => do
    let v ← getValue e
    let p ← getPrev (.root l)
    let _ ← insertValue l id v p
    let e' ← elemNext e
    pushBackLoop l k (id + 1) e'

/-- body of `for i, e := other.Len(), other.Back(); i > 0; i, e = i-1, e.Prev() { l.insertValue(e.Value, &l.root) }`;
the element created with `k+1` iterations remaining gets id `base + k` -/
def pushFrontLoop (l : ListId) (base : ElemId) : Nat → Ptr → M Unit
  | 0, _ => return ()
  | k + 1, e => do
    let v ← getValue e
    let _ ← insertValue l (base + k) v (.root l)
    let e' ← elemPrev e
    pushFrontLoop l base k e'

/-- `PushBackList`; returns the number of new elements -/
def pushBackList (l o : ListId) : M Int := do
  lazyInit l
  let n ← len o
  let e ← front o
  let base ← getNextElem
  setNextElem (base + n.toNat)
  pushBackLoop l n.toNat base e
  return (n.toNat : Int)

/-- `PushFrontList`; returns the number of new elements -/
def pushFrontList (l o : ListId) : M Int := do
  lazyInit l
  let n ← len o
  let e ← back o
  let base ← getNextElem
  setNextElem (base + n.toNat)
  pushFrontLoop l base n.toNat e
  return (n.toNat : Int)

/-- `for e := start; e != nil && steps < fuel; e = step(e)` collecting the visited pointers -/
def walk (stepf : Ptr → M Ptr) : Nat → Ptr → M (List Ptr)
  | 0, _ => return []
  | k + 1, p =>
    if p = .null then return [] else do
      let q ← stepf p
      let rest ← walk stepf k q
      return p :: rest

def fwd (l : ListId) (fuel : Nat) : M (List Ptr) := do
  let f ← front l
  walk elemNext fuel f

def bwd (l : ListId) (fuel : Nat) : M (List Ptr) := do
  let b ← back l
  walk elemPrev fuel b

/-! ### one protocol line -/

def runOp : Op → M Res
  | .init l => do init l; return .unit
  | .pushFront l v => do let p ← pushFront l v; return .ptr p
  | .pushBack l v => do let p ← pushBack l v; return .ptr p
  | .insertBefore l v mark => do let p ← insertBefore l v mark.toPtr; return .ptr p
  | .insertAfter l v mark => do let p ← insertAfter l v mark.toPtr; return .ptr p
  | .remove l e => do let v ← removeM l e.toPtr; return .int v
  | .moveToFront l e => do moveToFront l e.toPtr; return .unit
  | .moveToBack l e => do moveToBack l e.toPtr; return .unit
  | .moveBefore l e mark => do moveBefore l e.toPtr mark.toPtr; return .unit
  | .moveAfter l e mark => do moveAfter l e.toPtr mark.toPtr; return .unit
  | .pushBackList l o => do let n ← pushBackList l o; return .int n
  | .pushFrontList l o => do let n ← pushFrontList l o; return .int n
  | .len l => do let n ← len l; return .int n
  | .front l => do let p ← front l; return .ptr p
  | .back l => do let p ← back l; return .ptr p
  | .next e => do let p ← elemNext e.toPtr; return .ptr p
  | .prev e => do let p ← elemPrev e.toPtr; return .ptr p
  | .value e => do let v ← getValue e.toPtr; return .int v
  | .fwd l fuel => do let ps ← fwd l fuel; return .ptrs ps
  | .bwd l fuel => do let ps ← bwd l fuel; return .ptrs ps

def step (h : Heap) (op : Op) : Heap × Res :=
  match runOp op h with
  | .ok r h' => (h', r)
  | .panic m h' => (h', .panic m)

/-- outputs of a whole script, from heap `h` -/
def run : Heap → List Op → List Res
  | _, [] => []
  | h, op :: ops => (step h op).2 :: run (step h op).1 ops

def finalHeap : Heap → List Op → Heap
  | h, [] => h
  | h, op :: ops => finalHeap (step h op).1 ops

end TypVerif.Model.LinkedList
