import TypVerif.Model.GoSearch
/-
Model of `/repo/slices/sort.go`: the adapters around Go's `sort` and `math/rand` packages.

* `sort.Interface` is `Iface σ`: `Len/Less/Swap` over a hidden state `σ` (for both adapters of sort.go the state is
  the content of the slice, `List α`; `less` of `sortLess` is a constant field and therefore a parameter).
  Out-of-range `Less`/`Swap` are bounds panics in Go; the library contract (below, and `Spec/SortContract.lean`) only
  ever talks about in-range calls, the model's `Less` is `false` and its `Swap` the identity there.
* `sort.Reverse(data)` is `reverse`: `Less(i, j) = data.Less(j, i)`, `Len`/`Swap` inherited (embedding).
* The library algorithms `sort.Sort` / `sort.Stable` are parameters (`SortImpl`): each entry point is "library sort
  applied to the adapter".  What is assumed about them is the contract in `Spec/SortContract.lean`; `refSort` is a
  reference implementation (merge sort of the index permutation computed through `Less`, realised through `Swap`)
  that is proved to satisfy both contracts and is what the driver executes.
* `sort.Search` is `GoSearch.search` (the real loop).
* `rand.Shuffle(n, swap)` is the Fisher–Yates loop `for i := n-1; i > 0; i-- { j := Intn(i+1); swap(i, j) }` over an
  abstract generator (`next : γ → Nat → Nat × γ` is `Intn` on generator state `γ`); `Shuffle` uses the global
  generator, `ShuffleRand` the supplied one — the same code.
-/
namespace TypVerif.Model.SortAdapters
open TypVerif.Model

/-- `s[i], s[j] = s[j], s[i]` (identity when out of range; Go: bounds panic) -/
def swapList (l : List α) (i j : Nat) : List α :=
  match l[i]?, l[j]? with
  | some a, some b => (l.set i b).set j a
  | _, _ => l

/-- `sort.Interface` -/
structure Iface (σ : Type) where
  len : σ → Nat
  less : σ → Nat → Nat → Bool
  swap : σ → Nat → Nat → σ

/-- `type sortLess[T any] struct { slice []T; less func(a, b T) bool }` -/
def sortLess (less : α → α → Bool) : Iface (List α) where
  len s := s.length
  swap s i j := swapList s i j
  less s i j :=
    match s[i]?, s[j]? with
    | some a, some b => less a b
    | _, _ => false

/-- `type sortOrdered[T typ.Ordered] []T`, `Less(i, j) = s[i] < s[j]` with the built-in `<` -/
def sortOrdered [LT α] [DecidableLT α] : Iface (List α) where
  len s := s.length
  swap s i j := swapList s i j
  less s i j :=
    match s[i]?, s[j]? with
    | some a, some b => decide (a < b)
    | _, _ => false

/-- `sort.Reverse(data)`: `func (r reverse) Less(i, j int) bool { return r.Interface.Less(j, i) }` -/
def reverse (I : Iface σ) : Iface σ := { I with less := fun s i j => I.less s j i }

/-- a library sorting routine: works on any `sort.Interface` -/
def SortImpl : Type 1 := ∀ (σ : Type), Iface σ → σ → σ

/-! ### the six entry points (`sortImpl` stands for `sort.Sort`, `stableImpl` for `sort.Stable`) -/

def sort (sortImpl : SortImpl) [LT α] [DecidableLT α] (slice : List α) : List α :=
  sortImpl _ sortOrdered slice

def sortFunc (sortImpl : SortImpl) (slice : List α) (less : α → α → Bool) : List α :=
  sortImpl _ (sortLess less) slice

def sortDesc (sortImpl : SortImpl) [LT α] [DecidableLT α] (slice : List α) : List α :=
  sortImpl _ (reverse sortOrdered) slice

def sortDescFunc (sortImpl : SortImpl) (slice : List α) (less : α → α → Bool) : List α :=
  sortImpl _ (reverse (sortLess less)) slice

def sortStableFunc (stableImpl : SortImpl) (slice : List α) (less : α → α → Bool) : List α :=
  stableImpl _ (sortLess less) slice

def sortStableDescFunc (stableImpl : SortImpl) (slice : List α) (less : α → α → Bool) : List α :=
  stableImpl _ (reverse (sortLess less)) slice

/-! ### binary search -/

/-- `BinarySearch(slice, value) = sort.Search(len(slice), func(i) bool { return slice[i] >= value })` -/
def binarySearch [LE α] [DecidableLE α] (slice : List α) (value : α) : Nat :=
  GoSearch.search slice.length (fun i =>
    match slice[i]? with
    | some x => decide (x ≥ value)
    | none => true)

/-- `BinarySearchFunc(slice, less) = sort.Search(len(slice), func(i) bool { return !less(slice[i]) })` -/
def binarySearchFunc (slice : List α) (less : α → Bool) : Nat :=
  GoSearch.search slice.length (fun i =>
    match slice[i]? with
    | some x => !less x
    | none => true)

/-! ### shuffle -/

/-- a sequence of `swap(i, j)` calls applied to a slice -/
def applySwaps (slice : List α) (swaps : List (Nat × Nat)) : List α :=
  swaps.foldl (fun s p => swapList s p.1 p.2) slice

/-- the calls `rand.Shuffle(n, swap)` makes, for the generator state `g`:
`for i := n - 1; i > 0; i-- { j := r.Intn(i + 1); swap(i, j) }`.  `fuel` counts the remaining iterations (`i`). -/
def shuffleTrace (next : γ → Nat → Nat × γ) : (i : Nat) → γ → List (Nat × Nat) × γ
  | 0, g => ([], g)
  | i + 1, g =>
    let (j, g') := next g (i + 2)          -- i+1 is the loop variable, Intn((i+1)+1)
    let (rest, g'') := shuffleTrace next i g'
    ((i + 1, j) :: rest, g'')

/-- `ShuffleRand(slice, rand)`; returns the slice and the advanced generator -/
def shuffleRand (next : γ → Nat → Nat × γ) (slice : List α) (g : γ) : List α × γ :=
  let (swaps, g') := shuffleTrace next (slice.length - 1) g
  (applySwaps slice swaps, g')

/-- `Shuffle(slice)`: the same with the package-global generator -/
def shuffle (next : γ → Nat → Nat × γ) (slice : List α) (globalRand : γ) : List α × γ :=
  shuffleRand next slice globalRand

/-! ### reference implementation of `sort.Sort` / `sort.Stable` through the interface -/

/-- The swaps that turn the arrangement `pre ++ cur` (`pre.length = k`) into `pre ++ target`, for `cur` a permutation of
`target`: bring the wanted element to the front of the unsettled part, settle it, go on. -/
def realize : (k : Nat) → (cur target : List Nat) → List (Nat × Nat)
  | _, _, [] => []
  | k, cur, t :: ts =>
    let p := cur.idxOf t
    (k, k + p) :: realize (k + 1) (swapList cur 0 p).tail ts

/-- `data.Swap` along a list of swaps -/
def ifaceSwaps (I : Iface σ) (s : σ) (swaps : List (Nat × Nat)) : σ :=
  swaps.foldl (fun s p => I.swap s p.1 p.2) s

/-- Reference sort: `idx` = the stable merge sort of the positions `0..n-1` by `Less` (read on the initial state);
then the permutation is realised by `Swap`s.  Uses nothing but `Len`, `Less` and `Swap`. -/
def refSort : SortImpl := fun _ I s =>
  let n := I.len s
  let idx := (List.range n).mergeSort (fun i j => !I.less s j i)
  ifaceSwaps I s (realize 0 (List.range n) idx)

end TypVerif.Model.SortAdapters
