import TypVerif.Model.SyncMap
/-
Model of the two implementations of `sets.Set[T]` (`/repo/sets/sets.go`):
  * `maps.Set[T]`  (`/repo/maps/set.go`)  = `map[T]struct{}`: a duplicate-free list standing for the Go map
    (iteration = list order; `s[v] = struct{}{}` appends, `delete(s, v)` filters `v` out);
  * `*sync2.Set[T]` (`/repo/sync2/set.go`) = thin wrappers over `sync2.Map[T, struct{}]`, here over the
    sequential model `Model/SyncMap.lean` with `V := Unit`.
`AnySet` is the sum of the two, so that the binary operations are written once per receiver kind and take
*any* implementation as argument, exactly like the Go methods take a `sets.Set[T]`.

Every method returns the new state of the set it was called on, because even the "read-only" methods of
the concurrent set change its layout (`Has` counts misses and may promote, `Range` promotes).

Callbacks.  `AddSet/RemoveSet/Intersect/SetDiff/SymDiff/Clone/CartesianProduct` are loops `x.Range(func(v) bool {…})`.
The model runs `x.Range` first (its state change — the promotion — happens before the first callback, and the
values visited are those of the `read.m` snapshot), then folds the callback over the visited values.  This is the
same computation as the interleaved one, because a callback only touches (a) sets other than `x`, or (b) when
the argument is the receiver itself (`A.RemoveSet(A)`, `A.Union(A)` …) entries of `x` that were already
visited (`Remove` of the current value), or nothing at all (`Add`/`Has` of a present value is a read hit
after the promotion).  Self-aliased calls are first-class: `Two.arg = none` means "the argument is the receiver".

Iteration order is the list order of the model; results are compared up to order by the judge.
`String()` is modelled as the sequence of values it prints (formatting is not modelled).
-/
namespace TypVerif.Model.Sets
open TypVerif.Model.SyncMap
open TypVerif.Spec.PMap (cut)

variable {α : Type} [DecidableEq α]

inductive AnySet (α : Type) where
  /-- `maps.Set[α]` -/
  | mapSet (l : List α)
  /-- `*sync2.Set[α]` (field `m`) -/
  | syncSet (m : State α Unit)

/-- `make(maps.Set[T])` / `var set sync2.Set[T]` -/
def AnySet.emptyOfKind : Nat → AnySet α
  | 0 => .mapSet []
  | _ => .syncSet State.init

/-- a fresh set of the same implementation as the receiver -/
def emptyLike : AnySet α → AnySet α
  | .mapSet _ => .mapSet []
  | .syncSet _ => .syncSet State.init

/-- `Has`.  maps: `_, has := s[value]`;  sync2: `_, has := s.m.Load(value)` -/
def has : AnySet α → α → AnySet α × Bool
  | .mapSet l, v => (.mapSet l, l.contains v)
  | .syncSet m, v => let r := load m v; (.syncSet r.1, r.2.isSome)

/-- `Add`.  maps: `if s.Has(value) { return false }; s[value] = struct{}{}; return true`;
sync2: `_, loaded := s.m.LoadOrStore(value, struct{}{}); return !loaded` -/
def add : AnySet α → α → AnySet α × Bool
  | .mapSet l, v => if l.contains v then (.mapSet l, false) else (.mapSet (l ++ [v]), true)
  | .syncSet m, v => let r := loadOrStore m v (); (.syncSet r.1, !r.2.2)

/-- `Remove`.  maps: `if !s.Has(value) { return false }; delete(s, value); return true`;
sync2: `_, loaded := s.m.LoadAndDelete(value); return loaded` -/
def remove : AnySet α → α → AnySet α × Bool
  | .mapSet l, v => if !l.contains v then (.mapSet l, false) else (.mapSet (l.filter (fun x => !decide (x = v))), true)
  | .syncSet m, v => let r := loadAndDelete m v; (.syncSet r.1, r.2.isSome)

/-- `Range(f)` where `f` answers false on its n-th call (n ≤ 0: never): the visited values, in order.
maps: `for v := range s { if !f(v) { break } }`;  sync2: `s.m.Range(func(v, _) bool { return f(v) })` -/
def rangeN : AnySet α → Int → AnySet α × List α
  | .mapSet l, n => (.mapSet l, cut n l)
  | .syncSet m, n => let r := range m n; (.syncSet r.1, r.2.map Prod.fst)

/-- all values, in iteration order -/
def rangeAll (s : AnySet α) : AnySet α × List α := rangeN s 0

/-- `Len`.  maps: `len(s)`;  sync2: counts the callbacks of a full `Range` -/
def len : AnySet α → AnySet α × Nat
  | .mapSet l => (.mapSet l, l.length)
  | .syncSet m => let r := rangeAll (.syncSet m); (r.1, r.2.length)

/-- `Slice` -/
def slice (s : AnySet α) : AnySet α × List α := rangeAll s

/-- `String`: the values in the order they are printed -/
def string (s : AnySet α) : AnySet α × List α := rangeAll s

/-- the callback of `AddSet` folded over the visited values: `if s.Add(value) { added++ }` -/
def addLoop (s : AnySet α) : List α → Nat → AnySet α × Nat
  | [], c => (s, c)
  | v :: vs, c => let r := add s v; addLoop r.1 vs (if r.2 then c + 1 else c)

/-- the callback of `RemoveSet`: `if s.Remove(value) { removed++ }` -/
def removeLoop (s : AnySet α) : List α → Nat → AnySet α × Nat
  | [], c => (s, c)
  | v :: vs, c => let r := remove s v; removeLoop r.1 vs (if r.2 then c + 1 else c)

/-- the callback of `Intersect` (`keep = true`: `if other.Has(v) { result.Add(v) }`) and of
`SetDiff` / the second pass of `SymDiff` (`keep = false`: `if !other.Has(v) { result.Add(v) }`);
`q` is the set that is queried, `res` the result under construction -/
def filterLoop (keep : Bool) (q res : AnySet α) : List α → AnySet α × AnySet α
  | [] => (q, res)
  | v :: vs =>
    let h := has q v
    let res' := if h.2 == keep then (add res v).1 else res
    filterLoop keep h.1 res' vs

/-- `Clone`.  maps: `clone := make(Set[T]); for v := range s { clone.Add(v) }`;
sync2: `var clone Set[T]; clone.AddSet(s)`.  Returns (receiver afterwards, clone). -/
def clone (s : AnySet α) : AnySet α × AnySet α :=
  let r := rangeAll s
  (r.1, (addLoop (emptyLike s) r.2 0).1)

/-- `NewSetFromSlice` -/
def fromSlice (kind : Nat) (slice : List α) : AnySet α := (addLoop (AnySet.emptyOfKind kind) slice 0).1

/-- receiver and argument of a binary method; `arg = none`: the argument is the receiver itself -/
structure Two (α : Type) where
  recv : AnySet α
  arg : Option (AnySet α)

/-- the argument object -/
def Two.argSet (t : Two α) : AnySet α := t.arg.getD t.recv

/-- write back the argument object -/
def Two.putArg (t : Two α) (a : AnySet α) : Two α :=
  match t.arg with
  | some _ => { t with arg := some a }
  | none => { t with recv := a }

/-- write back the receiver object -/
def Two.putRecv (t : Two α) (a : AnySet α) : Two α := { t with recv := a }

/-- `s.AddSet(set)`: `set.Range(func(value) bool { if s.Add(value) { added++ }; return true })` -/
def addSet (t : Two α) : Two α × Nat :=
  let r := rangeAll t.argSet
  let t1 := t.putArg r.1
  let a := addLoop t1.recv r.2 0
  (t1.putRecv a.1, a.2)

/-- `s.RemoveSet(set)` -/
def removeSet (t : Two α) : Two α × Nat :=
  let r := rangeAll t.argSet
  let t1 := t.putArg r.1
  let a := removeLoop t1.recv r.2 0
  (t1.putRecv a.1, a.2)

/-- `s.Intersect(other)` / `s.SetDiff(other)`: iterate the receiver, query `other`, add to a fresh result -/
def filterOp (keep : Bool) (t : Two α) : Two α × AnySet α :=
  let r := rangeAll t.recv
  let t1 := t.putRecv r.1
  let f := filterLoop keep t1.argSet (emptyLike t.recv) r.2
  (t1.putArg f.1, f.2)

def intersect (t : Two α) : Two α × AnySet α := filterOp true t
def setDiff (t : Two α) : Two α × AnySet α := filterOp false t

/-- `s.Union(other)`: `result := s.Clone(); result.AddSet(other); return result` -/
def union (t : Two α) : Two α × AnySet α :=
  let c := clone t.recv
  let t1 := t.putRecv c.1
  let r := rangeAll t1.argSet            -- result.AddSet(other) = other.Range(…)
  let t2 := t1.putArg r.1
  (t2, (addLoop c.2 r.2 0).1)

/-- `s.SymDiff(other)`: `result := s.SetDiff(other); other.Range(func(v) bool { if !s.Has(v) { result.Add(v) }; return true })` -/
def symDiff (t : Two α) : Two α × AnySet α :=
  let d := setDiff t
  let t1 := d.1
  let r := rangeAll t1.argSet
  let t2 := t1.putArg r.1
  let f := filterLoop false t2.recv d.2 r.2
  (t2.putRecv f.1, f.2)

/-- the inner loop of `CartesianProduct` for one `valueA`, folded over the outer values:
`b.Range(func(valueB) bool { result = append(result, Product{valueA, valueB}); return true })` -/
def prodLoop (b : AnySet α) : List α → List (α × α) → AnySet α × List (α × α)
  | [], acc => (b, acc)
  | va :: rest, acc =>
    let r := rangeAll b
    prodLoop r.1 rest (acc ++ r.2.map (fun vb => (va, vb)))

/-- `sets.CartesianProduct(a, b)` (`t.recv` = a, `t.argSet` = b) -/
def product (t : Two α) : Two α × List (α × α) :=
  let r := rangeAll t.recv
  let t1 := t.putRecv r.1
  let p := prodLoop t1.argSet r.2 []
  (t1.putArg p.1, p.2)

/-- `NewSetFromKeys(m)` / `NewSetFromValues(m)` for the Go map built from `pairs` (later pairs overwrite),
iterated in association-list order -/
def goMapOf {β : Type} (pairs : List (α × β)) : List (α × β) := pairs.foldl (fun m p => ainsert p.1 p.2 m) []

def fromKeys {β : Type} (kind : Nat) (pairs : List (α × β)) : AnySet α :=
  fromSlice kind ((goMapOf pairs).map Prod.fst)

def fromValues {κ : Type} [DecidableEq κ] (kind : Nat) (pairs : List (κ × α)) : AnySet α :=
  fromSlice kind ((goMapOf pairs).map Prod.snd)

/-! ### programs over handles (all construction histories) -/

/-- a heap of sets; a handle is an index -/
abbrev World (α : Type) := List (AnySet α)

inductive WOp (α : Type) where
  | new (kind : Nat)
  | fromSlice (kind : Nat) (l : List α)
  | add (h : Nat) (v : α)
  | remove (h : Nat) (v : α)
  | has (h : Nat) (v : α)
  | range (h : Nat) (n : Int)
  | len (h : Nat)
  | clone (h : Nat)
  | addSet (h g : Nat)
  | removeSet (h g : Nat)
  | union (h g : Nat)
  | intersect (h g : Nat)
  | setDiff (h g : Nat)
  | symDiff (h g : Nat)
  | product (h g : Nat)

/-- receiver `h`, argument `g` (the receiver itself when `g = h`) -/
def World.two (w : World α) (h g : Nat) : Option (Two α) :=
  match w[h]?, w[g]? with
  | some a, some b => some { recv := a, arg := if h = g then none else some b }
  | _, _ => none

/-- write both operands back -/
def World.putTwo (w : World α) (h g : Nat) (t : Two α) : World α :=
  let w1 := w.set h t.recv
  match t.arg with
  | some b => w1.set g b
  | none => w1

/-- unary method on handle `h` -/
def World.un (w : World α) (h : Nat) (f : AnySet α → AnySet α) : World α :=
  match w[h]? with
  | some a => w.set h (f a)
  | none => w

/-- one program step (operations on unknown handles do nothing); new sets get the next handle -/
def wstep (w : World α) : WOp α → World α
  | .new kind => w ++ [AnySet.emptyOfKind kind]
  | .fromSlice kind l => w ++ [fromSlice kind l]
  | .add h v => w.un h (fun a => (add a v).1)
  | .remove h v => w.un h (fun a => (remove a v).1)
  | .has h v => w.un h (fun a => (has a v).1)
  | .range h n => w.un h (fun a => (rangeN a n).1)
  | .len h => w.un h (fun a => (len a).1)
  | .clone h =>
    match w[h]? with
    | some a => (w.set h (clone a).1) ++ [(clone a).2]
    | none => w
  | .addSet h g => match w.two h g with | some t => w.putTwo h g (addSet t).1 | none => w
  | .removeSet h g => match w.two h g with | some t => w.putTwo h g (removeSet t).1 | none => w
  | .union h g => match w.two h g with | some t => w.putTwo h g (union t).1 ++ [(union t).2] | none => w
  | .intersect h g => match w.two h g with | some t => w.putTwo h g (intersect t).1 ++ [(intersect t).2] | none => w
  | .setDiff h g => match w.two h g with | some t => w.putTwo h g (setDiff t).1 ++ [(setDiff t).2] | none => w
  | .symDiff h g => match w.two h g with | some t => w.putTwo h g (symDiff t).1 ++ [(symDiff t).2] | none => w
  | .product h g => match w.two h g with | some t => w.putTwo h g (product t).1 | none => w

def wrun (ops : List (WOp α)) : World α := ops.foldl wstep []

end TypVerif.Model.Sets
