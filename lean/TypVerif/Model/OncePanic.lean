import TypVerif.Model.Once
/-
Model of sync2.Once1 / Once2 / Once3 on top of Go's sync.Once, WITH PANICKING FUNCTIONS (C17, panic case).

    func (o *OnceN) Do(f) (R1..Rn) {            func (o *Once) doSlow(f func()) {
        o.once.Do(func() {                          o.m.Lock()
            o.R1, .., o.Rn = f()   // (*)           defer o.m.Unlock()            // runs second
        })                                          if o.done.Load() == 0 {
        return o.R1, .., o.Rn                           defer o.done.Store(1)     // runs first
    }                                                   f()
                                                    }
                                                }
If `f()` at (*) panics, the assignment at (*) is not executed (the result fields keep their zero values);
the panic unwinds through the closure into `doSlow`, whose deferred calls run in LIFO order: first
`o.done.Store(1)`, then `o.m.Unlock()`; then the panic leaves `Do`: that call of `Do` does not return
(no `ret` event), the goroutine is gone as far as this object is concerned.

The system is `Model.Once`'s transition system (its `State`, its `stepT`, unchanged) wrapped with
  * one more control/ghost component, `panicked`: the goroutines whose function panicked (newest first);
  * one more step for a goroutine at `inF` (its function runs), as an alternative to `fend t (res t)`:
        inF  --fpanic t-->  store            fields untouched, NO `assign` step,
                                             ghost `fres := some fields` (the invocation has ended; what the
                                             fields hold now is what every `Do` will ever read),
                                             `panicked := t :: panicked`
    after which the goroutine takes `Model.Once`'s own steps `store` (deferred `done.Store(1)`) and `unlock`
    (deferred `m.Unlock()`), in the order of the Go source;
  * the location `read` of a goroutine in `panicked` is NOT the statement `return o.R1..Rn` but "the panic has
    left `Do`": such a goroutine has no step (`unwound`), in particular no `ret`.
Every goroutine's function may panic or return (nondeterministic choice at `inF`), for all `res`.
-/
namespace TypVerif.Model.OncePanic
open TypVerif

inductive Event where
  | call (t : Nat)
  | fstart (t : Nat)
  | fend (t : Nat) (r : List Int)
  | fpanic (t : Nat)
  | ret (t : Nat) (r : List Int)
  deriving DecidableEq, Repr

def Event.isFstart : Event → Bool
  | .fstart _ => true
  | _ => false

/-- the invocation ends: `f` returns or panics -/
def Event.isEnd : Event → Bool
  | .fend _ _ | .fpanic _ => true
  | _ => false

/-- the events the panic-free model already has -/
def Event.ofBase : Once.Event → Event
  | .call t => .call t
  | .fstart t => .fstart t
  | .fend t r => .fend t r
  | .ret t r => .ret t r

/-- the judge's translation (`Drv/C17.lean`): `fpanic t` is read as `fend t [0,…,0]`, nothing else changes -/
def glue (arity : Nat) : Event → Once.Event
  | .call t => .call t
  | .fstart t => .fstart t
  | .fend t r => .fend t r
  | .fpanic t => .fend t (List.replicate arity 0)
  | .ret t r => .ret t r

structure State where
  base : Once.State
  panicked : List Nat
  deriving DecidableEq, Repr

/-- the panic of goroutine `t` has left `Do` (deferred calls done); `t` takes no further step -/
def State.unwound (s : State) (t : Nat) : Bool := decide (t ∈ s.panicked) && decide (s.base.pc t = .read)

/-- the invocation has ended (by returning or by panicking) -/
def State.ended (s : State) : Bool := s.base.fres.isSome

def liftStep (pan : List Nat) (p : Option Once.Event × Once.State) : Option Event × State :=
  (p.1.map Event.ofBase, { base := p.2, panicked := pan })

/-- the steps of goroutine `t`: those of `Model.Once` (unless the goroutine is gone), plus `fpanic t` at `inF` -/
def stepT (res : Nat → List Int) (s : State) (t : Nat) : List (Option Event × State) :=
  if s.unwound t then [] else
    (Once.stepT res s.base t).map (liftStep s.panicked) ++
    (if s.base.pc t = .inF then
      [(some (.fpanic t),
        { base := { s.base.setPc t .store with fres := some s.base.fields }, panicked := t :: s.panicked })]
     else [])

def succ (res : Nat → List Int) (s : State) : List (Option Event × State) :=
  (List.range s.base.pcs.length).flatMap (stepT res s)

def init (n arity : Nat) : State := { base := Once.init n arity, panicked := [] }

/-- `n` goroutines (any number), each calling `Do(f_t)` once; `f_t` returns `res t` or panics. -/
abbrev sys (n arity : Nat) (res : Nat → List Int) : Conc.Sys :=
  { State := State, Event := Event, init := init n arity, succ := succ res }

instance (n arity : Nat) (res : Nat → List Int) : DecidableEq (sys n arity res).State :=
  inferInstanceAs (DecidableEq State)
instance (n arity : Nat) (res : Nat → List Int) : DecidableEq (sys n arity res).Event :=
  inferInstanceAs (DecidableEq Event)

end TypVerif.Model.OncePanic
