import TypVerif.Model.AtomicObj
/-
Model of sync2.AtomicValue[T] (sync2/atomicvalue.go) for T = int, on top of sync/atomic.Value by contract.

atomic.Value (contract): the content is `Option Int` (`none` = nothing stored yet, `Load` returns nil);
`Load`, `Store`, `Swap`, `CompareAndSwap` are one atomic step each; `CompareAndSwap(old, new)` on an empty
Value with a non-nil `old` returns false (sync/atomic/value.go: "if old != nil { return false }"), and an
`int` boxed in an interface is never nil.

The wrapper adds the nil → zero mapping (`if x == nil { return typ.Zero[T]() }; return x.(T)`) after
`Load` and `Swap`; this is goroutine-local, so every wrapper method is one atomic step on the shared
state: an instance of `AtomicObj`.
-/
namespace TypVerif.Model.AtomicValue
open TypVerif.Model

inductive Op where
  | load
  | store (v : Int)
  | swap (v : Int)
  | cas (old new : Int)
  deriving DecidableEq, Repr

inductive Res where
  | val (v : Int)
  | done
  | bool (b : Bool)
  deriving DecidableEq, Repr

/-! atomic.Value by contract -/
def atomLoad (a : Option Int) : Option Int := a
def atomStore (_a : Option Int) (v : Int) : Option Int := some v
/-- (new content, previous content or nil) -/
def atomSwap (a : Option Int) (v : Int) : Option Int × Option Int := (some v, a)
/-- (new content, swapped) -/
def atomCAS (a : Option Int) (old new : Int) : Option Int × Bool :=
  if a = some old then (some new, true) else (a, false)

/-- `if x == nil { return typ.Zero[T]() }; return x.(T)` -/
def unbox : Option Int → Int
  | none => 0
  | some v => v

/-- the four wrapper methods, each one atomic step -/
def apply (a : Option Int) : Op → List (Option Int × Res)
  | .load => [(a, .val (unbox (atomLoad a)))]
  | .store v => [(atomStore a v, .done)]
  | .swap v => [((atomSwap a v).1, .val (unbox (atomSwap a v).2))]
  | .cas old new => [((atomCAS a old new).1, .bool (atomCAS a old new).2)]

def spec : AtomicObj.Spec := { σ := Option Int, Op := Op, Res := Res, init := none, apply := apply }

instance : DecidableEq spec.Op := inferInstanceAs (DecidableEq Op)
instance : DecidableEq spec.Res := inferInstanceAs (DecidableEq Res)
instance : DecidableEq spec.σ := inferInstanceAs (DecidableEq (Option Int))

end TypVerif.Model.AtomicValue
