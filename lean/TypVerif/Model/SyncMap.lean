import TypVerif.Spec.PMap
/-
Sequential model of `sync2.Map[K,V]` (`/repo/sync2/map.go`, a generic fork of Go 1.17 `sync.Map`):
every exported call is executed atomically, by one goroutine.

* `entry[V]` objects live in a heap `entries : List (P V)`, an entry is identified by its index
  (`EId`; pointer identity matters: `read.m` and `dirty` share `*entry` pointers).  `entry.p` is
  `P.nil` (Go `nil`), `P.expunged` (the sentinel pointer) or `P.val v` (pointer to a value).
  `newEntry` appends to the heap.  Nothing is ever freed (unreachable entries stay in the heap).
* a Go `map[K]*entry` is an association list without duplicate keys (`alookup/ainsert/aerase`);
  a nil map reads as the empty map (`dirty = none`, `len(nil) = 0`, `delete(nil,k)` is a no-op,
  `readOnly{m: nil}` has no keys).  *Assigning* into a nil map panics in Go: the model records this in
  `fault` (never reset) and `SeqInv` proves it unreachable.
* `m.read` is the pair `(read, amended)`.  The mutex is not modelled (single goroutine), so the
  re-read of `m.read` under the lock returns what the first read returned; the branch structure of the
  slow paths is kept all the same.
* CAS loops succeed at their first iteration (nobody else runs); the case analysis on the loaded
  pointer (`nil` / `expunged` / value) is kept.
* `typ.Zero[V]()` is `default`.
* `Range`: the iteration order of `for k, e := range read.m` is a parameter (`order : List K`, the
  keys in visiting order; a key that is not in `read.m` is not visited).  `range` without an order
  visits the association list in list order.  The callback answers `false` on its `n`-th call.
-/
namespace TypVerif.Model.SyncMap
open TypVerif.Spec.PMap (Op Out)

/-! ### association lists standing for Go maps -/
section Assoc
variable {K β : Type} [DecidableEq K]

/-- `m[k]` (comma-ok form) -/
def alookup (k : K) : List (K × β) → Option β
  | [] => none
  | (k', b) :: rest => if k = k' then some b else alookup k rest

/-- `m[k] = b` -/
def ainsert (k : K) (b : β) : List (K × β) → List (K × β)
  | [] => [(k, b)]
  | (k', b') :: rest => if k = k' then (k, b) :: rest else (k', b') :: ainsert k b rest

/-- `delete(m, k)` -/
def aerase (k : K) (l : List (K × β)) : List (K × β) := l.filter (fun p => !decide (p.1 = k))

def akeys (l : List (K × β)) : List K := l.map Prod.fst

end Assoc

/-- the three states of `entry.p` -/
inductive P (V : Type) where
  | nil
  | expunged
  | val (v : V)
  deriving Repr, DecidableEq

abbrev EId := Nat

structure State (K V : Type) where
  entries : List (P V) := []
  read : List (K × EId) := []
  amended : Bool := false
  dirty : Option (List (K × EId)) := none
  misses : Nat := 0
  /-- set when the code would panic with "assignment to entry in nil map" -/
  fault : Bool := false
  deriving Repr

variable {K V : Type} [DecidableEq K]

/-- the zero `Map` -/
def State.init : State K V := {}

/-- `atomic.LoadPointer(&e.p)` -/
def getP (s : State K V) (e : EId) : P V := s.entries.getD e .nil

/-- `atomic.StorePointer(&e.p, p)` / a successful `CompareAndSwapPointer` -/
def setP (s : State K V) (e : EId) (p : P V) : State K V := { s with entries := s.entries.set e p }

/-- `m.dirty` read as a map (nil map = empty) -/
def dirtyMap (s : State K V) : List (K × EId) := s.dirty.getD []

/-- `len(m.dirty)` -/
def dirtyLen (s : State K V) : Nat := (dirtyMap s).length

/-- `m.dirty[k] = e` -/
def setDirty (s : State K V) (k : K) (e : EId) : State K V :=
  match s.dirty with
  | some d => { s with dirty := some (ainsert k e d) }
  | none => { s with fault := true }

/-- `delete(m.dirty, k)` -/
def delDirty (s : State K V) (k : K) : State K V := { s with dirty := s.dirty.map (aerase k) }

/-- `newEntry(v)`: allocate -/
def newEntry (s : State K V) (v : V) : State K V × EId :=
  ({ s with entries := s.entries ++ [.val v] }, s.entries.length)

/-- `func (e *entry) load() (value, ok)` -/
def loadEntry (s : State K V) (e : EId) : Option V :=
  match getP s e with
  | .val v => some v
  | _ => none

/-- `m.read.Store(readOnly{m: m.dirty}); m.dirty = nil; m.misses = 0` -/
def promote (s : State K V) : State K V :=
  { s with read := dirtyMap s, amended := false, dirty := none, misses := 0 }

/-- `func (m *Map) missLocked()` -/
def missLocked (s : State K V) : State K V :=
  let s1 := { s with misses := s.misses + 1 }
  if s1.misses < dirtyLen s1 then s1 else promote s1

/-- `func (e *entry) tryExpungeLocked() (isExpunged bool)` -/
def tryExpungeLocked (s : State K V) (e : EId) : State K V × Bool :=
  match getP s e with
  | .nil => (setP s e .expunged, true)
  | .expunged => (s, true)
  | .val _ => (s, false)

/-- the loop of `dirtyLocked`: `for k, e := range read.m { if !e.tryExpungeLocked() { m.dirty[k] = e } }` -/
def dirtyLoop : State K V → List (K × EId) → State K V
  | s, [] => s
  | s, (k, e) :: rest =>
    let r := tryExpungeLocked s e
    if r.2 then dirtyLoop r.1 rest else dirtyLoop (setDirty r.1 k e) rest

/-- `func (m *Map) dirtyLocked()` -/
def dirtyLocked (s : State K V) : State K V :=
  match s.dirty with
  | some _ => s
  | none => dirtyLoop { s with dirty := some [] } s.read

/-- `func (e *entry) tryStore(i *V) bool` -/
def tryStore (s : State K V) (e : EId) (v : V) : State K V × Bool :=
  match getP s e with
  | .expunged => (s, false)
  | _ => (setP s e (.val v), true)

/-- `func (e *entry) unexpungeLocked() (wasExpunged bool)` = CAS(expunged → nil) -/
def unexpungeLocked (s : State K V) (e : EId) : State K V × Bool :=
  match getP s e with
  | .expunged => (setP s e .nil, true)
  | _ => (s, false)

/-- `func (e *entry) storeLocked(i *V)` -/
def storeLocked (s : State K V) (e : EId) (v : V) : State K V := setP s e (.val v)

/-- `func (e *entry) tryLoadOrStore(i V) (actual V, loaded, ok bool)`; `none` is `ok == false` -/
def tryLoadOrStore (s : State K V) (e : EId) (v : V) : State K V × Option (V × Bool) :=
  match getP s e with
  | .expunged => (s, none)
  | .val w => (s, some (w, true))
  | .nil => (setP s e (.val v), some (v, false))

/-- `func (e *entry) delete() (value V, ok bool)` -/
def entryDelete (s : State K V) (e : EId) : State K V × Option V :=
  match getP s e with
  | .val v => (setP s e .nil, some v)
  | _ => (s, none)

/-- `func (m *Map) Load(key K) (value V, ok bool)` -/
def load (s : State K V) (k : K) : State K V × Option V :=
  match alookup k s.read with
  | some e => (s, loadEntry s e)
  | none =>
    if s.amended then
      -- m.mu.Lock(); the re-read gives the same `read`
      let r := alookup k (dirtyMap s)
      let s1 := missLocked s
      match r with
      | some e => (s1, loadEntry s1 e)
      | none => (s1, none)
    else (s, none)

/-- the tail of `Store`/`LoadOrStore` for a key that is in neither map:
`if !read.amended { m.dirtyLocked(); m.read.Store(readOnly{m: read.m, amended: true}) }; m.dirty[key] = newEntry(value)` -/
def storeNew (s : State K V) (k : K) (v : V) : State K V :=
  let s1 := if !s.amended then { dirtyLocked s with amended := true } else s
  let r := newEntry s1 v
  setDirty r.1 k r.2

/-- `func (m *Map) Store(key K, value V)` -/
def store (s : State K V) (k : K) (v : V) : State K V :=
  -- fast path: `if e, ok := read.m[key]; ok && e.tryStore(&value) { return }`
  let fast : Option (State K V) :=
    match alookup k s.read with
    | some e => let r := tryStore s e v; if r.2 then some r.1 else none
    | none => none
  match fast with
  | some s1 => s1
  | none =>
    -- m.mu.Lock()
    match alookup k s.read with
    | some e =>
      let r := unexpungeLocked s e
      let s2 := if r.2 then setDirty r.1 k e else r.1
      storeLocked s2 e v
    | none =>
      match alookup k (dirtyMap s) with
      | some e => storeLocked s e v
      | none => storeNew s k v

/-- `func (m *Map) LoadOrStore(key K, value V) (actual V, loaded bool)` -/
def loadOrStore [Inhabited V] (s : State K V) (k : K) (v : V) : State K V × (V × Bool) :=
  let fast : Option (State K V × (V × Bool)) :=
    match alookup k s.read with
    | some e =>
      let r := tryLoadOrStore s e v
      match r.2 with
      | some res => some (r.1, res)
      | none => none
    | none => none
  match fast with
  | some res => res
  | none =>
    -- m.mu.Lock()
    match alookup k s.read with
    | some e =>
      let r := unexpungeLocked s e
      let s2 := if r.2 then setDirty r.1 k e else r.1
      let r3 := tryLoadOrStore s2 e v         -- `actual, loaded, _ = e.tryLoadOrStore(value)`
      (r3.1, r3.2.getD (default, false))
    | none =>
      match alookup k (dirtyMap s) with
      | some e =>
        let r3 := tryLoadOrStore s e v
        (missLocked r3.1, r3.2.getD (default, false))
      | none => (storeNew s k v, (v, false))

/-- `func (m *Map) LoadAndDelete(key K) (value V, loaded bool)` -/
def loadAndDelete (s : State K V) (k : K) : State K V × Option V :=
  match alookup k s.read with
  | some e => entryDelete s e
  | none =>
    if s.amended then
      let r := alookup k (dirtyMap s)
      let s1 := delDirty s k
      let s2 := missLocked s1
      match r with
      | some e => entryDelete s2 e
      | none => (s2, none)
    else (s, none)

/-- `func (m *Map) Delete(key K)` -/
def delete (s : State K V) (k : K) : State K V := (loadAndDelete s k).1

/-- the head of `Range`: `if read.amended { … read = readOnly{m: m.dirty}; m.read.Store(read); m.dirty = nil; m.misses = 0 }` -/
def rangePromote (s : State K V) : State K V := if s.amended then promote s else s

/-- the loop of `Range` over the keys `order`; `left` = number of callbacks until the callback
answers false (0: it never does) -/
def rangeLoop (s : State K V) : List K → Nat → List (K × V)
  | [], _ => []
  | k :: rest, left =>
    match alookup k s.read with
    | none => rangeLoop s rest left
    | some e =>
      match loadEntry s e with
      | none => rangeLoop s rest left                      -- `if !ok { continue }`
      | some v =>
        if left = 1 then [(k, v)]                          -- `if !f(k, v) { break }`
        else (k, v) :: rangeLoop s rest (left - 1)

/-- `func (m *Map) Range(f)`, visiting `read.m` in the order `order`, `f` false on its n-th call -/
def rangeOrd (s : State K V) (order : List K) (n : Int) : State K V × List (K × V) :=
  let s1 := rangePromote s
  (s1, rangeLoop s1 order n.toNat)

/-- `Range` visiting the association list in list order -/
def range (s : State K V) (n : Int) : State K V × List (K × V) :=
  rangeOrd s (akeys (rangePromote s).read) n

/-- one call -/
def step [Inhabited V] (s : State K V) : Op K V → State K V × Out K V
  | .load k => let r := load s k; (r.1, .val r.2)
  | .store k v => (store s k v, .unit)
  | .loadOrStore k v => let r := loadOrStore s k v; (r.1, .pair r.2.1 r.2.2)
  | .loadAndDelete k => let r := loadAndDelete s k; (r.1, .val r.2)
  | .delete k => (delete s k, .unit)
  | .range order n => let r := rangeOrd s order n; (r.1, .pairs r.2)

def runFrom [Inhabited V] (s : State K V) : List (Op K V) → State K V × List (Out K V)
  | [] => (s, [])
  | op :: ops =>
    let r := step s op
    let rest := runFrom r.1 ops
    (rest.1, r.2 :: rest.2)

def run [Inhabited V] (ops : List (Op K V)) : State K V × List (Out K V) := runFrom State.init ops

/-! ### layout dump (level-B observation, `VerifLayout()`) -/

def isExpunged : P V → Bool
  | .expunged => true
  | _ => false

def isNil : P V → Bool
  | .nil => true
  | _ => false

/-- `[len(read.m), amended, len(dirty) or -1 when nil, misses, #expunged, #nil]`, the last two counted
over the entries of `read.m` -/
def layout (s : State K V) : List Int :=
  [ (s.read.length : Int),
    if s.amended then 1 else 0,
    match s.dirty with | some d => (d.length : Int) | none => -1,
    (s.misses : Int),
    ((s.read.filter (fun p => isExpunged (getP s p.2))).length : Int),
    ((s.read.filter (fun p => isNil (getP s p.2))).length : Int) ]

end TypVerif.Model.SyncMap
