import TypVerif.Model.GoSearch
/-
Model of `/repo/slices/sorted.go` (`slices.Sorted[T]`), current source (with the `Remove` guard
`if index == -1 { return -1 }`).

Content is a `List α` (Go `[]T`); `less` is a field, as in the Go struct.  The backing-array aspects of
`slices.Insert` / `slices.Remove` (spare capacity, aliasing) are C12's business; here they are the list splice
(`insertAt` / `removeAt`) that C12 proves them to be on the live window.

Library contract assumed for `sort.SliceStable(slice, func(i, j) bool { return less(slice[i], slice[j]) })`:
the slice afterwards is a permutation of its former contents, sorted with respect to `less` (no later element
is `less` than an earlier one) and stable (elements neither of which is `less` than the other keep their relative
order) — provided `less` is a strict weak order.  It is modelled by the reference implementation
`List.mergeSort` with the comparator `le a b := !less b a` ("take the left element unless the right one is strictly
smaller"), which is a stable sort with respect to `less`; core's `pairwise_mergeSort`, `mergeSort_perm`
and `sublist_mergeSort` are exactly that contract.  For a `less` that is not a strict weak order Go documents nothing;
the model still returns a permutation (`mergeSort_perm` needs no hypothesis).

Panics: `Get` / `RemoveAt` raise `panic(fmt.Sprintf("sortedslice: index out of range …"))`, class `custom`;
they are `Except.error "custom"`.  The nil-receiver / nil-less panics (`Add` on a nil `*Sorted`, `search` with a nil
`less`) are outside the model: the harness always goes through `NewSorted`.
-/
namespace TypVerif.Model.Sorted
open TypVerif.Model

structure Sorted (α : Type) where
  slice : List α
  less : α → α → Bool

/-- reference implementation of `sort.SliceStable` w.r.t. `less` (see header) -/
def stableSort (less : α → α → Bool) (l : List α) : List α :=
  l.mergeSort (fun a b => !less b a)

/-- The world of a `new` line: the caller's slice and the `Sorted` built from it. -/
structure World (α : Type) where
  input : List α
  s : Sorted α

/-- `NewSorted(values, less)`:
    slice := make([]E, len(values)); copy(slice, values)      -- a fresh list with the same elements
    sort.SliceStable(slice, …)                                -- sorts the copy
    return Sorted[E]{slice, less}
`values` itself is never written (that the copy does not alias `values` is checked by the judge's `input` line). -/
def newSorted (values : List α) (less : α → α → Bool) : World α :=
  let slice := values                       -- make + copy
  let slice := stableSort less slice        -- sort.SliceStable
  { input := values, s := { slice := slice, less := less } }

/-- `NewSortedOrdered(values...)`: `return NewSorted(values, typ.Less[T])` with `typ.Less(a, b) = a < b` -/
def newSortedOrdered [LT α] [DecidableLT α] (values : List α) : World α :=
  newSorted values (fun a b => decide (a < b))

/-- `s.Len()` -/
def Sorted.len (s : Sorted α) : Int := s.slice.length

/-- the predicate handed to `sort.Search`: `!s.less(s.slice[i], value)`; only evaluated for `i < len`
(`GoSearch.search_congr`), the `none` branch is Go's convention "f(n) == true". -/
def Sorted.pred (s : Sorted α) (value : α) (i : Nat) : Bool :=
  match s.slice[i]? with
  | some x => !s.less x value
  | none => true

/-- `s.search(value)` -/
def Sorted.search (s : Sorted α) (value : α) : Nat :=
  GoSearch.search s.slice.length (s.pred value)

/-- `slices.Insert(&slice, index, value)` on the content, for `index ≤ len` -/
def insertAt (l : List α) (i : Nat) (v : α) : List α := l.take i ++ v :: l.drop i

/-- `slices.Remove(&slice, index)` on the content, for `index < len` -/
def removeAt (l : List α) (i : Nat) : List α := l.take i ++ l.drop (i + 1)

/-- `s.Add(value)`: `index := s.search(value); Insert(&s.slice, index, value); return index`.
`index ≤ len` always (`GoSearch.search_le`), so `Insert` cannot go out of bounds. -/
def Sorted.add (s : Sorted α) (value : α) : Sorted α × Int :=
  let index := s.search value
  ({ s with slice := insertAt s.slice index value }, (index : Int))

/-- `s.Index(value)`: `index := s.search(value); if index < 0 || index >= s.Len() || s.slice[index] != value { return -1 }; return index`
(`index < 0` is impossible for the natural number returned by the search model). -/
def Sorted.index [DecidableEq α] (s : Sorted α) (value : α) : Int :=
  let index := s.search value
  if h : index < s.slice.length then
    if s.slice[index] ≠ value then -1 else (index : Int)
  else -1

/-- `s.Contains(value)` -/
def Sorted.contains [DecidableEq α] (s : Sorted α) (value : α) : Bool :=
  s.index value != -1

/-- `s.Remove(value)`: `index := s.Index(value); if index == -1 { return -1 }; Remove(&s.slice, index); return index` -/
def Sorted.remove [DecidableEq α] (s : Sorted α) (value : α) : Sorted α × Int :=
  let index := s.index value
  if index == -1 then (s, -1)
  else ({ s with slice := removeAt s.slice index.toNat }, index)

/-- `s.RemoveAt(index)`: custom panic outside `[0, Len)`, else `Remove(&s.slice, index)` -/
def Sorted.removeAtIdx (s : Sorted α) (index : Int) : Except String (Sorted α) :=
  if index < 0 ∨ index ≥ s.len then .error "custom"
  else .ok { s with slice := removeAt s.slice index.toNat }

/-- `s.Get(index)`: custom panic outside `[0, Len)`, else `s.slice[index]` -/
def Sorted.get (s : Sorted α) (index : Int) : Except String α :=
  if h : index < 0 ∨ index ≥ s.len then .error "custom"
  else .ok (s.slice[index.toNat]'(by simp only [Sorted.len] at h; omega))

/-! ### operation sequences -/

inductive Op (α : Type) where
  | add (v : α)
  | remove (v : α)
  | removeAt (i : Int)
  | get (i : Int)
  | index (v : α)
  | contains (v : α)
  | len
  deriving Repr

inductive Res (α : Type) where
  | int (i : Int)
  | ok
  | val (a : α)
  | bool (b : Bool)
  | panic (cls : String)
  deriving Repr, DecidableEq

/-- one operation; a panicking operation leaves the state as it is -/
def step [DecidableEq α] (s : Sorted α) : Op α → Sorted α × Res α
  | .add v => let (s', i) := s.add v; (s', .int i)
  | .remove v => let (s', i) := s.remove v; (s', .int i)
  | .removeAt i =>
    match s.removeAtIdx i with
    | .ok s' => (s', .ok)
    | .error c => (s, .panic c)
  | .get i =>
    match s.get i with
    | .ok a => (s, .val a)
    | .error c => (s, .panic c)
  | .index v => (s, .int (s.index v))
  | .contains v => (s, .bool (s.contains v))
  | .len => (s, .int s.len)

/-- state after a sequence of operations -/
def runFrom [DecidableEq α] (s : Sorted α) : List (Op α) → Sorted α
  | [] => s
  | op :: ops => runFrom (step s op).1 ops

/-- `NewSorted(init, less)` followed by `ops` -/
def run [DecidableEq α] (less : α → α → Bool) (init : List α) (ops : List (Op α)) : World α :=
  let w := newSorted init less
  { w with s := runFrom w.s ops }

end TypVerif.Model.Sorted
