/-
Model of `/repo/avl/avl.go` (AVL tree with cached heights), statement by statement.

Representation.  Go nodes are heap cells reached through exactly one parent pointer; every mutating
method returns the new subtree root and the caller stores it (`n.left = n.left.add(..)`), so ownership is
linear and an inductive tree is an exact picture of the heap (DESIGN §6 "Pointers").  A `nil` pointer is
`Node.nil`; `node l v h r` is a cell with fields `left value height right`.  `h` is the CACHED height field,
updated only where the Go code assigns `height`.

Call-site `nil` checks.  Go never calls a node method on a nil receiver: every call is guarded by
`if n.left == nil { n.left = &node{value} } else { n.left = n.left.add(..) }` and the like.  In the model the
guard is folded into the callee: `add x nil` *is* the `&node[T]{value: value}` branch (fresh cell: height 0,
no children), `remove x nil = (nil,false)`/`find x nil = none` are never reached with a nil argument from a
non-nil one because the guards `current.left != nil` / `current.right != nil` are modelled explicitly.

Nil dereference.  The only other places where the Go code dereferences a pointer that is not known to be
non-nil by a guard are the rotations (`newRoot := prevRoot.right; newRoot.left …`).  The rotations below
return their argument unchanged in that case; the panic-explicit variants `rotateLeftE … rebalanceE`
return `Except.error "panic:nilderef"` there, and `Lemmas.Avl.rebalanceE_eq` (= `C02.rebalance_no_panic`) shows
that `rebalance` never reaches that branch on a cell whose two subtrees have correct cached heights (`AVL`),
which is the case at every call in every reachable state (`C02.all_histories`): `rebalanceE n = .ok (rebalance n)`.
(With garbage cached heights, e.g. a nil right child next to a left child claiming height -5, Go would panic.)

`slice` allocates `make([]T, 0, n.count)`, which panics for a negative `count`; `Slice*E` make that explicit and
`C01.slices_no_panic` shows it unreachable (the plain `Slice*` are the results).

`popLeftMost` returns in Go `(child, leftMost *node)`; the caller overwrites `leftMost.left`, `.right`
and `.height` and never reads anything but `leftMost.value`, so the model returns the value.

Comparator-call counting: the `…C` variants return the number of `compare` calls next to the result
(`Lemmas.Avl.addC_fst` etc. show the result is the same as the plain function's).
-/
namespace TypVerif.Model.Avl

/-! integer kernels (DESIGN §4B: the constants and guards that the AST extraction regenerates and compares);
`Lemmas.Avl.hgt_kernel … rebalance_kernel` show that the model functions below are exactly these kernels applied
to the fields. -/

/-- height reported for a nil child by `leftHeight()` / `rightHeight()` -/
def nilHeightK : Int := -1
/-- `balance()`: 0 balanced, 1 right heavy, -1 left heavy -/
def balanceK (leftHeight rightHeight : Int) : Int :=
  if leftHeight - rightHeight > 1 then -1
  else if rightHeight - leftHeight > 1 then 1
  else 0
/-- `calcHeight()` -/
def calcHeightK (leftNil rightNil : Bool) (leftHeight rightHeight : Int) : Int :=
  if leftNil && rightNil then 0
  else if leftNil then 1 + rightHeight
  else if rightNil then 1 + leftHeight
  else 1 + max leftHeight rightHeight
/-- which branch `rebalance()` takes: 0 none, 1 rotateLeft, 2 rotateLeftRight, 3 rotateRight, 4 rotateRightLeft;
`rInner/rOuter` = `n.right.leftHeight()/rightHeight()`, `lInner/lOuter` = `n.left.rightHeight()/leftHeight()` -/
def rebalanceK (bal : Int) (rightNonNil : Bool) (rInner rOuter : Int) (leftNonNil : Bool) (lInner lOuter : Int) : Nat :=
  if bal = 1 then (if rightNonNil && decide (rInner > rOuter) then 2 else 1)
  else if bal = -1 then (if leftNonNil && decide (lInner > lOuter) then 4 else 3)
  else 0

inductive Node (α : Type) where
  | nil
  | node (l : Node α) (v : α) (h : Int) (r : Node α)
  deriving Repr, Inhabited, DecidableEq

variable {α : Type}

namespace Node

def isNil : Node α → Bool
  | nil => true
  | node .. => false

/-- `n.leftHeight()` / `n.rightHeight()` applied to the child pointer `c`:
`if c == nil { return -1 }; return c.height` -/
def hgt : Node α → Int
  | nil => -1
  | node _ _ h _ => h

/-- `n.calcHeight()` as a function of `n.left`, `n.right` (the four-case switch) -/
def calcHeight : Node α → Node α → Int
  | nil, nil => 0
  | nil, r@(node ..) => 1 + hgt r
  | l@(node ..), nil => 1 + hgt l
  | l@(node ..), r@(node ..) => 1 + max (hgt l) (hgt r)

/-- a cell whose height field has just been assigned `calcHeight()` -/
def mk (l : Node α) (v : α) (r : Node α) : Node α := node l v (calcHeight l r) r

/-- `&node[T]{value: value}` : zero height, nil children -/
def leaf (v : α) : Node α := node nil v 0 nil

/-- `if p != nil { p.height = p.calcHeight() }` -/
def refresh : Node α → Node α
  | nil => nil
  | node l v _ r => mk l v r

/-- balance factor codes: `balanceBalanced = 0`, `balanceRightHeavy = 1`, `balanceLeftHeavy = -1` -/
def balance : Node α → Int
  | nil => 0
  | node l _ _ r =>
    let leftHeight := hgt l
    let rightHeight := hgt r
    if leftHeight - rightHeight > 1 then -1
    else if rightHeight - leftHeight > 1 then 1
    else 0

/-- `rotateLeft`: `prevRoot := *n; newRoot := prevRoot.right; prevRoot.right = newRoot.left;
refresh prevRoot.right.height; prevRoot.height = calc; newRoot.left = &prevRoot; newRoot.height = calc`. -/
def rotateLeft : Node α → Node α
  | node l v _ (node rl rv _ rr) =>
    let rl' := refresh rl
    let prevRoot := mk l v rl'
    mk prevRoot rv rr
  | n => n   -- Go: nil dereference; shown unreachable from `rebalance` (see `rebalanceE_eq`)

/-- `rotateRight`, the mirror image -/
def rotateRight : Node α → Node α
  | node (node ll lv _ lr) v _ r =>
    let lr' := refresh lr
    let prevRoot := mk lr' v r
    mk ll lv prevRoot
  | n => n

/-- `n.right = n.right.rotateRight(); return n.rotateLeft()` (the Go name is rotateLeftRight) -/
def rotateLeftRight : Node α → Node α
  | node l v h r => rotateLeft (node l v h (rotateRight r))
  | nil => nil

/-- `n.left = n.left.rotateLeft(); return n.rotateRight()` -/
def rotateRightLeft : Node α → Node α
  | node l v h r => rotateRight (node (rotateLeft l) v h r)
  | nil => nil

/-- `n.rebalance()` with the guards of the Go code. -/
def rebalance (n : Node α) : Node α :=
  match n with
  | nil => nil
  | node l _ _ r =>
    if balance n = 1 then
      if !r.isNil && (match r with | node rl _ _ rr => decide (hgt rl > hgt rr) | nil => false) then
        rotateLeftRight n
      else rotateLeft n
    else if balance n = -1 then
      if !l.isNil && (match l with | node ll _ _ lr => decide (hgt lr > hgt ll) | nil => false) then
        rotateRightLeft n
      else rotateRight n
    else n

/-! panic-explicit variants (nil dereference made visible) -/

def rotateLeftE : Node α → Except String (Node α)
  | node l v _ (node rl rv _ rr) => .ok (mk (mk l v (refresh rl)) rv rr)
  | _ => .error "panic:nilderef"

def rotateRightE : Node α → Except String (Node α)
  | node (node ll lv _ lr) v _ r => .ok (mk ll lv (mk (refresh lr) v r))
  | _ => .error "panic:nilderef"

def rotateLeftRightE : Node α → Except String (Node α)
  | node l v h r => do let r' ← rotateRightE r; rotateLeftE (node l v h r')
  | nil => .error "panic:nilderef"

def rotateRightLeftE : Node α → Except String (Node α)
  | node l v h r => do let l' ← rotateLeftE l; rotateRightE (node l' v h r)
  | nil => .error "panic:nilderef"

def rebalanceE (n : Node α) : Except String (Node α) :=
  match n with
  | nil => .error "panic:nilderef"
  | node l _ _ r =>
    if balance n = 1 then
      if !r.isNil && (match r with | node rl _ _ rr => decide (hgt rl > hgt rr) | nil => false) then
        rotateLeftRightE n
      else rotateLeftE n
    else if balance n = -1 then
      if !l.isNil && (match l with | node ll _ _ lr => decide (hgt lr > hgt ll) | nil => false) then
        rotateRightLeftE n
      else rotateRightE n
    else .ok n

/-! walks: the callback is a state transformer (`walker func(value T)` mutating captured state) -/

def walkPreOrder {σ : Type} (f : σ → α → σ) : σ → Node α → σ
  | s, nil => s
  | s, node l v _ r =>
    let s := f s v
    let s := walkPreOrder f s l
    walkPreOrder f s r

def walkInOrder {σ : Type} (f : σ → α → σ) : σ → Node α → σ
  | s, nil => s
  | s, node l v _ r =>
    let s := walkInOrder f s l
    let s := f s v
    walkInOrder f s r

def walkPostOrder {σ : Type} (f : σ → α → σ) : σ → Node α → σ
  | s, nil => s
  | s, node l v _ r =>
    let s := walkPostOrder f s l
    let s := walkPostOrder f s r
    f s v

/-- the three traversals as lists (reference definitions; `Lemmas.Avl.slice*_eq` connect them to the walks) -/
def preorder : Node α → List α
  | nil => []
  | node l v _ r => v :: (preorder l ++ preorder r)

def inorder : Node α → List α
  | nil => []
  | node l v _ r => inorder l ++ v :: inorder r

def postorder : Node α → List α
  | nil => []
  | node l v _ r => postorder l ++ (postorder r ++ [v])

variable [DecidableEq α]

/-- `n.find(value, compare)`; the loop descends one level per iteration, so it is structural recursion.
Case order as in the `switch`: equal (`==`, not `compare`) → found; left non-nil and `compare < 0` → left;
right non-nil → right; default → nil. -/
def find (cmp : α → α → Int) (value : α) : Node α → Option (Node α)
  | nil => none
  | n@(node l v _ r) =>
    if v = value then some n
    else if !l.isNil && cmp value v < 0 then find cmp value l
    else if !r.isNil then find cmp value r
    else none

def contains (cmp : α → α → Int) (value : α) (n : Node α) : Bool := (find cmp value n).isSome

/-- `n.add(value, compare)`; `add _ _ nil` is the call-site branch `&node[T]{value: value}`. -/
def add (cmp : α → α → Int) (value : α) : Node α → Node α
  | nil => leaf value
  | node l v _ r =>
    if cmp value v < 0 then
      let l' := add cmp value l
      rebalance (mk l' v r)
    else
      let r' := add cmp value r
      rebalance (mk l v r')

/-- `n.popLeftMost()` on the cell with fields `l v r`; returns `(child, leftMost.value)`. -/
def popLeftMost : Node α → α → Node α → Node α × α
  | nil, v, r => (r, v)
  | node ll lv _ lr, v, r =>
    let (newLeft, popped) := popLeftMost ll lv lr
    (rebalance (mk newLeft v r), popped)

/-- `n.remove(value, compare)`; on failure the node is returned untouched. -/
def remove (cmp : α → α → Int) (value : α) : Node α → Node α × Bool
  | nil => (nil, false)
  | n@(node l v _ r) =>
    if v = value then
      match l, r with
      | nil, nil => (nil, true)
      | nil, r@(node ..) => (r, true)
      | l@(node ..), nil => (l, true)
      | l@(node ..), node rl rv _ rr =>
        let (newRight, leftMost) := popLeftMost rl rv rr
        (rebalance (mk l leftMost newRight), true)
    else if !l.isNil && cmp value v < 0 then
      let (newNode, ok) := remove cmp value l
      if ok then (rebalance (mk newNode v r), true) else (n, false)
    else if !r.isNil then
      let (newNode, ok) := remove cmp value r
      if ok then (rebalance (mk l v newNode), true) else (n, false)
    else (n, false)

/-! comparator-call counting variants -/

/-- `find` with the number of `compare` calls: evaluated only when `current.value != value` and
`current.left != nil` (short-circuit `&&`). -/
def findC (cmp : α → α → Int) (value : α) : Node α → Option (Node α) × Nat
  | nil => (none, 0)
  | n@(node l v _ r) =>
    if v = value then (some n, 0)
    else
      let c := if l.isNil then 0 else 1
      if !l.isNil && cmp value v < 0 then
        let (res, k) := findC cmp value l
        (res, k + c)
      else if !r.isNil then
        let (res, k) := findC cmp value r
        (res, k + c)
      else (none, c)

/-- `add` with the number of `compare` calls: one per visited cell. -/
def addC (cmp : α → α → Int) (value : α) : Node α → Node α × Nat
  | nil => (leaf value, 0)
  | node l v _ r =>
    if cmp value v < 0 then
      let (l', k) := addC cmp value l
      (rebalance (mk l' v r), k + 1)
    else
      let (r', k) := addC cmp value r
      (rebalance (mk l v r'), k + 1)

/-- `remove` with the number of `compare` calls: one per visited cell with `n.value != value` and
`n.left != nil`. -/
def removeC (cmp : α → α → Int) (value : α) : Node α → (Node α × Bool) × Nat
  | nil => ((nil, false), 0)
  | n@(node l v _ r) =>
    if v = value then (remove cmp value n, 0)
    else
      let c := if l.isNil then 0 else 1
      if !l.isNil && cmp value v < 0 then
        let ((newNode, ok), k) := removeC cmp value l
        if ok then ((rebalance (mk newNode v r), true), k + c) else ((n, false), k + c)
      else if !r.isNil then
        let ((newNode, ok), k) := removeC cmp value r
        if ok then ((rebalance (mk l v newNode), true), k + c) else ((n, false), k + c)
      else ((n, false), c)

end Node

/-- `type Tree[T] struct { compare; root; count }` -/
structure Tree (α : Type) where
  compare : α → α → Int
  root : Node α
  count : Int

namespace Tree
open Node

/-- `New(compare)` -/
def new (compare : α → α → Int) : Tree α := { compare := compare, root := .nil, count := 0 }

def Len (t : Tree α) : Int := t.count

def Clear (t : Tree α) : Tree α := { t with root := .nil, count := 0 }

def WalkPreOrder {σ : Type} (t : Tree α) (f : σ → α → σ) (s : σ) : σ :=
  if t.root.isNil then s else walkPreOrder f s t.root
def WalkInOrder {σ : Type} (t : Tree α) (f : σ → α → σ) (s : σ) : σ :=
  if t.root.isNil then s else walkInOrder f s t.root
def WalkPostOrder {σ : Type} (t : Tree α) (f : σ → α → σ) (s : σ) : σ :=
  if t.root.isNil then s else walkPostOrder f s t.root

/-- `slice(f)`: `slice := make([]T,0,count); f(func(v){ slice = append(slice, v) }); return slice` -/
def SlicePreOrder (t : Tree α) : List α := t.WalkPreOrder (fun acc v => acc ++ [v]) []
def SliceInOrder (t : Tree α) : List α := t.WalkInOrder (fun acc v => acc ++ [v]) []
def SlicePostOrder (t : Tree α) : List α := t.WalkPostOrder (fun acc v => acc ++ [v]) []

/-- `make([]T, 0, n.count)` of `slice` made explicit -/
def sliceE (t : Tree α) (walked : List α) : Except String (List α) :=
  if t.count < 0 then .error "panic:makeslice" else .ok walked
def SlicePreOrderE (t : Tree α) : Except String (List α) := t.sliceE t.SlicePreOrder
def SliceInOrderE (t : Tree α) : Except String (List α) := t.sliceE t.SliceInOrder
def SlicePostOrderE (t : Tree α) : Except String (List α) := t.sliceE t.SlicePostOrder

variable [DecidableEq α]

def Contains (t : Tree α) (value : α) : Bool :=
  if t.root.isNil then false else t.root.contains t.compare value

def Add (t : Tree α) (value : α) : Tree α :=
  let root := if t.root.isNil then leaf value else t.root.add t.compare value
  { t with root := root, count := t.count + 1 }

def Remove (t : Tree α) (value : α) : Tree α × Bool :=
  if t.root.isNil then (t, false)
  else
    let (newRoot, ok) := t.root.remove t.compare value
    let t := { t with root := newRoot }
    if ok then ({ t with count := t.count - 1 }, true) else (t, false)

/-- `clone := Tree{compare: n.compare}; n.WalkPreOrder(clone.Add); return clone` -/
def Clone (t : Tree α) : Tree α :=
  t.WalkPreOrder (fun (clone : Tree α) v => clone.Add v) (new t.compare)

/-! counting variants at the `Tree` level (what the harness's counting comparator reports) -/

def ContainsC (t : Tree α) (value : α) : Bool × Nat :=
  if t.root.isNil then (false, 0)
  else let (res, k) := t.root.findC t.compare value; (res.isSome, k)

def AddC (t : Tree α) (value : α) : Tree α × Nat :=
  if t.root.isNil then ({ t with root := leaf value, count := t.count + 1 }, 0)
  else let (root, k) := t.root.addC t.compare value; ({ t with root := root, count := t.count + 1 }, k)

def RemoveC (t : Tree α) (value : α) : (Tree α × Bool) × Nat :=
  if t.root.isNil then ((t, false), 0)
  else
    let ((newRoot, ok), k) := t.root.removeC t.compare value
    let t := { t with root := newRoot }
    if ok then (({ t with count := t.count - 1 }, true), k) else ((t, false), k)

end Tree

end TypVerif.Model.Avl
