/-
Model of maps.Bimap[K,V]  (/repo/maps/bimap.go) and of the two helpers it calls, maps.Clone and maps.Clear
(/repo/maps/maps.go).

A Go map is `GoMap K V`: either the nil map or an allocated map whose contents are an association list
without duplicate keys (DESIGN §6 "Maps and sets"; the order of the list is the unspecified iteration order).
  * reading a nil map gives "absent", `delete` on a nil map is a no-op, `len(nil) = 0`, ranging over nil
    does nothing, ASSIGNING into a nil map panics (`GoMap.assign` returns `.error "panic:nilmap"`);
  * `delete(m,k)` removes every entry with key `k` (there is at most one);
  * `m[k] = v` overwrites in place when `k` is present and otherwise adds a new entry.
Every method is transcribed statement by statement, in the order of the Go source.  `Add` is the only method
that assigns into a map, hence the only one that can panic; it returns `Except String`.  (Theorem
`C11.no_panic` shows the error branch is unreachable from the zero value / clones.)
A nil *receiver* (`(*Bimap)(nil)`) is not modelled: handles always denote real structs.
-/
namespace TypVerif.Model.Bimap

/-! ### association lists -/
section AL
variable {α β : Type} [DecidableEq α]

/-- `m[k]` on the entry list -/
def lookup : List (α × β) → α → Option β
  | [], _ => none
  | (a, b) :: xs, k => if a = k then some b else lookup xs k

/-- `delete(m, k)` on the entry list: drops every entry whose key is `k` -/
def erase : List (α × β) → α → List (α × β)
  | [], _ => []
  | (a, b) :: xs, k => if a = k then erase xs k else (a, b) :: erase xs k

/-- `m[k] = v` on the entry list: overwrite in place, else new entry -/
def put : List (α × β) → α → β → List (α × β)
  | [], k, v => [(k, v)]
  | (a, b) :: xs, k, v => if a = k then (a, v) :: xs else (a, b) :: put xs k v

end AL

/-! ### Go maps -/

inductive GoMap (K V : Type) where
  | nil
  | mk (entries : List (K × V))
  deriving Repr

namespace GoMap
variable {K V : Type} [DecidableEq K]

def isNil : GoMap K V → Bool
  | nil => true
  | mk _ => false

/-- the entries in iteration order (`for k, v := range m`) -/
def entries : GoMap K V → List (K × V)
  | nil => []
  | mk l => l

/-- `len(m)` -/
def len (m : GoMap K V) : Nat := m.entries.length

/-- `m[k]` as an option -/
def get? : GoMap K V → K → Option V
  | nil, _ => none
  | mk l, k => lookup l k

/-- `v, ok := m[k]` (zero value and `false` when absent) -/
def commaOk [Inhabited V] (m : GoMap K V) (k : K) : V × Bool :=
  match m.get? k with
  | some v => (v, true)
  | none => (default, false)

/-- `delete(m, k)`: no-op on the nil map -/
def delete : GoMap K V → K → GoMap K V
  | nil, _ => nil
  | mk l, k => mk (erase l k)

/-- `m[k] = v`: panics on the nil map -/
def assign : GoMap K V → K → V → Except String (GoMap K V)
  | nil, _, _ => .error "panic:nilmap"
  | mk l, k, v => .ok (mk (put l k v))

/-- body of maps.Clear: `for k := range m { delete(m, k) }`, the keys in iteration order -/
def clearLoop : List K → GoMap K V → GoMap K V
  | [], m => m
  | k :: ks, m => clearLoop ks (m.delete k)

/-- maps.Clear(m).  Only the key currently produced is deleted, so every key present at the start is
produced (Go spec: an entry removed before it is reached is not produced, others are). -/
def clear (m : GoMap K V) : GoMap K V := clearLoop (m.entries.map (·.1)) m

/-- body of maps.Clone: `for k, v := range m { newMap[k] = v }` -/
def cloneLoop : List (K × V) → List (K × V) → List (K × V)
  | [], acc => acc
  | (k, v) :: xs, acc => cloneLoop xs (put acc k v)

/-- maps.Clone(m): `newMap := make(M, len(m))` is always non-nil, also for a nil `m` -/
def clone (m : GoMap K V) : GoMap K V := mk (cloneLoop m.entries [])

end GoMap

/-! ### Bimap -/

structure Bimap (K V : Type) where
  forward : GoMap K V
  reverse : GoMap V K
  deriving Repr

/-- `var b Bimap[K,V]` -/
def zero {K V : Type} : Bimap K V := { forward := .nil, reverse := .nil }

namespace Bimap
variable {K V : Type} [DecidableEq K] [DecidableEq V]

/-- `func (b *Bimap) Len() int { … return len(b.forward) }` -/
def len (b : Bimap K V) : Nat := b.forward.len

/-- lookups as options (used by statements) -/
def getForward? (b : Bimap K V) (k : K) : Option V := b.forward.get? k
def getReverse? (b : Bimap K V) (v : V) : Option K := b.reverse.get? v

/-- `value, ok := b.forward[key]; return value, ok` -/
def getForward [Inhabited V] (b : Bimap K V) (key : K) : V × Bool := b.forward.commaOk key
/-- `key, ok := b.reverse[value]; return key, ok` -/
def getReverse [Inhabited K] (b : Bimap K V) (value : V) : K × Bool := b.reverse.commaOk value

/-- `_, ok := b.forward[key]; return ok` -/
def containsForward (b : Bimap K V) (key : K) : Bool := (b.forward.get? key).isSome
/-- `_, ok := b.reverse[value]; return ok` -/
def containsReverse (b : Bimap K V) (value : V) : Bool := (b.reverse.get? value).isSome

/--
```go
if oldVal, ok := b.GetForward(key); ok { delete(b.reverse, oldVal) }
if oldKey, ok := b.GetReverse(value); ok { delete(b.forward, oldKey) }   // sees the first delete
if b.forward == nil { b.forward = make(map[K]V); b.reverse = make(map[V]K) }
b.forward[key] = value
b.reverse[value] = key
```
-/
def add [Inhabited K] [Inhabited V] (b : Bimap K V) (key : K) (value : V) : Except String (Bimap K V) :=
  let b1 : Bimap K V :=
    match b.getForward key with
    | (oldVal, true) => { b with reverse := b.reverse.delete oldVal }
    | (_, false) => b
  let b2 : Bimap K V :=
    match b1.getReverse value with
    | (oldKey, true) => { b1 with forward := b1.forward.delete oldKey }
    | (_, false) => b1
  let b3 : Bimap K V :=
    if b2.forward.isNil then { forward := .mk [], reverse := .mk [] } else b2
  match b3.forward.assign key value with
  | .error e => .error e
  | .ok f =>
    match b3.reverse.assign value key with
    | .error e => .error e
    | .ok r => .ok { forward := f, reverse := r }

/-- `if value, ok := b.forward[key]; ok { delete(b.reverse, value); delete(b.forward, key) }` -/
def removeForward [Inhabited V] (b : Bimap K V) (key : K) : Bimap K V :=
  match b.forward.commaOk key with
  | (value, true) =>
    let r := b.reverse.delete value
    let f := b.forward.delete key
    { forward := f, reverse := r }
  | (_, false) => b

/-- `if key, ok := b.reverse[value]; ok { delete(b.reverse, value); delete(b.forward, key) }` -/
def removeReverse [Inhabited K] (b : Bimap K V) (value : V) : Bimap K V :=
  match b.reverse.commaOk value with
  | (key, true) =>
    let r := b.reverse.delete value
    let f := b.forward.delete key
    { forward := f, reverse := r }
  | (_, false) => b

/-- `for k, v := range <order> { if !f(k, v) { return } }` with a callback that carries its own state `σ`
(a Go closure).  Returns the final state of the closure. -/
def rangeLoop {σ : Type} (f : σ → K → V → σ × Bool) : List (K × V) → σ → σ
  | [], s => s
  | (k, v) :: xs, s =>
    match f s k v with
    | (s', true) => rangeLoop f xs s'
    | (s', false) => s'

/-- Range with the list's own order -/
def range {σ : Type} (b : Bimap K V) (f : σ → K → V → σ × Bool) (s : σ) : σ :=
  rangeLoop f b.forward.entries s

/-- the callback used by the harness: records its arguments, returns false on its `n`-th call (`n = 0`: never) -/
def recorder (n : Nat) (tr : List (K × V)) (k : K) (v : V) : List (K × V) × Bool :=
  (tr ++ [(k, v)], (tr.length + 1) != n)

/-- `Clear(b.forward); Clear(b.reverse)` -/
def clear (b : Bimap K V) : Bimap K V :=
  let f := b.forward.clear
  let r := b.reverse.clear
  { forward := f, reverse := r }

/-- `return Bimap{forward: Clone(b.forward), reverse: Clone(b.reverse)}` -/
def clone (b : Bimap K V) : Bimap K V :=
  { forward := b.forward.clone, reverse := b.reverse.clone }

end Bimap

/-! ### worlds and operation sequences -/

inductive Op (K V : Type) where
  | new (h : Int)
  | add (h : Int) (k : K) (v : V)
  | rmf (h : Int) (k : K)
  | rmr (h : Int) (v : V)
  | clear (h : Int)
  | clone (h r : Int)
  deriving Repr

/-- the handle whose binding an operation may change -/
def Op.target {K V : Type} : Op K V → Int
  | .new h => h
  | .add h _ _ => h
  | .rmf h _ => h
  | .rmr h _ => h
  | .clear h => h
  | .clone _ r => r

/-- handles ↦ bimaps (an association list, read with `lookup`, written with `put`) -/
abbrev World (K V : Type) := List (Int × Bimap K V)

section Run
variable {K V : Type} [DecidableEq K] [DecidableEq V] [Inhabited K] [Inhabited V]

/-- one operation; operations on unknown handles do nothing; a panic aborts the run -/
def step (w : World K V) : Op K V → Except String (World K V)
  | .new h => .ok (put w h zero)
  | .add h k v =>
    match lookup w h with
    | none => .ok w
    | some b =>
      match b.add k v with
      | .ok b' => .ok (put w h b')
      | .error e => .error e
  | .rmf h k =>
    match lookup w h with
    | none => .ok w
    | some b => .ok (put w h (b.removeForward k))
  | .rmr h v =>
    match lookup w h with
    | none => .ok w
    | some b => .ok (put w h (b.removeReverse v))
  | .clear h =>
    match lookup w h with
    | none => .ok w
    | some b => .ok (put w h b.clear)
  | .clone h r =>
    match lookup w h with
    | none => .ok w
    | some b => .ok (put w r b.clone)

def runFrom (w : World K V) : List (Op K V) → Except String (World K V)
  | [] => .ok w
  | op :: ops =>
    match step w op with
    | .ok w' => runFrom w' ops
    | .error e => .error e

/-- run an operation sequence from the empty world -/
def run (ops : List (Op K V)) : Except String (World K V) := runFrom [] ops

end Run

end TypVerif.Model.Bimap
