/-
A total store `Nat → α` backed by an `Array` (used as the heap of the pointer models of
`lists/list.go` and `lists/ring.go`).  Reading outside the array gives `default`, writing outside
extends the array with `default` cells; hence `get (set s i a) j = if j = i then a else get s j`
holds unconditionally and no in-bounds side conditions pollute the proofs.
-/
namespace TypVerif.Model

structure Store (α : Type) where
  data : Array α

namespace Store
variable {α : Type} [Inhabited α]

def empty : Store α := ⟨#[]⟩

def get (s : Store α) (i : Nat) : α := s.data.getD i default

def set (s : Store α) (i : Nat) (a : α) : Store α :=
  if i < s.data.size then ⟨s.data.setIfInBounds i a⟩
  else ⟨(s.data ++ Array.replicate (i - s.data.size) default).push a⟩

@[simp] theorem get_empty (i : Nat) : (empty : Store α).get i = default := by
  simp [empty, get]

theorem get_set (s : Store α) (i j : Nat) (a : α) :
    (s.set i a).get j = if j = i then a else s.get j := by
  unfold set get
  by_cases h : i < s.data.size
  · simp only [h, if_true]
    by_cases hj : j = i
    · subst hj; simp [Array.getD_eq_getD_getElem?, h]
    · have hij : i ≠ j := fun e => hj e.symm
      simp [Array.getD_eq_getD_getElem?, hj, hij]
  · simp only [h, if_false]
    have hs : s.data.size ≤ i := Nat.le_of_not_lt h
    by_cases hj : j = i
    · subst hj
      simp only [if_true, Array.getD_eq_getD_getElem?]
      rw [Array.getElem?_push]
      have hsz : (s.data ++ Array.replicate (j - s.data.size) (default : α)).size = j := by
        simp; omega
      rw [hsz]; simp
    · simp only [hj, if_false, Array.getD_eq_getD_getElem?]
      rw [Array.getElem?_push]
      have hsz : (s.data ++ Array.replicate (i - s.data.size) (default : α)).size = i := by
        simp; omega
      rw [hsz]
      simp only [hj, if_false]
      rw [Array.getElem?_append]
      by_cases hlt : j < s.data.size
      · simp [hlt]
      · simp only [hlt, if_false]
        rw [Array.getElem?_replicate]
        have : s.data[j]? = none := by simp; omega
        rw [this]
        by_cases h2 : j - s.data.size < i - s.data.size <;> simp [h2]

@[simp] theorem get_set_self (s : Store α) (i : Nat) (a : α) : (s.set i a).get i = a := by
  simp [get_set]

theorem get_set_ne (s : Store α) {i j : Nat} (a : α) (h : j ≠ i) : (s.set i a).get j = s.get j := by
  simp [get_set, h]

end Store
end TypVerif.Model
