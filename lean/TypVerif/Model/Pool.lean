import TypVerif.Conc.Sys
import TypVerif.Model.AtomicObj
/-
Model of sync2.Pool[T] (sync2/pool.go, as it is now) on top of sync.Pool by contract.

    func (p *Pool[T]) Get() T {                      func (p *Pool[T]) Put(x T) {
        if p.New == nil { var x T; return x }    g0      p.pool.Put(x)                p0
        x := p.pool.Get()                        g1  }
        if x == nil { return p.New() }           g2
        return x.(T)
    }

sync.Pool (contract): a bag of items; `Put` adds one; `Get` removes and returns *some* item of the bag, or
reports empty (nil) — also when the bag is not empty (items may be dropped at any time; an item that is
dropped is simply never handed out again, so no separate step is needed).  Both are atomic by contract.
Items are identified by numbers: `0` is nil / the zero value, ids 1..999 are made by the callers' script and
first enter through `Put`, ids ≥ 1000 are made by `New` (fresh: a counter).

Discipline of the callers (PROTOCOL C18): a goroutine only puts an item it currently holds (got from `Get`
and not put since) or a script-made item that has never been put before.  It is built into the enabling
condition of the `inv t (put id)` step.

Every step carries its set of plain (non-atomic) shared-memory accesses, `accesses`: `Get` reads the field
`p.New` (at g0 and again at g2 for the call) and writes nothing.  The pinned version of `Get`
(`p.pool.New = func() any { return p.New() }; return p.pool.Get().(T)`) additionally *wrote* the field
`p.pool.New` on every call (and sync.Pool.Get reads it): flag `pinned`, used only to show that the race
theorem is not vacuous.
-/
namespace TypVerif.Model.Pool
open TypVerif

inductive Op where
  | get
  | put (id : Nat)
  deriving DecidableEq, Repr

inductive Res where
  | item (id : Nat)       -- 0 = nil / zero value
  | done
  deriving DecidableEq, Repr

inductive Pc where
  | idle
  | g0                       -- about to read `p.New`
  | g1                       -- about to call `p.pool.Get()`
  | g2                       -- pool reported empty; about to call `p.New()`
  | gRet (x : Option Nat)    -- about to return x (none = zero value)
  | p0 (id : Nat)            -- about to call `p.pool.Put(id)`
  | pRet
  deriving DecidableEq, Repr

structure Thr where
  pc : Pc
  held : List Nat            -- items this goroutine holds (ghost: the caller's variables)
  deriving DecidableEq, Repr

structure State where
  thrs : List Thr
  bag : List Nat             -- sync.Pool content
  fresh : Nat                -- next id `New` makes
  minted : List Nat          -- script-made ids that have entered (ghost)
  deriving DecidableEq, Repr

abbrev Event := AtomicObj.Event Op Res

def State.thr (s : State) (t : Nat) : Thr := s.thrs.getD t ⟨.idle, []⟩

/-- items in the hands of a goroutine that are not (yet / any more) in its `held` variables -/
def localItems : Pc → List Nat
  | .gRet (some x) => [x]
  | .p0 id => [id]
  | _ => []

/-- everything goroutine-owned -/
def Thr.items (th : Thr) : List Nat := th.held ++ localItems th.pc

def isScript (id : Nat) : Bool := 1 ≤ id && id < 1000

/-- may goroutine `th` put `id` now?  (the callers' discipline) -/
def mayPut (s : State) (th : Thr) (id : Nat) : Bool :=
  th.held.contains id || (isScript id && !s.minted.contains id)

def setThr (s : State) (t : Nat) (th : Thr) : State := { s with thrs := s.thrs.set t th }

def stepT (hasNew : Bool) (menu : List Op) (s : State) (t : Nat) : List (Option Event × State) :=
  let th := s.thr t
  match th.pc with
  | .idle => menu.flatMap (fun op =>
      match op with
      | .get => [(some (.inv t .get), setThr s t ⟨.g0, th.held⟩)]
      | .put id =>
        if mayPut s th id then
          [(some (.inv t (.put id)),
            { setThr s t ⟨.p0 id, th.held.erase id⟩ with
              minted := if th.held.contains id then s.minted else id :: s.minted })]
        else [])
  | .g0 => [(none, setThr s t ⟨if hasNew then .g1 else .gRet none, th.held⟩)]
  | .g1 =>
      s.bag.map (fun x => (none, { setThr s t ⟨.gRet (some x), th.held⟩ with bag := s.bag.erase x }))
      ++ [(none, setThr s t ⟨.g2, th.held⟩)]
  | .g2 => [(none, { setThr s t ⟨.gRet (some s.fresh), th.held⟩ with fresh := s.fresh + 1 })]
  | .gRet x =>
      [(some (.res t (.item (x.getD 0))),
        setThr s t ⟨.idle, match x with | some i => i :: th.held | none => th.held⟩)]
  | .p0 id => [(none, { setThr s t ⟨.pRet, th.held⟩ with bag := id :: s.bag })]
  | .pRet => [(some (.res t .done), setThr s t ⟨.idle, th.held⟩)]

def succ (hasNew : Bool) (menu : List Op) (s : State) : List (Option Event × State) :=
  (List.range s.thrs.length).flatMap (stepT hasNew menu s)

def init (n : Nat) : State :=
  { thrs := List.replicate n ⟨.idle, []⟩, bag := [], fresh := 1000, minted := [] }

/-- `n` goroutines (any number) calling `Get` / `Put id` (any `menu`) in any order, under the discipline -/
abbrev sys (hasNew : Bool) (menu : List Op) (n : Nat) : Conc.Sys :=
  { State := State, Event := Event, init := init n, succ := succ hasNew menu }

/-! ### plain (non-atomic) shared-memory accesses of the next step of a goroutine -/

inductive Loc where
  | fieldNew        -- p.New
  | poolNew         -- p.pool.New
  deriving DecidableEq, Repr

structure Access where
  loc : Loc
  write : Bool
  deriving DecidableEq, Repr

def accesses (pinned : Bool) (s : State) (t : Nat) : List Access :=
  match (s.thr t).pc with
  | .g0 => [⟨.fieldNew, false⟩]
  | .g1 => if pinned then [⟨.poolNew, true⟩, ⟨.poolNew, false⟩] else []
  | .g2 => [⟨.fieldNew, false⟩]
  | _ => []

def conflict (a b : Access) : Bool := a.loc == b.loc && (a.write || b.write)

/-- two different goroutines are about to perform conflicting plain accesses: a data race -/
def racy (pinned : Bool) (s : State) : Prop :=
  ∃ t1 t2, t1 ≠ t2 ∧ ∃ a1 ∈ accesses pinned s t1, ∃ a2 ∈ accesses pinned s t2, conflict a1 a2 = true

/-! ### the bag as a sequential specification (for linearizability checking in the judge) -/

structure Bag where
  bag : List Nat
  fresh : Nat
  deriving DecidableEq, Repr

/-- `Get`: zero when `New` is nil; else some pooled item (removed), or a fresh `New()`.  `Put` adds. -/
def bagApply (hasNew : Bool) (σ : Bag) : Op → List (Bag × Res)
  | .get =>
    if hasNew then
      σ.bag.map (fun x => ({ σ with bag := σ.bag.erase x }, Res.item x))
      ++ [({ σ with fresh := σ.fresh + 1 }, Res.item σ.fresh)]
    else [(σ, .item 0)]
  | .put id => [({ σ with bag := id :: σ.bag }, .done)]

def bagSpec (hasNew : Bool) : AtomicObj.Spec :=
  { σ := Bag, Op := Op, Res := Res, init := ⟨[], 1000⟩, apply := bagApply hasNew }

instance (b : Bool) : DecidableEq (bagSpec b).Op := inferInstanceAs (DecidableEq Op)
instance (b : Bool) : DecidableEq (bagSpec b).Res := inferInstanceAs (DecidableEq Res)
instance (b : Bool) : DecidableEq (bagSpec b).σ := inferInstanceAs (DecidableEq Bag)

end TypVerif.Model.Pool
