import TypVerif.Conc.Sys
import TypVerif.Model.SyncMap
/-
Concurrent, step-level model of `sync2.Map[K,V]` (`/repo/sync2/map.go`): a transition system whose steps are
exactly the steps of the real code under the controlled scheduler (DESIGN §7.3, Appendix B).

A goroutine is *parked* at a hook: `verifYield("<label>")` sits immediately before every `m.read.Load()`,
`m.read.Store(..)`, every `atomic.{Load,Store,CompareAndSwap}Pointer` on `entry.p`; `verifMuLock` (label `lock`)
sits before `m.mu.Lock()`.  One step of goroutine `t` = the hooked atomic action followed by all the straight-line
code up to the next hook (plain accesses to `dirty`/`misses` under the held mutex and the `Unlock` included).
`Pc.label` gives the hook a goroutine is parked at; `exec` performs the step.  The two `for k, e := range read.m`
loops (in `dirtyLocked` and `Range`) choose their next key nondeterministically (`picks`; the real code announces
the choice through `verifIter(k)`).

* `entry.p` is `Ptr.nil`, `Ptr.expunged` or `Ptr.val id v`: a pointer with identity `id` to a value; every
  pointer written into an entry is fresh (`nextPtr`), `CompareAndSwapPointer(&e.p, old, new)` succeeds iff the
  current pointer is identical to `old` (`Ptr.same`: same identity, values are not compared).
* maps are association lists (`alookup/ainsert/aerase` of `Model.SyncMap`), `m.read` is `(readM, amended)`,
  `m.dirty = nil` is `none`; assigning into a nil map sets `fault`.
* `zst`: for a zero-size `V` every value pointer has the same identity (see `Shared.zst`).
* any number of goroutines (`pcs`), any operations (`menu`), in any order: `sys menu n`.
-/
namespace TypVerif.Model.SyncMapConc
open TypVerif.Model.SyncMap (alookup ainsert aerase akeys)

abbrev EId := Nat
abbrev Tid := Nat

inductive Ptr (V : Type) where
  | nil
  | expunged
  | val (id : Nat) (v : V)
  deriving Repr, DecidableEq

/-- pointer identity -/
def Ptr.same {V : Type} : Ptr V → Ptr V → Bool
  | .nil, .nil => true
  | .expunged, .expunged => true
  | .val i _, .val j _ => i == j
  | _, _ => false

def Ptr.isNil {V : Type} : Ptr V → Bool
  | .nil => true
  | _ => false

def Ptr.isExpunged {V : Type} : Ptr V → Bool
  | .expunged => true
  | _ => false

def Ptr.value? {V : Type} : Ptr V → Option V
  | .val _ v => some v
  | _ => none

inductive Op (K V : Type) where
  | load (k : K)
  | store (k : K) (v : V)
  | loadOrStore (k : K) (v : V)
  | loadAndDelete (k : K)
  | delete (k : K)
  | range
  deriving Repr, DecidableEq

inductive Res (K V : Type) where
  | done
  | val (o : Option V)                       -- `(v, true)` / `(zero, false)`
  | pair (actual : V) (loaded : Bool)
  | pairs (l : List (K × V))                 -- the callback sequence of Range
  deriving Repr, DecidableEq

/-- who called `tryLoadOrStore` -/
inductive LosCtx where
  | fast | slowRead | slowDirty
  deriving Repr, DecidableEq

/-- who runs the new-key tail (`dirtyLocked(); read.Store(amended); dirty[key] = newEntry(value)`) -/
inductive NewCtx where
  | store | los
  deriving Repr, DecidableEq

/-- where a goroutine is parked, with its live local variables -/
inductive Pc (K V : Type) where
  | idle
  | start (op : Op K V)
  | ret (r : Res K V)
  -- Load
  | loadRead1 (k : K)
  | loadLock (k : K)
  | loadRead2 (k : K)
  | loadMiss (k : K) (e : Option EId)
  | loadPtr (k : K) (e : EId)
  -- Store
  | storeRead1 (k : K) (v : V)
  | tryStoreLoad (k : K) (v : V) (e : EId)
  | tryStoreCas (k : K) (v : V) (e : EId) (p : Ptr V)
  | storeLock (k : K) (v : V)
  | storeRead2 (k : K) (v : V)
  | storeUnexp (k : K) (v : V) (e : EId)
  | storeLocked (k : K) (v : V) (e : EId)
  -- the new-key tail of Store / LoadOrStore; `rm` = `read.m` as read at `X.readLoad2`
  | dirtyRead (c : NewCtx) (k : K) (v : V) (rm : List (K × EId))
  | dirtyPick (c : NewCtx) (k : K) (v : V) (rm : List (K × EId)) (todo : List (K × EId))
  | expLoad (c : NewCtx) (k : K) (v : V) (rm : List (K × EId)) (todo : List (K × EId)) (k' : K) (e' : EId)
  | expCas (c : NewCtx) (k : K) (v : V) (rm : List (K × EId)) (todo : List (K × EId)) (k' : K) (e' : EId)
  | expLoad2 (c : NewCtx) (k : K) (v : V) (rm : List (K × EId)) (todo : List (K × EId)) (k' : K) (e' : EId)
  | readStore (c : NewCtx) (k : K) (v : V) (rm : List (K × EId))
  -- LoadOrStore
  | losRead1 (k : K) (v : V)
  | losLoad (c : LosCtx) (k : K) (v : V) (e : EId)
  | losCas (c : LosCtx) (k : K) (v : V) (e : EId)
  | losLoad2 (c : LosCtx) (k : K) (v : V) (e : EId)
  | losLock (k : K) (v : V)
  | losRead2 (k : K) (v : V)
  | losUnexp (k : K) (v : V) (e : EId)
  | losMiss (k : K) (r : Res K V)
  -- LoadAndDelete (`d = false`) / Delete (`d = true`)
  | ladRead1 (d : Bool) (k : K)
  | ladLock (d : Bool) (k : K)
  | ladRead2 (d : Bool) (k : K)
  | ladMiss (d : Bool) (k : K) (e : Option EId)
  | delLoad (d : Bool) (k : K) (e : EId)
  | delCas (d : Bool) (k : K) (e : EId) (p : Ptr V)
  -- Range
  | rangeRead1
  | rangeLock
  | rangeRead2
  | rangeStore (dm : List (K × EId))
  | rangePick (todo : List (K × EId)) (acc : List (K × V))
  | rangeLoad (todo : List (K × EId)) (acc : List (K × V)) (k' : K) (e' : EId)
  deriving Repr, DecidableEq

structure Shared (K V : Type) where
  entries : List (Ptr V) := []
  readM : List (K × EId) := []
  amended : Bool := false
  dirty : Option (List (K × EId)) := none
  misses : Nat := 0
  mu : Option Tid := none
  nextPtr : Nat := 0
  fault : Bool := false
  /-- `V` is a zero-size type (`struct{}`, as in `sync2.Set`): Go gives every pointer to a zero-size value the same
  address, so pointer identity does not distinguish two stored values (the CAS in `delete`/`tryStore` can succeed
  on a pointer written by a *later* store; harmless, since all values of such a type are equal) -/
  zst : Bool := false
  deriving Repr, DecidableEq

structure State (K V : Type) where
  sh : Shared K V := {}
  pcs : List (Pc K V) := []
  deriving Repr, DecidableEq

variable {K V : Type} [DecidableEq K]

/-- the hook label (`verifYield` argument, `lock`, or `op:<name>` before the first hook of a call) -/
def Pc.label : Pc K V → String
  | .idle => "idle"
  | .ret _ => "ret"
  | .start (.load _) => "op:load"
  | .start (.store _ _) => "op:store"
  | .start (.loadOrStore _ _) => "op:loadorstore"
  | .start (.loadAndDelete _) => "op:loadanddelete"
  | .start (.delete _) => "op:delete"
  | .start .range => "op:range"
  | .loadRead1 _ => "Load.readLoad1"
  | .loadLock _ => "lock"
  | .loadRead2 _ => "Load.readLoad2"
  | .loadMiss _ _ => "missLocked.readStore1"
  | .loadPtr _ _ => "load.loadPtr1"
  | .storeRead1 _ _ => "Store.readLoad1"
  | .tryStoreLoad _ _ _ => "tryStore.loadPtr1"
  | .tryStoreCas _ _ _ _ => "tryStore.casPtr1"
  | .storeLock _ _ => "lock"
  | .storeRead2 _ _ => "Store.readLoad2"
  | .storeUnexp _ _ _ => "unexpungeLocked.casPtr1"
  | .storeLocked _ _ _ => "storeLocked.storePtr1"
  | .dirtyRead _ _ _ _ => "dirtyLocked.readLoad1"
  | .dirtyPick _ _ _ _ _ => "pick"
  | .expLoad _ _ _ _ _ _ _ => "tryExpungeLocked.loadPtr1"
  | .expCas _ _ _ _ _ _ _ => "tryExpungeLocked.casPtr1"
  | .expLoad2 _ _ _ _ _ _ _ => "tryExpungeLocked.loadPtr2"
  | .readStore .store _ _ _ => "Store.readStore1"
  | .readStore .los _ _ _ => "LoadOrStore.readStore1"
  | .losRead1 _ _ => "LoadOrStore.readLoad1"
  | .losLoad _ _ _ _ => "tryLoadOrStore.loadPtr1"
  | .losCas _ _ _ _ => "tryLoadOrStore.casPtr1"
  | .losLoad2 _ _ _ _ => "tryLoadOrStore.loadPtr2"
  | .losLock _ _ => "lock"
  | .losRead2 _ _ => "LoadOrStore.readLoad2"
  | .losUnexp _ _ _ => "unexpungeLocked.casPtr1"
  | .losMiss _ _ => "missLocked.readStore1"
  | .ladRead1 _ _ => "LoadAndDelete.readLoad1"
  | .ladLock _ _ => "lock"
  | .ladRead2 _ _ => "LoadAndDelete.readLoad2"
  | .ladMiss _ _ _ => "missLocked.readStore1"
  | .delLoad _ _ _ => "delete.loadPtr1"
  | .delCas _ _ _ _ => "delete.casPtr1"
  | .rangeRead1 => "Range.readLoad1"
  | .rangeLock => "lock"
  | .rangeRead2 => "Range.readLoad2"
  | .rangeStore _ => "Range.readStore1"
  | .rangePick _ _ => "pick"
  | .rangeLoad _ _ _ _ => "load.loadPtr1"

/-! ### shared-state primitives -/

/-- `atomic.LoadPointer(&e.p)` -/
def getP (sh : Shared K V) (e : EId) : Ptr V := sh.entries.getD e .nil

/-- `atomic.StorePointer(&e.p, p)` / successful CAS, for `p` nil or expunged -/
def setP (sh : Shared K V) (e : EId) (p : Ptr V) : Shared K V := { sh with entries := sh.entries.set e p }

/-- the identity of the next pointer handed out by the allocator -/
def freshId (sh : Shared K V) : Nat := if sh.zst then 0 else sh.nextPtr

/-- store a fresh pointer to `v` into `e.p` -/
def storeVal (sh : Shared K V) (e : EId) (v : V) : Shared K V :=
  { sh with entries := sh.entries.set e (.val (freshId sh) v), nextPtr := sh.nextPtr + 1 }

def dirtyMap (sh : Shared K V) : List (K × EId) := sh.dirty.getD []

/-- `m.dirty[k] = e` -/
def setDirty (sh : Shared K V) (k : K) (e : EId) : Shared K V :=
  match sh.dirty with
  | some d => { sh with dirty := some (ainsert k e d) }
  | none => { sh with fault := true }

/-- `delete(m.dirty, k)` -/
def delDirty (sh : Shared K V) (k : K) : Shared K V := { sh with dirty := sh.dirty.map (aerase k) }

/-- `m.dirty[k] = newEntry(v)` -/
def addNew (sh : Shared K V) (k : K) (v : V) : Shared K V :=
  setDirty { sh with entries := sh.entries ++ [.val (freshId sh) v], nextPtr := sh.nextPtr + 1 } k sh.entries.length

def unlock (sh : Shared K V) : Shared K V := { sh with mu := none }

/-- `m.read.Store(readOnly{m: m.dirty}); m.dirty = nil; m.misses = 0` -/
def promote (sh : Shared K V) : Shared K V :=
  { sh with readM := dirtyMap sh, amended := false, dirty := none, misses := 0 }

/-- the head of `missLocked`: `m.misses++; if m.misses < len(m.dirty) { return }` — `true` = go on to promote -/
def missStep (sh : Shared K V) : Shared K V × Bool :=
  let sh1 := { sh with misses := sh.misses + 1 }
  (sh1, !(sh1.misses < (dirtyMap sh1).length))

/-! ### control flow helpers -/

def noneRes (d : Bool) : Res K V := if d then .done else .val none

def newRes (c : NewCtx) (v : V) : Res K V :=
  match c with
  | .store => .done
  | .los => .pair v false

/-- after the slow path of Load: `if !ok { return zero, false }; return e.load()` -/
def loadAfter (k : K) : Option EId → Pc K V
  | some e => .loadPtr k e
  | none => .ret (.val none)

/-- after the slow path of LoadAndDelete: `if ok { return e.delete() }; return zero, false` -/
def ladAfter (d : Bool) (k : K) : Option EId → Pc K V
  | some e => .delLoad d k e
  | none => .ret (noneRes d)

/-- next iteration of the `dirtyLocked` loop -/
def dirtyNext (c : NewCtx) (k : K) (v : V) (rm todo : List (K × EId)) : Pc K V :=
  if todo.isEmpty then .readStore c k v rm else .dirtyPick c k v rm todo

/-- next iteration of the `Range` loop -/
def rangeNext (todo : List (K × EId)) (acc : List (K × V)) : Pc K V :=
  if todo.isEmpty then .ret (.pairs acc) else .rangePick todo acc

/-- `m.dirty[key] = newEntry(value); m.mu.Unlock(); return` -/
def finishNew (sh : Shared K V) (c : NewCtx) (k : K) (v : V) : Shared K V × Pc K V :=
  (unlock (addNew sh k v), .ret (newRes c v))

/-- the new-key tail, entered at `X.readLoad2` with the freshly read `read` (`rm`, `amended`) -/
def newTail (sh : Shared K V) (c : NewCtx) (k : K) (v : V) : Shared K V × Pc K V :=
  if !sh.amended then
    -- m.dirtyLocked(): `if m.dirty != nil { return }`
    if sh.dirty.isSome then (sh, .readStore c k v sh.readM) else (sh, .dirtyRead c k v sh.readM)
  else finishNew sh c k v

/-- the end of `tryExpungeLocked` once a non-nil pointer `p` was loaded, and the loop body's `if !… { m.dirty[k] = e }` -/
def expDone (sh : Shared K V) (p : Ptr V) (k' : K) (e' : EId) : Shared K V :=
  if p.isExpunged then sh else setDirty sh k' e'

/-- the tail of a slow-path call that ends in `m.missLocked(); m.mu.Unlock(); return r` -/
def missTail (sh : Shared K V) (k : K) (r : Res K V) : Shared K V × Pc K V :=
  let m := missStep sh
  if m.2 then (m.1, .losMiss k r) else (unlock m.1, .ret r)

/-- `tryLoadOrStore` answered `ok = false` (expunged) -/
def losFail [Inhabited V] (sh : Shared K V) (c : LosCtx) (k : K) (v : V) : Shared K V × Pc K V :=
  match c with
  | .fast => (sh, .losLock k v)
  | .slowRead => (unlock sh, .ret (.pair default false))
  | .slowDirty => missTail sh k (.pair default false)

/-- `tryLoadOrStore` answered `(a, l, true)` -/
def losOk (sh : Shared K V) (c : LosCtx) (k : K) (a : V) (l : Bool) : Shared K V × Pc K V :=
  match c with
  | .fast => (sh, .ret (.pair a l))
  | .slowRead => (unlock sh, .ret (.pair a l))
  | .slowDirty => missTail sh k (.pair a l)

/-- `p := atomic.LoadPointer(&e.p)` in `tryLoadOrStore` (both load sites) and what follows -/
def losLoaded [Inhabited V] (sh : Shared K V) (c : LosCtx) (k : K) (v : V) (e : EId) : Shared K V × Pc K V :=
  match getP sh e with
  | .expunged => losFail sh c k v
  | .val _ w => losOk sh c k w true
  | .nil => (sh, .losCas c k v e)

/-- `p := atomic.LoadPointer(&e.p)` in `tryExpungeLocked` (both load sites) and what follows -/
def expLoaded (sh : Shared K V) (c : NewCtx) (k : K) (v : V) (rm todo : List (K × EId)) (k' : K) (e' : EId) :
    Shared K V × Pc K V :=
  let p := getP sh e'
  if p.isNil then (sh, .expCas c k v rm todo k' e')
  else (expDone sh p k' e', dirtyNext c k v rm todo)

/-- acquire `m.mu` (enabled only when it is free) -/
def lockStep (sh : Shared K V) (t : Tid) (next : Pc K V) : Option (Shared K V × Pc K V) :=
  match sh.mu with
  | none => some ({ sh with mu := some t }, next)
  | some _ => none

/-- one step of goroutine `t` parked at `pc` (`none`: not enabled, or not an executable pc) -/
def exec [Inhabited V] (sh : Shared K V) (t : Tid) : Pc K V → Option (Shared K V × Pc K V)
  | .idle => none
  | .ret _ => none
  | .dirtyPick _ _ _ _ _ => none
  | .rangePick _ _ => none
  | .start (.load k) => some (sh, .loadRead1 k)
  | .start (.store k v) => some (sh, .storeRead1 k v)
  | .start (.loadOrStore k v) => some (sh, .losRead1 k v)
  | .start (.loadAndDelete k) => some (sh, .ladRead1 false k)
  | .start (.delete k) => some (sh, .ladRead1 true k)
  | .start .range => some (sh, .rangeRead1)
  -- Load
  | .loadRead1 k =>
    match alookup k sh.readM with
    | some e => some (sh, .loadPtr k e)
    | none => if sh.amended then some (sh, .loadLock k) else some (sh, .ret (.val none))
  | .loadLock k => lockStep sh t (.loadRead2 k)
  | .loadRead2 k =>
    match alookup k sh.readM with
    | some e => some (unlock sh, .loadPtr k e)
    | none =>
      if sh.amended then
        let e := alookup k (dirtyMap sh)
        let m := missStep sh
        if m.2 then some (m.1, .loadMiss k e) else some (unlock m.1, loadAfter k e)
      else some (unlock sh, .ret (.val none))
  | .loadMiss k e => some (unlock (promote sh), loadAfter k e)
  | .loadPtr _ e => some (sh, .ret (.val (getP sh e).value?))
  -- Store
  | .storeRead1 k v =>
    match alookup k sh.readM with
    | some e => some (sh, .tryStoreLoad k v e)
    | none => some (sh, .storeLock k v)
  | .tryStoreLoad k v e =>
    let p := getP sh e
    if p.isExpunged then some (sh, .storeLock k v) else some (sh, .tryStoreCas k v e p)
  | .tryStoreCas k v e p =>
    if (getP sh e).same p then some (storeVal sh e v, .ret .done) else some (sh, .tryStoreLoad k v e)
  | .storeLock k v => lockStep sh t (.storeRead2 k v)
  | .storeRead2 k v =>
    match alookup k sh.readM with
    | some e => some (sh, .storeUnexp k v e)
    | none =>
      match alookup k (dirtyMap sh) with
      | some e => some (sh, .storeLocked k v e)
      | none => some (newTail sh .store k v)
  | .storeUnexp k v e =>
    if (getP sh e).isExpunged then some (setDirty (setP sh e .nil) k e, .storeLocked k v e)
    else some (sh, .storeLocked k v e)
  | .storeLocked _ v e => some (unlock (storeVal sh e v), .ret .done)
  -- dirtyLocked
  | .dirtyRead c k v rm => some ({ sh with dirty := some [] }, dirtyNext c k v rm sh.readM)
  | .expLoad c k v rm todo k' e' => some (expLoaded sh c k v rm todo k' e')
  | .expCas c k v rm todo k' e' =>
    if (getP sh e').isNil then some (setP sh e' .expunged, dirtyNext c k v rm todo)
    else some (sh, .expLoad2 c k v rm todo k' e')
  | .expLoad2 c k v rm todo k' e' => some (expLoaded sh c k v rm todo k' e')
  | .readStore c k v rm => some (finishNew { sh with readM := rm, amended := true } c k v)
  -- LoadOrStore
  | .losRead1 k v =>
    match alookup k sh.readM with
    | some e => some (sh, .losLoad .fast k v e)
    | none => some (sh, .losLock k v)
  | .losLoad c k v e => some (losLoaded sh c k v e)
  | .losCas c k v e =>
    if (getP sh e).isNil then some (losOk (storeVal sh e v) c k v false) else some (sh, .losLoad2 c k v e)
  | .losLoad2 c k v e => some (losLoaded sh c k v e)
  | .losLock k v => lockStep sh t (.losRead2 k v)
  | .losRead2 k v =>
    match alookup k sh.readM with
    | some e => some (sh, .losUnexp k v e)
    | none =>
      match alookup k (dirtyMap sh) with
      | some e => some (sh, .losLoad .slowDirty k v e)
      | none => some (newTail sh .los k v)
  | .losUnexp k v e =>
    if (getP sh e).isExpunged then some (setDirty (setP sh e .nil) k e, .losLoad .slowRead k v e)
    else some (sh, .losLoad .slowRead k v e)
  | .losMiss _ r => some (unlock (promote sh), .ret r)
  -- LoadAndDelete / Delete
  | .ladRead1 d k =>
    match alookup k sh.readM with
    | some e => some (sh, .delLoad d k e)
    | none => if sh.amended then some (sh, .ladLock d k) else some (sh, .ret (noneRes d))
  | .ladLock d k => lockStep sh t (.ladRead2 d k)
  | .ladRead2 d k =>
    match alookup k sh.readM with
    | some e => some (unlock sh, .delLoad d k e)
    | none =>
      if sh.amended then
        let e := alookup k (dirtyMap sh)
        let m := missStep (delDirty sh k)
        if m.2 then some (m.1, .ladMiss d k e) else some (unlock m.1, ladAfter d k e)
      else some (unlock sh, .ret (noneRes d))
  | .ladMiss d k e => some (unlock (promote sh), ladAfter d k e)
  | .delLoad d k e =>
    match getP sh e with
    | .val i w => some (sh, .delCas d k e (.val i w))
    | _ => some (sh, .ret (noneRes d))
  | .delCas d k e p =>
    -- `return *(*T)(p), true`: `p` is the address the CAS just found in `e.p`; the memory behind a published value
    -- pointer is never written again, so dereferencing `p` yields the value behind the current pointer
    if (getP sh e).same p then some (setP sh e .nil, .ret (if d then .done else .val (getP sh e).value?))
    else some (sh, .delLoad d k e)
  -- Range
  | .rangeRead1 => if sh.amended then some (sh, .rangeLock) else some (sh, rangeNext sh.readM [])
  | .rangeLock => lockStep sh t .rangeRead2
  | .rangeRead2 =>
    if sh.amended then some (sh, .rangeStore (dirtyMap sh)) else some (unlock sh, rangeNext sh.readM [])
  | .rangeStore dm =>
    some (unlock { sh with readM := dm, amended := false, dirty := none, misses := 0 }, rangeNext dm [])
  | .rangeLoad todo acc k' e' =>
    match getP sh e' with
    | .val _ w => some (sh, rangeNext todo (acc ++ [(k', w)]))
    | _ => some (sh, rangeNext todo acc)

/-- the choices of a goroutine parked at the head of a `for k, e := range read.m` iteration -/
def picks : Pc K V → List (K × Pc K V)
  | .dirtyPick c k v rm todo => todo.map (fun p => (p.1, .expLoad c k v rm (aerase p.1 todo) p.1 p.2))
  | .rangePick todo acc => todo.map (fun p => (p.1, .rangeLoad (aerase p.1 todo) acc p.1 p.2))
  | _ => []

/-! ### the transition system -/

inductive Event (K V : Type) where
  | inv (t : Tid) (op : Op K V)
  | res (t : Tid) (r : Res K V)
  deriving Repr, DecidableEq

def State.pc (s : State K V) (t : Tid) : Pc K V := s.pcs.getD t .idle

def setPc (s : State K V) (t : Tid) (sh : Shared K V) (pc : Pc K V) : State K V :=
  { sh := sh, pcs := s.pcs.set t pc }

/-- all steps of goroutine `t` -/
def stepT [Inhabited V] (menu : List (Op K V)) (s : State K V) (t : Tid) : List (Option (Event K V) × State K V) :=
  match s.pc t with
  | .idle => menu.map (fun op => (some (.inv t op), setPc s t s.sh (.start op)))
  | .ret r => [(some (.res t r), setPc s t s.sh .idle)]
  | pc =>
    (match exec s.sh t pc with
     | some (sh', pc') => [(none, setPc s t sh' pc')]
     | none => []) ++
    (picks pc).map (fun c => (none, setPc s t s.sh c.2))

def succ [Inhabited V] (menu : List (Op K V)) (s : State K V) : List (Option (Event K V) × State K V) :=
  (List.range s.pcs.length).flatMap (stepT menu s)

def init (n : Nat) (zst : Bool := false) : State K V := { sh := { zst := zst }, pcs := List.replicate n .idle }

/-- `n` goroutines (any number) calling operations from `menu` (any finite menu) in any order, interleaved at the
granularity of the atomic actions of `map.go` -/
abbrev sys (K V : Type) [DecidableEq K] [Inhabited V] (menu : List (Op K V)) (n : Nat) (zst : Bool := false) : Conc.Sys :=
  { State := State K V, Event := Event K V, init := init n zst, succ := succ menu }

end TypVerif.Model.SyncMapConc
