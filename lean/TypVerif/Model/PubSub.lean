import TypVerif.Conc.Sys
import TypVerif.Model.PubSubState
/-
Transition system of the PubSub model.  Granularity (DESIGN §7.1): a step starts at an atomic action
(mutex acquire, channel operation, WaitGroup operation, timer) and runs to just before the next one;
mutex releases and lock-protected plain accesses are merged into the preceding step.  A writer's whole
critical section (Lock; subIndex; close…; remove; Unlock) is ONE step (Lock is a right mover, `close`
never blocks), so `rw.writer` is never observed `true`; the closes of UnsubAll are thereby atomic together.
Every task creation is a visible invocation event taken from `cfg.env`; everything else is internal
except the response / receive / callback events.
-/
namespace TypVerif.Model.PubSub
open TypVerif

/-! ### helpers -/

def State.obj (s : State) (o : Nat) : ObjSt := s.objs.getD o {}
def State.setObj (s : State) (o : Nat) (x : ObjSt) : State := { s with objs := s.objs.set o x }
def State.setTask (s : State) (i : Nat) (t : Task) : State := { s with tasks := s.tasks.set i t }
def State.spawn (s : State) (ts : List Task) : State := { s with tasks := s.tasks ++ ts }

def getChan (cs : List ChanSt) (c : Chan) : Option ChanSt := cs.find? (fun ch => ch.id == c)
def hasChan (cs : List ChanSt) (c : Chan) : Bool := cs.any (fun ch => ch.id == c)
def isClosed (cs : List ChanSt) (c : Chan) : Bool := cs.any (fun ch => ch.id == c && ch.closed)
def updChan (cs : List ChanSt) (c : Chan) (f : ChanSt → ChanSt) : List ChanSt :=
  cs.map (fun ch => if ch.id == c then f ch else ch)
def closeChan (cs : List ChanSt) (c : Chan) : List ChanSt := updChan cs c (fun ch => { ch with closed := true })

/-- the closes of UnsubAll, in order; `none` = close of a closed channel -/
def closeAll : List ChanSt → List Chan → Option (List ChanSt)
  | cs, [] => some cs
  | cs, c :: rest => if isClosed cs c then none else closeAll (closeChan cs c) rest

/-! RWMutex by contract -/
def RW.canRLock (rw : RW) : Bool := !rw.writer && rw.waiting == 0
def RW.canLock (rw : RW) : Bool := rw.readers == 0 && !rw.writer
def RW.rlock (rw : RW) : RW := { rw with readers := rw.readers + 1 }
def RW.runlock (rw : RW) : RW := { rw with readers := rw.readers - 1 }
def RW.announce (rw : RW) : RW := { rw with waiting := rw.waiting + 1 }
/-- Lock acquired and (after the critical section, same step) released -/
def RW.lockUnlock (rw : RW) : RW := { rw with waiting := rw.waiting - 1 }

def State.rlock (s : State) (o : Nat) : State := s.setObj o { s.obj o with rw := (s.obj o).rw.rlock }
def State.runlock (s : State) (o : Nat) : State := s.setObj o { s.obj o with rw := (s.obj o).rw.runlock }
def State.announce (s : State) (o : Nat) : State := s.setObj o { s.obj o with rw := (s.obj o).rw.announce }

/-- the (event, subscriber) pairs of one publish call, in the order of the Go loops -/
def mkItems (p : Nat) (evs : List Int) (subs : List Chan) : List Item :=
  (evs.zipIdx).flatMap (fun ei => subs.map (fun c => { pid := p, idx := ei.2, ev := ei.1, c := c }))

inductive SendRes where
  | blocked
  | panic
  | sent (s : State)

/-- `ch <- v`: panics on a closed channel; proceeds when the buffer has room, or (unbuffered) when the
receiver of the channel is waiting — then the value goes straight to the receiver -/
def sendTo (s : State) (it : Item) : SendRes :=
  match getChan s.chans it.c with
  | none => .blocked
  | some ch =>
    if ch.closed then .panic
    else if ch.buf.length < ch.cap then
      .sent { s with chans := updChan s.chans it.c (fun ch => { ch with buf := ch.buf ++ [it.ev] }),
                     delivered := s.delivered ++ [(it.pid, it.idx, it.c)] }
    else if ch.cap == 0 && ch.allow > 0 && ch.holding.isNone && !ch.rdone then
      .sent { s with chans := updChan s.chans it.c (fun ch => { ch with holding := some it.ev, allow := ch.allow - 1 }),
                     delivered := s.delivered ++ [(it.pid, it.idx, it.c)] }
    else .blocked

def State.logTimeout (s : State) (it : Item) : State :=
  { s with timedOut := s.timedOut ++ [(it.pid, it.idx, it.c)] }

def State.panic (s : State) (m : String) : State := { s with panicked := some m }


abbrev Steps := List (Option Event × State)

/-- wg.Done() -/
def wgDone (s : State) (w : Nat) : State :=
  if s.wgs.getD w 0 == 0 then s.panic "other" else { s with wgs := s.wgs.set w (s.wgs.getD w 0 - 1) }

/-- `send` = SendTimeout + OnPubTimeout for one item. `cb`: the timer has fired, the callback is pending.
`fin` continues after the hand-off ended (either way), `setCb` records the pending callback. -/
def stepSend (cfg : Cfg) (s : State) (it : Item) (cb : Bool) (fin setCb : State → State) : Steps :=
  if cb then [(some (.tmo it.ev), fin s)]
  else
    (match sendTo s it with
     | .blocked => []
     | .panic => [(none, s.panic "send-on-closed")]
     | .sent s' => [(none, fin s')])
    ++ (if cfg.timeout > 0 then [(none, setCb (s.logTimeout it))] else [])

/-! ### publishers -/

def stepPubStart (s : State) (i p o : Nat) (v : Variant) (evs : List Int) : Steps :=
  if !(s.obj o).rw.canRLock then [] else
  let items := mkItems p evs (s.obj o).subs
  if v.isSync then
    match items with
    | [] => [(none, s.setTask i (.pubRet p))]
    | _ :: _ => [(none, (s.rlock o).setTask i (.syncLoop p o items false))]
  else if v.isWait then
    [(none, ({ (s.rlock o) with wgs := s.wgs ++ [items.length] }.setTask i (.waitWg p o s.wgs.length)).spawn
        (items.map (fun it => .wgSend o s.wgs.length it false)))]
  else
    [(none, (s.setTask i (.pubRet p)).spawn (items.map (fun it => .asyncStart o it)))]

def syncAdvance (i p o : Nat) (rest : List Item) (s : State) : State :=
  match rest with
  | [] => (s.runlock o).setTask i (.pubRet p)
  | _ :: _ => s.setTask i (.syncLoop p o rest false)

def stepSyncLoop (cfg : Cfg) (s : State) (i p o : Nat) (work : List Item) (cb : Bool) : Steps :=
  match work with
  | [] => []
  | it :: rest =>
    stepSend cfg s it cb (syncAdvance i p o rest) (fun s => s.setTask i (.syncLoop p o (it :: rest) true))

def stepWaitWg (s : State) (i p o w : Nat) : Steps :=
  if s.wgs.getD w 0 == 0 then [(none, (s.runlock o).setTask i (.pubRet p))] else []

def stepAsyncStart (s : State) (i o : Nat) (it : Item) : Steps :=
  if !(s.obj o).rw.canRLock then [] else
  if it.c ∈ (s.obj o).subs then [(none, (s.rlock o).setTask i (.asyncSend o it false))]
  else [(none, s.setTask i .done)]

def stepAsyncSend (cfg : Cfg) (s : State) (i o : Nat) (it : Item) (cb : Bool) : Steps :=
  stepSend cfg s it cb (fun s => (s.runlock o).setTask i .done) (fun s => s.setTask i (.asyncSend o it true))

def stepWgSend (cfg : Cfg) (s : State) (i o w : Nat) (it : Item) (cb : Bool) : Steps :=
  stepSend cfg s it cb (fun s => (wgDone s w).setTask i .done) (fun s => s.setTask i (.wgSend o w it true))


/-! ### Sub / Unsub / UnsubAll / WithOnly -/

def stepSubWait (s : State) (i o : Nat) (c : Chan) (cap : Nat) : Steps :=
  if !(s.obj o).rw.canLock || hasChan s.chans c then [] else
  [(none, ({ s with chans := s.chans ++ [({ id := c, cap := cap } : ChanSt)] }.setObj o
      { s.obj o with subs := (s.obj o).subs ++ [c], rw := (s.obj o).rw.lockUnlock }).setTask i (.subRet c))]

def stepUnsubWait (s : State) (i u o : Nat) (c : Chan) : Steps :=
  if !(s.obj o).rw.canLock then [] else
  if c ∈ (s.obj o).subs then
    if isClosed s.chans c then [(none, s.panic "close-of-closed")]
    else [(none, ({ s with chans := closeChan s.chans c }.setObj o
      { s.obj o with subs := (s.obj o).subs.erase c, rw := (s.obj o).rw.lockUnlock }).setTask i (.unsubRet u .nil))]
  else [(none, (s.setObj o { s.obj o with rw := (s.obj o).rw.lockUnlock }).setTask i (.unsubRet u .already))]

def stepUaWait (s : State) (i u o : Nat) : Steps :=
  if !(s.obj o).rw.canLock then [] else
  match closeAll s.chans (s.obj o).subs with
  | none => [(none, s.panic "close-of-closed")]
  | some cs => [(none, ({ s with chans := cs }.setObj o
      { s.obj o with subs := [], rw := (s.obj o).rw.lockUnlock }).setTask i (.uaRet u))]

def stepWoStart (s : State) (i w o : Nat) (c : Chan) : Steps :=
  if !(s.obj o).rw.canRLock then [] else
  [(none, (s.setObj w { subs := (s.obj o).subs.filter (fun x => x == c), rw := {}, only := some c, ready := true }).setTask i .done)]

/-- all steps of the task at position `i` -/
def stepTask (cfg : Cfg) (s : State) (i : Nat) : Task → Steps
  | .pubStart p o v evs => stepPubStart s i p o v evs
  | .syncLoop p o work cb => stepSyncLoop cfg s i p o work cb
  | .waitWg p o w => stepWaitWg s i p o w
  | .pubRet p => [(some (.pubret p), s.setTask i .done)]
  | .asyncStart o it => stepAsyncStart s i o it
  | .asyncSend o it cb => stepAsyncSend cfg s i o it cb
  | .wgSend o w it cb => stepWgSend cfg s i o w it cb
  | .subStart o c cap => [(none, (s.announce o).setTask i (.subWait o c cap))]
  | .subWait o c cap => stepSubWait s i o c cap
  | .subRet c => [(some (.subret c), s.setTask i .done)]
  | .unsubStart u _ none => [(none, s.setTask i (.unsubRet u .notinit))]
  | .unsubStart u o (some c) => [(none, (s.announce o).setTask i (.unsubWait u o c))]
  | .unsubWait u o c => stepUnsubWait s i u o c
  | .unsubRet u code => [(some (.unsubret u code), s.setTask i .done)]
  | .uaStart u o => [(none, (s.announce o).setTask i (.uaWait u o))]
  | .uaWait u o => stepUaWait s i u o
  | .uaRet u => [(some (.unsuballret u), s.setTask i .done)]
  | .woStart w o c => stepWoStart s i w o c
  | .done => []

def taskSteps (cfg : Cfg) (s : State) (i : Nat) : Steps :=
  match s.tasks[i]? with
  | none => []
  | some t => stepTask cfg s i t


/-! ### receivers (environment; one per channel, gated by the harness) -/

def recvSteps (s : State) (ch : ChanSt) : Steps :=
  if ch.rdone then [] else
  match ch.holding with
  | some v => [(some (.recv ch.id v), { s with chans := updChan s.chans ch.id (fun x => { x with holding := none }) })]
  | none =>
    if ch.allow == 0 then [] else
    match ch.buf with
    | v :: rest =>
      [(none, { s with chans := updChan s.chans ch.id (fun x => { x with buf := rest, holding := some v, allow := x.allow - 1 }) })]
    | [] => if ch.closed then
              [(some (.closed ch.id), { s with chans := updChan s.chans ch.id (fun x => { x with rdone := true }) })]
            else []

/-! ### invocations (environment) -/

def State.validObj (s : State) (o : Nat) : Bool := o < s.objs.length && (s.obj o).ready

/-- the task is a pending `Sub` that will create channel `c` -/
def subName (c : Chan) : Task → Bool
  | .subStart _ c' _ => c' == c
  | .subWait _ c' _ => c' == c
  | _ => false

/-- the channel name `c` is in use: the channel exists, or a pending `Sub` is going to create it (in the Go code `Sub`
makes a fresh channel and the harness never reuses a name, so the environment cannot issue such a name) -/
def nameTaken (s : State) (c : Chan) : Bool := hasChan s.chans c || s.tasks.any (subName c)

def envStep (cfg : Cfg) (s : State) : Event → Option State
  | .sub c cap =>
    if nameTaken s c then none
    else some (s.spawn [.subStart 0 c (if cap < 0 then cfg.defBuf else cap.toNat)])
  | .mkchan c =>
    if nameTaken s c then none else some { s with chans := s.chans ++ [({ id := c, cap := 0 } : ChanSt)] }
  | .withonly w via c =>
    if cfg.allowClone && w == s.objs.length && s.validObj via then
      some ({ s with objs := s.objs ++ [({ only := some c, ready := false } : ObjSt)] }.spawn [.woStart w via c])
    else none
  | .pubinv p via v evs =>
    if s.pids.contains p || !s.validObj via then none
    else some ({ s with pids := s.pids ++ [p] }.spawn [.pubStart p via v evs])
  | .allow c n =>
    if hasChan s.chans c then some { s with chans := updChan s.chans c (fun ch => { ch with allow := ch.allow + n }) }
    else none
  | .unsubinv u via c =>
    if s.validObj via then some (s.spawn [.unsubStart u via (if c < 0 then none else some c.toNat)]) else none
  | .unsuballinv u via =>
    if s.validObj via then some (s.spawn [.uaStart u via]) else none
  | _ => none

def envSteps (cfg : Cfg) (s : State) : Steps :=
  cfg.env.filterMap (fun e => (envStep cfg s e).map (fun s' => (some e, s')))

def exitSteps (s : State) : Steps :=
  ["ok", "deadlock", "timeout"].map (fun r => (some (.exit r), { s with exited := true }))

def succ (cfg : Cfg) (s : State) : Steps :=
  if s.exited then [] else
  match s.panicked with
  | some m => [(some (.exit ("panic:" ++ m)), { s with exited := true })]
  | none =>
    envSteps cfg s
    ++ (List.range s.tasks.length).flatMap (taskSteps cfg s)
    ++ s.chans.flatMap (recvSteps s)
    ++ exitSteps s

def sys (cfg : Cfg) : Conc.Sys where
  State := State
  Event := Event
  init := {}
  succ := succ cfg

instance (cfg : Cfg) : BEq (sys cfg).State := inferInstanceAs (BEq State)
instance (cfg : Cfg) : BEq (sys cfg).Event := inferInstanceAs (BEq Event)

end TypVerif.Model.PubSub
