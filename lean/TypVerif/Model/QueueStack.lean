import TypVerif.Model.LinkedList
/-
Models of `/repo/lists/queue.go` and `/repo/lists/stack.go`.

`Queue[T]` is `struct{ list List[T] }`: the embedded list is list 0 of a heap of `Model/LinkedList.lean`;
the zero value of a Queue is the zero value of that list (lazily initialised by the first PushFront).
`Stack[T]` is `[]T`; a single-owner slice that is only ever appended to and re-sliced from the end is
its contents (`List Int`); the index expression `slice[lastIdx]` keeps its bounds check.
-/
namespace TypVerif.Model.Queue
open TypVerif.Spec.ListOp
open TypVerif.Model.LinkedList

/-- the list cell of `q.list` -/
def qlist : ListId := 0

inductive Op where
  | enq (v : Int)
  | deq
  | peek
  | len
  deriving Repr

inductive Res where
  | ok
  | pair (v : Int) (b : Bool)
  | int (n : Int)
  | panic (msg : String)
  deriving DecidableEq, Repr, Inhabited

/-- `func (q *Queue) Enqueue(value T) { q.list.PushFront(value) }` -/
def enqueue (v : Int) : M Unit := do
  let _ ← pushFront qlist v
  return ()

/-- `elem := q.list.Back(); if elem == nil { return zero, false }; return q.list.Remove(elem), true` -/
def dequeue : M (Int × Bool) := do
  let elem ← back qlist
  if elem = .null then return (0, false) else do
    let v ← removeM qlist elem
    return (v, true)

/-- `elem := q.list.Back(); if elem == nil { return zero, false }; return elem.Value, true` -/
def peek : M (Int × Bool) := do
  let elem ← back qlist
  if elem = .null then return (0, false) else do
    let v ← getValue elem
    return (v, true)

/-- `func (q *Queue) Len() int { return q.list.Len() }` -/
def qlen : M Int := LinkedList.len qlist

def runOp : Op → M Res
  | .enq v => do enqueue v; return .ok
  | .deq => do let r ← dequeue; return .pair r.1 r.2
  | .peek => do let r ← peek; return .pair r.1 r.2
  | .len => do let n ← qlen; return .int n

def step (h : Heap) (op : Op) : Heap × Res :=
  match runOp op h with
  | .ok r h' => (h', r)
  | .panic m h' => (h', .panic m)

def run : Heap → List Op → List Res
  | _, [] => []
  | h, op :: ops => (step h op).2 :: run (step h op).1 ops

def final : Heap → List Op → Heap
  | h, [] => h
  | h, op :: ops => final (step h op).1 ops

end TypVerif.Model.Queue

namespace TypVerif.Model.Stack
open TypVerif.Model.Queue (Op Res)

/-- `func (s *Stack) Push(value T) { *s = append(*s, value) }` -/
def push (s : List Int) (v : Int) : List Int := s ++ [v]

/-- `if s == nil || len(*s) == 0 { return zero, false }; slice := *s; lastVal := slice[len(slice)-1]; return lastVal, true` -/
def peek (s : List Int) : List Int × Res :=
  if s.length = 0 then (s, .pair 0 false) else
    match s[s.length - 1]? with
    | none => (s, .panic "bounds")
    | some lastVal => (s, .pair lastVal true)

/-- `… lastIdx := len(slice) - 1; lastVal := slice[lastIdx]; *s = slice[:lastIdx]; return lastVal, true` -/
def pop (s : List Int) : List Int × Res :=
  if s.length = 0 then (s, .pair 0 false) else
    let lastIdx := s.length - 1
    match s[lastIdx]? with
    | none => (s, .panic "bounds")
    | some lastVal => (s.take lastIdx, .pair lastVal true)

def step (s : List Int) : Op → List Int × Res
  | .enq v => (push s v, .ok)
  | .deq => pop s
  | .peek => peek s
  | .len => (s, .int s.length)

def run : List Int → List Op → List Res
  | _, [] => []
  | s, op :: ops => (step s op).2 :: run (step s op).1 ops

def final : List Int → List Op → List Int
  | s, [] => s
  | s, op :: ops => final (step s op).1 ops

end TypVerif.Model.Stack
