/-
Model of the functional helpers of slices/slices.go and maps/maps.go (C14), each as its Go loop.

The functions only read their slice arguments, so an argument slice is a `List α` (its live contents) and a
returned slice is a new list ("new slice, input unmodified" is decided by the correspondence, DESIGN §6).
`for _, v := range slice` is recursion over the list carrying the loop state; `return` inside the loop is the
early exit of the recursion.  `make([]T, n)` + `result[i] = x` is `List.replicate` + `List.set`;
`append(result, v)` is `result ++ [v]`.  Index expressions that could panic return `Except`.
The `Trim` family returns the window `(offset, length)` of its argument.
A Go map is a key-duplicate-free association list; `for k, v := range m` iterates an arbitrary sequence `it`
(the runtime's order: a permutation of the entries, supplied as a parameter).
-/
namespace TypVerif.Model.Func

variable {α β σ ε κ ν : Type}

def panicBounds {γ : Type} : Except String γ := .error "panic:bounds"

/-! ### Fold / FoldReverse -/

/-- `state := seed; for _, v := range slice { state = acc(state, v) }; return state` -/
def foldLoop (acc : σ → α → σ) : List α → σ → σ
  | [], state => state
  | v :: rest, state => foldLoop acc rest (acc state v)

def fold (s : List α) (seed : σ) (acc : σ → α → σ) : σ := foldLoop acc s seed

/-- `for i := len(slice)-1; i >= 0; i-- { state = acc(state, slice[i]) }`; the counter is `k = i+1` -/
def foldReverseLoop (s : List α) (acc : σ → α → σ) : Nat → σ → Except String σ
  | 0, state => .ok state
  | k + 1, state =>
    match s[k]? with
    | some v => foldReverseLoop s acc k (acc state v)
    | none => panicBounds

def foldReverse (s : List α) (seed : σ) (acc : σ → α → σ) : Except String σ :=
  foldReverseLoop s acc s.length seed

/-! ### Map / MapErr / Filter -/

/-- `for i, v := range slice { result[i] = conv(v) }` -/
def mapLoop (conv : α → β) : List α → Nat → List β → List β
  | [], _, result => result
  | v :: rest, i, result => mapLoop conv rest (i + 1) (result.set i (conv v))

/-- `result := make([]Result, len(slice)); …; return result` -/
def map (s : List α) (conv : α → β) (zero : β) : List β :=
  mapLoop conv s 0 (List.replicate s.length zero)

/-- `result[i], err = conv(v); if err != nil { return nil, err }` -/
def mapErrLoop (conv : α → Except ε β) : List α → Nat → List β → Except ε (List β)
  | [], _, result => .ok result
  | v :: rest, i, result =>
    match conv v with
    | .error e => .error e
    | .ok r => mapErrLoop conv rest (i + 1) (result.set i r)

def mapErr (s : List α) (conv : α → Except ε β) (zero : β) : Except ε (List β) :=
  mapErrLoop conv s 0 (List.replicate s.length zero)

/-- `for _, v := range slice { if match(v) { result = append(result, v) } }` -/
def filterLoop (pred : α → Bool) : List α → List α → List α
  | [], result => result
  | v :: rest, result => if pred v then filterLoop pred rest (result ++ [v]) else filterLoop pred rest result

def filter (s : List α) (pred : α → Bool) : List α := filterLoop pred s []

/-! ### Any / All / Index / IndexFunc / Contains / ContainsFunc -/

def any : List α → (α → Bool) → Bool
  | [], _ => false
  | v :: rest, cond => if cond v then true else any rest cond

def all : List α → (α → Bool) → Bool
  | [], _ => true
  | v :: rest, cond => if !cond v then false else all rest cond

/-- `for i, v := range slice { if f(v) { return i } }; return -1` -/
def indexFuncLoop (f : α → Bool) : List α → Nat → Int
  | [], _ => -1
  | v :: rest, i => if f v then (i : Int) else indexFuncLoop f rest (i + 1)

def indexFunc (s : List α) (f : α → Bool) : Int := indexFuncLoop f s 0

def index [DecidableEq α] (s : List α) (value : α) : Int := indexFuncLoop (fun v => decide (v = value)) s 0

def contains [DecidableEq α] : List α → α → Bool
  | [], _ => false
  | v :: rest, value => if v = value then true else contains rest value

/-- `for _, v := range slice { if equals(v, value) { return true } }` -/
def containsFunc : List α → α → (α → α → Bool) → Bool
  | [], _, _ => false
  | v :: rest, value, equals => if equals v value then true else containsFunc rest value equals

/-! ### Distinct / DistinctFunc / Except / ExceptSet -/

def distinctLoop [DecidableEq α] : List α → List α → List α
  | [], result => result
  | v :: rest, result =>
    if !contains result v then distinctLoop rest (result ++ [v]) else distinctLoop rest result

def distinct [DecidableEq α] (s : List α) : List α := distinctLoop s []

def distinctFuncLoop (equals : α → α → Bool) : List α → List α → List α
  | [], result => result
  | v :: rest, result =>
    if !containsFunc result v equals then distinctFuncLoop equals rest (result ++ [v])
    else distinctFuncLoop equals rest result

def distinctFunc (s : List α) (equals : α → α → Bool) : List α := distinctFuncLoop equals s []

/-- a `maps.Set`: the keys of a Go map, no duplicates -/
def setHas [DecidableEq α] (set : List α) (v : α) : Bool := contains set v
/-- `Set.Add`: `if s.Has(value) { return false }; s[value] = struct{}{}` -/
def setAdd [DecidableEq α] (set : List α) (v : α) : List α := if setHas set v then set else set ++ [v]
/-- `maps.NewSetFromSlice` -/
def newSetFromSlice [DecidableEq α] : List α → List α → List α
  | [], set => set
  | v :: rest, set => newSetFromSlice rest (setAdd set v)

def exceptSetLoop [DecidableEq α] (exclude : List α) : List α → List α → List α
  | [], result => result
  | v :: rest, result =>
    if !setHas exclude v then exceptSetLoop exclude rest (result ++ [v]) else exceptSetLoop exclude rest result

def exceptSet [DecidableEq α] (s exclude : List α) : List α := exceptSetLoop exclude s []

/-- `set := maps.NewSetFromSlice(exclude); return ExceptSet(slice, set)` -/
def except [DecidableEq α] (s exclude : List α) : List α := exceptSet s (newSetFromSlice exclude [])

/-! ### GroupBy / CountBy -/

/-- `v, ok := m[key]` -/
def mapGet [DecidableEq κ] : List (κ × ν) → κ → Option ν
  | [], _ => none
  | (k, v) :: rest, key => if k = key then some v else mapGet rest key

/-- `m[key] = v` -/
def mapSet [DecidableEq κ] : List (κ × ν) → κ → ν → List (κ × ν)
  | [], key, v => [(key, v)]
  | (k, x) :: rest, key, v => if k = key then (k, v) :: rest else (k, x) :: mapSet rest key v

/-- the first loop of GroupBy: `values, ok := m[key]; m[key] = append(values, v); if !ok { orderedKeys = append(orderedKeys, key) }` -/
def groupByLoop [DecidableEq κ] (keyer : α → κ) : List α → List (κ × List α) → List κ → List (κ × List α) × List κ
  | [], m, orderedKeys => (m, orderedKeys)
  | v :: rest, m, orderedKeys =>
    let key := keyer v
    match mapGet m key with
    | some values => groupByLoop keyer rest (mapSet m key (values ++ [v])) orderedKeys
    | none => groupByLoop keyer rest (mapSet m key ([] ++ [v])) (orderedKeys ++ [key])

/-- the second loop: `groups[i] = Grouping{Key: key, Values: m[key]}` (a missing key would read the zero value) -/
def groupByCollect [DecidableEq κ] (m : List (κ × List α)) : List κ → Nat → List (κ × List α) → List (κ × List α)
  | [], _, groups => groups
  | key :: rest, i, groups => groupByCollect m rest (i + 1) (groups.set i (key, (mapGet m key).getD []))

def groupBy [DecidableEq κ] [Inhabited κ] (s : List α) (keyer : α → κ) : List (κ × List α) :=
  let (m, orderedKeys) := groupByLoop keyer s [] []
  groupByCollect m orderedKeys 0 (List.replicate orderedKeys.length (default, []))

def countByLoop [DecidableEq κ] (keyer : α → κ) : List α → List (κ × Int) → List κ → List (κ × Int) × List κ
  | [], m, orderedKeys => (m, orderedKeys)
  | v :: rest, m, orderedKeys =>
    let key := keyer v
    match mapGet m key with
    | some count => countByLoop keyer rest (mapSet m key (count + 1)) orderedKeys
    | none => countByLoop keyer rest (mapSet m key (0 + 1)) (orderedKeys ++ [key])

def countByCollect [DecidableEq κ] (m : List (κ × Int)) : List κ → Nat → List (κ × Int) → List (κ × Int)
  | [], _, groups => groups
  | key :: rest, i, groups => countByCollect m rest (i + 1) (groups.set i (key, (mapGet m key).getD 0))

def countBy [DecidableEq κ] [Inhabited κ] (s : List α) (keyer : α → κ) : List (κ × Int) :=
  let (m, orderedKeys) := countByLoop keyer s [] []
  countByCollect m orderedKeys 0 (List.replicate orderedKeys.length (default, 0))

/-! ### the Trim family: windows `(off, len)` of the argument -/

/-- `for len(slice) > 0 && unwanted(slice[0]) { slice = slice[1:] }` -/
def trimLeftFuncLoop (s : List α) (unwanted : α → Bool) : Nat → Nat × Nat → Except String (Nat × Nat)
  | 0, w => .ok w
  | fuel + 1, (off, len) =>
    if len > 0 then
      match s[off]? with
      | some v => if unwanted v then trimLeftFuncLoop s unwanted fuel (off + 1, len - 1) else .ok (off, len)
      | none => panicBounds
    else .ok (off, len)

/-- `for len(slice) > 0 && unwanted(slice[len(slice)-1]) { slice = slice[:len(slice)-1] }` -/
def trimRightFuncLoop (s : List α) (unwanted : α → Bool) : Nat → Nat × Nat → Except String (Nat × Nat)
  | 0, w => .ok w
  | fuel + 1, (off, len) =>
    if len > 0 then
      match s[off + (len - 1)]? with
      | some v => if unwanted v then trimRightFuncLoop s unwanted fuel (off, len - 1) else .ok (off, len)
      | none => panicBounds
    else .ok (off, len)

def trimLeftFunc (s : List α) (unwanted : α → Bool) : Except String (Nat × Nat) :=
  trimLeftFuncLoop s unwanted (s.length + 1) (0, s.length)

def trimRightFunc (s : List α) (unwanted : α → Bool) : Except String (Nat × Nat) :=
  trimRightFuncLoop s unwanted (s.length + 1) (0, s.length)

/-- `TrimLeftFunc(TrimRightFunc(slice, unwanted), unwanted)` -/
def trimFunc (s : List α) (unwanted : α → Bool) : Except String (Nat × Nat) := do
  let w ← trimRightFuncLoop s unwanted (s.length + 1) (0, s.length)
  trimLeftFuncLoop s unwanted (s.length + 1) w

/-- TrimLeft / TrimRight / Trim: the same loops with `Contains(unwanted, ·)` as the test -/
def trimLeft [DecidableEq α] (s unwanted : List α) : Except String (Nat × Nat) :=
  trimLeftFunc s (fun v => contains unwanted v)
def trimRight [DecidableEq α] (s unwanted : List α) : Except String (Nat × Nat) :=
  trimRightFunc s (fun v => contains unwanted v)
def trim [DecidableEq α] (s unwanted : List α) : Except String (Nat × Nat) :=
  trimFunc s (fun v => contains unwanted v)

/-- the contents of a window -/
def window (s : List α) (w : Nat × Nat) : List α := (s.drop w.1).take w.2

/-! ### TryGet / SafeGet / SafeGetOr / Last (Go `int` index) -/

/-- `slice[index]` for an `int` index -/
def at_ (s : List α) (index : Int) : Except String α :=
  if index < 0 then panicBounds
  else match s[index.toNat]? with
    | some v => .ok v
    | none => panicBounds

def tryGet (s : List α) (index : Int) (zero : α) : Except String (α × Bool) :=
  if index < 0 || index ≥ s.length then .ok (zero, false)
  else do let v ← at_ s index; pure (v, true)

def safeGet (s : List α) (index : Int) (zero : α) : Except String α :=
  if index < 0 || index ≥ s.length then .ok zero else at_ s index

def safeGetOr (s : List α) (index : Int) (fallback : α) : Except String α :=
  if index < 0 || index ≥ s.length then .ok fallback else at_ s index

/-- `return slice[len(slice)-1]` -/
def last (s : List α) : Except String α := at_ s ((s.length : Int) - 1)

/-! ### map helpers (`it` = the entries in the runtime's iteration order) -/

def mapDelete [DecidableEq κ] : List (κ × ν) → κ → List (κ × ν)
  | [], _ => []
  | (k, x) :: rest, key => if k = key then rest else (k, x) :: mapDelete rest key

/-- `for _, v := range m { if v == value { return true } }; return false` -/
def containsValue [DecidableEq ν] : List (κ × ν) → ν → Bool
  | [], _ => false
  | (_, v) :: rest, value => if v = value then true else containsValue rest value

/-- `for k, v := range m { if v == value { return k, true } }; return zero, false` -/
def keyOf [DecidableEq ν] : List (κ × ν) → ν → κ → κ × Bool
  | [], _, zero => (zero, false)
  | (k, v) :: rest, value, zero => if v = value then (k, true) else keyOf rest value zero

/-- `newMap := make(M, len(m)); for k, v := range m { newMap[k] = v }` -/
def mcloneLoop [DecidableEq κ] : List (κ × ν) → List (κ × ν) → List (κ × ν)
  | [], newMap => newMap
  | (k, v) :: rest, newMap => mcloneLoop rest (mapSet newMap k v)

def mclone [DecidableEq κ] (it : List (κ × ν)) : List (κ × ν) := mcloneLoop it []

/-- `for k := range m { delete(m, k) }` -/
def mclear [DecidableEq κ] : List (κ × ν) → List (κ × ν) → List (κ × ν)
  | [], m => m
  | (k, _) :: rest, m => mclear rest (mapDelete m k)

/-- `_, ok := m[key]; return ok` -/
def hasKey [DecidableEq κ] (m : List (κ × ν)) (key : κ) : Bool := (mapGet m key).isSome

def keysLoop : List (κ × ν) → List κ → List κ
  | [], keys => keys
  | (k, _) :: rest, keys => keysLoop rest (keys ++ [k])
def keys (it : List (κ × ν)) : List κ := keysLoop it []

def valuesLoop : List (κ × ν) → List ν → List ν
  | [], values => values
  | (_, v) :: rest, values => valuesLoop rest (values ++ [v])
def values (it : List (κ × ν)) : List ν := valuesLoop it []

end TypVerif.Model.Func
