/-
The Go slice primitive (trusted by contract: Go spec "Slice types", "Appending to and copying slices").

A heap maps backing-array ids to the cells of that array; a slice value is a header
`(bid, off, len, cap)`: the window `cells[off .. off+len)` of backing array `bid`, extensible up to
`off+cap`.  `cap` is counted from `off`, as in Go (`cap(s[lo:hi]) = cap(s) - lo`).

* `slice s lo hi`   — `s[lo:hi]`, legal iff `lo ≤ hi ≤ cap(s)` (NOT `len`), shares the backing array;
* `getIdx` / `setIdx` — `s[i]`, legal iff `i < len(s)`;
* `append`          — writes in place when `len + k ≤ cap`, else allocates a new backing array holding the
                      old contents, the appended values and `spare` further cells (the runtime's growth
                      policy is the parameter `spare`; no theorem depends on it);
* `copy dst src`    — `memmove` of `min(len dst, len src)` cells: the source range is read (snapshot)
                      before anything is written, so overlapping windows of one backing array are fine;
* `make`            — a fresh backing array filled with the zero value.

Panics are `Except.error "panic:bounds"`.
-/
namespace TypVerif.Model.GoSlice

structure Slice where
  bid : Nat
  off : Nat
  len : Nat
  cap : Nat
  deriving Repr, DecidableEq

structure Heap (α : Type) where
  cells : Nat → List α
  next : Nat

variable {α : Type}

def Heap.empty : Heap α := { cells := fun _ => [], next := 0 }

/-- replace the cells of backing array `b` -/
def Heap.write (h : Heap α) (b : Nat) (m : List α) : Heap α :=
  { h with cells := fun x => if x = b then m else h.cells x }

/-- allocate a new backing array -/
def Heap.alloc (h : Heap α) (m : List α) : Heap α × Nat :=
  ({ cells := fun x => if x = h.next then m else h.cells x, next := h.next + 1 }, h.next)

/-- overwrite `data.length` cells of `m` starting at `pos` -/
def writeAt (m : List α) (pos : Nat) (data : List α) : List α :=
  m.take pos ++ data ++ m.drop (pos + data.length)

/-- the live window of a slice -/
def contents (h : Heap α) (s : Slice) : List α := ((h.cells s.bid).drop s.off).take s.len

/-- well-formed slice header -/
def WF (h : Heap α) (s : Slice) : Prop :=
  s.len ≤ s.cap ∧ s.off + s.cap ≤ (h.cells s.bid).length ∧ s.bid < h.next

def panicBounds {β : Type} : Except String β := .error "panic:bounds"

/-- `s[lo:hi]` -/
def slice (s : Slice) (lo hi : Nat) : Except String Slice :=
  if lo ≤ hi ∧ hi ≤ s.cap then .ok { bid := s.bid, off := s.off + lo, len := hi - lo, cap := s.cap - lo }
  else panicBounds

/-- `s[lo:]` -/
def sliceFrom (s : Slice) (lo : Nat) : Except String Slice := slice s lo s.len
/-- `s[:hi]` -/
def sliceTo (s : Slice) (hi : Nat) : Except String Slice := slice s 0 hi

/-- `s[i]` (the `none` branch is unreachable for a well-formed header) -/
def getIdx (h : Heap α) (s : Slice) (i : Nat) : Except String α :=
  if i < s.len then
    match (h.cells s.bid)[s.off + i]? with
    | some v => .ok v
    | none => .error "corrupt-header"
  else panicBounds

/-- `s[i] = v` -/
def setIdx (h : Heap α) (s : Slice) (i : Nat) (v : α) : Except String (Heap α) :=
  if i < s.len then .ok (h.write s.bid ((h.cells s.bid).set (s.off + i) v))
  else panicBounds

/-- `copy(dst, …)` from a source whose cells have been read already (`data`) -/
def copyData (h : Heap α) (dst : Slice) (data : List α) : Heap α × Nat :=
  let n := min dst.len data.length
  (h.write dst.bid (writeAt (h.cells dst.bid) dst.off (data.take n)), n)

/-- `copy(dst, src)`: memmove semantics — snapshot the source window, then write -/
def copy (h : Heap α) (dst src : Slice) : Heap α × Nat :=
  copyData h dst (contents h src)

/-- `append(s, vs...)` -/
def append (h : Heap α) (s : Slice) (vs : List α) (spare : List α) : Heap α × Slice :=
  if s.len + vs.length ≤ s.cap then
    (h.write s.bid (writeAt (h.cells s.bid) (s.off + s.len) vs), { s with len := s.len + vs.length })
  else
    let (h', b) := h.alloc (contents h s ++ vs ++ spare)
    (h', { bid := b, off := 0, len := s.len + vs.length, cap := s.len + vs.length + spare.length })

/-- `make([]E, len, cap)` (cap ≥ len) -/
def make (h : Heap α) (zero : α) (len cap : Nat) : Heap α × Slice :=
  let (h', b) := h.alloc (List.replicate cap zero)
  (h', { bid := b, off := 0, len := len, cap := cap })

/-- a slice literal / an argument built by the caller: its own backing array with `extra` further cells -/
def ofList (h : Heap α) (xs : List α) (extra : List α) (capExtra : Nat) : Heap α × Slice :=
  let (h', b) := h.alloc (xs ++ extra)
  (h', { bid := b, off := 0, len := xs.length, cap := xs.length + capExtra })

end TypVerif.Model.GoSlice
