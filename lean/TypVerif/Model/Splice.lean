import TypVerif.Model.GoSlice
/-
Model of slices.Insert / InsertSlice / Remove / RemoveSlice / Fill / Repeat / Concat / Clone / Grow
(slices/slices.go) and slices.Reverse (slices/sort.go), statement by statement over the Go slice primitive.

Indices are `Nat`: a negative Go index always ends in `panic:bounds` in these functions (the judge answers that
directly); a negative `length`/`n`/`count` is outside the model (`unmodelled`).
`*slice` is threaded as a value: every function returns the new heap and the new header.
`spare` is the runtime's choice of extra capacity when `append` reallocates.
-/
namespace TypVerif.Model.Splice
open TypVerif.Model.GoSlice

variable {α : Type}

/--
```go
*slice = append(*slice, value)
copy((*slice)[index+1:], (*slice)[index:])
(*slice)[index] = value
``` -/
def insert (h : Heap α) (s : Slice) (index : Nat) (value : α) (spare : List α) :
    Except String (Heap α × Slice) := do
  let (h, s) := append h s [value] spare
  let dst ← sliceFrom s (index + 1)
  let src ← sliceFrom s index
  let (h, _) := copy h dst src
  let h ← setIdx h s index value
  pure (h, s)

/--
```go
*slice = append(*slice, values...)
copy((*slice)[index+len(values):], (*slice)[index:])
copy((*slice)[index:], values)
``` -/
def insertSlice (h : Heap α) (s : Slice) (index : Nat) (values : Slice) (spare : List α) :
    Except String (Heap α × Slice) := do
  let (h, s) := append h s (contents h values) spare
  let dst ← sliceFrom s (index + values.len)
  let src ← sliceFrom s index
  let (h, _) := copy h dst src
  let dst2 ← sliceFrom s index
  let (h, _) := copy h dst2 values
  pure (h, s)

/--
```go
copy((*slice)[index:], (*slice)[index+1:])
*slice = (*slice)[:len(*slice)-1]
``` -/
def remove (h : Heap α) (s : Slice) (index : Nat) : Except String (Heap α × Slice) := do
  let dst ← sliceFrom s index
  let src ← sliceFrom s (index + 1)
  let (h, _) := copy h dst src
  -- `len-1` is negative for an empty slice (unreachable: the slice expression above has panicked already)
  if s.len < 1 then panicBounds
  else
    let s ← sliceTo s (s.len - 1)
    pure (h, s)

/--
```go
copy((*slice)[index:], (*slice)[index+length:])
*slice = (*slice)[:len(*slice)-length]
``` -/
def removeSlice (h : Heap α) (s : Slice) (index length : Nat) : Except String (Heap α × Slice) := do
  let dst ← sliceFrom s index
  let src ← sliceFrom s (index + length)
  let (h, _) := copy h dst src
  if s.len < length then panicBounds
  else
    let s ← sliceTo s (s.len - length)
    pure (h, s)

/-- `for i := 1; i < len(slice); i += i { copy(slice[i:], slice[:i]) }`; also counts the iterations -/
def fillLoop (s : Slice) : Nat → Nat → Heap α → Nat → Except String (Heap α × Nat)
  | 0, _, h, iters => pure (h, iters)
  | fuel + 1, i, h, iters =>
    if i < s.len then do
      let dst ← sliceFrom s i
      let src ← sliceTo s i
      let (h, _) := copy h dst src
      fillLoop s fuel (i + i) h (iters + 1)
    else pure (h, iters)

/--
```go
if len(slice) == 0 { return }
slice[0] = value
for i := 1; i < len(slice); i += i { copy(slice[i:], slice[:i]) }
``` -/
def fillIters (h : Heap α) (s : Slice) (value : α) : Except String (Heap α × Nat) := do
  if s.len = 0 then pure (h, 0)
  else
    let h ← setIdx h s 0 value
    fillLoop s s.len 1 h 0

def fill (h : Heap α) (s : Slice) (value : α) : Except String (Heap α) := do
  let (h, _) ← fillIters h s value
  pure h

/--
```go
result := make([]E, count)
Fill(result, value)
return result
``` -/
def repeat_ (h : Heap α) (zero value : α) (count : Nat) : Except String (Heap α × Slice) := do
  let (h, result) := make h zero count count
  let h ← fill h result value
  pure (h, result)

/-- `for i, j := 0, len(slice)-1; i < len(slice)/2; i, j = i+1, j-1 { slice[i], slice[j] = slice[j], slice[i] }`
(`j` never becomes negative while the loop runs; for an empty slice the initial `-1` is never used) -/
def reverseLoop (s : Slice) : Nat → Nat → Nat → Heap α → Except String (Heap α)
  | 0, _, _, h => pure h
  | fuel + 1, i, j, h =>
    if i < s.len / 2 then do
      let a ← getIdx h s j
      let b ← getIdx h s i
      let h ← setIdx h s i a
      let h ← setIdx h s j b
      reverseLoop s fuel (i + 1) (j - 1) h
    else pure h

def reverse (h : Heap α) (s : Slice) : Except String (Heap α) :=
  reverseLoop s (s.len / 2) 0 (s.len - 1) h

/--
```go
result := make(S, len(a)+len(b))
copy(result[:len(a)], a)
copy(result[len(a):], b)
return result
``` -/
def concat (h : Heap α) (zero : α) (a b : Slice) : Except String (Heap α × Slice) := do
  let (h, result) := make h zero (a.len + b.len) (a.len + b.len)
  let d1 ← sliceTo result a.len
  let (h, _) := copy h d1 a
  let d2 ← sliceFrom result a.len
  let (h, _) := copy h d2 b
  pure (h, result)

/--
```go
newSlice := make(S, len(slice))
copy(newSlice, slice)
return newSlice
``` -/
def clone (h : Heap α) (zero : α) (s : Slice) : Heap α × Slice :=
  let (h, newSlice) := make h zero s.len s.len
  let (h, _) := copy h newSlice s
  (h, newSlice)

/-- `return append(slice, make(S, n)...)` (the temporary is never materialised: Go ≥ 1.11) -/
def grow (h : Heap α) (zero : α) (s : Slice) (n : Nat) (spare : List α) : Heap α × Slice :=
  append h s (List.replicate n zero) spare

end TypVerif.Model.Splice
