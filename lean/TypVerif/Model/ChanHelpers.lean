import TypVerif.Conc.Sys
import TypVerif.Model.Chan
/-
Model of the six channel helpers of `/repo/chans/chans.go` (DESIGN §8/C19), on the channel contract
of `Model/Chan.lean`.

## Queued receivers (sequential: the function runs on the channel value alone)

    func RecvQueued(ch, maxValues) []V {            func RecvQueuedFull(ch, buf) int {
        var buffer []V                                   var index int
        for len(buffer) < maxValues {                    for index < len(buf) {
            select {                                         select {
            case v, ok := <-ch:                              case v, ok := <-ch:
                if !ok { return buffer }                         if !ok { return index }
                buffer = append(buffer, v)                       buf[index] = v
            default:                                             index++
                return buffer                                default:
            }                                                    return index
        }                                                    }
        return buffer                                    }
    }                                                    return index }

The loops are structural recursion on a fuel argument (`maxValues+1` resp. `len(buf)+1`, shown sufficient:
the result never carries `Stop.fuel`).  Every iteration executes exactly one `select` with a `default`
case (`Chan.trySelectRecv`, which never blocks); `steps` counts them.

## Timed helpers (transition systems, all schedules, arbitrary environment)

    func SendTimeout(ch, value, timeout) bool {     func SendContext(ctx, ch, value) bool {
        if timeout <= 0 {              -- start          select {                      -- sel / wait
            ch <- value                -- blk            case ch <- value: return true
            return true                                  case <-ctx.Done(): return false
        }                                                }
        timer := time.NewTimer(timeout) -- start     }
        select {                       -- sel / wait
        case ch <- value:
            timer.Stop()               -- stop
            return true
        case <-timer.C: return false
        }
    }
`RecvTimeout` / `RecvContext` are the same with `value, ok := <-ch` and `return value, ok` resp.
`return 0, false`.

Program counters of the helper goroutine: `start` (the `timeout <= 0` test and `time.NewTimer`),
`blk` (the plain blocking statement of the non-positive-timeout path), `sel` (the `select` statement polls
its cases: any ready case may be chosen; if neither the buffer/closed flag makes the channel case ready nor
the timer/context case is ready the goroutine parks — a possible hand-off partner does not prevent
parking, because whether the peer has already arrived is up to the scheduler), `wait` (parked in the
`select`: woken through whichever case becomes ready), `stop` (`timer.Stop()`), `done r` (returned `r`).

`select` = nondeterministic choice among the enabled cases.  The timer / context case is enabled iff
the flag `fired` is set; an internal environment step sets it: for a timer at any time once it is armed
(`armed`, set by `time.NewTimer`), for a context at any time if `mayCancel` (and it may already be set
before the call: `pre`).  With `promptPoll` (a *timing assumption* used only by the judge's scenario
exploration, Appendix C of DESIGN: timers are ≥ 1 ms) the flag is not set before the helper has polled
its `select` once, i.e. only while the helper is parked.  The theorems hold for both values.

Environment (arbitrary, all interleavings): peers may receive up to `peerRecvs` values (each receive
takes the head of the buffer and appends it to the ghost list `taken`), peers send the values
`peerSends` one after the other at any time (each send needs room, like any send), and — on the
receive side only — may close the channel if `mayClose` (never while values are still to be sent: a
peer send is enabled only on an open channel, a send on a closed channel would be the environment's
panic).  With `lateRecv` the peers receive only after the helper returned (scenario `peer = 2`).

Unbuffered channels / rendezvous: a *hand-off* step passes a value directly from a sender to a receiver
when the buffer is empty and the receiver is available (a peer with receive budget left; the helper at
a receive statement).  It moves both parties in one step and leaves the buffer untouched, so it works
for `cap = 0`, where `Chan.canSend` is never true.  For buffered channels it is equivalent to
enqueue-then-dequeue.

Ghost state: `taken` (peers' receipts in order), `sendFired` / `recvFired` (the helper's channel
statement or channel case executed), on the receive side `consumed` (what the helper received), `sent`
(everything that ever entered the channel including the initial content, in order), `log` (everything
ever delivered to any receiver, in order), `headAt` (the head of the buffer — or the value offered by
the hand-off — at the helper's receive step).
-/
namespace TypVerif.Model.ChanHelpers
open TypVerif TypVerif.Model.Chan

/-! ### queued receivers -/

/-- why a queued receiver stopped -/
inductive Stop where
  | limit     -- the loop condition failed
  | closed    -- `!ok`: closed and drained
  | default   -- the `default` case: nothing queued
  | fuel      -- model artefact, never happens (theorem)
  deriving DecidableEq, Repr

structure QRes where
  buffer : List Int
  ch : Chan
  steps : Nat
  stop : Stop
  deriving DecidableEq, Repr

def recvQueuedLoop (maxValues : Int) : Nat → Chan → List Int → Nat → QRes
  | 0, c, buffer, steps => ⟨buffer, c, steps, .fuel⟩
  | fuel + 1, c, buffer, steps =>
    if (buffer.length : Int) < maxValues then
      match c.trySelectRecv with
      | some ((v, ok), c') =>
        if !ok then ⟨buffer, c', steps + 1, .closed⟩
        else recvQueuedLoop maxValues fuel c' (buffer ++ [v]) (steps + 1)
      | none => ⟨buffer, c, steps + 1, .default⟩
    else ⟨buffer, c, steps, .limit⟩

def recvQueued (c : Chan) (maxValues : Int) : QRes :=
  recvQueuedLoop maxValues (maxValues.toNat + 1) c [] 0

structure QFRes where
  n : Nat
  buf : List Int
  ch : Chan
  steps : Nat
  stop : Stop
  deriving DecidableEq, Repr

def recvQueuedFullLoop : Nat → Chan → List Int → Nat → Nat → QFRes
  | 0, c, buf, index, steps => ⟨index, buf, c, steps, .fuel⟩
  | fuel + 1, c, buf, index, steps =>
    if index < buf.length then
      match c.trySelectRecv with
      | some ((v, ok), c') =>
        if !ok then ⟨index, buf, c', steps + 1, .closed⟩
        else recvQueuedFullLoop fuel c' (buf.set index v) (index + 1) (steps + 1)
      | none => ⟨index, buf, c, steps + 1, .default⟩
    else ⟨index, buf, c, steps, .limit⟩

def recvQueuedFull (c : Chan) (buf : List Int) : QFRes :=
  recvQueuedFullLoop (buf.length + 1) c buf 0 0

/-! ### timed helpers: parameters -/

inductive Mode where
  | timeout (tmo : Int)                        -- SendTimeout / RecvTimeout with this duration
  | context (pre : Bool) (mayCancel : Bool)    -- SendContext / RecvContext: cancelled before the call; may be cancelled later
  deriving DecidableEq, Repr

structure Params where
  mode : Mode
  cap : Nat
  fill : List Int          -- initial content of the channel
  closed : Bool            -- initially closed (receive side only)
  val : Int                -- the value the send helpers send
  peerRecvs : Nat          -- how many values peers may receive
  peerSends : List Int     -- the values peers send, in this order
  mayClose : Bool          -- the environment may close the channel (receive side only)
  lateRecv : Bool          -- peers receive only after the helper returned
  promptPoll : Bool        -- timing assumption: no timer/cancel before the helper's first poll
  deriving DecidableEq, Repr

def Params.preFired (p : Params) : Bool :=
  match p.mode with
  | .timeout _ => false
  | .context pre _ => pre

/-- may the timer fire / the context be cancelled now -/
def fireOk (p : Params) (armed fired waiting : Bool) : Bool :=
  !fired && (match p.mode with | .timeout _ => armed | .context _ mc => mc) && (!p.promptPoll || waiting)

/-! ### SendTimeout / SendContext -/

inductive SPc where
  | start | blk | sel | wait | stop
  | done (r : Bool)
  deriving DecidableEq, Repr

def SPc.isDone : SPc → Bool
  | .done _ => true
  | _ => false

structure SState where
  ch : Chan
  pc : SPc
  armed : Bool
  fired : Bool
  budget : Nat
  supply : List Int
  taken : List Int
  sendFired : Bool
  deriving DecidableEq, Repr

/-- where the channel statement / channel case continues -/
def sendNext (p : Params) (pc : SPc) : SPc :=
  match pc, p.mode with
  | .blk, _ => .done true
  | _, .timeout _ => .stop
  | _, .context _ _ => .done true

def peerRecvOkS (p : Params) (s : SState) : Bool := decide (0 < s.budget) && (!p.lateRecv || s.pc.isDone)

/-- a peer receiver is available for a direct hand-off -/
def handoffOkS (p : Params) (s : SState) : Bool := s.ch.buf.isEmpty && !s.ch.closed && peerRecvOkS p s

/-- the helper's `ch <- value` (as a statement or as a `select` case) -/
def sendAlts (p : Params) (s : SState) : List (Option Unit × SState) :=
  (if s.ch.canSend then
     [(none, { s with ch := s.ch.send p.val, pc := sendNext p s.pc, sendFired := true })] else []) ++
  (if handoffOkS p s then
     [(none, { s with budget := s.budget - 1, taken := s.taken ++ [p.val], pc := sendNext p s.pc, sendFired := true })]
   else [])

def timerAltS (s : SState) : List (Option Unit × SState) :=
  if s.fired then [(none, { s with pc := .done false })] else []

def stepSH (p : Params) (s : SState) : List (Option Unit × SState) :=
  match s.pc with
  | .start =>
    match p.mode with
    | .timeout tmo =>
      if tmo ≤ 0 then [(none, { s with pc := .blk })] else [(none, { s with pc := .sel, armed := true })]
    | .context _ _ => [(none, { s with pc := .sel })]
  | .blk => sendAlts p s
  | .sel => sendAlts p s ++ timerAltS s ++
      (if s.ch.canSend || s.fired then [] else [(none, { s with pc := .wait })])
  | .wait => sendAlts p s ++ timerAltS s
  | .stop => [(none, { s with pc := .done true })]
  | .done _ => []

def envS (p : Params) (s : SState) : List (Option Unit × SState) :=
  (if fireOk p s.armed s.fired (decide (s.pc = .wait)) then [(none, { s with fired := true })] else []) ++
  (match s.ch.buf with
   | v :: rest =>
     if peerRecvOkS p s then
       [(none, { s with ch := { s.ch with buf := rest }, budget := s.budget - 1, taken := s.taken ++ [v] })]
     else []
   | [] => []) ++
  (match s.supply with
   | v :: vs =>
     (if s.ch.canSend then [(none, { s with ch := s.ch.send v, supply := vs })] else []) ++
     (if handoffOkS p s then
        [(none, { s with supply := vs, budget := s.budget - 1, taken := s.taken ++ [v] })] else [])
   | [] => [])

def succS (p : Params) (s : SState) : List (Option Unit × SState) := stepSH p s ++ envS p s

def initS (p : Params) : SState :=
  { ch := Chan.mk' p.cap p.fill false, pc := .start, armed := false, fired := p.preFired,
    budget := p.peerRecvs, supply := p.peerSends, taken := [], sendFired := false }

/-- SendTimeout (mode `timeout`) / SendContext (mode `context`) of `p.val` with an arbitrary environment -/
def sendSys (p : Params) : Conc.Sys :=
  { State := SState, Event := Unit, init := initS p, succ := succS p }

instance (p : Params) : DecidableEq (sendSys p).State := inferInstanceAs (DecidableEq SState)
instance (p : Params) : DecidableEq (sendSys p).Event := inferInstanceAs (DecidableEq Unit)

/-! ### RecvTimeout / RecvContext -/

inductive RPc where
  | start | blk | sel | wait
  | stop (v : Int) (ok : Bool)
  | done (v : Int) (ok : Bool)
  deriving DecidableEq, Repr

def RPc.isDone : RPc → Bool
  | .done _ _ => true
  | _ => false

structure RState where
  ch : Chan
  pc : RPc
  armed : Bool
  fired : Bool
  budget : Nat
  supply : List Int
  taken : List Int
  consumed : List Int
  sent : List Int
  log : List Int
  recvFired : Bool
  headAt : Option Int
  deriving DecidableEq, Repr

def recvNext (p : Params) (pc : RPc) (v : Int) (ok : Bool) : RPc :=
  match pc, p.mode with
  | .blk, _ => .done v ok
  | _, .timeout _ => .stop v ok
  | _, .context _ _ => .done v ok

def peerRecvOkR (p : Params) (s : RState) : Bool := decide (0 < s.budget) && (!p.lateRecv || s.pc.isDone)

def handoffOkR (p : Params) (s : RState) : Bool := s.ch.buf.isEmpty && !s.ch.closed && peerRecvOkR p s

/-- the helper's `value, ok := <-ch` (as a statement or as a `select` case): from the buffer / closed
channel through the contract `Chan.recv`, or by a hand-off from a peer sender -/
def recvAlts (p : Params) (s : RState) : List (Option Unit × RState) :=
  (if s.ch.canRecv then
     [(none, { s with ch := s.ch.recv.2, pc := recvNext p s.pc s.ch.recv.1.1 s.ch.recv.1.2,
                      consumed := if s.ch.recv.1.2 then s.consumed ++ [s.ch.recv.1.1] else s.consumed,
                      log := if s.ch.recv.1.2 then s.log ++ [s.ch.recv.1.1] else s.log,
                      recvFired := true, headAt := s.ch.buf.head? })]
   else []) ++
  (match s.supply with
   | v :: vs =>
     if s.ch.buf.isEmpty && !s.ch.closed then
       [(none, { s with supply := vs, pc := recvNext p s.pc v true, consumed := s.consumed ++ [v],
                        sent := s.sent ++ [v], log := s.log ++ [v], recvFired := true, headAt := some v })]
     else []
   | [] => [])

def timerAltR (s : RState) : List (Option Unit × RState) :=
  if s.fired then [(none, { s with pc := .done 0 false })] else []

def stepRH (p : Params) (s : RState) : List (Option Unit × RState) :=
  match s.pc with
  | .start =>
    match p.mode with
    | .timeout tmo =>
      if tmo ≤ 0 then [(none, { s with pc := .blk })] else [(none, { s with pc := .sel, armed := true })]
    | .context _ _ => [(none, { s with pc := .sel })]
  | .blk => recvAlts p s
  | .sel => recvAlts p s ++ timerAltR s ++
      (if s.ch.canRecv || s.fired then [] else [(none, { s with pc := .wait })])
  | .wait => recvAlts p s ++ timerAltR s
  | .stop v ok => [(none, { s with pc := .done v ok })]
  | .done _ _ => []

def envR (p : Params) (s : RState) : List (Option Unit × RState) :=
  (if fireOk p s.armed s.fired (decide (s.pc = .wait)) then [(none, { s with fired := true })] else []) ++
  (match s.ch.buf with
   | v :: rest =>
     if peerRecvOkR p s then
       [(none, { s with ch := { s.ch with buf := rest }, budget := s.budget - 1, taken := s.taken ++ [v],
                        log := s.log ++ [v] })]
     else []
   | [] => []) ++
  (match s.supply with
   | v :: vs =>
     (if s.ch.canSend then [(none, { s with ch := s.ch.send v, supply := vs, sent := s.sent ++ [v] })] else []) ++
     (if handoffOkR p s then
        [(none, { s with supply := vs, budget := s.budget - 1, taken := s.taken ++ [v],
                         sent := s.sent ++ [v], log := s.log ++ [v] })] else [])
   | [] => []) ++
  (if p.mayClose && !s.ch.closed then [(none, { s with ch := s.ch.close })] else [])

def succR (p : Params) (s : RState) : List (Option Unit × RState) := stepRH p s ++ envR p s

def initR (p : Params) : RState :=
  { ch := Chan.mk' p.cap p.fill p.closed, pc := .start, armed := false, fired := p.preFired,
    budget := p.peerRecvs, supply := p.peerSends, taken := [], consumed := [], sent := p.fill, log := [],
    recvFired := false, headAt := none }

/-- RecvTimeout (mode `timeout`) / RecvContext (mode `context`) with an arbitrary environment -/
def recvSys (p : Params) : Conc.Sys :=
  { State := RState, Event := Unit, init := initR p, succ := succR p }

instance (p : Params) : DecidableEq (recvSys p).State := inferInstanceAs (DecidableEq RState)
instance (p : Params) : DecidableEq (recvSys p).Event := inferInstanceAs (DecidableEq Unit)

/-! ### scenarios of the harness (PROTOCOL §C19), as parameter choices of the two systems -/

def fillList (fill : Nat) : List Int := (List.range fill).map (fun (i : Nat) => (i : Int) + 1)

/-- `sendtimeout <cap> <fill> <tmo> <peer>` / `sendcontext <cap> <fill> <ctx> <peer>` -/
def sendScenario (mode : Mode) (cap fill peer : Nat) : Params :=
  { mode := mode, cap := cap, fill := fillList fill, closed := false, val := 99,
    peerRecvs := if peer = 0 then 0 else 1, peerSends := [], mayClose := false,
    lateRecv := decide (peer = 2), promptPoll := true }

/-- `recvtimeout <cap> <fill> <closed> <tmo> <peer>` / `recvcontext …`: the peer (one blocking sender of 77)
exists only on an open channel -/
def recvScenario (mode : Mode) (cap fill : Nat) (closed : Bool) (peer : Nat) : Params :=
  { mode := mode, cap := cap, fill := fillList fill, closed := closed, val := 99,
    peerRecvs := 0, peerSends := if peer = 1 ∧ closed = false then [77] else [], mayClose := false,
    lateRecv := false, promptPoll := true }

/-- ctx argument of the harness: 0 never cancelled, 1 cancelled before the call, 2 cancelled during the call -/
def ctxMode (ctx : Nat) : Mode := .context (decide (ctx = 1)) (decide (ctx = 2))

/-- a completed send scenario: the helper returned and the peer (if any) has nothing left to take -/
def sendFinal (s : SState) : Option (Bool × List Int × List Int) :=
  match s.pc with
  | .done r => if s.budget = 0 ∨ s.ch.buf = [] then some (r, s.taken, s.ch.buf) else none
  | _ => none

/-- a completed receive scenario: the helper returned; the harness's drain yields the buffer and then
whatever the blocked peer still sends -/
def recvFinal (s : RState) : Option (Int × Bool × List Int) :=
  match s.pc with
  | .done v ok => some (v, ok, s.ch.buf ++ s.supply)
  | _ => none

def sendOutcomes (fuel : Nat) (p : Params) : List (Bool × List Int × List Int) :=
  Conc.dedup ((Conc.tauClosure (sendSys p) fuel [initS p]).filterMap sendFinal)

def recvOutcomes (fuel : Nat) (p : Params) : List (Int × Bool × List Int) :=
  Conc.dedup ((Conc.tauClosure (recvSys p) fuel [initR p]).filterMap recvFinal)

end TypVerif.Model.ChanHelpers
