import TypVerif.Conc.Sys
import TypVerif.Model.Chan
import TypVerif.Model.ChanHelpers
/-
Several goroutines calling `RecvQueued(ch, maxValues)` AT ONCE on one channel (`/repo/chans/chans.go`), no sender:

    func RecvQueued(ch, maxValues) []V {
        var buffer []V
        for len(buffer) < maxValues {          -- one iteration = one atomic step of the goroutine:
            select {                           --   the loop condition reads goroutine-local state only,
            case v, ok := <-ch:                --   the `select` with `default` is the one operation on the shared channel
                if !ok { return buffer }       --   (`Chan.trySelectRecv`, Model/Chan.lean: never blocks)
                buffer = append(buffer, v)
            default:
                return buffer
            }
        }
        return buffer
    }

`Model/ChanHelpers.lean` (`recvQueuedLoop`) runs this loop on the channel value alone.  Here `g` goroutines run it
concurrently on one shared channel `ch : Chan` (buffer, capacity, closed flag); a step of the system is one loop
iteration of one goroutine that has not returned yet (`stepG`, the body of `recvQueuedLoop` verbatim):

  * `len(buffer) < maxValues` and the `select` receives `(v, true)` (buffer = `v :: rest`): `acc := acc ++ [v]`, buffer := `rest`;
  * `len(buffer) < maxValues` and the `select` receives `(0, false)` (closed and drained): return `acc`   (`Stop.closed`);
  * `len(buffer) < maxValues` and the `select` takes `default` (open and empty):           return `acc`   (`Stop.default`);
  * `len(buffer) ≥ maxValues` (the `for` condition fails):                                 return `acc`   (`Stop.limit`).

Any interleaving: `succ` offers the step of every goroutine that is still in its loop.  Nobody sends, nobody closes.

Ghost state: `log` = the values in the order in which they left the channel, each tagged with the index of the
goroutine that received it.

The second half of the file is the judge's acceptance predicate for the harness scenario `recvqueuedconc`
(`concVerdict`, called by `Drv/C19.lean`); `C19.recvQueued_conc_predicate_sound` (Props/C19conc.lean) shows that it
accepts every final state of the system.
-/
namespace TypVerif.Model.RecvQueuedConc
open TypVerif TypVerif.Model.Chan TypVerif.Model.ChanHelpers

/-- parameters of a scenario: `g` goroutines call `RecvQueued(ch, limit)` on a channel of capacity `cap` holding `fill`,
closed or not -/
structure Params where
  g : Nat
  limit : Int
  cap : Nat
  fill : List Int
  closed : Bool
  deriving DecidableEq, Repr

/-- one goroutine: its local `buffer` and, once it has returned, why (`none` = still in the loop) -/
structure Gor where
  acc : List Int
  status : Option Stop
  deriving DecidableEq, Repr

structure State where
  ch : Chan
  gs : List Gor
  /-- ghost: (receiver, value) in the order the values left the channel -/
  log : List (Nat × Int)
  deriving DecidableEq, Repr

inductive Event where
  | recv (i : Nat) (v : Int)
  | ret (i : Nat) (acc : List Int) (why : Stop)
  deriving DecidableEq, Repr

/-- goroutine `i` returns its buffer -/
def State.ret (s : State) (i : Nat) (g : Gor) (why : Stop) (c' : Chan) : Option Event × State :=
  (some (.ret i g.acc why), { s with ch := c', gs := s.gs.set i { g with status := some why } })

/-- one loop iteration of goroutine `i` (`none`: no such goroutine, or it has returned) -/
def stepG (limit : Int) (s : State) (i : Nat) : Option (Option Event × State) :=
  match s.gs[i]? with
  | none => none
  | some g =>
    match g.status with
    | some _ => none
    | none =>
      if (g.acc.length : Int) < limit then
        match s.ch.trySelectRecv with
        | some ((v, ok), c') =>
          if !ok then some (s.ret i g .closed c')
          else some (some (.recv i v),
                     { ch := c', gs := s.gs.set i { g with acc := g.acc ++ [v] }, log := s.log ++ [(i, v)] })
        | none => some (s.ret i g .default s.ch)
      else some (s.ret i g .limit s.ch)

def succ (limit : Int) (s : State) : List (Option Event × State) :=
  (List.range s.gs.length).filterMap (stepG limit s)

def init (p : Params) : State :=
  { ch := Chan.mk' p.cap p.fill p.closed, gs := List.replicate p.g ⟨[], none⟩, log := [] }

def sys (p : Params) : Conc.Sys :=
  { State := State, Event := Event, init := init p, succ := succ p.limit }

instance (p : Params) : DecidableEq (sys p).State := inferInstanceAs (DecidableEq State)
instance (p : Params) : DecidableEq (sys p).Event := inferInstanceAs (DecidableEq Event)

/-- what goroutine `i` received according to the ghost log -/
def owned (log : List (Nat × Int)) (i : Nat) : List Int := (log.filter (fun p => p.1 == i)).map (·.2)

/-- the values that left the channel, in that order -/
def delivered (log : List (Nat × Int)) : List Int := log.map (·.2)

/-- every goroutine has returned -/
def State.final (s : State) : Prop := ∀ g ∈ s.gs, g.status ≠ none

instance (s : State) : Decidable s.final := inferInstanceAs (Decidable (∀ g ∈ s.gs, g.status ≠ none))

/-- the results of the calls, by goroutine -/
def State.lists (s : State) : List (List Int) := s.gs.map (·.acc)

/-- run a schedule (goroutine indices), for witnesses -/
def run (limit : Int) : State → List Nat → Option State
  | s, [] => some s
  | s, i :: is =>
    match stepG limit s i with
    | some (_, s') => run limit s' is
    | none => none

/-! ### the judge's predicate for `recvqueuedconc <cap> <fill> <closed> <g> <limit> => <lists> <remaining>` -/

/-- strictly increasing (FIFO on a channel holding `1..fill`) -/
def incr (l : List Int) : Bool := (l.zip l.tail).all (fun p => p.1 < p.2)

/-- `none` = accepted; otherwise what is violated.  `lists` = the `g` results, `rem` = what a drain yields afterwards.
Every list strictly increasing, of length ≤ limit, values from `1..fill` only (nothing invented, no zero value), no value twice,
lists ++ remaining = a partition of `1..fill` with `remaining` a suffix, and if some list is shorter than the limit nothing remains. -/
def concVerdict (fill g : Nat) (limit : Int) (lists : List (List Int)) (rem : List Int) : Option String :=
  let lim := limit.toNat
  let all := lists.flatten ++ rem
  if lists.length ≠ g then some "wrong-number-of-results"
  else if all.any (fun v => v < 1 ∨ v > (fill : Int)) then some "invented-value"
  else if all.length ≠ (Conc.dedup all).length then some "value-delivered-twice"
  else if all.length ≠ fill then some "value-lost"
  else if lists.any (fun l => !incr l) then some "not-fifo"
  else if lists.any (fun l => l.length > lim) then some "more-than-limit"
  else if rem ≠ (fillList fill).drop (fill - rem.length) then some "remaining-not-a-suffix"
  else if lists.any (fun l => l.length < lim) ∧ !rem.isEmpty then some "stopped-early-with-values-queued"
  else none

end TypVerif.Model.RecvQueuedConc
