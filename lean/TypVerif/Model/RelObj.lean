import TypVerif.Model.AtomicObj
/-
Generic "relaxed atomic object" transition system.

`Model.AtomicObj` makes every call take effect at ONE step between its invocation and its response.  For
`sync.Map` that is too rigid: a `Load` (or a `LoadAndDelete` that returns "absent") has no fixed linearization
point; what can be proved of the real algorithm is only that the returned result is the result the sequential
object would have given at SOME instant between the invocation and the response, for an operation that does
not change the object at that instant.  The relaxed object below allows exactly that (`observe` / `resSeen`),
and `Lemmas.RelObj.linearizable` shows that its histories are nevertheless `Linearizable`.
-/
namespace TypVerif.Model.RelObj
open TypVerif.Model.AtomicObj (Spec Event)

/-- program counter of a goroutine of the relaxed object -/
inductive RPc (Op Res : Type) where
  | idle
  /-- invoked, has not taken effect; `seen` = results of effect-free linearizations that were possible at
  some instant since the invocation -/
  | pending (op : Op) (seen : List Res)
  /-- has taken effect (at one step), with result `r` -/
  | done (op : Op) (r : Res)

structure RState (σ Op Res : Type) where
  pcs : Nat → RPc Op Res
  obj : σ
  /-- visible history, OLDEST FIRST -/
  hist : List (Event Op Res)

/-- pointwise update of a goroutine-indexed function (core Lean 4.33 has no `Function.update`; same meaning) -/
def update {α : Type} (f : Nat → α) (t : Nat) (v : α) : Nat → α := fun t' => if t' = t then v else f t'

@[simp] theorem update_same {α : Type} (f : Nat → α) (t : Nat) (v : α) : update f t v t = v := by
  simp [update]

theorem update_other {α : Type} (f : Nat → α) (t : Nat) (v : α) {t' : Nat} (h : t' ≠ t) :
    update f t v t' = f t' := by
  simp [update, h]

def RState.init (S : Spec) : RState S.σ S.Op S.Res := { pcs := fun _ => .idle, obj := S.init, hist := [] }

/-- one step of the relaxed object -/
inductive RStep (S : Spec) : RState S.σ S.Op S.Res → RState S.σ S.Op S.Res → Prop where
  | inv (s t op) : s.pcs t = .idle →
      RStep S s { s with pcs := update s.pcs t (.pending op []), hist := s.hist ++ [.inv t op] }
  | lin (s t op seen σ' r) : s.pcs t = .pending op seen → (σ', r) ∈ S.apply s.obj op →
      RStep S s { s with pcs := update s.pcs t (.done op r), obj := σ' }
  /-- effect-free now: the object is unchanged -/
  | observe (s t op seen r) : s.pcs t = .pending op seen → (s.obj, r) ∈ S.apply s.obj op →
      RStep S s { s with pcs := update s.pcs t (.pending op (r :: seen)) }
  | resDone (s t op r) : s.pcs t = .done op r →
      RStep S s { s with pcs := update s.pcs t .idle, hist := s.hist ++ [.res t r] }
  | resSeen (s t op seen r) : s.pcs t = .pending op seen → r ∈ seen →
      RStep S s { s with pcs := update s.pcs t .idle, hist := s.hist ++ [.res t r] }

inductive RReach (S : Spec) : RState S.σ S.Op S.Res → Prop where
  | init : RReach S (RState.init S)
  | step {s s'} : RReach S s → RStep S s s' → RReach S s'

/-- reflexive-transitive closure, for simulations that take several abstract steps per concrete step -/
inductive RStar (S : Spec) : RState S.σ S.Op S.Res → RState S.σ S.Op S.Res → Prop where
  | refl (s) : RStar S s s
  | tail {s s' s''} : RStar S s s' → RStep S s' s'' → RStar S s s''

end TypVerif.Model.RelObj
