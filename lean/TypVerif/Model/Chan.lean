/-
The Go channel, by contract (DESIGN §8/C19: channels, `select`, timers and contexts are modelled, not proved).

A channel of `int` is its FIFO buffer, its capacity and its closed flag.
  * `ch <- v`   is enabled iff the channel is open and the buffer has room (`canSend`); it appends `v`.
                (A send on a closed channel panics in Go; the helpers of C19 are only specified for
                channels nobody closes while a send is pending, so `canSend` is `false` on a closed channel
                and no model step ever sends on one.)
  * `v, ok := <-ch` is enabled iff the buffer is non-empty or the channel is closed (`canRecv`);
                it yields the head and `true`, or `(0, false)` when the channel is closed and drained.
                On an open empty channel it is not enabled (the receiver blocks).
  * a `select` with a `default` case (`trySelectRecv`) never blocks: it performs the receive when it is
                enabled and takes the default otherwise (`none`).
  * an unbuffered channel (`cap = 0`) never has room: a value passes from a sender to a receiver in one
                rendezvous step.  The transition systems in `Model/ChanHelpers.lean` encode the rendezvous
                as a *hand-off* step that is enabled when the buffer is empty and a receiver is available,
                moves the sender and the receiver together and never touches the buffer (for a buffered
                channel the hand-off is observationally the same as enqueue-then-dequeue, which is what
                the Go runtime does too when a receiver is already parked).
-/
namespace TypVerif.Model.Chan

structure Chan where
  buf : List Int
  cap : Nat
  closed : Bool
  deriving DecidableEq, Repr

/-- `make(chan int, cap)`, pre-filled, then possibly closed -/
def Chan.mk' (cap : Nat) (fill : List Int) (closed : Bool) : Chan := { buf := fill, cap := cap, closed := closed }

def Chan.canSend (c : Chan) : Bool := !c.closed && decide (c.buf.length < c.cap)

def Chan.send (c : Chan) (v : Int) : Chan := { c with buf := c.buf ++ [v] }

def Chan.canRecv (c : Chan) : Bool := !c.buf.isEmpty || c.closed

/-- `v, ok := <-ch` (meaningful when `canRecv`): the result and the channel afterwards -/
def Chan.recv (c : Chan) : (Int × Bool) × Chan :=
  match c.buf with
  | v :: rest => ((v, true), { c with buf := rest })
  | [] => ((0, false), c)

/-- `select { case v, ok := <-ch: … default: … }`: `none` = the default case -/
def Chan.trySelectRecv (c : Chan) : Option ((Int × Bool) × Chan) :=
  if c.canRecv then some c.recv else none

def Chan.close (c : Chan) : Chan := { c with closed := true }

/-- what a non-blocking drain of the channel yields (the harness's `drain`) -/
def Chan.drain (c : Chan) : List Int := c.buf

end TypVerif.Model.Chan
