import TypVerif.Lemmas.C17DrvCompleteMain
import TypVerif.Lemmas.C17DrvCompleteJudge
import TypVerif.Lemmas.C17DrvCompleteIff
import TypVerif.Props.C17accept
import TypVerif.Props.C17complete
/-
C17 — THE FOLD THE DRIVER REALLY PERFORMS LOSES NO BEHAVIOUR.  `Props/C17complete.lean` proves completeness of the acceptor for the
reduced system `red n arity res` with fixed `n` and `res`.  The judge `Drv/C17.lean` does something else: it starts with zero goroutines,
on every event enlarges `n` to cover the goroutine of the event (padding every state of its set with idle goroutines, `padTo`), and takes
the result function from the event (`fun _ => r` on `fend _ r`, `fun _ => []` otherwise).  `Lemmas.ConcAcceptC17.jstep/jfold` is that
fold on the model part of the judge state, `runLines` the fold of `Drv.C17.step` itself (soundness: `Props/C17accept.lean`).

Here: every visible trace of `Model.Once.sys N arity res` (any `N`, any `res`) leaves the state set of `jfold` non-empty when the
internal-closure fuel is ≥ 3 (the judge uses 64), and the judge `Drv.C17.step`, folded over lines that stand for such a trace, never
rejects, provided the events pass its arity check — which they do when every `res t` has `arity` components.  With soundness:
the judge decides membership in the trace set of the model exactly.

Proof (`Lemmas/C17DrvComplete*.lean`): the model state `s` (N goroutines) is the padding `padTo N p` of its projection `p` to the
`j.n` goroutines the judge knows (the others are idle: their first step is the visible `call`).  Padding commutes with the normal form
`nf`, with urgency (`pick = none`), with `succ` (up to the `call` of a new goroutine) and hence with the internal steps of `red`
(`tauN_pad_inv`); internal reachability in `red` does not depend on `n`, `arity`, `res` (`tauN_indep`); a `fend t r` of the model has
`r = res t`, which is what `resOf` gives the judge.  So the `Cover` invariant of `Lemmas/OnceRedAccept.lean` carries over (`DInv`,
`dinv_tau`, `dinv_vis`).  No counterexample: neither the growing `n` nor the per-event `res` loses a behaviour.
-/
namespace C17
open TypVerif TypVerif.Conc TypVerif.Model.Once TypVerif.Drv.C17
open TypVerif.Lemmas.ConcAcceptC17 TypVerif.Proto

/-- what the judge's set contains after a visible trace of the model: the normal form of the projection of the model state to
the goroutines seen so far (all others are still idle) -/
theorem driver_fold_covers (N arity fuel : Nat) (hf : 3 ≤ fuel) (res : Nat → List Int) (ls : List (Option Event))
    (s : State)
    (h : Exec (Model.Once.sys N arity res) (Model.Once.sys N arity res).init ls s) :
    ∃ p, s = padTo N p ∧ p.pcs.length = (jfold arity fuel (visible ls)).n ∧
      Lemmas.OnceRed.nf p ∈ (jfold arity fuel (visible ls)).ss :=
  Lemmas.C17Drv.jfold_complete N arity fuel hf res ls s h

/-- the fold the driver performs never empties its state set on a visible trace of the model (any number of goroutines, any
result function), with internal-closure fuel ≥ 3 -/
theorem driver_accept_complete (N arity fuel : Nat) (hf : 3 ≤ fuel) (res : Nat → List Int) (ls : List (Option Event))
    (s : State)
    (h : Exec (Model.Once.sys N arity res) (Model.Once.sys N arity res).init ls s) :
    (jfold arity fuel (visible ls)).ss ≠ [] :=
  Lemmas.C17Drv.driver_accept_complete N arity fuel hf res ls s h

/-- … in particular with the fuel the judge uses -/
theorem driver_accept_complete_closureFuel (N arity : Nat) (res : Nat → List Int) (ls : List (Option Event)) (s : State)
    (h : Exec (Model.Once.sys N arity res) (Model.Once.sys N arity res).init ls s) :
    (jfold arity closureFuel (visible ls)).ss ≠ [] :=
  Lemmas.C17Drv.driver_accept_complete N arity closureFuel (by decide) res ls s h

/-- the driver's fold accepts exactly the visible traces of the model -/
theorem driver_accept_iff (arity fuel : Nat) (hf : 3 ≤ fuel) (tr : List Event) :
    (jfold arity fuel tr).ss ≠ [] ↔
      ∃ (N : Nat) (res : Nat → List Int) (ls : List (Option Event)) (s : State),
        Exec (Model.Once.sys N arity res) (Model.Once.sys N arity res).init ls s ∧ visible ls = tr := by
  constructor
  · intro h
    exact Lemmas.ConcAcceptC17.driver_accept_sound arity fuel tr h
  · rintro ⟨N, res, ls, s, hex, rfl⟩
    exact driver_accept_complete N arity fuel hf res ls s hex

/-- every event of an execution of the model passes the arity check of the judge when all functions return tuples of the arity -/
theorem model_events_arityOk (N arity : Nat) (res : Nat → List Int) (hres : ∀ t, (res t).length = arity)
    (ls : List (Option Event)) (s : State)
    (h : Exec (Model.Once.sys N arity res) (Model.Once.sys N arity res).init ls s) :
    ∀ e ∈ visible ls, arityOk arity e = true :=
  Lemmas.C17Drv.exec_arityOk N arity res hres h (Lemmas.C17Drv.aok_init N arity)

/-- the judge itself (`Drv.C17.step` folded over the lines after the header `once a`): lines that stand for the visible trace of an
execution of the model with functions of the right arity are never rejected (every model output is `ok`) -/
theorem judge_lines_accept_complete (st0 : St) (a : Int) (impl0 : String) (lines : List (List Val × String))
    (tr : List Event) (hparse : lines.map (fun l => lineEvent a.toNat l.1) = tr.map some)
    (N : Nat) (res : Nat → List Int) (hres : ∀ t, (res t).length = a.toNat) (ls : List (Option Event)) (s : State)
    (hex : Exec (Model.Once.sys N a.toNat res) (Model.Once.sys N a.toNat res).init ls s) (hv : visible ls = tr) :
    (runLines (step st0 [.w "once", .i a] impl0).1 lines).rejected = false :=
  Lemmas.C17Drv.judge_accept_complete st0 a impl0 lines tr hparse N res hres ls s hex hv

/-- the judge decides exactly: it has not rejected iff the events are the visible trace of an execution of the model and all pass
the arity check -/
theorem judge_lines_accept_iff (st0 : St) (a : Int) (impl0 : String) (lines : List (List Val × String))
    (tr : List Event) (hparse : lines.map (fun l => lineEvent a.toNat l.1) = tr.map some) :
    (runLines (step st0 [.w "once", .i a] impl0).1 lines).rejected = false ↔
      (∃ (N : Nat) (res : Nat → List Int) (ls : List (Option Event)) (s : State),
        Exec (Model.Once.sys N a.toNat res) (Model.Once.sys N a.toNat res).init ls s ∧ visible ls = tr) ∧
      ∀ e ∈ tr, arityOk a.toNat e = true :=
  Lemmas.C17Drv.judge_accept_iff st0 a impl0 lines tr hparse

/-- the demo trace of `Props/C17.lean` through the driver's fold (starting from zero goroutines) -/
example : (jfold 2 64 demoTrace).ss ≠ [] := by decide

end C17

#print axioms C17.driver_fold_covers
#print axioms C17.driver_accept_complete
#print axioms C17.driver_accept_complete_closureFuel
#print axioms C17.driver_accept_iff
#print axioms C17.model_events_arityOk
#print axioms C17.judge_lines_accept_complete
#print axioms C17.judge_lines_accept_iff
