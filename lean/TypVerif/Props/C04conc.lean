import TypVerif.Lemmas.SmcStep
import TypVerif.Spec.PMap
/-
C04, concurrent half: the step-level transition system of `sync2.Map` (`Model/SyncMapConc.lean`: one step = one atomic
action of `map.go` — `read.Load/Store`, `Load/Store/CompareAndSwapPointer` on `entry.p`, `mu.Lock` — followed by the
straight-line code up to the next one; any number of goroutines, any operations, every interleaving) is linearizable
to the ordinary map.  The same transition system is the one real executions are replayed in, label for label, on
every run of the check (judge `C04conc`).

Proof: forward simulation (`Lemmas/Smc*.lean`) into the *relaxed atomic map* (`Model/RelObj.lean`: an operation either
takes effect at one step, or — when it has no effect — may return any result it could have returned at some instant
since its invocation), whose histories are linearizable (`Lemmas.RelObj.linearizable`).  Linearization steps
(`Lemmas.Smc.isLin`): the successful CAS of `tryStore`, `storeLocked`, the insertion of a new entry into the dirty map,
the successful CAS of `tryLoadOrStore` / its load of a live value, the successful CAS of `delete` on a `read.m` entry,
and `delete(m.dirty, key)` on the slow path of `LoadAndDelete`.  `Load`, and `LoadAndDelete`/`Delete` reporting
"absent", have no fixed linearization point (an entry fetched from an old `read` snapshot may be expunged and dropped,
or unlinked from the dirty map, while the key is re-created elsewhere): they return a result seen during their interval.
-/
namespace C04
open TypVerif TypVerif.Conc TypVerif.Model TypVerif.Model.SyncMapConc TypVerif.Model.RelObj TypVerif.Lemmas.Smc

set_option linter.unusedSectionVars false

variable {K V : Type} [DecidableEq K] [DecidableEq V] [Inhabited V]

/-- **Linearizability for every schedule.**  For any number `n` of goroutines, any finite menu of operations they may
call (in any order, any number of times), with or without a zero-size value type (`zst`): the invocation/response
history of Load, Store, LoadOrStore, LoadAndDelete and Delete of EVERY execution of the step-level model is
linearizable with respect to the ordinary map `K → Option V` (`AtomicObj.Linearizable`: linearization points can be
inserted, one inside the interval of every completed call, so that the calls in the order of their points form a legal
sequential history of the map with the same results). -/
theorem conc_linearizable (menu : List (Op K V)) (n : Nat) (zst : Bool) {s : State K V}
    {ls : List (Option (SyncMapConc.Event K V))}
    (he : Exec (sys K V menu n zst) (SyncMapConc.init n zst) ls s) :
    AtomicObj.Linearizable (mapSpec K V) (ls.filterMap (·.bind evOf)) :=
  Lemmas.Smc.linearizable he

/-- **One-step refinement**: from any concrete state related (by the simulation relation `R`) to a state of the
relaxed atomic map, every step of every goroutine is matched by steps of the relaxed atomic map that add exactly the
step's visible event to the history, and the relation is re-established. -/
theorem conc_sim_step (menu : List (Op K V)) {s s' : State K V} {a : AState K V} {t : Tid}
    {l : Option (SyncMapConc.Event K V)} (hR : R s a) (ht : t < s.pcs.length) (h : (l, s') ∈ stepT menu s t) :
    ∃ a', RStar (mapSpec K V) a a' ∧ a'.hist = a.hist ++ (l.bind evOf).toList ∧ R s' a' :=
  let r := sim_step hR ht l s' h
  ⟨_, r.1.1, r.1.2, r.2⟩

/-- **The invariant, all schedules**: every reachable state is related to a reachable state of the relaxed atomic map
whose abstract map is the abstraction `absOf` of the concrete read/dirty/expunged state. -/
theorem conc_inv (menu : List (Op K V)) (n : Nat) (zst : Bool) {s : State K V}
    (h : Reachable (sys K V menu n zst) s) :
    ∃ a : AState K V, RReach (mapSpec K V) a ∧ R s a ∧ ∀ k, a.obj k = absOf s.sh k := by
  obtain ⟨a, ha, hR⟩ := reachable_R h
  exact ⟨a, ha, hR, hR.abs⟩

/-- the write into a nil `dirty` map (a Go panic) never happens, under any schedule -/
theorem conc_no_nil_map_write (menu : List (Op K V)) (n : Nat) (zst : Bool) {s : State K V}
    (h : Reachable (sys K V menu n zst) s) : s.sh.fault = false := by
  obtain ⟨a, _, hR⟩ := reachable_R h
  exact hR.g.nofault

/-- the mutex protocol, under any schedule: a goroutine is at a program point inside a `mu`-protected region iff it is
the recorded owner of `mu`; hence at most one goroutine is inside -/
theorem conc_lock_exclusive (menu : List (Op K V)) (n : Nat) (zst : Bool) {s : State K V}
    (h : Reachable (sys K V menu n zst) s) (t u : Tid)
    (ht : lockedPc (s.pc t) = true) (hu : lockedPc (s.pc u) = true) : t = u ∧ s.sh.mu = some t := by
  obtain ⟨a, _, hR⟩ := reachable_R h
  have h1 : Own s.sh t := (hR.thr t).own_of_locked ht
  have h2 : Own s.sh u := (hR.thr u).own_of_locked hu
  exact ⟨Own.unique h1 h2, h1⟩

/-- the structural invariant of the read-map / dirty-map / expunged machinery holds in every reachable state
(duplicate-free maps, one key per entry, `dirty = nil → ¬amended`, expunged `read` entries are absent from a non-nil
dirty map and live ones present under the same key, not amended → dirty ⊆ read, dirty-only entries hold a value) -/
theorem conc_structure (menu : List (Op K V)) (n : Nat) (zst : Bool) {s : State K V}
    (h : Reachable (sys K V menu n zst) s) : ∃ apcs, G s apcs := by
  obtain ⟨a, _, hR⟩ := reachable_R h
  exact ⟨a.pcs, hR.g⟩

/-! The specification used here is the one of the sequential half (`Spec.PMap`, theorem `C04.seq_refines`). -/

def toOut : Res K V → Spec.PMap.Out K V
  | .done => .unit
  | .val o => .val o
  | .pair a l => .pair a l
  | .pairs l => .pairs l

theorem conc_spec_is_seq_spec (m : K → Option V) :
    applyOp m (.load k) = [((Spec.PMap.apply m (.load k)).1, .val (m k))] ∧
    (∀ v, applyOp m (.store k v) = [((Spec.PMap.apply m (.store k v)).1, .done)]) ∧
    (∀ v, (applyOp m (.loadOrStore k v)).map (fun p => (p.1, toOut p.2)) = [Spec.PMap.apply m (.loadOrStore k v)]) ∧
    (applyOp m (.loadAndDelete k)).map (fun p => (p.1, toOut p.2)) = [Spec.PMap.apply m (.loadAndDelete k)] ∧
    (applyOp m (.delete k)).map (fun p => (p.1, toOut p.2)) = [Spec.PMap.apply m (.delete k)] := by
  refine ⟨rfl, fun _ => rfl, fun v => ?_, rfl, rfl⟩
  simp only [applyOp, Spec.PMap.apply]
  cases m k <;> rfl

/-! Non-vacuity: the initial state is related to the initial abstract state, and the system does run. -/

example : R (SyncMapConc.init 3 false : State Int Int) (RState.init (mapSpec Int Int)) := R_init 3 false

example : ∃ s, Reachable (sys Int Int [.store 1 5, .load 1] 2 false) s ∧ s.pc 0 = .storeRead1 1 5 ∧ s.pc 1 = .start (.load 1) := by
  refine ⟨_, Reachable.step (Reachable.step (Reachable.step Reachable.init (l := some (.inv 0 (.store 1 5))) (s' := ?a) ?h1)
    (l := some (.inv 1 (.load 1))) (s' := ?b) ?h2) (l := none) (s' := ?c) ?h3, ?_, ?_⟩
  case a => exact setPc (SyncMapConc.init 2 false) 0 {} (.start (.store 1 5))
  case b => exact setPc (setPc (SyncMapConc.init 2 false) 0 {} (.start (.store 1 5))) 1 {} (.start (.load 1))
  case c => exact setPc (setPc (setPc (SyncMapConc.init 2 false) 0 {} (.start (.store 1 5))) 1 {} (.start (.load 1))) 0 {} (.storeRead1 1 5)
  case h1 => decide
  case h2 => decide
  case h3 => decide
  all_goals rfl

end C04
