import TypVerif.Lemmas.Chunk
/-
C13: "For every slice of length n and every size >= 1: Chunk returns ceil(n/size) consecutive non-empty
pieces, each of length size except possibly a shorter last one, whose concatenation is the input; Windowed
returns the n-size+1 contiguous windows of that size in order (none when n < size); Pairs returns the n-1
adjacent pairs in order. ChunkFunc, WindowedFunc and PairsFunc invoke their callback with exactly the same
sequence of pieces as the slice-returning variant returns."
-/
namespace C13
open TypVerif TypVerif.Model.Chunk

variable {α : Type}

/-- the Go loop of `Chunk` computes the take/drop specification -/
theorem chunk_eq_spec (s : List α) (size : Nat) (hsize : 1 ≤ size) :
    chunk s size = Spec.Chunk.chunks size s :=
  Lemmas.Chunk.chunk_eq_spec s hsize
example : chunk [1, 2, 3, 4, 5] 2 = [[1, 2], [3, 4], [5]] := by decide

/-- the concatenation of the pieces is the input -/
theorem chunk_join (s : List α) (size : Nat) (hsize : 1 ≤ size) : (chunk s size).flatten = s := by
  rw [chunk_eq_spec s size hsize]; exact Lemmas.Chunk.chunks_flatten hsize s
example : (chunk [1, 2, 3, 4, 5] 2).flatten = [1, 2, 3, 4, 5] := by decide

/-- every piece is non-empty and at most `size` long, and every piece but the last has length exactly `size` -/
theorem chunk_lengths (s : List α) (size : Nat) (hsize : 1 ≤ size) :
    (∀ c ∈ chunk s size, 0 < c.length ∧ c.length ≤ size) ∧
    (∀ (i : Nat) (h : i < (chunk s size).length), i + 1 < (chunk s size).length →
        ((chunk s size)[i]).length = size) := by
  rw [chunk_eq_spec s size hsize]
  exact ⟨Lemmas.Chunk.chunks_mem_bounds hsize s, Lemmas.Chunk.chunks_getElem_length hsize s⟩
example : (chunk [1, 2, 3, 4, 5] 2).map List.length = [2, 2, 1] := by decide

/-- the number of pieces is `⌈n/size⌉` -/
theorem chunk_count (s : List α) (size : Nat) (hsize : 1 ≤ size) :
    (chunk s size).length = Spec.Chunk.ceilDiv s.length size := by
  rw [chunk_eq_spec s size hsize]; exact Lemmas.Chunk.chunks_length hsize s
example : (chunk [1, 2, 3, 4, 5] 2).length = 3 ∧ Spec.Chunk.ceilDiv 5 2 = 3 := by decide

/-- the `lim` computed by the arithmetic kernel (`div`, `rounded`, `lim`) of `Chunk` is `⌈n/size⌉`
(for every `n`, in particular every `n > 0`, the only case in which Go evaluates it) -/
theorem lim_is_ceil (n size : Nat) (hsize : 1 ≤ size) :
    (kernel n size).2.2 = Spec.Chunk.ceilDiv n size :=
  Lemmas.Chunk.kernel_lim hsize
example : (kernel 5 2).2.2 = 3 ∧ (kernel 4 2).2.2 = 2 ∧ (kernel 1 3).2.2 = 1 := by decide

/-- `Windowed` returns the windows `s[i:i+size]`, `i = 0 .. n-size`, in order (none when `n < size`) -/
theorem windowed_eq_spec (s : List α) (size : Nat) :
    windowed s size = Spec.Chunk.windows size s :=
  Lemmas.Chunk.windowed_eq_spec s size
example : windowed [1, 2, 3, 4] 2 = [[1, 2], [2, 3], [3, 4]] := by decide
example : windowed [1, 2, 3] 4 = [] := by decide

theorem windowed_count (s : List α) (size : Nat) :
    (windowed s size).length = s.length + 1 - size := by
  rw [windowed_eq_spec]; exact Lemmas.Chunk.windows_length s size

/-- the `i`-th window is `s[i:i+size]`, of length exactly `size` when `size ≥ 1` (it exists only if `i + size ≤ n`) -/
theorem windowed_lengths (s : List α) (size : Nat) (i : Nat) (h : i < (windowed s size).length) :
    (windowed s size)[i] = (s.drop i).take size ∧ ((windowed s size)[i]).length = size := by
  have hc := windowed_count s size
  have key : ∀ (L : List (List α)) (_ : L = Spec.Chunk.windows size s) (h : i < L.length),
      L[i] = (s.drop i).take size := by
    intro L hL h; subst hL; exact Lemmas.Chunk.windows_getElem s size i h
  have e := key _ (windowed_eq_spec s size) h
  refine ⟨e, ?_⟩
  rw [e, List.length_take, List.length_drop]; omega
example : (windowed [1, 2, 3, 4] 2).length = 3 := by decide

/-- `Pairs` returns the adjacent pairs in order -/
theorem pairs_eq_spec [Inhabited α] (s : List α) : pairs s = s.zip s.tail :=
  Lemmas.Chunk.pairs_eq_spec s
example : pairs [1, 2, 3] = [(1, 2), (2, 3)] := by decide

theorem pairs_count [Inhabited α] (s : List α) : (pairs s).length = s.length - 1 := by
  rw [pairs_eq_spec]; simp [List.length_zip]

/-- `ChunkFunc`'s callback trace is what `Chunk` returns -/
theorem chunkFunc_same (s : List α) (size : Nat) (hsize : 1 ≤ size) : chunkFunc s size = chunk s size := by
  rw [chunk_eq_spec s size hsize]; exact Lemmas.Chunk.chunkFunc_eq_spec s hsize
example : chunkFunc [1, 2, 3, 4, 5] 2 = [[1, 2], [3, 4], [5]] := by decide

theorem windowedFunc_same (s : List α) (size : Nat) : windowedFunc s size = windowed s size := by
  rw [windowed_eq_spec]; exact Lemmas.Chunk.windowedFunc_eq_spec s size

theorem pairsFunc_same [Inhabited α] (s : List α) : pairsFunc s = pairs s := by
  rw [pairs_eq_spec]; exact Lemmas.Chunk.pairsFunc_eq_spec s

end C13

#print axioms C13.chunk_eq_spec
#print axioms C13.chunk_join
#print axioms C13.chunk_lengths
#print axioms C13.chunk_count
#print axioms C13.lim_is_ceil
#print axioms C13.windowed_eq_spec
#print axioms C13.windowed_count
#print axioms C13.windowed_lengths
#print axioms C13.pairs_eq_spec
#print axioms C13.pairs_count
#print axioms C13.chunkFunc_same
#print axioms C13.windowedFunc_same
#print axioms C13.pairsFunc_same
