import TypVerif.Lemmas.OnceRedSim
import TypVerif.Lemmas.OnceRedAccept
import TypVerif.Props.C17accept
/-
C17 — THE REDUCTION LOSES NO BEHAVIOUR: every visible trace of `Model.Once.sys` is a visible trace of the reduced system `red` that the
judge `Drv/C17.lean` steps (the converse of `C17.red_step_sound`), and the acceptor `Conc.accepts (red n arity res) fuel` accepts it
whenever `fuel ≥ 3` (the judge uses `closureFuel = 64`).

Proof: `Lemmas.OnceRed.nf` is the explicit normal form of a state under urgent steps (everybody who can only go on to `read` is at `read`
once `done` is, or is about to be, set; otherwise `fast ↦ lock`, `check ↦ callF`).  `s ↦ nf s` is a simulation of the model by `red`:
an urgent step of the model is a stutter (`nf` is invariant), any other step (a visible step, or the winner's `Lock` while `done = 0`) is
matched by the same step of `red` from `nf s` followed by at most one normalisation step.  The fuel `4 * n + 8` of `normalize` always
suffices (`normalize_fuel_sufficient`: every urgent step decreases a measure that is at most `4 * n`).  For the acceptor: between two
visible events `red` needs at most 3 internal steps, and `Conc.tauClosure` contains everything reachable by at most `fuel` internal steps
from a duplicate-free state list (`Lemmas/OnceRedClosure.lean`; its early exit is a fixpoint test only for duplicate-free lists, which is
what `dedup` produces).

Not covered: the fold the driver really performs (`Lemmas.ConcAcceptC17.jfold`: the number of goroutines grows with the trace, states are
padded with idle goroutines, the result function is chosen per event).
-/
namespace C17
open TypVerif TypVerif.Conc TypVerif.Model.Once TypVerif.Drv.C17

/-- every visible trace of the model is a visible trace of the reduced system -/
theorem red_complete (n arity : Nat) (res : Nat → List Int) (ls : List (Option Event)) (s : State)
    (h : Exec (Model.Once.sys n arity res) (Model.Once.sys n arity res).init ls s) :
    ∃ ls' s', Exec (red n arity res) (red n arity res).init ls' s' ∧ visible ls' = visible ls :=
  Lemmas.OnceRed.red_complete n arity res ls s h

example : ∃ ls s, Exec (Model.Once.sys 2 2 demoRes) (Model.Once.sys 2 2 demoRes).init ls s ∧ visible ls = demoTrace :=
  Conc.accepts_sound (Model.Once.sys 2 2 demoRes) 64 demoTrace (by decide)

/-- the simulation behind it: the reduced system follows the model through the normal forms, each model step costing at most
two steps of `red` with the same visible label -/
theorem red_simulates (n arity : Nat) (res : Nat → List Int) (s s1 : State) (l : Option Event)
    (hr : Reachable (Model.Once.sys n arity res) s) (hm : (l, s1) ∈ (Model.Once.sys n arity res).succ s) :
    ∃ ls, Exec (red n arity res) (Lemmas.OnceRed.nf s) ls (Lemmas.OnceRed.nf s1) ∧ visible ls = visible [l] ∧
      ls.length ≤ 2 :=
  Lemmas.OnceRed.sim_step n arity res s s1 l
    (Lemmas.OnceRed.goodX_reachable n arity res s hr) hm

/-- the fuel of `normalize` in `red` is never too small: on a reachable state it yields a state without urgent step -/
theorem normalize_fuel_sufficient (n arity : Nat) (res : Nat → List Int) (s : State)
    (hr : Reachable (Model.Once.sys n arity res) s) :
    pick (normalize (4 * s.pcs.length + 8) s) = none := by
  have hg : Lemmas.OnceRed.GoodX s := Lemmas.OnceRed.goodX_reachable n arity res s hr
  exact (Lemmas.OnceRed.normalize_props _ s hg).2.2 (by have := Lemmas.OnceRed.nu_le s; omega)

/-- the acceptor on the reduced system accepts every visible trace of the model, with internal-closure fuel ≥ 3 -/
theorem red_accepts_complete (n arity : Nat) (res : Nat → List Int) (fuel : Nat) (hf : 3 ≤ fuel)
    (ls : List (Option Event)) (s : State)
    (h : Exec (Model.Once.sys n arity res) (Model.Once.sys n arity res).init ls s) :
    Conc.accepts (red n arity res) fuel (visible ls) = true :=
  Lemmas.OnceRed.accepts_complete n arity res fuel hf ls s h

/-- … in particular with the fuel the judge uses -/
theorem red_accepts_complete_closureFuel (n arity : Nat) (res : Nat → List Int) (ls : List (Option Event)) (s : State)
    (h : Exec (Model.Once.sys n arity res) (Model.Once.sys n arity res).init ls s) :
    Conc.accepts (red n arity res) closureFuel (visible ls) = true :=
  Lemmas.OnceRed.accepts_complete n arity res closureFuel (by decide) ls s h

/-- acceptance by the reduced system = being a visible trace of the model (with `C17.judge_accept_sound`) -/
theorem red_accepts_iff (n arity : Nat) (res : Nat → List Int) (fuel : Nat) (hf : 3 ≤ fuel) (tr : List Event) :
    Conc.accepts (red n arity res) fuel tr = true ↔
      ∃ ls s, Exec (Model.Once.sys n arity res) (Model.Once.sys n arity res).init ls s ∧ visible ls = tr := by
  constructor
  · exact judge_accept_sound n arity res fuel tr
  · rintro ⟨ls, s, hex, rfl⟩
    exact red_accepts_complete n arity res fuel hf ls s hex

end C17

#print axioms C17.red_complete
#print axioms C17.red_simulates
#print axioms C17.normalize_fuel_sufficient
#print axioms C17.red_accepts_complete
#print axioms C17.red_accepts_complete_closureFuel
#print axioms C17.red_accepts_iff
