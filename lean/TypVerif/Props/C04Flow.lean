import TypVerif.Lemmas.SmcFlow
import TypVerif.Gen.MapFlow
/-
C04, tie 4C: the LABEL-LEVEL CONTROL-FLOW GRAPH of the step-level model of `sync2.Map` (`Model/SyncMapConc.lean`, the system
the `C04.conc_*` theorems are about) against the one extracted STATICALLY from `/repo/sync2/map.go` on every run
(`/verif/extract` → `Gen/MapFlow.lean`: interprocedural, condition-sensitive, over all paths of every operation).

An edge is `(operation, hook label a, hook label b)`: "in a call of that operation a goroutine parked at a hook labelled a can be
parked next at a hook labelled b" (`op:<name>` = the park before the call, `ret` = the return, `pick` = the head of a
`for k, e := range read.m` iteration).  `Pc.kind` gives the operation of a program counter of the model, `Pc.label` its hook.

* `flow_sound`, `flow_sound_picks`  every step (`exec`) and every choice at a loop head (`picks`) of the model, from ANY shared
  state, for ANY key/value types, is an edge of the explicit list `modelFlow` (115 edges), and stays inside its operation
  until it returns.
* `flow_complete`  every edge of `modelFlow` is taken by the model (`K = V = Nat`), from SOME shared state.
* the tie with `Gen.MapFlow.edges`: `gen_flow_eq_merge` — the generated graph IS the model's graph plus the one artefact in `staticOnly`
  (one `decide`); `gen_flow_covers_model`, `gen_flow_only_model_or_artefact` are its two halves.  A change of map.go that adds, removes
  or redirects a label succession anywhere (also on a path no test or trace exercises) changes `Gen.MapFlow.edges` and breaks it.

Claimed: label-level control flow, per operation, over all paths, statically.  Not claimed: anything about data, or about the
CONDITIONS under which an edge is taken (a model that took the right edges for the wrong reasons would pass) — that is the
dynamic tie (`C04conc`: real step traces replayed in the model label for label, with the shared state compared); nor that an
edge is taken from a REACHABLE state (e.g. `X.readLoad2 → X.readStore1`, i.e. `dirtyLocked` returning at once because
`m.dirty != nil` while `!read.amended`, is an edge of the model and of the static graph, but no reachable state with the mutex
free has `dirty != nil ∧ !amended`).
-/
namespace C04
open TypVerif.Model.SyncMapConc TypVerif.Lemmas.Smc

section
variable {K V : Type} [DecidableEq K] [Inhabited V]

/-- **Soundness of the graph (steps).**  Whatever the shared state, a step of the model from `pc` to `pc'` is an edge
`(operation of pc, label of pc, label of pc')` of `modelFlow`, and `pc'` is a return or belongs to the same operation.
Claimed: the model has no label succession outside `modelFlow`.  Not claimed: that the step is taken under the same condition
as in map.go. -/
theorem flow_sound (sh : Shared K V) (t : Tid) (pc : Pc K V) (sh' : Shared K V) (pc' : Pc K V)
    (h : exec sh t pc = some (sh', pc')) :
    (pc.kind, pc.label, pc'.label) ∈ modelFlow ∧ (pc'.label = "ret" ∨ pc'.kind = pc.kind) :=
  TypVerif.Lemmas.Smc.flow_sound sh t pc sh' pc' h

example : exec (K := Nat) (V := Nat) {} 0 (.start (.load 1)) = some ({}, .loadRead1 1) := rfl

/-- **Soundness of the graph (loop heads).**  The same for the choices at the head of a `for k, e := range read.m` iteration
(label `pick`; `dirtyLocked` and `Range`). -/
theorem flow_sound_picks (pc : Pc K V) (c : K × Pc K V) (h : c ∈ picks pc) :
    (pc.kind, pc.label, c.2.label) ∈ modelFlow ∧ c.2.kind = pc.kind :=
  TypVerif.Lemmas.Smc.flow_sound_picks pc c h

example : ((1 : Nat), Pc.rangeLoad (K := Nat) (V := Nat) [] [] 1 0) ∈ picks (.rangePick [(1, 0)] []) := by decide

end

/-- **Completeness of the graph.**  Every edge of `modelFlow` is a step or a loop-head choice of the model over `Nat` keys and
values from some shared state (`Realises`; witnesses: `Lemmas.Smc.flowWitnesses`, checked by computation).
Not claimed: that the shared state is reachable. -/
theorem flow_complete : ∀ e ∈ modelFlow, Realises e := TypVerif.Lemmas.Smc.flow_complete

/-- `modelFlow` is strictly sorted in the order of the generated list (so: duplicate-free, and comparable by `=`). -/
theorem model_flow_sorted : flowSorted modelFlow = true := modelFlow_sorted

/-- the artefacts of the static analysis are not edges of the model -/
theorem static_only_not_model : ∀ e ∈ staticOnly, e ∉ modelFlow := staticOnly_not_model

/-- the generated graph speaks about the six operations of the model and nothing else, in the model's order, without
duplicates -/
theorem gen_flow_wellformed : (∀ e ∈ Gen.MapFlow.edges, e.1 ∈ flowOps) ∧ flowSorted Gen.MapFlow.edges = true := by decide

/-- **The static tie.**  The graph regenerated from map.go on every run is EQUAL to the sorted merge of the model's graph and the one
artefact of the static analysis (`staticOnly`): every label succession the source code allows (all paths, all six operations) is a
label succession of the model, and conversely.  (History: the first version of the extractor resolved the builtin `delete(m.dirty, key)`
as a call of the method `(*entry).delete`; the proof attempt for loadanddelete/delete exposed that, the extractor was corrected.) -/
theorem gen_flow_eq_merge : Gen.MapFlow.edges = flowMerge modelFlow staticOnly := by decide

/-- every edge of the model is an edge of map.go's static graph -/
theorem gen_flow_covers_model : ∀ e ∈ modelFlow, e ∈ Gen.MapFlow.edges := (tie_of_eq gen_flow_eq_merge).1

/-- every edge of map.go's static graph is an edge of the model or the listed artefact -/
theorem gen_flow_only_model_or_artefact : ∀ e ∈ Gen.MapFlow.edges, e ∈ modelFlow ∨ e ∈ staticOnly :=
  (tie_of_eq gen_flow_eq_merge).2

end C04

#print axioms C04.flow_sound
#print axioms C04.flow_sound_picks
#print axioms C04.flow_complete
#print axioms C04.model_flow_sorted
#print axioms C04.static_only_not_model
#print axioms C04.gen_flow_wellformed
#print axioms C04.gen_flow_eq_merge
#print axioms C04.gen_flow_covers_model
#print axioms C04.gen_flow_only_model_or_artefact
