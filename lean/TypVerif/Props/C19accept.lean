import TypVerif.Lemmas.ConcAccept
import TypVerif.Lemmas.C19Accept
import TypVerif.Props.C19
/-
C19 — ACCEPTANCE IS SOUND for the timed-helper lines of the judge `Drv/C19.lean`
(`sendtimeout / sendcontext / recvtimeout / recvcontext`, functions `sendLine` / `recvLine`).

For such a line the judge builds the scenario parameters (`sendScenario` / `recvScenario`), enumerates the outcomes of the scenario
system by `sendOutcomes fuel p` / `recvOutcomes fuel p` (= `Conc.tauClosure` from the initial state, projected by `sendFinal` /
`recvFinal`, duplicates removed), renders them (`renderSend` / `renderRecv`) and accepts the implementation's result string `impl`
iff it is one of the rendered outcomes (`verdict`: then, and — apart from the judge's own diagnostic strings — only then, the
`model` field of the output is `impl`).

Proved here: every enumerated outcome is the outcome — by the driver's own projection `sendFinal` / `recvFinal` — of an execution
of `sendSys p` / `recvSys p` from its initial state (for the send scenarios: a terminated one, `succS p s = []`); an accepted result
string is the rendering of the outcome of such an execution; hence the theorems of `Props/C19.lean`, which quantify over all
reachable states, apply to the run the accepted line stands for (`send_accepted`, `recv_accepted`).

"Accepted" is `(sendLine …).model = impl` together with `¬ Diagnostic impl`: `impl` is not one of the strings the judge itself
emits (`bad-op`, `rejected:not-in-{…`, `violated:…`); see `Lemmas/C19Accept.lean`.  The rendering function `Proto.Val.render` is a
`partial def`, opaque to the kernel; the statements speak of `renderSend o = impl` and never look inside.
Soundness only (the closure is fuel-bounded: that no outcome of the model is lost is not claimed).
-/
namespace C19
open TypVerif TypVerif.Conc TypVerif.Model.Chan TypVerif.Model.ChanHelpers TypVerif.Drv.C19
open TypVerif.Lemmas.C19Accept (Diagnostic)

/-- every enumerated send outcome is the projection (`sendFinal`: returned bool, what the peer got, what remains in the
channel) of a state reached by an execution of the scenario system from its initial state -/
theorem sendOutcomes_sound (fuel : Nat) (p : Params) : ∀ o ∈ sendOutcomes fuel p,
    ∃ (ls : List (Option Unit)) (s : SState),
      Exec (sendSys p) (initS p) ls s ∧ visible ls = [] ∧ sendFinal s = some o :=
  Lemmas.C19Accept.sendOutcomes_sound fuel p

/-- … and that execution is terminated when there are no peer senders and under the judge's timing assumption (both hold for
`sendScenario`): the final state has no successor -/
theorem sendOutcomes_terminated (fuel : Nat) (p : Params) (hp : p.promptPoll = true) (hs : p.peerSends = []) :
    ∀ o ∈ sendOutcomes fuel p, ∃ (ls : List (Option Unit)) (s : SState),
      Exec (sendSys p) (initS p) ls s ∧ sendFinal s = some o ∧ succS p s = [] := by
  intro o ho
  obtain ⟨ls, s, hex, _, hf⟩ := sendOutcomes_sound fuel p o ho
  have hsup : s.supply = [] := Lemmas.C19Accept.supplyS_nil_exec p hex hs
  exact ⟨ls, s, hex, hf, Lemmas.C19Accept.sendFinal_terminal p hp hf hsup⟩

/-- every enumerated receive outcome is the projection (`recvFinal`: value, ok, buffer ++ what the blocked peer still sends) of a
state reached by an execution from the initial state in which the helper has returned -/
theorem recvOutcomes_sound (fuel : Nat) (p : Params) : ∀ o ∈ recvOutcomes fuel p,
    ∃ (ls : List (Option Unit)) (s : RState),
      Exec (recvSys p) (initR p) ls s ∧ visible ls = [] ∧ recvFinal s = some o :=
  Lemmas.C19Accept.recvOutcomes_sound fuel p

/-- what the projections say -/
theorem sendFinal_eq {s : SState} {o : Bool × List Int × List Int} (h : sendFinal s = some o) :
    s.pc = .done o.1 ∧ (s.budget = 0 ∨ s.ch.buf = []) ∧ o.2.1 = s.taken ∧ o.2.2 = s.ch.buf :=
  Lemmas.C19Accept.sendFinal_eq h

theorem recvFinal_eq {s : RState} {o : Int × Bool × List Int} (h : recvFinal s = some o) :
    s.pc = .done o.1 o.2.1 ∧ o.2.2 = s.ch.buf ++ s.supply :=
  Lemmas.C19Accept.recvFinal_eq h

/-- when does `verdict` return the implementation's string as the model's: exactly in the accepted rows, or when the
implementation's string is one of the judge's own diagnostics -/
theorem verdict_model (impl : String) (allowed : List String) (cons : Option String) (tags : List String)
    (h : (verdict impl allowed cons tags).model = impl) : impl ∈ allowed ∨ Diagnostic impl :=
  Lemmas.C19Accept.verdict_model impl allowed cons tags h

/-- no rendered send outcome is one of the judge's diagnostics: `¬ Diagnostic impl` excludes no outcome of the model (send side;
on the receive side the rendering starts with `toString (v : Int)`, not analysed) -/
theorem renderSend_not_diagnostic (o : Bool × List Int × List Int) : ¬ Diagnostic (renderSend o) :=
  Lemmas.C19Accept.renderSend_not_diagnostic o

/-- **send lines**: an accepted result string is the rendered outcome of an execution of the scenario system -/
theorem sendLine_accept_sound (op : String) (mode : Mode) (blocking : Bool) (cap fill peer : Nat) (impl : String)
    (h : (sendLine op mode blocking cap fill peer impl).model = impl) (hnd : ¬ Diagnostic impl) :
    ∃ (ls : List (Option Unit)) (s : SState) (o : Bool × List Int × List Int),
      Exec (sendSys (sendScenario mode cap fill peer)) (initS (sendScenario mode cap fill peer)) ls s ∧
      sendFinal s = some o ∧ renderSend o = impl :=
  Lemmas.C19Accept.sendLine_accept_sound op mode blocking cap fill peer impl h hnd

/-- **receive lines** -/
theorem recvLine_accept_sound (op : String) (mode : Mode) (blocking : Bool) (cap fill : Nat) (closed : Bool) (peer : Nat)
    (impl : String) (h : (recvLine op mode blocking cap fill closed peer impl).model = impl) (hnd : ¬ Diagnostic impl) :
    ∃ (ls : List (Option Unit)) (s : RState) (o : Int × Bool × List Int),
      Exec (recvSys (recvScenario mode cap fill closed peer)) (initR (recvScenario mode cap fill closed peer)) ls s ∧
      recvFinal s = some o ∧ renderRecv o = impl :=
  Lemmas.C19Accept.recvLine_accept_sound op mode blocking cap fill closed peer impl h hnd

/-- the helper's value 99 is not among the pre-filled values 1..fill (the hypothesis of `send_iff`) as long as `fill < 99` -/
theorem val_not_in_fill (fill : Nat) (h : fill < 99) : (99 : Int) ∉ fillList fill := by
  intro hm
  unfold fillList at hm
  obtain ⟨i, hi, he⟩ := List.mem_map.1 hm
  have := List.mem_range.1 hi
  omega

/-- **Corollary (send)**, connecting to `C19.send_iff` and `C19.nonpositive_timeout_blocks`: an accepted send line
(`fill < 99`, so that the helper's value is recognisable) stands for a terminated execution of the scenario system whose
final state `s` has the helper returned with `r`, the peer's receipts `got` and the channel content `rem` rendered as `impl`;
in that execution `r = true` iff the helper's send statement / case fired — the value was handed over —, and then 99 is
in `got ++ rem` exactly once; `r = false` means 99 is nowhere and the timer / context case was ready; and without a limit
(non-positive timeout, or a context that is never cancelled — the judge's `blocking`) the result is `true`. -/
theorem send_accepted (op : String) (mode : Mode) (blocking : Bool) (cap fill peer : Nat) (impl : String)
    (hfill : fill < 99)
    (h : (sendLine op mode blocking cap fill peer impl).model = impl) (hnd : ¬ Diagnostic impl) :
    ∃ (ls : List (Option Unit)) (s : SState) (r : Bool) (got rem : List Int),
      Exec (sendSys (sendScenario mode cap fill peer)) (initS (sendScenario mode cap fill peer)) ls s ∧
      succS (sendScenario mode cap fill peer) s = [] ∧
      s.pc = .done r ∧ got = s.taken ∧ rem = s.ch.buf ∧ renderSend (r, got, rem) = impl ∧
      (r = true ↔ s.sendFired = true) ∧
      (got ++ rem).count 99 = (if r then 1 else 0) ∧
      (r = false → 99 ∉ got ∧ 99 ∉ rem ∧ s.fired = true) ∧
      ((∃ tmo, mode = .timeout tmo ∧ tmo ≤ 0) → r = true) ∧
      (mode = .context false false → r = true) := by
  obtain ⟨ls, s, o, hex, hf, hr⟩ := sendLine_accept_sound op mode blocking cap fill peer impl h hnd
  obtain ⟨r, got, rem⟩ := o
  obtain ⟨hpc, _, hgot, hrem⟩ := sendFinal_eq hf
  simp only at hpc hgot hrem
  have hreach : Reachable (sendSys (sendScenario mode cap fill peer)) s := Exec.reachable hex .init
  have h1 : (sendScenario mode cap fill peer).val ∉ (sendScenario mode cap fill peer).fill := val_not_in_fill fill hfill
  have h2 : (sendScenario mode cap fill peer).val ∉ (sendScenario mode cap fill peer).peerSends := by
    simp [sendScenario]
  obtain ⟨hiff, hcount, hfalse⟩ := send_iff _ h1 h2 s hreach r hpc
  have hsup : s.supply = [] := Lemmas.C19Accept.supplyS_nil_exec _ hex rfl
  refine ⟨ls, s, r, got, rem, hex, Lemmas.C19Accept.sendFinal_terminal _ rfl hf hsup, hpc, hgot, hrem, hr, hiff, ?_, ?_, ?_, ?_⟩
  · rw [hgot, hrem, List.count_append, Nat.add_comm, ← List.count_append]
    exact hcount
  · intro hr0
    obtain ⟨a, b, _, d⟩ := hfalse hr0
    rw [hgot, hrem]
    exact ⟨b, a, d⟩
  · rintro ⟨tmo, hm, ht⟩
    have := ((nonpositive_timeout_blocks (sendScenario mode cap fill peer) tmo (by simp [sendScenario, hm]) ht).1
      h1 h2 s hreach).2.2.2.2.2
    cases r with
    | true => rfl
    | false => exact absurd hpc this
  · intro hm
    have hnf := Lemmas.C19Accept.never_firedS (sendScenario mode cap fill peer) (by simp [sendScenario, hm]) s hreach
    cases r with
    | true => rfl
    | false =>
      have := (hfalse rfl).2.2.2
      rw [hnf] at this
      cases this

/-- **Corollary (receive)**, connecting to `C19.recv_iff`, `C19.recv_closed_drained` (through `recv_iff`) and
`C19.nonpositive_timeout_blocks`: an accepted receive line stands for an execution of the scenario system in whose final state
`s` the helper has returned `(v, ok)` and the harness's drain yields `rem`, rendered as `impl`; in that execution `ok = true` iff
the helper consumed exactly `[v]`, and then `v` was the head of the channel at the helper's receive step; `ok = false` gives the
zero value, nothing consumed, and — if the receive case fired — a closed and drained channel; nothing is lost or invented
(`(if ok then [v] else []) ++ rem` is the pre-filled content followed by the peer's 77 if a peer sends); and without a limit
`ok = false` happens only on a closed and drained channel. -/
theorem recv_accepted (op : String) (mode : Mode) (blocking : Bool) (cap fill : Nat) (closed : Bool) (peer : Nat)
    (impl : String) (h : (recvLine op mode blocking cap fill closed peer impl).model = impl) (hnd : ¬ Diagnostic impl) :
    ∃ (ls : List (Option Unit)) (s : RState) (v : Int) (ok : Bool) (rem : List Int),
      Exec (recvSys (recvScenario mode cap fill closed peer)) (initR (recvScenario mode cap fill closed peer)) ls s ∧
      s.pc = .done v ok ∧ rem = s.ch.buf ++ s.supply ∧ renderRecv (v, ok, rem) = impl ∧
      (ok = true ↔ s.consumed = [v]) ∧
      (ok = true → s.recvFired = true ∧ s.headAt = some v) ∧
      (ok = false → v = 0 ∧ s.consumed = []) ∧
      (ok = false → s.recvFired = true → s.ch.closed = true ∧ s.ch.buf = []) ∧
      (ok = false → s.recvFired = false → s.fired = true) ∧
      (if ok then [v] else []) ++ rem = fillList fill ++ (if peer = 1 ∧ closed = false then [77] else []) ∧
      (((∃ tmo, mode = .timeout tmo ∧ tmo ≤ 0) ∨ mode = .context false false) → ok = false →
        s.ch.closed = true ∧ s.ch.buf = []) := by
  obtain ⟨ls, s, o, hex, hf, hr⟩ := recvLine_accept_sound op mode blocking cap fill closed peer impl h hnd
  obtain ⟨v, ok, rem⟩ := o
  obtain ⟨hpc, hrem⟩ := recvFinal_eq hf
  simp only at hpc hrem
  have hreach : Reachable (recvSys (recvScenario mode cap fill closed peer)) s := Exec.reachable hex .init
  obtain ⟨hdone, _, _, hcons⟩ := recv_iff _ s hreach
  obtain ⟨hiff, htrue, hfalse, hfired, hnot⟩ := hdone v ok hpc
  have hsent := (hcons rfl).2
  have hss := Lemmas.C19Accept.sent_supply (recvScenario mode cap fill closed peer) s hreach
  refine ⟨ls, s, v, ok, rem, hex, hpc, hrem, hr, hiff, htrue, hfalse, fun a b => (hfired a b).2, hnot, ?_, ?_⟩
  · have hcv : s.consumed = (if ok then [v] else []) := by
      cases ok with
      | true => exact hiff.1 rfl
      | false => exact (hfalse rfl).2
    rw [hrem, ← hcv, ← List.append_assoc, ← hsent, hss]
    rfl
  · intro hb hok
    rcases hb with ⟨tmo, hm, ht⟩ | hm
    · have := ((nonpositive_timeout_blocks (recvScenario mode cap fill closed peer) tmo (by simp [recvScenario, hm]) ht).2
        s hreach).2.2.2.2 v (by rw [hpc, hok])
      exact ⟨this.2.2.1, this.2.2.2.1⟩
    · have hnf := Lemmas.C19Accept.never_firedR (recvScenario mode cap fill closed peer) (by simp [recvScenario, hm]) s hreach
      cases hrf : s.recvFired with
      | true => exact (hfired hok hrf).2
      | false =>
        have := hnot hok hrf
        rw [hnf] at this
        cases this

/-- the judge's `blocking` argument of the context lines: `ctx = 0` is the context that is never cancelled -/
example : ctxMode 0 = .context false false := rfl

/-! non-vacuity: outcomes the enumeration finds — full channel, one peer receiver, 2 ms timer: both results; closed drained channel -/
example : (true, [1], [99]) ∈ sendOutcomes fuel (sendScenario (.timeout 2) 1 1 1) ∧
    (false, [1], []) ∈ sendOutcomes fuel (sendScenario (.timeout 2) 1 1 1) := by decide
example : recvOutcomes fuel (recvScenario (.timeout 2) 2 0 true 0) = [(0, false, [])] := by decide
example : ¬ Diagnostic "true [1] [99]" := by
  intro h
  rcases h with h | ⟨x, h⟩ | ⟨x, h⟩
  · exact absurd h (by decide)
  · have := congrArg (fun s => s.toList.head?) h
    simp at this
  · have := congrArg (fun s => s.toList.head?) h
    simp at this

end C19

#print axioms C19.sendOutcomes_sound
#print axioms C19.sendOutcomes_terminated
#print axioms C19.recvOutcomes_sound
#print axioms C19.sendFinal_eq
#print axioms C19.recvFinal_eq
#print axioms C19.verdict_model
#print axioms C19.renderSend_not_diagnostic
#print axioms C19.sendLine_accept_sound
#print axioms C19.recvLine_accept_sound
#print axioms C19.val_not_in_fill
#print axioms C19.send_accepted
#print axioms C19.recv_accepted
