import TypVerif.Lemmas.Once
import TypVerif.Lemmas.OnceSpec
/-
C17: "For each Once1, Once2 or Once3 value, however many goroutines call Do concurrently or later and
whatever functions they pass, exactly one of those functions is invoked, exactly once. Every Do call
returns the values that invocation returned, and returns only after that invocation has completed."

System: `Model.Once.sys n arity res` — `n` goroutines (any n), goroutine `t` passes `f_t` returning `res t`
(any `res`), every interleaving of the atomic actions of sync.Once.Do / doSlow and of the wrapper.
`Reachable` = all schedules, any number of steps.
-/
namespace C17
open TypVerif TypVerif.Conc TypVerif.Model.Once TypVerif.Lemmas.Once

/-- at most one of the functions is ever invoked, at most once -/
theorem exactly_once {n a : Nat} {res : Nat → List Int} {s : State}
    (h : Reachable (sys n a res) s) : s.invocations ≤ 1 :=
  invocations_le_one (good_reachable n a res s h)

/-- … and `invocations` is exactly the number of `fstart` events: an `fstart t` step adds `t` to the record,
no other step changes it -/
theorem invocations_counts_fstart {n a : Nat} {res : Nat → List Int} {s s' : State} {l : Option Event}
    (hstep : (l, s') ∈ (sys n a res).succ s) :
    (∀ t, l = some (.fstart t) → s'.invoked = t :: s.invoked) ∧
    ((∀ t, l ≠ some (.fstart t)) → s'.invoked = s.invoked) :=
  ⟨fun _ e => (fstart_step (e ▸ hstep)).2, fun hl => invoked_frame hstep hl⟩

/-- every goroutine that is past its `ret` has seen exactly one invocation, and that invocation finished -/
theorem returned_implies_invoked_and_finished {n a : Nat} {res : Nat → List Int} {s : State}
    (h : Reachable (sys n a res) s) (t : Nat) (hret : s.pc t = .returned) :
    s.invocations = 1 ∧ s.finished = true := by
  have hg := good_reachable n a res s h
  have ht := hg.thread t
  unfold ThreadOk at ht
  rw [hret] at ht
  have := hg.doneT ht
  simp [State.invocations, State.finished, this.1, this.2]

/-- every `ret t r` event carries the result recorded at the `fend` (which is unique by `exactly_once`,
and never changes afterwards: `result_stable`) -/
theorem same_results {n a : Nat} {res : Nat → List Int} {s s' : State} {t : Nat} {r : List Int}
    (h : Reachable (sys n a res) s) (hstep : (some (Event.ret t r), s') ∈ (sys n a res).succ s) :
    s.fres = some r := by
  have hg := good_reachable n a res s h
  obtain ⟨hpc, rfl⟩ := ret_step hstep
  have ht := hg.thread t
  unfold ThreadOk at ht
  rw [hpc] at ht
  exact (hg.doneT ht).2

/-- the recorded result is the one the `fend` event carried … -/
theorem fend_records {n a : Nat} {res : Nat → List Int} {s s' : State} {t : Nat} {r : List Int}
    (hstep : (some (Event.fend t r), s') ∈ (sys n a res).succ s) : s'.fres = some r ∧ r = res t :=
  ⟨(fend_step hstep).2.2, (fend_step hstep).2.1⟩

/-- … and it is never overwritten -/
theorem result_stable {n a : Nat} {res : Nat → List Int} {s s' : State} {l : Option Event} {r : List Int}
    (h : Reachable (sys n a res) s) (hr : s.fres = some r) (hstep : (l, s') ∈ (sys n a res).succ s) :
    s'.fres = some r :=
  fres_stable (good_reachable n a res s h) hr hstep

/-- no `Do` is at or past its return point (has left `once.Do`) before the invocation's completion,
in particular no `ret` event happens before the `fend` -/
theorem after_completion {n a : Nat} {res : Nat → List Int} {s : State}
    (h : Reachable (sys n a res) s) (t : Nat) (hpc : s.pc t = .read ∨ s.pc t = .returned) :
    s.finished = true ∧ s.fres = some s.fields := by
  have hg := good_reachable n a res s h
  have ht := hg.thread t
  unfold ThreadOk at ht
  have hd : s.done = true := by
    rcases hpc with e | e <;> (rw [e] at ht; exact ht)
  have := hg.doneT hd
  simp [State.finished, this.2]

theorem after_completion_ret {n a : Nat} {res : Nat → List Int} {s s' : State} {t : Nat} {r : List Int}
    (h : Reachable (sys n a res) s) (hstep : (some (Event.ret t r), s') ∈ (sys n a res).succ s) :
    s.finished = true :=
  (after_completion h t (Or.inl (ret_step hstep).1)).1

/-- trace form: the visible events of every execution of the model satisfy the history predicate that the
judge evaluates on the real code's traces (at most one `fstart`; every `ret`'s tuple is the `fend`'s;
`ret` after `fend`; `ret`/`fstart` only after their `call`) -/
theorem spec_holds {n a : Nat} {res : Nat → List Int} {ls : List (Option Event)} {s : State}
    (h : Exec (sys n a res) (sys n a res).init ls s) : Spec.Once.holds (visible ls) = true := by
  obtain ⟨m, hm, _⟩ := run_ok h Spec.Once.Mon.init Reachable.init (sim_init n a)
  unfold Spec.Once.holds
  have hm' : Spec.Once.Mon.init.run (visible ls) = Except.ok m := hm
  rw [hm']

/-! non-vacuity: two goroutines, the second arrives while the first runs f; both return f_0's result -/
def demoRes : Nat → List Int := fun t => [10 + t, 20 + t]
def demoTrace : List Event :=
  [.call 0, .fstart 0, .call 1, .fend 0 [10, 20], .ret 1 [10, 20], .ret 0 [10, 20]]

example : Conc.accepts (sys 2 2 demoRes) 64 demoTrace = true := by decide
example : Conc.accepts (sys 2 2 demoRes) 64 [.call 0, .fstart 0, .call 1, .fstart 1] = false := by decide
example : Conc.accepts (sys 2 2 demoRes) 64 [.call 0, .fstart 0, .call 1, .ret 1 [0, 0]] = false := by decide
example : Spec.Once.holds demoTrace = true := by decide

end C17

#print axioms C17.exactly_once
#print axioms C17.invocations_counts_fstart
#print axioms C17.returned_implies_invoked_and_finished
#print axioms C17.same_results
#print axioms C17.fend_records
#print axioms C17.result_stable
#print axioms C17.after_completion
#print axioms C17.after_completion_ret
#print axioms C17.spec_holds
