import TypVerif.Gen.ListShapes
/-
C16, tie 4B — GOLDEN FUNCTION SHAPES (written by tools/mkshapes.py; do not edit by hand).  For every function of the source files this property's model mirrors,
the extractor regenerates on every run: its calls, its stores through selectors / indices / pointers, its conditions and loop headers, its select cases and
its return expressions, in source order.  The theorems below state that these equal the shapes of the tree the model was written against.  They are the STATIC,
all-paths complement of the differential runs: a guard dropped, a fast path or a threshold added, an early return, a changed comparison or a different callee
on ANY path - also one that no generated input happens to take - changes the regenerated list and breaks the `rfl`.  A broken shape theorem is reported like a
broken proof (with a failing input when the search finds one, else `no-failing-input-found`); after a deliberate change of the source the changed functions are
re-read against the model and this file is regenerated.
-/
namespace C16

/-- lists/list.go - the List under Queue (a DEPENDENCY): 23 function(s) -/
theorem gen_shapes_dep_list :
    Gen.ListShapes.funcs =
      [("Element.Next", ["if p := l.next; l.list != nil && p != &l.list.root", "return p", "return nil"]),
       ("Element.Prev", ["if p := l.prev; l.list != nil && p != &l.list.root", "return p", "return nil"]),
       ("List.Init", ["store l.root.next", "store l.root.prev", "store l.len", "return l"]),
       ("New", ["return new(List[T]).Init()", "call new(List[T]).Init", "call new"]),
       ("List.Len", ["return l.len"]),
       ("List.Front", ["if l.len == 0", "return nil", "return l.root.next"]),
       ("List.Back", ["if l.len == 0", "return nil", "return l.root.prev"]),
       ("List.lazyInit", ["if l.root.next == nil", "call l.Init"]),
       ("List.insert", ["store e.prev", "store e.next", "store e.prev.next", "store e.next.prev", "store e.list", "store l.len", "return e"]),
       ("List.insertValue", ["return l.insert(&Element[T]{…}, at)", "call l.insert"]),
       ("List.remove", ["store e.prev.next", "store e.next.prev", "store e.next", "store e.prev", "store e.list", "store l.len"]),
       ("List.move", ["if e == at", "return ", "store e.prev.next", "store e.next.prev", "store e.prev", "store e.next", "store e.prev.next", "store e.next.prev"]),
       ("List.Remove", ["if e.list == l", "call l.remove", "return e.Value"]),
       ("List.PushFront", ["call l.lazyInit", "return l.insertValue(v, &l.root)", "call l.insertValue"]),
       ("List.PushBack", ["call l.lazyInit", "return l.insertValue(v, l.root.prev)", "call l.insertValue"]),
       ("List.InsertBefore", ["if mark.list != l", "return nil", "return l.insertValue(v, mark.prev)", "call l.insertValue"]),
       ("List.InsertAfter", ["if mark.list != l", "return nil", "return l.insertValue(v, mark)", "call l.insertValue"]),
       ("List.MoveToFront", ["if e.list != l || l.root.next == e", "return ", "call l.move"]),
       ("List.MoveToBack", ["if e.list != l || l.root.prev == e", "return ", "call l.move"]),
       ("List.MoveBefore", ["if e.list != l || e == mark || mark.list != l", "return ", "call l.move"]),
       ("List.MoveAfter", ["if e.list != l || e == mark || mark.list != l", "return ", "call l.move"]),
       ("List.PushBackList", ["call l.lazyInit", "for i > 0", "call other.Len", "call other.Front", "call e.Next", "call l.insertValue"]),
       ("List.PushFrontList", ["call l.lazyInit", "for i > 0", "call other.Len", "call other.Back", "call e.Prev", "call l.insertValue"])] := rfl

end C16
