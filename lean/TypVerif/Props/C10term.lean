import TypVerif.Props.C10live
import TypVerif.Props.C10log
import TypVerif.Lemmas.PubSubTermRun
/-
C10 — PubSub, TERMINATION of the internal work: the "eventually" of Pub / PubSlice.
Model `sys cfg` of `TypVerif/Model/PubSub.lean`; `_partial` = under `CloneDiscipline` (no `WithOnly`), as in
`C10.no_panic_partial` / `C10.no_deadlock_partial`.  Definitions in `TypVerif/Lemmas/PubSubTerm*.lean`.

THE VARIANT (`TypVerif.Lemmas.PubSubTerm.measure`, a plain natural number, no lexicographic order needed):

  measure cfg s = Σ_{t ∈ s.tasks} taskW (bound s) t  +  Σ_{ch ∈ s.chans} chanW ch  +  (1 if s.panicked = none else 0)
  bound s  = |(s.obj 0).subs| + #{pending Sub tasks (subStart / subWait)}
  taskW n  : pubStart _ _ _ evs ↦ 4·(|evs|·n) + 3     syncLoop _ _ work cb ↦ 3·|work| + (cb ? 1 : 2)
             waitWg ↦ 2   pubRet ↦ 1   asyncStart ↦ 4   asyncSend/wgSend _ cb ↦ (cb ? 1 : 3)
             subStart ↦ 4  subWait ↦ 3  subRet ↦ 1   unsubStart ↦ 3  unsubWait ↦ 2  unsubRet ↦ 1
             uaStart ↦ 3  uaWait ↦ 2  uaRet ↦ 1   woStart ↦ 1   done ↦ 0
  chanW ch = 2·|ch.buf| + (ch.holding ≠ none ? 1 : 0) + (ch.rdone ? 0 : 1)
  (it does not depend on `cfg`: the timer steps are always accounted for).

Differences from the hint of the task: the channel unit for "the receiver observes the close once" is `¬rdone`
(not `closed ∧ ¬rdone`), so that the closes of Unsub / UnsubAll do not change the measure at all; and one unit
for "has not panicked", so that the panicking steps of the model (which leave everything else alone) decrease it
too — they are unreachable under `CloneDiscipline`, but the one-step theorem need not know that.

WHAT IS CLAIMED: every step of a PubSub goroutine and every receiver step strictly decreases `measure`
(`work_decreases_partial`); hence every sequence of such steps from a reachable state is at most `measure` long
(`internal_run_bounded_partial`) and maximal ones exist (`internal_run_maximal_exists_partial`); a sender that
ends has delivered, timed out, or found its channel unsubscribed (`async_task_end`, `wg_task_end`,
`async_item_fate_partial`); and with receivers that last and no further invocation every maximal internal run ends
with ALL goroutines finished (`async_eventually_partial`).
"Maximal" replaces fairness by finiteness: since internal runs are bounded, ANY scheduler that keeps scheduling
enabled internal steps reaches the quiescent state; no fairness assumption is needed or made.
WHAT IS NOT CLAIMED: anything about runs in which the environment keeps invoking (each invocation may increase the
measure: `envSteps`), anything about systems with clones, any real-time bound.

DEFINITION PROBLEMS FOUND (reported, not patched):
1. `async_task_end` as first stated (for an arbitrary state `s`) is FALSE: `async_task_end_as_first_stated_is_false`.
   A state whose task is `asyncSend o it true` (callback pending) with an empty `timedOut` log ends the task without
   any log entry.  In reachable states the entry is there (`cb = true` is set in the very step that logs the timeout);
   the theorem is proved with `Conc.Reachable (sys cfg) s` added (any configuration, clones or not).
2. The hypothesis "Receiving / `allow ≥ measure`" cannot last if a `Sub` is pending: the channel it creates starts with
   allowance 0 and only an invocation (`allow`) can raise it, so a publisher that snapshots after that `Sub` blocks
   for ever on an unbuffered channel (`pending_sub_blocks_example`).  `async_eventually_partial` therefore assumes that no
   `Sub` is pending (`NoPendingSub`).  (`FreshSubNames` is an invariant of the model, `C10.fresh_names_invariant`, and
   `no_deadlock_partial` no longer asks for it — so it is not a hypothesis either.)
3. Channel ids are unique in every reachable state (`chan_ids_distinct`), which the model relies on silently
   (`updChan` updates every entry with the id; `sendTo` tests only the first): proved here because the measure needs it.
-/
namespace C10
open TypVerif TypVerif.Model.PubSub TypVerif.Lemmas.PubSubExec TypVerif.Lemmas.PubSubSafe TypVerif.Lemmas.PubSubLive
  TypVerif.Lemmas.PubSubLog TypVerif.Lemmas.PubSubTerm

/-- Channel ids are pairwise distinct in every reachable state of every configuration. -/
theorem chan_ids_distinct (cfg : Cfg) (s : State) (hr : Conc.Reachable (sys cfg) s) (c : Chan) :
    s.chans.countP (fun ch => ch.id == c) ≤ 1 :=
  chanIds_reachable cfg s hr c

/-! ### 1. the variant -/

/-- Every step of a PubSub goroutine and every receiver step strictly decreases `measure` (reachable states of the
system without clones; any timeout setting, any buffers).  Only the environment's invocation steps (`envSteps`) may
increase it.  A literal strict decrease holds for every constructor of `stepTask`; no lexicographic order is needed. -/
theorem work_decreases_partial (cfg : Cfg) (hd : CloneDiscipline cfg) (s s' : State) (l : Option Event)
    (hr : Conc.Reachable (sys cfg) s)
    (h : (∃ i, (l, s') ∈ taskSteps cfg s i) ∨ (∃ ch ∈ s.chans, (l, s') ∈ recvSteps s ch)) :
    measure cfg s' < measure cfg s :=
  (istep_dec (no_panic_noClone cfg hd s hr) (chanIds_reachable cfg s hr) ⟨l, h⟩).lt

/-- the state in which `sub 0` (buffer 1) has returned, the receiver of channel 0 may take 20 values and
`Pub [7, 8]` has been invoked -/
def tmCfg : Cfg := { allowClone := false, env := [.sub 0 1, .allow 0 20, .pubinv 0 0 .pub [7, 8]] }
def tmPath : List Nat := [0, 1, 1, 2, 0, 1]
def tmState : State := liveAt tmCfg tmPath

/-- non-vacuity: a reachable state with measure 13 = (4·(2·1)+3) + 1 + 1 whose enabled internal step (the snapshot of
`Pub`, which spawns two `sendAsync` goroutines) leads to measure 11 = (1 + 4 + 4) + 1 + 1 -/
example : Conc.Reachable (sys tmCfg) tmState ∧ CloneDiscipline tmCfg ∧
    tmState.tasks = [.done, .pubStart 0 0 .pub [7, 8]] ∧
    tmState.chans = [{ id := 0, cap := 1, allow := 20 }] ∧ measure tmCfg tmState = 13 ∧
    (isteps tmCfg tmState).map (fun p => measure tmCfg p.2) = [11] :=
  ⟨liveAt_reachable _ _ (by decide), rfl, by decide, by decide, by decide, by decide⟩

/-! ### 2. bounded internal runs -/

/-- Any sequence of `n` task / receiver steps from a reachable state `s` (system without clones) has
`n ≤ measure cfg s`; more precisely it uses up at least `n` units. -/
theorem internal_run_bounded_partial (cfg : Cfg) (hd : CloneDiscipline cfg) (s s' : State) (n : Nat)
    (hr : Conc.Reachable (sys cfg) s) (hrun : InternalRun cfg s n s') :
    n + measure cfg s' ≤ measure cfg s ∧ n ≤ measure cfg s := by
  have := run_measure hrun (no_panic_noClone cfg hd s hr) (chanIds_reachable cfg s hr)
  exact ⟨this, by omega⟩

/-- From every reachable state a maximal internal run exists: taking enabled internal steps, in any order, reaches a
state in which none is enabled (after at most `measure cfg s` steps by the previous theorem). -/
theorem internal_run_maximal_exists_partial (cfg : Cfg) (hd : CloneDiscipline cfg) (s : State)
    (hr : Conc.Reachable (sys cfg) s) : ∃ n s', InternalRun cfg s n s' ∧ Quiescent cfg s' :=
  run_exists cfg _ s (Nat.le_refl _) (no_panic_noClone cfg hd s hr) (chanIds_reachable cfg s hr)

/-- the run that always takes the first enabled internal step -/
def tmRun : List Nat := [0, 0, 0, 0, 0, 0, 0, 0, 0, 0]
def tmEnd : State := (runInternal tmCfg tmState tmRun).getD {}

theorem tmRun_run : InternalRun tmCfg tmState 10 tmEnd := by
  have h : runInternal tmCfg tmState tmRun = some tmEnd := by decide
  exact runInternal_run tmCfg tmRun _ _ h

/-- non-vacuity: a maximal internal run of 10 steps from the state of measure 13; it ends quiescent with measure 2
(the unit of the open channel and the unit of "not panicked" are never spent), both events delivered -/
example : InternalRun tmCfg tmState 10 tmEnd ∧ Quiescent tmCfg tmEnd ∧ measure tmCfg tmEnd = 2 ∧
    tmEnd.delivered = [(0, 0, 0), (0, 1, 0)] ∧ tmEnd.tasks = [.done, .done, .done, .done] ∧
    tmEnd.chans = [{ id := 0, cap := 1, allow := 18 }] :=
  ⟨tmRun_run, by decide, by decide, by decide, by decide, by decide⟩

/-! ### 3. how a sender ends -/

/-- A `sendAsync` goroutine (Pub / PubSlice) of item `it` that ends in this step: the item was handed over
(`delivered`), or its timer had fired (`timedOut`), or its channel was no longer subscribed when it took the read lock.
(The fourth alternative of the statement first asked for, a panic, never occurs: a panicking step leaves the task in
place.)  Every configuration, clones or not; `hr` is needed, see `async_task_end_as_first_stated_is_false`. -/
theorem async_task_end (cfg : Cfg) (s s' : State) (l : Option Event) (i o : Nat) (it : Item) (cb : Bool)
    (hr : Conc.Reachable (sys cfg) s) (h : (l, s') ∈ taskSteps cfg s i)
    (ht : s.tasks[i]? = some (.asyncStart o it) ∨ s.tasks[i]? = some (.asyncSend o it cb))
    (hd' : s'.tasks[i]? = some .done) :
    (it.pid, it.idx, it.c) ∈ s'.delivered ∨ (it.pid, it.idx, it.c) ∈ s'.timedOut ∨ it.c ∉ (s.obj o).subs ∨
      s'.panicked ≠ none := by
  obtain ⟨t, hi, hstep⟩ := taskSteps_mem h
  obtain ⟨t', new, dl, tl, hT, h1, h2, h3⟩ := tsum_next hi (stepTask_tsum hi hstep)
  rw [hd'] at h1
  cases h1
  have hc := cbLogged_reachable cfg s hr t (List.mem_of_getElem? hi)
  have ht' : t = .asyncStart o it ∨ ∃ cb, t = .asyncSend o it cb := by
    rcases ht with ht | ht
    · rw [hi] at ht; exact Or.inl (Option.some.inj ht)
    · rw [hi] at ht; exact Or.inr ⟨cb, Option.some.inj ht⟩
  rcases async_end_tstep hc hT ht' with h | h | h
  · exact Or.inl (h2 ▸ h)
  · exact Or.inr (Or.inl (h3 ▸ h))
  · exact Or.inr (Or.inr (Or.inl h))

/-- A `sendWaitGroup` goroutine (PubWait / PubSliceWait) that ends in this step: the item was handed over or its timer
had fired. -/
theorem wg_task_end (cfg : Cfg) (s s' : State) (l : Option Event) (i o w : Nat) (it : Item) (cb : Bool)
    (hr : Conc.Reachable (sys cfg) s) (h : (l, s') ∈ taskSteps cfg s i)
    (ht : s.tasks[i]? = some (.wgSend o w it cb)) (hd' : s'.tasks[i]? = some .done) :
    (it.pid, it.idx, it.c) ∈ s'.delivered ∨ (it.pid, it.idx, it.c) ∈ s'.timedOut := by
  obtain ⟨t, hi, hstep⟩ := taskSteps_mem h
  obtain ⟨t', new, dl, tl, hT, h1, h2, h3⟩ := tsum_next hi (stepTask_tsum hi hstep)
  rw [hd'] at h1
  cases h1
  rw [hi] at ht
  cases ht
  have hc := cbLogged_reachable cfg s hr _ (List.mem_of_getElem? hi)
  rcases wg_end_tstep hc hT with h | h
  · exact Or.inl (h2 ▸ h)
  · exact Or.inr (h3 ▸ h)

/-- an unreachable state: the timeout callback of a `sendAsync` goroutine is pending, but nothing is logged -/
def badState : State :=
  { objs := [{ subs := [0] }], chans := [{ id := 0, cap := 1 }],
    tasks := [.asyncSend 0 { pid := 0, idx := 0, ev := 7, c := 0 } true] }

/-- the statement of `async_task_end` without reachability is false of the model -/
theorem async_task_end_as_first_stated_is_false :
    ¬ (∀ (cfg : Cfg) (s s' : State) (l : Option Event) (i o : Nat) (it : Item) (cb : Bool),
        (l, s') ∈ taskSteps cfg s i →
        (s.tasks[i]? = some (.asyncStart o it) ∨ s.tasks[i]? = some (.asyncSend o it cb)) →
        s'.tasks[i]? = some .done →
        (it.pid, it.idx, it.c) ∈ s'.delivered ∨ (it.pid, it.idx, it.c) ∈ s'.timedOut ∨ it.c ∉ (s.obj o).subs ∨
          s'.panicked ≠ none) := by
  intro h
  have h1 := h {} badState ((badState.runlock 0).setTask 0 .done) (some (.tmo 7)) 0 0
    { pid := 0, idx := 0, ev := 7, c := 0 } true (by decide) (by decide) (by decide)
  revert h1
  decide

/-- non-vacuity of `async_task_end`: the step of the run above in which the first `sendAsync` goroutine hands its item
over (buffered send) and ends -/
example : ∃ s s', Conc.Reachable (sys tmCfg) s ∧ (none, s') ∈ taskSteps tmCfg s 2 ∧
    s.tasks[2]? = some (.asyncSend 0 { pid := 0, idx := 0, ev := 7, c := 0 } false) ∧ s'.tasks[2]? = some .done ∧
    s'.delivered = [(0, 0, 0)] :=
  ⟨liveAt tmCfg (tmPath ++ [1, 2]), liveAt tmCfg (tmPath ++ [1, 2, 2]), liveAt_reachable _ _ (by decide),
   by decide, by decide, by decide, by decide⟩

/-! ### 4. put together -/

/-- Termination with everything finished.  System without clones; `s` reachable and not exited; no `Sub` is pending
(see the header, problem 2); every receiver that has not seen its channel closed may still take at least
`measure cfg s` values (`Lasting`; allowances drop by one per received value and the measure drops by at least one per
step, so this lasts along the run: `Receiving` holds in every state of the run); NO further invocation by the
environment.  Then every maximal internal run — `InternalRun cfg s n s'` with `s'` quiescent: no task step and no
receiver step enabled — has `n ≤ measure cfg s` steps and ends with ALL goroutines `.done`: every Pub / PubSlice /
PubWait / PubSync call has returned and every sender goroutine has ended; `s'` is reachable and not panicked.
"Maximal" = fairness replaced by finiteness: internal runs are bounded, so ANY scheduler that keeps scheduling enabled
steps reaches such an `s'` (and one exists: `internal_run_maximal_exists_partial`).
Proof: boundedness (1, 2), preservation of `Lasting` / `NoPendingSub` / reachability along internal runs, and
`no_deadlock_partial` at `s'`. -/
theorem async_eventually_partial (cfg : Cfg) (hd : CloneDiscipline cfg) (s : State)
    (hr : Conc.Reachable (sys cfg) s) (hx : s.exited = false) (hnp : NoPendingSub s) (hallow : Lasting cfg s)
    (n : Nat) (s' : State) (hrun : InternalRun cfg s n s') (hq : Quiescent cfg s') :
    n ≤ measure cfg s ∧ (∀ t ∈ s'.tasks, t = .done) ∧ Conc.Reachable (sys cfg) s' ∧ s'.panicked = none ∧
      Receiving s' := by
  have hs := no_panic_noClone cfg hd s hr
  have hu := chanIds_reachable cfg s hr
  obtain ⟨hr', hx'⟩ := run_reachable hd hrun hr hx
  obtain ⟨hnp', hl'⟩ := run_lasting hrun hs hu hnp hallow
  have hrecv : Receiving s' := lasting_pos hl'
  refine ⟨(internal_run_bounded_partial cfg hd s s' n hr hrun).2, fun t ht => ?_, hr',
    (no_panic_noClone cfg hd s' hr').nopanic, hrecv⟩
  apply Classical.byContradiction
  intro hne
  rcases no_deadlock_partial cfg hd s' hr' hx' hrecv ⟨t, ht, hne⟩ with ⟨i, hi⟩ | ⟨ch, hm, hc⟩
  · exact hi (hq.1 i)
  · exact hc (hq.2 ch hm)

/-- … and what "finished" means for a `sendAsync` goroutine of Pub / PubSlice that exists in `s` (item `it`, one
(event, subscriber) pair of a call): at the end of every maximal internal run its pair is in `delivered`, or in
`timedOut` (only with a positive timeout), or at some state of the run its channel was not subscribed.  So: a pair
whose channel stays subscribed throughout, published without timeout, IS delivered — and by `async_at_most_once`
at most once. -/
theorem async_item_fate_partial (cfg : Cfg) (hd : CloneDiscipline cfg) (s : State)
    (hr : Conc.Reachable (sys cfg) s) (hx : s.exited = false) (hnp : NoPendingSub s) (hallow : Lasting cfg s)
    (n : Nat) (s' : State) (hrun : InternalRun cfg s n s') (hq : Quiescent cfg s') (i o : Nat) (it : Item)
    (ht : s.tasks[i]? = some (.asyncStart o it) ∨ ∃ cb, s.tasks[i]? = some (.asyncSend o it cb)) :
    (it.pid, it.idx, it.c) ∈ s'.delivered ∨ ((it.pid, it.idx, it.c) ∈ s'.timedOut ∧ cfg.timeout > 0) ∨
      ∃ m sm, m < n ∧ InternalRun cfg s m sm ∧ it.c ∉ (sm.obj o).subs := by
  obtain ⟨_, hdone, hr', _, _⟩ := async_eventually_partial cfg hd s hr hx hnp hallow n s' hrun hq
  have key1 : ∀ t, s.tasks[i]? = some t → asyncOf o it t →
      key it ∈ s'.delivered ∨ key it ∈ s'.timedOut ∨ ∃ m sm, m < n ∧ InternalRun cfg s m sm ∧ it.c ∉ (sm.obj o).subs := by
    intro t hi hof
    obtain ⟨t', ht'⟩ := run_task_some hrun hi
    have : t' = .done := hdone t' (List.mem_of_getElem? ht')
    subst this
    exact async_fate_run hrun (cbLogged_reachable cfg s hr) hi hof ht'
  have key2 : key it ∈ s'.delivered ∨ key it ∈ s'.timedOut ∨
      ∃ m sm, m < n ∧ InternalRun cfg s m sm ∧ it.c ∉ (sm.obj o).subs := by
    rcases ht with ht | ⟨cb, ht⟩
    · exact key1 _ ht (Or.inl rfl)
    · exact key1 _ ht (Or.inr ⟨cb, rfl⟩)
  rcases key2 with h | h | h
  · exact Or.inl h
  · refine Or.inr (Or.inl ⟨h, ?_⟩)
    apply Classical.byContradiction
    intro hn
    rw [timedOut_nil cfg (by omega) s' hr'] at h
    cases h
  · exact Or.inr (Or.inr h)

/-- non-vacuity of `async_eventually_partial`: all hypotheses hold of the state `tmState` (measure 13, allowance 20)
and of the maximal run `tmRun_run` -/
example : Conc.Reachable (sys tmCfg) tmState ∧ CloneDiscipline tmCfg ∧ tmState.exited = false ∧
    NoPendingSub tmState ∧ Lasting tmCfg tmState ∧ InternalRun tmCfg tmState 10 tmEnd ∧ Quiescent tmCfg tmEnd :=
  ⟨liveAt_reachable _ _ (by decide), rfl, by decide, by decide, by decide, tmRun_run, by decide⟩

/-- … and the theorem applied to it -/
example : 10 ≤ measure tmCfg tmState ∧ (∀ t ∈ tmEnd.tasks, t = .done) :=
  let h := async_eventually_partial tmCfg rfl tmState (liveAt_reachable _ _ (by decide)) (by decide) (by decide)
    (by decide) 10 tmEnd tmRun_run (by decide)
  ⟨h.1, h.2.1⟩

/-- non-vacuity of `async_item_fate_partial`: after the snapshot of `Pub [7, 8]` the two `sendAsync` goroutines exist;
the theorem applies to the rest of the run (9 steps) -/
def tmState1 : State := (runInternal tmCfg tmState [0]).getD {}

example : tmState1.tasks[2]? = some (.asyncStart 0 { pid := 0, idx := 0, ev := 7, c := 0 }) ∧
    NoPendingSub tmState1 ∧ Lasting tmCfg tmState1 ∧ measure tmCfg tmState1 = 11 ∧
    runInternal tmCfg tmState1 [0, 0, 0, 0, 0, 0, 0, 0, 0] = some tmEnd ∧ (0, 0, 0) ∈ tmEnd.delivered := by
  decide

/-- `NoPendingSub` is needed (header, problem 2): a `Sub` (unbuffered) and a `PubSync [7]` are pending, no channel
exists yet (`Lasting` holds vacuously); the maximal internal run that lets the `Sub` finish first ends quiescent with
the publisher blocked for ever on the new channel, whose receiver was never allowed anything. -/
def psCfg : Cfg := { allowClone := false, env := [.sub 0 0, .pubinv 0 0 .pubSync [7]] }
def psState : State := liveAt psCfg [0, 0]
def psEnd : State := (runInternal psCfg psState [0, 0, 0, 0]).getD {}

theorem pending_sub_blocks_example : Conc.Reachable (sys psCfg) psState ∧ CloneDiscipline psCfg ∧
    psState.exited = false ∧ Lasting psCfg psState ∧ FreshSubNames psState ∧ ¬ NoPendingSub psState ∧
    InternalRun psCfg psState 4 psEnd ∧ Quiescent psCfg psEnd ∧
    psEnd.tasks = [.done, .syncLoop 0 0 [{ pid := 0, idx := 0, ev := 7, c := 0 }] false] ∧
    psEnd.chans = [{ id := 0, cap := 0 }] := by
  have h : runInternal psCfg psState [0, 0, 0, 0] = some psEnd := by decide
  exact ⟨liveAt_reachable _ _ (by decide), rfl, by decide, by decide, by decide, by decide,
    runInternal_run psCfg _ _ _ h, by decide, by decide, by decide⟩

end C10

#print axioms C10.chan_ids_distinct
#print axioms C10.work_decreases_partial
#print axioms C10.internal_run_bounded_partial
#print axioms C10.internal_run_maximal_exists_partial
#print axioms C10.async_task_end
#print axioms C10.wg_task_end
#print axioms C10.async_task_end_as_first_stated_is_false
#print axioms C10.async_eventually_partial
#print axioms C10.async_item_fate_partial
#print axioms C10.pending_sub_blocks_example
#print axioms C10.tmRun_run
