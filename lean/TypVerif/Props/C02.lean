import TypVerif.Lemmas.AvlWorld
import TypVerif.Lemmas.AvlCost
/-
C02 — the tree stays height-balanced (AVL) after every Add and Remove; discrete depth bound; comparator-call cost.
`AVL t`: every cached height equals the true height (nil = -1, leaf = 0) and the subtree heights differ by ≤ 1.

The real-valued clause "no element lies deeper than 1.4405·log2(n+2)" is proved here in integer forms (core only,
no real numbers): `fib` (exact discrete bound: an AVL tree of height h has ≥ fib(h+3) − 1 nodes),
`depth_log_int` (2^(84·h) ≤ (n+2)^121, i.e. h ≤ (121/84)·log2(n+2), and 121/84 = 1.440476… < 1.4405, so this IS the
stated bound up to taking log2 of both sides, which needs real numbers and is left to `Props/Real.lean`), and the
weaker `depth_log_partial` (2^(9·h) ≤ (n+2)^13, constant 13/9 = 1.4444…, gap 0.004 to the stated constant; kept
because DESIGN §8 names it).  The driver's C02 judge additionally checks 2^(10000·h) ≤ (n+2)^14405 numerically on
every `shape` line.
-/
namespace C02
open TypVerif.Model.Avl TypVerif.Model.Avl.Node TypVerif.Spec.Avl TypVerif.Lemmas.Avl

variable {α ι : Type}

/-- example AVL tree `2(1,3)` -/
def ex3 : Node Int := mk (leaf 1) 2 (leaf 3)
theorem ex3_avl : AVL ex3 := by decide
/-- a cell out of balance by 2: `1(-, 2(-, 3))` before `rebalance` -/
def exR : Node Int := mk nil 2 (leaf 3)
theorem exR_avl : AVL exR := by decide

/-- `rebalance` on a cell with AVL subtrees whose heights differ by at most 2 (the situation after one insertion or
deletion below) returns an AVL tree; its height is `1 + max` if nothing had to be done, else `max` or `1 + max`. -/
theorem rebalance_spec (l : Node α) (v : α) (r : Node α) (hl : AVL l) (hr : AVL r)
    (hd1 : height l - height r ≤ 2) (hd2 : height r - height l ≤ 2) :
    AVL (rebalance (mk l v r)) ∧
    (height l - height r ≤ 1 → height r - height l ≤ 1 →
      height (rebalance (mk l v r)) = 1 + max (height l) (height r)) ∧
    (height (rebalance (mk l v r)) = max (height l) (height r) ∨
      height (rebalance (mk l v r)) = 1 + max (height l) (height r)) :=
  TypVerif.Lemmas.Avl.rebalance_spec l v r hl hr hd1 hd2
example : AVL (rebalance (mk nil 1 exR)) :=
  (rebalance_spec nil 1 exR trivial exR_avl (by decide) (by decide)).1
example : height (nil : Node Int) - height exR = -2 := by decide

/-- `rebalance` never dereferences nil on such cells (the Go rotations access `n.right.left` etc.). -/
theorem rebalance_no_panic (l : Node α) (v : α) (h : Int) (r : Node α) (hl : AVL l) (hr : AVL r) :
    rebalanceE (node l v h r) = .ok (rebalance (node l v h r)) :=
  rebalanceE_eq l v h r hl hr
example : rebalanceE (node nil 1 2 exR) = .ok (rebalance (node nil 1 2 exR)) :=
  rebalance_no_panic nil 1 2 exR trivial exR_avl

/-- Add keeps the tree AVL; the height stays or grows by one. -/
theorem add_avl (cmp : α → α → Int) (x : α) (t : Node α) (ht : AVL t) :
    AVL (add cmp x t) ∧ (height (add cmp x t) = height t ∨ height (add cmp x t) = height t + 1) :=
  TypVerif.Lemmas.Avl.add_avl cmp x t ht
example : AVL (add natCmp 5 ex3) := (add_avl natCmp 5 ex3 ex3_avl).1

/-- popLeftMost keeps the remaining tree AVL; its height is that of the original cell or one less. -/
theorem popLeftMost_avl (l : Node α) (v : α) (r : Node α) (hl : AVL l) (hr : AVL r)
    (b1 : height l - height r ≤ 1) (b2 : height r - height l ≤ 1) :
    AVL (popLeftMost l v r).1 ∧
    (height (popLeftMost l v r).1 = 1 + max (height l) (height r) ∨
     height (popLeftMost l v r).1 = max (height l) (height r)) :=
  TypVerif.Lemmas.Avl.popLeftMost_avl l v r hl hr b1 b2
example : AVL (popLeftMost (leaf (1 : Int)) 2 (leaf 3)).1 :=
  (popLeftMost_avl (leaf 1) 2 (leaf 3) (by decide) (by decide) (by decide) (by decide)).1

/-- Remove keeps the tree AVL (whether or not the value is found); the height stays or shrinks by one. -/
theorem remove_avl [DecidableEq α] (cmp : α → α → Int) (x : α) (t : Node α) (ht : AVL t) :
    AVL (remove cmp x t).1 ∧
    (height (remove cmp x t).1 = height t ∨ height (remove cmp x t).1 = height t - 1) :=
  TypVerif.Lemmas.Avl.remove_avl cmp x t ht
example : AVL (remove natCmp 2 ex3).1 := (remove_avl natCmp 2 ex3 ex3_avl).1

/-- After every history of New / Add / Remove / Clear / Clone / queries, every tree of the world is AVL
(for every comparator whatsoever: balance does not depend on the order being total). -/
theorem all_histories [DecidableEq α] (cmps : ι → α → α → Int) (ops : List (Op ι α)) :
    ∀ h t, (runModel cmps ops).1.get h = some t → AVL t.root :=
  TypVerif.Lemmas.Avl.all_histories cmps ops
example : (runModel cmpOfId [Op.new 0 (0 : Int), Op.add 0 (5 : Int)]).1.get 0 ≠ none := by decide

/-- An AVL tree of height `h` (nil = -1, leaf = 0) has at least `fib (h+3) - 1` nodes. -/
theorem fib (t : Node α) (ht : AVL t) : TypVerif.Spec.Avl.fib (height t + 3).toNat ≤ size t + 1 :=
  fib_le_size t ht
example : TypVerif.Spec.Avl.fib (height ex3 + 3).toNat ≤ size ex3 + 1 := fib ex3 ex3_avl

/-- Integer-exponent form of the depth bound: `height ≤ (13/9)·log2(n+2)`.  Partial w.r.t. the stated constant
1.4405 (13/9 = 1.4444…); see the file header. -/
theorem depth_log_partial (t : Node α) (n : Nat) (ht : AVL t) (hn : size t = n) :
    2 ^ (9 * (height t).toNat) ≤ (n + 2) ^ 13 := by
  subst hn; exact depth_pow t ht
example : 2 ^ (9 * (height ex3).toNat) ≤ (3 + 2) ^ 13 := depth_log_partial ex3 3 ex3_avl (by decide)

/-- Integer form of the stated depth bound: `84·height ≤ 121·log2(n+2)`, and 121/84 = 1.440476… < 1.4405.
(The height is the depth of the deepest element, levels counted from 0 at the root.) -/
theorem depth_log_int (t : Node α) (n : Nat) (ht : AVL t) (hn : size t = n) :
    2 ^ (84 * (height t).toNat) ≤ (n + 2) ^ 121 := by
  subst hn; exact depth_pow121 t ht
example : 2 ^ (84 * (height ex3).toNat) ≤ (3 + 2) ^ 121 := depth_log_int ex3 3 ex3_avl (by decide)
example : 121 * 10000 ≤ 84 * 14405 := by decide   -- 121/84 ≤ 1.4405

/-- Comparator calls of `find`/`add`/`remove` (counting model; same results as the plain model): at most one per
level, i.e. ≤ height + 1 ≤ 2·(height + 2) — with `fib`, O(log n).  Holds for every tree. -/
theorem cost [DecidableEq α] (cmp : α → α → Int) (x : α) (t : Node α) :
    ((findC cmp x t).1 = find cmp x t ∧ ((findC cmp x t).2 : Int) ≤ height t + 1) ∧
    ((addC cmp x t).1 = add cmp x t ∧ ((addC cmp x t).2 : Int) ≤ height t + 1) ∧
    ((removeC cmp x t).1 = remove cmp x t ∧ ((removeC cmp x t).2 : Int) ≤ height t + 1) :=
  ⟨⟨findC_fst cmp x t, findC_cost cmp x t⟩, ⟨addC_fst cmp x t, addC_cost cmp x t⟩,
   ⟨removeC_fst cmp x t, removeC_cost cmp x t⟩⟩

/-- the same at the `Tree` level (what the harness's counting comparator observes) -/
theorem cost_tree [DecidableEq α] (t : Tree α) (x : α) :
    ((t.ContainsC x).1 = t.Contains x ∧ ((t.ContainsC x).2 : Int) ≤ height t.root + 1) ∧
    ((t.AddC x).1 = t.Add x ∧ ((t.AddC x).2 : Int) ≤ height t.root + 1) ∧
    ((t.RemoveC x).1 = t.Remove x ∧ ((t.RemoveC x).2 : Int) ≤ height t.root + 1) :=
  ⟨⟨ContainsC_fst t x, ContainsC_cost t x⟩, ⟨AddC_fst t x, AddC_cost t x⟩, ⟨RemoveC_fst t x, RemoveC_cost t x⟩⟩

end C02
