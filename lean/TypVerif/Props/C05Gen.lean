import TypVerif.Gen.SetCalls
import TypVerif.Gen.MapHooks
/-
C05, tie 4B: the shape of `Set.Add/Remove/Has` in `sync2/set.go` is REGENERATED from the source on every run: each is
two statements — ONE call on the underlying map (`LoadOrStore` / `LoadAndDelete` / `Load`) and a `return` of a function
of that call's result — so a Set call is one map call (which `C04.conc_linearizable` shows to be linearizable), not a
check-then-act sequence.  (Dynamically the same thing is checked on every step trace by the judge `C04conc`.)
-/
namespace C05

theorem gen_add_is_one_loadOrStore :
    Gen.SetCalls.addStmts = 2 ∧ Gen.SetCalls.addCalls = ["s.m.LoadOrStore"] ∧ Gen.SetCalls.addReturns = ["!loaded"] := ⟨rfl, rfl, rfl⟩

theorem gen_remove_is_one_loadAndDelete :
    Gen.SetCalls.removeStmts = 2 ∧ Gen.SetCalls.removeCalls = ["s.m.LoadAndDelete"] ∧ Gen.SetCalls.removeReturns = ["loaded"] := ⟨rfl, rfl, rfl⟩

theorem gen_has_is_one_load :
    Gen.SetCalls.hasStmts = 2 ∧ Gen.SetCalls.hasCalls = ["s.m.Load"] ∧ Gen.SetCalls.hasReturns = ["has"] := ⟨rfl, rfl, rfl⟩

/-- `AddSet` / `RemoveSet` are a loop of element operations and return the number of successful ones: one `Range` over the argument whose
callback calls `s.Add` / `s.Remove` once and counts a `true` — no fast path, no check-then-act on the receiver (so their counts are sums of
results of the atomic element operations of `C05.conc_alternate`, see `C05.conc_counts_add_up`) -/
theorem gen_addset_is_a_loop_of_adds :
    Gen.SetCalls.addsetStmts = 3 ∧ Gen.SetCalls.addsetCalls = ["set.Range", "s.Add"] ∧ Gen.SetCalls.addsetReturns = ["true", "added"] := ⟨rfl, rfl, rfl⟩

theorem gen_removeset_is_a_loop_of_removes :
    Gen.SetCalls.removesetStmts = 3 ∧ Gen.SetCalls.removesetCalls = ["set.Range", "s.Remove"] ∧ Gen.SetCalls.removesetReturns = ["true", "removed"] := ⟨rfl, rfl, rfl⟩

/-- and the map underneath exposes every atomic action to the controlled scheduler -/
theorem gen_map_sites_hooked : Gen.MapHooks.unhooked = [] := rfl

end C05
