import TypVerif.Gen.OnceShapes
/-
C17, tie 4B — GOLDEN FUNCTION SHAPES (written by tools/mkshapes.py; do not edit by hand).  For every function of the source files this property's model mirrors,
the extractor regenerates on every run: its calls, its stores through selectors / indices / pointers, its conditions and loop headers, its select cases and
its return expressions, in source order.  The theorems below state that these equal the shapes of the tree the model was written against.  They are the STATIC,
all-paths complement of the differential runs: a guard dropped, a fast path or a threshold added, an early return, a changed comparison or a different callee
on ANY path - also one that no generated input happens to take - changes the regenerated list and breaks the `rfl`.  A broken shape theorem is reported like a
broken proof (with a failing input when the search finds one, else `no-failing-input-found`); after a deliberate change of the source the changed functions are
re-read against the model and this file is regenerated.
-/
namespace C17

/-- sync2/once.go: 3 function(s) -/
theorem gen_shapes_once :
    Gen.OnceShapes.funcs =
      [("Once1.Do", ["call o.once.Do", "store o.R1", "call f", "return o.R1"]),
       ("Once2.Do", ["call o.once.Do", "store o.R1", "store o.R2", "call f", "return o.R1, o.R2"]),
       ("Once3.Do", ["call o.once.Do", "store o.R1", "store o.R2", "store o.R3", "call f", "return o.R1, o.R2, o.R3"])] := rfl

end C17
