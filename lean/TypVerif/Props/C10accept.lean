import TypVerif.Lemmas.ConcAccept
import TypVerif.Lemmas.ConcAcceptC10
import TypVerif.Lemmas.ConcAcceptC10Step
/-
C10 — ACCEPTANCE IS SOUND: a real event trace for which the judge `Drv/C10.lean` keeps a non-empty set of model states is the visible trace of an execution
of `Model.PubSub.sys` (with the invocation events of the trace as the environment's menu), although the judge erases the ghost logs (`norm`), merges a
`sendAsync` goroutine's RLock with its next own step (`succJ`) and computes the internal closure with a hash set under a step budget.  Hence the theorems
of `Props/C10*.lean`, which quantify over ALL executions, apply to that real run.  Scenarios whose model side is skipped (`model.skipped:*` tags: more than
24 channels or more than `stateCap` states) are excluded by hypothesis.  Soundness only: that the reductions lose no trace of the model is not claimed.
-/
namespace C10
open TypVerif TypVerif.Conc TypVerif.Model.PubSub TypVerif.Drv.C10 TypVerif.Lemmas.ConcAcceptC10

/-- `norm` (erasing the ghost logs) is a bisimulation quotient: states with equal `norm` have the same labelled
successors up to `norm` -/
theorem norm_bisim {cfg : Cfg} {a a' b : State} {l : Option Event} (h : norm a = norm a')
    (hs : (l, b) ∈ succ cfg a) : ∃ b', (l, b') ∈ succ cfg a' ∧ norm b' = norm b :=
  succ_norm_eq h hs

theorem succ_norm (cfg : Cfg) (s t : State) (l : Option Event) (h : (l, t) ∈ succ cfg (norm s)) :
    ∃ t', (l, t') ∈ succ cfg s ∧ norm t' = norm t :=
  Lemmas.ConcAcceptC10.succ_norm cfg s t l h

theorem succ_norm_conv (cfg : Cfg) (s t : State) (l : Option Event) (h : (l, t) ∈ succ cfg s) :
    ∃ t', (l, t') ∈ succ cfg (norm s) ∧ norm t' = norm t :=
  Lemmas.ConcAcceptC10.succ_norm_conv cfg s t l h

/-- the exact form behind it: prefixing the ghost logs commutes with the successor function -/
theorem succ_prefix_logs (cfg : Cfg) (d o : List (Nat × Nat × Chan)) (s : State) :
    succ cfg (pre d o s) = (succ cfg s).map (preP d o) :=
  succ_pre cfg d o s

/-- every step of the judge's successor function is one or two steps of the model, same label -/
theorem succJ_sound (cfg : Cfg) (s t : State) (l : Option Event) (h : (l, t) ∈ succJ cfg s) :
    (l, t) ∈ succ cfg s ∨ (l = none ∧ ∃ m, (none, m) ∈ succ cfg s ∧ (none, t) ∈ succ cfg m) :=
  Lemmas.ConcAcceptC10.succJ_sound cfg s t l h

/-- the hash-set closure (whatever its step budget and state cap) only adds `norm`s of states reachable by internal
steps of the model from the frontier it was started with -/
theorem closure_sound (cfg : Cfg) (n : Nat) (seen : Std.HashSet State) (frontier : List State) :
    ∀ t, t ∈ closure cfg n seen frontier →
      t ∈ seen ∨ ∃ s ∈ frontier, ∃ (ls : List (Option Event)) (t' : State),
        Exec (sys cfg) s ls t' ∧ visible ls = [] ∧ norm t' = t :=
  Lemmas.ConcAcceptC10.closure_sound cfg n seen frontier

/-- one judge step -/
theorem advance_sound (cfg : Cfg) (ss : List State) (e : Event) :
    ∀ t ∈ advance cfg ss e, ∃ s ∈ ss, ∃ (ls : List (Option Event)) (t' : State),
      Exec (sys { cfg with env := [e] }) s ls t' ∧ visible ls = [e] ∧ norm t' = t :=
  Lemmas.ConcAcceptC10.advance_sound cfg ss e

/-- monotonicity in the environment menu (events that are not invocations need not be on the larger menu: the
environment cannot issue them anyway) -/
theorem env_mono (cfg : Cfg) (E1 E2 : List Event) (h : ∀ e ∈ E1, e ∈ E2 ∨ isInv e = false)
    {a b : State} {ls : List (Option Event)} (hex : Exec (sys { cfg with env := E1 }) a ls b) :
    Exec (sys { cfg with env := E2 }) a ls b :=
  exec_env_mono cfg E1 E2 h hex

/-- every state of the judge's set after the events `tr` is the `norm` of a state reached by an execution whose
visible trace is `tr`, of the system whose environment menu is `E` ⊇ the invocation events of `tr` -/
theorem judge_states_sound (cfg : Cfg) (E : List Event) (tr : List Event) (hE : ∀ e ∈ tr, e ∈ E ∨ isInv e = false) :
    ∀ t ∈ tr.foldl (advance cfg) [{}], ∃ (ls : List (Option Event)) (t' : State),
      Exec (sys { cfg with env := E }) (sys { cfg with env := E }).init ls t' ∧ visible ls = tr ∧ norm t' = t :=
  judge_fold_sound cfg E tr hE

/-- acceptance is sound: if the judge's state set after the events `tr` is non-empty, `tr` is the visible trace of an
execution (from the initial state) of the model whose environment menu is the list of invocation events of `tr` -/
theorem judge_accept_sound (cfg : Cfg) (tr : List Event) (h : tr.foldl (advance cfg) [{}] ≠ []) :
    ∃ (ls : List (Option Event)) (s : State),
      Exec (sys { cfg with env := tr.filter isInv }) (sys { cfg with env := tr.filter isInv }).init ls s ∧
      visible ls = tr := by
  cases hA : tr.foldl (advance cfg) [{}] with
  | nil => exact absurd hA h
  | cons t rest =>
    obtain ⟨ls, t', hex, hv, _⟩ := judge_fold_sound cfg (tr.filter isInv) tr (mem_filter_isInv_or tr) t
      (by rw [hA]; exact List.mem_cons_self)
    exact ⟨ls, t', hex, hv⟩

/- non-vacuity: `#eval ([Event.sub 1 0, .subret 1, .pubinv 1 0 .pubSync [5], .allow 1 1, .recv 1 5, .pubret 1].foldl (advance {}) [{}]).length`
   = 1 (and 0 without the `allow`/`recv`); not stated as an `example` because `decide` cannot evaluate `Std.HashSet`
   operations in the kernel and `native_decide` is not allowed. -/

/-- the same with the whole trace as the menu (the form of the task sheet) -/
theorem judge_accept_sound_menu (cfg : Cfg) (tr : List Event) (h : tr.foldl (advance cfg) [{}] ≠ []) :
    ∃ (ls : List (Option Event)) (s : State),
      Exec (sys { cfg with env := tr }) (sys { cfg with env := tr }).init ls s ∧ visible ls = tr := by
  cases hA : tr.foldl (advance cfg) [{}] with
  | nil => exact absurd hA h
  | cons t rest =>
    obtain ⟨ls, t', hex, hv, _⟩ := judge_fold_sound cfg tr tr (fun e he => Or.inl he) t
      (by rw [hA]; exact List.mem_cons_self)
    exact ⟨ls, t', hex, hv⟩

/-- what `Drv.C10.step` folds: the header line `ps t d` resets the judge to the state set `[{}]` … -/
theorem judge_header (j : J) (t d : Int) (impl : String) :
    (step j [.w "ps", .i t, .i d] impl).1 = { cfg := { timeout := t, defBuf := d.toNat }, ss := [{}], rej := none, book := {} } :=
  rfl

/-- … and on a line that parses as the event `e` (every event, `exit r` included: no special convention), while the judge
has neither rejected nor stopped modelling the scenario (`skipped`: more than 24 channels or more than `stateCap` states;
then the model output is `ok` WITHOUT any claim) and does not stop on this line, the new set is `advance cfg ss e`, the
configuration is unchanged, and the model output is `ok` iff that set is non-empty -/
theorem judge_step_folds_advance (j : J) (toks : List Proto.Val) (impl : String) (e : Event)
    (hp : parseEvent toks = some e) (hrej : j.rej = none) (hsk : j.skipped = false)
    (hsk' : (step j toks impl).1.skipped = false) :
    (step j toks impl).1.ss = advance j.cfg j.ss e ∧ (step j toks impl).1.cfg = j.cfg ∧
    ((step j toks impl).1.rej = none ↔ advance j.cfg j.ss e ≠ []) ∧
    ((step j toks impl).2.model = "ok" ↔ advance j.cfg j.ss e ≠ []) :=
  step_event j toks impl e hp hrej hsk hsk'

end C10

#print axioms C10.norm_bisim
#print axioms C10.succ_norm
#print axioms C10.succ_norm_conv
#print axioms C10.succ_prefix_logs
#print axioms C10.succJ_sound
#print axioms C10.closure_sound
#print axioms C10.advance_sound
#print axioms C10.env_mono
#print axioms C10.judge_states_sound
#print axioms C10.judge_accept_sound
#print axioms C10.judge_accept_sound_menu
#print axioms C10.judge_header
#print axioms C10.judge_step_folds_advance
