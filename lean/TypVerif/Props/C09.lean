import TypVerif.Lemmas.KeyedMutexProps
import TypVerif.Lemmas.KeyedMutexConv
/-
C09 — KeyedMutex / KeyedRWMutex: per-key exclusion, cross-key independence, Try* (DESIGN §8/C09).

All theorems are about `Model.KeyedMutex.sys rw n ops` (`rw = false`: KeyedMutex, `rw = true`:
KeyedRWMutex; any number `n` of goroutines; any alphabet `ops` of operations = all scripts), i.e.
under the modelling decisions and the environment discipline E1–E4 listed in the header of
`Model/KeyedMutex.lean` (MapAtomic; sync.Mutex/RWMutex by contract; threads only unlock what they
hold; ClearKey only on a key that nobody holds or awaits).  `clear_proviso_needed` shows that E4
cannot be dropped.
-/
namespace C09
open TypVerif TypVerif.Conc TypVerif.Model.KeyedMutex
open TypVerif.Lemmas.KeyedMutex (exec reachable_exec reachable_exec_raw)

/-- Agreement: in every reachable state every goroutine that completed `LoadOrStore k` holds the
mutex `map[k]` (so all of them hold the same one), distinct keys have distinct mutexes, and whoever
holds `k` holds it in `map[k]`. -/
theorem agree (rw : Bool) (n : Nat) (ops : List Op) :
    ∀ s, Reachable (sys rw n ops) s →
      (∀ t k m, loc (s.pc t) = some (k, m) → get s.map k = some m) ∧
      (∀ t₁ t₂ k m₁ m₂, loc (s.pc t₁) = some (k, m₁) → loc (s.pc t₂) = some (k, m₂) → m₁ = m₂) ∧
      (∀ k₁ k₂ m, get s.map k₁ = some m → get s.map k₂ = some m → k₁ = k₂) ∧
      (∀ t k, s.holdsW t k → ∃ m, get s.map k = some m ∧ (s.mu m).writer = some t) ∧
      (∀ t k, s.holdsR t k → ∃ m, get s.map k = some m ∧ t ∈ (s.mu m).readers) :=
  fun s hr => Lemmas.KeyedMutex.agree_of_good (Lemmas.KeyedMutex.good_reachable rw n ops s hr)

/-- non-vacuity: the simultaneous first use of key 5 by two goroutines; both end up with mutex 0 -/
example : ∃ s, Reachable (sys false 2 [⟨.lock, 5⟩]) s ∧
    loc (s.pc 0) = some (5, 0) ∧ loc (s.pc 1) = some (5, 0) :=
  ⟨exec false true [⟨.lock, 5⟩] [0, 1, 0, 1] (init 2), reachable_exec _ _ _ _ _ .init, by decide⟩

/-- Mutual exclusion per key (both flavours): at most one goroutine is between its successful
`LockKey k`/`TryLockKey k` and its `UnlockKey k`. -/
theorem mutex (rw : Bool) (n : Nat) (ops : List Op) :
    ∀ s, Reachable (sys rw n ops) s → ∀ t₁ t₂ k, s.holdsW t₁ k → s.holdsW t₂ k → t₁ = t₂ :=
  fun s hr _ _ _ h₁ h₂ => Lemmas.KeyedMutex.mutex_of_good (Lemmas.KeyedMutex.good_reachable rw n ops s hr) h₁ h₂

/-- non-vacuity: a goroutine does get to hold a key … -/
example : ∃ s, Reachable (sys false 2 [⟨.lock, 5⟩]) s ∧ s.holdsW 0 5 :=
  ⟨exec false true [⟨.lock, 5⟩] [0, 0, 0] (init 2), reachable_exec _ _ _ _ _ .init, by decide⟩
/-- … and the model accepts the blocked second locker finishing after the unlock, but not before -/
example : accepts (sys false 2 [⟨.lock, 5⟩, ⟨.unlock, 5⟩]) 8
    [.inv 0 ⟨.lock, 5⟩, .inv 1 ⟨.lock, 5⟩, .res 0 .done, .inv 0 ⟨.unlock, 5⟩, .res 0 .done, .res 1 .done] = true := by
  decide
example : accepts (sys false 2 [⟨.lock, 5⟩, ⟨.unlock, 5⟩]) 8
    [.inv 0 ⟨.lock, 5⟩, .inv 1 ⟨.lock, 5⟩, .res 0 .done, .res 1 .done] = false := by
  decide

/-- Readers xor one writer per key: while a goroutine holds `k` for writing nobody holds `k` for
reading and nobody else holds it for writing. -/
theorem rw (rw : Bool) (n : Nat) (ops : List Op) :
    ∀ s, Reachable (sys rw n ops) s → ∀ t₁ k, s.holdsW t₁ k →
      (∀ t₂, ¬ s.holdsR t₂ k) ∧ (∀ t₂, s.holdsW t₂ k → t₂ = t₁) :=
  fun s hr _ _ h₁ =>
    have hg := Lemmas.KeyedMutex.good_reachable rw n ops s hr
    ⟨fun _ h₂ => Lemmas.KeyedMutex.rw_of_good hg h₁ h₂, fun _ h₂ => Lemmas.KeyedMutex.mutex_of_good hg h₂ h₁⟩

/-- non-vacuity: two readers inside together; a writer inside -/
example : ∃ s, Reachable (sys true 2 [⟨.rlock, 5⟩]) s ∧ s.holdsR 0 5 ∧ s.holdsR 1 5 :=
  ⟨exec true true [⟨.rlock, 5⟩] [0, 0, 0, 1, 1, 1] (init 2), reachable_exec _ _ _ _ _ .init, by decide⟩
example : ∃ s, Reachable (sys true 2 [⟨.lock, 5⟩]) s ∧ s.holdsW 0 5 :=
  ⟨exec true true [⟨.lock, 5⟩] [0, 0, 0, 0, 0] (init 2), reachable_exec _ _ _ _ _ .init, by decide⟩
example : accepts (sys true 2 [⟨.lock, 5⟩, ⟨.rlock, 5⟩]) 8
    [.inv 0 ⟨.rlock, 5⟩, .res 0 .done, .inv 1 ⟨.lock, 5⟩, .res 1 .done] = false := by
  decide

/-- Independence of keys.  Let goroutine `t` be past its `LoadOrStore k` (local mutex `m`) in two
reachable states that agree on `t`'s locals, on `map[k]` and on the automaton of `map[k]` — and
differ arbitrarily in everything else: other keys, their mutexes, their holders and waiters.
Then `t`'s next step is enabled in both or in neither. -/
theorem independent (rw : Bool) (n : Nat) (ops : List Op) :
    ∀ s₁ s₂, Reachable (sys rw n ops) s₁ → Reachable (sys rw n ops) s₂ →
      ∀ t k m, s₁.pc t = s₂.pc t → loc (s₁.pc t) = some (k, m) →
        (∀ m', get s₁.map k = some m' → get s₂.map k = some m' ∧ s₁.mu m' = s₂.mu m') →
        (enabled rw true ops s₁ t ↔ enabled rw true ops s₂ t) := by
  intro s₁ s₂ h₁ _ t k m hpc hloc hag
  have hk := Lemmas.KeyedMutex.loc_get (Lemmas.KeyedMutex.good_reachable rw n ops s₁ h₁) hloc
  exact Lemmas.KeyedMutex.independent_step rw true ops hpc hloc (hag m hk).2

/-- non-vacuity: goroutine 1 at its mutex action on key 6, once with key 5 free and once with key 5
held by goroutine 0 and awaited by goroutine 2 -/
example : ∃ s₁ s₂, Reachable (sys false 3 [⟨.lock, 5⟩, ⟨.lock, 6⟩]) s₁ ∧ Reachable (sys false 3 [⟨.lock, 5⟩, ⟨.lock, 6⟩]) s₂ ∧
    s₁.pc 1 = s₂.pc 1 ∧ loc (s₁.pc 1) = some (6, 0) ∧ s₁.wh ≠ s₂.wh ∧ s₂.holdsW 0 5 ∧ loc (s₂.pc 2) = some (5, 1) :=
  ⟨exec false true [⟨.lock, 5⟩, ⟨.lock, 6⟩] [3, 2] (init 3),
   exec false true [⟨.lock, 5⟩, ⟨.lock, 6⟩] [3, 2, 0, 0, 0, 0, 3, 3] (init 3),
   reachable_exec _ _ _ _ _ .init, reachable_exec _ _ _ _ _ .init, by decide⟩

/-- The map part of every keyed call never blocks (the atomic map has no lock a goroutine could be
holding while it waits for a mutex), and returning never blocks. -/
theorem independent_los (rw : Bool) (ops : List Op) (s : State) (t : Nat) :
    (∀ kd k, s.pc t = .los kd k → kd ≠ .clear → enabled rw true ops s t) ∧
    (∀ r, s.pc t = .ret r → enabled rw true ops s t) :=
  ⟨fun _ _ h hk => Lemmas.KeyedMutex.los_enabled rw true ops h hk,
   fun _ h => Lemmas.KeyedMutex.ret_enabled rw true ops h⟩

/-- Holding or waiting for other keys never delays an acquisition: if the automaton of `map[k]` is
free and uncontended, every step of an operation on `k` is enabled, whatever else is going on;
releases and the entry/exit sections of RWMutex.Lock/Unlock are always enabled. -/
theorem independent_free (rw : Bool) (n : Nat) (ops : List Op) :
    ∀ s, Reachable (sys rw n ops) s → ∀ t,
      (∀ kd k m, s.pc t = .act kd k m → kd ≠ .clear →
        (∀ m', get s.map k = some m' → (s.mu m').isFree) → enabled rw true ops s t) ∧
      (∀ k m, s.pc t = .wait k m →
        (∀ m', get s.map k = some m' → (s.mu m').isFree) → enabled rw true ops s t) ∧
      (∀ kd k m, s.pc t = .act kd k m → (kd = .unlock ∨ kd = .runlock) → enabled rw true ops s t) ∧
      (∀ k m, (s.pc t = .ann k m ∨ s.pc t = .rel k m) → enabled rw true ops s t) := by
  intro s hr t
  have hg := Lemmas.KeyedMutex.good_reachable rw n ops s hr
  refine ⟨fun kd k m h hkd hfree => ?_, fun k m h hfree => ?_, fun kd k m h hrel => ?_,
    fun k m h => Lemmas.KeyedMutex.queue_enabled rw true ops h⟩
  · have hk : get s.map k = some m := Lemmas.KeyedMutex.loc_get hg (by rw [h]; rfl)
    exact Lemmas.KeyedMutex.free_enabled rw true ops (.inl h) hkd (hfree m hk)
  · have hk : get s.map k = some m := Lemmas.KeyedMutex.loc_get hg (by rw [h]; rfl)
    exact Lemmas.KeyedMutex.free_enabled rw true ops (kd := .lock) (.inr h) (by simp) (hfree m hk)
  · exact Lemmas.KeyedMutex.release_enabled rw true ops h hrel

/-- non-vacuity: goroutine 0 holds key 5, goroutine 2 awaits it, goroutine 1 is at its `Lock` of the free key 6 -/
example : ∃ s, Reachable (sys false 3 [⟨.lock, 5⟩, ⟨.lock, 6⟩]) s ∧ s.holdsW 0 5 ∧ s.pc 2 = .act .lock 5 0 ∧
    s.pc 1 = .act .lock 6 1 ∧ (s.mu 1).isFree :=
  ⟨exec false true [⟨.lock, 5⟩, ⟨.lock, 6⟩] [0, 0, 0, 0, 3, 3, 2, 3] (init 3), reachable_exec _ _ _ _ _ .init, by decide⟩

/-- TryLockKey / TryRLockKey.  At the mutex action of a Try call (goroutine `t`, key `k`, `m = map[k]`)
the step is always enabled (never blocks), is internal, and
 * if the key's automaton is free and uncontended (TryLock) / has no writer inside or announced
   (TryRLock) the call returns `true` and the goroutine holds the key from that very step on;
 * otherwise — the key is held or awaited incompatibly at that step — it returns `false` and changes nothing. -/
theorem «try» (rw : Bool) (n : Nat) (ops : List Op) :
    ∀ s, Reachable (sys rw n ops) s → ∀ t k m,
      (s.pc t = .act .trylock k m →
        get s.map k = some m ∧ enabled rw true ops s t ∧
        ∀ l s', (l, s') ∈ stepT rw true ops s t → l = none ∧
          ((s.mu m).isFree → s'.pc t = .ret .tt ∧ s'.holdsW t k ∧ (s'.mu m).writer = some t) ∧
          (¬ (s.mu m).isFree → s'.pc t = .ret .ff ∧ s'.wh = s.wh ∧ s'.rh = s.rh ∧ s'.heap = s.heap ∧ s'.map = s.map)) ∧
      (s.pc t = .act .tryrlock k m →
        get s.map k = some m ∧ enabled rw true ops s t ∧
        ∀ l s', (l, s') ∈ stepT rw true ops s t → l = none ∧
          ((s.mu m).readable → s'.pc t = .ret .tt ∧ s'.holdsR t k ∧ t ∈ (s'.mu m).readers) ∧
          (¬ (s.mu m).readable → s'.pc t = .ret .ff ∧ s'.wh = s.wh ∧ s'.rh = s.rh ∧ s'.heap = s.heap ∧ s'.map = s.map)) := by
  intro s hr t k m
  have hg := Lemmas.KeyedMutex.good_reachable rw n ops s hr
  exact ⟨fun h => ⟨Lemmas.KeyedMutex.loc_get hg (by rw [h]; rfl), Lemmas.KeyedMutex.trylock_of_good rw true ops hg h⟩,
         fun h => ⟨Lemmas.KeyedMutex.loc_get hg (by rw [h]; rfl), Lemmas.KeyedMutex.tryrlock_of_good rw true ops hg h⟩⟩

/-- Try* fail while the key is held incompatibly: TryLockKey returns false while any goroutine holds the
key (for writing or reading), TryRLockKey returns false while a goroutine holds it for writing. -/
theorem try_held (rw : Bool) (n : Nat) (ops : List Op) :
    ∀ s, Reachable (sys rw n ops) s → ∀ t k m t',
      (s.pc t = .act .trylock k m → (s.holdsW t' k ∨ s.holdsR t' k) →
        ∀ l s', (l, s') ∈ stepT rw true ops s t → s'.pc t = .ret .ff) ∧
      (s.pc t = .act .tryrlock k m → s.holdsW t' k →
        ∀ l s', (l, s') ∈ stepT rw true ops s t → s'.pc t = .ret .ff) := by
  intro s hr t k m t'
  have hg := Lemmas.KeyedMutex.good_reachable rw n ops s hr
  obtain ⟨h1, h2⟩ := «try» rw n ops s hr t k m
  refine ⟨fun hpc hh l s' hmem => ?_, fun hpc hh l s' hmem => ?_⟩
  · obtain ⟨hk, _, hall⟩ := h1 hpc
    exact ((hall l s' hmem).2.2 (Lemmas.KeyedMutex.not_free_of_held hg hk hh)).1
  · obtain ⟨hk, _, hall⟩ := h2 hpc
    exact ((hall l s' hmem).2.2 (Lemmas.KeyedMutex.not_readable_of_held hg hk hh)).1

/-- non-vacuity: goroutine 1 at its TryLock of key 5, which goroutine 0 holds -/
example : ∃ s, Reachable (sys false 2 [⟨.lock, 5⟩, ⟨.trylock, 5⟩]) s ∧ s.pc 1 = .act .trylock 5 0 ∧ s.holdsW 0 5 :=
  ⟨exec false true [⟨.lock, 5⟩, ⟨.trylock, 5⟩] [0, 0, 0, 0, 3, 2] (init 2), reachable_exec _ _ _ _ _ .init, by decide⟩

/-- Try* succeed when the key is free and uncontended, in terms of goroutines: if nobody holds `k` and no
other goroutine is inside a call on `k` (past its `LoadOrStore k`), TryLockKey returns true and holds
the key; if nobody holds `k` for writing and no other goroutine is inside a call on `k`, TryRLockKey
returns true and holds the key for reading. -/
theorem try_alone (rw : Bool) (n : Nat) (ops : List Op) :
    ∀ s, Reachable (sys rw n ops) s → ∀ t k m, (∀ t', t' ≠ t → onKey k (s.pc t') = false) →
      (s.pc t = .act .trylock k m → (∀ t', ¬ s.holdsW t' k ∧ ¬ s.holdsR t' k) →
        ∀ l s', (l, s') ∈ stepT rw true ops s t → s'.pc t = .ret .tt ∧ s'.holdsW t k) ∧
      (s.pc t = .act .tryrlock k m → (∀ t', ¬ s.holdsW t' k) →
        ∀ l s', (l, s') ∈ stepT rw true ops s t → s'.pc t = .ret .tt ∧ s'.holdsR t k) := by
  intro s hr t k m alone
  obtain ⟨hg, hc⟩ := Lemmas.KeyedMutex.good_conv_reachable rw n ops s hr
  obtain ⟨h1, h2⟩ := «try» rw n ops s hr t k m
  refine ⟨fun hpc hh l s' hmem => ?_, fun hpc hh l s' hmem => ?_⟩
  · obtain ⟨_, _, hall⟩ := h1 hpc
    have := (hall l s' hmem).2.1 (Lemmas.KeyedMutex.free_of_alone hg hc hpc hh alone)
    exact ⟨this.1, this.2.1⟩
  · obtain ⟨_, _, hall⟩ := h2 hpc
    have := (hall l s' hmem).2.1 (Lemmas.KeyedMutex.readable_of_alone hg hc hpc hh alone)
    exact ⟨this.1, this.2.1⟩

/-- non-vacuity: goroutine 1 at its TryLock of the fresh key 6 while goroutine 0 holds key 5 -/
example : ∃ s, Reachable (sys false 2 [⟨.lock, 5⟩, ⟨.trylock, 6⟩]) s ∧ s.pc 1 = .act .trylock 6 1 ∧ s.holdsW 0 5 ∧
    (∀ t', t' ≠ 1 → onKey 6 (s.pc t') = false) ∧ s.wh = [(0, 5)] ∧ s.rh = [] :=
  ⟨exec false true [⟨.lock, 5⟩, ⟨.trylock, 6⟩] [0, 0, 0, 0, 3, 2] (init 2), reachable_exec _ _ _ _ _ .init,
   by decide, by decide, by
     intro t' h
     match t' with
     | 0 => decide
     | 1 => exact absurd rfl h
     | n + 2 => rfl, by decide, by decide⟩

/-- non-vacuity: a TryLockKey that fails because the key is held, one that succeeds on a fresh key,
and the model refuses a failing TryLockKey on a free, uncontended key -/
example : accepts (sys false 2 [⟨.lock, 5⟩, ⟨.trylock, 5⟩, ⟨.trylock, 6⟩]) 8
    [.inv 0 ⟨.lock, 5⟩, .res 0 .done, .inv 1 ⟨.trylock, 5⟩, .res 1 .ff, .inv 1 ⟨.trylock, 6⟩, .res 1 .tt] = true := by
  decide
example : accepts (sys false 2 [⟨.trylock, 5⟩]) 8 [.inv 1 ⟨.trylock, 5⟩, .res 1 .ff] = false := by
  decide
example : ∃ s, Reachable (sys true 2 [⟨.rlock, 5⟩, ⟨.tryrlock, 5⟩]) s ∧ s.pc 1 = .act .tryrlock 5 0 ∧ s.holdsR 0 5 :=
  ⟨exec true true [⟨.rlock, 5⟩, ⟨.tryrlock, 5⟩] [0, 0, 0, 0, 1, 0] (init 2), reachable_exec _ _ _ _ _ .init, by decide⟩

/-- The ClearKey proviso cannot be dropped: without E4 (`sysRaw`) two goroutines hold key 5 at once
(goroutine 0 locks 5, goroutine 1 clears 5 and locks 5 through a fresh mutex). -/
theorem clear_proviso_needed :
    ∃ s, Reachable (sysRaw false 2 [⟨.lock, 5⟩, ⟨.clear, 5⟩]) s ∧ s.holdsW 0 5 ∧ s.holdsW 1 5 :=
  ⟨exec false false [⟨.lock, 5⟩, ⟨.clear, 5⟩] [0, 0, 0, 0, 3, 2, 2, 2, 2, 2] (init 2),
   reachable_exec_raw _ _ _ _ _ .init, by decide⟩

end C09

#print axioms C09.agree
#print axioms C09.mutex
#print axioms C09.rw
#print axioms C09.independent
#print axioms C09.independent_los
#print axioms C09.independent_free
#print axioms C09.«try»
#print axioms C09.try_held
#print axioms C09.try_alone
#print axioms C09.clear_proviso_needed
