import TypVerif.Lemmas.ObjAccept
import TypVerif.Lemmas.ObjAcceptLin
import TypVerif.Props.C18
/-
C04 — ACCEPTANCE IS SOUND for the API-level judge `Drv/ObjLin.lean`, map mode (`cmap`): a real history of single
`sync2.Map` operations (Load / Store / LoadOrStore / LoadAndDelete / Delete) that the judge accepts is the visible trace of
an execution of `AtomicObj.sys MapObj.mapSpec menu N` from its initial state, hence (by `C18.AtomicObj.linearizable`)
linearizable w.r.t. the map specification `MapObj.mapSpec`.  The generic part (the state-set step `stepObj`: padding, log
erasure, one-operation menu, growing number of goroutines) is `Lemmas/ObjAccept.lean`, see `Props/C18accept.lean`.

The fold the theorems are about: `runLines (step j0 [cmap] impl0).1 lines` — the real `Drv.ObjLin.step`, started with the
header line `cmap` in any judge state, folded over lines that are all covered by `MapLine`:
  event lines      `inv t load k | store k v | loadorstore k v | loadanddelete k | delete k` (`parseMapInv`),
                   `res t done`, `res t v <bool-word>`;
  skipped lines    `inv t range`, `res t [[k,v],…]` (Range; judged by separate predicates, NOT part of this statement),
                   `step _ _`, `iter _ _` (lines of step-level traces, ignored by this judge).
`Lines MapLine lines tr`: `tr` is the history (event lines in order).  "Accepted": `violated = none` at the end, i.e. every
output so far was `ok` (the flag is also set by the Range predicates and by `deadlock` / `steplimit` / `panic` lines, so such
lines are excluded by the hypothesis where they are not excluded by `MapLine`).  Soundness only.
-/
namespace C04
open TypVerif TypVerif.Conc TypVerif.Model TypVerif.Proto TypVerif.Drv.ObjLin
open TypVerif.Lemmas.ObjAcceptLin (MEvent MapLine Lines runLines)
open TypVerif.Lemmas.ObjAccept (evMenu)

/-- the state-set step of this judge (same as C18's, closure fuel 24): every state in `stepObj S n ss e` is `eraseLog` of a
state reached from the padding of some state of `ss` by an execution with visible trace `[e]` -/
theorem objlin_stepObj_sound (S : AtomicObj.Spec) [DecidableEq S.σ] [DecidableEq S.Op] [DecidableEq S.Res] (n : Nat)
    (ss : List (AtomicObj.State S.σ S.Op S.Res)) (e : AtomicObj.Event S.Op S.Res) :
    ∀ s' ∈ stepObj S n ss e, ∃ s ∈ ss, ∃ (ls : List (Option (AtomicObj.Event S.Op S.Res)))
        (s1 : AtomicObj.State S.σ S.Op S.Res),
      Exec (AtomicObj.sys S (evMenu e) n) (padObj n s) ls s1 ∧ visible ls = [e] ∧ s' = eraseLog s1 :=
  Lemmas.ObjAccept.stepObj_sound S closureFuel n ss e

/-- what a covered line does to the map-mode state: the mode is kept, and if no violation is reported afterwards, none was
reported before and — event line — the state set was stepped by `stepObj` (with some number of goroutines) and is
non-empty, — skipped line — the state set is unchanged -/
theorem objlin_step_map (j : JSt) (toks : List Val) (impl : String) (oe : Option MEvent) (hmode : j.st.mode = 1)
    (h : MapLine toks oe) :
    (step j toks impl).1.st.mode = 1 ∧
    ((step j toks impl).1.st.violated = none → j.st.violated = none ∧
      (match (generalizing := false) oe with
       | some e => (∃ n, (step j toks impl).1.st.ms = stepObj MapObj.mapSpec n j.st.ms e) ∧
                     (step j toks impl).1.st.ms ≠ []
       | none => (step j toks impl).1.st.ms = j.st.ms)) := by
  rw [Lemmas.ObjAcceptLin.step_map j toks impl oe hmode h]
  obtain ⟨h1, h2⟩ := Lemmas.ObjAcceptLin.stepMap_ok j.st toks oe h
  exact ⟨h1.trans hmode, h2⟩

/-- **ObjLin judge, map mode**: an accepted history of single map operations is the visible trace of an execution of the
atomic map object -/
theorem objlin_accept_sound (j0 : JSt) (impl0 : String) (lines : List (List Val × String)) (tr : List MEvent)
    (hl : Lines MapLine lines tr) (hok : (runLines (step j0 [.w "cmap"] impl0).1 lines).st.violated = none) :
    ∃ (N : Nat) (menu : List MapObj.Op) (ls : List (Option MEvent)) (s : MSt),
      Exec (AtomicObj.sys MapObj.mapSpec menu N) (AtomicObj.sys MapObj.mapSpec menu N).init ls s ∧ visible ls = tr :=
  Lemmas.ObjAcceptLin.map_accept_sound j0 impl0 lines tr hl hok

/-- … hence it is linearizable w.r.t. the map specification -/
theorem objlin_accepted_history_linearizable (j0 : JSt) (impl0 : String) (lines : List (List Val × String))
    (tr : List MEvent) (hl : Lines MapLine lines tr)
    (hok : (runLines (step j0 [.w "cmap"] impl0).1 lines).st.violated = none) :
    AtomicObj.Linearizable MapObj.mapSpec tr := by
  obtain ⟨N, menu, ls, s, hex, hv⟩ := objlin_accept_sound j0 impl0 lines tr hl hok
  rw [← hv]
  exact C18.AtomicObj.linearizable MapObj.mapSpec menu N hex

/-! non-vacuity: `store 1 7 ‖ load 1 → 7 true` (with a `step` line in between) is accepted; a stale load is not -/
example : (runLines (step {} [.w "cmap"] "").1
    [([.w "inv", .i 0, .w "store", .i 1, .i 7], ""), ([.w "step", .i 0, .i 3], ""),
     ([.w "inv", .i 1, .w "load", .i 1], ""), ([.w "res", .i 1, .i 7, .w "true"], ""),
     ([.w "res", .i 0, .w "done"], "")]).st.violated = none := by decide
example : Lines MapLine
    [([.w "inv", .i 0, .w "store", .i 1, .i 7], ""), ([.w "step", .i 0, .i 3], ""),
     ([.w "inv", .i 1, .w "load", .i 1], ""), ([.w "res", .i 1, .i 7, .w "true"], ""),
     ([.w "res", .i 0, .w "done"], "")]
    [.inv 0 (.store 1 7), .inv 1 (.load 1), .res 1 (.val 7 true), .res 0 .done] :=
  .ev (.inv _ 0 (.store 1 7) (by decide)) (.skip (.stepLine _ _) (.ev (.inv _ 1 (.load 1) (by decide))
    (.ev (.resVal 1 7 "true") (.ev (.resDone 0) .nil))))
example : (runLines (step {} [.w "cmap"] "").1
    [([.w "inv", .i 0, .w "store", .i 1, .i 7], ""), ([.w "res", .i 0, .w "done"], ""),
     ([.w "inv", .i 1, .w "load", .i 1], ""), ([.w "res", .i 1, .i 0, .w "false"], "")]).st.violated
      = some "not-linearizable" := by decide

end C04

#print axioms C04.objlin_stepObj_sound
#print axioms C04.objlin_step_map
#print axioms C04.objlin_accept_sound
#print axioms C04.objlin_accepted_history_linearizable
