import TypVerif.Lemmas.SetsWorld
/-
C03: the set operations of `maps.Set` and `sync2.Set` (models in `Model/Sets.lean`) equal set algebra, for
receivers and arguments of either implementation in any well-formed internal layout (`SetOK`: duplicate-free
Go map / `SeqInv` of the concurrent map — every reachable layout, see `sync_reachable_inv`), the argument being
allowed to be the receiver itself (`Two.arg = none`).  `mem` is the membership model; `t.recv` is A,
`t.argSet` is B.
-/
namespace C03
open TypVerif
open TypVerif.Model.Sets
open TypVerif.Lemmas.Sets

set_option linter.unusedSectionVars false

variable {α : Type} [DecidableEq α]

/-- Union returns A ∪ B as a well-formed set -/
theorem union (t : Two α) (h : TwoOK t) :
    SetOK (union t).2 ∧ ∀ x, mem (Model.Sets.union t).2 x = (mem t.recv x || mem t.argSet x) :=
  ⟨(union_ok t h).res, (union_ok t h).memRes⟩

/-- Intersect returns A ∩ B -/
theorem intersect (t : Two α) (h : TwoOK t) :
    SetOK (intersect t).2 ∧ ∀ x, mem (Model.Sets.intersect t).2 x = (mem t.recv x && mem t.argSet x) :=
  ⟨(intersect_ok t h).res, (intersect_ok t h).memRes⟩

/-- SetDiff returns A \ B -/
theorem setdiff (t : Two α) (h : TwoOK t) :
    SetOK (setDiff t).2 ∧ ∀ x, mem (setDiff t).2 x = (mem t.recv x && !mem t.argSet x) :=
  ⟨(setDiff_ok t h).res, (setDiff_ok t h).memRes⟩

/-- SymDiff returns A △ B -/
theorem symdiff (t : Two α) (h : TwoOK t) :
    SetOK (symDiff t).2 ∧ ∀ x, mem (symDiff t).2 x = (mem t.recv x != mem t.argSet x) :=
  ⟨(symDiff_ok t h).res, (symDiff_ok t h).memRes⟩

/-- the four operations leave the membership of A and B unchanged (the *layout* of a concurrent operand
may change: `Range` promotes, `Has` counts misses) and keep both operands well-formed -/
theorem operands_unchanged (t : Two α) (h : TwoOK t) :
    (∀ r ∈ [(Model.Sets.union t).1, (Model.Sets.intersect t).1, (setDiff t).1, (symDiff t).1],
      TwoOK r ∧ (∀ x, mem r.recv x = mem t.recv x) ∧ (∀ x, mem r.argSet x = mem t.argSet x) ∧
      r.arg.isSome = t.arg.isSome) := by
  intro r hr
  simp only [List.mem_cons, List.not_mem_nil, or_false] at hr
  rcases hr with rfl | rfl | rfl | rfl
  · exact ⟨(union_ok t h).two, (union_ok t h).memRecv, (union_ok t h).memArg, (union_ok t h).alias⟩
  · exact ⟨(intersect_ok t h).two, (intersect_ok t h).memRecv, (intersect_ok t h).memArg, (intersect_ok t h).alias⟩
  · exact ⟨(setDiff_ok t h).two, (setDiff_ok t h).memRecv, (setDiff_ok t h).memArg, (setDiff_ok t h).alias⟩
  · exact ⟨(symDiff_ok t h).two, (symDiff_ok t h).memRecv, (symDiff_ok t h).memArg, (symDiff_ok t h).alias⟩

/-- Add reports true exactly when the value was absent, and afterwards it is a member (nothing else changes) -/
theorem add_reports_change (s : AnySet α) (h : SetOK s) (v : α) :
    SetOK (add s v).1 ∧ (add s v).2 = !mem s v ∧ ∀ x, mem (add s v).1 x = (decide (x = v) || mem s x) :=
  ⟨(add_ok s h v).1, (add_ok s h v).2.2, (add_ok s h v).2.1⟩

/-- Remove reports true exactly when the value was present, and afterwards it is not a member -/
theorem remove_reports_change (s : AnySet α) (h : SetOK s) (v : α) :
    SetOK (remove s v).1 ∧ (remove s v).2 = mem s v ∧ ∀ x, mem (remove s v).1 x = (!decide (x = v) && mem s x) :=
  ⟨(remove_ok s h v).1, (remove_ok s h v).2.2, (remove_ok s h v).2.1⟩

/-- Has agrees with the membership model and does not change it -/
theorem has (s : AnySet α) (h : SetOK s) (v : α) :
    SetOK (has s v).1 ∧ (Model.Sets.has s v).2 = mem s v ∧ ∀ x, mem (Model.Sets.has s v).1 x = mem s x :=
  ⟨(has_ok s h v).1, (has_ok s h v).2.2, (has_ok s h v).2.1⟩

/-- AddSet makes the receiver A ∪ B and returns |B \ A| (`keys`: any duplicate-free enumeration of B) -/
theorem addSet_count (t : Two α) (h : TwoOK t) :
    TwoOK (addSet t).1 ∧ (∀ x, mem (addSet t).1.recv x = (mem t.recv x || mem t.argSet x)) ∧
    (∀ b, t.arg = some b → ∃ b', (addSet t).1.arg = some b' ∧ ∀ x, mem b' x = mem b x) ∧
    (∀ keys : List α, keys.Nodup → (∀ x, x ∈ keys ↔ mem t.argSet x = true) →
      (addSet t).2 = (keys.filter (fun v => !mem t.recv v)).length) :=
  ⟨(addSet_ok t h).1, (addSet_ok t h).2.1, (addSet_ok t h).2.2.1, (addSet_ok t h).2.2.2.2⟩

/-- RemoveSet makes the receiver A \ B and returns |A ∩ B| -/
theorem removeSet_count (t : Two α) (h : TwoOK t) :
    TwoOK (removeSet t).1 ∧ (∀ x, mem (removeSet t).1.recv x = (mem t.recv x && !mem t.argSet x)) ∧
    (∀ b, t.arg = some b → ∃ b', (removeSet t).1.arg = some b' ∧ ∀ x, mem b' x = mem b x) ∧
    (∀ keys : List α, keys.Nodup → (∀ x, x ∈ keys ↔ mem t.argSet x = true) →
      (removeSet t).2 = (keys.filter (fun v => mem t.recv v)).length) :=
  ⟨(removeSet_ok t h).1, (removeSet_ok t h).2.1, (removeSet_ok t h).2.2.1, (removeSet_ok t h).2.2.2.2⟩

/-- a full Range (also: Slice, String) enumerates every member exactly once and nothing else -/
theorem range_enumerates (s : AnySet α) (h : SetOK s) :
    (rangeAll s).2.Nodup ∧ (∀ x, x ∈ (rangeAll s).2 ↔ mem s x = true) ∧
    SetOK (rangeAll s).1 ∧ (∀ x, mem (rangeAll s).1 x = mem s x) ∧
    (slice s).2 = (rangeAll s).2 ∧ (string s).2 = (rangeAll s).2 :=
  ⟨(rangeAll_ok s h).2.2.1, (rangeAll_ok s h).2.2.2, (rangeAll_ok s h).1, (rangeAll_ok s h).2.1, rfl, rfl⟩

/-- Range stops as soon as its callback says so: with the callback answering false on its n-th call the
callback sequence is the first n values of the full enumeration (all of them when n ≤ 0) -/
theorem range_stops (s : AnySet α) (h : SetOK s) (n : Int) :
    (rangeN s n).2 = Spec.PMap.cut n (rangeAll s).2 ∧ SetOK (rangeN s n).1 ∧ (∀ x, mem (rangeN s n).1 x = mem s x) :=
  ⟨(rangeN_ok s h n).2.2.2.1, (rangeN_ok s h n).1, (rangeN_ok s h n).2.1⟩

/-- Len is the number of members -/
theorem len (s : AnySet α) (h : SetOK s) (keys : List α) (hk : keys.Nodup) (hkm : ∀ x, x ∈ keys ↔ mem s x = true) :
    (len s).2 = keys.length ∧ SetOK (len s).1 ∧ ∀ x, mem (Model.Sets.len s).1 x = mem s x :=
  ⟨(len_ok s h).2.2 keys hk hkm, (len_ok s h).1, (len_ok s h).2.1⟩

/-- Clone has the same members, and the receiver keeps its own -/
theorem clone (s : AnySet α) (h : SetOK s) :
    SetOK (clone s).2 ∧ (∀ x, mem (clone s).2 x = mem s x) ∧ SetOK (clone s).1 ∧ (∀ x, mem (Model.Sets.clone s).1 x = mem s x) :=
  ⟨(clone_ok s h).2.1, (clone_ok s h).2.2.2, (clone_ok s h).1, (clone_ok s h).2.2.1⟩

/-- NewSetFromSlice (and NewSetFromKeys / NewSetFromValues, which add the keys / values of the Go map in
iteration order) has exactly the listed members -/
theorem fromSlice (kind : Nat) (l : List α) :
    SetOK (fromSlice kind l) ∧ ∀ x, mem (Model.Sets.fromSlice kind l) x = l.contains x :=
  fromSlice_ok kind l

theorem fromKeys {β : Type} (kind : Nat) (pairs : List (α × β)) :
    SetOK (fromKeys kind pairs) ∧ ∀ x, mem (Model.Sets.fromKeys kind pairs) x = ((goMapOf pairs).map Prod.fst).contains x :=
  fromSlice_ok kind _

theorem fromValues {κ : Type} [DecidableEq κ] (kind : Nat) (pairs : List (κ × α)) :
    SetOK (fromValues kind pairs) ∧ ∀ x, mem (Model.Sets.fromValues kind pairs) x = ((goMapOf pairs).map Prod.snd).contains x :=
  fromSlice_ok kind _

/-- CartesianProduct yields exactly the |A|*|B| distinct pairs -/
theorem cartesian (t : Two α) (h : TwoOK t) :
    (product t).2.Nodup ∧
    (∀ a b, (a, b) ∈ (product t).2 ↔ mem t.recv a = true ∧ mem t.argSet b = true) ∧
    (∀ ka kb : List α, ka.Nodup → (∀ x, x ∈ ka ↔ mem t.recv x = true) → kb.Nodup → (∀ x, x ∈ kb ↔ mem t.argSet x = true) →
      (product t).2.length = ka.length * kb.length) ∧
    TwoOK (product t).1 ∧ (∀ x, mem (product t).1.recv x = mem t.recv x) ∧ (∀ x, mem (product t).1.argSet x = mem t.argSet x) :=
  ⟨(product_ok t h).2.2.2.1, (product_ok t h).2.2.2.2.1, (product_ok t h).2.2.2.2.2, (product_ok t h).1,
   (product_ok t h).2.1, (product_ok t h).2.2.1⟩

/-- every program over set handles (both implementations, every method, self-aliased calls) keeps every set
well-formed; for the concurrent sets this is `SeqInv` of the inner map: the layouts quantified over above are
all the reachable ones -/
theorem sync_reachable_inv (ops : List (WOp α)) : ∀ s ∈ wrun ops, SetOK s :=
  wrun_ok ops

/-! Non-vacuity: mixed pairings and a self-aliased call, on layouts that went through promotion. -/

def demoOps : List (WOp Int) :=
  [.new 1, .add 0 1, .add 0 2, .add 0 3, .has 0 1, .has 0 1, .has 0 1, .remove 0 2, .add 0 4]
def demoA : AnySet Int := (wrun demoOps)[0]'(by decide)
def demoB : AnySet Int := .mapSet [3, 4, 5]

example : TwoOK ({ recv := demoA, arg := some demoB } : Two Int) :=
  ⟨sync_reachable_inv demoOps _ (List.getElem_mem _),
   fun b hb => by injection hb with hb; subst hb; show [3, 4, 5].Nodup; decide⟩

example : [0, 1, 2, 3, 4, 5, 6].map (fun (x : Int) => mem (Model.Sets.union { recv := demoA, arg := some demoB }).2 x) =
    [false, true, false, true, true, true, false] := by decide
example : [0, 1, 2, 3, 4, 5, 6].map (fun (x : Int) => mem (symDiff { recv := demoB, arg := some demoA }).2 x) =
    [false, true, false, false, false, true, false] := by decide
example : (removeSet { recv := demoA, arg := none }).2 = 3 := by decide
example : (addSet { recv := demoB, arg := some demoA }).2 = 1 := by decide
example : (product { recv := demoA, arg := none }).2.length = 9 := by decide
example : (rangeN demoA 2).2.length = 2 := by decide

end C03
