import TypVerif.Lemmas.ObjAccept
import TypVerif.Lemmas.ObjAcceptC18
import TypVerif.Props.C18
/-
C18 — ACCEPTANCE IS SOUND for the atomic-object judges of `Drv/C18.lean`: a real history of `sync2.AtomicValue` /
`sync2.Pool` calls that the judge accepts is the visible trace of an execution of the corresponding
`AtomicObj.sys S menu N` from its initial state (for some number of goroutines `N` and some finite menu), hence — by
`C18.AtomicObj.linearizable`, which quantifies over ALL executions — it is linearizable w.r.t. `S`.

What the judge does (`Drv.C18.stepObj S n ss e`): pad every state of the set `ss` with idle goroutines up to `n`
(`padObj n`), run the generic `Conc.stepEvent` of `AtomicObj.sys S menu n`, `menu` = the operation of `e` if `e` is an
invocation (else empty), erase the ghost log of the resulting states (`eraseLog`), remove duplicates; `n` grows while the
trace is read (`nextN`).  Why this is sound (`Lemmas/ObjAccept.lean`): `AtomicObj.succ` never reads the ghost log
(`eraseLog_bisim`), ignores idle goroutines other than the stepping one (`exec_pad`), is monotone in the menu
(`exec_menu_mono`), and `n` occurs only in the initial state (`exec_n_irrelevant`).

The fold the theorems are about: `runLines (step st0 header impl0).1 lines` — the real `Drv.C18.step`, started with the
header line (`av`, resp. `pool <hasnew>`) in any judge state `st0`, folded over lines each of which parses as an event
(`parseAv` resp. `parsePool`; the second component of a line, the implementation's result string, is ignored by this judge).
"Accepted" = the judge's flag is still clear at the end, i.e. every output so far was `ok`:
`rejected = false` for the model component (`avM`, system `AtomicObj.sys AtomicValue.spec`),
`violated = none` for the specification component (`avS`: `Spec.Register.spec`; `poolS`: `Pool.bagSpec hasNew`).

Soundness only (the fuel-bounded closure may lose traces).  NOT covered: the wrapper-level pool model component `poolM`
(`Pool.sys`, `stepPool`/`padPool`: flag `rejected` in mode `pool`), and the `pool <hasnew> trace` mode (no state sets).
-/
namespace C18
open TypVerif TypVerif.Conc TypVerif.Model TypVerif.Proto TypVerif.Drv.C18
open TypVerif.Lemmas.ObjAccept (Acc stepObjF foldObj evMenu padBy)
open TypVerif.Lemmas.ObjAcceptC18 (runLines nextN)

/-! ## generic -/

/-- the ghost log is never read: states equal up to the log have the same executions, up to the log -/
theorem eraseLog_bisim (S : AtomicObj.Spec) (menu : List S.Op) (n : Nat) {a a' b : AtomicObj.State S.σ S.Op S.Res}
    {ls : List (Option (AtomicObj.Event S.Op S.Res))} (he : Exec (AtomicObj.sys S menu n) a ls b)
    (h : eraseLog a' = eraseLog a) :
    ∃ b' : AtomicObj.State S.σ S.Op S.Res, Exec (AtomicObj.sys S menu n) a' ls b' ∧ eraseLog b' = eraseLog b :=
  Lemmas.ObjAccept.eraseLog_bisim S menu n he h

/-- padding with idle goroutines is a simulation; `n` matters only for the initial state -/
theorem exec_pad (S : AtomicObj.Spec) (menu : List S.Op) (n n' k : Nat) {a b : AtomicObj.State S.σ S.Op S.Res}
    {ls : List (Option (AtomicObj.Event S.Op S.Res))} (he : Exec (AtomicObj.sys S menu n) a ls b) :
    Exec (AtomicObj.sys S menu n') (padBy k a) ls (padBy k b) :=
  Lemmas.ObjAccept.exec_pad S menu n n' k he

theorem padObj_eq_padBy {σ Op Res : Type} (n : Nat) (s : AtomicObj.State σ Op Res) :
    padObj n s = padBy (n - s.pcs.length) s := rfl

theorem exec_menu_mono (S : AtomicObj.Spec) {menu menu' : List S.Op} (hm : ∀ op ∈ menu, op ∈ menu') (n : Nat)
    {a b : AtomicObj.State S.σ S.Op S.Res} {ls : List (Option (AtomicObj.Event S.Op S.Res))}
    (he : Exec (AtomicObj.sys S menu n) a ls b) : Exec (AtomicObj.sys S menu' n) a ls b :=
  Lemmas.ObjAccept.exec_menu_mono S hm n he

/-- every state in `stepObj S n ss e` is `eraseLog` of a state reached from the padding of some state of `ss` by an
execution with visible trace `[e]` -/
theorem stepObj_sound (S : AtomicObj.Spec) [DecidableEq S.σ] [DecidableEq S.Op] [DecidableEq S.Res] (n : Nat)
    (ss : List (AtomicObj.State S.σ S.Op S.Res)) (e : AtomicObj.Event S.Op S.Res) :
    ∀ s' ∈ stepObj S n ss e, ∃ s ∈ ss, ∃ (ls : List (Option (AtomicObj.Event S.Op S.Res)))
        (s1 : AtomicObj.State S.σ S.Op S.Res),
      Exec (AtomicObj.sys S (evMenu e) n) (padObj n s) ls s1 ∧ visible ls = [e] ∧ s' = eraseLog s1 :=
  Lemmas.ObjAccept.stepObj_sound S closureFuel n ss e

/-- folding `stepObj` over `tr`, with ANY way `nf` of choosing the number of goroutines per event (the judge: `nextN`),
from the initial state set: if the set is non-empty at the end, `tr` is the visible trace of an execution from the initial
state of some `AtomicObj.sys S menu N` -/
theorem fold_stepObj_sound (S : AtomicObj.Spec) [DecidableEq S.σ] [DecidableEq S.Op] [DecidableEq S.Res]
    (nf : Nat → AtomicObj.Event S.Op S.Res → Nat) (n0 : Nat) (tr : List (AtomicObj.Event S.Op S.Res))
    (hne : (tr.foldl (fun j e => (nf j.1 e, stepObj S (nf j.1 e) j.2 e)) (n0, [AtomicObj.init S n0])).2 ≠ []) :
    ∃ (N : Nat) (menu : List S.Op) (ls : List (Option (AtomicObj.Event S.Op S.Res)))
        (s : AtomicObj.State S.σ S.Op S.Res),
      Exec (AtomicObj.sys S menu N) (AtomicObj.sys S menu N).init ls s ∧ visible ls = tr :=
  Lemmas.ObjAccept.fold_stepObj_sound S closureFuel nf n0 tr hne

/-! ## the judge -/

/-- one event line of the real judge in mode `av`: the number of goroutines becomes `nextN n t`, both state sets are
stepped by `stepObj` (`stepAvM`, `stepAvS`) with that number, the flags record emptiness -/
theorem judge_step_av (st : St) (toks : List Val) (impl : String) (e : AvEvent) (hmode : st.mode = .av)
    (hp : parseAv toks = some e) :
    (step st toks impl).1.mode = .av ∧
    (step st toks impl).1.n = nextN st.n (evTid e) ∧
    (step st toks impl).1.avM = (if st.rejected then [] else stepAvM (nextN st.n (evTid e)) st.avM e) ∧
    (step st toks impl).1.avS = (if st.violated.isSome then [] else stepAvS (nextN st.n (evTid e)) st.avS e) ∧
    (step st toks impl).1.rejected = (st.rejected || (step st toks impl).1.avM.isEmpty) ∧
    (step st toks impl).1.violated = (match st.violated with
        | some w => some w
        | none => if (step st toks impl).1.avS.isEmpty then some "not-linearizable" else none) :=
  Lemmas.ObjAcceptC18.step_av st toks impl e hmode hp

/-- one event line of the real judge in mode `pool hasNew` (not trace-only), bag component -/
theorem judge_step_pool (st : St) (toks : List Val) (impl : String) (hasNew : Bool) (e : Pool.Event)
    (hmode : st.mode = .pool hasNew) (htr : st.traceOnly = false) (hp : parsePool toks = some e) :
    (step st toks impl).1.mode = .pool hasNew ∧ (step st toks impl).1.traceOnly = false ∧
    (step st toks impl).1.n = nextN st.n (evTid e) ∧
    (step st toks impl).1.poolS =
      (if st.violated.isSome then [] else stepBag hasNew (nextN st.n (evTid e)) st.poolS e) ∧
    ((step st toks impl).1.violated = none → st.violated = none ∧ (step st toks impl).1.poolS ≠ []) :=
  Lemmas.ObjAcceptC18.step_pool st toks impl hasNew e hmode htr hp

/-- **AtomicValue judge**: after the header `av` and lines standing for the events `tr`, a judge that has not rejected
has read the visible trace of an execution of the model system `AtomicObj.sys AtomicValue.spec`; a judge that has reported
no violation has read the visible trace of an execution of the specification system `AtomicObj.sys Spec.Register.spec` -/
theorem judge_accept_sound (st0 : St) (impl0 : String) (lines : List (List Val × String)) (tr : List AvEvent)
    (hparse : lines.map (fun l => parseAv l.1) = tr.map some) :
    ((runLines (step st0 [.w "av"] impl0).1 lines).rejected = false →
      ∃ (N : Nat) (menu : List AtomicValue.Op) (ls : List (Option AvEvent)) (s : AvState),
        Exec (AtomicObj.sys AtomicValue.spec menu N) (AtomicObj.sys AtomicValue.spec menu N).init ls s ∧
          visible ls = tr) ∧
    ((runLines (step st0 [.w "av"] impl0).1 lines).violated = none →
      ∃ (N : Nat) (menu : List AtomicValue.Op) (ls : List (Option AvEvent)) (s : AvState),
        Exec (AtomicObj.sys Spec.Register.spec menu N) (AtomicObj.sys Spec.Register.spec menu N).init ls s ∧
          visible ls = tr) :=
  Lemmas.ObjAcceptC18.av_accept_sound st0 impl0 lines tr hparse

/-- **Pool judge, bag component**: after the header `pool hn` and lines standing for the events `tr`, a judge that has
reported no violation has read the visible trace of an execution of `AtomicObj.sys (Pool.bagSpec (hn != 0))` -/
theorem judge_accept_sound_pool (st0 : St) (hn : Int) (impl0 : String) (lines : List (List Val × String))
    (tr : List Pool.Event) (hparse : lines.map (fun l => parsePool l.1) = tr.map some)
    (hok : (runLines (step st0 [.w "pool", .i hn] impl0).1 lines).violated = none) :
    ∃ (N : Nat) (menu : List Pool.Op) (ls : List (Option Pool.Event)) (s : BagState),
      Exec (AtomicObj.sys (Pool.bagSpec (hn != 0)) menu N) (AtomicObj.sys (Pool.bagSpec (hn != 0)) menu N).init ls s ∧
        visible ls = tr :=
  Lemmas.ObjAcceptC18.pool_accept_sound st0 hn impl0 lines tr hparse hok

/-- … hence an accepted AtomicValue history is linearizable: w.r.t. the model `AtomicValue.spec` and (by `C18.register`)
w.r.t. the register specification when the model component accepts; w.r.t. the register specification when the
specification component accepts -/
theorem accepted_history_linearizable (st0 : St) (impl0 : String) (lines : List (List Val × String))
    (tr : List AvEvent) (hparse : lines.map (fun l => parseAv l.1) = tr.map some) :
    ((runLines (step st0 [.w "av"] impl0).1 lines).rejected = false →
      AtomicObj.Linearizable AtomicValue.spec tr ∧ AtomicObj.Linearizable Spec.Register.spec tr) ∧
    ((runLines (step st0 [.w "av"] impl0).1 lines).violated = none →
      AtomicObj.Linearizable Spec.Register.spec tr) := by
  obtain ⟨hM, hS⟩ := judge_accept_sound st0 impl0 lines tr hparse
  constructor
  · intro hr
    obtain ⟨N, menu, ls, s, hex, hv⟩ := hM hr
    rw [← hv]
    exact ⟨C18.AtomicObj.linearizable AtomicValue.spec menu N hex, C18.register.2.2.2 menu N ls s hex⟩
  · intro hv
    obtain ⟨N, menu, ls, s, hex, hv⟩ := hS hv
    rw [← hv]
    exact C18.AtomicObj.linearizable Spec.Register.spec menu N hex

/-- … and an accepted Pool history is linearizable w.r.t. the atomic bag -/
theorem accepted_pool_history_linearizable (st0 : St) (hn : Int) (impl0 : String)
    (lines : List (List Val × String)) (tr : List Pool.Event)
    (hparse : lines.map (fun l => parsePool l.1) = tr.map some)
    (hok : (runLines (step st0 [.w "pool", .i hn] impl0).1 lines).violated = none) :
    AtomicObj.Linearizable (Pool.bagSpec (hn != 0)) tr := by
  obtain ⟨N, menu, ls, s, hex, hv⟩ := judge_accept_sound_pool st0 hn impl0 lines tr hparse hok
  rw [← hv]
  exact C18.AtomicObj.linearizable (Pool.bagSpec (hn != 0)) menu N hex

/-! non-vacuity: the judge accepts `store 7 ‖ load → 7` and rejects a stale load -/
example : (runLines (step {} [.w "av"] "").1
    [([.w "inv", .i 0, .w "store", .i 7], ""), ([.w "inv", .i 1, .w "load"], ""), ([.w "res", .i 1, .i 7], ""),
     ([.w "res", .i 0, .w "done"], "")]).rejected = false := by decide
example : (runLines (step {} [.w "av"] "").1
    [([.w "inv", .i 0, .w "store", .i 7], ""), ([.w "res", .i 0, .w "done"], ""), ([.w "inv", .i 1, .w "load"], ""),
     ([.w "res", .i 1, .i 0], "")]).violated = some "not-linearizable" := by decide

end C18

#print axioms C18.eraseLog_bisim
#print axioms C18.exec_pad
#print axioms C18.exec_menu_mono
#print axioms C18.stepObj_sound
#print axioms C18.fold_stepObj_sound
#print axioms C18.judge_step_av
#print axioms C18.judge_step_pool
#print axioms C18.judge_accept_sound
#print axioms C18.judge_accept_sound_pool
#print axioms C18.accepted_history_linearizable
#print axioms C18.accepted_pool_history_linearizable
