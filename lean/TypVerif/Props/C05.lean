import TypVerif.Lemmas.AtomicSet
/-
C05, specification-level part: in every sequential history of the set specification (`Spec/AtomicSet.lean`)
the successful Add/Remove calls of each value alternate starting with an Add, their difference is 0 or 1 and
equals the final membership, and Has reports the membership told by those events.  `atomic_seq` ties the
`sync2.Set` model to that specification: each method is exactly one map call, and every sequential run of the
model produces the specification's history.  (That concurrent executions linearise to such histories is C04's
concurrent half and is not part of this file.)
-/
namespace C05
open TypVerif
open TypVerif.Spec.AtomicSet
open TypVerif.Lemmas.AtomicSet
open TypVerif.Model.Sets
open TypVerif.Model.SyncMap (State load loadOrStore loadAndDelete)

set_option linter.unusedSectionVars false

variable {α : Type} [DecidableEq α]

/-- for each value the successful Adds (`true`) and Removes (`false`) alternate, starting with an Add;
#okAdd = #okRemove + (1 if finally a member else 0), so the difference is 0 or 1 and equals the final membership -/
theorem alternate (ops : List (SOp α)) (v : α) :
    Alternates true (events v (srun ops).2) ∧
    countTrue (events v (srun ops).2) = countFalse (events v (srun ops).2) + (if (srun ops).1 v then 1 else 0) := by
  obtain ⟨h1, _, h3⟩ := run_facts v ops sempty
  refine ⟨h1, ?_⟩
  have h4 : countTrue (events v (srunFrom sempty ops).2) + 0 =
      countFalse (events v (srunFrom sempty ops).2) + (if (srunFrom sempty ops).1 v then 1 else 0) := h3
  rw [Nat.add_zero] at h4
  exact h4

/-- the same from an arbitrary starting membership (the first successful call is an Add iff `v` is absent) -/
theorem alternate_from (m : SState α) (ops : List (SOp α)) (v : α) :
    Alternates (!m v) (events v (srunFrom m ops).2) ∧
    countTrue (events v (srunFrom m ops).2) + (if m v then 1 else 0) =
      countFalse (events v (srunFrom m ops).2) + (if (srunFrom m ops).1 v then 1 else 0) :=
  ⟨(run_facts v ops m).1, (run_facts v ops m).2.2⟩

/-- a `Has(v)` issued after the calls `pre` reports the membership told by the successful events so far:
false before the first successful Add, true from a successful Add until the next successful Remove -/
theorem has_between (pre : List (SOp α)) (v : α) :
    (sstep (srun pre).1 (.has v)).2 = replay false (events v (srun pre).2) := by
  obtain ⟨_, h2, _⟩ := run_facts v pre sempty
  show (srun pre).1 v = _
  rw [show srun pre = srunFrom sempty pre from rfl, ← h2]; rfl

/-- `Set.Add(v)` is exactly one `LoadOrStore(v, struct{}{})` returning `!loaded`, `Set.Remove(v)` one
`LoadAndDelete(v)` returning `loaded`, `Set.Has(v)` one `Load(v)` returning `ok` -/
theorem atomic_seq (m : State α Unit) (v : α) :
    add (.syncSet m) v = (.syncSet (loadOrStore m v ()).1, !(loadOrStore m v ()).2.2) ∧
    remove (.syncSet m) v = (.syncSet (loadAndDelete m v).1, (loadAndDelete m v).2.isSome) ∧
    has (.syncSet m) v = (.syncSet (load m v).1, (load m v).2.isSome) :=
  ⟨rfl, rfl, rfl⟩

/-- hence every sequential run of Add/Remove/Has on a `sync2.Set` (from the zero set, through every
promotion and re-creation of the dirty map) is a history of the specification -/
theorem seq_history (ops : List (SOp α)) :
    (mrunFrom (.syncSet State.init) ops).2 = (srun ops).2 := by
  have h := (mrunFrom_sim ops (.syncSet (State.init : State α Unit)) Lemmas.SyncMap.SeqInv.init_ok).2.2
  have hm : Lemmas.Sets.mem (.syncSet (State.init : State α Unit)) = sempty := by
    funext x
    show (Lemmas.SyncMap.abs (State.init : State α Unit) x).isSome = false
    rw [Lemmas.SyncMap.abs_init]; rfl
  rw [hm] at h
  exact h

/-! Non-vacuity -/
example : (srun ([.add 1, .add 1, .has 1, .remove 1, .remove 1, .add 1] : List (SOp Int))).2.map Prod.snd =
    [true, false, true, true, false, true] := by decide
example : events 1 (srun ([.add 1, .add 2, .add 1, .remove 1, .remove 2, .add 1] : List (SOp Int))).2 =
    [true, false, true] := by decide
example : (mrunFrom (.syncSet State.init) ([.add 1, .add 2, .has 1, .has 1, .remove 1, .add 3, .add 1] : List (SOp Int))).2.map Prod.snd =
    [true, true, true, true, true, true, true] := by decide

end C05
