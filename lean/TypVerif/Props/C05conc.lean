import TypVerif.Lemmas.SetConc
import TypVerif.Props.C04conc
import TypVerif.Props.C05
/-
C05, concurrent half: `sync2.Set` is an atomic set under every schedule — a corollary of C04's concurrent theorem.

`Set[T]` wraps `Map[T, struct{}]` (`sync2/set.go`): `Add(v) = !loaded of m.LoadOrStore(v, struct{}{})`,
`Remove(v) = loaded of m.LoadAndDelete(v)`, `Has(v) = ok of m.Load(v)` (`C05.atomic_seq`).  A concurrent execution of
Add/Remove/Has on a Set therefore IS an execution of the step-level map model `Model.SyncMapConc` with `V := Unit`,
`zst := true` and a menu of `.loadOrStore v ()`, `.loadAndDelete v`, `.load v` operations; the Set-level history
(`Lemmas.SetConc.setHist`) renames the invocations and replaces every response by the Bool the Set method computes from it.
The set specification is `Lemmas.SetConc.setSpec` (`Spec.AtomicSet.sstep` as an `AtomicObj.Spec`).
-/
namespace C05
open TypVerif TypVerif.Conc TypVerif.Model TypVerif.Model.AtomicObj
open TypVerif.Model.SyncMapConc (Op Res sys)
open TypVerif.Spec.AtomicSet
open TypVerif.Lemmas.Smc (mapSpec applyOp evOf)
open TypVerif.Lemmas.SetConc

set_option linter.unusedSectionVars false

variable {α : Type} [DecidableEq α]

/-- **The homomorphism.**  Membership `φ m v = (m v).isSome` maps every step of the map specification on a set-shaped
operation (`LoadOrStore(v, {})`, `LoadAndDelete(v)`, `Load(v)`) to the step of the set specification on `Add(v)`,
`Remove(v)`, `Has(v)`, the set-level result being `!loaded`, `loaded`, `ok` of the map-level result. -/
theorem set_hom {m m' : α → Option Unit} {op : Op α Unit} {r : Res α Unit} {sop : SOp α}
    (h : (m', r) ∈ applyOp m op) (hs : toSetOp op = some sop) : sstep (φ m) sop = (φ m', toSetRes op r) :=
  sstep_hom h hs

/-- **Transfer.**  If a history of map calls is linearizable with respect to the ordinary map `α → Option Unit` and all
its invocations are set-shaped, then its translation to the Set level is linearizable with respect to the set
specification (the witness is the translated log: same positions of the linearization points). -/
theorem set_transfer {h : List (Event (Op α Unit) (Res α Unit))} (hl : Linearizable (mapSpec α Unit) h)
    (hs : ∀ t op, Event.inv t op ∈ h → (toSetOp op).isSome = true) :
    Linearizable (setSpec α) (setHist h) :=
  transfer hl hs

/-- **`sync2.Set` is linearizable for every schedule.**  For any number `n` of goroutines calling, in any order and any
number of times, operations from any finite menu of `Add`/`Remove`/`Has` calls (i.e. of the map calls `Set` makes for them;
value type `struct{}`, so `zst = true`): the Set-level invocation/response history of EVERY execution of the step-level
model of `sync2.Map` is linearizable with respect to the sequential set (one Bool per value; `Add` reports "was absent",
`Remove` and `Has` report "was present"). -/
theorem conc_linearizable (menu : List (Op α Unit)) (hmenu : ∀ op ∈ menu, (toSetOp op).isSome = true) (n : Nat)
    {s : SyncMapConc.State α Unit} {ls : List (Option (SyncMapConc.Event α Unit))}
    (he : Exec (sys α Unit menu n true) (SyncMapConc.init n true) ls s) :
    Linearizable (setSpec α) (setHist (ls.filterMap (·.bind evOf))) :=
  transfer (C04.conc_linearizable menu n true he) (fun t op hm => hmenu op (hist_inv_menu he t op hm))

/-- **Alternation for every schedule.**  Consequently every such execution has a linearization — a log `log` that
completes the Set-level history by one linearization point per call, each inside the call's interval and carrying the
call's result (`runThread`; hence consistent with real time: `Lemmas.AtomicObj.lin_in_interval`) — whose sequence of
`(call, result)` pairs, oldest first, is a sequential history `srun ops` of the set specification; in it, for each value
`v`, the successful Adds and Removes alternate starting with an Add, and `#okAdd = #okRemove + (1 if v is finally a
member else 0)`, so the difference is 0 or 1 and equals the final membership. -/
theorem conc_alternate (menu : List (Op α Unit)) (hmenu : ∀ op ∈ menu, (toSetOp op).isSome = true) (n : Nat)
    {s : SyncMapConc.State α Unit} {ls : List (Option (SyncMapConc.Event α Unit))}
    (he : Exec (sys α Unit menu n true) (SyncMapConc.init n true) ls s) :
    ∃ (log : List (Entry (SOp α) Bool)) (ops : List (SOp α)),
      histOf log = setHist (ls.filterMap (·.bind evOf)) ∧
      (∀ t, (runThread t log).isSome = true) ∧
      SeqRun (setSpec α) (linsOf log) (srun ops).1 ∧
      (srun ops).2 = (linsOf log).reverse ∧
      ∀ v, Alternates true (events v (linsOf log).reverse) ∧
        countTrue (events v (linsOf log).reverse) =
          countFalse (events v (linsOf log).reverse) + (if (srun ops).1 v then 1 else 0) := by
  obtain ⟨log, ops, h1, h2, h3, h4⟩ := linearization_srun (conc_linearizable menu hmenu n he)
  refine ⟨log, ops, h1, h2, h3, h4, ?_⟩
  intro v
  rw [← h4]
  exact alternate ops v

/-- **Two Adds of one value cannot both report success** unless a successful Remove of that value takes effect between
them: in the linearization of `conc_alternate` (any log/sequential history with the alternation property), between the
linearization points of two successful `Add v` lies the point of a successful `Remove v`.  (For two overlapping Adds and no
Remove at all, at most one reports `true`.) -/
theorem conc_add_add (v : α) (lins pre mid post : List (SOp α × Bool)) (halt : Alternates true (events v lins))
    (hsplit : lins = pre ++ (SOp.add v, true) :: (mid ++ (SOp.add v, true) :: post)) :
    (SOp.remove v, true) ∈ mid := by
  subst hsplit
  exact add_add_remove v true pre mid post halt

/-- **Two Adds of one value cannot both report success (history level).**  If no goroutine ever calls `Remove v` (the menu
has no `LoadAndDelete v`), then in EVERY execution at most one completed `Add v` call returns `true` — however the calls
overlap.  (`calls h`: the completed calls of the history `h`, each response paired with the goroutine's most recent
invocation.  Proof: every completed call has its own linearization point with the same operation and result
(`Lemmas.SetConc.calls_le_lins`), and by `conc_alternate` `#okAdd = #okRemove + (0 or 1) = 0 + (0 or 1)`.) -/
theorem conc_add_once (menu : List (Op α Unit)) (hmenu : ∀ op ∈ menu, (toSetOp op).isSome = true) (v : α)
    (hnorem : ∀ op ∈ menu, op ≠ .loadAndDelete v) (n : Nat)
    {s : SyncMapConc.State α Unit} {ls : List (Option (SyncMapConc.Event α Unit))}
    (he : Exec (sys α Unit menu n true) (SyncMapConc.init n true) ls s) :
    (calls (setHist (ls.filterMap (·.bind evOf)))).countP (fun c => decide (c.2 = (SOp.add v, true))) ≤ 1 := by
  obtain ⟨log, ops, h1, h2, _, _, h5⟩ := conc_alternate menu hmenu n he
  rw [← h1, calls_histOf]
  apply add_once_log log h2 v
  · intro t hm
    have hm' := inv_mem_histOf log t _ hm
    rw [h1] at hm'
    obtain ⟨op, ho1, ho2⟩ := inv_mem_setHist t _ _ hm'
    exact hnorem op (hist_inv_menu he t op ho1) (toSetOp_remove ho2)
  · have := (h5 v).2
    split at this <;> omega

/-- **Every completed call has its own linearization point** carrying the same goroutine, operation and result: in a
well-formed log, for every predicate, no more completed calls than linearization entries satisfy it (generic in the
specification; with `lin_in_interval` this is what makes the sequential history of the points speak about the results
the callers actually saw). -/
theorem calls_have_points {O R : Type} [DecidableEq O] [DecidableEq R] (log : List (Entry O R))
    (hthr : ∀ t, (runThread t log).isSome = true) (Q : Nat × O × R → Bool) :
    (calls (histOf log)).countP Q ≤ (linsT log).countP Q := by
  rw [calls_histOf]
  exact calls_le_lins log hthr Q

/-- a legal sequential history of `setSpec` (as used by `Linearizable`) is exactly a history of `Spec.AtomicSet.srun` -/
theorem seq_is_srun (h : List (SOp α × Bool)) (σ : α → Bool) (hs : SeqRun (setSpec α) h σ) :
    srun (h.reverse.map Prod.fst) = (σ, h.reverse) :=
  seqRun_srun h σ hs

/-! Non-vacuity -/

/-- the menu of a Set on two values -/
def menu2 : List (Op Int Unit) :=
  [.loadOrStore 1 (), .loadAndDelete 1, .load 1, .loadOrStore 2 (), .loadAndDelete 2, .load 2]

example : ∀ op ∈ menu2, (toSetOp op).isSome = true := by decide

/-- the translation of a history with two overlapping Adds, a Has and a Remove -/
example : setHist ([.inv 0 (.loadOrStore 1 ()), .inv 1 (.loadOrStore 1 ()), .res 1 (.pair () false), .res 0 (.pair () true),
      .inv 1 (.load 1), .res 1 (.val (some ())), .inv 0 (.loadAndDelete 1), .res 0 (.val (some ())),
      .inv 0 (.loadAndDelete 1), .res 0 (.val none)] : List (Event (Op Int Unit) (Res Int Unit))) =
    [.inv 0 (.add 1), .inv 1 (.add 1), .res 1 true, .res 0 false, .inv 1 (.has 1), .res 1 true,
      .inv 0 (.remove 1), .res 0 true, .inv 0 (.remove 1), .res 0 false] := by decide

/-- the system runs: two goroutines invoke `Add 1` concurrently -/
example : ∃ ls s, Exec (sys Int Unit menu2 2 true) (SyncMapConc.init 2 true) ls s ∧
    setHist (ls.filterMap (·.bind evOf)) = [.inv 0 (.add 1), .inv 1 (.add 1)] := by
  refine ⟨[some (.inv 0 (.loadOrStore 1 ())), some (.inv 1 (.loadOrStore 1 ()))], _,
    Exec.cons (s' := SyncMapConc.setPc (SyncMapConc.init 2 true) 0 { zst := true } (.start (.loadOrStore 1 ()))) ?h1
      (Exec.cons (s' := SyncMapConc.setPc (SyncMapConc.setPc (SyncMapConc.init 2 true) 0 { zst := true }
        (.start (.loadOrStore 1 ()))) 1 { zst := true } (.start (.loadOrStore 1 ()))) ?h2 (Exec.nil _)), ?_⟩
  case h1 => decide
  case h2 => decide
  decide

/-- the completed calls of a Set-level history (newest first) -/
example : calls ([.inv 0 (.add 1), .inv 1 (.add 1), .res 1 true, .res 0 false, .inv 1 (.has 1)] :
    List (Event (SOp Int) Bool)) = [(0, .add 1, false), (1, .add 1, true)] := by decide

/-- a menu without `Remove 1` -/
example : ∀ op ∈ ([.loadOrStore 1 (), .load 1, .loadAndDelete 2] : List (Op Int Unit)),
    (toSetOp op).isSome = true ∧ op ≠ .loadAndDelete 1 := by decide

/-- the set specification distinguishes results: a lone `Add 1` reporting `false` is not a sequential history -/
example : ¬ ∃ σ, SeqRun (setSpec Int) [(.add 1, false)] σ := by
  rintro ⟨σ, h⟩
  have := seq_is_srun _ σ h
  have h2 : ([(SOp.add 1, true)] : List (SOp Int × Bool)) = [(SOp.add 1, false)] := congrArg Prod.snd this
  exact absurd h2 (by decide)

/-- the homomorphism on a concrete step -/
example : sstep (φ (fun _ : Int => none)) (.add 1) = (φ (TypVerif.Lemmas.Smc.put (fun _ => none) 1 ()), true) :=
  set_hom (op := .loadOrStore 1 ()) (List.mem_singleton.mpr rfl) rfl

end C05

section AxiomCheck
#print axioms C05.set_hom
#print axioms C05.set_transfer
#print axioms C05.conc_linearizable
#print axioms C05.conc_alternate
#print axioms C05.conc_add_add
#print axioms C05.conc_add_once
#print axioms C05.calls_have_points
#print axioms C05.seq_is_srun
end AxiomCheck
