import TypVerif.Props.C04conc
import TypVerif.Lemmas.SyncMapTrace
/-
C04, the tie between recorded step traces and the theorems: acceptance of a step trace by the judge "C04conc"
(map mode) is the pure function `Model.SyncMapTrace.replay` / `replayPad` (`Drv/C04conc.lean` calls `applyLinePad` on
every line of a `cmap` scenario), and

  accepted  ⇒  the trace is, line for line, an execution of the step-level model `SyncMapConc.sys`   (`trace_accept_sound`)
            ⇒  its invocation/response history is linearizable w.r.t. the ordinary map               (`accepted_trace_linearizable`)

What this covers: the lines of the trace — every `inv`, every atomic step with its hook label, every `range` choice,
every `res` with its result — as the harness wrote them.  What it does NOT cover: that the lines are a faithful record
of what the real code did.  That rests on the hooks: `verifYield/verifMuLock/verifIter` must sit exactly where the
model's step boundaries are and the instrumented file must be `map.go` plus hooks only (checked statically by
`C04.gen_*`, `Gen/`), the controlled scheduler must run one goroutine at a time between hooks, and the harness must
print what it observed.  Native (uninstrumented, truly parallel) runs produce no step trace and are not covered by
these theorems; they are judged on their API-level events only (judge "ObjLin").  Parsing of the text lines into
`Line Int Int` and the set-mode (`cset`) composites stay unverified driver glue.
-/
namespace C04
open TypVerif TypVerif.Conc TypVerif.Model TypVerif.Model.SyncMapConc TypVerif.Model.SyncMapTrace TypVerif.Model.RelObj
open TypVerif.Lemmas.Smc (evOf mapSpec)

set_option linter.unusedSectionVars false

variable {K V : Type} [DecidableEq K] [DecidableEq V] [Inhabited V]

/-- **An accepted step trace is an execution of the model.**  If the pure replay accepts the trace `ls` from the
initial state with `n` goroutines (every `inv` found its goroutine idle, every `step` found it parked at the same
hook label with the step enabled, every `iter` chose a remaining key, every `res` carried exactly the result the
model goroutine was about to return), then the model `sys K V menu n zst` — for any menu containing the operations
invoked in the trace — has an execution from `init n zst` to the final replay state whose visible events are exactly
the `inv`/`res` lines of the trace, in order.  (The execution has one model step per trace line.)
Covers: the recorded lines.  Does not cover: faithfulness of the recording (hooks: `C04.gen_*`), native runs. -/
theorem trace_accept_sound (menu : List (Op K V)) (n : Nat) (zst : Bool) {s : State K V} {ls : List (Line K V)}
    (hmenu : ∀ t op, Line.inv t op ∈ ls → op ∈ menu)
    (h : replay (SyncMapConc.init n zst) ls = some s) :
    ∃ evs, Exec (sys K V menu n zst) (SyncMapConc.init n zst) evs s ∧ visible evs = eventsOf ls :=
  Lemmas.SyncMapTrace.replay_sound menu n zst hmenu h

/-- the same with the canonical menu: the operations invoked in the trace -/
theorem trace_accept_sound_invoked (n : Nat) (zst : Bool) {s : State K V} {ls : List (Line K V)}
    (h : replay (SyncMapConc.init n zst) ls = some s) :
    ∃ evs, Exec (sys K V (invoked ls) n zst) (SyncMapConc.init n zst) evs s ∧ visible evs = eventsOf ls :=
  trace_accept_sound (invoked ls) n zst (fun _ _ hm => Lemmas.SyncMapTrace.mem_invoked hm) h

/-- **An accepted step trace has a linearizable history.**  If the pure replay accepts the trace `ls`, the
invocation/response history of the trace (its `inv`/`res` lines; `Range` calls excluded by `evOf`, as in
`C04.conc_linearizable`) is linearizable with respect to the ordinary map — by `trace_accept_sound` and
`C04.conc_linearizable`.  The history is the one WRITTEN IN THE TRACE (results as printed by the harness), not one
recomputed by the model.
Covers: any trace the judge accepts in map mode.  Does not cover: whether the trace faithfully records the real
execution (the hooks must be faithful: `C04.gen_*`); native runs (no step trace exists for them). -/
theorem accepted_trace_linearizable (n : Nat) (zst : Bool) {s : State K V} {ls : List (Line K V)}
    (h : replay (SyncMapConc.init n zst) ls = some s) :
    AtomicObj.Linearizable (mapSpec K V) ((eventsOf ls).filterMap evOf) := by
  obtain ⟨evs, hex, hvis⟩ := trace_accept_sound_invoked n zst h
  have hl := conc_linearizable (invoked ls) n zst hex
  have e := Lemmas.SyncMapTrace.filterMap_visible (evOf (K := K) (V := V)) evs
  rw [hvis] at e
  exact Eq.mpr (congrArg (AtomicObj.Linearizable (mapSpec K V)) e) hl

/-- **What the judge computes.**  The judge starts a `cmap` scenario in `init 0` and appends idle goroutines when an
`inv` line mentions a goroutine id it has not seen (`replayPad`); this is the replay from `init n` with `n` the final
number of goroutines, so the two theorems above apply to every scenario the judge accepts. -/
theorem judge_accept_sound (zst : Bool) {s : State K V} {ls : List (Line K V)}
    (h : replayPad (SyncMapConc.init 0 zst) ls = some s) :
    replay (SyncMapConc.init s.pcs.length zst) ls = some s ∧
    (∃ evs, Exec (sys K V (invoked ls) s.pcs.length zst) (SyncMapConc.init s.pcs.length zst) evs s ∧
      visible evs = eventsOf ls) ∧
    AtomicObj.Linearizable (mapSpec K V) ((eventsOf ls).filterMap evOf) :=
  have h' := Lemmas.SyncMapTrace.replayPad_init h
  ⟨h', trace_accept_sound_invoked _ zst h', accepted_trace_linearizable _ zst h'⟩

/-! Non-vacuity: a recorded trace (first scenario of the exhaustive run: `t0: store 1 5 | t1: load 1`) is accepted, by
both replays; the same trace with a wrong result, a wrong label, or a busy goroutine invoked again is rejected. -/

private def demo : List (Line Int Int) :=
  [.inv 0 (.store 1 5), .step 0 "op:store", .step 0 "Store.readLoad1", .step 0 "lock", .step 0 "Store.readLoad2",
   .step 0 "dirtyLocked.readLoad1", .step 0 "Store.readStore1", .res 0 .done,
   .inv 1 (.load 1), .step 1 "op:load", .step 1 "Load.readLoad1", .step 1 "lock", .step 1 "Load.readLoad2",
   .step 1 "missLocked.readStore1", .step 1 "load.loadPtr1", .res 1 (.val (some 5))]

example : (replay (SyncMapConc.init 2 false) demo).isSome = true := by decide
example : (replayPad (SyncMapConc.init 0 false) demo).isSome = true := by decide
example : eventsOf demo = [.inv 0 (.store 1 5), .res 0 .done, .inv 1 (.load 1), .res 1 (.val (some 5))] := by decide

/-- an interleaved one: the Load runs between the Store's `dirtyLocked` and its `read.Store`, and misses -/
example : (replay (SyncMapConc.init 2 false)
    ([.inv 0 (.store 1 5), .step 0 "op:store", .step 0 "Store.readLoad1", .step 0 "lock", .step 0 "Store.readLoad2",
      .step 0 "dirtyLocked.readLoad1", .inv 1 (.load 1), .step 1 "op:load", .step 1 "Load.readLoad1",
      .res 1 (.val none), .step 0 "Store.readStore1", .res 0 .done] : List (Line Int Int))).isSome = true := by decide

/-- wrong result -/
example : (replay (SyncMapConc.init 2 false) (demo.dropLast ++ [.res 1 (.val (some 6))])).isNone = true := by decide
/-- wrong label -/
example : (replay (SyncMapConc.init 2 false)
    ([.inv 0 (.store 1 5), .step 0 "op:store", .step 0 "lock"] : List (Line Int Int))).isNone = true := by decide
/-- goroutine not idle; goroutine id out of range -/
example : (replay (SyncMapConc.init 2 false)
    ([.inv 0 (.store 1 5), .inv 0 (.load 1)] : List (Line Int Int))).isNone = true := by decide
example : (replay (SyncMapConc.init 2 false) ([.inv 2 (.load 1)] : List (Line Int Int))).isNone = true := by decide
/-- the mutex is held: `lock` is not enabled -/
example : (replay (SyncMapConc.init 2 false)
    ([.inv 0 (.store 1 5), .step 0 "op:store", .step 0 "Store.readLoad1", .step 0 "lock",
      .inv 1 (.store 2 6), .step 1 "op:store", .step 1 "Store.readLoad1", .step 1 "lock"] :
      List (Line Int Int))).isNone = true := by decide

end C04
