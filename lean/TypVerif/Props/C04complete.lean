import TypVerif.Lemmas.ObjCompleteLin
import TypVerif.Props.C04accept
/-
C04 — THE API-LEVEL MAP JUDGE DECIDES LINEARIZABILITY EXACTLY on histories of single operations (completeness of the
acceptance of `Drv/ObjLin.lean`, map mode `cmap`; the soundness half is `Props/C04accept.lean`).

The fold: `runLines (step j0 [cmap] impl0).1 lines` — the real `Drv.ObjLin.step` after the header line, over lines all covered
by `MapLine` (event lines `inv t load|store|loadorstore|loadanddelete|delete …`, `res t done`, `res t v <bool>`; skipped lines
`inv t range`, `res t [[k,v],…]`, `step _ _`, `iter _ _`); `tr` = the history (event lines in order).
Bounded concurrency: `InvBelow 24 lines` — every invocation line (including `inv t range`, which raises the judge's number of
goroutines as well) is by a goroutine `< 24` = the closure fuel: between two visible events the atomic-object system makes at
most one internal (linearization) step per pending goroutine, so `Conc.tauClosure` with fuel 24 loses nothing
(`C18.fold_stepObj_complete`, `Lemmas/ObjCompleteFull.lean`).

  `objlin_map_decides`           the state set `ms` is non-empty  ↔  `tr` is linearizable w.r.t. `MapObj.mapSpec`
  `objlin_accept_complete`       linearizable ⇒ the verdict is never `not-linearizable`
  `objlin_verdict`               `violated = none` ⇒ linearizable;  `violated = some "not-linearizable"` ⇒ not linearizable
(the flag `violated` is shared with the Range predicates `range-*`, so `violated = none` is not equivalent to linearizability
of the single-operation history).
-/
namespace C04
open TypVerif TypVerif.Conc TypVerif.Model TypVerif.Proto TypVerif.Drv.ObjLin
open TypVerif.Lemmas.ObjAcceptLin (MEvent MapLine Lines runLines)
open TypVerif.Lemmas.ObjCompleteLin (InvBelow)

/-- the map-mode state set is exactly right: every state in it is accounted for by an execution with visible trace `tr`
(soundness), and the judge's state of every execution with visible trace `tr` — of any `AtomicObj.sys mapSpec menu N` — is in
it (completeness) -/
theorem objlin_map_tracks (j0 : JSt) (impl0 : String) (lines : List (List Val × String)) (tr : List MEvent)
    (hl : Lines MapLine lines tr) (hib : InvBelow 24 lines) :
    Lemmas.ObjCompleteLin.Track MapObj.mapSpec 24 tr (runLines (step j0 [.w "cmap"] impl0).1 lines).st.n
      (runLines (step j0 [.w "cmap"] impl0).1 lines).st.ms :=
  (Lemmas.ObjCompleteLin.map_track j0 impl0 lines tr hl hib).2.1

/-- **the map judge decides linearizability** of histories of single operations with goroutine ids `< 24` -/
theorem objlin_map_decides (j0 : JSt) (impl0 : String) (lines : List (List Val × String)) (tr : List MEvent)
    (hl : Lines MapLine lines tr) (hib : InvBelow 24 lines) :
    (runLines (step j0 [.w "cmap"] impl0).1 lines).st.ms ≠ [] ↔ AtomicObj.Linearizable MapObj.mapSpec tr :=
  Lemmas.ObjCompleteLin.track_iff MapObj.mapSpec (objlin_map_tracks j0 impl0 lines tr hl hib)

/-- **acceptance is complete**: a linearizable history is never flagged `not-linearizable` -/
theorem objlin_accept_complete (j0 : JSt) (impl0 : String) (lines : List (List Val × String)) (tr : List MEvent)
    (hl : Lines MapLine lines tr) (hib : InvBelow 24 lines) (hlin : AtomicObj.Linearizable MapObj.mapSpec tr) :
    (runLines (step j0 [.w "cmap"] impl0).1 lines).st.violated ≠ some "not-linearizable" := by
  intro hv
  have h := Lemmas.ObjCompleteLin.map_track j0 impl0 lines tr hl hib
  exact (objlin_map_decides j0 impl0 lines tr hl hib).2 hlin (h.2.2.1 hv)

/-- both verdicts about linearizability are correct -/
theorem objlin_verdict (j0 : JSt) (impl0 : String) (lines : List (List Val × String)) (tr : List MEvent)
    (hl : Lines MapLine lines tr) (hib : InvBelow 24 lines) :
    ((runLines (step j0 [.w "cmap"] impl0).1 lines).st.violated = none → AtomicObj.Linearizable MapObj.mapSpec tr) ∧
    ((runLines (step j0 [.w "cmap"] impl0).1 lines).st.violated = some "not-linearizable" →
      ¬ AtomicObj.Linearizable MapObj.mapSpec tr) :=
  ⟨fun hv => objlin_accepted_history_linearizable j0 impl0 lines tr hl hv,
   fun hv hlin => objlin_accept_complete j0 impl0 lines tr hl hib hlin hv⟩

end C04

#print axioms C04.objlin_map_tracks
#print axioms C04.objlin_map_decides
#print axioms C04.objlin_accept_complete
#print axioms C04.objlin_verdict
