import TypVerif.Lemmas.SyncMapRange
/-
C04, sequential half: every single-goroutine call sequence on `sync2.Map` (model `Model/SyncMap.lean`)
keeps the structural invariant `SeqInv` (S1–S7) of the read-map / dirty-map / expunged state machine and
returns exactly what the ordinary map `K → Option V` (`Spec/PMap.lean`) returns.
-/
namespace C04
open TypVerif
open TypVerif.Model.SyncMap
open TypVerif.Lemmas.SyncMap
open TypVerif.Spec.PMap (Op Out)

set_option linter.unusedSectionVars false

variable {K V : Type} [DecidableEq K] [Inhabited V]

/-- every call sequence (Load, Store, LoadOrStore, LoadAndDelete, Delete, Range in any order with any
stop count) leaves the map in a state satisfying `SeqInv`; in particular the nil-map write never happens -/
theorem seq_inv (ops : List (Op K V)) : SeqInv (run ops).1 :=
  (runFrom_ok ops State.init SeqInv.init_ok).1

/-- one-step simulation: from any state satisfying `SeqInv`, a call acts on the abstraction as the
ordinary map does, and returns the same result -/
theorem seq_step (s : State K V) (h : SeqInv s) (op : Op K V) :
    SeqInv (step s op).1 ∧ abs (step s op).1 = (Spec.PMap.apply (abs s) op).1 ∧
    (step s op).2 = (Spec.PMap.apply (abs s) op).2 :=
  step_ok h op

example : SeqInv (State.init : State Int Int) := SeqInv.init_ok

/-- the outputs of every call sequence equal those of the ordinary map -/
theorem seq_refines (ops : List (Op K V)) : (run ops).2 = (Spec.PMap.run ops).2 := by
  have := (runFrom_ok ops State.init SeqInv.init_ok).2.2
  rw [abs_init] at this
  exact this

/-- and the final abstraction is the final ordinary map -/
theorem seq_abs (ops : List (Op K V)) : abs (run ops).1 = (Spec.PMap.run ops).1 := by
  have := (runFrom_ok ops State.init SeqInv.init_ok).2.1
  rw [abs_init] at this
  exact this

/-- Range, for any visiting order of `read.m` and any stop count `n` (the callback answers false on its
n-th call; n ≤ 0: never): the state keeps `SeqInv`, the abstraction is unchanged, the callback keys are
distinct, every callback pair is a current mapping, with n ≤ 0 every present key is called back, and
the number of callbacks is `min(n, size)` (`size` when n ≤ 0) for every duplicate-free enumeration `keys`
of the present keys. -/
theorem range_seq (s : State K V) (h : SeqInv s) (order : List K) (n : Int)
    (hperm : order.Perm (akeys (rangePromote s).read)) :
    SeqInv (rangeOrd s order n).1 ∧ (∀ k, abs (rangeOrd s order n).1 k = abs s k) ∧
    ((rangeOrd s order n).2.map Prod.fst).Nodup ∧
    (∀ k v, (k, v) ∈ (rangeOrd s order n).2 → abs s k = some v) ∧
    (n ≤ 0 → ∀ k v, abs s k = some v → (k, v) ∈ (rangeOrd s order n).2) ∧
    (∀ keys : List K, keys.Nodup → (∀ k, k ∈ keys ↔ abs s k ≠ none) →
      (rangeOrd s order n).2.length = if n ≤ 0 then keys.length else min n.toNat keys.length) :=
  Lemmas.SyncMap.range_seq h order n hperm

/-- the callback sequence is the prefix, cut after the n-th, of the present keys of `order` -/
theorem range_prefix (s : State K V) (h : SeqInv s) (order : List K) (n : Int) :
    (rangeOrd s order n).2 = Spec.PMap.cut n (Spec.PMap.visit (abs s) order) :=
  (rangeOrd_ok h order n).2.2

/-! Non-vacuity: a history that goes through promotion, re-creation of the dirty map with an expunged
entry, and un-expunging; a Range in a non-list order with a stop count. -/

def demoOps : List (Op Int Int) :=
  [.store 1 10, .store 2 20, .load 1, .load 1, .loadAndDelete 1, .store 3 30, .load 1, .store 1 11,
   .loadOrStore 1 5, .loadOrStore 4 5, .delete 2, .load 2]

example : (run demoOps).2 =
    [.unit, .unit, .val (some 10), .val (some 10), .val (some 10), .unit, .val none, .unit,
     .pair 11 true, .pair 5 false, .unit, .val none] := by decide

example : layout (run (demoOps.take 6)).1 = [2, 1, 2, 0, 1, 0] := by decide   -- one expunged entry
example : layout (run (demoOps.take 8)).1 = [2, 1, 3, 0, 0, 0] := by decide   -- un-expunged

example :
    let s := (run ([.store 1 10, .store 2 20, .store 3 30, .range [] 0, .delete 2] : List (Op Int Int))).1
    SeqInv s ∧ [3, 2, 1].Perm (akeys (rangePromote s).read) ∧
    (rangeOrd s [3, 2, 1] 0).2 = [(3, 30), (1, 10)] ∧ (rangeOrd s [3, 2, 1] 1).2 = [(3, 30)] :=
  ⟨seq_inv _, by decide, by decide, by decide⟩

end C04
