import TypVerif.Lemmas.PubSubExec
import TypVerif.Lemmas.PubSubSafeStep
import TypVerif.Lemmas.PubSubLocal
/-
C10 — PubSub.  Model: `TypVerif/Model/PubSub.lean` (`sys cfg`, all schedules = `Conc.Reachable`).
`cfg.env` is the finite menu of invocation events the environment may issue; every theorem quantifies over `cfg`,
hence over all menus: any number of publishers, subscribers, buffer sizes, event values, any timeout setting.
-/
namespace C10
open TypVerif TypVerif.Model.PubSub TypVerif.Lemmas.PubSubExec TypVerif.Lemmas.PubSubSafe TypVerif.Lemmas.PubSubLocal

/-
FULL STATEMENT (false, of model and code alike):
  theorem no_panic (cfg : Cfg) : ∀ s, Conc.Reachable (sys cfg) s → s.panicked = none
A `WithOnly` clone is a second PubSub value with its OWN mutex that shares the channel: the root's write lock does
not exclude a publisher that goes through the clone, and the clone's `subs` still lists the channel after the root
closed it.  `clone_after_unsub_panics` exhibits the history
  sub c; w := root.WithOnly(c); root.Unsub(c) = nil; w.PubSync([7])  ⟶  panic: send on closed channel
by explicit execution of the model (all calls sequential, each returned before the next is invoked).
-/
def cloneCfg : Cfg :=
  { env := [.sub 0 1, .withonly 1 0 0, .unsubinv 0 0 0, .pubinv 0 1 .pubSync [7]] }

def clonePath : List Nat := [0, 2, 2, 2, 0, 1, 0, 2, 2, 2, 1, 1, 1]

theorem clone_after_unsub_panics :
    ∃ (ls : List (Option Event)) (s : State),
      Conc.Exec (sys cloneCfg) (sys cloneCfg).init ls s ∧
      Conc.visible ls = [.sub 0 1, .subret 0, .withonly 1 0 0, .unsubinv 0 0 0, .unsubret 0 .nil,
                         .pubinv 0 1 .pubSync [7]] ∧
      Conc.Reachable (sys cloneCfg) s ∧
      s.panicked = some "send-on-closed" := by
  have h : ∃ s, runPath cloneCfg {} clonePath = some s ∧ s.panicked = some "send-on-closed" ∧
      Conc.visible (labelsPath cloneCfg {} clonePath) =
        [.sub 0 1, .subret 0, .withonly 1 0 0, .unsubinv 0 0 0, .unsubret 0 .nil, .pubinv 0 1 .pubSync [7]] := by
    decide
  obtain ⟨s, hrun, hp, hv⟩ := h
  exact ⟨_, s, runPath_exec cloneCfg clonePath {} s hrun, hv,
    runPath_reachable cloneCfg clonePath {} s Conc.Reachable.init hrun, hp⟩


/-- `CloneDiscipline` in its simplest form: the environment never calls `WithOnly` (`cfg.allowClone = false` disables
the `withonly` invocation; everything else — any number of publishers of all six variants, subscribers, buffer sizes,
Unsub/UnsubAll at any time, any timeout setting — is unrestricted). -/
def CloneDiscipline (cfg : Cfg) : Prop := cfg.allowClone = false

/-- No interleaving of publish, subscribe and unsubscribe calls on ONE PubSub value makes the process panic, and the
invariant behind it: a subscribed channel is open (a closed channel is in no `subs`), `subs` has no duplicates, every
live sender targets a subscribed channel, the reader count is the number of goroutines inside a read-locked region,
every WaitGroup counter is the number of its live senders and a positive counter has its `Pub*Wait` still waiting
(hence still holding the read lock); `close` happens only inside the writer's critical section, which runs only when
the reader count is zero, i.e. when no sender is alive. -/
theorem no_panic_partial (cfg : Cfg) (hd : CloneDiscipline cfg) :
    ∀ s, Conc.Reachable (sys cfg) s →
      s.panicked = none ∧
      (∀ c ∈ (s.obj 0).subs, isClosed s.chans c = false) ∧
      (∀ t ∈ s.tasks, ∀ c ∈ targets t, c ∈ (s.obj 0).subs ∧ isClosed s.chans c = false) := by
  intro s hr
  have hs := no_panic_noClone cfg hd s hr
  exact ⟨hs.nopanic, hs.opn, fun t ht c hc => ⟨hs.targ t ht c hc, hs.opn c (hs.targ t ht c hc)⟩⟩

/-- non-vacuity: under the discipline a subscriber is reached by a delivery, and an Unsub closes its channel -/
def nvCfg : Cfg :=
  { allowClone := false, env := [.sub 0 1, .pubinv 0 0 .pubSync [7], .allow 0 1, .unsubinv 0 0 0] }

def nvPath : List Nat := [0, 2, 2, 3, 0, 2, 2, 2, 0, 2, 2, 1, 2, 2, 2, 0, 2]

example : ∃ s, Conc.Reachable (sys nvCfg) s ∧ CloneDiscipline nvCfg ∧ s.delivered = [(0, 0, 0)] ∧
    isClosed s.chans 0 = true ∧ s.panicked = none := by
  have h : ∃ s, runPath nvCfg {} nvPath = some s ∧ s.delivered = [(0, 0, 0)] ∧ isClosed s.chans 0 = true ∧
      s.panicked = none ∧
      Conc.visible (labelsPath nvCfg {} nvPath) =
        [.sub 0 1, .subret 0, .pubinv 0 0 .pubSync [7], .pubret 0, .allow 0 1, .recv 0 7, .unsubinv 0 0 0,
         .unsubret 0 .nil, .allow 0 1, .closed 0] := by decide
  obtain ⟨s, hrun, hd, hc, hp, _⟩ := h
  exact ⟨s, runPath_reachable nvCfg nvPath {} s Conc.Reachable.init hrun, rfl, hd, hc, hp⟩


/-- Unsub(c) on the PubSub value `o` (its critical section, any state, with or without clones): it closes exactly the
channel it removes — no other channel changes its `closed` flag, no buffer / receiver changes, no other PubSub value
changes; a subscribed channel gives `nil`, is erased from `subs` and is closed; an unknown one gives
`ErrAlreadyUnsubscribed` and changes nothing.  (That nothing is delivered to a removed channel afterwards is the third
conjunct of `no_panic_partial`: every live sender targets a channel that is still in `subs`.) -/
theorem unsub_exact (cfg : Cfg) (s s' : State) (i u o : Nat) (c : Chan) (l : Option Event)
    (h : (l, s') ∈ stepTask cfg s i (.unsubWait u o c)) (hp : s'.panicked = none) (hs : s.panicked = none) :
    (∀ o', o' ≠ o → s'.obj o' = s.obj o') ∧
    (∀ c', c' ≠ c → isClosed s'.chans c' = isClosed s.chans c') ∧
    s'.chans.map untouched = s.chans.map untouched ∧
    ((c ∈ (s.obj o).subs ∧ s'.tasks = s.tasks.set i (.unsubRet u .nil) ∧
        (s'.obj o).subs = (s.obj o).subs.erase c ∧ (hasChan s.chans c = true → isClosed s'.chans c = true)) ∨
     (c ∉ (s.obj o).subs ∧ s'.tasks = s.tasks.set i (.unsubRet u .already) ∧
        (s'.obj o).subs = (s.obj o).subs ∧ s'.chans = s.chans)) :=
  unsub_step h hp hs

/-- a nil channel gives `ErrSubscriptionNotInitalized` without touching anything (not even the lock) -/
theorem unsub_exact_nil (cfg : Cfg) (s : State) (i u o : Nat) :
    stepTask cfg s i (.unsubStart u o none) = [(none, s.setTask i (.unsubRet u .notinit))] := rfl

/-- UnsubAll on `o`: removes everything from `o.subs`; only channels of `o.subs` change their `closed` flag; buffers,
receivers and the other PubSub values are untouched. -/
theorem unsub_exact_all (cfg : Cfg) (s s' : State) (i u o : Nat) (l : Option Event)
    (h : (l, s') ∈ stepTask cfg s i (.uaWait u o)) (hp : s'.panicked = none) :
    s'.tasks = s.tasks.set i (.uaRet u) ∧ (s'.obj o).subs = [] ∧ (∀ o', o' ≠ o → s'.obj o' = s.obj o') ∧
    s'.chans.map untouched = s.chans.map untouched ∧
    (∀ c', c' ∉ (s.obj o).subs → isClosed s'.chans c' = isClosed s.chans c') :=
  unsubAll_step h hp

def nvState : State := { objs := [{ subs := [0] }], chans := [{ id := 0, cap := 1 }], tasks := [.unsubWait 0 0 0] }

example : nvState.panicked = none ∧ 0 ∈ (nvState.obj 0).subs ∧
    ∃ p ∈ stepTask nvCfg nvState 0 (.unsubWait 0 0 0), p.2.panicked = none ∧ isClosed p.2.chans 0 = true := by
  decide

/-- WithOnly(c): the clone's `subs` contains only `c`, only if `c` is subscribed on the parent, and (parent without
duplicates — an invariant, see `Safe.nodup`) at most once; so a publish through the clone computes its (event,
subscriber) pairs from the one given subscription only. Nothing else changes. -/
theorem withOnly (cfg : Cfg) (s s' : State) (i w o : Nat) (c : Chan) (l : Option Event)
    (h : (l, s') ∈ stepTask cfg s i (.woStart w o c)) :
    (∀ x ∈ (s'.obj w).subs, x = c ∧ x ∈ (s.obj o).subs) ∧
    ((s.obj o).subs.Nodup → (s'.obj w).subs.length ≤ 1) ∧
    (∀ o', o' ≠ w → s'.obj o' = s.obj o') ∧ s'.chans = s.chans ∧
    (∀ p evs, ∀ it ∈ mkItems p evs (s'.obj w).subs, it.c = c) := by
  obtain ⟨h1, h2, h3, h4⟩ := withOnly_step h
  exact ⟨h1, h2, h3, h4, fun p evs it hit => (h1 _ (mkItems_c_mem hit)).1⟩


/-
FULL STATEMENT (not proved): `wait_complete` — when PubWait / PubSliceWait returns, each pair of `mkItems p evs subs`
occurs exactly once in `delivered ++ timedOut`.
PROVED PART: the return step of a Pub*Wait call is enabled only when its WaitGroup counter is 0, and (under
`CloneDiscipline`, where the counting invariant `Safe.wgc` is available) a zero counter means that NO sender goroutine
of that call is alive any more: every hand-off of the call has ended (each sender ends only through `stepSend`: a
completed send, a panic, or its timeout callback).  MISSING: the ghost-log bookkeeping (publisher ids are unique, so
the log entries of `p` are exactly those appended by the senders of `p`, one per sender).
-/
theorem wait_complete_partial (cfg : Cfg) (hd : CloneDiscipline cfg) (s s' : State) (hr : Conc.Reachable (sys cfg) s)
    (i p o w : Nat) (l : Option Event) (h : (l, s') ∈ stepTask cfg s i (.waitWg p o w)) :
    s.wgs.getD w 0 = 0 ∧ (∀ t ∈ s.tasks, isWgSend w t = false) ∧ s' = (s.runlock o).setTask i (.pubRet p) := by
  have hs := no_panic_noClone cfg hd s hr
  simp only [stepTask, stepWaitWg] at h
  split at h
  · rename_i hz
    have hz' : s.wgs.getD w 0 = 0 := by simpa using hz
    simp only [List.mem_singleton, Prod.mk.injEq] at h
    refine ⟨hz', ?_, h.2⟩
    have hc := hs.wgc w
    rw [hz'] at hc
    intro t ht
    have := (List.countP_eq_zero.mp hc.symm) t ht
    simpa using this
  · simp at h

/-
FULL STATEMENT (not proved): `sync_exactly_once_in_order` — when PubSync / PubSliceSync returns, each pair of
`mkItems p evs subs` (subs constant during the call: the read lock is held from the snapshot to the return) occurs
exactly once in `delivered ++ timedOut`, per channel in publication order, in `timedOut` only if the timeout is positive.
PROVED PART (any state, with or without clones): the loop works through `mkItems p evs subs` (event-major = publication
order) strictly head first; one iteration logs exactly its head item, exactly once, as delivered or — only with a
positive timeout — as timed out followed by exactly one `tmo` callback; the call returns (`pubRet`) exactly when no item
is left.  MISSING: the same ghost-log bookkeeping as above (no other task logs an entry with this publisher id).
-/
theorem sync_exactly_once_in_order_partial (cfg : Cfg) (s s' : State) (i p o : Nat) (it : Item) (rest : List Item)
    (cb : Bool) (l : Option Event) (h : (l, s') ∈ stepTask cfg s i (.syncLoop p o (it :: rest) cb)) :
    (cb = true ∧ l = some (.tmo it.ev) ∧ s' = syncAdvance i p o rest s) ∨
    (cb = false ∧ l = none ∧ ∃ s1, sendTo s it = .sent s1 ∧
        s1.delivered = s.delivered ++ [(it.pid, it.idx, it.c)] ∧ s1.timedOut = s.timedOut ∧
        s' = syncAdvance i p o rest s1) ∨
    (cb = false ∧ l = none ∧ cfg.timeout > 0 ∧
        s' = (s.logTimeout it).setTask i (.syncLoop p o (it :: rest) true)) ∨
    (cb = false ∧ sendTo s it = .panic ∧ s' = s.panic "send-on-closed") :=
  sync_step h

/-- … and the loop continues with exactly the remaining items, returning exactly when none is left -/
theorem sync_exactly_once_in_order_partial_next (i p o : Nat) (rest : List Item) (s : State) (hi : i < s.tasks.length) :
    (syncAdvance i p o rest s).tasks[i]? =
      some (match rest with | [] => Task.pubRet p | _ :: _ => Task.syncLoop p o rest false) :=
  syncAdvance_task i p o rest s hi

/-
NOT PROVED: `async_at_most_once` (Pub / PubSlice: each pair at most once, never after the channel's removal).  What the
model gives structurally: one `asyncStart` task per pair, which ends after at most one `stepSend`; under
`CloneDiscipline` it sends only while the channel is in `subs` (third conjunct of `no_panic_partial`).  The log-level
statement needs the bookkeeping invariant described above.
The "eventually" of Pub / PubSlice is a liveness property (fair scheduling, receivers that keep receiving); it is
NOT proved and not expressible in this safety framework.
-/

end C10

#print axioms C10.clone_after_unsub_panics
#print axioms C10.no_panic_partial
#print axioms C10.unsub_exact
#print axioms C10.unsub_exact_nil
#print axioms C10.unsub_exact_all
#print axioms C10.withOnly
#print axioms C10.wait_complete_partial
#print axioms C10.sync_exactly_once_in_order_partial
#print axioms C10.sync_exactly_once_in_order_partial_next
