import TypVerif.Gen.KeyedCalls
import TypVerif.Gen.MapHooks
/-
C09, tie 4B: the shape of every method of `sync2/keyedmutex.go` is REGENERATED from the source on every run: each locking
method is ONE `LoadOrStore` on the embedded map followed by ONE call on the mutex it returned; `ClearKey` is one `Delete`.
This is exactly the two-phase program of `Model/KeyedMutexConc.lean` (phase "map" = the step-level map program of
`Model/SyncMapConc.lean`, phase "mutex" = one atomic step of the sync.Mutex / sync.RWMutex contract), about which
`C09.conc_agree`, `conc_mutex`, `conc_independent` are proved.  A method that consulted the map twice, locked something other
than the stored mutex, or a new method falling outside the model, changes `Gen.KeyedCalls.methods` and breaks these `rfl`s.
-/
namespace C09

theorem gen_methods_are_the_models :
    Gen.KeyedCalls.methods =
      [("KeyedMutex.LockKey", ["km.m.LoadOrStore", "m.Lock"]),
       ("KeyedMutex.TryLockKey", ["km.m.LoadOrStore", "m.TryLock"]),
       ("KeyedMutex.UnlockKey", ["km.m.LoadOrStore", "m.Unlock"]),
       ("KeyedMutex.ClearKey", ["km.m.Delete"]),
       ("KeyedRWMutex.LockKey", ["km.m.LoadOrStore", "m.Lock"]),
       ("KeyedRWMutex.TryLockKey", ["km.m.LoadOrStore", "m.TryLock"]),
       ("KeyedRWMutex.UnlockKey", ["km.m.LoadOrStore", "m.Unlock"]),
       ("KeyedRWMutex.RLockKey", ["km.m.LoadOrStore", "m.RLock"]),
       ("KeyedRWMutex.TryRLockKey", ["km.m.LoadOrStore", "m.TryRLock"]),
       ("KeyedRWMutex.RUnlockKey", ["km.m.LoadOrStore", "m.RUnlock"]),
       ("KeyedRWMutex.ClearKey", ["km.m.Delete"])] := rfl

/-- the map underneath exposes every atomic action to the controlled scheduler -/
theorem gen_map_sites_hooked : Gen.MapHooks.unhooked = [] := rfl

end C09
