import TypVerif.Gen.SortShapes
/-
C15, tie 4B: the shape of every function of `slices/sort.go` is REGENERATED from the source on every run: each sorting helper is ONE call of
`sort.Sort` / `sort.Stable` (through `sort.Reverse` for the descending ones) on an adapter whose `Less` is `<` resp. the given `less`; `Shuffle*` is one
`rand.Shuffle` with a swap; `BinarySearch*` is one `sort.Search` with the predicate `slice[i] >= value` resp. `!less(slice[i])` — exactly the contracts
`Model/SortAdapters.lean` / `Model/GoSearch.lean` build on (`C15.refSort_contract`, `binarySearch_lower_bound`).  A fast path for short, presorted or
boundary inputs, a different library call, or a changed comparison changes this list and breaks the `rfl`.
-/
namespace C15

theorem gen_sort_helpers_are_one_library_call :
    Gen.SortShapes.funcs =
      [("sortOrdered.Len", ["return len(s)", "call len"]),
       ("sortOrdered.Swap", []),
       ("sortOrdered.Less", ["return s[i] < s[j]"]),
       ("sortLess.Len", ["return len(s.slice)", "call len"]),
       ("sortLess.Swap", []),
       ("sortLess.Less", ["return s.less(s.slice[i], s.slice[j])", "call s.less"]),
       ("Sort", ["call sort.Sort", "call sortOrdered[E]"]),
       ("SortFunc", ["call sort.Sort"]),
       ("SortDesc", ["call sort.Sort", "call sort.Reverse", "call sortOrdered[E]"]),
       ("SortDescFunc", ["call sort.Sort", "call sort.Reverse"]),
       ("SortStableFunc", ["call sort.Stable"]),
       ("SortStableDescFunc", ["call sort.Stable", "call sort.Reverse"]),
       ("Reverse", ["call len", "call len"]),
       ("Shuffle", ["call rand.Shuffle", "call len"]),
       ("ShuffleRand", ["call rand.Shuffle", "call len"]),
       ("BinarySearch", ["return sort.Search(len(slice), (func(i int) bool literal))", "call sort.Search", "call len", "return slice[i] >= value"]),
       ("BinarySearchFunc", ["return sort.Search(len(slice), (func(i int) bool literal))", "call sort.Search", "call len", "return !less(slice[i])", "call less"])] := rfl

end C15
