import TypVerif.Gen.SlicesShapes
import TypVerif.Gen.SortedShapes
/-
C07, tie 4B — GOLDEN FUNCTION SHAPES (written by tools/mkshapes.py; do not edit by hand).  For every function of the source files this property's model mirrors,
the extractor regenerates on every run: its calls, its stores through selectors / indices / pointers, its conditions and loop headers, its select cases and
its return expressions, in source order.  The theorems below state that these equal the shapes of the tree the model was written against.  They are the STATIC,
all-paths complement of the differential runs: a guard dropped, a fast path or a threshold added, an early return, a changed comparison or a different callee
on ANY path - also one that no generated input happens to take - changes the regenerated list and breaks the `rfl`.  A broken shape theorem is reported like a
broken proof (with a failing input when the search finds one, else `no-failing-input-found`); after a deliberate change of the source the changed functions are
re-read against the model and this file is regenerated.
-/
namespace C07

/-- slices/sorted.go: 11 function(s) -/
theorem gen_shapes_sorted :
    Gen.SortedShapes.funcs =
      [("NewSorted", ["call make", "call len", "call copy", "call sort.SliceStable", "return less(slice[i], slice[j])", "call less", "return Sorted[E]{…}"]),
       ("NewSortedOrdered", ["return NewSorted(values, typ.Less[T])", "call NewSorted"]),
       ("Sorted.String", ["return fmt.Sprint(s.slice)", "call fmt.Sprint"]),
       ("Sorted.Get", ["if index < 0 || index >= s.Len()", "call s.Len", "call panic", "call fmt.Sprintf", "call s.Len", "return s.slice[index]"]),
       ("Sorted.Len", ["if s == nil", "return 0", "return len(s.slice)", "call len"]),
       ("Sorted.Add", ["if s == nil", "call panic", "call s.search", "call Insert", "return index"]),
       ("Sorted.RemoveAt", ["if index < 0 || index >= s.Len()", "call s.Len", "call panic", "call fmt.Sprintf", "call s.Len", "call Remove"]),
       ("Sorted.Remove", ["call s.Index", "if index == -1", "return -1", "call Remove", "return index"]),
       ("Sorted.Contains", ["return s.Index(value) != -1", "call s.Index"]),
       ("Sorted.Index", ["call s.search", "if index < 0 || index >= s.Len() || s.slice[index] != value", "call s.Len", "return -1", "return index"]),
       ("Sorted.search", ["if s.less == nil", "call panic", "return sort.Search(len(s.slice), (func(i int) bool literal))", "call sort.Search", "call len", "return !s.less(s.slice[i], value)", "call s.less"])] := rfl

/-- slices/slices.go, Insert and Remove - DEPENDENCIES of Sorted.Add / Remove / RemoveAt: 2 function(s) -/
theorem gen_shapes_dep_insert_remove :
    Gen.SlicesShapes.funcs.filter (fun f => (["Insert", "Remove"]).contains f.1) =
      [("Insert", ["store *slice", "call append", "call copy", "store (*slice)[index]"]),
       ("Remove", ["call copy", "store *slice", "call len"])] := rfl

end C07
