import TypVerif.Props.C10
import TypVerif.Lemmas.PubSubLogSubs
/-
C10 — PubSub, the log-level delivery theorems: exactly once / in order (PubSync, PubSliceSync), complete
(PubWait, PubSliceWait), at most once (Pub, PubSlice), delivery xor timeout.  Model `sys cfg` of
`TypVerif/Model/PubSub.lean`, all schedules (`Conc.Reachable`, `Conc.Exec`), any menu `cfg.env`.

Vocabulary (definitions in `TypVerif/Lemmas/PubSubLog*.lean`, all functions of the model state, no model change):
* `Key = pid × idx × chan`, `key it = (it.pid, it.idx, it.c)`: the ghost-log entry of item `it`;
* `callKeys p evs subs = (mkItems p evs subs).map key`: the pairs of a call, in publication (event-major) order;
* `pend t`: the items task `t` still has to hand off (remaining items of a `syncLoop`, the item of a live sender whose
  timer has not fired); `pendKeys s`: their keys over all tasks of `s`;
* `CallRun cfg s0 s1 s2 i p o v evs`: `s0` reachable, task `i` of `s0` is `pubStart p o v evs`, `s0 → s1` is the step
  of that task (RLock + snapshot of `(s0.obj o).subs`), `s2` is reached from `s1` by an arbitrary execution.
  The snapshot of `subs` is NOT recorded in the model state; it is named here by naming the snapshot state `s0`.

PUBLISHER IDS.  No hypothesis about id reuse is needed: the MODEL enforces it — `envStep` refuses `pubinv p …` when
`p ∈ s.pids` and records `p` in `s.pids` — and `log_bookkeeping_ids` proves the consequence as an invariant of every
configuration (the used ids are tracked in the invariant).
-/
namespace C10
open TypVerif TypVerif.Model.PubSub TypVerif.Lemmas.PubSubExec TypVerif.Lemmas.PubSubSafe TypVerif.Lemmas.PubSubLog

/-! ### 1. bookkeeping invariant -/

/-- Bookkeeping (ids), every configuration, every reachable state: at most one call of publisher `p` is waiting for
its snapshot; none if `p` has not been used; and as long as `p` is unused or its call has not taken the snapshot,
nothing with publisher id `p` is pending in any task or logged in `delivered ++ timedOut`. -/
theorem log_bookkeeping_ids (cfg : Cfg) (s : State) (hr : Conc.Reachable (sys cfg) s) (p : Nat) :
    s.tasks.countP (isPubStart p) ≤ 1 ∧
    (p ∉ s.pids → s.tasks.countP (isPubStart p) = 0) ∧
    ((p ∉ s.pids ∨ s.tasks.countP (isPubStart p) = 1) →
      ∀ k : Key, k.1 = p → k ∉ pendKeys s ∧ k ∉ s.delivered ++ s.timedOut) := by
  have hf := fresh_reachable cfg s hr
  refine ⟨hf.le1 p, hf.unused p, fun h k hk => ?_⟩
  have hz := hf.zero p h k hk
  have h1 : (pendKeys s).count k = 0 := by have : cP k s = 0 := by omega
                                           exact this
  have h2 : (s.delivered ++ s.timedOut).count k = 0 := by have : cL k s = 0 := by omega
                                                          exact this
  exact ⟨List.count_eq_zero.mp h1, List.count_eq_zero.mp h2⟩

/-- Bookkeeping (one step), every configuration, every state: a step either leaves both logs alone, or it is the
hand-off of ONE pending item `it` of ONE task (a channel that task targets): exactly the entry `key it` is appended
to exactly one of `delivered` / `timedOut` (to `timedOut` only with a positive timeout), and the number of pending
items with that key drops by one.  So every log entry was appended by the hand-off of an item with that key. -/
theorem log_bookkeeping_step (cfg : Cfg) (s s' : State) (l : Option Event) (h : (l, s') ∈ (sys cfg).succ s) :
    (s'.delivered = s.delivered ∧ s'.timedOut = s.timedOut) ∨
    ∃ (i : Nat) (t : Task) (it : Item), s.tasks[i]? = some t ∧ it ∈ pend t ∧ it.c ∈ targets t ∧
      (pendKeys s').count (key it) + 1 = (pendKeys s).count (key it) ∧
      ((s'.delivered = s.delivered ++ [key it] ∧ s'.timedOut = s.timedOut) ∨
       (s'.delivered = s.delivered ∧ s'.timedOut = s.timedOut ++ [key it] ∧ cfg.timeout > 0)) :=
  log_step h

/-- Bookkeeping (one call), every configuration, every schedule: from the snapshot on, for every key `k` of publisher
`p`, (pending items with key `k`) + (log entries `k`) never exceeds the multiplicity of `k` among the pairs of the
call — and EQUALS it for the PubSync / PubWait variants (for Pub / PubSlice an item whose channel was unsubscribed
before its goroutine got the read lock is dropped, which is the only way the sum decreases).  Hence each item of
the call is in exactly one place: still to be handed off, or logged once.  Every log entry with publisher id `p`
is a pair of the call.  Without clones the pairs of a call are pairwise distinct. -/
theorem log_bookkeeping_call (cfg : Cfg) (s0 s1 s2 : State) (i p o : Nat) (v : Variant) (evs : List Int)
    (h : CallRun cfg s0 s1 s2 i p o v evs) :
    (∀ k : Key, k.1 = p →
      (pendKeys s2).count k + (s2.delivered ++ s2.timedOut).count k ≤ (callKeys p evs (s0.obj o).subs).count k) ∧
    ((v.isSync = true ∨ v.isWait = true) → ∀ k : Key, k.1 = p →
      (pendKeys s2).count k + (s2.delivered ++ s2.timedOut).count k = (callKeys p evs (s0.obj o).subs).count k) ∧
    (∀ k ∈ s2.delivered ++ s2.timedOut, k.1 = p → k ∈ callKeys p evs (s0.obj o).subs) ∧
    (CloneDiscipline cfg → (callKeys p evs (s0.obj o).subs).Nodup) := by
  have hle := h.callLe
  refine ⟨hle.le, fun hv => (h.callEq hv).eq, fun k hk hp => ?_, fun hd => ?_⟩
  · have h1 := hle.le k hp
    have h2 : 0 < (s2.delivered ++ s2.timedOut).count k := List.count_pos_iff.mpr hk
    have h3 : cL k s2 = (s2.delivered ++ s2.timedOut).count k := rfl
    exact List.count_pos_iff.mp (by omega)
  · have hs := no_panic_noClone cfg hd s0 h.reach
    have ho : o = 0 := hs.obj0 _ (List.mem_of_getElem? h.at0)
    subst ho
    exact callKeys_nodup p evs _ hs.nodup

/-- the configuration of the examples below: one subscriber (buffer 1, its receiver never allowed to take a value),
timeout on; a PubSliceSync, a PubWait and a PubSlice call, and an Unsub -/
def lgCfg : Cfg :=
  { allowClone := false, timeout := 1,
    env := [.sub 0 1, .pubinv 0 0 .pubSliceSync [7, 8], .pubinv 1 0 .pubWait [9], .pubinv 2 0 .pubSlice [5, 6],
            .unsubinv 0 0 0] }

def stateAt (cfg : Cfg) (path : List Nat) : State := (runPath cfg {} path).getD {}

/-- non-vacuity of `CallRun` (PubSlice with two events; the first is delivered, then the channel is unsubscribed and
the second goroutine drops its item: it is neither pending nor logged — 0 ≤ 1) -/
example : ∃ s0 s1 s2, CallRun lgCfg s0 s1 s2 1 2 0 .pubSlice [5, 6] ∧
    callKeys 2 [5, 6] (s0.obj 0).subs = [(2, 0, 0), (2, 1, 0)] ∧ s2.delivered = [(2, 0, 0)] ∧ s2.timedOut = [] ∧
    pendKeys s2 = [] :=
  ⟨stateAt lgCfg [0, 4, 4, 4, 2], stateAt lgCfg [0, 4, 4, 4, 2, 3], stateAt lgCfg [0, 4, 4, 4, 2, 3, 4, 4, 2, 5, 4, 4],
   callRun_of_paths lgCfg [0, 4, 4, 4, 2] [4, 4, 2, 5, 4, 4] 3 1 2 0 .pubSlice [5, 6] _ _ _
     (by decide) (by decide) (by decide) (by decide) (by decide),
   by decide, by decide, by decide, by decide⟩

/-- non-vacuity of the second alternative of `log_bookkeeping_step`: a step that appends a delivery -/
example : (∃ e ∈ (sys lgCfg).succ (stateAt lgCfg [0, 4, 4, 4, 2, 3, 4]),
    e.2.delivered = (stateAt lgCfg [0, 4, 4, 4, 2, 3, 4]).delivered ++ [(2, 0, 0)]) := by decide

/-! ### 2. PubSync / PubSliceSync -/

/-- When a PubSync / PubSliceSync call of publisher `p` has returned (its task is `pubRet p`, or finished after the
`pubret` stamp), in every configuration and under every schedule:
(1) every pair `k` of the call occurs in `delivered ++ timedOut` exactly as often as among the pairs of the call —
    exactly ONCE without clones (`subs` has no duplicates) — and nothing else with publisher id `p` is logged;
(2) the entries of `p` in `delivered` are, in log order, a sublist of the pairs in publication order (event-major
    order of `mkItems`), likewise those in `timedOut`; in particular per channel `c` the deliveries appear in
    publication order;
(3) an entry is in `timedOut` only if the timeout is positive; with the timeout off, the entries of `p` in `delivered`
    ARE the pairs of the call, in publication order. -/
theorem sync_exactly_once_in_order (cfg : Cfg) (s0 s1 s2 : State) (i p o : Nat) (v : Variant) (evs : List Int)
    (h : CallRun cfg s0 s1 s2 i p o v evs) (hv : v.isSync = true)
    (hret : s2.tasks[i]? = some (.pubRet p) ∨ s2.tasks[i]? = some .done) :
    (∀ k : Key, k.1 = p →
      (s2.delivered ++ s2.timedOut).count k = (callKeys p evs (s0.obj o).subs).count k) ∧
    (CloneDiscipline cfg → ∀ k ∈ callKeys p evs (s0.obj o).subs, (s2.delivered ++ s2.timedOut).count k = 1) ∧
    (s2.delivered.filter (fun k => k.1 == p)).Sublist (callKeys p evs (s0.obj o).subs) ∧
    (s2.timedOut.filter (fun k => k.1 == p)).Sublist (callKeys p evs (s0.obj o).subs) ∧
    (∀ c : Chan, ((s2.delivered.filter (fun k => k.1 == p)).filter (fun k => k.2.2 == c)).Sublist
      ((callKeys p evs (s0.obj o).subs).filter (fun k => k.2.2 == c))) ∧
    (s2.timedOut ≠ [] → cfg.timeout > 0) ∧
    (cfg.timeout ≤ 0 → s2.delivered.filter (fun k => k.1 == p) = callKeys p evs (s0.obj o).subs) := by
  obtain ⟨hd, hto, hcl⟩ := (h.syncInv hv).returned hret
  have hnil : cfg.timeout ≤ 0 → s2.timedOut = [] := fun h0 => timedOut_nil cfg h0 s2 h.reach2
  refine ⟨hcl, fun hcd k hk => ?_, hd, hto, fun c => hd.filter _, fun hne => ?_, fun h0 => ?_⟩
  · have hnd := (log_bookkeeping_call cfg s0 s1 s2 i p o v evs h).2.2.2 hcd
    have h1 := hcl k (callKeys_pid hk)
    have h2 := List.nodup_iff_count.mp hnd k
    have h3 : 0 < (callKeys p evs (s0.obj o).subs).count k := List.count_pos_iff.mpr hk
    have h4 : cL k s2 = (s2.delivered ++ s2.timedOut).count k := rfl
    omega
  · apply Classical.byContradiction; intro hn
    exact hne (hnil (by omega))
  · apply sublist_eq_of_count hd
    intro k
    by_cases hk : k.1 = p
    · have h1 := hcl k hk
      have h2 : cL k s2 = s2.delivered.count k + s2.timedOut.count k := by simp [cL, logs, List.count_append]
      rw [hnil h0] at h2
      have h3 : (s2.delivered.filter (fun k => k.1 == p)).count k = s2.delivered.count k :=
        List.count_filter (by simpa using hk)
      rw [← h1, h2]
      show _ ≤ (s2.delivered.filter (fun k => k.1 == p)).count k
      rw [h3]
      simp
    · rw [count_callKeys_ne hk]; exact Nat.zero_le _

/-- non-vacuity: a PubSliceSync of two events to one subscriber with a one-slot buffer and timeout on; the first event
is delivered, the second times out; after the return both pairs are logged exactly once -/
example : ∃ s0 s1 s2, CallRun lgCfg s0 s1 s2 1 0 0 .pubSliceSync [7, 8] ∧ Variant.pubSliceSync.isSync = true ∧
    CloneDiscipline lgCfg ∧ s2.tasks[1]? = some (.pubRet 0) ∧
    callKeys 0 [7, 8] (s0.obj 0).subs = [(0, 0, 0), (0, 1, 0)] ∧ s2.delivered = [(0, 0, 0)] ∧
    s2.timedOut = [(0, 1, 0)] :=
  ⟨stateAt lgCfg [0, 4, 4, 4, 0], stateAt lgCfg [0, 4, 4, 4, 0, 3], stateAt lgCfg [0, 4, 4, 4, 0, 3, 3, 3, 3],
   callRun_of_paths lgCfg [0, 4, 4, 4, 0] [3, 3, 3] 3 1 0 0 .pubSliceSync [7, 8] _ _ _
     (by decide) (by decide) (by decide) (by decide) (by decide),
   rfl, rfl, by decide, by decide, by decide, by decide⟩

/-- "`subs` is constant during the call" (system without clones): while the task of a PubSync / PubSliceSync call is
in its loop — it holds the read lock from the snapshot to the return — the subscriber list of the PubSub value is
still the one the snapshot read, under every schedule (writers need a reader count of 0). -/
theorem sync_subs_constant (cfg : Cfg) (hd : CloneDiscipline cfg) (s0 s1 s2 : State) (i p o : Nat) (v : Variant)
    (evs : List Int) (h : CallRun cfg s0 s1 s2 i p o v evs) (hv : v.isSync = true) (work : List Item) (cb : Bool)
    (hloop : s2.tasks[i]? = some (.syncLoop p o work cb)) : (s2.obj o).subs = (s0.obj o).subs := by
  obtain ⟨rfl, hI⟩ := h.subsInv hd hv
  exact hI.const work cb hloop

/-- non-vacuity: the state of the PubSliceSync call above in which the first event is delivered and the second is
the head of the loop -/
example : ∃ s0 s1 s2 work cb, CallRun lgCfg s0 s1 s2 1 0 0 .pubSliceSync [7, 8] ∧ CloneDiscipline lgCfg ∧
    s2.tasks[1]? = some (.syncLoop 0 0 work cb) ∧ s2.delivered = [(0, 0, 0)] ∧ (s0.obj 0).subs = [0] :=
  ⟨stateAt lgCfg [0, 4, 4, 4, 0], stateAt lgCfg [0, 4, 4, 4, 0, 3], stateAt lgCfg [0, 4, 4, 4, 0, 3, 3],
   [{ pid := 0, idx := 1, ev := 8, c := 0 }], false,
   callRun_of_paths lgCfg [0, 4, 4, 4, 0] [3] 3 1 0 0 .pubSliceSync [7, 8] _ _ _
     (by decide) (by decide) (by decide) (by decide) (by decide),
   rfl, by decide, by decide, by decide⟩

/-! ### 3. PubWait / PubSliceWait -/

/-- When a PubWait / PubSliceWait call of publisher `p` has returned (system without clones, every schedule): every
pair of the call occurs in `delivered ++ timedOut` exactly once (the pairs are pairwise distinct), and nothing else
with publisher id `p` is logged.  No order is claimed: the sender goroutines run concurrently.
`CloneDiscipline` is needed for the WaitGroup counting invariant (`Safe.wgc`: counter = number of live senders). -/
theorem wait_complete (cfg : Cfg) (hd : CloneDiscipline cfg) (s0 s1 s2 : State) (i p o : Nat) (v : Variant)
    (evs : List Int) (h : CallRun cfg s0 s1 s2 i p o v evs) (hv : v.isSync = false) (hw : v.isWait = true)
    (hret : s2.tasks[i]? = some (.pubRet p) ∨ s2.tasks[i]? = some .done) :
    (∀ k : Key, k.1 = p →
      (s2.delivered ++ s2.timedOut).count k = (callKeys p evs (s0.obj o).subs).count k) ∧
    (callKeys p evs (s0.obj o).subs).Nodup ∧
    (∀ k ∈ callKeys p evs (s0.obj o).subs, (s2.delivered ++ s2.timedOut).count k = 1) ∧
    (∀ k : Key, k.1 = p → k ∉ pendKeys s2) ∧
    (s2.timedOut ≠ [] → cfg.timeout > 0) := by
  have hz := (h.waitInv hd hv hw).returned hret
  have heq := (h.callEq (Or.inr hw)).eq
  have hnd := (log_bookkeeping_call cfg s0 s1 s2 i p o v evs h).2.2.2 hd
  have hcount : ∀ k : Key, k.1 = p →
      (s2.delivered ++ s2.timedOut).count k = (callKeys p evs (s0.obj o).subs).count k := by
    intro k hk
    have h1 := heq k hk
    have h2 := hz k hk
    have h4 : cL k s2 = (s2.delivered ++ s2.timedOut).count k := rfl
    omega
  refine ⟨hcount, hnd, fun k hk => ?_, fun k hk => ?_, fun hne => ?_⟩
  · have h1 := hcount k (callKeys_pid hk)
    have h2 := List.nodup_iff_count.mp hnd k
    have h3 : 0 < (callKeys p evs (s0.obj o).subs).count k := List.count_pos_iff.mpr hk
    omega
  · exact List.count_eq_zero.mp (hz k hk)
  · apply Classical.byContradiction; intro hn
    exact hne (timedOut_nil cfg (by omega) s2 h.reach2)

/-- non-vacuity: a PubWait of one event to one subscriber; after the return its pair is logged once -/
example : ∃ s0 s1 s2, CallRun lgCfg s0 s1 s2 1 1 0 .pubWait [9] ∧ CloneDiscipline lgCfg ∧
    Variant.pubWait.isSync = false ∧ Variant.pubWait.isWait = true ∧ s2.tasks[1]? = some (.pubRet 1) ∧
    callKeys 1 [9] (s0.obj 0).subs = [(1, 0, 0)] ∧ s2.delivered = [(1, 0, 0)] :=
  ⟨stateAt lgCfg [0, 4, 4, 4, 1], stateAt lgCfg [0, 4, 4, 4, 1, 3], stateAt lgCfg [0, 4, 4, 4, 1, 3, 3, 3],
   callRun_of_paths lgCfg [0, 4, 4, 4, 1] [3, 3] 3 1 1 0 .pubWait [9] _ _ _
     (by decide) (by decide) (by decide) (by decide) (by decide),
   rfl, rfl, rfl, by decide, by decide, by decide⟩

/-! ### 4. Pub / PubSlice -/

/-- For a Pub / PubSlice call (in fact for a call of any variant) of publisher `p`, in every state reached after its
snapshot, under every schedule: every pair of the call occurs in `delivered ++ timedOut` at most as often as among the
pairs of the call — at most ONCE without clones — and nothing else with publisher id `p` is logged.  Moreover (without
clones) any step that logs an entry logs it for a channel that is subscribed and open at that moment: nothing is
delivered to (and no timeout is reported for) a channel after its removal.
("Eventually delivered" is a liveness property and is not claimed.) -/
theorem async_at_most_once (cfg : Cfg) (s0 s1 s2 : State) (i p o : Nat) (v : Variant) (evs : List Int)
    (h : CallRun cfg s0 s1 s2 i p o v evs) :
    (∀ k : Key, k.1 = p →
      (s2.delivered ++ s2.timedOut).count k ≤ (callKeys p evs (s0.obj o).subs).count k) ∧
    (∀ k ∈ s2.delivered ++ s2.timedOut, k.1 = p → k ∈ callKeys p evs (s0.obj o).subs) ∧
    (CloneDiscipline cfg → ∀ k : Key, (s2.delivered ++ s2.timedOut).count k ≤ 1) ∧
    (CloneDiscipline cfg → ∀ (l : Option Event) (s3 : State), (l, s3) ∈ (sys cfg).succ s2 →
      (s3.delivered = s2.delivered ∧ s3.timedOut = s2.timedOut) ∨
      ∃ k : Key, k.2.2 ∈ (s2.obj 0).subs ∧ isClosed s2.chans k.2.2 = false ∧
        ((s3.delivered = s2.delivered ++ [k] ∧ s3.timedOut = s2.timedOut) ∨
         (s3.delivered = s2.delivered ∧ s3.timedOut = s2.timedOut ++ [k] ∧ cfg.timeout > 0))) := by
  have hb := log_bookkeeping_call cfg s0 s1 s2 i p o v evs h
  refine ⟨fun k hk => ?_, hb.2.2.1, fun hd k => ?_, fun hd l s3 hs => log_step_subscribed hd h.reach2 hs⟩
  · have := hb.1 k hk; omega
  · have := atMostOnce_reachable cfg hd s2 h.reach2 k
    have h4 : cL k s2 = (s2.delivered ++ s2.timedOut).count k := rfl
    omega

/-- non-vacuity: see the `CallRun` example after `log_bookkeeping_call` (PubSlice [5, 6]: one pair delivered, one
dropped after the Unsub); here the state in which the first pair has just been delivered and the second is pending -/
example : ∃ s0 s1 s2, CallRun lgCfg s0 s1 s2 1 2 0 .pubSlice [5, 6] ∧ CloneDiscipline lgCfg ∧
    s2.delivered = [(2, 0, 0)] ∧ pendKeys s2 = [(2, 1, 0)] :=
  ⟨stateAt lgCfg [0, 4, 4, 4, 2], stateAt lgCfg [0, 4, 4, 4, 2, 3], stateAt lgCfg [0, 4, 4, 4, 2, 3, 4, 4],
   callRun_of_paths lgCfg [0, 4, 4, 4, 2] [4, 4] 3 1 2 0 .pubSlice [5, 6] _ _ _
     (by decide) (by decide) (by decide) (by decide) (by decide),
   rfl, by decide, by decide⟩

/-! ### 5. delivery xor timeout -/

/-- In every reachable state of the system without clones no pair is both in `delivered` and in `timedOut`; more
precisely every key is (pending or logged) at most once in total, so each hand-off ends in exactly one of a delivery
or one timeout entry.  (That a timeout entry is followed by exactly one `tmo` callback and no delivery is the step
structure: `sync_exactly_once_in_order_partial` and the `cb` flag of the senders.) -/
theorem timeout_exclusive (cfg : Cfg) (hd : CloneDiscipline cfg) (s : State) (hr : Conc.Reachable (sys cfg) s) :
    (∀ k : Key, k ∈ s.delivered → k ∉ s.timedOut) ∧
    (∀ k : Key, (pendKeys s).count k + (s.delivered.count k + s.timedOut.count k) ≤ 1) := by
  refine ⟨fun k h1 h2 => not_both_logs hd hr k h1 h2, fun k => ?_⟩
  have := atMostOnce_reachable cfg hd s hr k
  have e : cL k s = s.delivered.count k + s.timedOut.count k := by simp [cL, logs, List.count_append]
  have e2 : cP k s = (pendKeys s).count k := rfl
  omega

/-- non-vacuity: a reachable state under the discipline with one delivery and one timeout (of different pairs) -/
example : ∃ s, Conc.Reachable (sys lgCfg) s ∧ CloneDiscipline lgCfg ∧ s.delivered = [(0, 0, 0)] ∧
    s.timedOut = [(0, 1, 0)] :=
  ⟨stateAt lgCfg [0, 4, 4, 4, 0, 3, 3, 3, 3],
   runPath_reachable lgCfg [0, 4, 4, 4, 0, 3, 3, 3, 3] {} _ Conc.Reachable.init (by decide), rfl, by decide, by decide⟩

end C10

#print axioms C10.log_bookkeeping_ids
#print axioms C10.log_bookkeeping_step
#print axioms C10.log_bookkeeping_call
#print axioms C10.sync_exactly_once_in_order
#print axioms C10.sync_subs_constant
#print axioms C10.wait_complete
#print axioms C10.async_at_most_once
#print axioms C10.timeout_exclusive
