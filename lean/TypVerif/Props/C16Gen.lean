import TypVerif.Gen.QueueCalls
import TypVerif.Gen.StackCalls
/-
C16, tie 4B: the call shape of `lists/queue.go` and `lists/stack.go` is REGENERATED from the source on every run: a `Queue` is the
`lists.List` of C06 used through `PushFront` / `Back` / `Remove` / `Len` only, a `Stack` a slice used through `append`, `len` and reslicing —
the operations the models of `Model/QueueStack.lean` are written in.  A cache, a recycled element or a direct access to the list's
internals changes these lists.
-/
namespace C16

theorem gen_queue_is_a_list :
    Gen.QueueCalls.methods =
      [("Queue.Len", ["q.list.Len"]),
       ("Queue.Enqueue", ["q.list.PushFront"]),
       ("Queue.Dequeue", ["q.list.Back", "typ.Zero[T]", "q.list.Remove"]),
       ("Queue.Peek", ["q.list.Back", "typ.Zero[T]"])] := rfl

theorem gen_stack_is_a_slice :
    Gen.StackCalls.methods =
      [("Stack.Peek", ["len", "typ.Zero[T]", "len"]),
       ("Stack.Pop", ["len", "typ.Zero[T]", "len"]),
       ("Stack.Push", ["append"])] := rfl

end C16
