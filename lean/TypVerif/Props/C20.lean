/-
C20 — numeric and utility helpers over the whole value range.

Part 1 (per integer type, generated text): the kernels regenerated from math.go / util.go (`Gen.Math.*_<ty>`, BitVec
code per width and signedness) are equal to the model kernels (`gen_*`), and satisfy the specification for EVERY
value of the type — the signed minima included (`digits10_i8 (-128) = 3`), which was false before the repair
"widen before negating".  All widths go through one lemma about the 64-bit threshold ladder (`Lemmas.Math.ladder_spec`)
and one lemma about the widen-then-negate step, generic in the width.  No enumeration of value domains.

Part 2: Min/Max (any transitive irreflexive `<`), Sum/Product (wrapping folds), Coal, IsZero, Tern, … on the model.
-/
import TypVerif.Gen.Math
import TypVerif.Model.Math
import TypVerif.Spec.Math
import TypVerif.Lemmas.Math
open TypVerif
open TypVerif.Spec.Math
open TypVerif.Lemmas.Math

namespace C20

/-! ## Part 1 — the regenerated kernels, every integer type -/

/-! ### int8 -/
theorem gen_digits10_i8 (v : BitVec 8) : Gen.Math.digits10_i8 v = Model.Math.digits10 true v := by
  first | rfl | simp [Gen.Math.digits10_i8, Model.Math.digits10, Model.Math.lt, Model.Math.widen, Model.Math.ladder]
theorem gen_digitsSign10_i8 (v : BitVec 8) : Gen.Math.digitsSign10_i8 v = Model.Math.digitsSign10 true v := by
  unfold Gen.Math.digitsSign10_i8 Model.Math.digitsSign10
  rw [gen_digits10_i8, gen_digits10_i8]; rfl
theorem gen_abs_i8 (v : BitVec 8) : Gen.Math.abs_i8 v = Model.Math.abs true v := by
  first | rfl | simp [Gen.Math.abs_i8, Model.Math.abs, Model.Math.lt]
theorem gen_clamp_i8 (v lo hi : BitVec 8) : Gen.Math.clamp_i8 v lo hi = Model.Math.clamp true v lo hi := by
  first | rfl | simp [Gen.Math.clamp_i8, Model.Math.clamp, Model.Math.lt]
theorem gen_clamp01_i8 (v : BitVec 8) : Gen.Math.clamp01_i8 v = Model.Math.clamp01 true v := by
  first | rfl | simp [Gen.Math.clamp01_i8, Model.Math.clamp01, Model.Math.lt]
theorem gen_compare_i8 (a b : BitVec 8) : Gen.Math.compare_i8 a b = Model.Math.compare true a b := by
  first | rfl | simp [Gen.Math.compare_i8, Model.Math.compare, Model.Math.lt]
theorem gen_less_i8 (a b : BitVec 8) : Gen.Math.less_i8 a b = Model.Math.less true a b := by
  first | rfl | simp [Gen.Math.less_i8, Model.Math.less, Model.Math.lt]
/-- Digits10 at int8: the number of decimal digits of |v|, for every v (the minimum -128 included) -/
theorem digits10_i8 (v : BitVec 8) : Gen.Math.digits10_i8 v = numDigits v.toInt.natAbs := by
  rw [gen_digits10_i8]; exact digits10_signed (by omega) (by omega) v
theorem digitsSign10_i8 (v : BitVec 8) :
    Gen.Math.digitsSign10_i8 v = numDigits v.toInt.natAbs + (if v.toInt < 0 then 1 else 0) := by
  rw [gen_digitsSign10_i8]; exact digitsSign10_signed (by omega) (by omega) v
/-- the case that was wrong before the repair -/
theorem digits10_i8_min : Gen.Math.digits10_i8 (BitVec.intMin 8) = 3 ∧ Gen.Math.digitsSign10_i8 (BitVec.intMin 8) = 4 := by
  decide
/-- Abs is the magnitude wherever it is representable -/
theorem abs_i8 (v : BitVec 8) (h : v.toInt ≠ -128) : (Gen.Math.abs_i8 v).toInt = v.toInt.natAbs := by
  rw [gen_abs_i8]
  exact abs_signed (by omega) v (by intro e; apply h; rw [e]; rfl)
example : (5#8).toInt ≠ -128 := by decide
/-- and the minimum is returned unchanged (Go's `-v` wraps) -/
theorem abs_i8_min (v : BitVec 8) (h : v.toInt = -128) : Gen.Math.abs_i8 v = v := by
  rw [gen_abs_i8]
  exact abs_signed_min (by omega) v (by rw [h]; rfl)
example : (BitVec.intMin 8).toInt = -128 := by decide
/-- Clamp(v,lo,hi) with lo ≤ hi: v when lo ≤ v ≤ hi, else the nearer bound -/
theorem clamp_i8 (v lo hi : BitVec 8) (h : lo.toInt ≤ hi.toInt) :
    (lo.toInt ≤ v.toInt → v.toInt ≤ hi.toInt → Gen.Math.clamp_i8 v lo hi = v) ∧
    (v.toInt < lo.toInt → Gen.Math.clamp_i8 v lo hi = lo) ∧
    (hi.toInt < v.toInt → Gen.Math.clamp_i8 v lo hi = hi) := by
  rw [gen_clamp_i8]
  exact clamp_cases true v lo hi h
example : (1#8).toInt ≤ (3#8).toInt := by decide
/-- Clamp01 is Clamp to [0,1] -/
theorem clamp01_i8 (v : BitVec 8) :
    Gen.Math.clamp01_i8 v = Gen.Math.clamp_i8 v 0#8 1#8 ∧
    (Gen.Math.clamp01_i8 v).toInt = Spec.Math.clamp v.toInt 0 1 := by
  rw [gen_clamp01_i8, gen_clamp_i8]
  exact ⟨rfl, clamp01_toInt true (by omega) v⟩
/-- Compare agrees with the built-in order -/
theorem compare_i8 (a b : BitVec 8) :
    Gen.Math.compare_i8 a b = Spec.Math.compare a.toInt b.toInt ∧
    (Gen.Math.compare_i8 a b = 0 ↔ a = b) ∧
    (Gen.Math.compare_i8 a b = -1 ↔ a.toInt < b.toInt) ∧
    (Gen.Math.compare_i8 a b = 1 ↔ b.toInt < a.toInt) := by
  rw [gen_compare_i8]
  exact ⟨compare_toInt true a b, compare_zero_iff true a b⟩
theorem less_i8 (a b : BitVec 8) : Gen.Math.less_i8 a b = decide (a.toInt < b.toInt) := by
  rw [gen_less_i8]
  exact less_toInt true a b

/-! ### int16 -/
theorem gen_digits10_i16 (v : BitVec 16) : Gen.Math.digits10_i16 v = Model.Math.digits10 true v := by
  first | rfl | simp [Gen.Math.digits10_i16, Model.Math.digits10, Model.Math.lt, Model.Math.widen, Model.Math.ladder]
theorem gen_digitsSign10_i16 (v : BitVec 16) : Gen.Math.digitsSign10_i16 v = Model.Math.digitsSign10 true v := by
  unfold Gen.Math.digitsSign10_i16 Model.Math.digitsSign10
  rw [gen_digits10_i16, gen_digits10_i16]; rfl
theorem gen_abs_i16 (v : BitVec 16) : Gen.Math.abs_i16 v = Model.Math.abs true v := by
  first | rfl | simp [Gen.Math.abs_i16, Model.Math.abs, Model.Math.lt]
theorem gen_clamp_i16 (v lo hi : BitVec 16) : Gen.Math.clamp_i16 v lo hi = Model.Math.clamp true v lo hi := by
  first | rfl | simp [Gen.Math.clamp_i16, Model.Math.clamp, Model.Math.lt]
theorem gen_clamp01_i16 (v : BitVec 16) : Gen.Math.clamp01_i16 v = Model.Math.clamp01 true v := by
  first | rfl | simp [Gen.Math.clamp01_i16, Model.Math.clamp01, Model.Math.lt]
theorem gen_compare_i16 (a b : BitVec 16) : Gen.Math.compare_i16 a b = Model.Math.compare true a b := by
  first | rfl | simp [Gen.Math.compare_i16, Model.Math.compare, Model.Math.lt]
theorem gen_less_i16 (a b : BitVec 16) : Gen.Math.less_i16 a b = Model.Math.less true a b := by
  first | rfl | simp [Gen.Math.less_i16, Model.Math.less, Model.Math.lt]
/-- Digits10 at int16: the number of decimal digits of |v|, for every v (the minimum -32768 included) -/
theorem digits10_i16 (v : BitVec 16) : Gen.Math.digits10_i16 v = numDigits v.toInt.natAbs := by
  rw [gen_digits10_i16]; exact digits10_signed (by omega) (by omega) v
theorem digitsSign10_i16 (v : BitVec 16) :
    Gen.Math.digitsSign10_i16 v = numDigits v.toInt.natAbs + (if v.toInt < 0 then 1 else 0) := by
  rw [gen_digitsSign10_i16]; exact digitsSign10_signed (by omega) (by omega) v
/-- the case that was wrong before the repair -/
theorem digits10_i16_min : Gen.Math.digits10_i16 (BitVec.intMin 16) = 5 ∧ Gen.Math.digitsSign10_i16 (BitVec.intMin 16) = 6 := by
  decide
/-- Abs is the magnitude wherever it is representable -/
theorem abs_i16 (v : BitVec 16) (h : v.toInt ≠ -32768) : (Gen.Math.abs_i16 v).toInt = v.toInt.natAbs := by
  rw [gen_abs_i16]
  exact abs_signed (by omega) v (by intro e; apply h; rw [e]; rfl)
example : (5#16).toInt ≠ -32768 := by decide
/-- and the minimum is returned unchanged (Go's `-v` wraps) -/
theorem abs_i16_min (v : BitVec 16) (h : v.toInt = -32768) : Gen.Math.abs_i16 v = v := by
  rw [gen_abs_i16]
  exact abs_signed_min (by omega) v (by rw [h]; rfl)
example : (BitVec.intMin 16).toInt = -32768 := by decide
/-- Clamp(v,lo,hi) with lo ≤ hi: v when lo ≤ v ≤ hi, else the nearer bound -/
theorem clamp_i16 (v lo hi : BitVec 16) (h : lo.toInt ≤ hi.toInt) :
    (lo.toInt ≤ v.toInt → v.toInt ≤ hi.toInt → Gen.Math.clamp_i16 v lo hi = v) ∧
    (v.toInt < lo.toInt → Gen.Math.clamp_i16 v lo hi = lo) ∧
    (hi.toInt < v.toInt → Gen.Math.clamp_i16 v lo hi = hi) := by
  rw [gen_clamp_i16]
  exact clamp_cases true v lo hi h
example : (1#16).toInt ≤ (3#16).toInt := by decide
/-- Clamp01 is Clamp to [0,1] -/
theorem clamp01_i16 (v : BitVec 16) :
    Gen.Math.clamp01_i16 v = Gen.Math.clamp_i16 v 0#16 1#16 ∧
    (Gen.Math.clamp01_i16 v).toInt = Spec.Math.clamp v.toInt 0 1 := by
  rw [gen_clamp01_i16, gen_clamp_i16]
  exact ⟨rfl, clamp01_toInt true (by omega) v⟩
/-- Compare agrees with the built-in order -/
theorem compare_i16 (a b : BitVec 16) :
    Gen.Math.compare_i16 a b = Spec.Math.compare a.toInt b.toInt ∧
    (Gen.Math.compare_i16 a b = 0 ↔ a = b) ∧
    (Gen.Math.compare_i16 a b = -1 ↔ a.toInt < b.toInt) ∧
    (Gen.Math.compare_i16 a b = 1 ↔ b.toInt < a.toInt) := by
  rw [gen_compare_i16]
  exact ⟨compare_toInt true a b, compare_zero_iff true a b⟩
theorem less_i16 (a b : BitVec 16) : Gen.Math.less_i16 a b = decide (a.toInt < b.toInt) := by
  rw [gen_less_i16]
  exact less_toInt true a b

/-! ### int32 -/
theorem gen_digits10_i32 (v : BitVec 32) : Gen.Math.digits10_i32 v = Model.Math.digits10 true v := by
  first | rfl | simp [Gen.Math.digits10_i32, Model.Math.digits10, Model.Math.lt, Model.Math.widen, Model.Math.ladder]
theorem gen_digitsSign10_i32 (v : BitVec 32) : Gen.Math.digitsSign10_i32 v = Model.Math.digitsSign10 true v := by
  unfold Gen.Math.digitsSign10_i32 Model.Math.digitsSign10
  rw [gen_digits10_i32, gen_digits10_i32]; rfl
theorem gen_abs_i32 (v : BitVec 32) : Gen.Math.abs_i32 v = Model.Math.abs true v := by
  first | rfl | simp [Gen.Math.abs_i32, Model.Math.abs, Model.Math.lt]
theorem gen_clamp_i32 (v lo hi : BitVec 32) : Gen.Math.clamp_i32 v lo hi = Model.Math.clamp true v lo hi := by
  first | rfl | simp [Gen.Math.clamp_i32, Model.Math.clamp, Model.Math.lt]
theorem gen_clamp01_i32 (v : BitVec 32) : Gen.Math.clamp01_i32 v = Model.Math.clamp01 true v := by
  first | rfl | simp [Gen.Math.clamp01_i32, Model.Math.clamp01, Model.Math.lt]
theorem gen_compare_i32 (a b : BitVec 32) : Gen.Math.compare_i32 a b = Model.Math.compare true a b := by
  first | rfl | simp [Gen.Math.compare_i32, Model.Math.compare, Model.Math.lt]
theorem gen_less_i32 (a b : BitVec 32) : Gen.Math.less_i32 a b = Model.Math.less true a b := by
  first | rfl | simp [Gen.Math.less_i32, Model.Math.less, Model.Math.lt]
/-- Digits10 at int32: the number of decimal digits of |v|, for every v (the minimum -2147483648 included) -/
theorem digits10_i32 (v : BitVec 32) : Gen.Math.digits10_i32 v = numDigits v.toInt.natAbs := by
  rw [gen_digits10_i32]; exact digits10_signed (by omega) (by omega) v
theorem digitsSign10_i32 (v : BitVec 32) :
    Gen.Math.digitsSign10_i32 v = numDigits v.toInt.natAbs + (if v.toInt < 0 then 1 else 0) := by
  rw [gen_digitsSign10_i32]; exact digitsSign10_signed (by omega) (by omega) v
/-- the case that was wrong before the repair -/
theorem digits10_i32_min : Gen.Math.digits10_i32 (BitVec.intMin 32) = 10 ∧ Gen.Math.digitsSign10_i32 (BitVec.intMin 32) = 11 := by
  decide
/-- Abs is the magnitude wherever it is representable -/
theorem abs_i32 (v : BitVec 32) (h : v.toInt ≠ -2147483648) : (Gen.Math.abs_i32 v).toInt = v.toInt.natAbs := by
  rw [gen_abs_i32]
  exact abs_signed (by omega) v (by intro e; apply h; rw [e]; rfl)
example : (5#32).toInt ≠ -2147483648 := by decide
/-- and the minimum is returned unchanged (Go's `-v` wraps) -/
theorem abs_i32_min (v : BitVec 32) (h : v.toInt = -2147483648) : Gen.Math.abs_i32 v = v := by
  rw [gen_abs_i32]
  exact abs_signed_min (by omega) v (by rw [h]; rfl)
example : (BitVec.intMin 32).toInt = -2147483648 := by decide
/-- Clamp(v,lo,hi) with lo ≤ hi: v when lo ≤ v ≤ hi, else the nearer bound -/
theorem clamp_i32 (v lo hi : BitVec 32) (h : lo.toInt ≤ hi.toInt) :
    (lo.toInt ≤ v.toInt → v.toInt ≤ hi.toInt → Gen.Math.clamp_i32 v lo hi = v) ∧
    (v.toInt < lo.toInt → Gen.Math.clamp_i32 v lo hi = lo) ∧
    (hi.toInt < v.toInt → Gen.Math.clamp_i32 v lo hi = hi) := by
  rw [gen_clamp_i32]
  exact clamp_cases true v lo hi h
example : (1#32).toInt ≤ (3#32).toInt := by decide
/-- Clamp01 is Clamp to [0,1] -/
theorem clamp01_i32 (v : BitVec 32) :
    Gen.Math.clamp01_i32 v = Gen.Math.clamp_i32 v 0#32 1#32 ∧
    (Gen.Math.clamp01_i32 v).toInt = Spec.Math.clamp v.toInt 0 1 := by
  rw [gen_clamp01_i32, gen_clamp_i32]
  exact ⟨rfl, clamp01_toInt true (by omega) v⟩
/-- Compare agrees with the built-in order -/
theorem compare_i32 (a b : BitVec 32) :
    Gen.Math.compare_i32 a b = Spec.Math.compare a.toInt b.toInt ∧
    (Gen.Math.compare_i32 a b = 0 ↔ a = b) ∧
    (Gen.Math.compare_i32 a b = -1 ↔ a.toInt < b.toInt) ∧
    (Gen.Math.compare_i32 a b = 1 ↔ b.toInt < a.toInt) := by
  rw [gen_compare_i32]
  exact ⟨compare_toInt true a b, compare_zero_iff true a b⟩
theorem less_i32 (a b : BitVec 32) : Gen.Math.less_i32 a b = decide (a.toInt < b.toInt) := by
  rw [gen_less_i32]
  exact less_toInt true a b

/-! ### int64 -/
theorem gen_digits10_i64 (v : BitVec 64) : Gen.Math.digits10_i64 v = Model.Math.digits10 true v := by
  first | rfl | simp [Gen.Math.digits10_i64, Model.Math.digits10, Model.Math.lt, Model.Math.widen, Model.Math.ladder]
theorem gen_digitsSign10_i64 (v : BitVec 64) : Gen.Math.digitsSign10_i64 v = Model.Math.digitsSign10 true v := by
  unfold Gen.Math.digitsSign10_i64 Model.Math.digitsSign10
  rw [gen_digits10_i64, gen_digits10_i64]; rfl
theorem gen_abs_i64 (v : BitVec 64) : Gen.Math.abs_i64 v = Model.Math.abs true v := by
  first | rfl | simp [Gen.Math.abs_i64, Model.Math.abs, Model.Math.lt]
theorem gen_clamp_i64 (v lo hi : BitVec 64) : Gen.Math.clamp_i64 v lo hi = Model.Math.clamp true v lo hi := by
  first | rfl | simp [Gen.Math.clamp_i64, Model.Math.clamp, Model.Math.lt]
theorem gen_clamp01_i64 (v : BitVec 64) : Gen.Math.clamp01_i64 v = Model.Math.clamp01 true v := by
  first | rfl | simp [Gen.Math.clamp01_i64, Model.Math.clamp01, Model.Math.lt]
theorem gen_compare_i64 (a b : BitVec 64) : Gen.Math.compare_i64 a b = Model.Math.compare true a b := by
  first | rfl | simp [Gen.Math.compare_i64, Model.Math.compare, Model.Math.lt]
theorem gen_less_i64 (a b : BitVec 64) : Gen.Math.less_i64 a b = Model.Math.less true a b := by
  first | rfl | simp [Gen.Math.less_i64, Model.Math.less, Model.Math.lt]
/-- Digits10 at int64: the number of decimal digits of |v|, for every v (the minimum -9223372036854775808 included) -/
theorem digits10_i64 (v : BitVec 64) : Gen.Math.digits10_i64 v = numDigits v.toInt.natAbs := by
  rw [gen_digits10_i64]; exact digits10_signed (by omega) (by omega) v
theorem digitsSign10_i64 (v : BitVec 64) :
    Gen.Math.digitsSign10_i64 v = numDigits v.toInt.natAbs + (if v.toInt < 0 then 1 else 0) := by
  rw [gen_digitsSign10_i64]; exact digitsSign10_signed (by omega) (by omega) v
/-- the case that was wrong before the repair -/
theorem digits10_i64_min : Gen.Math.digits10_i64 (BitVec.intMin 64) = 19 ∧ Gen.Math.digitsSign10_i64 (BitVec.intMin 64) = 20 := by
  decide
/-- Abs is the magnitude wherever it is representable -/
theorem abs_i64 (v : BitVec 64) (h : v.toInt ≠ -9223372036854775808) : (Gen.Math.abs_i64 v).toInt = v.toInt.natAbs := by
  rw [gen_abs_i64]
  exact abs_signed (by omega) v (by intro e; apply h; rw [e]; rfl)
example : (5#64).toInt ≠ -9223372036854775808 := by decide
/-- and the minimum is returned unchanged (Go's `-v` wraps) -/
theorem abs_i64_min (v : BitVec 64) (h : v.toInt = -9223372036854775808) : Gen.Math.abs_i64 v = v := by
  rw [gen_abs_i64]
  exact abs_signed_min (by omega) v (by rw [h]; rfl)
example : (BitVec.intMin 64).toInt = -9223372036854775808 := by decide
/-- Clamp(v,lo,hi) with lo ≤ hi: v when lo ≤ v ≤ hi, else the nearer bound -/
theorem clamp_i64 (v lo hi : BitVec 64) (h : lo.toInt ≤ hi.toInt) :
    (lo.toInt ≤ v.toInt → v.toInt ≤ hi.toInt → Gen.Math.clamp_i64 v lo hi = v) ∧
    (v.toInt < lo.toInt → Gen.Math.clamp_i64 v lo hi = lo) ∧
    (hi.toInt < v.toInt → Gen.Math.clamp_i64 v lo hi = hi) := by
  rw [gen_clamp_i64]
  exact clamp_cases true v lo hi h
example : (1#64).toInt ≤ (3#64).toInt := by decide
/-- Clamp01 is Clamp to [0,1] -/
theorem clamp01_i64 (v : BitVec 64) :
    Gen.Math.clamp01_i64 v = Gen.Math.clamp_i64 v 0#64 1#64 ∧
    (Gen.Math.clamp01_i64 v).toInt = Spec.Math.clamp v.toInt 0 1 := by
  rw [gen_clamp01_i64, gen_clamp_i64]
  exact ⟨rfl, clamp01_toInt true (by omega) v⟩
/-- Compare agrees with the built-in order -/
theorem compare_i64 (a b : BitVec 64) :
    Gen.Math.compare_i64 a b = Spec.Math.compare a.toInt b.toInt ∧
    (Gen.Math.compare_i64 a b = 0 ↔ a = b) ∧
    (Gen.Math.compare_i64 a b = -1 ↔ a.toInt < b.toInt) ∧
    (Gen.Math.compare_i64 a b = 1 ↔ b.toInt < a.toInt) := by
  rw [gen_compare_i64]
  exact ⟨compare_toInt true a b, compare_zero_iff true a b⟩
theorem less_i64 (a b : BitVec 64) : Gen.Math.less_i64 a b = decide (a.toInt < b.toInt) := by
  rw [gen_less_i64]
  exact less_toInt true a b

/-! ### uint8 -/
theorem gen_digits10_u8 (v : BitVec 8) : Gen.Math.digits10_u8 v = Model.Math.digits10 false v := by
  first | rfl | simp [Gen.Math.digits10_u8, Model.Math.digits10, Model.Math.lt, Model.Math.widen, Model.Math.ladder]
theorem gen_digitsSign10_u8 (v : BitVec 8) : Gen.Math.digitsSign10_u8 v = Model.Math.digitsSign10 false v := by
  unfold Gen.Math.digitsSign10_u8 Model.Math.digitsSign10
  rw [gen_digits10_u8, gen_digits10_u8]; rfl
theorem gen_abs_u8 (v : BitVec 8) : Gen.Math.abs_u8 v = Model.Math.abs false v := by
  first | rfl | simp [Gen.Math.abs_u8, Model.Math.abs, Model.Math.lt]
theorem gen_clamp_u8 (v lo hi : BitVec 8) : Gen.Math.clamp_u8 v lo hi = Model.Math.clamp false v lo hi := by
  first | rfl | simp [Gen.Math.clamp_u8, Model.Math.clamp, Model.Math.lt]
theorem gen_clamp01_u8 (v : BitVec 8) : Gen.Math.clamp01_u8 v = Model.Math.clamp01 false v := by
  first | rfl | simp [Gen.Math.clamp01_u8, Model.Math.clamp01, Model.Math.lt]
theorem gen_compare_u8 (a b : BitVec 8) : Gen.Math.compare_u8 a b = Model.Math.compare false a b := by
  first | rfl | simp [Gen.Math.compare_u8, Model.Math.compare, Model.Math.lt]
theorem gen_less_u8 (a b : BitVec 8) : Gen.Math.less_u8 a b = Model.Math.less false a b := by
  first | rfl | simp [Gen.Math.less_u8, Model.Math.less, Model.Math.lt]
/-- Digits10 at uint8: the number of decimal digits of v, for every v -/
theorem digits10_u8 (v : BitVec 8) : Gen.Math.digits10_u8 v = numDigits v.toNat := by
  rw [gen_digits10_u8]; exact digits10_unsigned (by omega) v
theorem digitsSign10_u8 (v : BitVec 8) :
    Gen.Math.digitsSign10_u8 v = numDigits v.toNat + (if (v.toNat : Int) < 0 then 1 else 0) := by
  rw [gen_digitsSign10_u8, digitsSign10_unsigned (by omega) v, if_neg (by omega)]; rfl
theorem abs_u8 (v : BitVec 8) : Gen.Math.abs_u8 v = v := by
  rw [gen_abs_u8]; exact abs_unsigned v
/-- Clamp(v,lo,hi) with lo ≤ hi: v when lo ≤ v ≤ hi, else the nearer bound -/
theorem clamp_u8 (v lo hi : BitVec 8) (h : (lo.toNat : Int) ≤ (hi.toNat : Int)) :
    ((lo.toNat : Int) ≤ (v.toNat : Int) → (v.toNat : Int) ≤ (hi.toNat : Int) → Gen.Math.clamp_u8 v lo hi = v) ∧
    ((v.toNat : Int) < (lo.toNat : Int) → Gen.Math.clamp_u8 v lo hi = lo) ∧
    ((hi.toNat : Int) < (v.toNat : Int) → Gen.Math.clamp_u8 v lo hi = hi) := by
  rw [gen_clamp_u8]
  exact clamp_cases false v lo hi h
example : ((1#8).toNat : Int) ≤ ((3#8).toNat : Int) := by decide
/-- Clamp01 is Clamp to [0,1] -/
theorem clamp01_u8 (v : BitVec 8) :
    Gen.Math.clamp01_u8 v = Gen.Math.clamp_u8 v 0#8 1#8 ∧
    ((Gen.Math.clamp01_u8 v).toNat : Int) = Spec.Math.clamp (v.toNat : Int) 0 1 := by
  rw [gen_clamp01_u8, gen_clamp_u8]
  exact ⟨rfl, clamp01_toInt false (by omega) v⟩
/-- Compare agrees with the built-in order -/
theorem compare_u8 (a b : BitVec 8) :
    Gen.Math.compare_u8 a b = Spec.Math.compare (a.toNat : Int) (b.toNat : Int) ∧
    (Gen.Math.compare_u8 a b = 0 ↔ a = b) ∧
    (Gen.Math.compare_u8 a b = -1 ↔ (a.toNat : Int) < (b.toNat : Int)) ∧
    (Gen.Math.compare_u8 a b = 1 ↔ (b.toNat : Int) < (a.toNat : Int)) := by
  rw [gen_compare_u8]
  exact ⟨compare_toInt false a b, compare_zero_iff false a b⟩
theorem less_u8 (a b : BitVec 8) : Gen.Math.less_u8 a b = decide ((a.toNat : Int) < (b.toNat : Int)) := by
  rw [gen_less_u8]
  exact less_toInt false a b

/-! ### uint16 -/
theorem gen_digits10_u16 (v : BitVec 16) : Gen.Math.digits10_u16 v = Model.Math.digits10 false v := by
  first | rfl | simp [Gen.Math.digits10_u16, Model.Math.digits10, Model.Math.lt, Model.Math.widen, Model.Math.ladder]
theorem gen_digitsSign10_u16 (v : BitVec 16) : Gen.Math.digitsSign10_u16 v = Model.Math.digitsSign10 false v := by
  unfold Gen.Math.digitsSign10_u16 Model.Math.digitsSign10
  rw [gen_digits10_u16, gen_digits10_u16]; rfl
theorem gen_abs_u16 (v : BitVec 16) : Gen.Math.abs_u16 v = Model.Math.abs false v := by
  first | rfl | simp [Gen.Math.abs_u16, Model.Math.abs, Model.Math.lt]
theorem gen_clamp_u16 (v lo hi : BitVec 16) : Gen.Math.clamp_u16 v lo hi = Model.Math.clamp false v lo hi := by
  first | rfl | simp [Gen.Math.clamp_u16, Model.Math.clamp, Model.Math.lt]
theorem gen_clamp01_u16 (v : BitVec 16) : Gen.Math.clamp01_u16 v = Model.Math.clamp01 false v := by
  first | rfl | simp [Gen.Math.clamp01_u16, Model.Math.clamp01, Model.Math.lt]
theorem gen_compare_u16 (a b : BitVec 16) : Gen.Math.compare_u16 a b = Model.Math.compare false a b := by
  first | rfl | simp [Gen.Math.compare_u16, Model.Math.compare, Model.Math.lt]
theorem gen_less_u16 (a b : BitVec 16) : Gen.Math.less_u16 a b = Model.Math.less false a b := by
  first | rfl | simp [Gen.Math.less_u16, Model.Math.less, Model.Math.lt]
/-- Digits10 at uint16: the number of decimal digits of v, for every v -/
theorem digits10_u16 (v : BitVec 16) : Gen.Math.digits10_u16 v = numDigits v.toNat := by
  rw [gen_digits10_u16]; exact digits10_unsigned (by omega) v
theorem digitsSign10_u16 (v : BitVec 16) :
    Gen.Math.digitsSign10_u16 v = numDigits v.toNat + (if (v.toNat : Int) < 0 then 1 else 0) := by
  rw [gen_digitsSign10_u16, digitsSign10_unsigned (by omega) v, if_neg (by omega)]; rfl
theorem abs_u16 (v : BitVec 16) : Gen.Math.abs_u16 v = v := by
  rw [gen_abs_u16]; exact abs_unsigned v
/-- Clamp(v,lo,hi) with lo ≤ hi: v when lo ≤ v ≤ hi, else the nearer bound -/
theorem clamp_u16 (v lo hi : BitVec 16) (h : (lo.toNat : Int) ≤ (hi.toNat : Int)) :
    ((lo.toNat : Int) ≤ (v.toNat : Int) → (v.toNat : Int) ≤ (hi.toNat : Int) → Gen.Math.clamp_u16 v lo hi = v) ∧
    ((v.toNat : Int) < (lo.toNat : Int) → Gen.Math.clamp_u16 v lo hi = lo) ∧
    ((hi.toNat : Int) < (v.toNat : Int) → Gen.Math.clamp_u16 v lo hi = hi) := by
  rw [gen_clamp_u16]
  exact clamp_cases false v lo hi h
example : ((1#16).toNat : Int) ≤ ((3#16).toNat : Int) := by decide
/-- Clamp01 is Clamp to [0,1] -/
theorem clamp01_u16 (v : BitVec 16) :
    Gen.Math.clamp01_u16 v = Gen.Math.clamp_u16 v 0#16 1#16 ∧
    ((Gen.Math.clamp01_u16 v).toNat : Int) = Spec.Math.clamp (v.toNat : Int) 0 1 := by
  rw [gen_clamp01_u16, gen_clamp_u16]
  exact ⟨rfl, clamp01_toInt false (by omega) v⟩
/-- Compare agrees with the built-in order -/
theorem compare_u16 (a b : BitVec 16) :
    Gen.Math.compare_u16 a b = Spec.Math.compare (a.toNat : Int) (b.toNat : Int) ∧
    (Gen.Math.compare_u16 a b = 0 ↔ a = b) ∧
    (Gen.Math.compare_u16 a b = -1 ↔ (a.toNat : Int) < (b.toNat : Int)) ∧
    (Gen.Math.compare_u16 a b = 1 ↔ (b.toNat : Int) < (a.toNat : Int)) := by
  rw [gen_compare_u16]
  exact ⟨compare_toInt false a b, compare_zero_iff false a b⟩
theorem less_u16 (a b : BitVec 16) : Gen.Math.less_u16 a b = decide ((a.toNat : Int) < (b.toNat : Int)) := by
  rw [gen_less_u16]
  exact less_toInt false a b

/-! ### uint32 -/
theorem gen_digits10_u32 (v : BitVec 32) : Gen.Math.digits10_u32 v = Model.Math.digits10 false v := by
  first | rfl | simp [Gen.Math.digits10_u32, Model.Math.digits10, Model.Math.lt, Model.Math.widen, Model.Math.ladder]
theorem gen_digitsSign10_u32 (v : BitVec 32) : Gen.Math.digitsSign10_u32 v = Model.Math.digitsSign10 false v := by
  unfold Gen.Math.digitsSign10_u32 Model.Math.digitsSign10
  rw [gen_digits10_u32, gen_digits10_u32]; rfl
theorem gen_abs_u32 (v : BitVec 32) : Gen.Math.abs_u32 v = Model.Math.abs false v := by
  first | rfl | simp [Gen.Math.abs_u32, Model.Math.abs, Model.Math.lt]
theorem gen_clamp_u32 (v lo hi : BitVec 32) : Gen.Math.clamp_u32 v lo hi = Model.Math.clamp false v lo hi := by
  first | rfl | simp [Gen.Math.clamp_u32, Model.Math.clamp, Model.Math.lt]
theorem gen_clamp01_u32 (v : BitVec 32) : Gen.Math.clamp01_u32 v = Model.Math.clamp01 false v := by
  first | rfl | simp [Gen.Math.clamp01_u32, Model.Math.clamp01, Model.Math.lt]
theorem gen_compare_u32 (a b : BitVec 32) : Gen.Math.compare_u32 a b = Model.Math.compare false a b := by
  first | rfl | simp [Gen.Math.compare_u32, Model.Math.compare, Model.Math.lt]
theorem gen_less_u32 (a b : BitVec 32) : Gen.Math.less_u32 a b = Model.Math.less false a b := by
  first | rfl | simp [Gen.Math.less_u32, Model.Math.less, Model.Math.lt]
/-- Digits10 at uint32: the number of decimal digits of v, for every v -/
theorem digits10_u32 (v : BitVec 32) : Gen.Math.digits10_u32 v = numDigits v.toNat := by
  rw [gen_digits10_u32]; exact digits10_unsigned (by omega) v
theorem digitsSign10_u32 (v : BitVec 32) :
    Gen.Math.digitsSign10_u32 v = numDigits v.toNat + (if (v.toNat : Int) < 0 then 1 else 0) := by
  rw [gen_digitsSign10_u32, digitsSign10_unsigned (by omega) v, if_neg (by omega)]; rfl
theorem abs_u32 (v : BitVec 32) : Gen.Math.abs_u32 v = v := by
  rw [gen_abs_u32]; exact abs_unsigned v
/-- Clamp(v,lo,hi) with lo ≤ hi: v when lo ≤ v ≤ hi, else the nearer bound -/
theorem clamp_u32 (v lo hi : BitVec 32) (h : (lo.toNat : Int) ≤ (hi.toNat : Int)) :
    ((lo.toNat : Int) ≤ (v.toNat : Int) → (v.toNat : Int) ≤ (hi.toNat : Int) → Gen.Math.clamp_u32 v lo hi = v) ∧
    ((v.toNat : Int) < (lo.toNat : Int) → Gen.Math.clamp_u32 v lo hi = lo) ∧
    ((hi.toNat : Int) < (v.toNat : Int) → Gen.Math.clamp_u32 v lo hi = hi) := by
  rw [gen_clamp_u32]
  exact clamp_cases false v lo hi h
example : ((1#32).toNat : Int) ≤ ((3#32).toNat : Int) := by decide
/-- Clamp01 is Clamp to [0,1] -/
theorem clamp01_u32 (v : BitVec 32) :
    Gen.Math.clamp01_u32 v = Gen.Math.clamp_u32 v 0#32 1#32 ∧
    ((Gen.Math.clamp01_u32 v).toNat : Int) = Spec.Math.clamp (v.toNat : Int) 0 1 := by
  rw [gen_clamp01_u32, gen_clamp_u32]
  exact ⟨rfl, clamp01_toInt false (by omega) v⟩
/-- Compare agrees with the built-in order -/
theorem compare_u32 (a b : BitVec 32) :
    Gen.Math.compare_u32 a b = Spec.Math.compare (a.toNat : Int) (b.toNat : Int) ∧
    (Gen.Math.compare_u32 a b = 0 ↔ a = b) ∧
    (Gen.Math.compare_u32 a b = -1 ↔ (a.toNat : Int) < (b.toNat : Int)) ∧
    (Gen.Math.compare_u32 a b = 1 ↔ (b.toNat : Int) < (a.toNat : Int)) := by
  rw [gen_compare_u32]
  exact ⟨compare_toInt false a b, compare_zero_iff false a b⟩
theorem less_u32 (a b : BitVec 32) : Gen.Math.less_u32 a b = decide ((a.toNat : Int) < (b.toNat : Int)) := by
  rw [gen_less_u32]
  exact less_toInt false a b

/-! ### uint64 -/
theorem gen_digits10_u64 (v : BitVec 64) : Gen.Math.digits10_u64 v = Model.Math.digits10 false v := by
  first | rfl | simp [Gen.Math.digits10_u64, Model.Math.digits10, Model.Math.lt, Model.Math.widen, Model.Math.ladder]
theorem gen_digitsSign10_u64 (v : BitVec 64) : Gen.Math.digitsSign10_u64 v = Model.Math.digitsSign10 false v := by
  unfold Gen.Math.digitsSign10_u64 Model.Math.digitsSign10
  rw [gen_digits10_u64, gen_digits10_u64]; rfl
theorem gen_abs_u64 (v : BitVec 64) : Gen.Math.abs_u64 v = Model.Math.abs false v := by
  first | rfl | simp [Gen.Math.abs_u64, Model.Math.abs, Model.Math.lt]
theorem gen_clamp_u64 (v lo hi : BitVec 64) : Gen.Math.clamp_u64 v lo hi = Model.Math.clamp false v lo hi := by
  first | rfl | simp [Gen.Math.clamp_u64, Model.Math.clamp, Model.Math.lt]
theorem gen_clamp01_u64 (v : BitVec 64) : Gen.Math.clamp01_u64 v = Model.Math.clamp01 false v := by
  first | rfl | simp [Gen.Math.clamp01_u64, Model.Math.clamp01, Model.Math.lt]
theorem gen_compare_u64 (a b : BitVec 64) : Gen.Math.compare_u64 a b = Model.Math.compare false a b := by
  first | rfl | simp [Gen.Math.compare_u64, Model.Math.compare, Model.Math.lt]
theorem gen_less_u64 (a b : BitVec 64) : Gen.Math.less_u64 a b = Model.Math.less false a b := by
  first | rfl | simp [Gen.Math.less_u64, Model.Math.less, Model.Math.lt]
/-- Digits10 at uint64: the number of decimal digits of v, for every v -/
theorem digits10_u64 (v : BitVec 64) : Gen.Math.digits10_u64 v = numDigits v.toNat := by
  rw [gen_digits10_u64]; exact digits10_unsigned (by omega) v
theorem digitsSign10_u64 (v : BitVec 64) :
    Gen.Math.digitsSign10_u64 v = numDigits v.toNat + (if (v.toNat : Int) < 0 then 1 else 0) := by
  rw [gen_digitsSign10_u64, digitsSign10_unsigned (by omega) v, if_neg (by omega)]; rfl
theorem abs_u64 (v : BitVec 64) : Gen.Math.abs_u64 v = v := by
  rw [gen_abs_u64]; exact abs_unsigned v
/-- Clamp(v,lo,hi) with lo ≤ hi: v when lo ≤ v ≤ hi, else the nearer bound -/
theorem clamp_u64 (v lo hi : BitVec 64) (h : (lo.toNat : Int) ≤ (hi.toNat : Int)) :
    ((lo.toNat : Int) ≤ (v.toNat : Int) → (v.toNat : Int) ≤ (hi.toNat : Int) → Gen.Math.clamp_u64 v lo hi = v) ∧
    ((v.toNat : Int) < (lo.toNat : Int) → Gen.Math.clamp_u64 v lo hi = lo) ∧
    ((hi.toNat : Int) < (v.toNat : Int) → Gen.Math.clamp_u64 v lo hi = hi) := by
  rw [gen_clamp_u64]
  exact clamp_cases false v lo hi h
example : ((1#64).toNat : Int) ≤ ((3#64).toNat : Int) := by decide
/-- Clamp01 is Clamp to [0,1] -/
theorem clamp01_u64 (v : BitVec 64) :
    Gen.Math.clamp01_u64 v = Gen.Math.clamp_u64 v 0#64 1#64 ∧
    ((Gen.Math.clamp01_u64 v).toNat : Int) = Spec.Math.clamp (v.toNat : Int) 0 1 := by
  rw [gen_clamp01_u64, gen_clamp_u64]
  exact ⟨rfl, clamp01_toInt false (by omega) v⟩
/-- Compare agrees with the built-in order -/
theorem compare_u64 (a b : BitVec 64) :
    Gen.Math.compare_u64 a b = Spec.Math.compare (a.toNat : Int) (b.toNat : Int) ∧
    (Gen.Math.compare_u64 a b = 0 ↔ a = b) ∧
    (Gen.Math.compare_u64 a b = -1 ↔ (a.toNat : Int) < (b.toNat : Int)) ∧
    (Gen.Math.compare_u64 a b = 1 ↔ (b.toNat : Int) < (a.toNat : Int)) := by
  rw [gen_compare_u64]
  exact ⟨compare_toInt false a b, compare_zero_iff false a b⟩
theorem less_u64 (a b : BitVec 64) : Gen.Math.less_u64 a b = decide ((a.toNat : Int) < (b.toNat : Int)) := by
  rw [gen_less_u64]
  exact less_toInt false a b

/-! ## Part 2 — the model -/

/-- the model's Digits10 / DigitsSign10 (any width up to 64) against the specification on mathematical integers -/
theorem model_digits10 (sg : Bool) {w : Nat} (hw : 0 < w) (hw64 : w ≤ 64) (v : BitVec w) :
    Model.Math.digits10 sg v = Spec.Math.digits10 (Model.Math.toInt sg v) ∧
    Model.Math.digitsSign10 sg v = Spec.Math.digitsSign10 (Model.Math.toInt sg v) := by
  cases sg
  · have hi : Model.Math.toInt false v = (v.toNat : Int) := rfl
    rw [hi, digits10_unsigned hw64, digitsSign10_unsigned hw64]
    refine ⟨?_, ?_⟩
    · simp [Spec.Math.digits10]
    · unfold Spec.Math.digitsSign10
      rw [if_neg (by omega), Int.natAbs_natCast]; rfl
  · have hi : Model.Math.toInt true v = v.toInt := rfl
    rw [hi, digits10_signed hw hw64, digitsSign10_signed hw hw64]
    refine ⟨rfl, ?_⟩
    unfold Spec.Math.digitsSign10
    by_cases h : v.toInt < 0 <;> simp [h]

example : (0 : Nat) < 8 ∧ 8 ≤ 64 := by decide

/-- Min: panics (custom) exactly for no arguments; otherwise the result is an argument and no argument is smaller.
`lt` is any transitive irreflexive relation (ints, floats without NaN, strings). -/
theorem min {α : Type} (lt : α → α → Bool)
    (irrefl : ∀ a, lt a a = false) (trans : ∀ a b c, lt a b = true → lt b c = true → lt a c = true)
    (l : List α) :
    (l = [] → Model.Math.min lt l = .error Model.Math.pCustom) ∧
    (l ≠ [] → ∃ r, Model.Math.min lt l = .ok r ∧ r ∈ l ∧ ∀ y ∈ l, lt y r = false) :=
  min_spec lt irrefl trans l

example : (∀ a : Int, decide (a < a) = false) ∧ (∀ a b c : Int, decide (a < b) = true → decide (b < c) = true → decide (a < c) = true) :=
  ⟨fun a => by simp, fun a b c h1 h2 => by simp at *; omega⟩

/-- Max: the result is an argument and is smaller than no argument -/
theorem max {α : Type} (lt : α → α → Bool)
    (irrefl : ∀ a, lt a a = false) (trans : ∀ a b c, lt a b = true → lt b c = true → lt a c = true)
    (l : List α) :
    (l = [] → Model.Math.max lt l = .error Model.Math.pCustom) ∧
    (l ≠ [] → ∃ r, Model.Math.max lt l = .ok r ∧ r ∈ l ∧ ∀ y ∈ l, lt r y = false) :=
  max_spec lt irrefl trans l

/-- Min / Max at the integer types: the mathematical minimum / maximum of the arguments -/
theorem min_int (sg : Bool) {w : Nat} (l : List (BitVec w)) (hl : l ≠ []) :
    ∃ r, Model.Math.min (Model.Math.lt sg) l = .ok r ∧ r ∈ l ∧ ∀ y ∈ l, Model.Math.toInt sg r ≤ Model.Math.toInt sg y := by
  obtain ⟨r, h1, h2, h3⟩ := (min_spec (Model.Math.lt sg)
    (fun a => by rw [lt_iff]; simp)
    (fun a b c h1 h2 => by rw [lt_iff] at *; simp at *; omega) l).2 hl
  refine ⟨r, h1, h2, fun y hy => ?_⟩
  have := h3 y hy
  rw [lt_iff] at this; simp at this; omega

theorem max_int (sg : Bool) {w : Nat} (l : List (BitVec w)) (hl : l ≠ []) :
    ∃ r, Model.Math.max (Model.Math.lt sg) l = .ok r ∧ r ∈ l ∧ ∀ y ∈ l, Model.Math.toInt sg y ≤ Model.Math.toInt sg r := by
  obtain ⟨r, h1, h2, h3⟩ := (max_spec (Model.Math.lt sg)
    (fun a => by rw [lt_iff]; simp)
    (fun a b c h1 h2 => by rw [lt_iff] at *; simp at *; omega) l).2 hl
  refine ⟨r, h1, h2, fun y hy => ?_⟩
  have := h3 y hy
  rw [lt_iff] at this; simp at this; omega

example : ([1#8, 2#8] : List (BitVec 8)) ≠ [] := by decide

/-- Sum is the left-to-right wrapping sum, 0 for no arguments -/
theorem sum (sg : Bool) {w : Nat} (hw : 0 < w) (vs : List (BitVec w)) :
    Model.Math.toInt sg (Model.Math.sum vs) = Spec.Math.sum sg w (vs.map (Model.Math.toInt sg)) ∧
    Model.Math.sum ([] : List (BitVec w)) = 0#w ∧
    ∀ x, Model.Math.sum (vs ++ [x]) = Model.Math.sum vs + x := by
  refine ⟨sum_toInt sg hw vs, rfl, fun x => ?_⟩
  simp [Model.Math.sum, List.foldl_append]

/-- Product is the left-to-right wrapping product, 1 for no arguments -/
theorem product (sg : Bool) {w : Nat} (hw : 1 < w) (vs : List (BitVec w)) :
    Model.Math.toInt sg (Model.Math.product vs) = Spec.Math.product sg w (vs.map (Model.Math.toInt sg)) ∧
    Model.Math.product ([] : List (BitVec w)) = 1#w ∧
    ∀ x, Model.Math.product (vs ++ [x]) = Model.Math.product vs * x := by
  refine ⟨product_toInt sg hw vs, rfl, fun x => ?_⟩
  simp [Model.Math.product, List.foldl_append]

example : (1 : Nat) < 8 := by decide

/-- Coal returns the first non-zero argument, or zero -/
theorem coal {α : Type} [DecidableEq α] (z : α) (l : List α) :
    Model.Math.coal z l = (l.find? (fun v => decide (v ≠ z))).getD z :=
  coal_spec z l

theorem coal_int (l : List Int) : Model.Math.coal 0 l = Spec.Math.coal l := by
  induction l with
  | nil => rfl
  | cons v vs ih => simp only [Model.Math.coal, Spec.Math.coal, ih]

/-- IsZero: true for the zero value; otherwise the `IsZero()` method decides when the type has one -/
theorem isZero {α : Type} [DecidableEq α] (z : α) (m : Option (α → Bool)) (v : α) :
    (v = z → Model.Math.isZero z m v = true) ∧
    (v ≠ z → Model.Math.isZero z none v = false) ∧
    (v ≠ z → ∀ f, Model.Math.isZero z (some f) v = f v) := by
  refine ⟨fun h => ?_, fun h => ?_, fun h f => ?_⟩ <;> simp [Model.Math.isZero, h]

theorem tern {α : Type} (a b : α) : Model.Math.tern true a b = a ∧ Model.Math.tern false a b = b := ⟨rfl, rfl⟩

theorem ternCast {α : Type} (v : Option α) (b : α) :
    Model.Math.ternCast false v b = .ok b ∧ (∀ a, Model.Math.ternCast true (some a) b = .ok a) := ⟨rfl, fun _ => rfl⟩

theorem zero_ref_deref {α : Type} (z v : α) :
    Model.Math.zero z = z ∧ Model.Math.zeroOf z v = z ∧
    Model.Math.derefZero z (Model.Math.ref v) = v ∧ Model.Math.derefZero z none = z ∧
    Model.Math.isNil (none : Option α) = true ∧ Model.Math.isNil (some v) = false := ⟨rfl, rfl, rfl, rfl, rfl, rfl⟩

end C20

/-! axioms audit -/
#print axioms C20.gen_digits10_i8
#print axioms C20.gen_digitsSign10_i8
#print axioms C20.gen_abs_i8
#print axioms C20.gen_clamp_i8
#print axioms C20.gen_clamp01_i8
#print axioms C20.gen_compare_i8
#print axioms C20.gen_less_i8
#print axioms C20.digits10_i8
#print axioms C20.digitsSign10_i8
#print axioms C20.digits10_i8_min
#print axioms C20.abs_i8
#print axioms C20.abs_i8_min
#print axioms C20.clamp_i8
#print axioms C20.clamp01_i8
#print axioms C20.compare_i8
#print axioms C20.less_i8
#print axioms C20.gen_digits10_i16
#print axioms C20.gen_digitsSign10_i16
#print axioms C20.gen_abs_i16
#print axioms C20.gen_clamp_i16
#print axioms C20.gen_clamp01_i16
#print axioms C20.gen_compare_i16
#print axioms C20.gen_less_i16
#print axioms C20.digits10_i16
#print axioms C20.digitsSign10_i16
#print axioms C20.digits10_i16_min
#print axioms C20.abs_i16
#print axioms C20.abs_i16_min
#print axioms C20.clamp_i16
#print axioms C20.clamp01_i16
#print axioms C20.compare_i16
#print axioms C20.less_i16
#print axioms C20.gen_digits10_i32
#print axioms C20.gen_digitsSign10_i32
#print axioms C20.gen_abs_i32
#print axioms C20.gen_clamp_i32
#print axioms C20.gen_clamp01_i32
#print axioms C20.gen_compare_i32
#print axioms C20.gen_less_i32
#print axioms C20.digits10_i32
#print axioms C20.digitsSign10_i32
#print axioms C20.digits10_i32_min
#print axioms C20.abs_i32
#print axioms C20.abs_i32_min
#print axioms C20.clamp_i32
#print axioms C20.clamp01_i32
#print axioms C20.compare_i32
#print axioms C20.less_i32
#print axioms C20.gen_digits10_i64
#print axioms C20.gen_digitsSign10_i64
#print axioms C20.gen_abs_i64
#print axioms C20.gen_clamp_i64
#print axioms C20.gen_clamp01_i64
#print axioms C20.gen_compare_i64
#print axioms C20.gen_less_i64
#print axioms C20.digits10_i64
#print axioms C20.digitsSign10_i64
#print axioms C20.digits10_i64_min
#print axioms C20.abs_i64
#print axioms C20.abs_i64_min
#print axioms C20.clamp_i64
#print axioms C20.clamp01_i64
#print axioms C20.compare_i64
#print axioms C20.less_i64
#print axioms C20.gen_digits10_u8
#print axioms C20.gen_digitsSign10_u8
#print axioms C20.gen_abs_u8
#print axioms C20.gen_clamp_u8
#print axioms C20.gen_clamp01_u8
#print axioms C20.gen_compare_u8
#print axioms C20.gen_less_u8
#print axioms C20.digits10_u8
#print axioms C20.digitsSign10_u8
#print axioms C20.abs_u8
#print axioms C20.clamp_u8
#print axioms C20.clamp01_u8
#print axioms C20.compare_u8
#print axioms C20.less_u8
#print axioms C20.gen_digits10_u16
#print axioms C20.gen_digitsSign10_u16
#print axioms C20.gen_abs_u16
#print axioms C20.gen_clamp_u16
#print axioms C20.gen_clamp01_u16
#print axioms C20.gen_compare_u16
#print axioms C20.gen_less_u16
#print axioms C20.digits10_u16
#print axioms C20.digitsSign10_u16
#print axioms C20.abs_u16
#print axioms C20.clamp_u16
#print axioms C20.clamp01_u16
#print axioms C20.compare_u16
#print axioms C20.less_u16
#print axioms C20.gen_digits10_u32
#print axioms C20.gen_digitsSign10_u32
#print axioms C20.gen_abs_u32
#print axioms C20.gen_clamp_u32
#print axioms C20.gen_clamp01_u32
#print axioms C20.gen_compare_u32
#print axioms C20.gen_less_u32
#print axioms C20.digits10_u32
#print axioms C20.digitsSign10_u32
#print axioms C20.abs_u32
#print axioms C20.clamp_u32
#print axioms C20.clamp01_u32
#print axioms C20.compare_u32
#print axioms C20.less_u32
#print axioms C20.gen_digits10_u64
#print axioms C20.gen_digitsSign10_u64
#print axioms C20.gen_abs_u64
#print axioms C20.gen_clamp_u64
#print axioms C20.gen_clamp01_u64
#print axioms C20.gen_compare_u64
#print axioms C20.gen_less_u64
#print axioms C20.digits10_u64
#print axioms C20.digitsSign10_u64
#print axioms C20.abs_u64
#print axioms C20.clamp_u64
#print axioms C20.clamp01_u64
#print axioms C20.compare_u64
#print axioms C20.less_u64
#print axioms C20.model_digits10
#print axioms C20.min
#print axioms C20.max
#print axioms C20.min_int
#print axioms C20.max_int
#print axioms C20.sum
#print axioms C20.product
#print axioms C20.coal
#print axioms C20.coal_int
#print axioms C20.isZero
#print axioms C20.tern
#print axioms C20.ternCast
#print axioms C20.zero_ref_deref
