import TypVerif.Lemmas.AtomicObj
import TypVerif.Lemmas.AtomicValue
import TypVerif.Lemmas.Pool
import TypVerif.Lemmas.PoolSource
import TypVerif.Lemmas.PoolLin
/-
C18: "AtomicValue[T] behaves under any interleaving as one atomic register: Load returns the zero value
before the first Store and otherwise the most recently stored value, Swap returns the value it replaced, and
once a value has been stored CompareAndSwap succeeds exactly when the current value equals old - each call
taking effect atomically between its invocation and return. Pool[T].Get returns either a value previously
Put and not handed out since, or a fresh result of New (the zero value when New is nil), so no value is ever
held by two Get callers at once. Concurrent Get and Put calls are free of data races."

Systems: `AtomicObj.sys AtomicValue.spec menu n` and `Pool.sys hasNew menu n`: `n` goroutines (any n) calling
operations from `menu` (any finite menu) in any order and interleaving.
-/
namespace C18
open TypVerif TypVerif.Conc TypVerif.Model

/-! ## generic: the atomic-object system is linearizable (all schedules) -/

theorem AtomicObj.linearizable (S : AtomicObj.Spec) [DecidableEq S.Op] [DecidableEq S.Res]
    (menu : List S.Op) (n : Nat) {ls : List (Option (AtomicObj.Event S.Op S.Res))}
    {s : (AtomicObj.sys S menu n).State}
    (he : Exec (AtomicObj.sys S menu n) (AtomicObj.sys S menu n).init ls s) :
    AtomicObj.Linearizable S (visible ls) :=
  Lemmas.AtomicObj.linearizable S menu n he

/-- the linearization point lies inside the operation's interval (so real-time order is respected) -/
theorem AtomicObj.lin_in_interval {Op Res : Type} [DecidableEq Op] [DecidableEq Res]
    (t : Nat) (op : Op) (r : Res) (pre post : List (AtomicObj.Entry Op Res))
    (h : (AtomicObj.runThread t (post ++ AtomicObj.Entry.lin t op r :: pre)).isSome = true) :
    AtomicObj.runThread t pre = some (.pending op) ∧
    ∀ post1 e post2, post = post2 ++ e :: post1 → e.tid = t → (∀ x ∈ post1, x.tid ≠ t) →
      e = AtomicObj.Entry.res t r :=
  Lemmas.AtomicObj.lin_in_interval t op r pre post h

/-! ## AtomicValue -/
section Register
open TypVerif.Model.AtomicValue TypVerif.Spec.Register TypVerif.Lemmas.AtomicValue

/-- each wrapper method is one atomic step (`AtomicValue.spec` is an `AtomicObj` instance whose `apply` has
exactly one outcome) and that outcome is one the register specification allows — equal to it once a value
has been stored; so every execution is linearizable to the register, the step being the instant. -/
theorem register :
    (∀ σ op, (AtomicValue.apply σ op).length = 1) ∧
    (∀ σ op p, p ∈ AtomicValue.apply σ op → p ∈ Spec.Register.apply σ op) ∧
    (∀ c op, AtomicValue.apply (some c) op = Spec.Register.apply (some c) op) ∧
    (∀ (menu : List Op) (n : Nat) (ls : List (Option (AtomicObj.Event Op Res)))
       (s : (AtomicObj.sys AtomicValue.spec menu n).State),
       Exec (AtomicObj.sys AtomicValue.spec menu n) (AtomicObj.sys AtomicValue.spec menu n).init ls s →
       AtomicObj.Linearizable Spec.Register.spec (visible ls)) :=
  ⟨Lemmas.AtomicValue.apply_length, Lemmas.AtomicValue.apply_refines, Lemmas.AtomicValue.apply_eq_after_store,
   fun menu n _ _ he => Lemmas.AtomicValue.linearizable_register menu n he⟩

/-- Load returns the zero value before the first store (no Store/Swap/successful CAS has taken effect) -/
theorem load_zero_before_store {menu : List Op} {n : Nat} {s s' : AtomicObj.State (Option Int) Op Res}
    {t : Nat} {r : Res}
    (hr : Reachable (AtomicObj.sys AtomicValue.spec menu n) s)
    (hnone : lastStored (AtomicObj.linsOf s.log) = none) (h : LinStep menu s s' t .load r) :
    r = .val 0 ∧ s'.obj = s.obj := by
  have ho : s.obj = none := (Lemmas.AtomicValue.obj_eq_lastStored menu n s hr).trans hnone
  have := linStep_apply h
  simp only [AtomicValue.apply, List.mem_singleton, Prod.mk.injEq] at this
  rw [ho] at this
  exact ⟨this.2, by rw [ho]; exact this.1⟩

/-- otherwise Load returns the most recently stored value (in linearization order) -/
theorem load_latest {menu : List Op} {n : Nat} {s s' : AtomicObj.State (Option Int) Op Res}
    {t : Nat} {r : Res} {v : Int}
    (hr : Reachable (AtomicObj.sys AtomicValue.spec menu n) s)
    (hlast : lastStored (AtomicObj.linsOf s.log) = some v) (h : LinStep menu s s' t .load r) :
    r = .val v ∧ s'.obj = s.obj := by
  have ho : s.obj = some v := (Lemmas.AtomicValue.obj_eq_lastStored menu n s hr).trans hlast
  have := linStep_apply h
  simp only [AtomicValue.apply, List.mem_singleton, Prod.mk.injEq] at this
  rw [ho] at this
  exact ⟨this.2, by rw [ho]; exact this.1⟩

/-- Swap returns the value it replaced (zero if none) and stores the new one -/
theorem swap_returns_previous {menu : List Op} {n : Nat} {s s' : AtomicObj.State (Option Int) Op Res}
    {t : Nat} {r : Res} {v : Int}
    (hr : Reachable (AtomicObj.sys AtomicValue.spec menu n) s) (h : LinStep menu s s' t (.swap v) r) :
    r = .val (cur (lastStored (AtomicObj.linsOf s.log))) ∧ s'.obj = some v := by
  have ho := Lemmas.AtomicValue.obj_eq_lastStored menu n s hr
  have := linStep_apply h
  simp only [AtomicValue.apply, atomSwap, List.mem_singleton, Prod.mk.injEq] at this
  rw [← ho]
  refine ⟨?_, this.1⟩
  rw [this.2]
  cases s.obj <;> rfl

/-- once a value has been stored, CompareAndSwap succeeds exactly when the current value equals `old`,
and then (only then) replaces it -/
theorem cas_iff_equal {menu : List Op} {n : Nat} {s s' : AtomicObj.State (Option Int) Op Res}
    {t : Nat} {r : Res} {c old new : Int}
    (hr : Reachable (AtomicObj.sys AtomicValue.spec menu n) s)
    (hlast : lastStored (AtomicObj.linsOf s.log) = some c) (h : LinStep menu s s' t (.cas old new) r) :
    r = .bool (decide (c = old)) ∧ s'.obj = some (if c = old then new else c) := by
  have ho : s.obj = some c := (Lemmas.AtomicValue.obj_eq_lastStored menu n s hr).trans hlast
  have := linStep_apply h
  rw [ho] at this
  by_cases e : c = old
  · simp only [AtomicValue.apply, atomCAS, e, if_true, List.mem_singleton, Prod.mk.injEq] at this
    simp [e, this.1, this.2]
  · have e' : ¬ (some c = some old) := by simpa using e
    simp only [AtomicValue.apply, atomCAS, e', if_false, List.mem_singleton, Prod.mk.injEq] at this
    simp [e, this.1, this.2]

/-! non-vacuity: store 7 ‖ load; cas on the empty value fails although Load shows 0 -/
example : Conc.accepts (AtomicObj.sys AtomicValue.spec [.load, .store 7, .cas 0 5] 2) 16
    [.inv 0 (.store 7), .inv 1 .load, .res 1 (.val 7), .res 0 .done, .inv 1 .load, .res 1 (.val 7)] = true := by
  decide
example : Conc.accepts (AtomicObj.sys AtomicValue.spec [.load, .store 7, .cas 0 5] 2) 16
    [.inv 0 (.store 7), .res 0 .done, .inv 1 .load, .res 1 (.val 0)] = false := by decide
example : Conc.accepts (AtomicObj.sys AtomicValue.spec [.load, .store 7, .cas 0 5] 2) 16
    [.inv 0 .load, .res 0 (.val 0), .inv 0 (.cas 0 5), .res 0 (.bool false)] = true := by decide

end Register

/-! ## Pool -/
section PoolSec
open TypVerif.Model.Pool TypVerif.Lemmas.Pool

/-- in every reachable state no item is owned by two goroutines, owned twice by one, or owned and in the pool
(callers put only what they hold: built into `Pool.sys`); the pool holds no item twice -/
theorem pool_no_double {hasNew : Bool} {menu : List Op} {n : Nat} {s : State}
    (h : Reachable (sys hasNew menu n) s) :
    (∀ t1 t2 id, id ∈ (s.thr t1).items → id ∈ (s.thr t2).items → t1 = t2) ∧
    (∀ t, (s.thr t).items.Nodup) ∧
    (∀ t id, id ∈ (s.thr t).items → id ∉ s.bag) ∧
    s.bag.Nodup :=
  let hg := good_reachable hasNew menu n s h
  ⟨hg.owner, hg.nodupT, hg.notBag, hg.nodupB⟩

/-- a `Get` result is an item removed from the pool by this very call, or a fresh `New` id, or zero;
and it is zero iff `New` is nil -/
theorem pool_get_source {hasNew : Bool} {menu : List Op} {n : Nat} {s s' : State} {l : Option Event}
    {t : Nat} {x : Option Nat}
    (h : Reachable (sys hasNew menu n) s) (hstep : (l, s') ∈ (sys hasNew menu n).succ s)
    (hpc' : (s'.thr t).pc = .gRet x) :
    ((s.thr t).pc = .gRet x ∨
     (hasNew = false ∧ x = none ∧ s'.bag = s.bag ∧ s'.fresh = s.fresh) ∨
     (∃ i, x = some i ∧ i ∈ s.bag ∧ s'.bag = s.bag.erase i ∧ s'.fresh = s.fresh) ∨
     (x = some s.fresh ∧ s'.fresh = s.fresh + 1 ∧ s'.bag = s.bag)) ∧
    (x.getD 0 = 0 ↔ hasNew = false) := by
  constructor
  · rcases get_source hstep hpc' with h1 | ⟨_, h2⟩ | ⟨_, h3⟩ | ⟨_, h4⟩
    · exact Or.inl h1
    · exact Or.inr (Or.inl h2)
    · exact Or.inr (Or.inr (Or.inl h3))
    · exact Or.inr (Or.inr (Or.inr h4))
  · have hr' : Reachable (sys hasNew menu n) s' := Reachable.step h hstep
    have hn := newOk_reachable hasNew menu n s' hr' t
    have hg := good_reachable hasNew menu n s' hr'
    rw [hpc'] at hn
    cases x with
    | none => simpa using hn
    | some i =>
      simp only at hn
      have hi : i ≠ 0 := (hg.known i (Or.inr ⟨t, by simp [Owns, items_eq, hpc', localItems]⟩)).1
      simp [hn, hi]

/-- … and the `res` event reports exactly that value -/
theorem pool_get_result {hasNew : Bool} {menu : List Op} {n : Nat} {s s' : State} {t id : Nat}
    (hstep : (some (AtomicObj.Event.res t (Res.item id)), s') ∈ (sys hasNew menu n).succ s) :
    ∃ x, (s.thr t).pc = .gRet x ∧ id = x.getD 0 :=
  res_item_step hstep

/-- every execution of the wrapper-level system is linearizable to the bag: `Get` returns an item put before and
not handed out since, or a fresh `New()`, or zero when `New` is nil — each call taking effect at one instant -/
theorem pool_linearizable (hasNew : Bool) (menu : List Op) (n : Nat) {ls : List (Option Event)}
    {s : (sys hasNew menu n).State} (he : Exec (sys hasNew menu n) (sys hasNew menu n).init ls s) :
    AtomicObj.Linearizable (bagSpec hasNew) (visible ls) :=
  Lemmas.Pool.pool_linearizable hasNew menu n he

/-- no reachable state has two goroutines about to perform conflicting plain accesses -/
theorem pool_race_free {hasNew : Bool} {menu : List Op} {n : Nat} {s : State}
    (_h : Reachable (sys hasNew menu n) s) : ¬ racy false s :=
  not_racy s

/-! non-vacuity -/
-- two goroutines, an item put and got back by the other one
example : Conc.accepts (sys true [.get, .put 5] 2) 16
    [.inv 0 (.put 5), .res 0 .done, .inv 1 .get, .res 1 (.item 5), .inv 0 .get, .res 0 (.item 1000)] = true := by
  decide
-- the same item cannot be handed out twice
example : Conc.accepts (sys true [.get, .put 5] 2) 16
    [.inv 0 (.put 5), .res 0 .done, .inv 1 .get, .res 1 (.item 5), .inv 0 .get, .res 0 (.item 5)] = false := by
  decide
-- the race theorem discriminates: with the pinned `Get` (which wrote `p.pool.New`) two goroutines that have
-- both passed the nil check are racy
def racyState : State := { thrs := [⟨.g1, []⟩, ⟨.g1, []⟩], bag := [], fresh := 1000, minted := [] }
example : racyState ∈ Conc.after (sys true [.get] 2) 16 [.inv 0 .get, .inv 1 .get] := by decide
example : racy true racyState := ⟨0, 1, by decide, ⟨.poolNew, true⟩, by decide, ⟨.poolNew, true⟩, by decide, by decide⟩

end PoolSec
end C18

#print axioms C18.AtomicObj.linearizable
#print axioms C18.AtomicObj.lin_in_interval
#print axioms C18.register
#print axioms C18.load_zero_before_store
#print axioms C18.load_latest
#print axioms C18.swap_returns_previous
#print axioms C18.cas_iff_equal
#print axioms C18.pool_no_double
#print axioms C18.pool_get_source
#print axioms C18.pool_get_result
#print axioms C18.pool_linearizable
#print axioms C18.pool_race_free
