import TypVerif.Lemmas.C19Complete
import TypVerif.Props.C19accept
/-
C19 — THE OUTCOME ENUMERATION IS COMPLETE for the timed-helper lines of the judge `Drv/C19.lean`
(`sendtimeout / sendcontext / recvtimeout / recvcontext`, functions `sendLine` / `recvLine`).

`Props/C19accept.lean` proves soundness: every enumerated outcome is the outcome of an execution of the scenario system.  Here the
converse: the fuel-bounded enumeration loses nothing.

Every step of `sendSys p` / `recvSys p` is internal and strictly decreases a measure (`Lemmas/C19Complete.lean`: rank of the
helper's program counter (start 4, blk/sel 3, wait 2, stop 1, done 0) + 1 while the timer / context has not fired + the peers'
receive budget + the number of values the peers still send, + 1 while the channel is open on the receive side).  So EVERY
execution from the initial state — for every parameter set `p`, not only the scenarios — has at most

    boundS p = 5 + p.peerRecvs + p.peerSends.length     (send)         ≤ 6 for `sendScenario`
    boundR p = 6 + p.peerRecvs + p.peerSends.length     (receive)      ≤ 7 for `recvScenario`

steps (`exec_length_send`, `exec_length_recv`), and `sendOutcomes fuel p` / `recvOutcomes fuel p` contain the outcome (by the
driver's projection `sendFinal` / `recvFinal`) of every execution as soon as `fuel` is at least that bound
(`sendOutcomes_complete`, `recvOutcomes_complete`; with soundness: `sendOutcomes_iff`, `recvOutcomes_iff`).  The driver's fuel is
64 (`Drv.C19.fuel`).  No termination hypothesis is needed (a terminated execution is an execution whose last state has
`sendFinal s = some o`: `sendFinal` already demands that the helper returned and the peer has nothing left to take).

Consequently the judge never rejects a model outcome: for a well-formed line (`fill ≤ cap`, `peer ≤ 2` resp. `≤ 1` — otherwise the
judge answers `bad-op`) and every outcome `o` of an execution of the scenario system, the line with `impl := renderSend o`
(resp. `renderRecv o`) has `model = impl` (`sendLine_accepts_model_outcome`, `recvLine_accepts_model_outcome`), i.e. is in one of
the two accepted rows of `verdict` (ok, or — never, by `C19.send_iff` — int), and never `rejected:not-in-{…}`.
With soundness: `sendLine_accept_iff`, `recvLine_accept_iff` (the latter two are stated for result strings that are not one of the
judge's own diagnostics, as in `Props/C19accept.lean`).
-/
namespace C19
open TypVerif TypVerif.Conc TypVerif.Model.Chan TypVerif.Model.ChanHelpers TypVerif.Drv.C19
open TypVerif.Lemmas.C19Accept (Diagnostic)
open TypVerif.Lemmas.C19Complete (boundS boundR)

/-- the bounds, spelled out -/
theorem boundS_eq (p : Params) : boundS p = 5 + p.peerRecvs + p.peerSends.length := rfl
theorem boundR_eq (p : Params) : boundR p = 6 + p.peerRecvs + p.peerSends.length := rfl

/-- every step of the send system is internal and every execution from the initial state has at most `boundS p` steps -/
theorem exec_length_send (p : Params) {s : SState} {ls : List (Option Unit)} (h : Exec (sendSys p) (initS p) ls s) :
    visible ls = [] ∧ ls.length ≤ boundS p :=
  Lemmas.C19Complete.execS_length p h

theorem exec_length_recv (p : Params) {s : RState} {ls : List (Option Unit)} (h : Exec (recvSys p) (initR p) ls s) :
    visible ls = [] ∧ ls.length ≤ boundR p :=
  Lemmas.C19Complete.execR_length p h

/-- the judge's scenarios: at most 6 resp. 7 steps; the driver explores with fuel 64 -/
theorem boundS_scenario (mode : Mode) (cap fill peer : Nat) : boundS (sendScenario mode cap fill peer) ≤ fuel :=
  Nat.le_trans (Lemmas.C19Complete.boundS_scenario mode cap fill peer) (by decide)

theorem boundR_scenario (mode : Mode) (cap fill : Nat) (closed : Bool) (peer : Nat) :
    boundR (recvScenario mode cap fill closed peer) ≤ fuel :=
  Nat.le_trans (Lemmas.C19Complete.boundR_scenario mode cap fill closed peer) (by decide)

/-- **completeness of the send enumeration**: the outcome of every execution from the initial state is enumerated -/
theorem sendOutcomes_complete (fuel : Nat) (p : Params) (hb : boundS p ≤ fuel) {s : SState} {ls : List (Option Unit)}
    {o : Bool × List Int × List Int} (h : Exec (sendSys p) (initS p) ls s) (hf : sendFinal s = some o) :
    o ∈ sendOutcomes fuel p :=
  Lemmas.C19Complete.sendOutcomes_complete fuel p hb h hf

/-- **completeness of the receive enumeration** -/
theorem recvOutcomes_complete (fuel : Nat) (p : Params) (hb : boundR p ≤ fuel) {s : RState} {ls : List (Option Unit)}
    {o : Int × Bool × List Int} (h : Exec (recvSys p) (initR p) ls s) (hf : recvFinal s = some o) :
    o ∈ recvOutcomes fuel p :=
  Lemmas.C19Complete.recvOutcomes_complete fuel p hb h hf

/-- the enumeration is exactly the set of outcomes of the scenario system -/
theorem sendOutcomes_iff (fuel : Nat) (p : Params) (hb : boundS p ≤ fuel) (o : Bool × List Int × List Int) :
    o ∈ sendOutcomes fuel p ↔
      ∃ (ls : List (Option Unit)) (s : SState), Exec (sendSys p) (initS p) ls s ∧ sendFinal s = some o := by
  constructor
  · intro h
    obtain ⟨ls, s, hex, _, hf⟩ := sendOutcomes_sound fuel p o h
    exact ⟨ls, s, hex, hf⟩
  · rintro ⟨ls, s, hex, hf⟩
    exact sendOutcomes_complete fuel p hb hex hf

theorem recvOutcomes_iff (fuel : Nat) (p : Params) (hb : boundR p ≤ fuel) (o : Int × Bool × List Int) :
    o ∈ recvOutcomes fuel p ↔
      ∃ (ls : List (Option Unit)) (s : RState), Exec (recvSys p) (initR p) ls s ∧ recvFinal s = some o := by
  constructor
  · intro h
    obtain ⟨ls, s, hex, _, hf⟩ := recvOutcomes_sound fuel p o h
    exact ⟨ls, s, hex, hf⟩
  · rintro ⟨ls, s, hex, hf⟩
    exact recvOutcomes_complete fuel p hb hex hf

/-- more fuel than the bound changes nothing: the enumerated sets agree (as sets) for all sufficient fuels -/
theorem sendOutcomes_fuel_irrelevant (f1 f2 : Nat) (p : Params) (h1 : boundS p ≤ f1) (h2 : boundS p ≤ f2)
    (o : Bool × List Int × List Int) : o ∈ sendOutcomes f1 p ↔ o ∈ sendOutcomes f2 p := by
  rw [sendOutcomes_iff f1 p h1, sendOutcomes_iff f2 p h2]

theorem recvOutcomes_fuel_irrelevant (f1 f2 : Nat) (p : Params) (h1 : boundR p ≤ f1) (h2 : boundR p ≤ f2)
    (o : Int × Bool × List Int) : o ∈ recvOutcomes f1 p ↔ o ∈ recvOutcomes f2 p := by
  rw [recvOutcomes_iff f1 p h1, recvOutcomes_iff f2 p h2]

/-- **send lines never reject a model outcome**: on a well-formed line, the rendering of the outcome of any execution of the
scenario system is accepted (`model = impl`) -/
theorem sendLine_accepts_model_outcome (op : String) (mode : Mode) (blocking : Bool) (cap fill peer : Nat)
    (hfc : fill ≤ cap) (hpeer : peer ≤ 2) {ls : List (Option Unit)} {s : SState} {o : Bool × List Int × List Int}
    (hex : Exec (sendSys (sendScenario mode cap fill peer)) (initS (sendScenario mode cap fill peer)) ls s)
    (hf : sendFinal s = some o) :
    (sendLine op mode blocking cap fill peer (renderSend o)).model = renderSend o :=
  Lemmas.C19Complete.sendLine_accepts op mode blocking cap fill peer _ hfc hpeer
    (List.mem_map.2 ⟨o, sendOutcomes_complete fuel _ (boundS_scenario mode cap fill peer) hex hf, rfl⟩)

/-- **receive lines never reject a model outcome** -/
theorem recvLine_accepts_model_outcome (op : String) (mode : Mode) (blocking : Bool) (cap fill : Nat) (closed : Bool)
    (peer : Nat) (hfc : fill ≤ cap) (hpeer : peer ≤ 1) {ls : List (Option Unit)} {s : RState} {o : Int × Bool × List Int}
    (hex : Exec (recvSys (recvScenario mode cap fill closed peer)) (initR (recvScenario mode cap fill closed peer)) ls s)
    (hf : recvFinal s = some o) :
    (recvLine op mode blocking cap fill closed peer (renderRecv o)).model = renderRecv o :=
  Lemmas.C19Complete.recvLine_accepts op mode blocking cap fill closed peer _ hfc hpeer
    (List.mem_map.2 ⟨o, recvOutcomes_complete fuel _ (boundR_scenario mode cap fill closed peer) hex hf, rfl⟩)

/-- acceptance of a send line decides exactly "the result string is the rendering of a model outcome" -/
theorem sendLine_accept_iff (op : String) (mode : Mode) (blocking : Bool) (cap fill peer : Nat) (impl : String)
    (hfc : fill ≤ cap) (hpeer : peer ≤ 2) (hnd : ¬ Diagnostic impl) :
    (sendLine op mode blocking cap fill peer impl).model = impl ↔
      ∃ (ls : List (Option Unit)) (s : SState) (o : Bool × List Int × List Int),
        Exec (sendSys (sendScenario mode cap fill peer)) (initS (sendScenario mode cap fill peer)) ls s ∧
        sendFinal s = some o ∧ renderSend o = impl := by
  constructor
  · intro h
    exact sendLine_accept_sound op mode blocking cap fill peer impl h hnd
  · rintro ⟨ls, s, o, hex, hf, hr⟩
    rw [← hr]
    exact sendLine_accepts_model_outcome op mode blocking cap fill peer hfc hpeer hex hf

theorem recvLine_accept_iff (op : String) (mode : Mode) (blocking : Bool) (cap fill : Nat) (closed : Bool) (peer : Nat)
    (impl : String) (hfc : fill ≤ cap) (hpeer : peer ≤ 1) (hnd : ¬ Diagnostic impl) :
    (recvLine op mode blocking cap fill closed peer impl).model = impl ↔
      ∃ (ls : List (Option Unit)) (s : RState) (o : Int × Bool × List Int),
        Exec (recvSys (recvScenario mode cap fill closed peer)) (initR (recvScenario mode cap fill closed peer)) ls s ∧
        recvFinal s = some o ∧ renderRecv o = impl := by
  constructor
  · intro h
    exact recvLine_accept_sound op mode blocking cap fill closed peer impl h hnd
  · rintro ⟨ls, s, o, hex, hf, hr⟩
    rw [← hr]
    exact recvLine_accepts_model_outcome op mode blocking cap fill closed peer hfc hpeer hex hf

/-- the fuel matters below the bound: with a peer receiver, a positive timeout and a full channel there is an execution of 6 = the
bound steps (start, park, timer fires, peer receives, the send case, `timer.Stop()`); fuel 2 finds no outcome at all, fuel 6 finds
what fuel 64 finds -/
example : sendOutcomes 2 (sendScenario (.timeout 2) 1 1 1) = [] ∧
    sendOutcomes 6 (sendScenario (.timeout 2) 1 1 1) = sendOutcomes fuel (sendScenario (.timeout 2) 1 1 1) := by decide

end C19

#print axioms C19.exec_length_send
#print axioms C19.exec_length_recv
#print axioms C19.boundS_scenario
#print axioms C19.boundR_scenario
#print axioms C19.sendOutcomes_complete
#print axioms C19.recvOutcomes_complete
#print axioms C19.sendOutcomes_iff
#print axioms C19.recvOutcomes_iff
#print axioms C19.sendOutcomes_fuel_irrelevant
#print axioms C19.recvOutcomes_fuel_irrelevant
#print axioms C19.sendLine_accepts_model_outcome
#print axioms C19.recvLine_accepts_model_outcome
#print axioms C19.sendLine_accept_iff
#print axioms C19.recvLine_accept_iff
