import TypVerif.Gen.AvlShapes
/-
C01 (and C02), tie 4B: the shape of every function of `avl/avl.go` is REGENERATED from the source on every run — which function calls which (the
recursion structure of add / remove / popLeftMost / rebalance / the rotations / the walks), what is stored into fields of the tree and of its nodes,
and what is returned on each path, in source order.  `Model/Avl.lean` mirrors avl.go function by function (the dynamic tie compares exact shapes with
cached heights after every operation); this list is its static counterpart: an early return, a skipped rebalance, a shortcut in `find`, a clone that copies
nodes instead of re-inserting, or a fast path on some size changes it and breaks the `rfl` — also on paths no history of the run happens to take.
-/
namespace C01

theorem gen_avl_function_shapes :
    Gen.AvlShapes.funcs =
      [("New", ["return Tree[T]{…}"]),
       ("NewOrdered", ["return New(typ.Compare[T])", "call New"]),
       ("Tree.String", ["return fmt.Sprint(n.SliceInOrder())", "call fmt.Sprint", "call n.SliceInOrder"]),
       ("Tree.Clone", ["call n.WalkPreOrder", "return clone"]),
       ("Tree.Len", ["return n.count"]),
       ("Tree.Contains", ["return false", "return n.root.contains(value, n.compare)", "call n.root.contains"]),
       ("Tree.Add", ["store n.root", "store n.root", "call n.root.add"]),
       ("Tree.Remove", ["return false", "call n.root.remove", "store n.root", "return ok"]),
       ("Tree.Clear", ["store n.root", "store n.count"]),
       ("Tree.WalkPreOrder", ["return ", "call n.root.walkPreOrder"]),
       ("Tree.WalkInOrder", ["return ", "call n.root.walkInOrder"]),
       ("Tree.WalkPostOrder", ["return ", "call n.root.walkPostOrder"]),
       ("Tree.SlicePreOrder", ["return n.slice(n.WalkPreOrder)", "call n.slice"]),
       ("Tree.SliceInOrder", ["return n.slice(n.WalkInOrder)", "call n.slice"]),
       ("Tree.SlicePostOrder", ["return n.slice(n.WalkPostOrder)", "call n.slice"]),
       ("Tree.slice", ["call make", "call f", "call append", "return slice"]),
       ("node.String", ["return fmt.Sprint(n.value)", "call fmt.Sprint"]),
       ("node.walkPreOrder", ["call f", "call n.left.walkPreOrder", "call n.right.walkPreOrder"]),
       ("node.walkInOrder", ["call n.left.walkInOrder", "call f", "call n.right.walkInOrder"]),
       ("node.walkPostOrder", ["call n.left.walkPostOrder", "call n.right.walkPostOrder", "call f"]),
       ("node.contains", ["return n.find(value, compare) != nil", "call n.find"]),
       ("node.find", ["return current", "call compare", "return nil"]),
       ("node.remove", ["return nil, true", "return n.right, true", "return n.left, true", "call n.right.popLeftMost", "store leftMost.left", "store leftMost.right", "store leftMost.height", "call leftMost.calcHeight", "return leftMost.rebalance(), true", "call leftMost.rebalance", "call compare", "call n.left.remove", "store n.left", "store n.height", "call n.calcHeight", "return n.rebalance(), true", "call n.rebalance", "call n.right.remove", "store n.right", "store n.height", "call n.calcHeight", "return n.rebalance(), true", "call n.rebalance", "return n, false"]),
       ("node.popLeftMost", ["return n.right, n", "call n.left.popLeftMost", "store n.left", "store n.height", "call n.calcHeight", "return n.rebalance(), popped", "call n.rebalance"]),
       ("node.add", ["call compare", "store n.left", "store n.left", "call n.left.add", "store n.right", "store n.right", "call n.right.add", "store n.height", "call n.calcHeight", "return n.rebalance()", "call n.rebalance"]),
       ("node.rebalance", ["call n.balance", "call n.right.leftHeight", "call n.right.rightHeight", "return n.rotateLeftRight()", "call n.rotateLeftRight", "return n.rotateLeft()", "call n.rotateLeft", "call n.balance", "call n.left.rightHeight", "call n.left.leftHeight", "return n.rotateRightLeft()", "call n.rotateRightLeft", "return n.rotateRight()", "call n.rotateRight", "return n"]),
       ("node.balance", ["call n.leftHeight", "call n.rightHeight", "return balanceLeftHeavy", "return balanceRightHeavy", "return balanceBalanced"]),
       ("node.leftHeight", ["return -1", "return n.left.height"]),
       ("node.rightHeight", ["return -1", "return n.right.height"]),
       ("node.calcHeight", ["return 0", "return 1 + n.rightHeight()", "call n.rightHeight", "return 1 + n.leftHeight()", "call n.leftHeight", "return 1 + typ.Max(n.leftHeight(), n.rightHeight())", "call typ.Max", "call n.leftHeight", "call n.rightHeight"]),
       ("node.rotateLeft", ["store prevRoot.right", "store prevRoot.right.height", "call prevRoot.right.calcHeight", "store prevRoot.height", "call prevRoot.calcHeight", "store newRoot.left", "store newRoot.height", "call newRoot.calcHeight", "return newRoot"]),
       ("node.rotateRight", ["store prevRoot.left", "store prevRoot.left.height", "call prevRoot.left.calcHeight", "store prevRoot.height", "call prevRoot.calcHeight", "store newRoot.right", "store newRoot.height", "call newRoot.calcHeight", "return newRoot"]),
       ("node.rotateLeftRight", ["store n.right", "call n.right.rotateRight", "return n.rotateLeft()", "call n.rotateLeft"]),
       ("node.rotateRightLeft", ["store n.left", "call n.left.rotateLeft", "return n.rotateRight()", "call n.rotateRight"])] := rfl

end C01
