import TypVerif.Lemmas.ObjAccept
import TypVerif.Lemmas.ObjAcceptLin
import TypVerif.Props.C18
/-
C05 — ACCEPTANCE IS SOUND for the API-level judge `Drv/ObjLin.lean`, set mode (`cset`), for histories of SINGLE
`sync2.Set` operations (Add / Remove / Has): an accepted history is the visible trace of an execution of
`AtomicObj.sys MapObj.setSpec menu N` from its initial state, hence (by `C18.AtomicObj.linearizable`) linearizable w.r.t.
the set specification `MapObj.setSpec`.

The fold the theorems are about: `runLines (step j0 [cset] impl0).1 lines` — the real `Drv.ObjLin.step`, started with the
header line `cset` in any judge state, folded over lines that are all covered by `SetLine`:
  event lines      `inv t add|remove|has v` (exactly one integer argument), `res t true|false`;
  skipped lines    `inv t len`, `res t <int>` (Len is a Range count: the judge only checks `≥ 0`; NOT part of this
                   statement), `step _ _`, `iter _ _`.
LEFT OUT: the composite operations `addset` / `removeset` (expanded by the judge into element operations with
existentially chosen results, `compClosure`): a history containing such a line is not covered by `SetLine`.  With no
composite in progress `compClosure` adds nothing (`objlin_compClosure_sub`) and `liftStep` is `stepObj` on each state.
"Accepted": `violated = none` at the end, i.e. every output so far was `ok`.  Soundness only.
-/
namespace C05
open TypVerif TypVerif.Conc TypVerif.Model TypVerif.Proto TypVerif.Drv.ObjLin
open TypVerif.Lemmas.ObjAcceptLin (SEvent SetLine Lines runLines sopOf OnlyLen)

/-- without composites in progress the composite closure adds no state -/
theorem objlin_compClosure_sub (n fuel : Nat) (cs : List CSt) (h : ∀ c ∈ cs, c.prog = []) :
    ∀ c ∈ compClosure n fuel cs, c ∈ cs :=
  Lemmas.ObjAcceptLin.compClosure_sub n fuel cs h

/-- what a covered line does to the set-mode state (as long as only `len` calls are pending among the multi-element
calls): the mode is kept, and if no violation is reported afterwards, none was reported before and — event line — the
state set was stepped by `liftStep` (with some number of goroutines) and is non-empty, — skipped line — it is unchanged -/
theorem objlin_step_set (j : JSt) (toks : List Val) (impl : String) (oe : Option SEvent) (hmode : j.st.mode = 2)
    (hol : OnlyLen j.st) (h : SetLine toks oe) :
    (step j toks impl).1.st.mode = 2 ∧ OnlyLen (step j toks impl).1.st ∧
    ((step j toks impl).1.st.violated = none → j.st.violated = none ∧
      (match (generalizing := false) oe with
       | some e => (∃ n, (step j toks impl).1.cs = liftStep n j.cs e) ∧ (step j toks impl).1.cs ≠ []
       | none => (step j toks impl).1.cs = j.cs)) := by
  obtain ⟨hst, hcs⟩ := Lemmas.ObjAcceptLin.step_set j toks impl oe hmode h
  rw [hst, hcs]
  obtain ⟨h1, h2, h3⟩ := Lemmas.ObjAcceptLin.stepSet_ok j.st j.cs toks oe h hol
  exact ⟨h1.trans hmode, h2, h3⟩

/-- **ObjLin judge, set mode**: an accepted history of single set operations is the visible trace of an execution of the
atomic set object -/
theorem objlin_accept_sound (j0 : JSt) (impl0 : String) (lines : List (List Val × String)) (tr : List SEvent)
    (hl : Lines SetLine lines tr) (hok : (runLines (step j0 [.w "cset"] impl0).1 lines).st.violated = none) :
    ∃ (N : Nat) (menu : List MapObj.SOp) (ls : List (Option SEvent)) (s : SSt),
      Exec (AtomicObj.sys MapObj.setSpec menu N) (AtomicObj.sys MapObj.setSpec menu N).init ls s ∧ visible ls = tr :=
  Lemmas.ObjAcceptLin.set_accept_sound j0 impl0 lines tr hl hok

/-- … hence it is linearizable w.r.t. the set specification -/
theorem objlin_accepted_history_linearizable (j0 : JSt) (impl0 : String) (lines : List (List Val × String))
    (tr : List SEvent) (hl : Lines SetLine lines tr)
    (hok : (runLines (step j0 [.w "cset"] impl0).1 lines).st.violated = none) :
    AtomicObj.Linearizable MapObj.setSpec tr := by
  obtain ⟨N, menu, ls, s, hex, hv⟩ := objlin_accept_sound j0 impl0 lines tr hl hok
  rw [← hv]
  exact C18.AtomicObj.linearizable MapObj.setSpec menu N hex

/-! non-vacuity: `add 5 ‖ has 5 → true` is accepted; a second successful `add 5` is not -/
example : (runLines (step {} [.w "cset"] "").1
    [([.w "inv", .i 0, .w "add", .i 5], ""), ([.w "inv", .i 1, .w "has", .i 5], ""), ([.w "res", .i 1, .w "true"], ""),
     ([.w "res", .i 0, .w "true"], "")]).st.violated = none := by decide
example : Lines SetLine
    [([.w "inv", .i 0, .w "add", .i 5], ""), ([.w "inv", .i 1, .w "has", .i 5], ""), ([.w "res", .i 1, .w "true"], ""),
     ([.w "res", .i 0, .w "true"], "")]
    [.inv 0 (.add 5), .inv 1 (.has 5), .res 1 true, .res 0 true] :=
  .ev (.inv 0 "add" [.i 5] 5 (by decide) (by decide)) (.ev (.inv 1 "has" [.i 5] 5 (by decide) (by decide))
    (.ev (.res 1 "true" (by decide)) (.ev (.res 0 "true" (by decide)) .nil)))
example : (runLines (step {} [.w "cset"] "").1
    [([.w "inv", .i 0, .w "add", .i 5], ""), ([.w "res", .i 0, .w "true"], ""),
     ([.w "inv", .i 1, .w "add", .i 5], ""), ([.w "res", .i 1, .w "true"], "")]).st.violated
      = some "not-linearizable" := by decide

end C05

#print axioms C05.objlin_compClosure_sub
#print axioms C05.objlin_step_set
#print axioms C05.objlin_accept_sound
#print axioms C05.objlin_accepted_history_linearizable
