import TypVerif.Gen.Avl
import TypVerif.Props.C01Shapes
import TypVerif.Model.Avl
import TypVerif.Lemmas.AvlBasic
/-
C02, tie 4B: the height convention, the balance thresholds, calcHeight and the rebalance guards REGENERATED from
avl/avl.go on every run equal the integer kernels of the hand-written model (`Model.Avl.*K`), which
`Lemmas.Avl.hgt_kernel … rebalance_kernel` show to be what the model functions compute.  A change of a constant
or of a guard in the Go source changes `Gen.Avl.*` and these must re-check.
-/
namespace C02
open TypVerif.Model.Avl

/-- `leftHeight()`/`rightHeight()` of a nil child: the convention nil = -1 (a leaf has height 0) -/
theorem gen_nilHeight : Gen.Avl.leftHeightNil = nilHeightK ∧ Gen.Avl.rightHeightNil = nilHeightK := by
  unfold Gen.Avl.leftHeightNil Gen.Avl.rightHeightNil nilHeightK; omega

theorem gen_balance (lh rh : Int) : Gen.Avl.balance lh rh = balanceK lh rh := by
  unfold Gen.Avl.balance balanceK
  by_cases h1 : lh - rh > 1 <;> by_cases h2 : rh - lh > 1 <;> simp [h1, h2]

theorem gen_calcHeight (ln rn : Bool) (lh rh : Int) : Gen.Avl.calcHeight ln rn lh rh = calcHeightK ln rn lh rh := by
  unfold Gen.Avl.calcHeight calcHeightK
  cases ln <;> cases rn <;> simp

/-- the branch taken by `rebalance()`, reassembled from the regenerated guards, is the model's `rebalanceK` -/
theorem gen_rebalance (bal : Int) (rNonNil : Bool) (rl rr : Int) (lNonNil : Bool) (lr ll : Int) :
    (if Gen.Avl.rightHeavyCase bal then (if Gen.Avl.doubleLeftRight (!rNonNil) rl rr then 2 else 1)
     else if Gen.Avl.leftHeavyCase bal then (if Gen.Avl.doubleRightLeft (!lNonNil) ll lr then 4 else 3)
     else 0) = rebalanceK bal rNonNil rl rr lNonNil lr ll := by
  unfold Gen.Avl.rightHeavyCase Gen.Avl.leftHeavyCase Gen.Avl.doubleLeftRight Gen.Avl.doubleRightLeft rebalanceK
  by_cases h1 : bal = 1
  · cases rNonNil <;> by_cases c : rl > rr <;> simp [h1, c]
  · by_cases h2 : bal = -1
    · cases lNonNil <;> by_cases c : lr > ll <;> simp [h2, c]
    · simp [h1, h2]

/-- consequence used by the balance proofs: a node is reported heavy exactly when the heights differ by more than one -/
theorem gen_balance_zero_iff (lh rh : Int) : Gen.Avl.balance lh rh = 0 ↔ (lh - rh ≤ 1 ∧ rh - lh ≤ 1) := by
  rw [gen_balance]; unfold balanceK
  by_cases h1 : lh - rh > 1 <;> by_cases h2 : rh - lh > 1 <;> simp [h1, h2] <;> omega

example : Gen.Avl.calcHeight true true (-1) (-1) = 0 := by decide
example : Gen.Avl.balance 1 (-1) = -1 := by decide

/-- the function shapes of avl.go (recursion structure, stores, conditions, returns), regenerated on every run, are the ones the model mirrors
(`C01.gen_shapes_avl`): a skipped rebalance or an early return on any path is a broken obligation of C02 as well -/
theorem gen_avl_function_shapes : Gen.AvlShapes.funcs.length = 34 ∧ (Gen.AvlShapes.funcs.map Prod.fst).Nodup :=
  ⟨by rw [C01.gen_shapes_avl]; rfl, by rw [C01.gen_shapes_avl]; decide⟩

end C02
