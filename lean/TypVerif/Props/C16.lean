import TypVerif.Lemmas.QueueStack
/-
C16: "A Queue returns values from Dequeue in exactly the order they were Enqueued, a Stack returns values
from Pop in exactly the reverse order they were Pushed, under every interleaving of insertions and
removals, starting from the zero value.  Peek returns what the next Dequeue/Pop would return without
removing it, Len is the number of values inside, and Dequeue/Pop/Peek on an empty container return the
zero value and false and leave it empty and usable."

Models: `Model/QueueStack.lean` (Queue over the pointer-level heap model of list.go; Stack over the slice
contents).  Specification: `Spec/QueueStack.lean` (`qstep`: FIFO list, `sstep`: LIFO list).
`Op.enq` doubles as Push and `Op.deq` as Pop for the stack.
-/
open TypVerif
open TypVerif.Model
open TypVerif.Model.Queue (Op Res)
open TypVerif.Spec.QueueStack
open TypVerif.Lemmas.QueueStack

namespace C16

/-- every script, from the zero value: the Queue model produces exactly the outputs of the FIFO specification
(Enqueue `ok`, Dequeue/Peek `(value, bool)`, Len) -/
theorem queue_refines (ops : List Op) :
    Queue.run LinkedList.Heap.empty ops = runWith qstep [] ops :=
  queue_run_sim ops QSim.init

/-- every script, from the zero value: the Stack model produces exactly the outputs of the LIFO specification -/
theorem stack_refines (ops : List Op) :
    Stack.run [] ops = runWith sstep [] ops :=
  stack_run_sim ops []

/-- in every reachable state Peek answers what the next Dequeue/Pop answers, and changes nothing -/
theorem peek_is_next (ops : List Op) :
    ((Queue.step (Queue.final LinkedList.Heap.empty ops) .peek).2
        = (Queue.step (Queue.final LinkedList.Heap.empty ops) .deq).2
      ∧ (Queue.step (Queue.final LinkedList.Heap.empty ops) .peek).1 = Queue.final LinkedList.Heap.empty ops)
    ∧ ((Stack.step (Stack.final [] ops) .peek).2 = (Stack.step (Stack.final [] ops) .deq).2
      ∧ (Stack.step (Stack.final [] ops) .peek).1 = Stack.final [] ops) := by
  constructor
  · have hq := queue_final_sim ops QSim.init
    refine ⟨?_, queue_peek_pure hq⟩
    rw [(qstep_sim hq .peek).1, (qstep_sim hq .deq).1]
    cases finalWith qstep [] ops <;> rfl
  · generalize Stack.final [] ops = s
    constructor
    · rw [(sstep_sim s .peek).1, (sstep_sim s .deq).1]
      cases s.reverse <;> rfl
    · unfold Stack.step Stack.peek
      simp only []
      split
      · rfl
      · split <;> rfl

/-- whenever the container is empty (`Len` answers 0) after any script: Dequeue/Pop and Peek answer
`(0, false)`, and afterwards the container is still empty and behaves, for every continuation `ops'`,
exactly like a fresh one -/
theorem empty_returns_zero_false_and_stays_usable (ops ops' : List Op) (op : Op)
    (hop : op = .deq ∨ op = .peek) :
    ((Queue.step (Queue.final LinkedList.Heap.empty ops) .len).2 = .int 0 →
      (Queue.step (Queue.final LinkedList.Heap.empty ops) op).2 = .pair 0 false
      ∧ (Queue.step (Queue.step (Queue.final LinkedList.Heap.empty ops) op).1 .len).2 = .int 0
      ∧ Queue.run (Queue.step (Queue.final LinkedList.Heap.empty ops) op).1 ops' = runWith qstep [] ops')
    ∧ ((Stack.step (Stack.final [] ops) .len).2 = .int 0 →
      (Stack.step (Stack.final [] ops) op).2 = .pair 0 false
      ∧ (Stack.step (Stack.step (Stack.final [] ops) op).1 .len).2 = .int 0
      ∧ Stack.run (Stack.step (Stack.final [] ops) op).1 ops' = runWith sstep [] ops') := by
  constructor
  · intro hlen
    have hq := queue_final_sim ops QSim.init
    generalize Queue.final LinkedList.Heap.empty ops = h at hq hlen ⊢
    generalize finalWith qstep [] ops = q at hq
    rw [(qstep_sim hq .len).1] at hlen
    have hq0 : q = [] := by
      simp only [qstep, Res.int.injEq] at hlen
      cases q with
      | nil => rfl
      | cons x r => simp at hlen; omega
    subst hq0
    have h2 := qstep_sim hq op
    have hst : (qstep [] op).1 = [] ∧ (qstep [] op).2 = .pair 0 false := by
      rcases hop with rfl | rfl <;> exact ⟨rfl, rfl⟩
    rw [hst.1] at h2
    refine ⟨by rw [h2.1, hst.2], ?_, queue_run_sim ops' h2.2⟩
    rw [(qstep_sim h2.2 .len).1]; rfl
  · intro hlen
    generalize Stack.final [] ops = s at hlen ⊢
    have hs0 : s = [] := by
      simp only [Stack.step, Res.int.injEq] at hlen
      cases s with
      | nil => rfl
      | cons x r => simp at hlen; omega
    subst hs0
    have hst : Stack.step [] op = ([], .pair 0 false) := by
      rcases hop with rfl | rfl <;> rfl
    rw [hst]
    exact ⟨rfl, rfl, stack_run_sim ops' []⟩

end C16

#print axioms C16.queue_refines
#print axioms C16.stack_refines
#print axioms C16.peek_is_next
#print axioms C16.empty_returns_zero_false_and_stays_usable

/-- non-vacuity of the hypothesis of `empty_returns_zero_false_and_stays_usable`: the empty script, and a
script that fills and drains -/
example : (Queue.step (Queue.final LinkedList.Heap.empty [.enq 5, .deq]) .len).2 = .int 0 := by decide
example : (Stack.step (Stack.final [] [.enq 5, .deq]) .len).2 = .int 0 := by decide
example : Queue.run LinkedList.Heap.empty [.enq 1, .enq 2, .peek, .deq, .deq, .deq, .len]
    = [.ok, .ok, .pair 1 true, .pair 1 true, .pair 2 true, .pair 0 false, .int 0] := by decide
