import TypVerif.Lemmas.C09CompleteJudge
import TypVerif.Props.C09accept
/-
C09 — ACCEPTANCE IS COMPLETE for the judge "C09" of `Drv/C09.lean` (the fast judge, `step false`): the judge never rejects a
behaviour the model has.  With `Props/C09accept.lean` (soundness): the judge decides exactly the visible traces of
`Model.KeyedMutex.sys`.

Which traces are meant.  The judge reads a header `km rwi` and then lines `inv t kind k` / `res t r`; a line stands for an event
(`lineEvent`).  `Drv.C09.step` has three outcomes on such a line:
  * the ClearKey proviso, decided on real-time overlap of the events alone, is broken (`outside := true`, never reset): the line and
    everything after it is answered `ok` without consulting the model — nothing is rejected from then on, whatever follows;
  * otherwise the state set becomes `advance false rw ss e` — pad, `Drv.C09.stepEvent` — and the judge rejects iff that set is empty.
So completeness is: for EVERY execution of `sys rw N ops` from its initial state (any number of goroutines `N`, any alphabet `ops`),
the lines of its visible trace leave `rejected = none` (`judge_accept_complete`); while the judge is inside the property its state
set moreover covers the model state reached (`judge_follows`).  No assumption on `outside` is needed (a judge that went outside
accepts); for the `iff` with soundness the judge has to be inside at the end (soundness says nothing about lines read outside).

The budget.  `Drv.C09.close rw = closeF rw closeBudget`: the closure under internal steps is cut off after `closeBudget = 10^7`
work-list iterations.  A cut-off closure may miss internally reachable states, and a later event of the model could then be
rejected: completeness holds as long as the closure did not run out of fuel.  `closeF` processes every state it holds exactly once,
so it has not run out of fuel when the result has at most `closeBudget` states (`stepEvent_complete`).  The hypothesis
`WithinBudget st lines` is this executable test on the judge's own states: after every prefix of the lines the state set has at
most `closeBudget` states.  (It cannot be dropped: the number of normal forms grows with the number of goroutines in flight,
there is no bound independent of the trace.)

Layers (`Lemmas/C09Complete*.lean`):
  * `R_succ_fwd`: `R` is a FORWARD simulation as well (the judge state can follow every step of the model state it stands for);
  * `stepEvent_complete`: `Drv.C09.stepEvent` contains the normal form of every `e`-successor and is closed under normalised internal
    steps (`Sat`) when within budget;
  * `cover_internal`, `cover_visible`: the model state stays covered (`Cover`: up to goroutines the judge has not padded yet, which
    are idle) through internal and visible steps;
  * `step_parsed_complete`, `follows_runLines`: the fold.
-/
namespace C09
open TypVerif TypVerif.Conc TypVerif.Model.KeyedMutex TypVerif.Drv.C09 TypVerif.Proto
open TypVerif.Lemmas.C09Accept (padBy R Rel WF lineEvent runLines advance evT evOps)
open TypVerif.Lemmas.C09Complete (Sat Cover intNexts WithinBudget Follows)

/-- **forward simulation**: a step of the model state is matched, with the same label, by a step of every judge state standing
for it (the converse of `C09.R_succ`) -/
theorem R_succ_fwd {rw g : Bool} {ops : List Op} {a x a' : State} {l : Option Event}
    (hr : R a x) (h : (l, a') ∈ succ rw g ops a) : ∃ z, (l, z) ∈ succ rw g ops x ∧ R a' z :=
  Lemmas.C09Complete.R_succ_fwd hr h

/-- **one event, the judge's `stepEvent`** (with the closure `close rw = closeF rw closeBudget` it really runs): the new set contains
the normal form of every `e`-successor of a state of the old set, and it is closed under normalised internal steps provided it has
at most `closeBudget` states (then the work list was emptied before the fuel ran out) -/
theorem stepEvent_complete (rw : Bool) (ops : List Op) (ss : List State) (e : Event) :
    (∀ x ∈ ss, ∀ z, (some e, z) ∈ succ rw true ops x → norm z ∈ Drv.C09.stepEvent rw ops ss e) ∧
    ((Drv.C09.stepEvent rw ops ss e).length ≤ closeBudget → Sat rw (Drv.C09.stepEvent rw ops ss e)) :=
  Lemmas.C09Complete.stepEvent_complete rw ops ss e

/-- an internal step of the model keeps the model state covered by a set closed under normalised internal steps -/
theorem cover_internal {rw : Bool} {ops : List Op} {ss : List State} {a a' : State}
    (hsat : Sat rw ss) (hc : Cover ss a) (h : (none, a') ∈ succ rw true ops a) : Cover ss a' :=
  Lemmas.C09Complete.cover_internal hsat hc h

/-- a visible step `e` of the model leads to a state covered by the set the judge computes for `e` — in particular that set is
not empty -/
theorem cover_visible {rw : Bool} {ops : List Op} {ss : List State} {a a' : State} {e : Event}
    (hc : Cover ss a) (h : (some e, a') ∈ succ rw true ops a) : Cover (advance false rw ss e) a' :=
  Lemmas.C09Complete.cover_visible hc h

/-- what `Drv.C09.step` does on an event line when it has not rejected: outside the property (and still not rejected), or `advance`,
rejecting only if that set is empty (the converse of `C09.judge_step_parsed`) -/
theorem judge_step_parsed_complete (ref : Bool) (st : St) (toks : List Val) (impl : String) (e : Event)
    (hp : lineEvent toks = some e) (hst : st.started = true) (hrej : st.rejected = none) :
    ((step ref st toks impl).1.outside = true ∧ (step ref st toks impl).1.rejected = none) ∨
    ((step ref st toks impl).1.outside = false ∧ st.outside = false ∧
      (step ref st toks impl).1.ss = advance ref st.rw st.ss e ∧
      (advance ref st.rw st.ss e ≠ [] → (step ref st toks impl).1.rejected = none)) :=
  Lemmas.C09Complete.step_parsed_complete ref st toks impl e hp hst hrej

/-- **the judge follows the model**: after the header `km rwi` and the lines of the visible trace of an execution of the model
(any `N`, any `ops`), within budget, the judge has not rejected, and if it is still inside the property its state set is closed
under normalised internal steps and covers the model state reached -/
theorem judge_follows (st0 : St) (rwi : Int) (impl0 : String) (N : Nat) (ops : List Op)
    (ls : List (Option Event)) (s : State)
    (hex : Exec (sys (rwi != 0) N ops) (sys (rwi != 0) N ops).init ls s)
    (lines : List (List Val × String))
    (hp : lines.map (fun l => lineEvent l.1) = (visible ls).map some)
    (hb : WithinBudget (step false st0 [.w "km", .i rwi] impl0).1 lines) :
    (runLines false (step false st0 [.w "km", .i rwi] impl0).1 lines).rejected = none ∧
    ((runLines false (step false st0 [.w "km", .i rwi] impl0).1 lines).outside = false →
      Sat (rwi != 0) (runLines false (step false st0 [.w "km", .i rwi] impl0).1 lines).ss ∧
      Cover (runLines false (step false st0 [.w "km", .i rwi] impl0).1 lines).ss s) := by
  obtain ⟨_, _, h3, h4⟩ := Lemmas.C09Complete.fold_complete st0 rwi impl0 N ops ls s
    (Lemmas.C09Accept.ex_of_exec hex) lines hp hb
  exact ⟨h3, h4⟩

/-- **THE JUDGE IS COMPLETE**: the visible trace of an execution of `Model.KeyedMutex.sys` is not rejected by the fold of
`Drv.C09.step false`, as long as the judge's state sets stay within the budget of its closure -/
theorem judge_accept_complete (st0 : St) (rwi : Int) (impl0 : String) (N : Nat) (ops : List Op)
    (ls : List (Option Event)) (s : State)
    (hex : Exec (sys (rwi != 0) N ops) (sys (rwi != 0) N ops).init ls s)
    (lines : List (List Val × String))
    (hp : lines.map (fun l => lineEvent l.1) = (visible ls).map some)
    (hb : WithinBudget (step false st0 [.w "km", .i rwi] impl0).1 lines) :
    (runLines false (step false st0 [.w "km", .i rwi] impl0).1 lines).rejected = none :=
  (judge_follows st0 rwi impl0 N ops ls s hex lines hp hb).1

/-- **the closure reaches every internally reachable state**: a state set closed under normalised internal steps (what `closeF`
returns within budget, `stepEvent_complete`) that covers a model state covers every model state reachable from it by internal steps -/
theorem closure_reaches {rw : Bool} {n : Nat} {ops : List Op} {ss : List State} {a a' : State} {ls : List (Option Event)}
    (hsat : Sat rw ss) (hex : Exec (sys rw n ops) a ls a') (hv : visible ls = []) (hc : Cover ss a) : Cover ss a' :=
  Lemmas.C09Complete.cover_tau hsat (Lemmas.C09Accept.ex_of_exec hex) hv hc

/-- … and the model verdict of every one of these lines is the string `ok` (the judge's output, not only its final state) -/
theorem judge_outputs_ok (st0 : St) (rwi : Int) (impl0 : String) (N : Nat) (ops : List Op)
    (ls : List (Option Event)) (s : State)
    (hex : Exec (sys (rwi != 0) N ops) (sys (rwi != 0) N ops).init ls s)
    (lines : List (List Val × String))
    (hp : lines.map (fun l => lineEvent l.1) = (visible ls).map some)
    (hb : WithinBudget (step false st0 [.w "km", .i rwi] impl0).1 lines)
    (l1 : List (List Val × String)) (l : List Val × String) (l2 : List (List Val × String))
    (he : lines = l1 ++ l :: l2) :
    (step false (runLines false (step false st0 [.w "km", .i rwi] impl0).1 l1) l.1 l.2).2.model = "ok" :=
  Lemmas.C09Complete.outputs_ok false _ (by rw [Lemmas.C09Accept.step_header]) lines (visible ls) hp
    (judge_accept_complete st0 rwi impl0 N ops ls s hex lines hp hb) l1 l l2 he

/-- **the judge decides the traces of the model**: for lines standing for the events `tr`, read inside the property and within
budget, the judge has not rejected iff `tr` is the visible trace of an execution of the model from its initial state -/
theorem judge_accept_iff (st0 : St) (rwi : Int) (impl0 : String) (lines : List (List Val × String)) (tr : List Event)
    (hp : lines.map (fun l => lineEvent l.1) = tr.map some)
    (hout : (runLines false (step false st0 [.w "km", .i rwi] impl0).1 lines).outside = false)
    (hb : WithinBudget (step false st0 [.w "km", .i rwi] impl0).1 lines) :
    (runLines false (step false st0 [.w "km", .i rwi] impl0).1 lines).rejected = none ↔
    ∃ (N : Nat) (ops : List Op) (ls : List (Option Event)) (s : State),
      Exec (sys (rwi != 0) N ops) (sys (rwi != 0) N ops).init ls s ∧ visible ls = tr := by
  constructor
  · intro hok
    exact judge_accept_sound_unconditional st0 rwi impl0 lines [] tr [] hp rfl hout (by rw [List.append_nil]; exact hok)
  · rintro ⟨N, ops, ls, s, hex, hv⟩
    exact judge_accept_complete st0 rwi impl0 N ops ls s hex lines (by rw [hv]; exact hp) hb

/-! the budget condition for the empty list of lines (the judge's hash sets do not reduce in the kernel, so concrete runs of the fast
judge are checked by execution, not by `decide`; the hypotheses of `judge_accept_complete` are satisfiable: every execution of the
model, e.g. the ones of `Props/C09accept.lean`, with the lines of its trace) -/
example : WithinBudget (step false {} [.w "km", .i 0] "").1 [] := by
  intro l1 l2 h
  have : l1 = [] := by
    cases l1 with
    | nil => rfl
    | cons _ _ => cases h
  subst this
  decide

end C09

#print axioms C09.R_succ_fwd
#print axioms C09.stepEvent_complete
#print axioms C09.cover_internal
#print axioms C09.cover_visible
#print axioms C09.judge_step_parsed_complete
#print axioms C09.judge_follows
#print axioms C09.judge_accept_complete
#print axioms C09.judge_accept_iff
#print axioms C09.closure_reaches
#print axioms C09.judge_outputs_ok
