import TypVerif.Gen.ChanShapes
/-
C19, tie 4B: the select structure of every helper of `chans/chans.go` is REGENERATED from the source on every run: which communications each
`select` offers, what is called, and WHAT IS RETURNED on each branch, in source order — the case analysis of `Model/ChanHelpers.lean`
(`SendTimeout`: unconditional send for a non-positive timeout, else `select { send → Stop, true | timer → false }`; the receivers likewise;
`RecvQueued*`: a loop of `select { recv | default }`).  A value returned from the wrong branch (e.g. `return timer.Stop()`), an extra check after a
successful receive, or a reordered loop test changes this list and breaks the `rfl`.
-/
namespace C19

theorem gen_helper_select_shapes :
    Gen.ChanShapes.funcs =
      [("SendTimeout", ["send ch <- value", "return true", "call time.NewTimer", "case ch <- value:", "send ch <- value", "call timer.Stop", "return true", "case <-timer.C:", "return false"]),
       ("SendContext", ["case ch <- value:", "send ch <- value", "return true", "case <-ctx.Done():", "call ctx.Done", "return false"]),
       ("RecvTimeout", ["return value, ok", "call time.NewTimer", "case value, ok := <-ch:", "call timer.Stop", "return value, ok", "case <-timer.C:", "return typ.Zero[V](), false", "call typ.Zero[V]"]),
       ("RecvContext", ["case value, ok := <-ch:", "return value, ok", "case <-ctx.Done():", "call ctx.Done", "return typ.Zero[V](), false", "call typ.Zero[V]"]),
       ("RecvQueued", ["call len", "case v, ok := <-ch:", "return buffer", "call append", "default:", "return buffer", "return buffer"]),
       ("RecvQueuedFull", ["call len", "case v, ok := <-ch:", "return index", "default:", "return index", "return index"])] := rfl

end C19
