import TypVerif.Gen.MapSetShapes
import TypVerif.Gen.MapsShapes
import TypVerif.Gen.SlicesShapes
/-
C14, tie 4B — GOLDEN FUNCTION SHAPES (written by tools/mkshapes.py; do not edit by hand).  For every function of the source files this property's model mirrors,
the extractor regenerates on every run: its calls, its stores through selectors / indices / pointers, its conditions and loop headers, its select cases and
its return expressions, in source order.  The theorems below state that these equal the shapes of the tree the model was written against.  They are the STATIC,
all-paths complement of the differential runs: a guard dropped, a fast path or a threshold added, an early return, a changed comparison or a different callee
on ANY path - also one that no generated input happens to take - changes the regenerated list and breaks the `rfl`.  A broken shape theorem is reported like a
broken proof (with a failing input when the search finds one, else `no-failing-input-found`); after a deliberate change of the source the changed functions are
re-read against the model and this file is regenerated.
-/
namespace C14

/-- slices/slices.go, the functional helpers: 27 function(s) -/
theorem gen_shapes_functional :
    Gen.SlicesShapes.funcs.filter (fun f => !(["Fill", "Insert", "InsertSlice", "Remove", "RemoveSlice", "Repeat", "Concat", "Clone", "Grow", "Pairs", "PairsFunc", "Windowed", "WindowedFunc", "Chunk", "ChunkFunc"]).contains f.1) =
      [("Index", ["range slice", "if v == value", "return i", "return -1"]),
       ("IndexFunc", ["range slice", "if f(v)", "call f", "return i", "return -1"]),
       ("Trim", ["return TrimLeft[S, E](TrimRight[S, E](slice, unwanted), unwanted)", "call TrimLeft[S, E]", "call TrimRight[S, E]"]),
       ("TrimFunc", ["return TrimLeftFunc(TrimRightFunc(slice, unwanted), unwanted)", "call TrimLeftFunc", "call TrimRightFunc"]),
       ("TrimLeft", ["for len(slice) > 0 && Contains(unwanted, slice[0])", "call len", "call Contains", "return slice"]),
       ("TrimLeftFunc", ["for len(slice) > 0 && unwanted(slice[0])", "call len", "call unwanted", "return slice"]),
       ("TrimRight", ["for len(slice) > 0 && Contains(unwanted, slice[len(slice) - 1])", "call len", "call Contains", "call len", "call len", "return slice"]),
       ("TrimRightFunc", ["for len(slice) > 0 && unwanted(slice[len(slice) - 1])", "call len", "call unwanted", "call len", "call len", "return slice"]),
       ("Distinct", ["call make", "call len", "range slice", "if !Contains(result, v)", "call Contains", "call append", "return result"]),
       ("DistinctFunc", ["call make", "call len", "range slice", "if !ContainsFunc(result, v, equals)", "call ContainsFunc", "call append", "return result"]),
       ("Contains", ["range slice", "if v == value", "return true", "return false"]),
       ("ContainsFunc", ["range slice", "if equals(v, value)", "call equals", "return true", "return false"]),
       ("TryGet", ["if index < 0 || index >= len(slice)", "call len", "return typ.Zero[E](), false", "call typ.Zero[E]", "return slice[index], true"]),
       ("SafeGet", ["if index < 0 || index >= len(slice)", "call len", "return typ.Zero[E]()", "call typ.Zero[E]", "return slice[index]"]),
       ("SafeGetOr", ["if index < 0 || index >= len(slice)", "call len", "return fallback", "return slice[index]"]),
       ("Any", ["range slice", "if cond(v)", "call cond", "return true", "return false"]),
       ("All", ["range slice", "if !cond(v)", "call cond", "return false", "return true"]),
       ("Map", ["call make", "call len", "range slice", "store result[i]", "call conv", "return result"]),
       ("MapErr", ["call make", "call len", "range slice", "store result[i]", "call conv", "if err != nil", "return nil, err", "return result, nil"]),
       ("Filter", ["call make", "call len", "range slice", "if match(v)", "call match", "call append", "return result"]),
       ("Fold", ["range slice", "call acc", "return state"]),
       ("FoldReverse", ["for i >= 0", "call len", "call acc", "return state"]),
       ("GroupBy", ["range slice", "call keyer", "store m[key]", "call append", "if !ok", "call append", "call make", "call len", "range orderedKeys", "store groups[i]", "return groups"]),
       ("CountBy", ["range slice", "call keyer", "store m[key]", "if !ok", "call append", "call make", "call len", "range orderedKeys", "store groups[i]", "return groups"]),
       ("Except", ["call maps.NewSetFromSlice", "return ExceptSet(slice, set)", "call ExceptSet"]),
       ("ExceptSet", ["call make", "call len", "range slice", "if !exclude.Has(v)", "call exclude.Has", "call append", "return result"]),
       ("Last", ["return slice[len(slice) - 1]", "call len"])] := rfl

/-- maps/maps.go: 7 function(s) -/
theorem gen_shapes_maps :
    Gen.MapsShapes.funcs =
      [("ContainsValue", ["range m", "if v == value", "return true", "return false"]),
       ("KeyOf", ["range m", "if v == value", "return k, true", "return typ.Zero[K](), false", "call typ.Zero[K]"]),
       ("Clone", ["call make", "call len", "range m", "store newMap[k]", "return newMap"]),
       ("Clear", ["range m", "call delete"]),
       ("HasKey", ["return ok"]),
       ("Keys", ["call make", "call len", "range m", "call append", "return keys"]),
       ("Values", ["call make", "call len", "range m", "call append", "return values"])] := rfl

/-- maps/set.go, NewSetFromSlice / Set.Add / Set.Has - DEPENDENCIES of Except / ExceptSet: 3 function(s) -/
theorem gen_shapes_dep_set :
    Gen.MapSetShapes.funcs.filter (fun f => (["NewSetFromSlice", "Set.Add", "Set.Has"]).contains f.1) =
      [("NewSetFromSlice", ["call make", "range slice", "call set.Add", "return set"]),
       ("Set.Has", ["return has"]),
       ("Set.Add", ["if s.Has(value)", "call s.Has", "return false", "store s[value]", "return true"])] := rfl

end C14
