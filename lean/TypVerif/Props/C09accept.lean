import TypVerif.Lemmas.ConcAccept
import TypVerif.Lemmas.C09AcceptJudge
import TypVerif.Lemmas.C09AcceptStepNorm
import TypVerif.Lemmas.C09AcceptOccProof
import TypVerif.Props.C09
/-
C09 — ACCEPTANCE IS SOUND for the judge "C09" of `Drv/C09.lean` (API-level `inv` / `res` traces of KeyedMutex / KeyedRWMutex):
a trace the judge does not reject is — up to the point where the judge declares the scenario outside the property (the ClearKey
proviso) — the visible trace of an execution of `Model.KeyedMutex.sys rw N ops` from its initial state, for the final number of
goroutines `N` and the alphabet `ops` of the operations invoked.  Hence the theorems of `Props/C09.lean`, which quantify over all
executions, apply to that real run: the trace satisfies the occupancy predicate (`judgeRef_accepted_occupancy`, `judge_accepted_occupancy`), the model state
reached satisfies per-key exclusion (`C09.mutex`, `C09.rw`).

What the judge does per event (`Drv.C09.modelStep`): pad every state of its set with idle goroutines so that goroutine `t` exists
(`pad t`), then
  * reference judge (`judgeRef` = `step true`): the generic `Conc.stepEvent` of `sys rw 0 [op]`, fuel 64, on exact states;
  * fast judge (`judge` = `step false`): `Drv.C09.stepEvent` — successors labelled with the event, then the closure under internal
    steps by `Drv.C09.close`, on NORMALISED states (`norm`: garbage dropped, mutex ids renumbered, map and sets sorted).
Why this is sound (`Lemmas/C09Accept*.lean`): idle goroutines other than the stepping one are ignored (`exec_pad`), the alphabet is
monotone (`exec_ops_mono`), `n` matters only for the initial state (`exec_n_irrelevant`); a normalised state `x` stands for a model
state `a` up to an injective renaming of the live mutex ids, garbage, and the order of the map and of the sets (`R a x`); `R` is a
backward simulation (`R_succ`) and `norm` stays inside it (`R_norm`).

DEFINITION PROBLEM (reported, not patched): `Drv.C09.close` is a `partial def`, i.e. an opaque constant for the kernel: nothing can
be proved about the function the fast judge really runs.  The theorems about the fast judge therefore take the closure property
`CloseSound rw (close rw)` ("the closure only adds normal forms of internal successors") as a HYPOTHESIS; it is proved
(`closeF_sound`) for `closeF rw fuel`, the same code with a fuel argument.  `Drv/C09.lean` now defines `close rw := closeF rw closeBudget` (it was a `partial def`, hence opaque, when these lemmas were written),
so `judge_accept_sound_unconditional` at the end of the file has no hypothesis left.  The reference judge is covered unconditionally.

The fold theorems are proved through `R a' y` ("`y` stands for `a'`"); `norm` is also canonical (`norm_canonical`: `R a x → norm x =
norm a`), which gives the literal form "`y` IS the normal form of a model state reached" (`judge_stepEvent_norm`).
Soundness only (that the judge loses no trace of the model is not claimed).
-/
namespace C09
open TypVerif TypVerif.Conc TypVerif.Model.KeyedMutex TypVerif.Drv.C09 TypVerif.Proto
open TypVerif.Lemmas.C09Accept (padBy R Rel WF normF StepSound stepEventWith CloseSound lineEvent runLines advance
  evT evOps OccupancyOk occupancy)

/-! ## generic: padding, alphabet, number of goroutines -/

theorem pad_eq_padBy (t : Nat) (s : State) : pad t s = padBy (t + 1 - s.pcs.length) s :=
  Lemmas.C09Accept.pad_eq_padBy t s

/-- padding with idle goroutines is a simulation -/
theorem exec_pad (rw : Bool) (n n' k : Nat) (ops : List Op) {a b : State} {ls : List (Option Event)}
    (h : Exec (sys rw n ops) a ls b) : Exec (sys rw n' ops) (padBy k a) ls (padBy k b) :=
  Lemmas.C09Accept.exec_of_ex n' ((Lemmas.C09Accept.ex_of_exec h).padBy k)

/-- the alphabet of operations is monotone -/
theorem exec_ops_mono (rw : Bool) (n : Nat) {ops ops' : List Op} (hm : ∀ op ∈ ops, op ∈ ops') {a b : State}
    {ls : List (Option Event)} (h : Exec (sys rw n ops) a ls b) : Exec (sys rw n ops') a ls b :=
  Lemmas.C09Accept.exec_of_ex n ((Lemmas.C09Accept.ex_of_exec h).ops_mono hm)

/-- `n` matters only for the initial state -/
theorem exec_n_irrelevant (rw : Bool) (n n' : Nat) (ops : List Op) {a b : State} {ls : List (Option Event)}
    (h : Exec (sys rw n ops) a ls b) : Exec (sys rw n' ops) a ls b :=
  Lemmas.C09Accept.exec_n_irrelevant n n' h

/-! ## normalisation -/

/-- `norm s` is `s` up to the renaming `norm` applies, garbage and order -/
theorem norm_rel (s : State) : Rel (normF s) s (norm s) := Lemmas.C09Accept.rel_norm s

/-- well-formedness (distinct keys, live mutex ids inside the heap) holds initially and is preserved by every step -/
theorem wf_init (n : Nat) : WF (init n) := Lemmas.C09Accept.wf_init n
theorem wf_succ {rw g : Bool} {ops : List Op} {a a' : State} {l : Option Event}
    (hw : WF a) (h : (l, a') ∈ succ rw g ops a) : WF a' := Lemmas.C09Accept.wf_succ hw h

/-- normalising a judge state keeps it standing for the same model state -/
theorem R_norm {a x : State} (h : R a x) : R a (norm x) := Lemmas.C09Accept.R_norm h

/-- backward simulation: a step of a judge state is matched, with the same label, by a step of the model state it stands for -/
theorem R_succ {rw g : Bool} {ops : List Op} {a x z : State} {l : Option Event}
    (hr : R a x) (h : (l, z) ∈ succ rw g ops x) : ∃ a', (l, a') ∈ succ rw g ops a ∧ R a' z :=
  Lemmas.C09Accept.R_succ hr h

/-- `norm` is canonical: a judge state and the model state it stands for have the same normal form -/
theorem norm_canonical {a x : State} (h : R a x) : norm x = norm a := Lemmas.C09Accept.norm_eq_of_R h

theorem R_pad {a x : State} (t : Nat) (h : R a x) : R (pad t a) (pad t x) := Lemmas.C09Accept.R_pad t h

/-! ## one event -/

/-- reference judge: every state of the new set is reached from the padding of a state of the old set by an execution with
visible trace `[e]` -/
theorem judge_stepEvent_ref_sound (rw : Bool) (n : Nat) (ops : List Op) (fuel : Nat) (ss : List State) (t : Nat) (e : Event) :
    ∀ s' ∈ Conc.stepEvent (sys rw n ops) fuel (ss.map (pad t)) e, ∃ s ∈ ss, ∃ (ls : List (Option Event)),
      Exec (sys rw n ops) (pad t s) ls s' ∧ visible ls = [e] := by
  intro s' h
  obtain ⟨x, hx, ls, hex, hv⟩ := Conc.stepEvent_sound (sys rw n ops) fuel _ e s' h
  obtain ⟨s, hs, rfl⟩ := List.mem_map.1 hx
  exact ⟨s, hs, ls, hex, hv⟩

/-- the fast judge's `stepEvent` is `stepEventWith` instantiated with the (opaque) closure `close rw` -/
theorem stepEvent_eq (rw : Bool) (ops : List Op) (ss : List State) (e : Event) :
    Drv.C09.stepEvent rw ops ss e = stepEventWith (close rw) rw ops ss e := rfl

/-- the closure property holds for the fuel-bounded replica of `Drv.C09.close` -/
theorem closeF_sound (rw : Bool) (fuel : Nat) : CloseSound rw (closeF rw fuel) :=
  Lemmas.C09Accept.closeF_sound rw fuel

/-- fast judge, for any closure function with the closure property: every state `y` of the new set comes from the padding of a
state `x` of the old set such that, whatever model state `a` the state `pad t x` stands for, `a` has an execution with visible trace
`[e]` to a model state `a'` that `y` stands for -/
theorem judge_stepEvent_sound (cl : Std.HashSet State → List State → Array State → Array State) (rw : Bool)
    (hcl : CloseSound rw cl) (n : Nat) (ops : List Op) (ss : List State) (t : Nat) (e : Event) :
    ∀ y ∈ stepEventWith cl rw ops (ss.map (pad t)) e, ∃ x ∈ ss, ∀ a, R a (pad t x) →
      ∃ (ls : List (Option Event)) (a' : State), Exec (sys rw n ops) a ls a' ∧ visible ls = [e] ∧ R a' y := by
  intro y hy
  obtain ⟨x', hx', hq⟩ := Lemmas.C09Accept.stepEventWith_sound cl rw hcl ops _ e y hy
  obtain ⟨x, hx, rfl⟩ := List.mem_map.1 hx'
  refine ⟨x, hx, fun a ha => ?_⟩
  obtain ⟨ls, a', hex, hv, hr⟩ := hq a ha
  exact ⟨ls, a', Lemmas.C09Accept.exec_of_ex n hex, hv, hr⟩

/-- the literal form: every state `y` of the new set IS the normal form of a model state reached by an execution with visible trace
`[e]` from any model state that the padding of some state `x` of the old set stands for — e.g. from `pad t x` itself when `x` is
well-formed (`R_refl`), or from `pad t a` when `x = norm a` with `a` well-formed (`R_norm`, `R_pad`) -/
theorem judge_stepEvent_norm (cl : Std.HashSet State → List State → Array State → Array State) (rw : Bool)
    (hcl : CloseSound rw cl) (n : Nat) (ops : List Op) (ss : List State) (t : Nat) (e : Event) :
    ∀ y ∈ stepEventWith cl rw ops (ss.map (pad t)) e, ∃ x ∈ ss, ∀ a, R a (pad t x) →
      ∃ (ls : List (Option Event)) (a' : State), Exec (sys rw n ops) a ls a' ∧ visible ls = [e] ∧ y = norm a' := by
  intro y hy
  obtain ⟨x', hx', hq⟩ := Lemmas.C09Accept.stepEventWith_norm cl rw hcl ops _ e y hy
  obtain ⟨x, hx, rfl⟩ := List.mem_map.1 hx'
  refine ⟨x, hx, fun a ha => ?_⟩
  obtain ⟨ls, a', hex, hv, _, hn⟩ := hq a ha
  exact ⟨ls, a', Lemmas.C09Accept.exec_of_ex n hex, hv, hn⟩

theorem R_refl {a : State} (hw : WF a) : R a a := Lemmas.C09Accept.R_refl hw

/-- … in particular, unconditionally, for `Drv.C09.stepEvent` with the fuel-bounded closure `closeF rw fuel` in place of `close rw` -/
theorem judge_stepEventF_sound (fuel : Nat) (rw : Bool) (n : Nat) (ops : List Op) (ss : List State) (t : Nat) (e : Event) :
    ∀ y ∈ stepEventWith (closeF rw fuel) rw ops (ss.map (pad t)) e, ∃ x ∈ ss, ∀ a, R a (pad t x) →
      ∃ (ls : List (Option Event)) (a' : State), Exec (sys rw n ops) a ls a' ∧ visible ls = [e] ∧ R a' y :=
  judge_stepEvent_sound (closeF rw fuel) rw (closeF_sound rw fuel) n ops ss t e

/-! ## the judge -/

/-- everything `Drv.C09.step` does to the model part of its state on a line that stands for an event `e` (`lineEvent`): the ClearKey
proviso may switch the judge to `outside` (never back); otherwise the state set becomes `advance ref rw ss e` — pad, then
`Conc.stepEvent` (`ref = true`) or `Drv.C09.stepEvent` (`ref = false`) — and the judge rejects iff that set is empty -/
theorem judge_step_parsed (ref : Bool) (st : St) (toks : List Val) (impl : String) (e : Event)
    (hp : lineEvent toks = some e) (hst : st.started = true) :
    (step ref st toks impl).1.started = true ∧ (step ref st toks impl).1.rw = st.rw ∧
    ((step ref st toks impl).1.outside = false → st.outside = false) ∧
    ((step ref st toks impl).1.rejected = none → st.rejected = none) ∧
    ((step ref st toks impl).1.outside = false → (step ref st toks impl).1.rejected = none →
      (step ref st toks impl).1.ss = advance ref st.rw st.ss e ∧ (step ref st toks impl).1.ss ≠ []) :=
  Lemmas.C09Accept.step_parsed ref st toks impl e hp hst

/-- **reference judge** (`judgeRef`, `step true`).  After the header `km rwi`, the lines `lines1 ++ lines2`, each standing for an
event (`lineEvent`: `inv` / `res` lines with well-formed arguments; `tr1`, `tr2` the events): if the judge is still inside the
property after `lines1` (`outside = false`) and has not rejected at the end (`rejected = none`: every model output was `ok`), then
`tr1` is the visible trace of an execution of the model from its initial state. -/
theorem judgeRef_accept_sound (st0 : St) (rwi : Int) (impl0 : String) (lines1 lines2 : List (List Val × String))
    (tr1 tr2 : List Event)
    (hp1 : lines1.map (fun l => lineEvent l.1) = tr1.map some)
    (hp2 : lines2.map (fun l => lineEvent l.1) = tr2.map some)
    (hout : (runLines true (step true st0 [.w "km", .i rwi] impl0).1 lines1).outside = false)
    (hok : (runLines true (step true st0 [.w "km", .i rwi] impl0).1 (lines1 ++ lines2)).rejected = none) :
    ∃ (N : Nat) (ops : List Op) (ls : List (Option Event)) (s : State),
      Exec (sys (rwi != 0) N ops) (sys (rwi != 0) N ops).init ls s ∧ visible ls = tr1 :=
  Lemmas.C09Accept.fold_sound true Eq rfl (fun _ _ _ h => by rw [h]) Lemmas.C09Accept.advance_ref_sound
    st0 rwi impl0 lines1 lines2 tr1 tr2 hp1 hp2 hout hok

/-- **the judge** (`judge`, `step false`), under the closure property of the opaque `Drv.C09.close` (see the header) -/
theorem judge_accept_sound (hcl : ∀ rw, CloseSound rw (close rw))
    (st0 : St) (rwi : Int) (impl0 : String) (lines1 lines2 : List (List Val × String))
    (tr1 tr2 : List Event)
    (hp1 : lines1.map (fun l => lineEvent l.1) = tr1.map some)
    (hp2 : lines2.map (fun l => lineEvent l.1) = tr2.map some)
    (hout : (runLines false (step false st0 [.w "km", .i rwi] impl0).1 lines1).outside = false)
    (hok : (runLines false (step false st0 [.w "km", .i rwi] impl0).1 (lines1 ++ lines2)).rejected = none) :
    ∃ (N : Nat) (ops : List Op) (ls : List (Option Event)) (s : State),
      Exec (sys (rwi != 0) N ops) (sys (rwi != 0) N ops).init ls s ∧ visible ls = tr1 :=
  Lemmas.C09Accept.fold_sound false R (Lemmas.C09Accept.R_refl (Lemmas.C09Accept.wf_init 0))
    (fun t _ _ h => Lemmas.C09Accept.R_pad t h) (Lemmas.C09Accept.advance_fast_sound hcl)
    st0 rwi impl0 lines1 lines2 tr1 tr2 hp1 hp2 hout hok

/-! ## corollaries -/

/-- every visible trace of the model satisfies the occupancy predicate of the keyed-lock object, evaluated on the events alone
(`Lemmas/C09AcceptOcc.lean`, the exclusion part of the judge's specification side): a goroutine occupies `k` for writing from the
response of its successful Lock/TryLock to its invocation of Unlock, for reading likewise; at a write acquisition nobody
occupies `k`, at a read acquisition nobody occupies it for writing.  (Through `C09.mutex` / `C09.rw` in the form
`mutex_of_good` / `rw_of_good`.) -/
theorem trace_occupancy (rw : Bool) (N : Nat) (ops : List Op) {ls : List (Option Event)} {s : State}
    (h : Exec (sys rw N ops) (sys rw N ops).init ls s) : OccupancyOk (visible ls) :=
  Lemmas.C09Accept.occupancy_of_ex (Lemmas.C09Accept.ex_of_exec h)

/-- per-key exclusion in the model state an execution ends in (`C09.mutex`, `C09.rw`) -/
theorem exec_exclusive (rw : Bool) (N : Nat) (ops : List Op) {ls : List (Option Event)} {s : State}
    (h : Exec (sys rw N ops) (sys rw N ops).init ls s) :
    (∀ t₁ t₂ k, s.holdsW t₁ k → s.holdsW t₂ k → t₁ = t₂) ∧
    (∀ t₁ k, s.holdsW t₁ k → ∀ t₂, ¬ s.holdsR t₂ k) := by
  have hr : Reachable (sys rw N ops) s := Exec.reachable h .init
  exact ⟨C09.mutex rw N ops s hr, fun t₁ k h₁ => (C09.rw rw N ops s hr t₁ k h₁).1⟩

/-- **an accepted trace satisfies the occupancy predicate** (reference judge), and the model state it leads to is exclusive -/
theorem judgeRef_accepted_occupancy (st0 : St) (rwi : Int) (impl0 : String) (lines1 lines2 : List (List Val × String))
    (tr1 tr2 : List Event)
    (hp1 : lines1.map (fun l => lineEvent l.1) = tr1.map some)
    (hp2 : lines2.map (fun l => lineEvent l.1) = tr2.map some)
    (hout : (runLines true (step true st0 [.w "km", .i rwi] impl0).1 lines1).outside = false)
    (hok : (runLines true (step true st0 [.w "km", .i rwi] impl0).1 (lines1 ++ lines2)).rejected = none) :
    OccupancyOk tr1 := by
  obtain ⟨N, ops, ls, s, hex, hv⟩ := judgeRef_accept_sound st0 rwi impl0 lines1 lines2 tr1 tr2 hp1 hp2 hout hok
  rw [← hv]
  exact trace_occupancy _ N ops hex

/-- … and for the fast judge, under the closure property of the opaque `Drv.C09.close` -/
theorem judge_accepted_occupancy (hcl : ∀ rw, CloseSound rw (close rw))
    (st0 : St) (rwi : Int) (impl0 : String) (lines1 lines2 : List (List Val × String))
    (tr1 tr2 : List Event)
    (hp1 : lines1.map (fun l => lineEvent l.1) = tr1.map some)
    (hp2 : lines2.map (fun l => lineEvent l.1) = tr2.map some)
    (hout : (runLines false (step false st0 [.w "km", .i rwi] impl0).1 lines1).outside = false)
    (hok : (runLines false (step false st0 [.w "km", .i rwi] impl0).1 (lines1 ++ lines2)).rejected = none) :
    OccupancyOk tr1 := by
  obtain ⟨N, ops, ls, s, hex, hv⟩ := judge_accept_sound hcl st0 rwi impl0 lines1 lines2 tr1 tr2 hp1 hp2 hout hok
  rw [← hv]
  exact trace_occupancy _ N ops hex

/-! non-vacuity: lines and their events; the occupancy predicate accepts a hand-over and refuses a double acquisition -/
example : lineEvent [.w "inv", .i 1, .w "trylock", .i 5] = some (.inv 1 ⟨.trylock, 5⟩) := by decide
example : lineEvent [.w "res", .i 1, .w "false"] = some (.res 1 .ff) := by decide
example : lineEvent [.w "km", .i 1] = none := by decide
/-- the reference judge accepts `lock 5` by goroutine 0 returning, and rejects a TryLock failing on a free key -/
example : (runLines true (step true {} [.w "km", .i 0] "").1
    [([.w "inv", .i 0, .w "lock", .i 5], "ok"), ([.w "res", .i 0, .w "done"], "ok")]).rejected = none ∧
    (runLines true (step true {} [.w "km", .i 0] "").1
    [([.w "inv", .i 0, .w "lock", .i 5], "ok"), ([.w "res", .i 0, .w "done"], "ok")]).outside = false := by decide
example : (runLines true (step true {} [.w "km", .i 0] "").1
    [([.w "inv", .i 0, .w "trylock", .i 5], "ok"), ([.w "res", .i 0, .w "false"], "ok")]).rejected ≠ none := by decide
example : OccupancyOk [.inv 0 ⟨.lock, 5⟩, .inv 1 ⟨.lock, 5⟩, .res 0 .done, .inv 0 ⟨.unlock, 5⟩, .res 0 .done, .res 1 .done] := by
  decide
example : ¬ OccupancyOk [.inv 0 ⟨.lock, 5⟩, .inv 1 ⟨.lock, 5⟩, .res 0 .done, .res 1 .done] := by decide

/-! ## the fast judge, unconditionally: `Drv.C09.close` IS the fuel-bounded closure -/

/-- the closure the fast judge runs (`Drv.C09.close rw = closeF rw closeBudget`) only adds normal forms of states reachable by internal steps -/
theorem close_sound (rw : Bool) : CloseSound rw (close rw) := closeF_sound rw closeBudget

/-- **the fast judge is sound, with no hypothesis left**: a trace it does not reject (up to the point where it declares the scenario outside
the property) is the visible trace of an execution of `Model.KeyedMutex.sys` -/
theorem judge_accept_sound_unconditional
    (st0 : St) (rwi : Int) (impl0 : String) (lines1 lines2 : List (List Val × String))
    (tr1 tr2 : List Event)
    (hp1 : lines1.map (fun l => lineEvent l.1) = tr1.map some)
    (hp2 : lines2.map (fun l => lineEvent l.1) = tr2.map some)
    (hout : (runLines false (step false st0 [.w "km", .i rwi] impl0).1 lines1).outside = false)
    (hok : (runLines false (step false st0 [.w "km", .i rwi] impl0).1 (lines1 ++ lines2)).rejected = none) :
    ∃ (N : Nat) (ops : List Op) (ls : List (Option Event)) (s : State),
      Exec (sys (rwi != 0) N ops) (sys (rwi != 0) N ops).init ls s ∧ visible ls = tr1 :=
  judge_accept_sound close_sound st0 rwi impl0 lines1 lines2 tr1 tr2 hp1 hp2 hout hok

/-- … and satisfies the occupancy predicate -/
theorem judge_accepted_occupancy_unconditional
    (st0 : St) (rwi : Int) (impl0 : String) (lines1 lines2 : List (List Val × String))
    (tr1 tr2 : List Event)
    (hp1 : lines1.map (fun l => lineEvent l.1) = tr1.map some)
    (hp2 : lines2.map (fun l => lineEvent l.1) = tr2.map some)
    (hout : (runLines false (step false st0 [.w "km", .i rwi] impl0).1 lines1).outside = false)
    (hok : (runLines false (step false st0 [.w "km", .i rwi] impl0).1 (lines1 ++ lines2)).rejected = none) :
    OccupancyOk tr1 :=
  judge_accepted_occupancy close_sound st0 rwi impl0 lines1 lines2 tr1 tr2 hp1 hp2 hout hok

end C09

#print axioms C09.exec_pad
#print axioms C09.exec_ops_mono
#print axioms C09.exec_n_irrelevant
#print axioms C09.norm_rel
#print axioms C09.wf_succ
#print axioms C09.R_norm
#print axioms C09.R_succ
#print axioms C09.norm_canonical
#print axioms C09.R_pad
#print axioms C09.judge_stepEvent_ref_sound
#print axioms C09.closeF_sound
#print axioms C09.judge_stepEvent_sound
#print axioms C09.judge_stepEvent_norm
#print axioms C09.judge_stepEventF_sound
#print axioms C09.judge_step_parsed
#print axioms C09.judgeRef_accept_sound
#print axioms C09.judge_accept_sound
#print axioms C09.trace_occupancy
#print axioms C09.exec_exclusive
#print axioms C09.judgeRef_accepted_occupancy
#print axioms C09.judge_accepted_occupancy
#print axioms C09.close_sound
#print axioms C09.judge_accept_sound_unconditional
#print axioms C09.judge_accepted_occupancy_unconditional
