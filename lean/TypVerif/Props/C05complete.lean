import TypVerif.Lemmas.ObjCompleteLin
import TypVerif.Props.C05accept
/-
C05 — THE API-LEVEL SET JUDGE DECIDES LINEARIZABILITY EXACTLY on histories of single operations (completeness of the
acceptance of `Drv/ObjLin.lean`, set mode `cset`; the soundness half is `Props/C05accept.lean`).

The fold: `runLines (step j0 [cset] impl0).1 lines` over lines all covered by `SetLine` (event lines `inv t add|remove|has v`,
`res t true|false`; skipped lines `inv t len`, `res t <int>`, `step _ _`, `iter _ _`); `tr` = the history.
LEFT OUT, as in `C05accept`: the composite operations `addset` / `removeset`.
Bounded concurrency: `InvBelow 24 lines` — every invocation line (including `inv t len`) is by a goroutine `< 24`.

  `objlin_set_decides`           the state set `cs` is non-empty  ↔  `tr` is linearizable w.r.t. `MapObj.setSpec`
  `objlin_accept_complete`       linearizable ⇒ the verdict is never `not-linearizable`
  `objlin_verdict`               `violated = none` ⇒ linearizable;  `violated = some "not-linearizable"` ⇒ not linearizable
(the flag `violated` is shared with the `count` check of `len`).
-/
namespace C05
open TypVerif TypVerif.Conc TypVerif.Model TypVerif.Proto TypVerif.Drv.ObjLin
open TypVerif.Lemmas.ObjAcceptLin (SEvent SetLine Lines runLines)
open TypVerif.Lemmas.ObjCompleteLin (InvBelow)

/-- with no composite in progress the composite closure changes nothing: it adds no state (`objlin_compClosure_sub`) and
loses none -/
theorem objlin_compClosure_sup (n fuel : Nat) (cs : List CSt) : ∀ c ∈ cs, c ∈ compClosure n fuel cs :=
  fun c h => Lemmas.ObjCompleteLin.mem_compClosure n fuel cs c h

/-- the state of every execution of every `AtomicObj.sys setSpec menu N` with visible trace `tr` is in the set -/
theorem objlin_set_full (j0 : JSt) (impl0 : String) (lines : List (List Val × String)) (tr : List SEvent)
    (hl : Lines SetLine lines tr) (hib : InvBelow 24 lines) :
    ∃ n0, n0 ≤ (runLines (step j0 [.w "cset"] impl0).1 lines).st.n ∧
      Lemmas.ObjCompleteLin.FullC n0 tr (runLines (step j0 [.w "cset"] impl0).1 lines).cs :=
  (Lemmas.ObjCompleteLin.set_track j0 impl0 lines tr hl hib).2.2.2.2.1

/-- **the set judge decides linearizability** of histories of single operations with goroutine ids `< 24` -/
theorem objlin_set_decides (j0 : JSt) (impl0 : String) (lines : List (List Val × String)) (tr : List SEvent)
    (hl : Lines SetLine lines tr) (hib : InvBelow 24 lines) :
    (runLines (step j0 [.w "cset"] impl0).1 lines).cs ≠ [] ↔ AtomicObj.Linearizable MapObj.setSpec tr :=
  Lemmas.ObjCompleteLin.sC_iff (Lemmas.ObjCompleteLin.set_track j0 impl0 lines tr hl hib)

/-- **acceptance is complete**: a linearizable history is never flagged `not-linearizable` -/
theorem objlin_accept_complete (j0 : JSt) (impl0 : String) (lines : List (List Val × String)) (tr : List SEvent)
    (hl : Lines SetLine lines tr) (hib : InvBelow 24 lines) (hlin : AtomicObj.Linearizable MapObj.setSpec tr) :
    (runLines (step j0 [.w "cset"] impl0).1 lines).st.violated ≠ some "not-linearizable" := by
  intro hv
  have h := Lemmas.ObjCompleteLin.set_track j0 impl0 lines tr hl hib
  exact (objlin_set_decides j0 impl0 lines tr hl hib).2 hlin (h.2.2.2.2.2.1 hv)

/-- both verdicts about linearizability are correct -/
theorem objlin_verdict (j0 : JSt) (impl0 : String) (lines : List (List Val × String)) (tr : List SEvent)
    (hl : Lines SetLine lines tr) (hib : InvBelow 24 lines) :
    ((runLines (step j0 [.w "cset"] impl0).1 lines).st.violated = none → AtomicObj.Linearizable MapObj.setSpec tr) ∧
    ((runLines (step j0 [.w "cset"] impl0).1 lines).st.violated = some "not-linearizable" →
      ¬ AtomicObj.Linearizable MapObj.setSpec tr) :=
  ⟨fun hv => objlin_accepted_history_linearizable j0 impl0 lines tr hl hv,
   fun hv hlin => objlin_accept_complete j0 impl0 lines tr hl hib hlin hv⟩

end C05

#print axioms C05.objlin_compClosure_sup
#print axioms C05.objlin_set_full
#print axioms C05.objlin_set_decides
#print axioms C05.objlin_accept_complete
#print axioms C05.objlin_verdict
