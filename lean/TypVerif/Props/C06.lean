import TypVerif.Lemmas.ListRefine
import TypVerif.Lemmas.RingRefine
/-
C06: "lists.List/Element and lists.Ring are observationally identical to the standard library's
container/list and container/ring from which they are forked: for every sequence of operations both
produce the same return values, lengths, forward and backward traversals and element neighbours.  This
includes zero-value lists, operations handed elements that were already removed or belong to another list
(which must leave the list unmodified), PushBackList/PushFrontList of a list onto itself, and Ring
Next/Prev/Move/Link/Unlink/Len/Do with any counts and any pair of rings."

Lists.  Model: `Model/LinkedList.lean` (pointer-level heap model of lists/list.go); specification:
`Spec/Seq.lean` (the documented behaviour of container/list on abstract sequences).  Observations are
operations of the script (`len`, `front`, `back`, `next`, `prev`, `value`, `fwd`, `bwd`), so "for every
sequence of operations the outputs agree" covers every observation at every point.
`Sim h w` (Lemmas/ListSim.lean) is the well-formedness + abstraction invariant:
  following `next` from `root l` spells `lists l` and returns to the root and `prev` is the inverse
  (`Shape`/`Linked`), `len` is the length, `e.list = some l ↔ e ∈ lists l` (`owner`+`mem`), removed elements
  have nil links (`detached`), lists are duplicate-free and pairwise disjoint (`nodup`, `mem`), a never
  initialised zero list has nil root links and is empty.
Excluded by hypothesis `NoInitOnNonEmpty`: `Init` on a non-empty list (the standard library itself leaves
the `list` pointers of the old elements stale there; the judge follows the model in that corner).

Rings.  Model `Model/Ring.lean`, specification `Spec/RingSeq.lean` (partition into cyclic sequences),
invariant `RingWF` (Lemmas/RingHeap.lean).  No hypothesis: same-ring `Link` is included.
-/
open TypVerif
open TypVerif.Spec.ListOp
open TypVerif.Lemmas.LinkedList

namespace C06

/-- one operation preserves the invariant and produces the specified result -/
theorem list_step (h : Model.LinkedList.Heap) (w : Spec.Seq.World) (hs : Sim h w) (op : Op)
    (hinit : ∀ l, op = .init l → w.lists.get l = []) :
    Sim (Model.LinkedList.step h op).1 (Spec.Seq.step w op).1
      ∧ (Model.LinkedList.step h op).2 = (Spec.Seq.step w op).2 :=
  step_sim hs op hinit

/-- the well-formedness invariant holds after every script (from the empty heap: all lists zero values) -/
theorem list_wf (ops : List Op) (hn : Spec.Seq.NoInitOnNonEmpty Spec.Seq.World.empty ops) :
    Sim (Model.LinkedList.finalHeap Model.LinkedList.Heap.empty ops)
        (Spec.Seq.finalWorld Spec.Seq.World.empty ops) :=
  final_sim ops Sim.init hn

/-- every script produces the same outputs on the heap model of lists/list.go and on the abstract
container/list world -/
theorem list_refines (ops : List Op) (hn : Spec.Seq.NoInitOnNonEmpty Spec.Seq.World.empty ops) :
    Model.LinkedList.run Model.LinkedList.Heap.empty ops = Spec.Seq.run Spec.Seq.World.empty ops :=
  run_sim ops Sim.init hn

/-- non-vacuity: a script with a zero-value list, `Init` on empty lists, a self PushBackList, a foreign
mark, a removed element reused, satisfies the hypothesis … -/
example : Spec.Seq.NoInitOnNonEmpty Spec.Seq.World.empty
    [.init 1, .pushBack 0 7, .pushFront 0 8, .pushBackList 0 0, .insertBefore 1 9 (some 0), .remove 0 (some 1),
     .remove 0 (some 1), .init 2, .moveToBack 0 (some 0), .fwd 0 64, .bwd 0 64, .next (some 1)] :=
  ⟨by decide, trivial, trivial, trivial, trivial, trivial, trivial, by decide, trivial, trivial, trivial, trivial, trivial⟩

/-- … and the model really computes on it -/
example : Model.LinkedList.run Model.LinkedList.Heap.empty
    [.pushBack 0 7, .pushFront 0 8, .pushBackList 0 0, .insertBefore 1 9 (some 0), .remove 0 (some 1),
     .remove 0 (some 1), .moveToBack 0 (some 0), .fwd 0 64, .bwd 0 2, .next (some 1), .len 0]
    = [.ptr (.elem 0), .ptr (.elem 1), .int 2, .ptr .null, .int 8, .int 8, .unit,
       .ptrs [.elem 2, .elem 3, .elem 0], .ptrs [.elem 0, .elem 3], .ptr .null, .int 3] := by decide

/-- ring well-formedness after every script -/
theorem ring_wf (ops : List Spec.RingOp.Op) :
    Lemmas.Ring.RingWF (Lemmas.Ring.finalHeap Model.Ring.RHeap.empty ops)
      (Lemmas.Ring.finalWorld Spec.RingSeq.RWorld.empty ops) :=
  Lemmas.Ring.ring_wf ops

/-- every script of ring operations (NewRing, zero rings, Next/Prev/Move/Link/Unlink/Len/Do, traversals; any
counts, any pair of rings, same ring or not) produces the same outputs on the pointer model of
lists/ring.go and on the abstract container/ring world -/
theorem ring_refines (ops : List Spec.RingOp.Op) :
    Lemmas.Ring.runModel Model.Ring.RHeap.empty ops = Lemmas.Ring.runSpec Spec.RingSeq.RWorld.empty ops :=
  Lemmas.Ring.ring_refines ops

/-- the fuel of the `Len`/`Do` loops of the model always suffices, and the model has no internal nil dereference -/
theorem ring_no_fuel_panic (ops : List Spec.RingOp.Op) (msg : String)
    (h : Spec.RingOp.Res.panic msg ∈ Lemmas.Ring.runModel Model.Ring.RHeap.empty ops) :
    msg = "nilfunc" ∨ msg = "badref" :=
  Lemmas.Ring.ring_no_fuel_panic ops msg h

end C06

#print axioms C06.list_step
#print axioms C06.list_wf
#print axioms C06.list_refines
#print axioms C06.ring_wf
#print axioms C06.ring_refines
#print axioms C06.ring_no_fuel_panic
