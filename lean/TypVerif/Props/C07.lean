import TypVerif.Lemmas.Sorted
/-
C07: "Starting from NewSorted/NewSortedOrdered over any input (which is copied, never aliased or reordered) and after
any sequence of Add, Remove and RemoveAt, the contents are in non-decreasing order under the less function and are
exactly the multiset of values put in and not taken out. When less is a strict total order consistent with ==, Add
returns the position at which the new value now sits, Index returns the first position holding the value or -1,
Contains agrees with Index, and Remove deletes one occurrence and returns its former position - or returns -1 and
changes nothing when the value is absent. Get and RemoveAt act on exactly the given position and panic for positions
outside [0,Len)."

Model: `Model/Sorted.lean` (binary search = `Model/GoSearch.lean`, the real `sort.Search` loop; `sort.SliceStable`
by contract, reference implementation `List.mergeSort`).  `NewSortedOrdered(values...)` is `NewSorted(values, typ.Less)`,
i.e. the instance `less := (· < ·)`.
-/
open TypVerif.Model TypVerif.Model.Sorted TypVerif.Spec.Order TypVerif.Lemmas.Sorted

namespace C07

/-- Sortedness is an invariant for every strict weak `less` (no consistency with `==` needed). -/
theorem sorted_inv {α : Type} [DecidableEq α] {less : α → α → Bool} (hw : StrictWeak less) :
    ∀ (init : List α) (ops : List (Op α)), IsSorted less (run less init ops).s.slice :=
  fun init ops => run_sorted hw init ops

example : ∀ (init : List Int) (ops : List (Op Int)),
    IsSorted (fun a b => decide (Int.tdiv a 2 < Int.tdiv b 2))
      (run (fun a b => decide (Int.tdiv a 2 < Int.tdiv b 2)) init ops).s.slice :=
  sorted_inv strictWeak_int_half

/-- The contents are the multiset "init + added − removed" — for EVERY `less`, even an inconsistent one.
`bagOf` (Lemmas/Sorted.lean) is the bookkeeping over the history: `Add v` puts `v` in, `Remove v` takes one `v` out when it
reports a position, `RemoveAt i` takes out the value `Get i` shows when `i` is in range. -/
theorem multiset {α : Type} [DecidableEq α] (less : α → α → Bool) (init : List α) (ops : List (Op α)) :
    (run less init ops).s.slice.Perm (bagOf less init ops) :=
  run_perm less init ops

/-- The input list is the caller's, unchanged, whatever happens afterwards (the model never writes it; that the Go copy does
not alias it is checked on the `input` lines of the correspondence). -/
theorem input_untouched {α : Type} [DecidableEq α] (less : α → α → Bool) (init : List α) (ops : List (Op α)) :
    (run less init ops).input = init := rfl

/-- Add returns the lower bound (number of elements `less` than the value), the value sits there afterwards, it is the first
position holding it, and the rest of the content is unchanged around it.  Needs only a strict weak order. -/
theorem add_pos {α : Type} [DecidableEq α] (s : Sorted α) (hw : StrictWeak s.less) (hs : IsSorted s.less s.slice) (v : α) :
    (s.add v).2 = (TypVerif.Spec.Sorted.lowerBound s.less s.slice v : Nat) ∧
    (s.add v).1.slice[(s.add v).2.toNat]? = some v ∧
    (s.add v).1.slice.idxOf v = (s.add v).2.toNat ∧
    (s.add v).1.slice = s.slice.take (s.add v).2.toNat ++ v :: s.slice.drop (s.add v).2.toNat := by
  rw [add_ret, Int.toNat_natCast]
  exact ⟨by rw [search_eq_lowerBound s hw hs v], add_getElem s v, add_idxOf s hw hs v, add_slice s v⟩

example := add_pos (⟨[1, 3, 3, 5], fun a b : Int => decide (a < b)⟩) strictTotal_int_lt.toStrictWeak
  (by unfold IsSorted; decide) 3
example : (((⟨[1, 3, 3, 5], fun a b => decide (a < b)⟩ : Sorted Int).add 3).1.slice,
    ((⟨[1, 3, 3, 5], fun a b => decide (a < b)⟩ : Sorted Int).add 3).2) = ([1, 3, 3, 3, 5], 1) := by decide

/-- Index returns the first position holding the value, or -1. -/
theorem index_first {α : Type} [DecidableEq α] (s : Sorted α) (ht : StrictTotal s.less) (hs : IsSorted s.less s.slice) (v : α) :
    s.index v = if v ∈ s.slice then (s.slice.idxOf v : Int) else -1 :=
  TypVerif.Lemmas.Sorted.index_first s ht hs v

example := index_first (⟨[1, 3, 3, 5], fun a b : Int => decide (a < b)⟩) strictTotal_int_lt (by unfold IsSorted; decide) 3

/-- With a merely strict weak order Index may miss a present value: the hypothesis `StrictTotal` is necessary. -/
example : ((⟨[2, 3], fun a b => decide (Int.tdiv a 2 < Int.tdiv b 2)⟩ : Sorted Int).index 3) = -1 := by decide

/-- Contains agrees with Index (by definition) and with membership. -/
theorem contains_iff {α : Type} [DecidableEq α] (s : Sorted α) (ht : StrictTotal s.less) (hs : IsSorted s.less s.slice) (v : α) :
    (s.contains v = true ↔ s.index v ≠ -1) ∧ (s.contains v = true ↔ v ∈ s.slice) :=
  ⟨by simp [Sorted.contains], TypVerif.Lemmas.Sorted.contains_iff s ht hs v⟩

/-- Remove of a present value deletes one occurrence (the first) and returns its former position. -/
theorem remove_present {α : Type} [DecidableEq α] (s : Sorted α) (ht : StrictTotal s.less) (hs : IsSorted s.less s.slice) (v : α)
    (hv : v ∈ s.slice) :
    s.remove v = ({ s with slice := s.slice.erase v }, (s.slice.idxOf v : Int)) :=
  TypVerif.Lemmas.Sorted.remove_present s ht hs v hv

example := remove_present (⟨[1, 3, 3, 5], fun a b : Int => decide (a < b)⟩) strictTotal_int_lt
  (by unfold IsSorted; decide) 3 (by decide)
example : (((⟨[1, 3, 3, 5], fun a b => decide (a < b)⟩ : Sorted Int).remove 3).1.slice,
    ((⟨[1, 3, 3, 5], fun a b => decide (a < b)⟩ : Sorted Int).remove 3).2) = ([1, 3, 5], 1) := by decide

/-- Remove of an absent value returns -1 and changes nothing — for EVERY `less` (this is the clause the `fix:` commit
repaired: the pinned tree passed -1 on to `slices.Remove`). -/
theorem remove_absent {α : Type} [DecidableEq α] (s : Sorted α) (v : α) (hv : v ∉ s.slice) :
    s.remove v = (s, -1) :=
  TypVerif.Lemmas.Sorted.remove_absent s v hv

/-- Get and RemoveAt act on exactly the given position when it is inside `[0, Len)`. -/
theorem get_removeAt_exact {α : Type} (s : Sorted α) (i : Int) (h0 : 0 ≤ i) (h1 : i < s.len) :
    s.get i = .ok (s.slice[i.toNat]'(by simp only [Sorted.len] at h1; omega)) ∧
    s.removeAtIdx i = .ok { s with slice := s.slice.eraseIdx i.toNat } :=
  ⟨get_ok s i h0 h1, removeAtIdx_ok s i h0 h1⟩

/-- … and panic (class custom; `step` leaves the state unchanged) exactly for positions outside `[0, Len)`. -/
theorem get_removeAt_panic_iff {α : Type} (s : Sorted α) (i : Int) :
    (s.get i = .error "custom" ↔ ¬ (0 ≤ i ∧ i < s.len)) ∧
    (s.removeAtIdx i = .error "custom" ↔ ¬ (0 ≤ i ∧ i < s.len)) :=
  ⟨get_panic_iff s i, removeAtIdx_panic_iff s i⟩

/-- Altogether, under a strict total order the model (binary search and splices) computes exactly the functional
specification `Spec.Sorted` (sorted arrangement of a multiset, `idxOf`, `erase`, `eraseIdx`) that the driver uses as
`spec` for less ids 0 and 1: same final content, same result on every line. -/
theorem refines_spec {α : Type} [DecidableEq α] {less : α → α → Bool} (ht : StrictTotal less) (init : List α) (ops : List (Op α)) :
    ((run less init ops).s.slice, resultsFrom (newSorted init less).s ops) =
      specRun less (TypVerif.Spec.Sorted.new less init) ops :=
  runFrom_refines (newSorted init less).s ht (stableSort_sorted ht.toStrictWeak init) ops

example : StrictTotal (fun a b : Int => decide (a < b)) := strictTotal_int_lt
example : StrictTotal (fun a b : Int => decide (a > b)) := strictTotal_int_gt

end C07

#print axioms C07.sorted_inv
#print axioms C07.multiset
#print axioms C07.input_untouched
#print axioms C07.add_pos
#print axioms C07.index_first
#print axioms C07.contains_iff
#print axioms C07.remove_present
#print axioms C07.remove_absent
#print axioms C07.get_removeAt_exact
#print axioms C07.get_removeAt_panic_iff
#print axioms C07.refines_spec
