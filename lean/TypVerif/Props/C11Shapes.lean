import TypVerif.Gen.BimapShapes
import TypVerif.Gen.MapsShapes
/-
C11, tie 4B — GOLDEN FUNCTION SHAPES (written by tools/mkshapes.py; do not edit by hand).  For every function of the source files this property's model mirrors,
the extractor regenerates on every run: its calls, its stores through selectors / indices / pointers, its conditions and loop headers, its select cases and
its return expressions, in source order.  The theorems below state that these equal the shapes of the tree the model was written against.  They are the STATIC,
all-paths complement of the differential runs: a guard dropped, a fast path or a threshold added, an early return, a changed comparison or a different callee
on ANY path - also one that no generated input happens to take - changes the regenerated list and breaks the `rfl`.  A broken shape theorem is reported like a
broken proof (with a failing input when the search finds one, else `no-failing-input-found`); after a deliberate change of the source the changed functions are
re-read against the model and this file is regenerated.
-/
namespace C11

/-- maps/bimap.go: 11 function(s) -/
theorem gen_shapes_bimap :
    Gen.BimapShapes.funcs =
      [("Bimap.Len", ["if b == nil", "return 0", "return len(b.forward)", "call len"]),
       ("Bimap.Add", ["if oldVal, ok := b.GetForward(key); ok", "call b.GetForward", "call delete", "if oldKey, ok := b.GetReverse(value); ok", "call b.GetReverse", "call delete", "if b.forward == nil", "store b.forward", "call make", "store b.reverse", "call make", "store b.forward[key]", "store b.reverse[value]"]),
       ("Bimap.RemoveForward", ["if value, ok := b.forward[key]; ok", "call delete", "call delete"]),
       ("Bimap.RemoveReverse", ["if key, ok := b.reverse[value]; ok", "call delete", "call delete"]),
       ("Bimap.Range", ["range b.forward", "if !f(k, v)", "call f", "return "]),
       ("Bimap.ContainsForward", ["return ok"]),
       ("Bimap.GetForward", ["return value, ok"]),
       ("Bimap.ContainsReverse", ["return ok"]),
       ("Bimap.GetReverse", ["return key, ok"]),
       ("Bimap.Clear", ["call Clear", "call Clear"]),
       ("Bimap.Clone", ["return Bimap[K, V]{…}", "call Clone", "call Clone"])] := rfl

/-- maps/maps.go, Clear and Clone - DEPENDENCIES of Bimap.Clear / Clone: 2 function(s) -/
theorem gen_shapes_dep_maps :
    Gen.MapsShapes.funcs.filter (fun f => (["Clear", "Clone"]).contains f.1) =
      [("Clone", ["call make", "call len", "range m", "store newMap[k]", "return newMap"]),
       ("Clear", ["range m", "call delete"])] := rfl

end C11
