import TypVerif.Lemmas.Bimap
import TypVerif.Lemmas.BimapSim
/-
C11 — "After any sequence of Add, RemoveForward, RemoveReverse and Clear on a Bimap (zero value or clone), the
forward and reverse lookups are inverse bijections of each other: GetForward(k) = (v,true) exactly when
GetReverse(v) = (k,true), ContainsForward/ContainsReverse agree with them, and Len is the number of such pairs.
Add(k,v) evicts any earlier pair that used key k or value v, removals delete the whole pair from both
directions, Range visits every pair exactly once, and Clone is independent of the original."

Model: `TypVerif.Model.Bimap` (two Go maps = nil | association list; `run : List Op → Except String World`,
worlds bind handles to bimaps, `new h` binds the zero value, `clone h r` binds `r` to `h.Clone()`).
`Reachable b` = `b` is bound to some handle after some operation sequence from the empty world.
`WF b` = the representation invariant (both maps nil or both allocated, no duplicate keys, lookups mutually
inverse); `C11.reachable_inv` shows every reachable bimap satisfies it, so the theorems stated for `WF b`
hold in every reachable state.
-/
open TypVerif.Model.Bimap TypVerif.Lemmas.Bimap
open TypVerif

namespace C11

variable {K V : Type} [DecidableEq K] [DecidableEq V] [Inhabited K] [Inhabited V]

/-- a concrete reachable state used by the non-vacuity examples: {1↦2, 3↦4} bound to handle 0 -/
private def exOps : List (Op Int Int) := [.new 0, .add 0 1 2, .add 0 3 4]
private def exB : Bimap Int Int := ⟨.mk [(1, 2), (3, 4)], .mk [(2, 1), (4, 3)]⟩
private theorem exRun : run exOps = .ok [(0, exB)] := rfl
private theorem exReach : Reachable exB := ⟨exOps, _, 0, exRun, rfl⟩

/-- No operation sequence panics: in particular `Add` on the zero value allocates before it assigns. -/
theorem no_panic (ops : List (Op K V)) : ∃ w, run ops = .ok w := by
  obtain ⟨w, h, _⟩ := run_spec ops
  exact ⟨w, h⟩

/-- Every bimap bound to any handle after any operation sequence satisfies the representation invariant. -/
theorem reachable_inv (ops : List (Op K V)) (w : World K V) (h : Int) (b : Bimap K V)
    (hr : run ops = .ok w) (hb : lookup w h = some b) : WF b :=
  reachable_wf ⟨ops, w, h, hr, hb⟩

example : ∃ (w : World Int Int) (b : Bimap Int Int), run exOps = .ok w ∧ lookup w 0 = some b :=
  ⟨_, exB, exRun, rfl⟩

/-- The two lookups are inverse to each other in every reachable state (all op sequences, including clones into
other handles; all handles), both as options and as the Go result tuples. -/
theorem inverse_inv (ops : List (Op K V)) (w : World K V) (h : Int) (b : Bimap K V)
    (hr : run ops = .ok w) (hb : lookup w h = some b) (k : K) (v : V) :
    (b.getForward? k = some v ↔ b.getReverse? v = some k) ∧
    (b.getForward k = (v, true) ↔ b.getReverse v = (k, true)) := by
  have wf := reachable_inv ops w h b hr hb
  refine ⟨wf.inv k v, ?_⟩
  rw [getForward_eq_true_iff, getReverse_eq_true_iff]
  exact wf.inv k v

example : ∃ (w : World Int Int) (b : Bimap Int Int), run exOps = .ok w ∧ lookup w 0 = some b ∧
    b.getForward 3 = (4, true) ∧ b.getReverse 4 = (3, true) :=
  ⟨_, exB, exRun, rfl, by decide, by decide⟩

/-- `Add k v` on a well-formed bimap: never panics, installs `k ↔ v`, evicts the old partner `v0` of `k` and the
old owner `k0` of `v` from both directions, and changes nothing else. -/
theorem add_evicts {b : Bimap K V} (wf : WF b) (k : K) (v : V) :
    ∃ b', b.add k v = .ok b' ∧ WF b' ∧
      b'.getForward? k = some v ∧ b'.getReverse? v = some k ∧
      (∀ v0, b.getForward? k = some v0 → v0 ≠ v → b'.getReverse? v0 = none) ∧
      (∀ k0, b.getReverse? v = some k0 → k0 ≠ k → b'.getForward? k0 = none) ∧
      (∀ k', k' ≠ k → b.getReverse? v ≠ some k' → b'.getForward? k' = b.getForward? k') ∧
      (∀ v', v' ≠ v → b.getForward? k ≠ some v' → b'.getReverse? v' = b.getReverse? v') := by
  obtain ⟨b', hb', wf', _, hF, hR⟩ := add_spec wf k v
  refine ⟨b', hb', wf', ?_, ?_, ?_, ?_, ?_, ?_⟩
  · rw [hF]; simp
  · rw [hR]; simp
  · intro v0 h0 hne
    rw [hR]; simp [Ne.symm hne, h0]
  · intro k0 h0 hne
    rw [hF]; simp [Ne.symm hne, h0]
  · intro k' hne hr
    rw [hF]; simp [Ne.symm hne, hr]
  · intro v' hne hf
    rw [hR]; simp [Ne.symm hne, hf]

-- non-vacuous: a reachable (hence well-formed) bimap in which `Add 1 4` evicts two different pairs
example : WF exB ∧ exB.getForward? 1 = some 2 ∧ (2 : Int) ≠ 4 ∧ exB.getReverse? 4 = some 3 ∧ (3 : Int) ≠ 1 :=
  ⟨reachable_wf exReach, by decide, by decide, by decide, by decide⟩

/-- Removals delete the whole pair from both directions and nothing else; they do nothing when the key
(resp. value) is absent. -/
theorem remove_both {b : Bimap K V} (wf : WF b) :
    (∀ k v, b.getForward? k = some v →
      WF (b.removeForward k) ∧
      (b.removeForward k).getForward? k = none ∧ (b.removeForward k).getReverse? v = none ∧
      (∀ k', k' ≠ k → (b.removeForward k).getForward? k' = b.getForward? k') ∧
      (∀ v', v' ≠ v → (b.removeForward k).getReverse? v' = b.getReverse? v')) ∧
    (∀ k, b.getForward? k = none → b.removeForward k = b) ∧
    (∀ v k, b.getReverse? v = some k →
      WF (b.removeReverse v) ∧
      (b.removeReverse v).getReverse? v = none ∧ (b.removeReverse v).getForward? k = none ∧
      (∀ v', v' ≠ v → (b.removeReverse v).getReverse? v' = b.getReverse? v') ∧
      (∀ k', k' ≠ k → (b.removeReverse v).getForward? k' = b.getForward? k')) ∧
    (∀ v, b.getReverse? v = none → b.removeReverse v = b) := by
  refine ⟨?_, fun k h => removeForward_absent h, ?_, fun v h => removeReverse_absent h⟩
  · intro k v hkv
    obtain ⟨wf', _, hF, hR⟩ := removeForward_spec wf k
    refine ⟨wf', ?_, ?_, ?_, ?_⟩
    · rw [hF]; simp
    · rw [hR]; simp [hkv]
    · intro k' hne; rw [hF]; simp [Ne.symm hne]
    · intro v' hne; rw [hR]; simp [hkv, Ne.symm hne]
  · intro v k hvk
    obtain ⟨wf', _, hF, hR⟩ := removeReverse_spec wf v
    refine ⟨wf', ?_, ?_, ?_, ?_⟩
    · rw [hR]; simp
    · rw [hF]; simp [hvk]
    · intro v' hne; rw [hR]; simp [Ne.symm hne]
    · intro k' hne; rw [hF]; simp [hvk, Ne.symm hne]

example : WF exB ∧ exB.getForward? 1 = some 2 ∧ exB.getForward? 7 = none ∧
    exB.getReverse? 4 = some 3 ∧ exB.getReverse? 7 = none :=
  ⟨reachable_wf exReach, by decide, by decide, by decide, by decide⟩

/-- `Len` is the number of pairs: the forward entry list has no duplicates and lists exactly the pairs
`fwd k = some v`; `Len` is its length, equals the size of the reverse map, and equals the length of ANY
duplicate-free enumeration of the pairs. -/
theorem len_eq_pairs (ops : List (Op K V)) (w : World K V) (h : Int) (b : Bimap K V)
    (hr : run ops = .ok w) (hb : lookup w h = some b) :
    b.len = b.forward.entries.length ∧ b.forward.entries.Nodup ∧
    (∀ k v, (k, v) ∈ b.forward.entries ↔ b.getForward? k = some v) ∧
    b.len = b.reverse.entries.length ∧
    (∀ v k, (v, k) ∈ b.reverse.entries ↔ b.getReverse? v = some k) ∧
    (∀ ps : List (K × V), ps.Nodup → (∀ k v, (k, v) ∈ ps ↔ b.getForward? k = some v) → ps.length = b.len) := by
  have wf := reachable_inv ops w h b hr hb
  exact ⟨rfl, fwd_entries_nodup wf, fwd_mem_iff wf, (len_reverse wf).symm, rev_mem_iff wf,
    fun ps nd hps => len_eq_of_enum wf ps nd hps⟩

example : ∃ (w : World Int Int) (b : Bimap Int Int), run exOps = .ok w ∧ lookup w 0 = some b ∧ b.len = 2 :=
  ⟨_, exB, exRun, rfl, by decide⟩

/-- `Range` visits every pair exactly once, whatever the iteration order of the Go map: for every permutation
`order` of the forward entries, the callback trace with a never-stopping callback (`recorder 0`) is `order`,
it has no duplicates, contains exactly the current pairs, and has `Len` elements; with a callback that returns
false on its `n`-th call the trace is the prefix of length `n`.  (The model's own `Range` is the instance
`order = b.forward.entries`.) -/
theorem range_once (ops : List (Op K V)) (w : World K V) (h : Int) (b : Bimap K V)
    (hr : run ops = .ok w) (hb : lookup w h = some b)
    (order : List (K × V)) (hp : order.Perm b.forward.entries) :
    Bimap.rangeLoop (Bimap.recorder 0) order [] = order ∧
    order.Nodup ∧ (∀ k v, (k, v) ∈ order ↔ b.getForward? k = some v) ∧ order.length = b.len ∧
    (∀ n, 0 < n → Bimap.rangeLoop (Bimap.recorder n) order [] = order.take n) ∧
    (∀ {σ : Type} (f : σ → K → V → σ × Bool) (s : σ), b.range f s = Bimap.rangeLoop f b.forward.entries s) := by
  have wf := reachable_inv ops w h b hr hb
  refine ⟨?_, ?_, ?_, hp.length_eq, ?_, fun _ _ => rfl⟩
  · simpa using rangeLoop_recorder_ge 0 order [] (Nat.le_refl 0)
  · exact hp.nodup_iff.mpr (fwd_entries_nodup wf)
  · intro k v; rw [hp.mem_iff, fwd_mem_iff wf]
  · intro n hn
    simpa using rangeLoop_recorder_lt n order [] hn

example : ∃ (w : World Int Int) (b : Bimap Int Int), run exOps = .ok w ∧ lookup w 0 = some b ∧
    [((3 : Int), (4 : Int)), (1, 2)].Perm b.forward.entries :=
  ⟨_, exB, exRun, rfl, (List.Perm.swap _ _ _)⟩

/-- `ContainsForward`/`ContainsReverse` are the `ok` components of the lookups (any bimap), and in reachable
states a key is contained iff some contained value maps back to it (and symmetrically). -/
theorem contains_agree (ops : List (Op K V)) (w : World K V) (h : Int) (b : Bimap K V)
    (hr : run ops = .ok w) (hb : lookup w h = some b) :
    (∀ k, b.containsForward k = (b.getForward k).2) ∧
    (∀ v, b.containsReverse v = (b.getReverse v).2) ∧
    (∀ k, b.containsForward k = true ↔ ∃ v, b.containsReverse v = true ∧ b.getReverse v = (k, true)) ∧
    (∀ v, b.containsReverse v = true ↔ ∃ k, b.containsForward k = true ∧ b.getForward k = (v, true)) := by
  have wf := reachable_inv ops w h b hr hb
  refine ⟨?_, ?_, ?_, ?_⟩
  · intro k; simp [Bimap.containsForward, Bimap.getForward, commaOk_eq]
  · intro v; simp [Bimap.containsReverse, Bimap.getReverse, commaOk_eq]
  · intro k
    constructor
    · intro hc
      simp only [Bimap.containsForward, Option.isSome_iff_exists] at hc
      obtain ⟨v, hv⟩ := hc
      have hrv : b.getReverse? v = some k := (wf.inv k v).mp hv
      refine ⟨v, ?_, (getReverse_eq_true_iff b v k).mpr hrv⟩
      simp only [Bimap.containsReverse, Option.isSome_iff_exists]
      exact ⟨k, hrv⟩
    · rintro ⟨v, _, hg⟩
      have hrv := (getReverse_eq_true_iff b v k).mp hg
      have hf : b.getForward? k = some v := (wf.inv k v).mpr hrv
      simp only [Bimap.containsForward, Option.isSome_iff_exists]
      exact ⟨v, hf⟩
  · intro v
    constructor
    · intro hc
      simp only [Bimap.containsReverse, Option.isSome_iff_exists] at hc
      obtain ⟨k, hk⟩ := hc
      have hf : b.getForward? k = some v := (wf.inv k v).mpr hk
      refine ⟨k, ?_, (getForward_eq_true_iff b k v).mpr hf⟩
      simp only [Bimap.containsForward, Option.isSome_iff_exists]
      exact ⟨v, hf⟩
    · rintro ⟨k, _, hg⟩
      have hf := (getForward_eq_true_iff b k v).mp hg
      have hrv : b.getReverse? v = some k := (wf.inv k v).mp hf
      simp only [Bimap.containsReverse, Option.isSome_iff_exists]
      exact ⟨k, hrv⟩

example : ∃ (w : World Int Int) (b : Bimap Int Int), run exOps = .ok w ∧ lookup w 0 = some b ∧
    b.containsForward 1 = true ∧ b.containsForward 2 = false :=
  ⟨_, exB, exRun, rfl, by decide, by decide⟩

/-- After `Clear` both lookups are empty and `Len = 0`; the result is well formed, so it can be used again
(`Add` succeeds); clearing the zero value leaves the zero value, which is still usable. -/
theorem clear {b : Bimap K V} (wf : WF b) :
    WF b.clear ∧
    (∀ k, b.clear.getForward? k = none ∧ b.clear.getForward k = (default, false) ∧
      b.clear.containsForward k = false) ∧
    (∀ v, b.clear.getReverse? v = none ∧ b.clear.getReverse v = (default, false) ∧
      b.clear.containsReverse v = false) ∧
    b.clear.len = 0 ∧
    (∀ k v, ∃ b', b.clear.add k v = .ok b' ∧ b'.getForward? k = some v ∧ b'.getReverse? v = some k) ∧
    (zero : Bimap K V).clear = zero := by
  obtain ⟨wf', _, hF, hR, hl⟩ := clear_spec wf
  refine ⟨wf', ?_, ?_, hl, ?_, rfl⟩
  · intro k
    refine ⟨hF k, (getForward_absent_iff _ k).mpr (hF k), ?_⟩
    have := hF k
    simp only [Bimap.getForward?] at this
    simp [Bimap.containsForward, this]
  · intro v
    refine ⟨hR v, (getReverse_absent_iff _ v).mpr (hR v), ?_⟩
    have := hR v
    simp only [Bimap.getReverse?] at this
    simp [Bimap.containsReverse, this]
  · intro k v
    obtain ⟨b', hb', _, h1, h2, _⟩ := add_evicts wf' k v
    exact ⟨b', hb', h1, h2⟩

example : WF exB ∧ exB.len = 2 ∧ WF (zero : Bimap Int Int) :=
  ⟨reachable_wf exReach, by decide, wf_zero⟩

omit [Inhabited K] [Inhabited V] in
/-- `Clone` has the same lookups and the same `Len` as the original, is well formed, and its maps are
allocated even when the original is the zero value. -/
theorem clone_eq {b : Bimap K V} (wf : WF b) :
    WF b.clone ∧
    (∀ k, b.clone.getForward? k = b.getForward? k) ∧
    (∀ v, b.clone.getReverse? v = b.getReverse? v) ∧
    b.clone.len = b.len ∧
    b.clone.forward.isNil = false ∧ b.clone.reverse.isNil = false := by
  obtain ⟨wf', n1, n2, hF, hR⟩ := clone_spec wf
  refine ⟨wf', hF, hR, ?_, n1, n2⟩
  apply len_eq_of_enum wf _ (fwd_entries_nodup wf')
  intro k v
  rw [fwd_mem_iff wf', hF]

example : WF exB ∧ WF (zero : Bimap Int Int) ∧ (zero : Bimap Int Int).forward.isNil = true :=
  ⟨reachable_wf exReach, wf_zero, rfl⟩

/-- `Clone` is independent of the original (frame property of the world model): after any history, further
operations none of which targets handle `h` (e.g. any operations on a clone of `h`, or on the original when `h`
is the clone) leave the bimap bound to `h` unchanged — and one operation changes at most its target. -/
theorem clone_independent (ops : List (Op K V)) (w : World K V) (hr : run ops = .ok w) :
    (∀ (ops' : List (Op K V)) (h : Int), (∀ op ∈ ops', op.target ≠ h) →
      ∃ w', run (ops ++ ops') = .ok w' ∧ lookup w' h = lookup w h) ∧
    (∀ (op : Op K V) (w' : World K V), step w op = .ok w' → ∀ h, h ≠ op.target → lookup w' h = lookup w h) := by
  obtain ⟨w0, hr0, hw⟩ := run_spec ops
  rw [hr] at hr0
  injection hr0 with e
  subst e
  constructor
  · intro ops' h hfar
    obtain ⟨w', h1, _, h2⟩ := runFrom_frame hw ops' h hfar
    refine ⟨w', ?_, h2⟩
    unfold run at hr ⊢
    rw [runFrom_append, hr]
    exact h1
  · intro op w' hs h hne
    obtain ⟨w1, h1, _, fr⟩ := step_spec hw op
    rw [hs] at h1
    injection h1 with e
    subst e
    exact fr h hne

-- non-vacuous: clone handle 0 into 1, then mutate 1 only; handle 0 keeps `exB`
example : ∃ w : World Int Int, run (exOps ++ [.clone 0 1]) = .ok w ∧ lookup w 0 = some exB ∧
    (∀ op ∈ ([.add 1 1 4, .rmf 1 3, .clear 1] : List (Op Int Int)), op.target ≠ 0) :=
  ⟨_, rfl, rfl, by decide⟩

/-- Refinement: running the model and the specification (`Spec.Bimap`: a set of pairs that is an
injective finite map) on the same operation sequence binds the same handles, and for every handle the two
lookups, the containment tests and `Len` of the model are those of the specification object. -/
theorem refines_spec (ops : List (Op K V)) (w : World K V) (hr : run ops = .ok w) (h : Int) :
    ORel (fun (b : Bimap K V) (s : Spec.Bimap.Rel K V) =>
        Spec.Bimap.Injective s ∧
        (∀ k, b.getForward? k = Spec.Bimap.fwd s k) ∧
        (∀ v, b.getReverse? v = Spec.Bimap.rev s v) ∧
        (∀ k, b.containsForward k = Spec.Bimap.containsKey s k) ∧
        (∀ v, b.containsReverse v = Spec.Bimap.containsVal s v) ∧
        b.len = Spec.Bimap.len s)
      (lookup w h) (Spec.Bimap.wget (Spec.Bimap.run ops) h) := by
  have hs := sim_run ops hr h
  cases e1 : lookup w h with
  | none =>
    cases e2 : Spec.Bimap.wget (Spec.Bimap.run ops) h with
    | none => trivial
    | some s => rw [e1, e2] at hs; exact hs.elim
  | some b =>
    cases e2 : Spec.Bimap.wget (Spec.Bimap.run ops) h with
    | none => rw [e1, e2] at hs; exact hs.elim
    | some s =>
      rw [e1, e2] at hs
      have r : Rep b s := hs
      refine ⟨r.inj, r.fwd_eq, r.rev_eq, ?_, ?_, r.len_eq⟩
      · intro k
        have := r.fwd_eq k
        simp only [Bimap.getForward?] at this
        simp [Bimap.containsForward, Spec.Bimap.containsKey, this]
      · intro v
        have := r.rev_eq v
        simp only [Bimap.getReverse?] at this
        simp [Bimap.containsReverse, Spec.Bimap.containsVal, this]

example : Spec.Bimap.wget (Spec.Bimap.run exOps) 0 = some [((3 : Int), (4 : Int)), (1, 2)] := by decide

/-- The specification objects reached are injective finite maps whose two lookups are mutually inverse
(so the specification itself states the property). -/
theorem spec_inverse (ops : List (Op K V)) (h : Int) (s : Spec.Bimap.Rel K V)
    (hs : Spec.Bimap.wget (Spec.Bimap.run ops) h = some s) (k : K) (v : V) :
    Spec.Bimap.fwd s k = some v ↔ Spec.Bimap.rev s v = some k := by
  obtain ⟨w, hr⟩ := no_panic ops
  have := refines_spec ops w hr h
  rw [hs] at this
  cases e : lookup w h with
  | none => rw [e] at this; exact this.elim
  | some b =>
    rw [e] at this
    exact Lemmas.Bimap.spec_inverse this.1 k v

example : Spec.Bimap.wget (Spec.Bimap.run exOps) 0 = some [((3 : Int), (4 : Int)), (1, 2)] := by decide

end C11

#print axioms C11.no_panic
#print axioms C11.reachable_inv
#print axioms C11.inverse_inv
#print axioms C11.add_evicts
#print axioms C11.remove_both
#print axioms C11.len_eq_pairs
#print axioms C11.range_once
#print axioms C11.contains_agree
#print axioms C11.clear
#print axioms C11.clone_eq
#print axioms C11.clone_independent
#print axioms C11.refines_spec
#print axioms C11.spec_inverse
