import TypVerif.Gen.ChanShapes
/-
C10, tie 4B — GOLDEN FUNCTION SHAPES (written by tools/mkshapes.py; do not edit by hand).  For every function of the source files this property's model mirrors,
the extractor regenerates on every run: its calls, its stores through selectors / indices / pointers, its conditions and loop headers, its select cases and
its return expressions, in source order.  The theorems below state that these equal the shapes of the tree the model was written against.  They are the STATIC,
all-paths complement of the differential runs: a guard dropped, a fast path or a threshold added, an early return, a changed comparison or a different callee
on ANY path - also one that no generated input happens to take - changes the regenerated list and breaks the `rfl`.  A broken shape theorem is reported like a
broken proof (with a failing input when the search finds one, else `no-failing-input-found`); after a deliberate change of the source the changed functions are
re-read against the model and this file is regenerated.
-/
namespace C10

/-- chans/chans.go, SendTimeout - the DEPENDENCY of PubSub.send: 1 function(s) -/
theorem gen_shapes_dep_sendtimeout :
    Gen.ChanShapes.funcs.filter (fun f => (["SendTimeout"]).contains f.1) =
      [("SendTimeout", ["if timeout <= 0", "send ch <- value", "return true", "call time.NewTimer", "case ch <- value:", "send ch <- value", "call timer.Stop", "return true", "case <-timer.C:", "return false"])] := rfl

end C10
