import TypVerif.Gen.SlicesShapes
import TypVerif.Gen.SortShapes
/-
C12, tie 4B — GOLDEN FUNCTION SHAPES (written by tools/mkshapes.py; do not edit by hand).  For every function of the source files this property's model mirrors,
the extractor regenerates on every run: its calls, its stores through selectors / indices / pointers, its conditions and loop headers, its select cases and
its return expressions, in source order.  The theorems below state that these equal the shapes of the tree the model was written against.  They are the STATIC,
all-paths complement of the differential runs: a guard dropped, a fast path or a threshold added, an early return, a changed comparison or a different callee
on ANY path - also one that no generated input happens to take - changes the regenerated list and breaks the `rfl`.  A broken shape theorem is reported like a
broken proof (with a failing input when the search finds one, else `no-failing-input-found`); after a deliberate change of the source the changed functions are
re-read against the model and this file is regenerated.
-/
namespace C12

/-- slices/slices.go, the splicing helpers: 9 function(s) -/
theorem gen_shapes_splice :
    Gen.SlicesShapes.funcs.filter (fun f => (["Fill", "Insert", "InsertSlice", "Remove", "RemoveSlice", "Repeat", "Concat", "Clone", "Grow"]).contains f.1) =
      [("Fill", ["if len(slice) == 0", "call len", "return ", "store slice[0]", "for i < len(slice)", "call len", "call copy"]),
       ("Insert", ["store *slice", "call append", "call copy", "store (*slice)[index]"]),
       ("InsertSlice", ["store *slice", "call append", "call copy", "call len", "call copy"]),
       ("Remove", ["call copy", "store *slice", "call len"]),
       ("RemoveSlice", ["call copy", "store *slice", "call len"]),
       ("Repeat", ["call make", "call Fill", "return result"]),
       ("Concat", ["call make", "call len", "call len", "call copy", "call len", "call copy", "call len", "return result"]),
       ("Clone", ["call make", "call len", "call copy", "return newSlice"]),
       ("Grow", ["return append(slice, make(S, n)...)", "call append", "call make"])] := rfl

/-- slices/sort.go, Reverse: 1 function(s) -/
theorem gen_shapes_reverse :
    Gen.SortShapes.funcs.filter (fun f => (["Reverse"]).contains f.1) =
      [("Reverse", ["for i < len(slice) / 2", "call len", "call len", "store slice[i]", "store slice[j]"])] := rfl

end C12
