import TypVerif.Lemmas.PubSubRedFuel
import TypVerif.Lemmas.PubSubRedGood
import TypVerif.Lemmas.PubSubRedGoodAll
import TypVerif.Props.C10accept
/-
C10 — THE JUDGE'S REDUCTION LOSES NO BEHAVIOUR (completeness of `succJ` / `norm` / `advance` of `Drv/C10.lean`, budget and cap apart).

Question: can the judge reject (state set empty) a trace that IS a trace of `Model.PubSub.sys`?  Answer: no, as long as neither the step
budget `fuel` nor `stateCap` cuts a closure short (`judge_complete_real`; `judgeDone` is the executable test for that) — for every
configuration.  The proof uses the reachable-state invariant `Good` (readers/waiting counters count the tasks, objects of tasks exist, no
task on an object `WithOnly` is still constructing): `good_all` (`Lemmas/PubSubRedGoodAll.lean`; `good_noClone` is the short derivation
from `Safe`/`Live` for the system without clones).  EXPERIMENT first (scratch/ExpMain.lean, scratch/Faith.lean; results in the final report):
exhaustive comparison of the fold of `advance` with the plain subset construction (`Conc.after (sys cfg) 200`) over all traces of small
menus (timeouts, unbuffered/buffered subscribers, `Unsub`/`UnsubAll`/`Sub` racing with `sendAsync`, `WithOnly`): no difference.

PROOF IDEA.  Two kinds of internal steps are LAG steps: `rd` — a `sendAsync` goroutine takes the read lock (`asyncStart ↦ asyncSend _ _ false`,
`readers+1`), which `succJ` never performs alone; `ann` — a writer announces (`…Start ↦ …Wait`, `waiting+1`), which must be postponed
together with it (a waiting writer keeps the goroutine out once the lock is taken late).  Both change one task and one counter
(`Lemmas.PubSubRed.lagT`).  The simulation relation is `Lag gs j s`: the model state `s` is the judge's state `j` plus the lag steps `gs`.
* `lag_commutes` (KEY COMMUTATION LEMMA): a lag step of task `g` right-commutes with every step of every other task, of a receiver, of the
  environment and with exit: what can be done after it can be done before it, same label, same final state, the lag step still enabled.
  Only exception: an announcement after a read lock on the same object (itself a lag step; the swapped order is disabled).
  The subtractions `readers-1`/`waiting-1` and `WithOnly`'s overwrite need the invariant `Good`.
* `red_simulates` (STEP SIMULATION): a model step that is a lag step is a stutter of the judge; a step of a task that is not lagging (or of the
  surroundings) is moved left over all lag steps and done by the judge; the send / timer of a lagging `sendAsync` goroutine: its `rd` is moved
  to the front (`lag_front`; a read lock is never preceded by an announcement on the same object in a lag sequence) and the judge does
  the MERGED step of `succJ`; the acquisition of a lagging writer (needs `readers = 0`, so no `rd` on that object is lagging): its
  announcement is moved to the front and the judge announces and acquires.  At most 2 judge steps per model step.
* `red_complete`, `judge_complete`: along executions; into the judge's state sets with full closure (`afterR`, relational `Closes`).
`judge_sets_sub`: the real sets (`advance`, with budget and cap) are contained in `afterR`; `judge_sets_eq`: and equal to them when no closure
along the trace was cut short (`judgeDone cfg [{}] tr = true`: every `closure` ended with an empty frontier; `closure_saturated`).
LEFT OPEN (cannot hold in general): that `fuel = 200` rounds and `stateCap = 40000` states always suffice — when they do not, the judge
may lose states (a closure stopped by the cap returns more than `stateCap` states, so `Drv.C10.step` then stops modelling the scenario:
tag `model.skipped:state-explosion`, never a verdict; but a closure that runs out of its `fuel` = 200 breadth-first rounds is silent and could
in principle lead to a false `rejected:`; a round is one more internal step on every path, so this needs an internal path of > 200 steps).
-/
namespace C10
open TypVerif TypVerif.Conc TypVerif.Model.PubSub TypVerif.Drv.C10 TypVerif.Lemmas.ConcAcceptC10 TypVerif.Lemmas.PubSubRed

/-- KEY COMMUTATION LEMMA: after the lag step `κ` of task `g` (read lock of a `sendAsync` goroutine / announcement of a writer) from `x` to `y`,
every step `(l, z)` of another source (`some k`: task `k ≠ g`; `none`: environment, receivers, exit) from `y` can be taken from `x` already,
with the same label, and the lag step then leads from there to the same `z`.  Side condition: if `κ` is a read lock, the other task is
not a writer about to announce (`annOf tk = none`). -/
theorem lag_commutes (cfg : Cfg) {x y z : State} {g : Nat} {κ : LK} {l : Option Event} (hG : Good x) (hl : LagStep x g κ y)
    (src : Option Nat) (hsrc : src ≠ some g)
    (hna : ∀ k tk, src = some k → x.tasks[k]? = some tk → ¬ κ.annOK → annOf tk = none)
    (h : (l, z) ∈ stepsOf cfg y src) : ∃ y', (l, y') ∈ stepsOf cfg x src ∧ LagStep y' g κ z :=
  stepsOf_lag cfg hG hl src hsrc hna h

/-- the sources partition the successor function -/
theorem succ_sources (cfg : Cfg) (x : State) (hex : x.exited = false) (hp : x.panicked = none) (p : Option Event × State) :
    p ∈ succ cfg x ↔ ∃ src, p ∈ stepsOf cfg x src :=
  mem_succ_iff cfg x hex hp p

/-- a lag step is an internal step of the model (in a state that has neither exited nor panicked) -/
theorem lag_is_step (cfg : Cfg) {x y : State} {g : Nat} {κ : LK} (h : LagStep x g κ y) (hex : x.exited = false) (hp : x.panicked = none) :
    (none, y) ∈ succ cfg x :=
  lagStep_succ cfg h hex hp

/-- two lag steps of different tasks commute, except read lock after announcement on the same object -/
theorem lag_lag_commute {x y z : State} {g g' : Nat} {κ κ' : LK} (h1 : LagStep x g κ y) (h2 : LagStep y g' κ' z) (hne : g ≠ g')
    (hside : κ.annOK ∨ ¬ κ'.annOK ∨ κ.obj ≠ κ'.obj) : ∃ y', LagStep x g' κ' y' ∧ LagStep y' g κ z :=
  lag_swap h1 h2 hne hside

/-- `Good` holds in every reachable state of the system without clones -/
theorem good_noClone (cfg : Cfg) (hc : cfg.allowClone = false) : ∀ x, Reachable (sys cfg) x → Good x :=
  good_reachable_noClone cfg hc

/-- `Good` holds in every reachable state, for every configuration (clones allowed) -/
theorem good_all (cfg : Cfg) : ∀ x, Reachable (sys cfg) x → Good x :=
  good_reachable cfg

/-- every step of the judge's reduced system (`JStep`: justified form) is a step of `succJ` -/
theorem jstep_succJ {cfg : Cfg} {j z : State} {l : Option Event} (h : JStep cfg j l z) : (l, z) ∈ succJ cfg j := h.mem

/-- STEP-LEVEL SIMULATION `sys`-step ⇒ `succJ`-steps modulo "some lag steps have not been taken yet" -/
theorem red_simulates (cfg : Cfg) (hG : ∀ x, Reachable (sys cfg) x → Good x) {gs : List (Nat × LK)} {j s s' : State} {l : Option Event}
    (hlag : Lag gs j s) (hrj : Reachable (sys cfg) j) (hrs : Reachable (sys cfg) s) (hstep : (l, s') ∈ succ cfg s) :
    ∃ ls j' gs', Exec (sysJ cfg) j ls j' ∧ visible ls = visible [l] ∧ ls.length ≤ 2 ∧ Lag gs' j' s' := by
  obtain ⟨ls, j', gs', h1, h2, h3, h4⟩ := sim_step cfg hG hlag hrj hrs hstep
  exact ⟨ls, j', gs', h1.exec, h2, h3, h4⟩

/-- every visible trace of the model is a visible trace of the reduced system `sysJ` (successor function `succJ`) -/
theorem red_complete (cfg : Cfg) (hG : ∀ x, Reachable (sys cfg) x → Good x) {s : State} {ls : List (Option Event)}
    (hex : Exec (sys cfg) (sys cfg).init ls s) :
    ∃ ls' j gs, Exec (sysJ cfg) (sysJ cfg).init ls' j ∧ visible ls' = visible ls ∧ Lag gs j s := by
  obtain ⟨ls', j, gs, h1, h2, h3⟩ := Lemmas.PubSubRed.red_complete cfg hG hex
  exact ⟨ls', j, gs, h1.exec, h2, h3⟩

theorem red_complete_all (cfg : Cfg) {s : State} {ls : List (Option Event)}
    (hex : Exec (sys cfg) (sys cfg).init ls s) :
    ∃ ls' j gs, Exec (sysJ cfg) (sysJ cfg).init ls' j ∧ visible ls' = visible ls ∧ Lag gs j s :=
  red_complete cfg (good_all cfg) hex

/-- the relational judge does not depend on the menu of the configuration (it offers exactly the event of the line) -/
theorem afterR_env (cfg : Cfg) (E : List Event) (tr : List Event) : afterR { cfg with env := E } tr = afterR cfg tr := rfl

/-- COMPLETENESS OF THE JUDGE WITH FULL CLOSURES: if `tr` is the visible trace of an execution of the model (menu = the invocation events
of `tr`), the judge's state set after `tr` is not empty: it contains the `norm` of a state `j` from which the model's state is reached by
lag steps.  (`hG`: the invariant `Good`; discharged in `judge_complete_all`.) -/
theorem judge_complete (cfg : Cfg) (tr : List Event) (hG : ∀ x, Reachable (sys { cfg with env := tr.filter isInv }) x → Good x)
    (ls : List (Option Event)) (s : State)
    (hex : Exec (sys { cfg with env := tr.filter isInv }) (sys { cfg with env := tr.filter isInv }).init ls s) (hv : visible ls = tr) :
    ∃ j gs, afterR cfg tr (norm j) ∧ Lag gs j s := by
  obtain ⟨j, gs, h1, h2⟩ := afterR_complete { cfg with env := tr.filter isInv } hG hex
  rw [hv, afterR_env] at h1
  exact ⟨j, gs, h1, h2⟩

/-- THE STATEMENT OF THE TASK SHEET, for every configuration: a trace of the model is never rejected by the judge with full closures -/
theorem judge_complete_all (cfg : Cfg) (tr : List Event) (ls : List (Option Event)) (s : State)
    (hex : Exec (sys { cfg with env := tr.filter isInv }) (sys { cfg with env := tr.filter isInv }).init ls s) (hv : visible ls = tr) :
    ∃ t, afterR cfg tr t := by
  obtain ⟨j, _, h, _⟩ := judge_complete cfg tr (good_all _) ls s hex hv
  exact ⟨_, h⟩

/-- the same for any menu that contains the invocations of the trace -/
theorem judge_complete_menu (cfg : Cfg) (hG : ∀ x, Reachable (sys cfg) x → Good x) (ls : List (Option Event)) (s : State)
    (hex : Exec (sys cfg) (sys cfg).init ls s) : ∃ j gs, afterR cfg (visible ls) (norm j) ∧ Lag gs j s :=
  afterR_complete cfg hG hex

/-- the real judge (closure with step budget and state cap) stays inside the relational one … -/
theorem judge_sets_sub (cfg : Cfg) (tr : List Event) : ∀ t ∈ tr.foldl (advance cfg) [{}], afterR cfg tr t :=
  judge_sub_afterR cfg tr

/-- … which is sound: every state of `afterR cfg tr` is the `norm` of a state reached by an execution of the model with visible trace `tr`
(menu `E` ⊇ the invocations of `tr`); hence, with `judge_complete`, for the system without clones:
`(∃ t, afterR cfg tr t) ↔ tr is a visible trace of the model` (`judge_full_iff`) -/
theorem afterR_sound (cfg : Cfg) (E : List Event) : ∀ (tr : List Event), (∀ e ∈ tr, e ∈ E ∨ isInv e = false) → ∀ t, afterR cfg tr t →
    ∃ (ls : List (Option Event)) (t' : State), Exec (sys { cfg with env := E }) (sys { cfg with env := E }).init ls t' ∧
      visible ls = tr ∧ norm t' = t := by
  have key : ∀ (tr : List Event), (∀ e ∈ tr, e ∈ E ∨ isInv e = false) → ∀ (done : List Event) (S : State → Prop),
      (∀ t, S t → ∃ (ls : List (Option Event)) (t' : State), Exec (sys { cfg with env := E }) {} ls t' ∧ visible ls = done ∧ norm t' = t) →
      ∀ t, tr.foldl (advR cfg) S t →
        ∃ (ls : List (Option Event)) (t' : State), Exec (sys { cfg with env := E }) {} ls t' ∧ visible ls = done ++ tr ∧ norm t' = t := by
    intro tr
    induction tr with
    | nil => intro _ done S hS t ht; simpa using hS t ht
    | cons e tr ih =>
      intro hE done S hS t ht
      rw [List.foldl_cons] at ht
      have hEe : ∀ e' ∈ [e], e' ∈ E ∨ isInv e' = false := fun e' he' => hE e' (by rw [List.mem_singleton.1 he']; exact List.mem_cons_self)
      have := ih (fun e' he' => hE e' (List.mem_cons_of_mem _ he')) (done ++ [e]) (advR cfg S e) ?_ t ht
      · simpa using this
      · intro x hx
        induction hx with
        | base hb =>
          obtain ⟨s, hs, u, hu, rfl⟩ := hb
          obtain ⟨ls, s', hex, hv, hn⟩ := hS s hs
          obtain ⟨u', hu', hnu⟩ := succ_norm_eq (a := s) (a' := s') (by rw [← hn]; exact norm_norm s') hu
          have hu'' := succ_env_mono cfg [e] E hEe s' _ hu'
          exact ⟨ls ++ [some e], u', Exec.snoc hex hu'', by rw [visible_append, hv]; rfl, hnu⟩
        | @step t u _ hu ih2 =>
          obtain ⟨ls, t', hex, hv, hn⟩ := ih2
          obtain ⟨(ls2 : List (Option Event)), hex2, hv2⟩ := succJ_exec _ t u none hu
          obtain ⟨(u' : State), hex3, hnu⟩ := exec_norm_eq (a := t) (a' := t') (by rw [← hn]; exact norm_norm t') hex2
          have hex4 := exec_env_mono cfg [e] E hEe hex3
          refine ⟨ls ++ ls2, u', Exec.append hex hex4, ?_, hnu⟩
          have hv2' : visible ls2 = [] := hv2
          rw [visible_append, hv, hv2']; simp
  intro tr hE t ht
  obtain ⟨ls, t', h1, h2, h3⟩ := key tr hE [] (fun t => t = {}) (fun t ht => ⟨[], {}, Exec.nil _, rfl, by rw [ht]; rfl⟩) t ht
  exact ⟨ls, t', h1, by simpa using h2, h3⟩

/-- the judge with full closures accepts exactly the visible traces of the model -/
theorem judge_full_iff (cfg : Cfg) (tr : List Event) :
    (∃ t, afterR cfg tr t) ↔
      ∃ (ls : List (Option Event)) (s : State),
        Exec (sys { cfg with env := tr.filter isInv }) (sys { cfg with env := tr.filter isInv }).init ls s ∧ visible ls = tr := by
  constructor
  · rintro ⟨t, ht⟩
    obtain ⟨ls, t', hex, hv, _⟩ := afterR_sound cfg (tr.filter isInv) tr (mem_filter_isInv_or tr) t ht
    exact ⟨ls, t', hex, hv⟩
  · rintro ⟨ls, s, hex, hv⟩
    exact judge_complete_all cfg tr ls s hex hv

/-! ### budget and cap -/

/-- if `closure` ends because its frontier is empty (`closureDone`), its result contains the set it started with and is closed under
internal `succJ` steps (`CInv`: the loop invariant — the frontier is part of the set, states outside the frontier have their successors in it) -/
theorem closure_saturated (cfg : Cfg) (n : Nat) (seen : Std.HashSet State) (fr : List State) (hi : CInv cfg seen fr)
    (hd : closureDone cfg n seen fr = true) :
    (∀ t, t ∈ seen → t ∈ closure cfg n seen fr) ∧
      (∀ t, t ∈ closure cfg n seen fr → ∀ u, (none, u) ∈ succJ cfg t → norm u ∈ closure cfg n seen fr) :=
  Lemmas.PubSubRed.closure_saturated cfg n seen fr hi hd

/-- the real judge sets are exactly the relational ones when no closure along the trace was cut short by the step budget or the state cap -/
theorem judge_sets_eq (cfg : Cfg) (tr : List Event) (hd : judgeDone cfg [{}] tr = true) (t : State) :
    t ∈ tr.foldl (advance cfg) [{}] ↔ afterR cfg tr t :=
  ⟨judge_sub_afterR cfg tr t, judge_real_complete cfg tr hd t⟩

/-- COMPLETENESS OF THE REAL JUDGE: a trace of the model is rejected (state set empty) only if some closure was cut short -/
theorem judge_complete_real (cfg : Cfg) (tr : List Event) (ls : List (Option Event)) (s : State)
    (hex : Exec (sys { cfg with env := tr.filter isInv }) (sys { cfg with env := tr.filter isInv }).init ls s) (hv : visible ls = tr)
    (hd : judgeDone cfg [{}] tr = true) : tr.foldl (advance cfg) [{}] ≠ [] := by
  obtain ⟨t, ht⟩ := judge_complete_all cfg tr ls s hex hv
  have := judge_real_complete cfg tr hd t ht
  intro h
  rw [h] at this
  cases this

/-- … so that, with `C10.judge_accept_sound`, acceptance by the real judge = being a visible trace of the model, whenever no closure was cut short -/
theorem judge_real_iff (cfg : Cfg) (tr : List Event) (hd : judgeDone cfg [{}] tr = true) :
    tr.foldl (advance cfg) [{}] ≠ [] ↔
      ∃ (ls : List (Option Event)) (s : State),
        Exec (sys { cfg with env := tr.filter isInv }) (sys { cfg with env := tr.filter isInv }).init ls s ∧ visible ls = tr :=
  ⟨judge_accept_sound cfg tr, fun ⟨ls, s, hex, hv⟩ => judge_complete_real cfg tr ls s hex hv hd⟩

/- non-vacuity (`#eval`, `decide` cannot evaluate `Std.HashSet`):
   trX = [sub 1 0, subret 1, pubinv 1 0 pub [5], pubret 1, unsubinv 1 0 1, allow 1 2, recv 1 5, unsubret 1 nil, closed 1], cfg = {}:
     judgeDone {} [{}] trX = true; sizes of the judge's sets after each prefix: [1, 3, 1, 2, 1, 4, 7, 3, 1, 1]
   trY = [sub 1 0, subret 1, pubinv 1 0 pub [5], unsubinv 1 0 1, pubret 1, tmo 5, unsubret 1 nil, allow 1 1, closed 1], cfg = { timeout := 1 }:
     judgeDone _ [{}] trY = true; sizes [1, 3, 1, 3, 16, 13, 6, 1, 1, 1]
   (in trY the goroutine's timer fires while the writer `Unsub` has announced and waits for the read lock) -/

end C10

#print axioms C10.lag_commutes
#print axioms C10.succ_sources
#print axioms C10.lag_is_step
#print axioms C10.lag_lag_commute
#print axioms C10.good_noClone
#print axioms C10.jstep_succJ
#print axioms C10.red_simulates
#print axioms C10.red_complete
#print axioms C10.red_complete_all
#print axioms C10.good_all
#print axioms C10.afterR_env
#print axioms C10.judge_complete
#print axioms C10.judge_complete_all
#print axioms C10.judge_complete_menu
#print axioms C10.judge_sets_sub
#print axioms C10.afterR_sound
#print axioms C10.judge_full_iff
#print axioms C10.closure_saturated
#print axioms C10.judge_sets_eq
#print axioms C10.judge_complete_real
#print axioms C10.judge_real_iff
