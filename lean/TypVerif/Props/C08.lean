/-
C08 — Array2D is a grid of independent cells for every width and height.

Part 1: theorems about the kernels regenerated from the Go source (`TypVerif/Gen/Array2D.lean`): they are equal to
the kernels used by the hand-written model (`gen_*_eq`, for all arguments), the index map is injective on the
coordinates accepted by the guards and lands inside the backing slice, and the Row / RowSpan / Fill slice expressions
select exactly the cells of that row.  The proofs only unfold the generated definitions and call `omega` with facts
about the products `y*w`, so a harmless reshaping of the Go expression (`y*a.width + x`) re-proves, while a wrong
stride (`y*a.height`) does not.

Part 2: theorems about the model (`TypVerif/Model/Array2D.lean`), for every width and height ≥ 0.
-/
import TypVerif.Gen.Array2D
import TypVerif.Model.Array2D
import TypVerif.Spec.Grid
import TypVerif.Lemmas.Array2DArith
import TypVerif.Lemmas.Array2D
import TypVerif.Lemmas.Array2DRefine
open TypVerif
open TypVerif.Model.Array2D
open TypVerif.Lemmas
open TypVerif.Lemmas.Array2D (WF InB cellAt absGrid ex32)

namespace C08

/-! ## Part 1 — the regenerated kernels -/

theorem gen_newLen_eq (w h : Int) : Gen.A2D.newLen w h = newLen w h := by
  unfold Gen.A2D.newLen newLen
  have := Int.mul_comm w h
  idx_omega

theorem gen_getIdx_eq (w h x y : Int) : Gen.A2D.getIdx w h x y = idx w x y := by
  unfold Gen.A2D.getIdx idx
  have := Int.mul_comm y w
  idx_omega

theorem gen_setIdx_eq (w h x y : Int) : Gen.A2D.setIdx w h x y = idx w x y := by
  unfold Gen.A2D.setIdx idx
  have := Int.mul_comm y w
  idx_omega

/-- Get and Set address the same cell -/
theorem gen_setIdx_getIdx (w h x y : Int) : Gen.A2D.setIdx w h x y = Gen.A2D.getIdx w h x y := by
  rw [gen_setIdx_eq, gen_getIdx_eq]

theorem gen_guards_eq (w h x y : Int) :
    Gen.A2D.getGuard w h x y = getGuard w h x y ∧ Gen.A2D.setGuard w h x y = getGuard w h x y := by
  constructor <;> rw [Bool.eq_iff_iff] <;>
    simp [Gen.A2D.getGuard, Gen.A2D.setGuard, getGuard, oob] <;> omega

theorem gen_rowGuard_eq (w h y : Int) : Gen.A2D.rowGuard w h y = rowGuard h y := by
  rw [Bool.eq_iff_iff]; simp [Gen.A2D.rowGuard, rowGuard, oob] <;> omega

theorem gen_rowSpanGuard_eq (w h x1 x2 y : Int) : Gen.A2D.rowSpanGuard w h x1 x2 y = rowSpanGuard w h x1 x2 y := by
  rw [Bool.eq_iff_iff]; simp [Gen.A2D.rowSpanGuard, rowSpanGuard, oob] <;> omega

theorem gen_fillGuard_eq (w h x1 y1 x2 y2 : Int) : Gen.A2D.fillGuard w h x1 y1 x2 y2 = fillGuard w h x1 y1 x2 y2 := by
  rw [Bool.eq_iff_iff]; simp [Gen.A2D.fillGuard, fillGuard, oob] <;> omega

theorem gen_row_eq (w h y : Int) : Gen.A2D.rowLo w h y = rowLo w y ∧ Gen.A2D.rowHi w h y = rowHi w y := by
  unfold Gen.A2D.rowLo Gen.A2D.rowHi rowLo rowHi
  have := Int.mul_comm y w
  idx_omega

theorem gen_rowSpan_eq (w h x1 x2 y : Int) :
    Gen.A2D.rowSpanLo w h x1 x2 y = spanLo w x1 y ∧ Gen.A2D.rowSpanHi w h x1 x2 y = spanHi w x2 y := by
  unfold Gen.A2D.rowSpanLo Gen.A2D.rowSpanHi spanLo spanHi
  have := Int.mul_comm y w
  idx_omega

/-- the kernels of Fill: corner sorting, first row, loop bounds and the row copied to -/
theorem gen_fill_eq (w h x1 y1 x2 y2 y : Int) :
    Gen.A2D.fillSwapX x1 x2 = decide (x2 < x1) ∧ Gen.A2D.fillSwapY y1 y2 = decide (y2 < y1) ∧
    Gen.A2D.fillFirstLo w h x1 y1 x2 y2 = spanLo w x1 y1 ∧ Gen.A2D.fillFirstHi w h x1 y1 x2 y2 = spanHi w x2 y1 ∧
    Gen.A2D.fillLoopStart w h x1 y1 x2 y2 = y1 + 1 ∧ Gen.A2D.fillLoopCond w h x1 y1 x2 y2 y = decide (y ≤ y2) ∧
    Gen.A2D.fillRowLo w h x1 y1 x2 y2 y = spanLo w x1 y ∧ Gen.A2D.fillRowHi w h x1 y1 x2 y2 y = spanHi w x2 y := by
  have := Int.mul_comm y w
  have := Int.mul_comm y1 w
  refine ⟨?_, ?_, ?_, ?_, ?_, ?_, ?_, ?_⟩
  · rw [Bool.eq_iff_iff]; simp [Gen.A2D.fillSwapX]
  · rw [Bool.eq_iff_iff]; simp [Gen.A2D.fillSwapY]
  · unfold Gen.A2D.fillFirstLo spanLo; idx_omega
  · unfold Gen.A2D.fillFirstHi spanHi; idx_omega
  · unfold Gen.A2D.fillLoopStart; idx_omega
  · rw [Bool.eq_iff_iff]; simp [Gen.A2D.fillLoopCond]
  · unfold Gen.A2D.fillRowLo spanLo; idx_omega
  · unfold Gen.A2D.fillRowHi spanHi; idx_omega

theorem gen_jaggedBreak_eq (w h y : Int) : Gen.A2D.jaggedBreak w h y = decide (y ≥ h) := by
  rw [Bool.eq_iff_iff]; simp [Gen.A2D.jaggedBreak]

/-- what the generated guard accepts -/
theorem gen_getGuard_iff {w h x y : Int} :
    Gen.A2D.getGuard w h x y = true ↔ (0 ≤ x ∧ x < w ∧ 0 ≤ y ∧ y < h) := by
  simp [Gen.A2D.getGuard]
  idx_omega

example : Gen.A2D.getGuard 3 2 2 1 = true := by decide
example : Gen.A2D.getGuard 3 2 2 2 = false := by decide

/-- an accepted coordinate addresses a cell of the backing slice (`make([]T, w*h)`) -/
theorem idx_lt {w h x y : Int} (g : Gen.A2D.getGuard w h x y) :
    0 ≤ Gen.A2D.getIdx w h x y ∧ Gen.A2D.getIdx w h x y < Gen.A2D.newLen w h := by
  have ⟨a, b, c, d⟩ := gen_getGuard_iff.mp g
  have := Array2DArith.idx_lt a b c d
  have := Int.mul_comm y w
  have := Int.mul_comm w h
  unfold Gen.A2D.getIdx Gen.A2D.newLen
  idx_omega

example : Gen.A2D.getIdx 3 2 2 1 = 5 ∧ Gen.A2D.newLen 3 2 = 6 := by decide

/-- two accepted coordinates with the same index are the same coordinate: cells are independent -/
theorem idx_inj {w h x y x' y' : Int} (g : Gen.A2D.getGuard w h x y) (g' : Gen.A2D.getGuard w h x' y')
    (e : Gen.A2D.getIdx w h x y = Gen.A2D.getIdx w h x' y') : x = x' ∧ y = y' := by
  have ⟨a, b, _, _⟩ := gen_getGuard_iff.mp g
  have ⟨a', b', _, _⟩ := gen_getGuard_iff.mp g'
  unfold Gen.A2D.getIdx at e
  have := Int.mul_comm y w
  have := Int.mul_comm y' w
  exact Array2DArith.idx_inj a b a' b' (by idx_omega)

example : Gen.A2D.getGuard 3 2 0 1 = true ∧ Gen.A2D.getGuard 3 2 2 0 = true ∧
    Gen.A2D.getIdx 3 2 0 1 ≠ Gen.A2D.getIdx 3 2 2 0 := by decide

/-- Row(y) is the slice `[lo, hi)` of exactly `w` cells, inside the backing slice, and its `x`-th cell is cell (x,y) -/
theorem row_range {w h y : Int} (hw : 0 ≤ w) (g : Gen.A2D.rowGuard w h y) :
    0 ≤ Gen.A2D.rowLo w h y ∧ Gen.A2D.rowLo w h y ≤ Gen.A2D.rowHi w h y ∧
    Gen.A2D.rowHi w h y ≤ Gen.A2D.newLen w h ∧ Gen.A2D.rowHi w h y - Gen.A2D.rowLo w h y = w ∧
    ∀ x, Gen.A2D.getIdx w h x y = Gen.A2D.rowLo w h y + x := by
  have ⟨c, d⟩ : 0 ≤ y ∧ y < h := by
    simp [Gen.A2D.rowGuard] at g; idx_omega
  have := Array2DArith.mul_nonneg' hw c
  have := Array2DArith.row_end_le hw d
  have := Int.mul_comm y w
  have := Int.mul_comm w h
  unfold Gen.A2D.rowLo Gen.A2D.rowHi Gen.A2D.newLen Gen.A2D.getIdx
  refine ⟨by idx_omega, by idx_omega, by idx_omega, by idx_omega, fun x => by idx_omega⟩

example : Gen.A2D.rowGuard 3 2 1 = true := by decide

/-- RowSpan(x1,x2,y) with x1 ≤ x2 is the slice of exactly the cells (x1..x2, y) -/
theorem span_range {w h x1 x2 y : Int} (g : Gen.A2D.rowSpanGuard w h x1 x2 y) (h12 : x1 ≤ x2) :
    0 ≤ Gen.A2D.rowSpanLo w h x1 x2 y ∧ Gen.A2D.rowSpanLo w h x1 x2 y ≤ Gen.A2D.rowSpanHi w h x1 x2 y ∧
    Gen.A2D.rowSpanHi w h x1 x2 y ≤ Gen.A2D.newLen w h ∧
    Gen.A2D.rowSpanHi w h x1 x2 y - Gen.A2D.rowSpanLo w h x1 x2 y = x2 - x1 + 1 ∧
    ∀ i, Gen.A2D.getIdx w h (x1 + i) y = Gen.A2D.rowSpanLo w h x1 x2 y + i := by
  have ⟨a, b, c, d, e, f⟩ : 0 ≤ x1 ∧ x1 < w ∧ 0 ≤ y ∧ y < h ∧ 0 ≤ x2 ∧ x2 < w := by
    simp [Gen.A2D.rowSpanGuard] at g; idx_omega
  have hw : 0 ≤ w := by idx_omega
  have := Array2DArith.mul_nonneg' hw c
  have := Array2DArith.row_end_le hw d
  have := Int.mul_comm y w
  have := Int.mul_comm w h
  unfold Gen.A2D.rowSpanLo Gen.A2D.rowSpanHi Gen.A2D.newLen Gen.A2D.getIdx
  refine ⟨by idx_omega, by idx_omega, by idx_omega, by idx_omega, fun i => by idx_omega⟩

example : Gen.A2D.rowSpanGuard 3 2 1 2 1 = true := by decide

/-- the rows written by Fill (first row and every copied row) are the RowSpan slices of the sorted corners -/
theorem fill_range {w h x1 y1 x2 y2 y : Int} (g : Gen.A2D.fillGuard w h x1 y1 x2 y2)
    (hx : ¬ Gen.A2D.fillSwapX x1 x2) (hy1 : y1 ≤ y) (hy2 : y ≤ y2) :
    0 ≤ Gen.A2D.fillRowLo w h x1 y1 x2 y2 y ∧
    Gen.A2D.fillRowHi w h x1 y1 x2 y2 y ≤ Gen.A2D.newLen w h ∧
    Gen.A2D.fillRowHi w h x1 y1 x2 y2 y - Gen.A2D.fillRowLo w h x1 y1 x2 y2 y = x2 - x1 + 1 ∧
    Gen.A2D.fillFirstHi w h x1 y1 x2 y2 - Gen.A2D.fillFirstLo w h x1 y1 x2 y2 = x2 - x1 + 1 ∧
    Gen.A2D.fillFirstLo w h x1 y1 x2 y2 = Gen.A2D.fillRowLo w h x1 y1 x2 y2 y1 ∧
    ∀ i, Gen.A2D.getIdx w h (x1 + i) y = Gen.A2D.fillRowLo w h x1 y1 x2 y2 y + i := by
  have ⟨a, b, c, d, e, f, g1, g2⟩ : 0 ≤ x1 ∧ x1 < w ∧ 0 ≤ y1 ∧ y1 < h ∧ 0 ≤ x2 ∧ x2 < w ∧ 0 ≤ y2 ∧ y2 < h := by
    simp [Gen.A2D.fillGuard] at g; idx_omega
  have h12 : x1 ≤ x2 := by simp [Gen.A2D.fillSwapX] at hx; idx_omega
  have hw : 0 ≤ w := by idx_omega
  have := Array2DArith.mul_nonneg' hw (show 0 ≤ y by idx_omega)
  have := Array2DArith.row_end_le hw (show y < h by idx_omega)
  have := Int.mul_comm y w
  have := Int.mul_comm y1 w
  have := Int.mul_comm w h
  unfold Gen.A2D.fillRowLo Gen.A2D.fillRowHi Gen.A2D.fillFirstLo Gen.A2D.fillFirstHi Gen.A2D.newLen Gen.A2D.getIdx
  refine ⟨by idx_omega, by idx_omega, by idx_omega, by idx_omega, by idx_omega, fun i => by idx_omega⟩

example : Gen.A2D.fillGuard 3 2 0 0 2 1 = true ∧ Gen.A2D.fillSwapX 0 2 = false := by decide

/-! ## Part 2 — the model, for every width and height ≥ 0

`WF a` : `0 ≤ a.w`, `0 ≤ a.h` and the backing slice has `a.w * a.h` cells (what New2D / New2DFilled / New2DFromJagged /
Clone build and every method preserves).  `InB a x y` : `0 ≤ x < a.w ∧ 0 ≤ y < a.h`.  `cellAt a x y` : the backing
cell addressed by (x,y).  A panic is an `Except.error`; since the model is functional, a panicking call returns no
new array: the array the caller holds is unchanged. -/

-- `Array2D.ex32` is the 3×2 array (w ≠ h) `[[1,2,3],[4,5,6]]` used for the non-vacuity examples
example : WF Array2D.ex32 := Array2D.ex32_wf

/-- Get after Set: the stored value at that cell, the old value everywhere else -/
theorem set_get {a a' : A2D} (wf : WF a) {x y v : Int} (h : Model.Array2D.set a x y v = .ok a') (x' y' : Int) :
    Model.Array2D.get a' x' y' = if x' = x ∧ y' = y then .ok v else Model.Array2D.get a x' y' :=
  Array2D.set_get wf h x' y'

example : Model.Array2D.set ex32 2 0 7 = .ok ⟨3, 2, [1, 2, 7, 4, 5, 6]⟩ := rfl

/-- Set changes cell (x,y) and no other — through Get and in the backing slice; the shape stays -/
theorem set_frame {a a' : A2D} (wf : WF a) {x y v : Int} (h : Model.Array2D.set a x y v = .ok a') :
    a'.w = a.w ∧ a'.h = a.h ∧ WF a' ∧
    (∀ x' y', ¬ (x' = x ∧ y' = y) → Model.Array2D.get a' x' y' = Model.Array2D.get a x' y') ∧
    (∀ j, j ≠ (idx a.w x y).toNat → a'.cells[j]? = a.cells[j]?) :=
  Array2D.set_frame wf h

example : WF ex32 ∧ Model.Array2D.set ex32 0 1 7 = .ok ⟨3, 2, [1, 2, 3, 7, 5, 6]⟩ := ⟨Array2D.ex32_wf, rfl⟩

/-- any coordinate outside the bounds panics (typ's own panic) in Get and Set, without a new array;
inside the bounds both succeed -/
theorem oob_panics_unchanged {a : A2D} (wf : WF a) (x y : Int) :
    (¬ InB a x y → Model.Array2D.get a x y = .error pCustom ∧ ∀ v, Model.Array2D.set a x y v = .error pCustom) ∧
    (InB a x y → (∃ r, Model.Array2D.get a x y = .ok r) ∧ ∀ v, ∃ a', Model.Array2D.set a x y v = .ok a') :=
  Array2D.oob_panics wf x y

example : ¬ InB ex32 2 2 ∧ InB ex32 2 1 := by unfold InB ex32; decide
example : Model.Array2D.get ex32 0 2 = .error pCustom ∧ Model.Array2D.get ex32 2 1 = .ok 6 := ⟨rfl, rfl⟩

/-- Row(y) is a live window onto exactly the cells (0..w-1, y): reading it reads those cells, writing position i is
Set(i, y); a write outside the window is a Go index panic; a row outside the bounds is typ's panic -/
theorem row_live {a : A2D} (wf : WF a) (y : Int) :
    (¬ (0 ≤ y ∧ y < a.h) → rowRead a y = .error pCustom ∧ ∀ i v, rowset a y i v = .error pCustom) ∧
    ((0 ≤ y ∧ y < a.h) →
      (∃ l, rowRead a y = .ok l ∧ l.length = a.w.toNat ∧ ∀ x, 0 ≤ x → x < a.w → l[x.toNat]? = cellAt a x y) ∧
      (∀ i v, 0 ≤ i → i < a.w → rowset a y i v = Model.Array2D.set a i y v) ∧
      (∀ i v, ¬ (0 ≤ i ∧ i < a.w) → rowset a y i v = .error pBounds)) :=
  Array2D.row_live wf y

example : rowRead ex32 1 = .ok [4, 5, 6] ∧ rowset ex32 1 2 9 = .ok ⟨3, 2, [1, 2, 3, 4, 5, 9]⟩ := ⟨rfl, rfl⟩

/-- RowSpan(x1,x2,y) with x1 ≤ x2 is a live window onto exactly the cells (x1..x2, y); x1 = x2+1 is the empty
window and x1 > x2+1 a Go slice-bounds panic -/
theorem rowSpan_live {a : A2D} (wf : WF a) (x1 x2 y : Int) :
    (rowSpanGuard a.w a.h x1 x2 y = false →
      spanRead a x1 x2 y = .error pCustom ∧ ∀ i v, spanset a x1 x2 y i v = .error pCustom) ∧
    (rowSpanGuard a.w a.h x1 x2 y = true → x1 ≤ x2 →
      (∃ l, spanRead a x1 x2 y = .ok l ∧ l.length = (x2 - x1 + 1).toNat ∧
        ∀ i, 0 ≤ i → i ≤ x2 - x1 → l[i.toNat]? = cellAt a (x1 + i) y) ∧
      (∀ i v, 0 ≤ i → i ≤ x2 - x1 → spanset a x1 x2 y i v = Model.Array2D.set a (x1 + i) y v) ∧
      (∀ i v, ¬ (0 ≤ i ∧ i ≤ x2 - x1) → spanset a x1 x2 y i v = .error pBounds)) ∧
    (rowSpanGuard a.w a.h x1 x2 y = true → x1 = x2 + 1 → spanRead a x1 x2 y = .ok []) ∧
    (rowSpanGuard a.w a.h x1 x2 y = true → x1 > x2 + 1 → spanRead a x1 x2 y = .error pBounds) :=
  Array2D.rowSpan_live wf x1 x2 y

example : rowSpanGuard 3 2 1 2 1 = true ∧ spanRead ex32 1 2 1 = .ok [5, 6] ∧
    spanset ex32 1 2 1 1 9 = .ok ⟨3, 2, [1, 2, 3, 4, 5, 9]⟩ ∧ spanRead ex32 2 0 1 = .error pBounds := ⟨rfl, rfl, rfl, rfl⟩

/-- the loop invariant of slices.Fill (exponential copy): exactly the window is assigned -/
theorem sliceFill_spec (c : List Int) (lo len : Nat) (v : Int) (h : lo + len ≤ c.length) :
    (sliceFill c lo len v).length = c.length ∧
    ∀ j, (sliceFill c lo len v)[j]? = if lo ≤ j ∧ j < lo + len then some v else c[j]? :=
  Array2D.sliceFill_spec c lo len v h

example : sliceFill [1, 2, 3, 4, 5, 6, 7, 8] 1 6 0 = [1, 0, 0, 0, 0, 0, 0, 8] := by decide

/-- Fill assigns exactly the inclusive rectangle, whichever corners are given, and nothing else;
it panics (typ's panic) exactly when a corner is outside the bounds -/
theorem fill_exact {a : A2D} (wf : WF a) (x1 y1 x2 y2 v : Int) :
    (fillGuard a.w a.h x1 y1 x2 y2 = false → fill a x1 y1 x2 y2 v = .error pCustom) ∧
    (fillGuard a.w a.h x1 y1 x2 y2 = true →
      ∃ a', fill a x1 y1 x2 y2 v = .ok a' ∧ a'.w = a.w ∧ a'.h = a.h ∧ WF a' ∧
        ∀ x y, Model.Array2D.get a' x y =
          if min x1 x2 ≤ x ∧ x ≤ max x1 x2 ∧ min y1 y2 ≤ y ∧ y ≤ max y1 y2 then .ok v
          else Model.Array2D.get a x y) :=
  Array2D.fill_exact wf x1 y1 x2 y2 v

example : fill ex32 2 1 1 0 0 = .ok ⟨3, 2, [1, 0, 0, 4, 0, 0]⟩ ∧ fill ex32 1 0 2 1 0 = .ok ⟨3, 2, [1, 0, 0, 4, 0, 0]⟩ :=
  ⟨rfl, rfl⟩

/-- New2D: zeros -/
theorem new2D {w h : Int} (hw : 0 ≤ w) (hh : 0 ≤ h) :
    ∃ a, Model.Array2D.new2D w h = .ok a ∧ WF a ∧ a.w = w ∧ a.h = h ∧
      ∀ x y, Model.Array2D.get a x y = if 0 ≤ x ∧ x < w ∧ 0 ≤ y ∧ y < h then .ok 0 else .error pCustom := by
  obtain ⟨n1, wf0⟩ := Array2D.new2D_spec hw hh
  exact ⟨_, n1, wf0, rfl, rfl, Array2D.get_replicate hw hh⟩

example : (0 : Int) ≤ 3 ∧ (0 : Int) ≤ 2 ∧ Model.Array2D.new2D 3 0 = .ok ⟨3, 0, []⟩ := ⟨by decide, by decide, rfl⟩

/-- New2DFilled: every cell holds the value -/
theorem new2DFilled {w h : Int} (v : Int) (hw : 0 ≤ w) (hh : 0 ≤ h) :
    ∃ a, Model.Array2D.new2DFilled w h v = .ok a ∧ WF a ∧ a.w = w ∧ a.h = h ∧
      ∀ x y, Model.Array2D.get a x y = if 0 ≤ x ∧ x < w ∧ 0 ≤ y ∧ y < h then .ok v else .error pCustom := by
  obtain ⟨n1, wf0⟩ := Array2D.new2DFilled_spec v hw hh
  exact ⟨_, n1, wf0, rfl, rfl, Array2D.get_replicate hw hh⟩

example : Model.Array2D.new2DFilled 3 2 7 = .ok ⟨3, 2, [7, 7, 7, 7, 7, 7]⟩ := rfl

/-- New2DFromJagged: cell (x,y) = jagged[y][x] when both exist and are in bounds, zero otherwise;
rows beyond the height and values beyond the width are ignored -/
theorem fromJagged {w h : Int} (hw : 0 ≤ w) (hh : 0 ≤ h) (jagged : List (List Int)) :
    ∃ a', Model.Array2D.fromJagged w h jagged = .ok a' ∧ a'.w = w ∧ a'.h = h ∧ WF a' ∧
      ∀ x y, Model.Array2D.get a' x y =
        if 0 ≤ x ∧ x < w ∧ 0 ≤ y ∧ y < h then
          .ok (((jagged[y.toNat]?).bind (fun r => r[x.toNat]?)).getD 0)
        else .error pCustom :=
  Array2D.fromJagged_spec hw hh jagged

example : Model.Array2D.fromJagged 3 2 [[1, 2, 3, 4], [5], [6, 7, 8]] = .ok ⟨3, 2, [1, 2, 3, 5, 0, 0]⟩ := rfl

/-- Clone has the same cells; in the functional model the clone is a separate value, so later operations on
either array cannot reach the other (the aliasing claim itself is decided by the correspondence run) -/
theorem clone_eq (a : A2D) : clone a = a := Array2D.clone_eq a

/-- String's traversal reads every cell once, row by row (an array of height 0 renders `[]`) -/
theorem cellsRows {a : A2D} (wf : WF a) : Model.Array2D.cellsRows a = .ok (absGrid a).rows :=
  Array2D.refines_cells wf

example : Model.Array2D.cellsRows ex32 = .ok [[1, 2, 3], [4, 5, 6]] := rfl

/-- every operation of the model is the corresponding pointwise operation of the specification grid
(`Spec.Grid`, rows of cells, no index arithmetic), seen through the abstraction `absGrid` -/
theorem refines_grid {a : A2D} (wf : WF a) :
    (∀ x y, Model.Array2D.get a x y = match Spec.Grid.get (absGrid a) x y with
      | some v => .ok v | none => .error pCustom) ∧
    (∀ x y v, (∀ a', Model.Array2D.set a x y v = .ok a' → Spec.Grid.set (absGrid a) x y v = some (absGrid a')) ∧
      (Model.Array2D.set a x y v = .error pCustom ↔ Spec.Grid.set (absGrid a) x y v = none)) ∧
    (∀ x1 y1 x2 y2 v,
      (∀ a', fill a x1 y1 x2 y2 v = .ok a' → Spec.Grid.fill (absGrid a) x1 y1 x2 y2 v = some (absGrid a')) ∧
      (fill a x1 y1 x2 y2 v = .error pCustom ↔ Spec.Grid.fill (absGrid a) x1 y1 x2 y2 v = none)) ∧
    (∀ y, rowRead a y = match Spec.Grid.row (absGrid a) y with
      | some l => .ok l | none => .error pCustom) ∧
    (∀ x1 x2 y, x1 ≤ x2 → spanRead a x1 x2 y = match Spec.Grid.span (absGrid a) x1 x2 y with
      | some l => .ok l | none => .error pCustom) ∧
    absGrid (clone a) = Spec.Grid.clone (absGrid a) :=
  ⟨Array2D.refines_get wf, Array2D.refines_set wf, Array2D.refines_fill wf, Array2D.refines_row wf,
    Array2D.refines_span wf, Array2D.refines_clone a⟩

example : absGrid ex32 = ⟨3, 2, [[1, 2, 3], [4, 5, 6]]⟩ := by decide

/-- the constructors refine the specification's constructors -/
theorem refines_constructors {w h : Int} (hw : 0 ≤ w) (hh : 0 ≤ h) :
    (∃ a, Model.Array2D.new2D w h = .ok a ∧ WF a ∧ absGrid a = Spec.Grid.new w h) ∧
    (∀ v, ∃ a, Model.Array2D.new2DFilled w h v = .ok a ∧ WF a ∧ absGrid a = Spec.Grid.filled w h v) ∧
    (∀ jagged, ∃ a, Model.Array2D.fromJagged w h jagged = .ok a ∧ WF a ∧ absGrid a = Spec.Grid.fromJagged w h jagged) :=
  ⟨Array2D.refines_new hw hh, fun v => Array2D.refines_filled v hw hh, fun j => Array2D.refines_fromJagged hw hh j⟩

example : Spec.Grid.fromJagged 3 2 [[1, 2, 3, 4], [5], [6, 7, 8]] = ⟨3, 2, [[1, 2, 3], [5, 0, 0]]⟩ := by decide

end C08

/-! axioms audit -/
#print axioms C08.gen_newLen_eq
#print axioms C08.gen_getIdx_eq
#print axioms C08.gen_setIdx_eq
#print axioms C08.gen_setIdx_getIdx
#print axioms C08.gen_guards_eq
#print axioms C08.gen_rowGuard_eq
#print axioms C08.gen_rowSpanGuard_eq
#print axioms C08.gen_fillGuard_eq
#print axioms C08.gen_row_eq
#print axioms C08.gen_rowSpan_eq
#print axioms C08.gen_fill_eq
#print axioms C08.gen_jaggedBreak_eq
#print axioms C08.gen_getGuard_iff
#print axioms C08.idx_lt
#print axioms C08.idx_inj
#print axioms C08.row_range
#print axioms C08.span_range
#print axioms C08.fill_range
#print axioms C08.set_get
#print axioms C08.set_frame
#print axioms C08.oob_panics_unchanged
#print axioms C08.row_live
#print axioms C08.rowSpan_live
#print axioms C08.sliceFill_spec
#print axioms C08.fill_exact
#print axioms C08.new2D
#print axioms C08.new2DFilled
#print axioms C08.fromJagged
#print axioms C08.clone_eq
#print axioms C08.cellsRows
#print axioms C08.refines_grid
#print axioms C08.refines_constructors
