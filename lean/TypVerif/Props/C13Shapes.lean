import TypVerif.Gen.SlicesShapes
/-
C13, tie 4B — GOLDEN FUNCTION SHAPES (written by tools/mkshapes.py; do not edit by hand).  For every function of the source files this property's model mirrors,
the extractor regenerates on every run: its calls, its stores through selectors / indices / pointers, its conditions and loop headers, its select cases and
its return expressions, in source order.  The theorems below state that these equal the shapes of the tree the model was written against.  They are the STATIC,
all-paths complement of the differential runs: a guard dropped, a fast path or a threshold added, an early return, a changed comparison or a different callee
on ANY path - also one that no generated input happens to take - changes the regenerated list and breaks the `rfl`.  A broken shape theorem is reported like a
broken proof (with a failing input when the search finds one, else `no-failing-input-found`); after a deliberate change of the source the changed functions are
re-read against the model and this file is regenerated.
-/
namespace C13

/-- slices/slices.go, Chunk / Windowed / Pairs: 6 function(s) -/
theorem gen_shapes_partition :
    Gen.SlicesShapes.funcs.filter (fun f => (["Pairs", "PairsFunc", "Windowed", "WindowedFunc", "Chunk", "ChunkFunc"]).contains f.1) =
      [("Pairs", ["if len(slice) < 2", "call len", "return nil", "call len", "call make", "for i < lim", "store pairs[i]", "return pairs"]),
       ("PairsFunc", ["if len(slice) < 2", "call len", "return ", "call len", "for i < lim", "call callback"]),
       ("Windowed", ["if len(slice) < size", "call len", "return nil", "call len", "call make", "for i < lim", "store windows[i]", "return windows"]),
       ("WindowedFunc", ["if len(slice) < size", "call len", "return ", "call len", "for i < lim", "call callback"]),
       ("Chunk", ["if len(slice) == 0", "call len", "return nil", "call len", "if rounded != len(slice)", "call len", "call make", "for j < rounded", "store chunks[i]", "if div != lim", "store chunks[lim - 1]", "return chunks"]),
       ("ChunkFunc", ["if len(slice) == 0", "call len", "return ", "call len", "for j < rounded", "call callback", "if rounded != len(slice)", "call len", "call callback"])] := rfl

end C13
