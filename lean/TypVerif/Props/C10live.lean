import TypVerif.Props.C10
import TypVerif.Lemmas.PubSubLiveNames
/-
C10 — PubSub, the safety half of "eventually": the object cannot wedge while its subscribers keep receiving.
Model `sys cfg` of `TypVerif/Model/PubSub.lean`, all schedules (`Conc.Reachable`), any menu `cfg.env`, any timeout
setting, any buffer sizes; `_partial` = under `CloneDiscipline` (no `WithOnly`), like `C10.no_panic_partial`.

WHAT IS CLAIMED: in every reachable state in which some goroutine of the PubSub has not finished, some step of a
PubSub goroutine or of a receiver is ENABLED (deadlock freedom), and for every single goroutine that cannot step the
precise thing it waits for (`blocked_reason_partial`).
WHAT IS NOT CLAIMED: that the enabled step is ever taken, that a particular call returns, or that a value published
with Pub / PubSlice is ever delivered — those are liveness properties (fair scheduling), not expressible in this
framework.

DEFINITION PROBLEM FOUND AND REPAIRED IN THE MODEL.  Channel names are chosen by the harness.  `envStep (.sub c _)` used
to refuse a name only if a channel `c` EXISTED at invocation time, so two `sub c` invocations could both be pending;
the first created `c`, and `stepSubWait` of the second was then disabled for ever (`hasChan s.chans c`) while it stayed
counted in `rw.waiting` — every later reader was kept out too, and `no_deadlock` needed the extra hypothesis
`FreshSubNames s`.  The Go code has no such state (`Sub` makes a fresh channel) and the harness never reuses a name; it
was an artefact of naming.  `envStep` now refuses `sub c` / `mkchan c` also while a `Sub` carrying the name `c` is
pending (`nameTaken`); names are therefore pairwise distinct in EVERY reachable state (`fresh_names_invariant`, any
configuration), `no_deadlock_partial` holds without any naming hypothesis, the state that refuted the first statement is
unreachable (`former_stuck_state_unreachable`) and the path that led to it is no longer a path of the model (the
`example` after it).  The versions with a naming hypothesis on the run (`FreshRun`, `no_deadlock_fresh_run_partial`)
are kept as corollaries; they are subsumed by `no_deadlock_partial`.
-/
namespace C10
open TypVerif TypVerif.Model.PubSub TypVerif.Lemmas.PubSubExec TypVerif.Lemmas.PubSubSafe TypVerif.Lemmas.PubSubLive

/-- every receiver that has not seen its channel closed is still willing to take a value ("is being received from") -/
def Receiving (s : State) : Prop := ∀ ch ∈ s.chans, ch.rdone = false → 0 < ch.allow

/-- the weaker form that the proofs use: only the receivers of the channels subscribed on the root matter -/
def ReceivingSubscribed (s : State) : Prop :=
  ∀ ch ∈ s.chans, ch.id ∈ (s.obj 0).subs → ch.rdone = false → 0 < ch.allow

instance (s : State) : Decidable (Receiving s) := by unfold Receiving; infer_instance

theorem Receiving.subscribed {s : State} (h : Receiving s) : ReceivingSubscribed s :=
  fun ch hm _ hr => h ch hm hr

/-- a `Sub` inside `Lock()` whose (harness-chosen) channel name is already taken -/
def stuckSub (s : State) : Task → Bool
  | .subWait _ c _ => hasChan s.chans c
  | _ => false

/-- naming discipline: no pending `Sub` carries the name of an existing channel -/
def FreshSubNames (s : State) : Prop := ∀ t ∈ s.tasks, stuckSub s t = false

instance (s : State) : Decidable (FreshSubNames s) := by unfold FreshSubNames; infer_instance

/-- The model refuses an invocation `sub c` / `mkchan c` whose name is in use — as an existing channel or (new) as the
name carried by a pending `Sub` — in any state whatsoever. -/
theorem sub_refused_while_name_taken (cfg : Cfg) (s : State) (c : Chan) (cap : Int)
    (h : hasChan s.chans c = true ∨ ∃ t ∈ s.tasks, subName c t = true) :
    envStep cfg s (.sub c cap) = none ∧ envStep cfg s (.mkchan c) = none := by
  have ht : nameTaken s c = true := by
    simp only [nameTaken, Bool.or_eq_true, List.any_eq_true]
    exact h
  simp [envStep, ht]

/-- Name freshness is an invariant of the model: in every reachable state — any configuration, with or without clones,
all schedules — channel names are pairwise distinct (`NamesOk`: for every name, the pending `Sub`s carrying it plus the
existing channels with that id are at most one), hence no pending `Sub` carries the name of an existing channel. -/
theorem fresh_names_invariant (cfg : Cfg) (s : State) (hr : Conc.Reachable (sys cfg) s) :
    NamesOk s ∧ FreshSubNames s := by
  have h := namesOk_reachable cfg s hr
  refine ⟨h, fun t ht => ?_⟩
  cases t with
  | subWait o c cap => exact fresh_of_namesOk h o c cap ht
  | _ => rfl

/-- the same under `CloneDiscipline` (the form in which the deadlock theorems use it) -/
theorem fresh_names_invariant_partial (cfg : Cfg) (_hd : CloneDiscipline cfg) (s : State)
    (hr : Conc.Reachable (sys cfg) s) : NamesOk s ∧ FreshSubNames s :=
  fresh_names_invariant cfg s hr

/-- The additional invariant of every reachable state (under `CloneDiscipline`) that the deadlock proof needs:
`rdone → closed` (through the channel id: the id of a receiver that observed the close is closed), the RWMutex is never
observed write-locked, `rw.waiting` is exactly the number of goroutines inside `Lock()`, and a PubSync loop task always
has a head item.  Nothing is claimed for systems with clones. -/
theorem live_invariant_partial (cfg : Cfg) (hd : CloneDiscipline cfg) (s : State) (hr : Conc.Reachable (sys cfg) s) :
    (∀ ch ∈ s.chans, ch.rdone = true → isClosed s.chans ch.id = true) ∧
    (s.obj 0).rw.writer = false ∧
    (s.obj 0).rw.waiting = s.tasks.countP isWaiter ∧
    (∀ t ∈ s.tasks, emptySync t = false) := by
  have hl := live_reachable cfg hd s hr
  exact ⟨hl.rd, hl.writer, hl.waiting, hl.sync⟩

/-- What a task that cannot step is waiting for.  In a reachable state (under `CloneDiscipline`) whose subscribed
channels are being received from, a goroutine `t ≠ done` without an enabled step is in exactly one of these situations:
(a) it is a sender (`sending t = some it`: PubSync loop head, sendAsync, sendWaitGroup; timer not fired) with the
    timeout OFF, blocked on an existing, open channel whose receiver has not stopped and is willing (`allow > 0`), the
    buffer is full — and the RECEIVER of that channel has an enabled step;
(b) it is a `Pub*Wait` in `wg.Wait()` whose counter is positive, and a `wgSend` goroutine of that group is alive;
(c) it is about to `RLock` (`pubStart` / `asyncStart`) and is kept out by a goroutine waiting in `Lock()` (writer
    preference; the mutex itself is not write-locked);
(d) it waits in `Lock()` (`subWait` / `unsubWait` / `uaWait`) and is kept out by a goroutine inside a read-locked
    region (`syncLoop` / `waitWg` / `asyncSend`).
(The former alternative (e), a `Sub` in `Lock()` whose harness-chosen channel name already exists, cannot occur any more:
`fresh_names_invariant`.)
Not claimed: that the blocking goroutine itself can step (that is the chain in `no_deadlock_partial`). -/
theorem blocked_reason_partial (cfg : Cfg) (hd : CloneDiscipline cfg) (s : State) (hr : Conc.Reachable (sys cfg) s)
    (_hx : s.exited = false) (hrecv : ReceivingSubscribed s) (i : Nat) (t : Task)
    (ht : s.tasks[i]? = some t) (hne : t ≠ .done) (hblk : taskSteps cfg s i = []) :
    (∃ it, sending t = some it ∧ cfg.timeout ≤ 0 ∧ sendTo s it = .blocked ∧
        ∃ ch ∈ s.chans, ch.id = it.c ∧ ch.closed = false ∧ ch.rdone = false ∧ 0 < ch.allow ∧
          ch.cap ≤ ch.buf.length ∧ recvSteps s ch ≠ []) ∨
    (∃ w, isWaitWg w t = true ∧ 0 < s.wgs.getD w 0 ∧
        ∃ (j : Nat) (t' : Task), s.tasks[j]? = some t' ∧ isWgSend w t' = true) ∨
    (isReaderStart t = true ∧ (s.obj 0).rw.writer = false ∧
        ∃ (j : Nat) (t' : Task), s.tasks[j]? = some t' ∧ isWaiter t' = true) ∨
    (isWaiter t = true ∧ ∃ (j : Nat) (t' : Task), s.tasks[j]? = some t' ∧ holdsRead t' = true) := by
  rcases blocked_reason (no_panic_noClone cfg hd s hr) (live_reachable cfg hd s hr) hrecv ht hne hblk
    with h | h | h | h | h
  · exact Or.inl h
  · exact Or.inr (Or.inl h)
  · exact Or.inr (Or.inr (Or.inl h))
  · exact Or.inr (Or.inr (Or.inr h))
  · obtain ⟨o, c, cap, rfl, hc⟩ := h
    have := fresh_of_namesOk (namesOk_reachable cfg s hr) o c cap (List.mem_of_getElem? ht)
    rw [this] at hc; cases hc

/-- Deadlock freedom while the subscribers keep receiving.  In every reachable state (under `CloneDiscipline`, any
interleaving of Pub*/Sub/Unsub/UnsubAll calls, any variants, any buffers, with or without timeout) in which every
receiver that has not seen its channel closed is willing to take a value: as long as some goroutine of the PubSub has
not finished, SOME step of a PubSub goroutine or of a receiver is enabled.  No hypothesis on channel names: the model
keeps them distinct (`fresh_names_invariant`).  Proof: `blocked_reason_partial` and the well-founded chain
writer ← reader-holder ← (sender | waitWg ← wgSend sender) ← receiver.
Not claimed: that the step is taken (fairness). -/
theorem no_deadlock_partial (cfg : Cfg) (hd : CloneDiscipline cfg) (s : State) (hr : Conc.Reachable (sys cfg) s)
    (_hx : s.exited = false) (hrecv : Receiving s) (hwork : ∃ t ∈ s.tasks, t ≠ .done) :
    (∃ i, taskSteps cfg s i ≠ []) ∨ (∃ ch ∈ s.chans, recvSteps s ch ≠ []) := by
  have hfresh := (fresh_names_invariant cfg s hr).2
  apply Classical.byContradiction
  intro hcon
  have hT : ∀ i, taskSteps cfg s i = [] := by
    intro i
    apply Classical.byContradiction
    intro h; exact hcon (Or.inl ⟨i, h⟩)
  have hR : ∀ ch ∈ s.chans, recvSteps s ch = [] := by
    intro ch hm
    apply Classical.byContradiction
    intro h; exact hcon (Or.inr ⟨ch, hm, h⟩)
  obtain ⟨t, hm, hne⟩ := hwork
  exact hne (all_done_of_stuck (no_panic_noClone cfg hd s hr) (live_reachable cfg hd s hr) hrecv.subscribed
    (fun o c cap h => hfresh _ h) hT hR t hm)

/-- the same with the weaker hypothesis on the receivers (subscribed channels only), and as a statement about the
transition system: a successor of `s` that is a PubSub-goroutine step or a receiver step EXISTS, i.e. the harness
verdict `exit "deadlock"` is never the only way on. -/
theorem no_deadlock_succ_partial (cfg : Cfg) (hd : CloneDiscipline cfg) (s : State) (hr : Conc.Reachable (sys cfg) s)
    (hx : s.exited = false) (hrecv : ReceivingSubscribed s)
    (hwork : ∃ t ∈ s.tasks, t ≠ .done) :
    ∃ p ∈ (sys cfg).succ s, (∃ i, p ∈ taskSteps cfg s i) ∨ (∃ ch ∈ s.chans, p ∈ recvSteps s ch) := by
  have hs := no_panic_noClone cfg hd s hr
  have hfresh := (fresh_names_invariant cfg s hr).2
  have key : (∃ i, taskSteps cfg s i ≠ []) ∨ (∃ ch ∈ s.chans, recvSteps s ch ≠ []) := by
    apply Classical.byContradiction
    intro hcon
    have hT : ∀ i, taskSteps cfg s i = [] := by
      intro i
      apply Classical.byContradiction
      intro h; exact hcon (Or.inl ⟨i, h⟩)
    have hR : ∀ ch ∈ s.chans, recvSteps s ch = [] := by
      intro ch hm
      apply Classical.byContradiction
      intro h; exact hcon (Or.inr ⟨ch, hm, h⟩)
    obtain ⟨t, hm, hne⟩ := hwork
    exact hne (all_done_of_stuck hs (live_reachable cfg hd s hr) hrecv (fun o c cap h => hfresh _ h) hT hR t hm)
  rcases key with ⟨i, hi⟩ | ⟨ch, hm, hc⟩
  · obtain ⟨p, hp⟩ := List.exists_mem_of_ne_nil _ hi
    exact ⟨p, mem_succ_of_task_or_recv hx hs.nopanic (Or.inl ⟨i, hp⟩), Or.inl ⟨i, hp⟩⟩
  · obtain ⟨p, hp⟩ := List.exists_mem_of_ne_nil _ hc
    exact ⟨p, mem_succ_of_task_or_recv hx hs.nopanic (Or.inr ⟨ch, hm, hp⟩), Or.inr ⟨ch, hm, hp⟩⟩

/-! ### non-vacuity -/

/-- the state reached by the path (k-th successor at each step) -/
def liveAt (cfg : Cfg) (path : List Nat) : State := (runPath cfg {} path).getD {}

theorem liveAt_reachable (cfg : Cfg) (path : List Nat) (h : (runPath cfg {} path).isSome = true) :
    Conc.Reachable (sys cfg) (liveAt cfg path) := by
  cases hrun : runPath cfg {} path with
  | none => simp [hrun] at h
  | some s =>
    have : liveAt cfg path = s := by simp [liveAt, hrun]
    rw [this]
    exact runPath_reachable cfg path {} s Conc.Reachable.init hrun

/-- one subscriber with buffer 1 whose receiver is allowed 5 values, timeout off; a PubSync of two events, an Unsub,
a Pub -/
def lvCfg : Cfg :=
  { allowClone := false,
    env := [.sub 0 1, .allow 0 5, .pubinv 0 0 .pubSync [7, 8], .unsubinv 0 0 0, .pubinv 1 0 .pub [9]] }

/-- sub 0 (buffer 1) returned; allow 0 5; PubSync [7, 8] handed off 7 into the buffer -/
def lvPath1 : List Nat := [0, 3, 3, 4, 0, 1, 3, 3]
/-- … then Unsub(0) called and waiting in Lock(), then Pub [9] invoked -/
def lvPath2 : List Nat := lvPath1 ++ [1, 3, 2]

/-- (1) a reachable state with a sender blocked on a full buffered channel: the PubSync loop cannot step, the receiver
can; all hypotheses of `no_deadlock_partial` hold -/
example : Conc.Reachable (sys lvCfg) (liveAt lvCfg lvPath1) ∧ CloneDiscipline lvCfg ∧
    (liveAt lvCfg lvPath1).exited = false ∧ Receiving (liveAt lvCfg lvPath1) ∧ FreshSubNames (liveAt lvCfg lvPath1) ∧
    (liveAt lvCfg lvPath1).tasks = [.done, .syncLoop 0 0 [{ pid := 0, idx := 1, ev := 8, c := 0 }] false] ∧
    (liveAt lvCfg lvPath1).chans = [{ id := 0, cap := 1, buf := [7], allow := 5 }] ∧
    taskSteps lvCfg (liveAt lvCfg lvPath1) 1 = [] ∧
    (∃ ch ∈ (liveAt lvCfg lvPath1).chans, recvSteps (liveAt lvCfg lvPath1) ch ≠ []) :=
  ⟨liveAt_reachable _ _ (by decide), rfl, by decide, by decide, by decide, by decide, by decide, by decide, by decide⟩

/-- … and `blocked_reason_partial` applied to it yields alternative (a) -/
example : ∃ it, sending (.syncLoop 0 0 [{ pid := 0, idx := 1, ev := 8, c := 0 }] false) = some it ∧
    sendTo (liveAt lvCfg lvPath1) it = .blocked ∧
    ∃ ch ∈ (liveAt lvCfg lvPath1).chans, ch.id = it.c ∧ recvSteps (liveAt lvCfg lvPath1) ch ≠ [] := by
  rcases blocked_reason_partial lvCfg rfl (liveAt lvCfg lvPath1) (liveAt_reachable _ _ (by decide)) (by decide)
    (Receiving.subscribed (by decide)) 1 (.syncLoop 0 0 [{ pid := 0, idx := 1, ev := 8, c := 0 }] false) (by decide) (by decide) (by decide) with h | h | h | h
  · obtain ⟨it, h1, _, h2, ch, hm, hid, _, _, _, _, hstep⟩ := h
    exact ⟨it, h1, h2, ch, hm, hid, hstep⟩
  · obtain ⟨w, hw, _⟩ := h; simp [isWaitWg] at hw
  · simp [isReaderStart] at h
  · simp [isWaiter] at h

/-- (2) a reachable state with a waiting writer (Unsub in Lock(), kept out by the PubSync loop that holds the read
lock) and a blocked new reader (Pub kept out by the waiting writer: writer preference): none of the three goroutines
can step, the receiver can — the chain pubStart ← unsubWait ← syncLoop ← receiver -/
example : Conc.Reachable (sys lvCfg) (liveAt lvCfg lvPath2) ∧
    (liveAt lvCfg lvPath2).exited = false ∧ Receiving (liveAt lvCfg lvPath2) ∧ FreshSubNames (liveAt lvCfg lvPath2) ∧
    (liveAt lvCfg lvPath2).tasks = [.done, .syncLoop 0 0 [{ pid := 0, idx := 1, ev := 8, c := 0 }] false,
                                    .unsubWait 0 0 0, .pubStart 1 0 .pub [9]] ∧
    ((liveAt lvCfg lvPath2).obj 0).rw = { readers := 1, writer := false, waiting := 1 } ∧
    (List.range (liveAt lvCfg lvPath2).tasks.length).flatMap (taskSteps lvCfg (liveAt lvCfg lvPath2)) = [] ∧
    (∃ ch ∈ (liveAt lvCfg lvPath2).chans, recvSteps (liveAt lvCfg lvPath2) ch ≠ []) :=
  ⟨liveAt_reachable _ _ (by decide), by decide, by decide, by decide, by decide, by decide, by decide, by decide⟩

/-- … and the theorem applies to it -/
example : (∃ i, taskSteps lvCfg (liveAt lvCfg lvPath2) i ≠ []) ∨
    (∃ ch ∈ (liveAt lvCfg lvPath2).chans, recvSteps (liveAt lvCfg lvPath2) ch ≠ []) :=
  no_deadlock_partial lvCfg rfl _ (liveAt_reachable _ _ (by decide)) (by decide) (by decide) (by decide)

/-- `Receiving` is needed: an unbuffered subscriber whose receiver is never allowed to take a value, a PubSync of one
event -/
def lvDeadCfg : Cfg := { allowClone := false, env := [.sub 0 0, .pubinv 0 0 .pubSync [7]] }
def lvDeadPath : List Nat := [0, 1, 1, 1, 0, 0]

/-- (3) a reachable state (all other hypotheses hold) with `allow = 0` on the channel and a blocked PubSync in which NO
task step and NO receiver step is enabled: only `exit` is left to the system -/
example : Conc.Reachable (sys lvDeadCfg) (liveAt lvDeadCfg lvDeadPath) ∧ CloneDiscipline lvDeadCfg ∧
    (liveAt lvDeadCfg lvDeadPath).exited = false ∧ FreshSubNames (liveAt lvDeadCfg lvDeadPath) ∧
    (liveAt lvDeadCfg lvDeadPath).tasks = [.done, .syncLoop 0 0 [{ pid := 0, idx := 0, ev := 7, c := 0 }] false] ∧
    (liveAt lvDeadCfg lvDeadPath).chans = [{ id := 0, cap := 0 }] ∧
    ¬ Receiving (liveAt lvDeadCfg lvDeadPath) ∧
    (List.range (liveAt lvDeadCfg lvDeadPath).tasks.length).flatMap
      (taskSteps lvDeadCfg (liveAt lvDeadCfg lvDeadPath)) = [] ∧
    (liveAt lvDeadCfg lvDeadPath).chans.flatMap (recvSteps (liveAt lvDeadCfg lvDeadPath)) = [] ∧
    (succ lvDeadCfg (liveAt lvDeadCfg lvDeadPath)).map (·.1) =
      [some (.exit "ok"), some (.exit "deadlock"), some (.exit "timeout")] :=
  ⟨liveAt_reachable _ _ (by decide), rfl, by decide, by decide, by decide, by decide, by decide, by decide, by decide,
   by decide⟩

/-! ### the former counterexample -/

/-- The state that refuted `no_deadlock` as first stated (when the model still accepted a second `sub 0` while the first
was pending): two `sub 0 1` invocations pending at the same time; the first created channel 0 and returned, the second
waits in `Lock()` for ever (its step is disabled because the name exists) and is counted in `rw.waiting`; the receiver
of channel 0 is willing but has nothing to take. -/
def lvStuckState : State :=
  { objs := [{ subs := [0], rw := { waiting := 1 } }], chans := [{ id := 0, cap := 1, allow := 1 }],
    tasks := [.done, .subWait 0 0 1] }

/-- it is a deadlock: every hypothesis of `no_deadlock_partial` other than reachability holds, and nothing can step -/
example : lvStuckState.exited = false ∧ lvStuckState.panicked = none ∧ Receiving lvStuckState ∧
    (∃ t ∈ lvStuckState.tasks, t ≠ .done) ∧ ¬ FreshSubNames lvStuckState ∧
    (∀ cfg : Cfg, (List.range lvStuckState.tasks.length).flatMap (taskSteps cfg lvStuckState) = []) ∧
    lvStuckState.chans.flatMap (recvSteps lvStuckState) = [] :=
  ⟨by decide, by decide, by decide, by decide, by decide, fun _ => rfl, by decide⟩

/-- … and it is unreachable now, whatever the configuration and the schedule (the name 0 is in use twice) -/
theorem former_stuck_state_unreachable (cfg : Cfg) : ¬ Conc.Reachable (sys cfg) lvStuckState := by
  intro hr
  have h := (fresh_names_invariant cfg lvStuckState hr).2
  revert h
  decide

def lvStuckCfg : Cfg := { allowClone := false, env := [.sub 0 1, .allow 0 1] }
/-- the path that used to lead to `lvStuckState`: `sub 0 1`, `sub 0 1` again, first Sub announces, creates channel 0,
`allow 0 1`, `subret 0`, second Sub announces -/
def lvStuckPath : List Nat := [0, 0, 1, 1, 0, 1, 1]

/-- The formerly stuck path is no longer a path of the model: after the first `sub 0 1` (state `liveAt lvStuckCfg [0]`,
the Sub pending) the second `sub 0 1` is REFUSED — `envStep` gives `none`, the environment has no move at all (so the
index 0 of the old path now denotes the Sub's own step), no successor carries the label `sub 0 1`; it stays refused
while the Sub waits in `Lock()` and after the channel exists, i.e. for ever; the old index path, if followed, now reads
"`sub 0 1`, the Sub announces itself, the harness exits" and stops there (no successor after `exit`). -/
example : (liveAt lvStuckCfg [0]).tasks = [.subStart 0 0 1] ∧
    envStep lvStuckCfg (liveAt lvStuckCfg [0]) (.sub 0 1) = none ∧
    envSteps lvStuckCfg (liveAt lvStuckCfg [0]) = [] ∧
    (∀ p ∈ succ lvStuckCfg (liveAt lvStuckCfg [0]), p.1 ≠ some (.sub 0 1)) ∧
    (liveAt lvStuckCfg [0, 0]).tasks = [.subWait 0 0 1] ∧
    envStep lvStuckCfg (liveAt lvStuckCfg [0, 0]) (.sub 0 1) = none ∧
    (liveAt lvStuckCfg [0, 0, 0]).tasks = [.subRet 0] ∧
    envStep lvStuckCfg (liveAt lvStuckCfg [0, 0, 0]) (.sub 0 1) = none ∧
    labelsPath lvStuckCfg {} lvStuckPath = [some (.sub 0 1), none, some (.exit "ok")] ∧
    runPath lvStuckCfg {} lvStuckPath = none := by decide

/-! ### the naming discipline as a property of the run -/

/-- Channel names stay pairwise distinct (`NamesOk`: for every name, pending `Sub`s carrying it plus existing channels
with that id ≤ 1) under EVERY step of the system — any configuration, with or without clones, from any state, reachable
or not; and distinct names give `FreshSubNames`.  (Before the repair of `envStep` this needed the hypotheses that the
step is not an invocation `sub c` / `mkchan c` whose name is carried by a pending `Sub`; the model now refuses those.) -/
theorem names_distinct_step (cfg : Cfg) (s s' : State) (l : Option Event) (hok : NamesOk s)
    (h : (l, s') ∈ (sys cfg).succ s) :
    NamesOk s' ∧ FreshSubNames s' := by
  have h' := namesOk_succ hok h
  refine ⟨h', fun t ht => ?_⟩
  cases t with
  | subWait o c cap => exact fresh_of_namesOk h' o c cap ht
  | _ => rfl

/-- the invocation does not reuse the name of a pending `Sub` (everything that is not `sub` / `mkchan` is fine) -/
def freshLabel (s : State) : Option Event → Bool
  | some (.sub c _) => s.tasks.countP (subName c) == 0
  | some (.mkchan c) => s.tasks.countP (subName c) == 0
  | _ => true

/-- the states reached by runs in which the harness never invokes `sub c` / `mkchan c` while a `Sub` with the name `c`
is pending (all schedules otherwise).  Kept from the time when the model accepted such invocations; it now refuses
them, so the restriction on the run excludes nothing that matters and everything below is subsumed by
`no_deadlock_partial`. -/
inductive FreshRun (cfg : Cfg) : State → Prop where
  | init : FreshRun cfg {}
  | step {s s' : State} {l : Option Event} : FreshRun cfg s → (l, s') ∈ (sys cfg).succ s → freshLabel s l = true →
      FreshRun cfg s'

theorem FreshRun.reachable {cfg : Cfg} {s : State} (h : FreshRun cfg s) : Conc.Reachable (sys cfg) s := by
  induction h with
  | init => exact Conc.Reachable.init
  | step _ hm _ ih => exact Conc.Reachable.step ih hm

theorem FreshRun.namesOk {cfg : Cfg} {s : State} (h : FreshRun cfg s) : NamesOk s := by
  induction h with
  | init => exact namesOk_init
  | step _ hm _ ih => exact namesOk_succ ih hm

/-- Deadlock freedom while the subscribers keep receiving, with the naming discipline as a hypothesis on the RUN instead
of on the state: in every state of every run (under `CloneDiscipline`) in which the harness does not reuse the name of
a pending `Sub`, if every receiver that has not seen its channel closed is willing to take a value and some goroutine
of the PubSub has not finished, a step of a PubSub goroutine or of a receiver is enabled.  Same non-claims as
`no_deadlock_partial`, of which it is now a special case (`FreshRun.reachable`). -/
theorem no_deadlock_fresh_run_partial (cfg : Cfg) (hd : CloneDiscipline cfg) (s : State) (hr : FreshRun cfg s)
    (hx : s.exited = false) (hrecv : Receiving s) (hwork : ∃ t ∈ s.tasks, t ≠ .done) :
    (∃ i, taskSteps cfg s i ≠ []) ∨ (∃ ch ∈ s.chans, recvSteps s ch ≠ []) :=
  no_deadlock_partial cfg hd s hr.reachable hx hrecv hwork

/-- path checker for `FreshRun` -/
def freshPath (cfg : Cfg) : State → List Nat → Bool
  | _, [] => true
  | s, k :: ks =>
    match (succ cfg s)[k]? with
    | none => false
    | some p => freshLabel s p.1 && freshPath cfg p.2 ks

theorem freshRun_of_path (cfg : Cfg) : ∀ (ks : List Nat) (s s' : State),
    FreshRun cfg s → freshPath cfg s ks = true → runPath cfg s ks = some s' → FreshRun cfg s'
  | [], s, s', hr, _, h => by
    simp [runPath] at h; subst h; exact hr
  | k :: ks, s, s', hr, hf, h => by
    simp only [runPath] at h
    simp only [freshPath] at hf
    cases hk : (succ cfg s)[k]? with
    | none => simp [hk] at h
    | some p =>
      simp only [hk, Bool.and_eq_true] at h hf
      have hm : (p.1, p.2) ∈ (sys cfg).succ s := List.mem_of_getElem? hk
      exact freshRun_of_path cfg ks p.2 s' (FreshRun.step hr hm hf.1) hf.2 h

theorem liveAt_freshRun (cfg : Cfg) (path : List Nat) (h : (runPath cfg {} path).isSome = true)
    (hf : freshPath cfg {} path = true) : FreshRun cfg (liveAt cfg path) := by
  cases hrun : runPath cfg {} path with
  | none => simp [hrun] at h
  | some s =>
    have : liveAt cfg path = s := by simp [liveAt, hrun]
    rw [this]
    exact freshRun_of_path cfg path {} s FreshRun.init hf hrun

/-- non-vacuity: the states of examples (1) and (2) are reached by fresh runs -/
example : FreshRun lvCfg (liveAt lvCfg lvPath1) ∧ FreshRun lvCfg (liveAt lvCfg lvPath2) :=
  ⟨liveAt_freshRun _ _ (by decide) (by decide), liveAt_freshRun _ _ (by decide) (by decide)⟩

example : (∃ i, taskSteps lvCfg (liveAt lvCfg lvPath2) i ≠ []) ∨
    (∃ ch ∈ (liveAt lvCfg lvPath2).chans, recvSteps (liveAt lvCfg lvPath2) ch ≠ []) :=
  no_deadlock_fresh_run_partial lvCfg rfl _ (liveAt_freshRun _ _ (by decide) (by decide)) (by decide) (by decide)
    (by decide)

end C10

#print axioms C10.live_invariant_partial
#print axioms C10.blocked_reason_partial
#print axioms C10.no_deadlock_partial
#print axioms C10.no_deadlock_succ_partial
#print axioms C10.sub_refused_while_name_taken
#print axioms C10.fresh_names_invariant
#print axioms C10.fresh_names_invariant_partial
#print axioms C10.former_stuck_state_unreachable
#print axioms C10.names_distinct_step
#print axioms C10.no_deadlock_fresh_run_partial
#print axioms C10.Receiving.subscribed
#print axioms C10.liveAt_reachable
#print axioms C10.FreshRun.reachable
#print axioms C10.FreshRun.namesOk
#print axioms C10.freshRun_of_path
#print axioms C10.liveAt_freshRun
