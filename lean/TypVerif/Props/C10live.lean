import TypVerif.Props.C10
import TypVerif.Lemmas.PubSubLiveNames
/-
C10 — PubSub, the safety half of "eventually": the object cannot wedge while its subscribers keep receiving.
Model `sys cfg` of `TypVerif/Model/PubSub.lean`, all schedules (`Conc.Reachable`), any menu `cfg.env`, any timeout
setting, any buffer sizes; `_partial` = under `CloneDiscipline` (no `WithOnly`), like `C10.no_panic_partial`.

WHAT IS CLAIMED: in every reachable state in which some goroutine of the PubSub has not finished, some step of a
PubSub goroutine or of a receiver is ENABLED (deadlock freedom), and for every single goroutine that cannot step the
precise thing it waits for (`blocked_reason_partial`).
WHAT IS NOT CLAIMED: that the enabled step is ever taken, that a particular call returns, or that a value published
with Pub / PubSlice is ever delivered — those are liveness properties (fair scheduling), not expressible in this
framework.

DEFINITION PROBLEM FOUND (reported, not patched; see `no_deadlock_as_first_stated_is_false`): the statement without
the hypothesis `FreshSubNames` is FALSE of the model.  Channel names are chosen by the harness; `envStep (.sub c _)`
refuses a name only if a channel `c` EXISTS at invocation time, so two `sub c` invocations may both be pending; the
first creates `c`, and `stepSubWait` of the second is then disabled for ever (`hasChan s.chans c`) while it stays
counted in `rw.waiting` — every later reader is kept out too.  The Go code has no such state (`Sub` makes a fresh
channel); it is an artefact of naming.  `FreshSubNames s` excludes exactly this; it can only be broken by the
environment issuing `sub c` / `mkchan c` with a name that is pending (`names_distinct_step`), and
`no_deadlock_fresh_run_partial` is the theorem without any hypothesis of that kind on the state: it quantifies over
the runs in which the harness does not do that (`FreshRun`).
-/
namespace C10
open TypVerif TypVerif.Model.PubSub TypVerif.Lemmas.PubSubExec TypVerif.Lemmas.PubSubSafe TypVerif.Lemmas.PubSubLive

/-- every receiver that has not seen its channel closed is still willing to take a value ("is being received from") -/
def Receiving (s : State) : Prop := ∀ ch ∈ s.chans, ch.rdone = false → 0 < ch.allow

/-- the weaker form that the proofs use: only the receivers of the channels subscribed on the root matter -/
def ReceivingSubscribed (s : State) : Prop :=
  ∀ ch ∈ s.chans, ch.id ∈ (s.obj 0).subs → ch.rdone = false → 0 < ch.allow

instance (s : State) : Decidable (Receiving s) := by unfold Receiving; infer_instance

theorem Receiving.subscribed {s : State} (h : Receiving s) : ReceivingSubscribed s :=
  fun ch hm _ hr => h ch hm hr

/-- a `Sub` inside `Lock()` whose (harness-chosen) channel name is already taken -/
def stuckSub (s : State) : Task → Bool
  | .subWait _ c _ => hasChan s.chans c
  | _ => false

/-- harness naming discipline: no pending `Sub` carries the name of an existing channel -/
def FreshSubNames (s : State) : Prop := ∀ t ∈ s.tasks, stuckSub s t = false

instance (s : State) : Decidable (FreshSubNames s) := by unfold FreshSubNames; infer_instance

/-- The additional invariant of every reachable state (under `CloneDiscipline`) that the deadlock proof needs:
`rdone → closed` (through the channel id: the id of a receiver that observed the close is closed), the RWMutex is never
observed write-locked, `rw.waiting` is exactly the number of goroutines inside `Lock()`, and a PubSync loop task always
has a head item.  Nothing is claimed for systems with clones. -/
theorem live_invariant_partial (cfg : Cfg) (hd : CloneDiscipline cfg) (s : State) (hr : Conc.Reachable (sys cfg) s) :
    (∀ ch ∈ s.chans, ch.rdone = true → isClosed s.chans ch.id = true) ∧
    (s.obj 0).rw.writer = false ∧
    (s.obj 0).rw.waiting = s.tasks.countP isWaiter ∧
    (∀ t ∈ s.tasks, emptySync t = false) := by
  have hl := live_reachable cfg hd s hr
  exact ⟨hl.rd, hl.writer, hl.waiting, hl.sync⟩

/-- What a task that cannot step is waiting for.  In a reachable state (under `CloneDiscipline`) whose subscribed
channels are being received from, a goroutine `t ≠ done` without an enabled step is in exactly one of these situations:
(a) it is a sender (`sending t = some it`: PubSync loop head, sendAsync, sendWaitGroup; timer not fired) with the
    timeout OFF, blocked on an existing, open channel whose receiver has not stopped and is willing (`allow > 0`), the
    buffer is full — and the RECEIVER of that channel has an enabled step;
(b) it is a `Pub*Wait` in `wg.Wait()` whose counter is positive, and a `wgSend` goroutine of that group is alive;
(c) it is about to `RLock` (`pubStart` / `asyncStart`) and is kept out by a goroutine waiting in `Lock()` (writer
    preference; the mutex itself is not write-locked);
(d) it waits in `Lock()` (`subWait` / `unsubWait` / `uaWait`) and is kept out by a goroutine inside a read-locked
    region (`syncLoop` / `waitWg` / `asyncSend`);
(e) it is a `Sub` in `Lock()` whose harness-chosen channel name already exists (naming artefact, see the header).
Not claimed: that the blocking goroutine itself can step (that is the chain in `no_deadlock_partial`). -/
theorem blocked_reason_partial (cfg : Cfg) (hd : CloneDiscipline cfg) (s : State) (hr : Conc.Reachable (sys cfg) s)
    (_hx : s.exited = false) (hrecv : ReceivingSubscribed s) (i : Nat) (t : Task)
    (ht : s.tasks[i]? = some t) (hne : t ≠ .done) (hblk : taskSteps cfg s i = []) :
    (∃ it, sending t = some it ∧ cfg.timeout ≤ 0 ∧ sendTo s it = .blocked ∧
        ∃ ch ∈ s.chans, ch.id = it.c ∧ ch.closed = false ∧ ch.rdone = false ∧ 0 < ch.allow ∧
          ch.cap ≤ ch.buf.length ∧ recvSteps s ch ≠ []) ∨
    (∃ w, isWaitWg w t = true ∧ 0 < s.wgs.getD w 0 ∧
        ∃ (j : Nat) (t' : Task), s.tasks[j]? = some t' ∧ isWgSend w t' = true) ∨
    (isReaderStart t = true ∧ (s.obj 0).rw.writer = false ∧
        ∃ (j : Nat) (t' : Task), s.tasks[j]? = some t' ∧ isWaiter t' = true) ∨
    (isWaiter t = true ∧ ∃ (j : Nat) (t' : Task), s.tasks[j]? = some t' ∧ holdsRead t' = true) ∨
    (∃ o c cap, t = .subWait o c cap ∧ hasChan s.chans c = true) :=
  blocked_reason (no_panic_noClone cfg hd s hr) (live_reachable cfg hd s hr) hrecv ht hne hblk

/-- Deadlock freedom while the subscribers keep receiving.  In every reachable state (under `CloneDiscipline`, any
interleaving of Pub*/Sub/Unsub/UnsubAll calls, any variants, any buffers, with or without timeout) in which every
receiver that has not seen its channel closed is willing to take a value and no pending `Sub` is stuck on a taken
channel name: as long as some goroutine of the PubSub has not finished, SOME step of a PubSub goroutine or of a receiver
is enabled.  Proof: `blocked_reason_partial` and the well-founded chain
writer ← reader-holder ← (sender | waitWg ← wgSend sender) ← receiver.
Not claimed: that the step is taken (fairness), nor anything without `FreshSubNames` (false, see below). -/
theorem no_deadlock_partial (cfg : Cfg) (hd : CloneDiscipline cfg) (s : State) (hr : Conc.Reachable (sys cfg) s)
    (_hx : s.exited = false) (hrecv : Receiving s) (hfresh : FreshSubNames s) (hwork : ∃ t ∈ s.tasks, t ≠ .done) :
    (∃ i, taskSteps cfg s i ≠ []) ∨ (∃ ch ∈ s.chans, recvSteps s ch ≠ []) := by
  apply Classical.byContradiction
  intro hcon
  have hT : ∀ i, taskSteps cfg s i = [] := by
    intro i
    apply Classical.byContradiction
    intro h; exact hcon (Or.inl ⟨i, h⟩)
  have hR : ∀ ch ∈ s.chans, recvSteps s ch = [] := by
    intro ch hm
    apply Classical.byContradiction
    intro h; exact hcon (Or.inr ⟨ch, hm, h⟩)
  obtain ⟨t, hm, hne⟩ := hwork
  exact hne (all_done_of_stuck (no_panic_noClone cfg hd s hr) (live_reachable cfg hd s hr) hrecv.subscribed
    (fun o c cap h => hfresh _ h) hT hR t hm)

/-- the same with the weaker hypothesis on the receivers (subscribed channels only), and as a statement about the
transition system: a successor of `s` that is a PubSub-goroutine step or a receiver step EXISTS, i.e. the harness
verdict `exit "deadlock"` is never the only way on. -/
theorem no_deadlock_succ_partial (cfg : Cfg) (hd : CloneDiscipline cfg) (s : State) (hr : Conc.Reachable (sys cfg) s)
    (hx : s.exited = false) (hrecv : ReceivingSubscribed s) (hfresh : FreshSubNames s)
    (hwork : ∃ t ∈ s.tasks, t ≠ .done) :
    ∃ p ∈ (sys cfg).succ s, (∃ i, p ∈ taskSteps cfg s i) ∨ (∃ ch ∈ s.chans, p ∈ recvSteps s ch) := by
  have hs := no_panic_noClone cfg hd s hr
  have key : (∃ i, taskSteps cfg s i ≠ []) ∨ (∃ ch ∈ s.chans, recvSteps s ch ≠ []) := by
    apply Classical.byContradiction
    intro hcon
    have hT : ∀ i, taskSteps cfg s i = [] := by
      intro i
      apply Classical.byContradiction
      intro h; exact hcon (Or.inl ⟨i, h⟩)
    have hR : ∀ ch ∈ s.chans, recvSteps s ch = [] := by
      intro ch hm
      apply Classical.byContradiction
      intro h; exact hcon (Or.inr ⟨ch, hm, h⟩)
    obtain ⟨t, hm, hne⟩ := hwork
    exact hne (all_done_of_stuck hs (live_reachable cfg hd s hr) hrecv (fun o c cap h => hfresh _ h) hT hR t hm)
  rcases key with ⟨i, hi⟩ | ⟨ch, hm, hc⟩
  · obtain ⟨p, hp⟩ := List.exists_mem_of_ne_nil _ hi
    exact ⟨p, mem_succ_of_task_or_recv hx hs.nopanic (Or.inl ⟨i, hp⟩), Or.inl ⟨i, hp⟩⟩
  · obtain ⟨p, hp⟩ := List.exists_mem_of_ne_nil _ hc
    exact ⟨p, mem_succ_of_task_or_recv hx hs.nopanic (Or.inr ⟨ch, hm, hp⟩), Or.inr ⟨ch, hm, hp⟩⟩

/-! ### non-vacuity -/

/-- the state reached by the path (k-th successor at each step) -/
def liveAt (cfg : Cfg) (path : List Nat) : State := (runPath cfg {} path).getD {}

theorem liveAt_reachable (cfg : Cfg) (path : List Nat) (h : (runPath cfg {} path).isSome = true) :
    Conc.Reachable (sys cfg) (liveAt cfg path) := by
  cases hrun : runPath cfg {} path with
  | none => simp [hrun] at h
  | some s =>
    have : liveAt cfg path = s := by simp [liveAt, hrun]
    rw [this]
    exact runPath_reachable cfg path {} s Conc.Reachable.init hrun

/-- one subscriber with buffer 1 whose receiver is allowed 5 values, timeout off; a PubSync of two events, an Unsub,
a Pub -/
def lvCfg : Cfg :=
  { allowClone := false,
    env := [.sub 0 1, .allow 0 5, .pubinv 0 0 .pubSync [7, 8], .unsubinv 0 0 0, .pubinv 1 0 .pub [9]] }

/-- sub 0 (buffer 1) returned; allow 0 5; PubSync [7, 8] handed off 7 into the buffer -/
def lvPath1 : List Nat := [0, 4, 4, 4, 0, 1, 3, 3]
/-- … then Unsub(0) called and waiting in Lock(), then Pub [9] invoked -/
def lvPath2 : List Nat := lvPath1 ++ [1, 3, 2]

/-- (1) a reachable state with a sender blocked on a full buffered channel: the PubSync loop cannot step, the receiver
can; all hypotheses of `no_deadlock_partial` hold -/
example : Conc.Reachable (sys lvCfg) (liveAt lvCfg lvPath1) ∧ CloneDiscipline lvCfg ∧
    (liveAt lvCfg lvPath1).exited = false ∧ Receiving (liveAt lvCfg lvPath1) ∧ FreshSubNames (liveAt lvCfg lvPath1) ∧
    (liveAt lvCfg lvPath1).tasks = [.done, .syncLoop 0 0 [{ pid := 0, idx := 1, ev := 8, c := 0 }] false] ∧
    (liveAt lvCfg lvPath1).chans = [{ id := 0, cap := 1, buf := [7], allow := 5 }] ∧
    taskSteps lvCfg (liveAt lvCfg lvPath1) 1 = [] ∧
    (∃ ch ∈ (liveAt lvCfg lvPath1).chans, recvSteps (liveAt lvCfg lvPath1) ch ≠ []) :=
  ⟨liveAt_reachable _ _ (by decide), rfl, by decide, by decide, by decide, by decide, by decide, by decide, by decide⟩

/-- … and `blocked_reason_partial` applied to it yields alternative (a) -/
example : ∃ it, sending (.syncLoop 0 0 [{ pid := 0, idx := 1, ev := 8, c := 0 }] false) = some it ∧
    sendTo (liveAt lvCfg lvPath1) it = .blocked ∧
    ∃ ch ∈ (liveAt lvCfg lvPath1).chans, ch.id = it.c ∧ recvSteps (liveAt lvCfg lvPath1) ch ≠ [] := by
  rcases blocked_reason_partial lvCfg rfl (liveAt lvCfg lvPath1) (liveAt_reachable _ _ (by decide)) (by decide)
    (Receiving.subscribed (by decide)) 1 (.syncLoop 0 0 [{ pid := 0, idx := 1, ev := 8, c := 0 }] false) (by decide) (by decide) (by decide) with h | h | h | h | h
  · obtain ⟨it, h1, _, h2, ch, hm, hid, _, _, _, _, hstep⟩ := h
    exact ⟨it, h1, h2, ch, hm, hid, hstep⟩
  · obtain ⟨w, hw, _⟩ := h; simp [isWaitWg] at hw
  · simp [isReaderStart] at h
  · simp [isWaiter] at h
  · obtain ⟨_, _, _, h, _⟩ := h; cases h

/-- (2) a reachable state with a waiting writer (Unsub in Lock(), kept out by the PubSync loop that holds the read
lock) and a blocked new reader (Pub kept out by the waiting writer: writer preference): none of the three goroutines
can step, the receiver can — the chain pubStart ← unsubWait ← syncLoop ← receiver -/
example : Conc.Reachable (sys lvCfg) (liveAt lvCfg lvPath2) ∧
    (liveAt lvCfg lvPath2).exited = false ∧ Receiving (liveAt lvCfg lvPath2) ∧ FreshSubNames (liveAt lvCfg lvPath2) ∧
    (liveAt lvCfg lvPath2).tasks = [.done, .syncLoop 0 0 [{ pid := 0, idx := 1, ev := 8, c := 0 }] false,
                                    .unsubWait 0 0 0, .pubStart 1 0 .pub [9]] ∧
    ((liveAt lvCfg lvPath2).obj 0).rw = { readers := 1, writer := false, waiting := 1 } ∧
    (List.range (liveAt lvCfg lvPath2).tasks.length).flatMap (taskSteps lvCfg (liveAt lvCfg lvPath2)) = [] ∧
    (∃ ch ∈ (liveAt lvCfg lvPath2).chans, recvSteps (liveAt lvCfg lvPath2) ch ≠ []) :=
  ⟨liveAt_reachable _ _ (by decide), by decide, by decide, by decide, by decide, by decide, by decide, by decide⟩

/-- … and the theorem applies to it -/
example : (∃ i, taskSteps lvCfg (liveAt lvCfg lvPath2) i ≠ []) ∨
    (∃ ch ∈ (liveAt lvCfg lvPath2).chans, recvSteps (liveAt lvCfg lvPath2) ch ≠ []) :=
  no_deadlock_partial lvCfg rfl _ (liveAt_reachable _ _ (by decide)) (by decide) (by decide) (by decide) (by decide)

/-- `Receiving` is needed: an unbuffered subscriber whose receiver is never allowed to take a value, a PubSync of one
event -/
def lvDeadCfg : Cfg := { allowClone := false, env := [.sub 0 0, .pubinv 0 0 .pubSync [7]] }
def lvDeadPath : List Nat := [0, 2, 2, 1, 0, 0]

/-- (3) a reachable state (all other hypotheses hold) with `allow = 0` on the channel and a blocked PubSync in which NO
task step and NO receiver step is enabled: only `exit` is left to the system -/
example : Conc.Reachable (sys lvDeadCfg) (liveAt lvDeadCfg lvDeadPath) ∧ CloneDiscipline lvDeadCfg ∧
    (liveAt lvDeadCfg lvDeadPath).exited = false ∧ FreshSubNames (liveAt lvDeadCfg lvDeadPath) ∧
    (liveAt lvDeadCfg lvDeadPath).tasks = [.done, .syncLoop 0 0 [{ pid := 0, idx := 0, ev := 7, c := 0 }] false] ∧
    (liveAt lvDeadCfg lvDeadPath).chans = [{ id := 0, cap := 0 }] ∧
    ¬ Receiving (liveAt lvDeadCfg lvDeadPath) ∧
    (List.range (liveAt lvDeadCfg lvDeadPath).tasks.length).flatMap
      (taskSteps lvDeadCfg (liveAt lvDeadCfg lvDeadPath)) = [] ∧
    (liveAt lvDeadCfg lvDeadPath).chans.flatMap (recvSteps (liveAt lvDeadCfg lvDeadPath)) = [] ∧
    (succ lvDeadCfg (liveAt lvDeadCfg lvDeadPath)).map (·.1) =
      [some (.exit "ok"), some (.exit "deadlock"), some (.exit "timeout")] :=
  ⟨liveAt_reachable _ _ (by decide), rfl, by decide, by decide, by decide, by decide, by decide, by decide, by decide,
   by decide⟩

/-- `FreshSubNames` is needed — the statement first asked for (without it) is false of the model: two `sub 0`
invocations pending at the same time; the first creates channel 0 and returns, the second waits in `Lock()` for ever
(its step is disabled because the name exists), the receiver of channel 0 is willing but has nothing to take. -/
def lvStuckCfg : Cfg := { allowClone := false, env := [.sub 0 1, .allow 0 1] }
def lvStuckPath : List Nat := [0, 0, 1, 1, 0, 1, 1]

theorem no_deadlock_as_first_stated_is_false :
    ¬ (∀ (cfg : Cfg) (_ : CloneDiscipline cfg) (s : State) (_ : Conc.Reachable (sys cfg) s)
        (_ : s.exited = false) (_ : Receiving s) (_ : ∃ t ∈ s.tasks, t ≠ .done),
        (∃ i, taskSteps cfg s i ≠ []) ∨ (∃ ch ∈ s.chans, recvSteps s ch ≠ [])) := by
  intro h
  have hT : (List.range (liveAt lvStuckCfg lvStuckPath).tasks.length).flatMap
      (taskSteps lvStuckCfg (liveAt lvStuckCfg lvStuckPath)) = [] := by decide
  have hR : (liveAt lvStuckCfg lvStuckPath).chans.flatMap (recvSteps (liveAt lvStuckCfg lvStuckPath)) = [] := by
    decide
  rcases h lvStuckCfg rfl (liveAt lvStuckCfg lvStuckPath) (liveAt_reachable _ _ (by decide)) (by decide) (by decide)
    (by decide) with ⟨i, hi⟩ | ⟨ch, hm, hc⟩
  · exact hi (taskSteps_all_nil_iff.mp hT i)
  · exact hc (recvSteps_all_nil_iff.mp hR ch hm)

/-- the stuck state itself -/
example : (liveAt lvStuckCfg lvStuckPath).tasks = [.done, .subWait 0 0 1] ∧
    (liveAt lvStuckCfg lvStuckPath).chans = [{ id := 0, cap := 1, allow := 1 }] ∧
    ((liveAt lvStuckCfg lvStuckPath).obj 0).rw = { readers := 0, writer := false, waiting := 1 } ∧
    ¬ FreshSubNames (liveAt lvStuckCfg lvStuckPath) := by decide

/-! ### the naming discipline as a property of the run -/

/-- Channel names stay pairwise distinct (`NamesOk`: for every name, pending `Sub`s carrying it plus existing channels
with that id ≤ 1) under EVERY step of the system — any configuration, with or without clones — except an invocation
`sub c` / `mkchan c` whose name is carried by a pending `Sub`; and distinct names give `FreshSubNames`.  So only such
an invocation by the harness can produce the stuck `Sub` of `no_deadlock_as_first_stated_is_false`. -/
theorem names_distinct_step (cfg : Cfg) (s s' : State) (l : Option Event) (hok : NamesOk s)
    (h : (l, s') ∈ (sys cfg).succ s)
    (hsub : ∀ c cap, l = some (.sub c cap) → s.tasks.countP (subName c) = 0)
    (hmk : ∀ c, l = some (.mkchan c) → s.tasks.countP (subName c) = 0) :
    NamesOk s' ∧ FreshSubNames s' := by
  have h' := namesOk_succ hok h hsub hmk
  refine ⟨h', fun t ht => ?_⟩
  cases t with
  | subWait o c cap => exact fresh_of_namesOk h' o c cap ht
  | _ => rfl

/-- the invocation does not reuse the name of a pending `Sub` (everything that is not `sub` / `mkchan` is fine) -/
def freshLabel (s : State) : Option Event → Bool
  | some (.sub c _) => s.tasks.countP (subName c) == 0
  | some (.mkchan c) => s.tasks.countP (subName c) == 0
  | _ => true

/-- the states reached by runs in which the harness never invokes `sub c` / `mkchan c` while a `Sub` with the name `c`
is pending (all schedules otherwise) -/
inductive FreshRun (cfg : Cfg) : State → Prop where
  | init : FreshRun cfg {}
  | step {s s' : State} {l : Option Event} : FreshRun cfg s → (l, s') ∈ (sys cfg).succ s → freshLabel s l = true →
      FreshRun cfg s'

theorem FreshRun.reachable {cfg : Cfg} {s : State} (h : FreshRun cfg s) : Conc.Reachable (sys cfg) s := by
  induction h with
  | init => exact Conc.Reachable.init
  | step _ hm _ ih => exact Conc.Reachable.step ih hm

theorem FreshRun.namesOk {cfg : Cfg} {s : State} (h : FreshRun cfg s) : NamesOk s := by
  induction h with
  | init => exact namesOk_init
  | step _ hm hf ih =>
    refine namesOk_succ ih hm (fun c cap hl => ?_) (fun c hl => ?_)
    · subst hl; simpa [freshLabel] using hf
    · subst hl; simpa [freshLabel] using hf

/-- Deadlock freedom while the subscribers keep receiving, with the naming discipline as a hypothesis on the RUN instead
of on the state: in every state of every run (under `CloneDiscipline`) in which the harness does not reuse the name of
a pending `Sub`, if every receiver that has not seen its channel closed is willing to take a value and some goroutine
of the PubSub has not finished, a step of a PubSub goroutine or of a receiver is enabled.  Same non-claims as
`no_deadlock_partial`. -/
theorem no_deadlock_fresh_run_partial (cfg : Cfg) (hd : CloneDiscipline cfg) (s : State) (hr : FreshRun cfg s)
    (hx : s.exited = false) (hrecv : Receiving s) (hwork : ∃ t ∈ s.tasks, t ≠ .done) :
    (∃ i, taskSteps cfg s i ≠ []) ∨ (∃ ch ∈ s.chans, recvSteps s ch ≠ []) := by
  refine no_deadlock_partial cfg hd s hr.reachable hx hrecv (fun t ht => ?_) hwork
  cases t with
  | subWait o c cap => exact fresh_of_namesOk hr.namesOk o c cap ht
  | _ => rfl

/-- path checker for `FreshRun` -/
def freshPath (cfg : Cfg) : State → List Nat → Bool
  | _, [] => true
  | s, k :: ks =>
    match (succ cfg s)[k]? with
    | none => false
    | some p => freshLabel s p.1 && freshPath cfg p.2 ks

theorem freshRun_of_path (cfg : Cfg) : ∀ (ks : List Nat) (s s' : State),
    FreshRun cfg s → freshPath cfg s ks = true → runPath cfg s ks = some s' → FreshRun cfg s'
  | [], s, s', hr, _, h => by
    simp [runPath] at h; subst h; exact hr
  | k :: ks, s, s', hr, hf, h => by
    simp only [runPath] at h
    simp only [freshPath] at hf
    cases hk : (succ cfg s)[k]? with
    | none => simp [hk] at h
    | some p =>
      simp only [hk, Bool.and_eq_true] at h hf
      have hm : (p.1, p.2) ∈ (sys cfg).succ s := List.mem_of_getElem? hk
      exact freshRun_of_path cfg ks p.2 s' (FreshRun.step hr hm hf.1) hf.2 h

theorem liveAt_freshRun (cfg : Cfg) (path : List Nat) (h : (runPath cfg {} path).isSome = true)
    (hf : freshPath cfg {} path = true) : FreshRun cfg (liveAt cfg path) := by
  cases hrun : runPath cfg {} path with
  | none => simp [hrun] at h
  | some s =>
    have : liveAt cfg path = s := by simp [liveAt, hrun]
    rw [this]
    exact freshRun_of_path cfg path {} s FreshRun.init hf hrun

/-- non-vacuity: the states of examples (1) and (2) are reached by fresh runs, the stuck state is not -/
example : FreshRun lvCfg (liveAt lvCfg lvPath1) ∧ FreshRun lvCfg (liveAt lvCfg lvPath2) ∧
    freshPath lvStuckCfg {} lvStuckPath = false :=
  ⟨liveAt_freshRun _ _ (by decide) (by decide), liveAt_freshRun _ _ (by decide) (by decide), by decide⟩

example : (∃ i, taskSteps lvCfg (liveAt lvCfg lvPath2) i ≠ []) ∨
    (∃ ch ∈ (liveAt lvCfg lvPath2).chans, recvSteps (liveAt lvCfg lvPath2) ch ≠ []) :=
  no_deadlock_fresh_run_partial lvCfg rfl _ (liveAt_freshRun _ _ (by decide) (by decide)) (by decide) (by decide)
    (by decide)

end C10

#print axioms C10.live_invariant_partial
#print axioms C10.blocked_reason_partial
#print axioms C10.no_deadlock_partial
#print axioms C10.no_deadlock_succ_partial
#print axioms C10.no_deadlock_as_first_stated_is_false
#print axioms C10.names_distinct_step
#print axioms C10.no_deadlock_fresh_run_partial
#print axioms C10.Receiving.subscribed
#print axioms C10.liveAt_reachable
#print axioms C10.FreshRun.reachable
#print axioms C10.FreshRun.namesOk
#print axioms C10.freshRun_of_path
#print axioms C10.liveAt_freshRun
