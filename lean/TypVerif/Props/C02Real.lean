import Mathlib.Analysis.SpecialFunctions.Log.Base
import TypVerif.Props.C02
/-!
C02 — the real-valued form of the depth bound (the one Mathlib-importing module of the project).

`Props/C02.lean` proves, core-only, the integer form `C02.depth_log_int`: `2^(84·h) ≤ (n+2)^121` for an AVL tree with
`n` elements and height `h`.  Here `Real.logb 2` is taken of both sides: `84·h ≤ 121·log2(n+2)`, hence
`h ≤ (121/84)·log2(n+2) ≤ 1.4405·log2(n+2)` because `121/84 = 1.440476… < 1.4405` and `log2(n+2) ≥ 1 > 0`.
Imports the single Mathlib module `Mathlib.Analysis.SpecialFunctions.Log.Base`.
-/
namespace C02
open TypVerif.Model.Avl TypVerif.Model.Avl.Node TypVerif.Spec.Avl

variable {α : Type}

/-- Property C02, stated depth bound: in an AVL tree with `n` elements no element lies deeper than
`1.4405·log2(n+2)` (the height is the depth of the deepest element, levels counted from 0 at the root; the empty
tree has height −1).  Derived from the integer form `depth_log_int` (`2^(84·h) ≤ (n+2)^121`), which is proved
core-only, by taking `log2` of both sides and using `121/84 < 1.4405`. -/
theorem depth_log (t : Node α) (n : Nat) (ht : AVL t) (hn : size t = n) :
    ((height t : Int) : ℝ) ≤ 1.4405 * Real.logb 2 ((n : ℝ) + 2) := by
  -- log2 (n+2) ≥ 1
  have hn0 : (0 : ℝ) ≤ (n : ℝ) := Nat.cast_nonneg n
  have hpos : (0 : ℝ) < (n : ℝ) + 2 := by linarith
  have hL1 : (1 : ℝ) ≤ Real.logb 2 ((n : ℝ) + 2) := by
    have h := Real.logb_le_logb_of_le (b := 2) (by norm_num) (by norm_num : (0 : ℝ) < 2)
      (by linarith : (2 : ℝ) ≤ (n : ℝ) + 2)
    rwa [Real.logb_self_eq_one (by norm_num)] at h
  rcases le_or_gt (height t) 0 with hneg | hposh
  · -- height ≤ 0 (empty tree or single leaf): the right-hand side is positive
    have h0 : ((height t : Int) : ℝ) ≤ 0 := by exact_mod_cast hneg
    nlinarith
  · -- height > 0: it is its own `toNat`
    have hint := depth_log_int t n ht hn
    obtain ⟨k, hk⟩ := Int.eq_ofNat_of_zero_le (le_of_lt hposh)
    rw [hk, Int.toNat_natCast] at hint
    have hR : (2 : ℝ) ^ (84 * k) ≤ ((n : ℝ) + 2) ^ 121 := by
      exact_mod_cast hint
    have hlog := Real.logb_le_logb_of_le (b := 2) (by norm_num) (by positivity) hR
    rw [Real.logb_pow, Real.logb_pow, Real.logb_self_eq_one (by norm_num)] at hlog
    push_cast at hlog
    rw [hk, Int.cast_natCast]
    linarith

/-- non-vacuity: the example tree `2(1,3)` (3 elements, height 1) -/
example : ((height ex3 : Int) : ℝ) ≤ 1.4405 * Real.logb 2 (((3 : Nat) : ℝ) + 2) :=
  depth_log ex3 3 ex3_avl (by decide)

end C02

#print axioms C02.depth_log
