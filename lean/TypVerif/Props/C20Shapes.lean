import TypVerif.Gen.MathShapes
import TypVerif.Gen.UtilShapes
/-
C20, tie 4B — GOLDEN FUNCTION SHAPES (written by tools/mkshapes.py; do not edit by hand).  For every function of the source files this property's model mirrors,
the extractor regenerates on every run: its calls, its stores through selectors / indices / pointers, its conditions and loop headers, its select cases and
its return expressions, in source order.  The theorems below state that these equal the shapes of the tree the model was written against.  They are the STATIC,
all-paths complement of the differential runs: a guard dropped, a fast path or a threshold added, an early return, a changed comparison or a different callee
on ANY path - also one that no generated input happens to take - changes the regenerated list and breaks the `rfl`.  A broken shape theorem is reported like a
broken proof (with a failing input when the search finds one, else `no-failing-input-found`); after a deliberate change of the source the changed functions are
re-read against the model and this file is regenerated.
-/
namespace C20

/-- math.go: 9 function(s) -/
theorem gen_shapes_math :
    Gen.MathShapes.funcs =
      [("Min", ["call len", "call panic", "return v[0]", "range v[1:]", "if v < min", "return min"]),
       ("Max", ["call len", "call panic", "return v[0]", "range v[1:]", "if v > max", "return max"]),
       ("Clamp", ["if v < min", "return min", "if v > max", "return max", "return v"]),
       ("Clamp01", ["if v < 0", "return 0", "if v > 1", "return 1", "return v"]),
       ("Sum", ["range v", "return sum"]),
       ("Product", ["range v", "return product"]),
       ("Abs", ["if v < 0", "return -v", "return v"]),
       ("DigitsSign10", ["if v < 0", "return Digits10(-v) + 1", "call Digits10", "return Digits10(v)", "call Digits10"]),
       ("Digits10", ["call uint64", "if v < 0", "return 1", "return 2", "return 3", "return 4", "return 5", "return 6", "return 7", "return 8", "return 9", "return 10", "return 11", "return 12", "return 13", "return 14", "return 15", "return 16", "return 17", "return 18", "return 19", "return 20"])] := rfl

/-- util.go: 11 function(s) -/
theorem gen_shapes_util :
    Gen.UtilShapes.funcs =
      [("Compare", ["if a > b", "return 1", "if a < b", "return -1", "return 0"]),
       ("Less", ["return a < b"]),
       ("Zero", ["return zero"]),
       ("IsZero", ["if value == zero", "return true", "if isZeroer, ok := asAny.(interface{IsZero() bool}); ok", "return isZeroer.IsZero()", "call isZeroer.IsZero", "return false"]),
       ("ZeroOf", ["return zero"]),
       ("Coal", ["range values", "if v != zero", "return v", "return zero"]),
       ("Tern", ["if cond", "return ifTrue", "return ifFalse"]),
       ("TernCast", ["if cond", "return value.(T)", "return ifFalse"]),
       ("IsNil", ["return asAny == nil"]),
       ("Ref", ["return &value"]),
       ("DerefZero", ["if ptr == nil", "return Zero[V]()", "call Zero[V]", "return *ptr"])] := rfl

end C20
