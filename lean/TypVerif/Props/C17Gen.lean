import TypVerif.Gen.OnceShapes
/-
C17, tie 4B: the shape of `Once1/2/3.Do` in `sync2/once.go` is REGENERATED from the source on every run: ONE call of the embedded
`sync.Once.Do` with a closure that stores the results of ONE call of `f` into the result fields, then a return of those fields — the program
that `Model/Once.lean` (and `Model/OncePanic.lean`) composes with the algorithm of `sync.Once`.  A guard before `once.Do`, a deferred recovery
that re-arms the Once, a second call of `f`, or a return of anything but the fields changes this list and breaks the `rfl`.
-/
namespace C17

theorem gen_do_is_once_do_then_return_fields :
    Gen.OnceShapes.funcs =
      [("Once1.Do", ["call o.once.Do", "store o.R1", "call f", "return o.R1"]),
       ("Once2.Do", ["call o.once.Do", "store o.R1", "store o.R2", "call f", "return o.R1, o.R2"]),
       ("Once3.Do", ["call o.once.Do", "store o.R1", "store o.R2", "store o.R3", "call f", "return o.R1, o.R2, o.R3"])] := rfl

end C17
