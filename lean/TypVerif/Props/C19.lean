import TypVerif.Model.Chan
import TypVerif.Model.ChanHelpers
import TypVerif.Lemmas.ChanQueued
import TypVerif.Lemmas.ChanSend
import TypVerif.Lemmas.ChanRecv
import TypVerif.Lemmas.ChanExec
/-
C19 — channel helpers never lose, duplicate or invent a value (`/repo/chans/chans.go`).
Channels, `select`, timers and contexts are modelled by contract (`Model/Chan.lean`, `Model/ChanHelpers.lean`).
-/
namespace C19
open TypVerif TypVerif.Conc TypVerif.Model.Chan TypVerif.Model.ChanHelpers

/-- RecvQueued, run on the channel value alone (no concurrent sender), for every capacity, content,
closed flag and limit: returns the first `limit` queued values in FIFO order, leaves the rest, adds
nothing (result ++ remaining = content), needs at most `limit+1` non-blocking `select` steps (each
iteration is one `select` with `default`; the model contains no blocking operation), and the fuel of
the model loop is never exhausted. -/
theorem recvQueued (cap : Nat) (buf : List Int) (closed : Bool) (limit : Int) :
    (Model.ChanHelpers.recvQueued ⟨buf, cap, closed⟩ limit).buffer = buf.take limit.toNat ∧
    (Model.ChanHelpers.recvQueued ⟨buf, cap, closed⟩ limit).ch = ⟨buf.drop limit.toNat, cap, closed⟩ ∧
    (Model.ChanHelpers.recvQueued ⟨buf, cap, closed⟩ limit).buffer ++ (Model.ChanHelpers.recvQueued ⟨buf, cap, closed⟩ limit).ch.drain = buf ∧
    (Model.ChanHelpers.recvQueued ⟨buf, cap, closed⟩ limit).steps ≤ limit.toNat + 1 ∧
    (Model.ChanHelpers.recvQueued ⟨buf, cap, closed⟩ limit).stop ≠ .fuel := by
  obtain ⟨h1, h2, h3, h4⟩ := Lemmas.ChanQueued.recvQueued_spec ⟨buf, cap, closed⟩ limit
  refine ⟨h1, h2, ?_, ?_, h4⟩
  · rw [h1, h2]; simp [Chan.drain]
  · rw [h3]; simp only; split <;> omega

example : (Model.ChanHelpers.recvQueued ⟨[1, 2, 3], 3, false⟩ 2).buffer = [1, 2] ∧
    (Model.ChanHelpers.recvQueued ⟨[1, 2, 3], 3, false⟩ 2).ch.drain = [3] ∧
    (Model.ChanHelpers.recvQueued ⟨[1, 2], 3, true⟩ 5).buffer = [1, 2] ∧
    (Model.ChanHelpers.recvQueued ⟨[1, 2], 3, true⟩ 5).stop = .closed ∧
    (Model.ChanHelpers.recvQueued ⟨[1, 2], 3, false⟩ 5).stop = .default ∧
    (Model.ChanHelpers.recvQueued ⟨[1, 2], 3, false⟩ (-1)).buffer = [] := by decide

/-- RecvQueuedFull: the same into the caller's buffer: returns `n = min (queued) (len buf)`, the first `n`
slots of the caller's buffer are the first `n` queued values, the other slots are untouched, the
channel keeps the rest; at most `len buf + 1` non-blocking `select` steps. -/
theorem recvQueuedFull (cap : Nat) (buf : List Int) (closed : Bool) (callerBuf : List Int) :
    (Model.ChanHelpers.recvQueuedFull ⟨buf, cap, closed⟩ callerBuf).n = min buf.length callerBuf.length ∧
    (Model.ChanHelpers.recvQueuedFull ⟨buf, cap, closed⟩ callerBuf).buf =
      buf.take (min buf.length callerBuf.length) ++ callerBuf.drop (min buf.length callerBuf.length) ∧
    (Model.ChanHelpers.recvQueuedFull ⟨buf, cap, closed⟩ callerBuf).ch = ⟨buf.drop (min buf.length callerBuf.length), cap, closed⟩ ∧
    (Model.ChanHelpers.recvQueuedFull ⟨buf, cap, closed⟩ callerBuf).steps ≤ callerBuf.length + 1 ∧
    (Model.ChanHelpers.recvQueuedFull ⟨buf, cap, closed⟩ callerBuf).stop ≠ .fuel := by
  obtain ⟨h1, h2, h3, h4, h5⟩ := Lemmas.ChanQueued.recvQueuedFull_spec ⟨buf, cap, closed⟩ callerBuf
  refine ⟨h1, h2, h3, ?_, h5⟩
  rw [h4]; simp only; split <;> omega

example : (Model.ChanHelpers.recvQueuedFull ⟨[1, 2], 3, true⟩ [-7, -7, -7, -7]).n = 2 ∧
    (Model.ChanHelpers.recvQueuedFull ⟨[1, 2], 3, true⟩ [-7, -7, -7, -7]).buf = [1, 2, -7, -7] ∧
    (Model.ChanHelpers.recvQueuedFull ⟨[1, 2, 3], 3, false⟩ [-7, -7]).buf = [1, 2] ∧
    (Model.ChanHelpers.recvQueuedFull ⟨[1, 2, 3], 3, false⟩ [-7, -7]).ch.drain = [3] := by decide

/-- SendTimeout / SendContext, in every reachable state of the system with an arbitrary environment
(peers receiving, peers sending other values, the timer firing / the context being cancelled at any
time), when the helper has returned `r`: `r = true` iff its send statement / send case fired, and
then the value is in the channel or with a peer exactly once; `r = false` iff it did not, and then
the value is nowhere (and the timer / context case was ready). -/
theorem send_iff (p : Params) (h1 : p.val ∉ p.fill) (h2 : p.val ∉ p.peerSends)
    (s : SState) (hr : Reachable (sendSys p) s) (r : Bool) (hpc : s.pc = .done r) :
    (r = true ↔ s.sendFired = true) ∧
    (s.ch.buf ++ s.taken).count p.val = (if r then 1 else 0) ∧
    (r = false → p.val ∉ s.ch.buf ∧ p.val ∉ s.taken ∧ p.val ∉ s.supply ∧ s.fired = true) :=
  Lemmas.ChanSend.send_iff p h1 h2 s hr r hpc

/-- the hypotheses hold for the harness scenarios (the helper sends 99, the channel holds 1..fill) and
both results are reachable: full channel, one peer receiver, 2 ms timer -/
example : (sendScenario (.timeout 2) 1 1 1).val ∉ (sendScenario (.timeout 2) 1 1 1).fill ∧
    (sendScenario (.timeout 2) 1 1 1).val ∉ (sendScenario (.timeout 2) 1 1 1).peerSends := by decide

example : (∃ s, Reachable (sendSys (sendScenario (.timeout 2) 1 1 1)) s ∧ s.pc = .done true ∧ s.ch.buf = [99] ∧ s.taken = [1]) ∧
    (∃ s, Reachable (sendSys (sendScenario (.timeout 2) 1 1 1)) s ∧ s.pc = .done false ∧ s.ch.buf = [1]) :=
  ⟨⟨_, Lemmas.ChanExec.reachable_of_pick _ [0, 1, 0, 0] _ rfl, rfl, rfl, rfl⟩,
   ⟨_, Lemmas.ChanExec.reachable_of_pick _ [0, 0, 0, 0] _ rfl, rfl, rfl⟩⟩

/-- RecvTimeout / RecvContext, in every reachable state, when the helper has returned `(v, ok)`:
`ok = true` iff the helper consumed exactly `[v]`, and then its receive statement / case fired and `v`
was the head of the channel at that step; `ok = false` gives the zero value and nothing consumed, and
if the receive case fired nevertheless the channel was closed and drained.  Conservation (every
reachable state): everything that ever entered the channel = deliveries in order ++ buffer; the
deliveries are a permutation of peers' and helper's receipts; with the helper as only consumer
`sent = consumed ++ buffer` as lists. -/
theorem recv_iff (p : Params) (s : RState) (hr : Reachable (recvSys p) s) :
    (∀ v ok, s.pc = .done v ok →
      (ok = true ↔ s.consumed = [v]) ∧
      (ok = true → s.recvFired = true ∧ s.headAt = some v) ∧
      (ok = false → v = 0 ∧ s.consumed = []) ∧
      (ok = false → s.recvFired = true → s.headAt = none ∧ s.ch.closed = true ∧ s.ch.buf = []) ∧
      (ok = false → s.recvFired = false → s.fired = true)) ∧
    s.sent = s.log ++ s.ch.buf ∧
    s.log.Perm (s.taken ++ s.consumed) ∧
    (p.peerRecvs = 0 → s.taken = [] ∧ s.sent = s.consumed ++ s.ch.buf) :=
  ⟨fun v ok hpc => Lemmas.ChanRecv.recv_iff p s hr v ok hpc, Lemmas.ChanRecv.recv_conservation p s hr⟩

/-- a closed and drained channel: the helper's receive statement / case yields `(0, false)`, changes nothing -/
theorem recv_closed_drained (p : Params) (s : RState) (hc : s.ch.closed = true) (hb : s.ch.buf = [])
    (x : Option Unit × RState) (hx : x ∈ recvAlts p s) :
    x.2.pc = recvNext p s.pc 0 false ∧ x.2.ch = s.ch ∧ x.2.consumed = s.consumed ∧ x.2.recvFired = true :=
  Lemmas.ChanRecv.closed_drained_recv p s hc hb x hx

/-- reachable: (1,true) from the buffer; (0,false) by timeout on an empty open channel; (0,false) on a closed drained one -/
example : (∃ s, Reachable (recvSys (recvScenario (.timeout 2) 2 1 false 0)) s ∧ s.pc = .done 1 true ∧ s.consumed = [1]) ∧
    (∃ s, Reachable (recvSys (recvScenario (.timeout 2) 2 0 false 0)) s ∧ s.pc = .done 0 false ∧ s.recvFired = false) ∧
    (∃ s, Reachable (recvSys (recvScenario (.timeout 2) 2 0 true 0)) s ∧ s.pc = .done 0 false ∧ s.recvFired = true) :=
  ⟨⟨_, Lemmas.ChanExec.reachable_of_pick _ [0, 0, 0] _ rfl, rfl, rfl⟩,
   ⟨_, Lemmas.ChanExec.reachable_of_pick _ [0, 0, 0, 0] _ rfl, rfl, rfl⟩,
   ⟨_, Lemmas.ChanExec.reachable_of_pick _ [0, 0, 0] _ rfl, rfl, rfl⟩⟩

example : ({ initR (recvScenario (.timeout 2) 2 0 true 0) with pc := .sel } : RState).ch.closed = true ∧
    ({ initR (recvScenario (.timeout 2) 2 0 true 0) with pc := .sel } : RState).ch.buf = [] ∧
    ∃ x, x ∈ recvAlts (recvScenario (.timeout 2) 2 0 true 0)
      { initR (recvScenario (.timeout 2) 2 0 true 0) with pc := .sel } ∧ x.2.pc = .stop 0 false :=
  ⟨rfl, rfl, _, List.mem_cons_self, rfl⟩

/-- A non-positive timeout means wait without limit: no timer is ever armed, the helper never reaches
its `select`; SendTimeout never returns false; RecvTimeout returns false only with `(0, false)` from
its receive statement on a closed and drained channel, having consumed nothing. -/
theorem nonpositive_timeout_blocks (p : Params) (tmo : Int) (hm : p.mode = .timeout tmo) (ht : tmo ≤ 0) :
    (p.val ∉ p.fill → p.val ∉ p.peerSends → ∀ s, Reachable (sendSys p) s →
      s.armed = false ∧ s.fired = false ∧ s.pc ≠ .sel ∧ s.pc ≠ .wait ∧ s.pc ≠ .stop ∧ s.pc ≠ .done false) ∧
    (∀ s, Reachable (recvSys p) s →
      s.armed = false ∧ s.fired = false ∧ s.pc ≠ .sel ∧ s.pc ≠ .wait ∧
      (∀ v, s.pc = .done v false →
        v = 0 ∧ s.recvFired = true ∧ s.ch.closed = true ∧ s.ch.buf = [] ∧ s.consumed = [])) :=
  ⟨fun h1 h2 s hr => Lemmas.ChanSend.nonpositive_send p tmo hm ht h1 h2 s hr,
   fun s hr => Lemmas.ChanRecv.nonpositive_recv p tmo hm ht s hr⟩

/-- timeout 0: the blocking send completes once a peer makes room; the blocking receive returns (0,false) on a closed channel -/
example : (∃ s, Reachable (sendSys (sendScenario (.timeout 0) 1 1 1)) s ∧ s.pc = .done true ∧ s.taken = [1]) ∧
    (∃ s, Reachable (recvSys (recvScenario (.timeout 0) 1 0 true 0)) s ∧ s.pc = .done 0 false) :=
  ⟨⟨_, Lemmas.ChanExec.reachable_of_pick _ [0, 0, 0] _ rfl, rfl, rfl⟩,
   ⟨_, Lemmas.ChanExec.reachable_of_pick _ [0, 0] _ rfl, rfl⟩⟩

end C19

#print axioms C19.recvQueued
#print axioms C19.recvQueuedFull
#print axioms C19.send_iff
#print axioms C19.recv_iff
#print axioms C19.recv_closed_drained
#print axioms C19.nonpositive_timeout_blocks
