import TypVerif.Lemmas.OncePanicProgress
import TypVerif.Lemmas.OncePanicRefine
import TypVerif.Props.C17
/-
C17, panic case: "… exactly one of those functions is invoked, exactly once" — also when that function PANICS.
Go's sync.Once counts the panicking invocation (deferred `done.Store(1)`, deferred `m.Unlock()`), the result fields
of Once1/2/3 keep their zero values, the panic reaches the caller whose function it was and nobody else; every
waiting or later `Do` returns the zero values without invoking its function.

System: `Model.OncePanic.sys n arity res` — `n` goroutines (any n), goroutine `t` passes `f_t`, which returns
`res t` (any `res`) OR PANICS (nondeterministic alternative `fpanic t` to `fend t (res t)`), every interleaving of the
atomic actions of sync.Once.Do / doSlow and of the wrapper.  `Exec sys init ls s` = an execution from the initial
state with labels `ls` (all schedules, any length); `visible ls` = its events; `Reachable` = its states.
-/
namespace C17
open TypVerif TypVerif.Conc TypVerif.Model TypVerif.Model.OncePanic TypVerif.Lemmas.OncePanic

/-- At most one `fstart` event in any execution: one function is invoked, once — whether it returns or panics
(a panicking invocation still counts, nobody runs a second function afterwards). -/
theorem panic_exactly_once {n a : Nat} {res : Nat → List Int} {ls : List (Option Event)}
    {s : (sys n a res).State} (h : Exec (sys n a res) (sys n a res).init ls s) :
    (visible ls).countP Event.isFstart ≤ 1 := by
  have h1 := exec_invoked h
  have h2 := Lemmas.Once.invocations_le_one (inv_exec h (inv_init n a)).base.good
  simp only [Once.State.invocations] at h2
  have h3 : (init n a).base.invoked.length = 0 := rfl
  have h4 : ((sys n a res).init).base.invoked.length = 0 := h3
  omega

/-- state form: the invocation record never has more than one entry -/
theorem panic_exactly_once_state {n a : Nat} {res : Nat → List Int} {s : (sys n a res).State}
    (h : Reachable (sys n a res) s) : s.base.invocations ≤ 1 :=
  Lemmas.Once.invocations_le_one (inv_reachable n a res s h).base.good

/-- The invocation ends at most once, and in one way: at most one event among all `fend _ _` / `fpanic _`
(so "ended in `fpanic`" and "ended in `fend`" below exclude each other). -/
theorem panic_one_ending {n a : Nat} {res : Nat → List Int} {ls : List (Option Event)}
    {s : (sys n a res).State} (h : Exec (sys n a res) (sys n a res).init ls s) :
    (visible ls).countP Event.isEnd ≤ 1 := by
  have := exec_end_count h (inv_init n a)
  have h0 : ((sys n a res).init).base.fres = none := rfl
  rw [h0] at this
  simpa using this

/-- If the invocation ended in `fpanic`, every `ret u r` of the execution has `r = [0,…,0]` (the result fields were
never assigned); if it ended in `fend t r0`, every `ret u r` has `r = r0`. -/
theorem panic_results_zero {n a : Nat} {res : Nat → List Int} {ls : List (Option Event)}
    {s : (sys n a res).State} (h : Exec (sys n a res) (sys n a res).init ls s) :
    (∀ t, Event.fpanic t ∈ visible ls → ∀ u r, Event.ret u r ∈ visible ls → r = List.replicate a 0) ∧
    (∀ t r0, Event.fend t r0 ∈ visible ls → ∀ u r, Event.ret u r ∈ visible ls → r = r0) := by
  have hi := inv_init n a
  constructor
  · intro t ht u r hr
    have h1 := (exec_fpanic h hi t (mem_visible.mp ht)).2
    have h2 := (exec_ret h hi u r (mem_visible.mp hr)).1
    rw [h1] at h2
    exact (Option.some.inj h2).symm
  · intro t r0 ht u r hr
    have h1 := exec_fend h hi t r0 (mem_visible.mp ht)
    have h2 := (exec_ret h hi u r (mem_visible.mp hr)).1
    rw [h1] at h2
    exact (Option.some.inj h2).symm

/-- No `ret` happens before the invocation has ended: whatever precedes a `ret` in an execution contains the
`fend` or the `fpanic`. -/
theorem panic_after_completion {n a : Nat} {res : Nat → List Int} {l1 l2 : List (Option Event)} {u : Nat}
    {r : List Int} {s : (sys n a res).State}
    (h : Exec (sys n a res) (sys n a res).init (l1 ++ some (Event.ret u r) :: l2) s) :
    ∃ e, e ∈ visible l1 ∧ e.isEnd = true := by
  obtain ⟨m, h1, h2⟩ := exec_append h
  cases h2 with
  | cons hm _ =>
    have hi := inv_exec h1 (inv_init n a)
    have hr := (step_ret hi hm).1
    obtain ⟨e, he, hend⟩ := exec_ended h1 (inv_init n a) rfl (by rw [hr]; rfl)
    exact ⟨e, mem_visible.mpr he, hend⟩

/-- … and the goroutine whose function panicked never returns from `Do`: no `ret t _` anywhere in an execution
that contains `fpanic t` (before or after it), and `t` ends at `store`/`unlock`/gone, never `returned`. -/
theorem panic_panicker_never_returns {n a : Nat} {res : Nat → List Int} {ls : List (Option Event)}
    {s : (sys n a res).State} (h : Exec (sys n a res) (sys n a res).init ls s) {t : Nat}
    (ht : Event.fpanic t ∈ visible ls) :
    (∀ r, Event.ret t r ∉ visible ls) ∧ s.base.pc t ≠ .returned := by
  have hi := inv_init n a
  have hp := (exec_fpanic h hi t (mem_visible.mp ht)).1
  have hpc := ((inv_exec h hi).pan t hp).2
  have hne : s.base.pc t ≠ .returned := by
    intro e; rw [e] at hpc; simp at hpc
  exact ⟨fun r hr => hne (exec_ret h hi t r (mem_visible.mp hr)).2, hne⟩

/-- After the invocation has ended (in particular after `fpanic`) nobody is stuck: every goroutine `t` that has not
returned and is not the goroutine the panic took away has an enabled step, or it waits at `m.Lock()` and the
holder `h` of the mutex is past the function call (only `Do`'s own steps `check`/`assign`/`store`/`unlock` remain,
no user code) and has an enabled step. -/
theorem panic_no_deadlock_of_waiters {n a : Nat} {res : Nat → List Int} {s : (sys n a res).State}
    (h : Reachable (sys n a res) s) (hend : s.ended = true) (t : Nat) (ht : t < n)
    (hnr : s.base.pc t ≠ .returned) (hu : s.unwound t = false) :
    (∃ p, p ∈ stepT res s t ∧ p ∈ (sys n a res).succ s) ∨
    (s.base.pc t = .lock ∧ ∃ h, s.base.mu = some h ∧ h ≠ t ∧
      (s.base.pc h = .check ∨ (∃ r, s.base.pc h = .assign r) ∨ s.base.pc h = .store ∨ s.base.pc h = .unlock) ∧
      ∃ p, p ∈ stepT res s h ∧ p ∈ (sys n a res).succ s) := by
  have hi := inv_reachable n a res s h
  have hlen := len_reachable n a res s h
  have hsucc : ∀ u, u < n → stepT res s u ≠ [] → ∃ p, p ∈ stepT res s u ∧ p ∈ (sys n a res).succ s := by
    intro u hu hne
    obtain ⟨p, hp⟩ := List.exists_mem_of_ne_nil _ hne
    exact ⟨p, hp, mem_succ.mpr ⟨u, by rw [hlen]; exact hu, hp⟩⟩
  rcases enabled_or_waiting res hi hnr hu with he | ⟨hl, h', hmu, hne, hlt, hho, _, hen⟩
  · exact Or.inl (hsucc t ht he)
  · right
    refine ⟨hl, h', hmu, hne, ?_, hsucc h' (by rw [← hlen]; exact hlt) hen⟩
    have hT := hi.base.good.thread h'
    unfold Lemmas.Once.ThreadOk at hT
    obtain ⟨r, hr⟩ := Option.isSome_iff_exists.mp hend
    cases hpc : s.base.pc h' <;> rw [hpc] at hT hho <;> simp [holds] at hho ⊢
    · rw [hT.2.2.2] at hr; cases hr
    · rw [hT.2.2.2] at hr; cases hr

/-- The mutex is released by the deferred `Unlock`: once the panic has left `Do`, the goroutine it took away
does not hold the mutex. -/
theorem panic_mutex_released {n a : Nat} {res : Nat → List Int} {s : (sys n a res).State}
    (h : Reachable (sys n a res) s) {t : Nat} (hu : s.unwound t = true) : s.base.mu ≠ some t := by
  intro hm
  have := (holds_facts ((inv_reachable n a res s h).base.holder t hm).2).2.1
  simp [State.unwound] at hu
  exact this hu.2

/-- … and every waiting or later caller can still return: from any reachable state in which the invocation has
ended, every goroutine `t` that has not returned and whose function did not panic has a schedule on which it
returns — with the recorded results, which are `[0,…,0]` if the invocation panicked. -/
theorem panic_waiters_can_return {n a : Nat} {res : Nat → List Int} {s : (sys n a res).State}
    (h : Reachable (sys n a res) s) (hend : s.ended = true) (t : Nat) (ht : t < n)
    (hp : t ∉ s.panicked) (hnr : s.base.pc t ≠ .returned) :
    ∃ ls s' r, Exec (sys n a res) s ls s' ∧ Event.ret t r ∈ visible ls ∧ s.base.fres = some r ∧
      (s.panicked ≠ [] → r = List.replicate a 0) := by
  have hi := inv_reachable n a res s h
  have hlen := len_reachable n a res s h
  obtain ⟨ls, s', r, he, hr⟩ := can_return res hi (by rw [hlen]; exact ht) hp hnr
  obtain ⟨r0, hr0⟩ := Option.isSome_iff_exists.mp hend
  have h1 := exec_fres_stable he hi r0 hr0
  have h2 := (exec_ret he hi t r hr).1
  rw [h1] at h2
  have e : r0 = r := Option.some.inj h2
  subst e
  refine ⟨ls, s', r0, he, mem_visible.mpr hr, hr0, ?_⟩
  intro hne
  cases hpl : s.panicked with
  | nil => exact absurd hpl hne
  | cons u us =>
    have := (hi.pan u (by simp [hpl])).1
    rw [hr0] at this
    exact Option.some.inj this

/-- The judge's translation is sound: replacing `fpanic t` by `fend t [0,…,0]` (`glue`; nothing else is changed or
dropped) turns the events of any execution of the extended system into the events of an execution of the ORIGINAL
`Model.Once` system — for `res'` = `res` except that the panicked goroutine's function "returns zeros" — which ends
in the same `Model.Once` state and in which the panicked goroutine never takes its `ret` step.  Hence `Props/C17`'s
theorems and the judge's state set over `Model.Once` apply to panic traces. -/
theorem panic_refines_glue {n a : Nat} {res : Nat → List Int} {ls : List (Option Event)}
    {s : (sys n a res).State} (h : Exec (sys n a res) (sys n a res).init ls s) :
    ∃ (res' : Nat → List Int) (ls' : List (Option Once.Event)),
      Exec (Once.sys n a res') (Once.sys n a res').init ls' s.base ∧
      visible ls' = (visible ls).map (glue a) ∧
      (∀ u, Event.fpanic u ∉ visible ls → res' u = res u) ∧
      (∀ t, Event.fpanic t ∈ visible ls → res' t = List.replicate a 0 ∧
        s.base.pc t ≠ .returned ∧ ∀ r, Once.Event.ret t r ∉ visible ls') :=
  refines h

/-- Consequently the history predicate the judge evaluates (`Spec.Once`, on the translated events) holds for every
execution of the extended system: at most one `fstart`, every `ret` after the (translated) end and with its tuple. -/
theorem panic_spec_holds_glue {n a : Nat} {res : Nat → List Int} {ls : List (Option Event)}
    {s : (sys n a res).State} (h : Exec (sys n a res) (sys n a res).init ls s) :
    Spec.Once.holds ((visible ls).map (glue a)) = true := by
  obtain ⟨res', ls', he, hv, _⟩ := panic_refines_glue h
  rw [← hv]
  exact spec_holds he

/-! ### non-vacuity: two goroutines; goroutine 1 arrives while f_0 runs; f_0 panics; goroutine 0 runs the deferred
`done.Store(1)` and `Unlock` and is gone; goroutine 1 acquires the mutex, sees `done = 1`, returns zeros -/
def panicDemoRes : Nat → List Int := fun t => [10 + t, 20 + t]
def panicDemoSched : List (Nat × Nat) :=
  [(0,0),(0,0),(0,0),(0,0),(0,0), (1,0),(1,0), (0,1),(0,0),(0,0), (1,0),(1,0),(1,0),(1,0)]
def panicDemoTrace : List Event := [.call 0, .fstart 0, .call 1, .fpanic 0, .ret 1 [0, 0]]
def panicDemoLs : List (Option Event) := (runSched panicDemoRes (init 2 2) panicDemoSched).1
def panicDemoEnd : State := (runSched panicDemoRes (init 2 2) panicDemoSched).2

theorem panicDemoExec :
    Exec (sys 2 2 panicDemoRes) (sys 2 2 panicDemoRes).init panicDemoLs panicDemoEnd :=
  runSched_exec 2 2 panicDemoRes panicDemoSched (init 2 2)

theorem panicDemoVisible : visible panicDemoLs = panicDemoTrace := by decide

/-- the state just after `fpanic 0` (goroutine 1 waits at `Lock`, goroutine 0 still holds the mutex) -/
def panicDemoMid : State := (runSched panicDemoRes (init 2 2) (panicDemoSched.take 8)).2
theorem panicDemoMidReach : Reachable (sys 2 2 panicDemoRes) panicDemoMid :=
  exec_reachable (runSched_exec 2 2 panicDemoRes (panicDemoSched.take 8) (init 2 2)) Reachable.init

-- the execution exists and shows exactly the panic trace; the theorems apply to it
example : (visible panicDemoLs).countP Event.isFstart ≤ 1 := panic_exactly_once panicDemoExec
example : (visible panicDemoLs).countP Event.isFstart = 1 := by rw [panicDemoVisible]; decide
example : (visible panicDemoLs).countP Event.isEnd = 1 := by rw [panicDemoVisible]; decide
example : ∀ u r, Event.ret u r ∈ visible panicDemoLs → r = [0, 0] :=
  (panic_results_zero panicDemoExec).1 0 (by rw [panicDemoVisible]; decide)
example : Event.ret 1 [0, 0] ∈ visible panicDemoLs := by rw [panicDemoVisible]; decide
example : ∀ r, Event.ret 0 r ∉ visible panicDemoLs :=
  (panic_panicker_never_returns panicDemoExec (by rw [panicDemoVisible]; decide)).1
-- `panic_after_completion`: the labels split around goroutine 1's `ret`; the prefix contains the `fpanic`
theorem panicDemoSplit : panicDemoLs = panicDemoLs.take 13 ++ some (Event.ret 1 [0, 0]) :: [] := by decide
example : ∃ e, e ∈ visible (panicDemoLs.take 13) ∧ e.isEnd = true :=
  panic_after_completion (l2 := []) (u := 1) (r := [0, 0]) (s := panicDemoEnd) (by rw [← panicDemoSplit]; exact panicDemoExec)
example : Event.fpanic 0 ∈ visible (panicDemoLs.take 13) := by decide
example : Spec.Once.holds (panicDemoTrace.map (glue 2)) = true := by decide
-- after the panic: goroutine 1 waits at `Lock`, the holder (goroutine 0) is at the deferred `done.Store(1)`
example : panicDemoMid.ended = true ∧ panicDemoMid.panicked = [0] ∧ panicDemoMid.base.pc 1 = .lock ∧
    panicDemoMid.base.mu = some 0 ∧ panicDemoMid.base.pc 0 = .store ∧ panicDemoMid.unwound 1 = false := by decide
example : ∃ ls s' r, Exec (sys 2 2 panicDemoRes) panicDemoMid ls s' ∧ Event.ret 1 r ∈ visible ls ∧
    panicDemoMid.base.fres = some r ∧ (panicDemoMid.panicked ≠ [] → r = List.replicate 2 0) :=
  panic_waiters_can_return panicDemoMidReach (by decide) 1 (by decide) (by decide) (by decide)
-- in the final state goroutine 0 is gone and does not hold the mutex
example : panicDemoEnd.unwound 0 = true ∧ panicDemoEnd.base.mu = none ∧ panicDemoEnd.base.pc 1 = .returned := by decide
-- the glue image of the demo trace is accepted by the original model, with goroutine 0 never returning
example : panicDemoTrace.map (glue 2) = [.call 0, .fstart 0, .call 1, .fend 0 [0, 0], .ret 1 [0, 0]] := by decide
example : Conc.accepts (Once.sys 2 2 (fun _ => [0, 0])) 64 (panicDemoTrace.map (glue 2)) = true := by decide

-- trace acceptance by the extended model (as the judge would use it)
example : Conc.accepts (sys 2 2 panicDemoRes) 64 panicDemoTrace = true := by decide
-- the panicking goroutine does not return
example : Conc.accepts (sys 2 2 panicDemoRes) 64 [.call 0, .fstart 0, .call 1, .fpanic 0, .ret 0 [0, 0]] = false := by decide
-- nobody gets anything but zeros after a panic
example : Conc.accepts (sys 2 2 panicDemoRes) 64 [.call 0, .fstart 0, .call 1, .fpanic 0, .ret 1 [10, 20]] = false := by decide
-- nobody's function runs after the panic
example : Conc.accepts (sys 2 2 panicDemoRes) 64 [.call 0, .fstart 0, .call 1, .fpanic 0, .fstart 1] = false := by decide
-- nobody returns before the panic
example : Conc.accepts (sys 2 2 panicDemoRes) 64 [.call 0, .fstart 0, .call 1, .ret 1 [0, 0]] = false := by decide
-- the non-panicking behaviour is still there
example : Conc.accepts (sys 2 2 panicDemoRes) 64
    [.call 0, .fstart 0, .call 1, .fend 0 [10, 20], .ret 1 [10, 20], .ret 0 [10, 20]] = true := by decide

end C17

#print axioms C17.panic_exactly_once
#print axioms C17.panic_exactly_once_state
#print axioms C17.panic_one_ending
#print axioms C17.panic_results_zero
#print axioms C17.panic_after_completion
#print axioms C17.panic_panicker_never_returns
#print axioms C17.panic_no_deadlock_of_waiters
#print axioms C17.panic_mutex_released
#print axioms C17.panic_waiters_can_return
#print axioms C17.panic_refines_glue
#print axioms C17.panic_spec_holds_glue
