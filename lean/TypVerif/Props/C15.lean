import TypVerif.Lemmas.SortAdapters
import TypVerif.Lemmas.SortSpec
/-
C15: "Sort, SortFunc, SortDesc, SortDescFunc, SortStableFunc and SortStableDescFunc leave the slice a permutation of its
former contents, ordered ascending (or descending) under < or the given less function, and the two Stable variants keep
elements that the order cannot distinguish in their original relative order. BinarySearch and BinarySearchFunc on an
ascending slice return the smallest index whose element is not less than the target (len when there is none): the first
match if present, else the insertion point. Shuffle and ShuffleRand leave a permutation, and ShuffleRand is a deterministic
function of the supplied generator."

Model: `Model/SortAdapters.lean`.  `sort.Sort` / `sort.Stable` enter as parameters constrained by `SortContract` /
`StableContract` (`Spec/SortContract.lean`); `refSort_contract` shows the contracts are satisfiable by an implementation
that uses only `Len/Less/Swap`.  `IsSorted lt l` = no later element is `lt` an earlier one; descending = `IsSorted` for
the flipped order.  `tied less x y` = neither is less than the other.
-/
open TypVerif.Model TypVerif.Model.SortAdapters TypVerif.Spec.Order TypVerif.Spec.SortContract
open TypVerif.Lemmas.SortAdapters

namespace C15

/-- SortFunc: permutation, ascending under `less`. -/
theorem sort_asc {α : Type} {sortImpl : SortImpl} (hc : SortContract sortImpl) {less : α → α → Bool}
    (hw : StrictWeak less) (slice : List α) :
    (sortFunc sortImpl slice less).Perm slice ∧ IsSorted less (sortFunc sortImpl slice less) :=
  hc _ _ _ id less hw (sortLess_consistent less) slice

/-- Sort: the same for the built-in `<` of an ordered type (a strict weak order for every `typ.Ordered` type except
floats containing NaN). -/
theorem sort_asc_ordered {α : Type} [LT α] [DecidableLT α] {sortImpl : SortImpl} (hc : SortContract sortImpl)
    (hw : StrictWeak (fun a b : α => decide (a < b))) (slice : List α) :
    (sort sortImpl slice).Perm slice ∧ IsSorted (fun a b : α => decide (a < b)) (sort sortImpl slice) :=
  hc _ _ _ id _ hw sortOrdered_consistent slice

/-- SortDescFunc: permutation, descending under `less` (no later element is greater than an earlier one). -/
theorem sort_desc {α : Type} {sortImpl : SortImpl} (hc : SortContract sortImpl) {less : α → α → Bool}
    (hw : StrictWeak less) (slice : List α) :
    (sortDescFunc sortImpl slice less).Perm slice ∧
    IsSorted (fun a b => less b a) (sortDescFunc sortImpl slice less) :=
  hc _ _ _ id _ hw.flip (reverse_consistent (sortLess_consistent less)) slice

/-- SortDesc. -/
theorem sort_desc_ordered {α : Type} [LT α] [DecidableLT α] {sortImpl : SortImpl} (hc : SortContract sortImpl)
    (hw : StrictWeak (fun a b : α => decide (a < b))) (slice : List α) :
    (sortDesc sortImpl slice).Perm slice ∧ IsSorted (fun a b : α => decide (b < a)) (sortDesc sortImpl slice) :=
  hc _ _ _ id _ hw.flip (reverse_consistent sortOrdered_consistent) slice

/-- SortStableFunc: permutation, ascending, and for every `x` the elements tied with `x` appear in their original
relative order. -/
theorem stable_asc {α : Type} {stableImpl : SortImpl} (hc : StableContract stableImpl) {less : α → α → Bool}
    (hw : StrictWeak less) (slice : List α) :
    (sortStableFunc stableImpl slice less).Perm slice ∧
    IsSorted less (sortStableFunc stableImpl slice less) ∧
    ∀ x, (sortStableFunc stableImpl slice less).filter (tied less x) = slice.filter (tied less x) :=
  hc _ _ _ id less hw (sortLess_consistent less) slice

/-- SortStableDescFunc: permutation, descending, and ties STILL in their original relative order
(`Stable(Reverse(less))` does not reverse ties). -/
theorem stable_desc {α : Type} {stableImpl : SortImpl} (hc : StableContract stableImpl) {less : α → α → Bool}
    (hw : StrictWeak less) (slice : List α) :
    (sortStableDescFunc stableImpl slice less).Perm slice ∧
    IsSorted (fun a b => less b a) (sortStableDescFunc stableImpl slice less) ∧
    ∀ x, (sortStableDescFunc stableImpl slice less).filter (tied less x) = slice.filter (tied less x) := by
  have := hc _ _ _ id _ hw.flip (reverse_consistent (sortLess_consistent less)) slice
  refine ⟨this.1, this.2.1, ?_⟩
  intro x
  have h := this.2.2 x
  have hf : tied (fun a b => less b a) x = tied less x := funext (tied_flip less x)
  rw [hf] at h
  exact h

/-- The contracts are satisfiable: the reference implementation (merge sort of positions through `Less`, realised
through `Swap`) meets both. -/
theorem refSort_contract : StableContract refSort ∧ SortContract refSort :=
  ⟨refSort_stableContract, refSort_sortContract⟩

/-- the harness's comparator on `(key, tag)` pairs is a strict weak order with ties between distinguishable values -/
theorem strictWeak_key : StrictWeak (fun a b : Int × Int => decide (a.1 < b.1)) where
  irrefl := by intro a; simp
  trans := by intro a b c; simp; omega
  negTrans := by intro a b c; simp; omega

-- non-vacuity: the hypotheses of the six sorting theorems are satisfiable together
example (l : List Int) := sort_asc refSort_contract.2 strictTotal_int_lt.toStrictWeak l
example (l : List Int) := sort_asc_ordered refSort_contract.2 strictTotal_int_lt.toStrictWeak l
example (l : List Int) := sort_desc refSort_contract.2 strictTotal_int_lt.toStrictWeak l
example (l : List Int) := sort_desc_ordered refSort_contract.2 strictTotal_int_lt.toStrictWeak l
example (l : List (Int × Int)) := stable_asc refSort_contract.1 strictWeak_key l
example (l : List (Int × Int)) := stable_desc refSort_contract.1 strictWeak_key l

/-- For the plain-integer lines the adapter model run with the reference sort is exactly the judge's specification
(`Spec.SortSpec.sortAsc/sortDesc`). -/
theorem model_sort_eq_spec (keys : List Int) :
    sort refSort keys = TypVerif.Spec.SortSpec.sortAsc keys ∧
    sortDesc refSort keys = TypVerif.Spec.SortSpec.sortDesc keys := by
  constructor
  · have := refSort_view (sortOrdered_consistent (α := Int)) keys
    simp only [id] at this
    rw [sort, this, Sorted.stableSort, TypVerif.Spec.SortSpec.sortAsc]
    congr 1; funext a b
    by_cases h : b < a
    · have : ¬ a ≤ b := by omega
      simp [h, this]
    · have : a ≤ b := by omega
      simp [h, this]
  · have := refSort_view (reverse_consistent (sortOrdered_consistent (α := Int))) keys
    simp only [id] at this
    rw [sortDesc, this, Sorted.stableSort, TypVerif.Spec.SortSpec.sortDesc]
    congr 1; funext a b
    by_cases h : a < b
    · have : ¬ a ≥ b := by omega
      simp [h, this]
    · have : a ≥ b := by omega
      simp [h, this]

/-- BinarySearch on an ascending slice returns the smallest index whose element is not less than the target, `len` if
there is none. (`hge`: `>=` is the negation of `<`, true for every ordered type except floats with NaN.) -/
theorem binarySearch_lower_bound {α : Type} [LT α] [DecidableLT α] [LE α] [DecidableLE α]
    (hge : ∀ a b : α, a ≥ b ↔ ¬ a < b) (hw : StrictWeak (fun a b : α => decide (a < b)))
    (slice : List α) (hs : IsSorted (fun a b : α => decide (a < b)) slice) (v : α) :
    binarySearch slice v ≤ slice.length ∧
    (∀ i (h : i < slice.length), i < binarySearch slice v → slice[i] < v) ∧
    (∀ i (h : i < slice.length), binarySearch slice v ≤ i → ¬ slice[i] < v) ∧
    binarySearch slice v = slice.countP (fun x => decide (x < v)) := by
  rw [binarySearch_eq_search hge]
  let s : Sorted.Sorted α := ⟨slice, fun a b => decide (a < b)⟩
  obtain ⟨h1, h2, h3⟩ := GoSearch.search_lower_bound _ _ (TypVerif.Lemmas.Sorted.pred_monotone s hw hs v)
  refine ⟨h1, ?_, ?_, TypVerif.Lemmas.Sorted.search_eq_lowerBound s hw hs v⟩
  · intro i h hi
    have := h2 i hi
    rw [TypVerif.Lemmas.Sorted.pred_of_lt s v i h] at this
    simpa [s] using this
  · intro i h hi
    have := h3 i hi h
    rw [TypVerif.Lemmas.Sorted.pred_of_lt s v i h] at this
    simpa [s] using this

/-- … which is the first match when the target is present (strict total order). -/
theorem binarySearch_first_match {α : Type} [DecidableEq α] [LT α] [DecidableLT α] [LE α] [DecidableLE α]
    (hge : ∀ a b : α, a ≥ b ↔ ¬ a < b) (ht : StrictTotal (fun a b : α => decide (a < b)))
    (slice : List α) (hs : IsSorted (fun a b : α => decide (a < b)) slice) (v : α) (hv : v ∈ slice) :
    slice.idxOf v = binarySearch slice v := by
  rw [binarySearch_eq_search hge]
  exact (TypVerif.Lemmas.Sorted.search_of_mem ⟨slice, fun a b => decide (a < b)⟩ ht hs v hv).2.2

/-- On a list tagged with original indices (what the harness feeds the Stable variants) the stability contract determines
the result completely: it is the judge's specification "order by key, then by original index" (descending: key
descending, original index still ascending). -/
theorem stable_eq_spec {stableImpl : SortImpl} (hc : StableContract stableImpl) (keys : List Int) :
    sortStableFunc stableImpl (TypVerif.Spec.SortSpec.tagged keys) TypVerif.Spec.SortSpec.keyLess
      = TypVerif.Spec.SortSpec.stableAsc (TypVerif.Spec.SortSpec.tagged keys) ∧
    sortStableDescFunc stableImpl (TypVerif.Spec.SortSpec.tagged keys) TypVerif.Spec.SortSpec.keyLess
      = TypVerif.Spec.SortSpec.stableDesc (TypVerif.Spec.SortSpec.tagged keys) :=
  ⟨TypVerif.Lemmas.SortSpec.stable_asc_eq_spec hc keys, TypVerif.Lemmas.SortSpec.stable_desc_eq_spec hc keys⟩

example (keys : List Int) := stable_eq_spec refSort_contract.1 keys

example := binarySearch_lower_bound (α := Int) (by intro a b; omega) strictTotal_int_lt.toStrictWeak
  [1, 3, 3, 5, 9] (by unfold IsSorted; decide) 3
example := binarySearch_first_match (α := Int) (by intro a b; omega) strictTotal_int_lt
  [1, 3, 3, 5, 9] (by unfold IsSorted; decide) 3 (by decide)

example : binarySearch [1, 3, 3, 5, (9 : Int)] 3 = 1 ∧ binarySearch [1, 3, 3, 5, (9 : Int)] 4 = 3 ∧
    binarySearch [1, 3, 3, 5, (9 : Int)] 10 = 5 := by decide

/-- BinarySearchFunc with a "less than the target" predicate that is true on a prefix of the slice and false on the
rest: the smallest index whose element is not less than the target, `len` if there is none. -/
theorem binarySearchFunc_lower_bound {α : Type} (slice : List α) (less : α → Bool)
    (hmono : ∀ i j (hi : i < slice.length) (hj : j < slice.length), i ≤ j → less slice[j] = true → less slice[i] = true) :
    binarySearchFunc slice less ≤ slice.length ∧
    (∀ i (h : i < slice.length), i < binarySearchFunc slice less → less slice[i] = true) ∧
    (∀ i (h : i < slice.length), binarySearchFunc slice less ≤ i → less slice[i] = false) :=
  binarySearchFunc_spec slice less hmono

example := binarySearchFunc_lower_bound [1, 3, 3, 5, (9 : Int)] (fun _ => true) (by intros; rfl)
example : binarySearchFunc [1, 3, 3, 5, (9 : Int)] (fun a => decide (a < 4)) = 3 := by decide

/-- Any sequence of swaps leaves a permutation; in particular Shuffle and ShuffleRand do, whatever the generator. -/
theorem shuffle_perm {α γ : Type} (next : γ → Nat → Nat × γ) (slice : List α) (g : γ) (swaps : List (Nat × Nat)) :
    (applySwaps slice swaps).Perm slice ∧
    (shuffleRand next slice g).1.Perm slice ∧ (shuffle next slice g).1.Perm slice :=
  ⟨applySwaps_perm slice swaps, applySwaps_perm slice _, applySwaps_perm slice _⟩

/-- ShuffleRand is a function of the generator: its result is the recorded swap stream applied to the input, and that
stream depends on the generator state (and the length) only. -/
theorem shuffleRand_function {α γ : Type} (next : γ → Nat → Nat × γ) (slice : List α) (g : γ) :
    (shuffleRand next slice g).1 = applySwaps slice (shuffleTrace next (slice.length - 1) g).1 ∧
    ∀ (slice' : List α), slice'.length = slice.length →
      (shuffleRand next slice' g).1 = applySwaps slice' (shuffleTrace next (slice.length - 1) g).1 := by
  refine ⟨rfl, ?_⟩
  intro slice' h
  simp only [shuffleRand, h]

end C15

#print axioms C15.sort_asc
#print axioms C15.sort_asc_ordered
#print axioms C15.sort_desc
#print axioms C15.sort_desc_ordered
#print axioms C15.stable_asc
#print axioms C15.stable_desc
#print axioms C15.refSort_contract
#print axioms C15.model_sort_eq_spec
#print axioms C15.stable_eq_spec
#print axioms C15.binarySearch_lower_bound
#print axioms C15.binarySearch_first_match
#print axioms C15.binarySearchFunc_lower_bound
#print axioms C15.shuffle_perm
#print axioms C15.shuffleRand_function
