import TypVerif.Lemmas.SetCounts
import TypVerif.Props.C05conc
/-
C05, the clause "the counts returned by AddSet and RemoveSet add up the same way".

`AddSet(set)` is the loop `set.Range(func(value) { if s.Add(value) { added++ } })` returning `added`, `RemoveSet` the same loop
with `Remove` (`sync2/set.go`; regenerated fact `C05.gen_addset_is_a_loop_of_adds`).  The count an `AddSet` call returns is
therefore the number of ITS OWN element Adds that reported `true`; a single `Add` is a call with one element operation whose
"count" is 1 if it reported `true` and 0 otherwise; likewise for `RemoveSet`/`Remove`.  Summed over a whole execution:

    (Σ counts returned by AddSet calls + #successful single Adds) − (Σ counts returned by RemoveSet calls + #successful single Removes)
      = number of members of the final set.

* `counts_add_up_seq`  — the totals, for every sequential history of the set specification;
* `counts_by_call`, `counts_add_up_calls`, `counts_add_up_groups` — the totals are the sums of the per-call counts, for ANY
  assignment of the element operations to calls (interleaved: by position; or consecutive groups), so the same equation holds
  between the sums of the returned counts;
* `conc_counts_add_up` — for every execution of the step-level model of `sync2.Set` (hypotheses and linearization of
  `conc_alternate`), in both forms.
-/
namespace C05
open TypVerif TypVerif.Conc TypVerif.Model TypVerif.Model.AtomicObj
open TypVerif.Model.SyncMapConc (Op Res sys)
open TypVerif.Spec.AtomicSet
open TypVerif.Lemmas.Smc (mapSpec applyOp evOf)
open TypVerif.Lemmas.SetConc
open TypVerif.Lemmas.SetCounts

set_option linter.unusedSectionVars false

variable {α : Type} [DecidableEq α]

/-- **The counts add up (sequential histories, any duplicate-free cover).**  For every sequential history `srun ops` of the
set specification and every duplicate-free list `vs` containing all values mentioned by `ops`:
#successful Adds = #successful Removes + #(members of the final set among `vs`). -/
theorem counts_add_up_seq_cover (ops : List (SOp α)) (vs : List α) (hnd : vs.Nodup) (hcov : ∀ op ∈ ops, opValue op ∈ vs) :
    okAdds (srun ops).2 = okRemoves (srun ops).2 + vs.countP (srun ops).1 := by
  have h := counts_from vs hnd ops sempty hcov
  have h0 : vs.countP (sempty : SState α) = 0 := by
    apply List.countP_eq_zero.mpr
    intro a _
    simp [sempty]
  rw [h0, Nat.add_zero] at h
  exact h

/-- **The counts add up (sequential histories).**  With `lins := (srun ops).2` the history (calls with their results, oldest
first) and `(srun ops).1` the final set: the number of `(Add _, true)` in `lins` is the number of `(Remove _, true)` in `lins`
plus the number of values `v`, in the duplicate-free list `touched ops = (ops.map opValue).eraseDups` of all values mentioned
by `ops`, with `final v = true`. -/
theorem counts_add_up_seq (ops : List (SOp α)) :
    okAdds (srun ops).2 = okRemoves (srun ops).2 + (touched ops).countP (srun ops).1 :=
  counts_add_up_seq_cover ops (touched ops) (touched_nodup ops) (fun _ h => mem_touched h)

/-- `touched ops` is duplicate-free and contains exactly the values mentioned by `ops`; every other value is not a member of
the final set — so `(touched ops).countP (srun ops).1` IS the number of members of the final set. -/
theorem touched_spec (ops : List (SOp α)) :
    (touched ops).Nodup ∧ (∀ v, v ∈ touched ops ↔ ∃ op ∈ ops, opValue op = v) ∧
    (∀ v, v ∉ touched ops → (srun ops).1 v = false) := by
  refine ⟨touched_nodup ops, fun v => mem_touched_iff, ?_⟩
  intro v hv
  exact srunFrom_untouched v ops sempty (fun op ho e => hv (e ▸ mem_touched ho))

/-- the member count does not depend on the duplicate-free cover chosen -/
theorem members_cover_indep (ops : List (SOp α)) (vs : List α) (hnd : vs.Nodup) (hcov : ∀ op ∈ ops, opValue op ∈ vs) :
    vs.countP (srun ops).1 = (touched ops).countP (srun ops).1 := by
  have h1 := counts_add_up_seq_cover ops vs hnd hcov
  have h2 := counts_add_up_seq ops
  omega

/-- **Grouping (interleaved calls).**  Let `call : Nat → γ` assign the positions of a history `lins` to call identifiers
taken from a duplicate-free list `ids` (an `AddSet` call = the positions of its element Adds, which other goroutines' operations
may separate; a single `Add` = one position).  Then the per-call numbers of successful Adds sum to the total number of
successful Adds, and the same for Removes. -/
theorem counts_by_call {γ : Type} [DecidableEq γ] (call : Nat → γ) (ids : List γ) (hnd : ids.Nodup)
    (lins : List (SOp α × Bool)) (hcov : ∀ i, i < lins.length → call i ∈ ids) :
    (ids.map (fun c => countIn isOkAdd call c lins)).sum = okAdds lins ∧
    (ids.map (fun c => countIn isOkRemove call c lins)).sum = okRemoves lins :=
  ⟨sum_countIn isOkAdd call ids hnd lins hcov, sum_countIn isOkRemove call ids hnd lins hcov⟩

/-- **The counts add up, per call.**  For any assignment of the positions of the sequential history to calls:
Σ over calls of (#successful Adds of the call) = Σ over calls of (#successful Removes of the call) + #members of the final set. -/
theorem counts_add_up_calls {γ : Type} [DecidableEq γ] (ops : List (SOp α)) (call : Nat → γ) (ids : List γ)
    (hnd : ids.Nodup) (hcov : ∀ i, i < ops.length → call i ∈ ids) :
    (ids.map (fun c => countIn isOkAdd call c (srun ops).2)).sum =
      (ids.map (fun c => countIn isOkRemove call c (srun ops).2)).sum + (touched ops).countP (srun ops).1 := by
  have hlen : ∀ (l : List (SOp α)) (m : SState α), (srunFrom m l).2.length = l.length := by
    intro l
    induction l with
    | nil => intro _; rfl
    | cons o r ih => intro m; show (srunFrom (sstep m o).1 r).2.length + 1 = r.length + 1; rw [ih]
  have hcov' : ∀ i, i < (srun ops).2.length → call i ∈ ids := by
    intro i hi
    rw [show (srun ops).2.length = ops.length from hlen ops sempty] at hi
    exact hcov i hi
  obtain ⟨h1, h2⟩ := counts_by_call call ids hnd (srun ops).2 hcov'
  rw [h1, h2]
  exact counts_add_up_seq ops

/-- **The counts add up, consecutive groups** (`countP_flatten` form).  If the history is cut into consecutive groups
`addGroups`/`removeGroups`/… in any order — here: any list `gs` of groups whose concatenation is the history, each group being
all-Adds (`AddSet` or single `Add`), all-Removes (`RemoveSet` or single `Remove`), or anything else (`Has`) — then with
`callCount g` = number of `true` results in `g` (the count the call returns):
Σ callCount over the Add-groups = Σ callCount over the Remove-groups + #members of the final set. -/
theorem counts_add_up_groups (ops : List (SOp α)) (gs : List (List (SOp α × Bool))) (hsplit : (srun ops).2 = gs.flatten)
    (isAddG isRemG : List (SOp α × Bool) → Bool)
    (hA : ∀ g ∈ gs, isAddG g = true → ∀ x ∈ g, ∃ v, x.1 = SOp.add v)
    (hR : ∀ g ∈ gs, isRemG g = true → ∀ x ∈ g, ∃ v, x.1 = SOp.remove v)
    (hA' : ∀ g ∈ gs, isAddG g = false → okAdds g = 0)
    (hR' : ∀ g ∈ gs, isRemG g = false → okRemoves g = 0) :
    ((gs.filter isAddG).map callCount).sum = ((gs.filter isRemG).map callCount).sum + (touched ops).countP (srun ops).1 := by
  have key : ∀ (f : List (SOp α × Bool) → Nat) (sel : List (SOp α × Bool) → Bool) (l : List (List (SOp α × Bool))),
      (∀ g ∈ l, sel g = true → callCount g = f g) → (∀ g ∈ l, sel g = false → f g = 0) →
      ((l.filter sel).map callCount).sum = (l.map f).sum := by
    intro f sel l
    induction l with
    | nil => intro _ _; rfl
    | cons g r ih =>
      intro h1 h2
      have i := ih (fun x hx => h1 x (List.mem_cons_of_mem _ hx)) (fun x hx => h2 x (List.mem_cons_of_mem _ hx))
      cases hs : sel g with
      | true =>
        rw [List.filter_cons_of_pos hs]
        simp only [List.map_cons, List.sum_cons]
        rw [i, h1 g List.mem_cons_self hs]
      | false =>
        rw [List.filter_cons_of_neg (by simp [hs])]
        simp only [List.map_cons, List.sum_cons]
        rw [i, h2 g List.mem_cons_self hs, Nat.zero_add]
  rw [key okAdds isAddG gs (fun g hg hs => callCount_adds g (hA g hg hs)) hA',
    key okRemoves isRemG gs (fun g hg hs => callCount_removes g (hR g hg hs)) hR',
    ← okAdds_flatten, ← okRemoves_flatten, ← hsplit]
  exact counts_add_up_seq ops

/-- **The counts add up under every schedule.**  Same hypotheses as `conc_alternate`: for any number `n` of goroutines calling
operations from any finite menu of `Add`/`Remove`/`Has` (the element operations `AddSet`/`RemoveSet` perform are such calls),
every execution of the step-level model has a linearization (the `log`, `ops` of `conc_alternate`: one linearization point per
call inside the call's interval, carrying the call's result; its sequence of `(call, result)` pairs is the sequential
history `srun ops`) in which

  total #successful Adds = total #successful Removes + #{v ∈ touched ops | v is a member of the final set `(srun ops).1`},

every value outside the duplicate-free list `touched ops` being a non-member; and for ANY assignment `call` of the
linearization points (positions in `srun ops`, oldest first) to calls `ids` — e.g. the element Adds of one `AddSet` call, however
interleaved with other goroutines — the same equation holds between the sums of the per-call counts. -/
theorem conc_counts_add_up (menu : List (Op α Unit)) (hmenu : ∀ op ∈ menu, (toSetOp op).isSome = true) (n : Nat)
    {s : SyncMapConc.State α Unit} {ls : List (Option (SyncMapConc.Event α Unit))}
    (he : Exec (sys α Unit menu n true) (SyncMapConc.init n true) ls s) :
    ∃ (log : List (Entry (SOp α) Bool)) (ops : List (SOp α)),
      histOf log = setHist (ls.filterMap (·.bind evOf)) ∧
      (∀ t, (runThread t log).isSome = true) ∧
      SeqRun (setSpec α) (linsOf log) (srun ops).1 ∧
      (srun ops).2 = (linsOf log).reverse ∧
      okAdds (linsOf log) = okRemoves (linsOf log) + (touched ops).countP (srun ops).1 ∧
      (touched ops).Nodup ∧ (∀ v, v ∉ touched ops → (srun ops).1 v = false) ∧
      ∀ (γ : Type) [DecidableEq γ] (call : Nat → γ) (ids : List γ), ids.Nodup →
        (∀ i, i < (linsOf log).length → call i ∈ ids) →
        (ids.map (fun c => countIn isOkAdd call c (linsOf log).reverse)).sum =
          (ids.map (fun c => countIn isOkRemove call c (linsOf log).reverse)).sum + (touched ops).countP (srun ops).1 := by
  obtain ⟨log, ops, h1, h2, h3, h4, _⟩ := conc_alternate menu hmenu n he
  have hc := counts_add_up_seq ops
  refine ⟨log, ops, h1, h2, h3, h4, ?_, touched_nodup ops, (touched_spec ops).2.2, ?_⟩
  · rw [h4] at hc
    unfold okAdds okRemoves at *
    rw [List.countP_reverse, List.countP_reverse] at hc
    exact hc
  · intro γ _ call ids hnd hcov
    have hcov' : ∀ i, i < (linsOf log).reverse.length → call i ∈ ids := by
      intro i hi
      rw [List.length_reverse] at hi
      exact hcov i hi
    obtain ⟨g1, g2⟩ := counts_by_call call ids hnd (linsOf log).reverse hcov'
    rw [g1, g2, ← h4]
    exact hc

/-! Non-vacuity: two `AddSet` calls with element operations `[add 1, add 2]`, `[add 2, add 3]` and a `RemoveSet` call
`[remove 2, remove 5]`; returned counts 2, 1, 1; final set {1, 3}; 2 + 1 − 1 = 2. -/

/-- the element operations, one call after the other -/
def exOps : List (SOp Int) := [.add 1, .add 2] ++ [.add 2, .add 3] ++ [.remove 2, .remove 5]

/-- the history splits into the three calls' groups, with these results -/
example : (srun exOps).2 = [[(.add 1, true), (.add 2, true)], [(.add 2, false), (.add 3, true)],
    [(.remove 2, true), (.remove 5, false)]].flatten := by decide

/-- the counts the three calls return -/
example : callCount ([(.add 1, true), (.add 2, true)] : List (SOp Int × Bool)) = 2 ∧
    callCount ([(.add 2, false), (.add 3, true)] : List (SOp Int × Bool)) = 1 ∧
    callCount ([(.remove 2, true), (.remove 5, false)] : List (SOp Int × Bool)) = 1 := by decide

/-- totals, the touched values, the final set and the equation 2 + 1 = 1 + 2 -/
example : okAdds (srun exOps).2 = 3 ∧ okRemoves (srun exOps).2 = 1 ∧ touched exOps = [1, 2, 3, 5] ∧
    (touched exOps).filter (srun exOps).1 = [1, 3] ∧ (touched exOps).countP (srun exOps).1 = 2 := by decide

/-- the same three calls interleaved (`AddSet` A = positions 0 and 3, `AddSet` B = positions 1 and 4, `RemoveSet` C =
positions 2 and 5): per-call counts by position -/
def exOps2 : List (SOp Int) := [.add 1, .add 2, .remove 2, .add 2, .add 3, .remove 5]
def exCall (i : Nat) : Fin 3 := if i = 0 ∨ i = 3 then 0 else if i = 1 ∨ i = 4 then 1 else 2

example : (srun exOps2).2.map Prod.snd = [true, true, true, true, true, false] := by decide
example : countIn isOkAdd exCall 0 (srun exOps2).2 = 2 ∧ countIn isOkAdd exCall 1 (srun exOps2).2 = 2 ∧
    countIn isOkRemove exCall 2 (srun exOps2).2 = 1 ∧ countIn isOkAdd exCall 2 (srun exOps2).2 = 0 ∧
    (touched exOps2).filter (srun exOps2).1 = [1, 2, 3] := by decide

/-- the per-call theorem instantiated on it: (2 + 2 + 0) = (0 + 0 + 1) + 3 -/
example : ([0, 1, 2].map (fun c => countIn isOkAdd exCall c (srun exOps2).2)).sum =
    ([0, 1, 2].map (fun c => countIn isOkRemove exCall c (srun exOps2).2)).sum + (touched exOps2).countP (srun exOps2).1 :=
  counts_add_up_calls exOps2 exCall [0, 1, 2] (by decide) (by
    intro i _
    have : ∀ x : Fin 3, x ∈ [0, 1, 2] := by decide
    exact this _)

/-- the equation is not a triviality of the definitions: a "history" that is not a run of the specification violates it -/
example : okAdds ([(.add 1, true), (.add 1, true)] : List (SOp Int × Bool)) ≠
    okRemoves ([(.add 1, true), (.add 1, true)] : List (SOp Int × Bool)) + 1 := by decide

end C05

section AxiomCheck
#print axioms C05.counts_add_up_seq_cover
#print axioms C05.counts_add_up_seq
#print axioms C05.touched_spec
#print axioms C05.members_cover_indep
#print axioms C05.counts_by_call
#print axioms C05.counts_add_up_calls
#print axioms C05.counts_add_up_groups
#print axioms C05.conc_counts_add_up
end AxiomCheck
