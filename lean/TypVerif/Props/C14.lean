import TypVerif.Lemmas.FuncSum
/-
C14: "Fold(s,seed,acc) equals acc(...acc(acc(seed,s[0]),s[1])...,s[n-1]) and FoldReverse applies acc from the last
element down to the first, both returning the seed for an empty slice. Map, MapErr (stops at the first error and returns
it with no result), Filter, Any, All, Index, IndexFunc, Contains, ContainsFunc, Distinct and DistinctFunc (first
occurrences, original order), Except and ExceptSet, GroupBy and CountBy (groups in first-appearance order, members in
original order, sizes summing to n), Trim*, TryGet, SafeGet, SafeGetOr and Last, and the map helpers Clone, Clear, Keys,
Values, KeyOf, ContainsValue and HasKey return exactly what their straightforward definitions give for every input. None
of them modifies its input, and - apart from the Trim family, which returns a sub-slice of its argument - every returned
slice or map is new and can be modified without affecting the input."

One equation per function between the Go loop (`Model/Func.lean`) and the reference definition, for every input and every
callback.  ("Does not modify its input / returns a new slice" is not expressible in the pure model: correspondence.)
-/
namespace C14
open TypVerif TypVerif.Model

variable {α β σ ε κ ν : Type}

theorem fold (s : List α) (seed : σ) (acc : σ → α → σ) : Func.fold s seed acc = s.foldl acc seed :=
  Lemmas.Func.foldLoop_eq acc s seed

theorem fold_empty (seed : σ) (acc : σ → α → σ) : Func.fold [] seed acc = seed := rfl

theorem foldReverse (s : List α) (seed : σ) (acc : σ → α → σ) :
    Func.foldReverse s seed acc = .ok (s.reverse.foldl acc seed) := by
  unfold Func.foldReverse
  rw [Lemmas.Func.foldReverseLoop_eq s acc s.length seed (Nat.le_refl _), List.take_length]

theorem foldReverse_empty (seed : σ) (acc : σ → α → σ) : Func.foldReverse ([] : List α) seed acc = .ok seed := rfl

theorem map (s : List α) (conv : α → β) (zero : β) : Func.map s conv zero = s.map conv := by
  unfold Func.map
  have := Lemmas.Func.mapLoop_eq conv s 0 [] (List.replicate s.length zero) rfl (by simp)
  simpa using this

/-- MapErr is the sequential conversion in which the first error wins -/
theorem mapErr (s : List α) (conv : α → Except ε β) (zero : β) :
    Func.mapErr s conv zero = Spec.Func.mapErr s conv :=
  Lemmas.Func.mapErr_eq s conv zero

/-- every conversion succeeds (with results `rs`): the results are returned -/
theorem mapErr_ok (s : List α) (conv : α → Except ε β) (zero : β) (rs : List β)
    (h : s.map conv = rs.map Except.ok) : Func.mapErr s conv zero = .ok rs := by
  rw [mapErr]; exact Lemmas.Func.spec_mapErr_ok conv s rs h
example : Func.mapErr [1, 2, 3] (fun v => (Except.ok (2 * v + 1) : Except String Nat)) 0 = .ok [3, 5, 7] := rfl

/-- the elements before `x` convert, `x` fails with `e`: exactly `e` is returned and there is no result,
whatever comes after `x` -/
theorem mapErr_first_error (pre post : List α) (x : α) (conv : α → Except ε β) (zero : β) (rs : List β) (e : ε)
    (hpre : pre.map conv = rs.map Except.ok) (hx : conv x = .error e) :
    Func.mapErr (pre ++ x :: post) conv zero = .error e := by
  rw [mapErr]; exact Lemmas.Func.spec_mapErr_first_error conv x post e hx pre rs hpre
example : Func.mapErr [1, 2, 3, 4] (fun v => if v % 2 = 0 then Except.error v else Except.ok v) 0 = .error 2 := rfl

theorem filter (s : List α) (p : α → Bool) : Func.filter s p = s.filter p := by
  unfold Func.filter; rw [Lemmas.Func.filterLoop_eq]; rfl

theorem any (s : List α) (p : α → Bool) : Func.any s p = s.any p := Lemmas.Func.any_eq p s
theorem all (s : List α) (p : α → Bool) : Func.all s p = s.all p := Lemmas.Func.all_eq p s

/-- IndexFunc: the least index whose element satisfies `f`, or -1 -/
theorem indexFunc (s : List α) (f : α → Bool) : Func.indexFunc s f = Spec.Func.indexFunc s f := by
  unfold Func.indexFunc Spec.Func.indexFunc
  rw [Lemmas.Func.indexFuncLoop_eq]
  cases List.findIdx? f s with
  | none => rfl
  | some k => simp

theorem index [DecidableEq α] (s : List α) (v : α) : Func.index s v = Spec.Func.index s v :=
  indexFunc s _

theorem contains [DecidableEq α] (s : List α) (v : α) : Func.contains s v = decide (v ∈ s) :=
  Lemmas.Func.contains_eq v s

theorem containsFunc (s : List α) (v : α) (eq : α → α → Bool) :
    Func.containsFunc s v eq = s.any (fun x => eq x v) := Lemmas.Func.containsFunc_eq v eq s

/-- Distinct: first occurrences in original order -/
theorem distinct [DecidableEq α] (s : List α) : Func.distinct s = Spec.Func.dedup s := by
  unfold Func.distinct
  rw [Lemmas.Func.distinctLoop_eq]
  simp only [List.nil_append, List.not_mem_nil, decide_false, Bool.not_false]
  exact List.filter_eq_self.mpr (fun _ _ => rfl)
example : Func.distinct [1, 2, 1, 3, 2] = [1, 2, 3] := by decide

/-- the reference `dedup` has no duplicates and the same members -/
theorem distinct_nodup_mem [DecidableEq α] (s : List α) :
    (Func.distinct s).Nodup ∧ ∀ x, x ∈ Func.distinct s ↔ x ∈ s := by
  rw [distinct]; exact ⟨Lemmas.Func.nodup_dedup s, fun x => Lemmas.Func.mem_dedup x s⟩

/-- DistinctFunc: an element is kept iff no previously kept element is `equals` to it (arbitrary `equals`) -/
theorem distinctFunc (s : List α) (eq : α → α → Bool) : Func.distinctFunc s eq = Spec.Func.distinctFunc eq s [] :=
  Lemmas.Func.distinctFuncLoop_eq eq s []

theorem exceptSet [DecidableEq α] (s exclude : List α) :
    Func.exceptSet s exclude = s.filter (fun v => !decide (v ∈ exclude)) := by
  unfold Func.exceptSet; rw [Lemmas.Func.exceptSetLoop_eq]; rfl

theorem except [DecidableEq α] (s exclude : List α) : Func.except s exclude = Spec.Func.except s exclude := by
  unfold Func.except Spec.Func.except
  rw [exceptSet]
  apply List.filter_congr
  intro x _
  have := Lemmas.Func.mem_newSetFromSlice x exclude []
  simp only [List.not_mem_nil, false_or] at this
  simp only [this]

/-- GroupBy: one group per key in order of first appearance, members in original order -/
theorem groupBy [DecidableEq κ] [Inhabited κ] (s : List α) (keyer : α → κ) :
    Func.groupBy s keyer = Spec.Func.groupBy s keyer := Lemmas.Func.groupBy_eq s keyer
example : Func.groupBy [1, 2, 3, 4, 5] (fun v => v % 2) = [(1, [1, 3, 5]), (0, [2, 4])] := by decide

theorem groupBy_sizes_sum [DecidableEq κ] [Inhabited κ] (s : List α) (keyer : α → κ) :
    ((Func.groupBy s keyer).map (fun g => g.2.length)).sum = s.length := by
  rw [groupBy]; exact Lemmas.Func.groupBy_sizes_sum s keyer

theorem countBy [DecidableEq κ] [Inhabited κ] (s : List α) (keyer : α → κ) :
    Func.countBy s keyer = Spec.Func.countBy s keyer := Lemmas.Func.countBy_eq s keyer

/-- the counts are the group sizes, key by key (so they too sum to `n`) -/
theorem countBy_sizes [DecidableEq κ] [Inhabited κ] (s : List α) (keyer : α → κ) :
    Func.countBy s keyer = (Func.groupBy s keyer).map (fun g => (g.1, (g.2.length : Int))) := by
  rw [countBy, groupBy]
  unfold Spec.Func.countBy Spec.Func.groupBy
  rw [List.map_map]
  rfl

/-- the Trim family returns a window of its argument -/
theorem trimLeftFunc (s : List α) (p : α → Bool) :
    ∃ w, Func.trimLeftFunc s p = .ok w ∧ Func.window s w = s.dropWhile p ∧
      w.1 + w.2 = s.length ∧ w.1 = (s.takeWhile p).length := Lemmas.Func.trimLeftFunc_spec s p

theorem trimRightFunc (s : List α) (p : α → Bool) :
    ∃ w, Func.trimRightFunc s p = .ok w ∧ Func.window s w = (s.reverse.dropWhile p).reverse ∧
      w.1 = 0 ∧ w.2 ≤ s.length := Lemmas.Func.trimRightFunc_spec s p

theorem trimFunc (s : List α) (p : α → Bool) :
    ∃ w, Func.trimFunc s p = .ok w ∧ Func.window s w = Spec.Func.trim s p ∧
      w.1 + w.2 ≤ s.length ∧ w.1 = ((Spec.Func.trimRight s p).takeWhile p).length :=
  Lemmas.Func.trimFunc_spec s p

theorem trimLeft [DecidableEq α] (s unwanted : List α) :
    ∃ w, Func.trimLeft s unwanted = .ok w ∧ Func.window s w = s.dropWhile (fun v => decide (v ∈ unwanted)) ∧
      w.1 + w.2 = s.length := by
  obtain ⟨w, he, hw, hs, _⟩ := Lemmas.Func.trimLeftFunc_spec s (fun v => Func.contains unwanted v)
  refine ⟨w, he, ?_, hs⟩
  rw [hw]; unfold Spec.Func.trimLeft
  congr 1; funext v; exact Lemmas.Func.contains_eq v unwanted

theorem trimRight [DecidableEq α] (s unwanted : List α) :
    ∃ w, Func.trimRight s unwanted = .ok w ∧
      Func.window s w = (s.reverse.dropWhile (fun v => decide (v ∈ unwanted))).reverse ∧ w.1 = 0 := by
  obtain ⟨w, he, hw, ho, _⟩ := Lemmas.Func.trimRightFunc_spec s (fun v => Func.contains unwanted v)
  refine ⟨w, he, ?_, ho⟩
  rw [hw]; unfold Spec.Func.trimRight
  congr 2; funext v; exact Lemmas.Func.contains_eq v unwanted

theorem trim [DecidableEq α] (s unwanted : List α) :
    ∃ w, Func.trim s unwanted = .ok w ∧
      Func.window s w = Spec.Func.trim s (fun v => decide (v ∈ unwanted)) ∧ w.1 + w.2 ≤ s.length := by
  obtain ⟨w, he, hw, hs, _⟩ := Lemmas.Func.trimFunc_spec s (fun v => Func.contains unwanted v)
  refine ⟨w, he, ?_, hs⟩
  rw [hw]
  have : (fun v => Func.contains unwanted v) = (fun v => decide (v ∈ unwanted)) := by
    funext v; exact Lemmas.Func.contains_eq v unwanted
  rw [this]
example : (Func.trim [0, 0, 1, 0, 2, 0] [0]).map (fun w => (Func.window [0, 0, 1, 0, 2, 0] w, w.1)) = .ok ([1, 0, 2], 2) := rfl

theorem tryGet (s : List α) (i : Int) (zero : α) : Func.tryGet s i zero = .ok (Spec.Func.tryGet s i zero) :=
  Lemmas.Func.tryGet_eq s i zero
theorem safeGet (s : List α) (i : Int) (zero : α) : Func.safeGet s i zero = .ok (Spec.Func.safeGetOr s i zero) :=
  Lemmas.Func.safeGet_eq s i zero
theorem safeGetOr (s : List α) (i : Int) (fb : α) : Func.safeGetOr s i fb = .ok (Spec.Func.safeGetOr s i fb) :=
  Lemmas.Func.safeGetOr_eq s i fb
/-- Last: the last element, an index panic for the empty slice -/
theorem last (s : List α) :
    Func.last s = match s.getLast? with | some v => .ok v | none => .error "panic:bounds" :=
  Lemmas.Func.last_eq s

/-! map helpers: `m` is the map (key-duplicate-free association list), `it` the entries in iteration order -/

theorem keys (it m : List (κ × ν)) (hp : it.Perm m) : (Func.keys it).Perm (m.map (·.1)) := by
  unfold Func.keys; rw [Lemmas.Func.keysLoop_eq, List.nil_append]; exact hp.map _

theorem values (it m : List (κ × ν)) (hp : it.Perm m) : (Func.values it).Perm (m.map (·.2)) := by
  unfold Func.values; rw [Lemmas.Func.valuesLoop_eq, List.nil_append]; exact hp.map _

/-- KeyOf returns `(k, true)` for some key mapping to the value iff one exists, else `(zero, false)` -/
theorem keyOf [DecidableEq ν] (it m : List (κ × ν)) (hp : it.Perm m) (value : ν) (zero : κ) :
    ((Func.keyOf it value zero).2 = true → ((Func.keyOf it value zero).1, value) ∈ m) ∧
    ((Func.keyOf it value zero).2 = false → (Func.keyOf it value zero).1 = zero ∧ ¬ ∃ k, (k, value) ∈ m) := by
  obtain ⟨h1, h2⟩ := Lemmas.Func.keyOf_spec value zero it
  refine ⟨fun ht => hp.mem_iff.mp (h1 ht), fun hf => ⟨(h2 hf).1, ?_⟩⟩
  rintro ⟨k, hk⟩
  exact (h2 hf).2 ⟨k, hp.mem_iff.mpr hk⟩

theorem containsValue [DecidableEq ν] (it m : List (κ × ν)) (hp : it.Perm m) (value : ν) :
    Func.containsValue it value = true ↔ ∃ k, (k, value) ∈ m := by
  rw [Lemmas.Func.containsValue_iff]
  constructor
  · rintro ⟨k, hk⟩; exact ⟨k, hp.mem_iff.mp hk⟩
  · rintro ⟨k, hk⟩; exact ⟨k, hp.mem_iff.mpr hk⟩

theorem hasKey [DecidableEq κ] (m : List (κ × ν)) (key : κ) : Func.hasKey m key = true ↔ ∃ v, (key, v) ∈ m :=
  Lemmas.Func.mapGet_isSome_iff key m

/-- Clear leaves the map empty -/
theorem mclear [DecidableEq κ] (it m : List (κ × ν)) (hp : it.Perm m) (hnd : (m.map (·.1)).Nodup) :
    Func.mclear it m = [] := by
  apply List.eq_nil_iff_forall_not_mem.mpr
  intro p hpm
  obtain ⟨h1, h2⟩ := Lemmas.Func.mclear_mem it m p hnd hpm
  exact h2 (List.mem_map.mpr ⟨p, hp.mem_iff.mpr h1, rfl⟩)

/-- Clone is a map with the same lookups (hence the same entries) -/
theorem mclone [DecidableEq κ] (it m : List (κ × ν)) (hp : it.Perm m) (hnd : (m.map (·.1)).Nodup) :
    ((Func.mclone it).map (·.1)).Nodup ∧ ∀ key, Func.mapGet (Func.mclone it) key = Func.mapGet m key := by
  have hndit : (it.map (·.1)).Nodup := (hp.map (·.1)).nodup_iff.mpr hnd
  refine ⟨Lemmas.Func.mcloneLoop_nodup it [] (by simp), ?_⟩
  intro key
  unfold Func.mclone
  rw [Lemmas.Func.mcloneLoop_get key it [] hndit]
  have : Func.mapGet it key = Func.mapGet m key := by
    apply Option.ext
    intro v
    rw [Lemmas.Func.mapGet_eq_some_iff key v it hndit, Lemmas.Func.mapGet_eq_some_iff key v m hnd]
    exact hp.mem_iff
  rw [this]
  cases Func.mapGet m key <;> rfl
example : Func.mclone [(1, 2), (0, 5)] = [(1, 2), (0, 5)] ∧ Func.mclear [(0, 5), (1, 2)] [(1, 2), (0, 5)] = ([] : List (Nat × Nat)) := by
  decide

end C14

#print axioms C14.fold
#print axioms C14.foldReverse
#print axioms C14.map
#print axioms C14.mapErr
#print axioms C14.mapErr_ok
#print axioms C14.mapErr_first_error
#print axioms C14.filter
#print axioms C14.any
#print axioms C14.all
#print axioms C14.indexFunc
#print axioms C14.index
#print axioms C14.contains
#print axioms C14.containsFunc
#print axioms C14.distinct
#print axioms C14.distinct_nodup_mem
#print axioms C14.distinctFunc
#print axioms C14.exceptSet
#print axioms C14.except
#print axioms C14.groupBy
#print axioms C14.groupBy_sizes_sum
#print axioms C14.countBy
#print axioms C14.countBy_sizes
#print axioms C14.trimLeftFunc
#print axioms C14.trimRightFunc
#print axioms C14.trimFunc
#print axioms C14.trimLeft
#print axioms C14.trimRight
#print axioms C14.trim
#print axioms C14.tryGet
#print axioms C14.safeGet
#print axioms C14.safeGetOr
#print axioms C14.last
#print axioms C14.keys
#print axioms C14.values
#print axioms C14.keyOf
#print axioms C14.containsValue
#print axioms C14.hasKey
#print axioms C14.mclear
#print axioms C14.mclone
