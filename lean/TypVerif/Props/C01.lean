import TypVerif.Lemmas.AvlRefine
import TypVerif.Lemmas.AvlCost
/-
C01 — the AVL tree is a sorted multiset under every history of Add / Remove / Clear / Clone.
Model: `Model/Avl.lean` (mirror of /repo/avl/avl.go); specification: `Spec/Avl.lean`.
Not stated here (decided by correspondence only, DESIGN §6): the clone shares no state with the original.
-/
namespace C01
open TypVerif.Model.Avl TypVerif.Model.Avl.Node TypVerif.Spec.Avl TypVerif.Lemmas.Avl

variable {α ι : Type} [DecidableEq α]

/-- example tree `2(1,3)` used for non-vacuity -/
def ex3 : Node Int := mk (leaf 1) 2 (leaf 3)
theorem ex3_bst : BST natCmp ex3 := by
  simp [ex3, mk, leaf, BST, natCmp]
def exTree : Tree Int := { compare := natCmp, root := ex3, count := 3 }

/-- `add` adds exactly one occurrence of `x` to the multiset of the in-order walk (no hypothesis needed). -/
theorem inorder_add (cmp : α → α → Int) (x : α) (t : Node α) :
    (inorder (add cmp x t)).Perm (x :: inorder t) :=
  inorder_add_perm cmp x t

/-- … and on a search tree it is the ordered insertion of the specification. -/
theorem inorder_add_eq {cmp : α → α → Int} (ok : CmpOK cmp) (x : α) (t : Node α) (ht : BST cmp t) :
    inorder (add cmp x t) = sinsert cmp x (inorder t) :=
  TypVerif.Lemmas.Avl.inorder_add_eq ok x t ht
example : inorder (add natCmp 2 ex3) = sinsert natCmp 2 (inorder ex3) := inorder_add_eq natCmp_ok 2 ex3 ex3_bst

/-- `add` preserves the (non-strict) search-tree invariant, i.e. sortedness of the in-order walk. -/
theorem sorted_add {cmp : α → α → Int} (ok : CmpOK cmp) (x : α) (t : Node α) (ht : BST cmp t) :
    BST cmp (add cmp x t) ∧ Sorted cmp (inorder (add cmp x t)) :=
  ⟨bst_add ok x t ht, (bst_iff_sorted ok _).mp (bst_add ok x t ht)⟩
example : BST natCmp (add natCmp 2 ex3) ∧ Sorted natCmp (inorder (add natCmp 2 ex3)) :=
  sorted_add natCmp_ok 2 ex3 ex3_bst

/-- `contains` (Go: `find(..) != nil`) is membership in the in-order walk. -/
theorem find_iff {cmp : α → α → Int} (ok : CmpOK cmp) (x : α) (t : Node α) (ht : BST cmp t) :
    contains cmp x t = true ↔ x ∈ inorder t :=
  contains_iff ok x t ht
example : contains natCmp 3 ex3 = true ↔ 3 ∈ inorder ex3 := find_iff natCmp_ok 3 ex3 ex3_bst

/-- Remove of a present value: returns true, deletes exactly one occurrence, the rest stays a sorted search tree. -/
theorem remove_present {cmp : α → α → Int} (ok : CmpOK cmp) (x : α) (t : Node α) (ht : BST cmp t)
    (hx : x ∈ inorder t) :
    ∃ t', remove cmp x t = (t', true) ∧ (x :: inorder t').Perm (inorder t) ∧ BST cmp t' ∧
      inorder t' = (inorder t).erase x := by
  have h2 : (remove cmp x t).2 = true := by
    rw [remove_snd_eq_contains]; exact (contains_iff ok x t ht).mpr hx
  obtain ⟨A, B, e1, e2⟩ := remove_true cmp x t h2
  have hs := (bst_iff_sorted ok t).mp ht
  have hsub : (A ++ B).Sublist (inorder t) := by
    rw [e1]; exact List.Sublist.append_left (List.sublist_cons_self x B) A
  have hsAB : Sorted cmp (A ++ B) := List.Pairwise.sublist hsub hs
  have hsE : Sorted cmp ((inorder t).erase x) := List.Pairwise.sublist List.erase_sublist hs
  have p1 : (x :: (A ++ B)).Perm (inorder t) := by rw [e1]; exact List.perm_middle.symm
  have hperm : (A ++ B).Perm ((inorder t).erase x) := List.Perm.cons_inv (p1.trans (List.perm_cons_erase hx))
  refine ⟨(remove cmp x t).1, ?_, ?_, ?_, ?_⟩
  · rw [← h2]
  · rw [e2]; exact p1
  · rw [bst_iff_sorted ok, e2]; exact hsAB
  · rw [e2]; exact sorted_unique ok hsAB hsE hperm
example : ∃ t', remove natCmp 2 ex3 = (t', true) ∧ (2 :: inorder t').Perm (inorder ex3) ∧ BST natCmp t' ∧
    inorder t' = (inorder ex3).erase 2 := remove_present natCmp_ok 2 ex3 ex3_bst (by decide)

/-- Remove of an absent value returns false and the very same tree (no hypothesis on the tree needed). -/
theorem remove_absent (cmp : α → α → Int) (x : α) (t : Node α) (hx : x ∉ inorder t) :
    remove cmp x t = (t, false) := by
  have h2 : (remove cmp x t).2 = false := by
    cases h : (remove cmp x t).2
    · rfl
    · obtain ⟨A, B, e1, _⟩ := remove_true cmp x t h
      exact absurd (by rw [e1]; simp) hx
  have h1 := remove_false cmp x t h2
  exact Prod.ext h1 h2
example : remove natCmp 7 ex3 = (ex3, false) := remove_absent natCmp 7 ex3 (by decide)

/-- `Tree.Remove` of an absent value: false, and the tree (Len included) is unchanged. -/
theorem Remove_absent (t : Tree α) (x : α) (hx : x ∉ inorder t.root) : t.Remove x = (t, false) := by
  unfold Tree.Remove
  split
  · rfl
  · rw [remove_absent t.compare x t.root hx]
    cases t; rfl
example : exTree.Remove 7 = (exTree, false) := Remove_absent exTree 7 (by decide)

/-- `Tree.Remove` of a present value: true, Len decreases by exactly one. -/
theorem Remove_present (t : Tree α) (ok : CmpOK t.compare) (ht : BST t.compare t.root) (x : α)
    (hx : x ∈ inorder t.root) :
    (t.Remove x).2 = true ∧ (t.Remove x).1.count = t.count - 1 ∧
      inorder (t.Remove x).1.root = (inorder t.root).erase x := by
  obtain ⟨t', e, _, _, e3⟩ := remove_present ok x t.root ht hx
  refine ⟨by rw [Remove_snd, e], by rw [Remove_count, e]; rfl, by rw [Remove_root, e]; exact e3⟩
example : (exTree.Remove 2).2 = true ∧ (exTree.Remove 2).1.count = exTree.count - 1 ∧
    inorder (exTree.Remove 2).1.root = (inorder exTree.root).erase 2 :=
  Remove_present exTree natCmp_ok ex3_bst 2 (by decide)

omit [DecidableEq α] in
/-- Two sorted lists with the same multiset are equal: "lists exactly the multiset, in order" is an equality. -/
theorem sorted_unique {cmp : α → α → Int} (ok : CmpOK cmp) {l1 l2 : List α} (s1 : Sorted cmp l1)
    (s2 : Sorted cmp l2) (p : l1.Perm l2) : l1 = l2 :=
  TypVerif.Lemmas.Avl.sorted_unique ok s1 s2 p
example : ([1, 2, 2] : List Int) = [1, 2, 2] :=
  sorted_unique natCmp_ok (l1 := [1, 2, 2]) (l2 := [1, 2, 2]) (by simp [Sorted, natCmp]) (by simp [Sorted, natCmp])
    (List.Perm.refl _)

/-- For every history (several trees, any of the comparators of a family of total orders), the model's outputs —
Remove's Boolean, Contains, Len, SliceInOrder — equal the specification's outputs at every position. -/
theorem refines {cmps : ι → α → α → Int} (ok : ∀ c, CmpOK (cmps c)) (ops : List (Op ι α)) :
    (runModel cmps ops).2 = (runSpec cmps ops).2 :=
  (TypVerif.Lemmas.Avl.refines ok ops).1
example (ops : List (Op Int Int)) : (runModel cmpOfId ops).2 = (runSpec cmpOfId ops).2 := refines cmpOfId_ok ops

/-- every reachable tree is related to its abstract sorted list -/
theorem reachable_rel {cmps : ι → α → α → Int} (ok : ∀ c, CmpOK (cmps c)) (ops : List (Op ι α)) (h : Nat)
    (t : Tree α) (ht : (runModel cmps ops).1.get h = some t) :
    ∃ s, (runSpec cmps ops).1.get h = some s ∧ Rel cmps t s := by
  have hw := (TypVerif.Lemmas.Avl.refines ok ops).2 h
  rw [ht] at hw
  cases hs : (runSpec cmps ops).1.get h with
  | none => rw [hs] at hw; exact absurd hw (by simp [ORel])
  | some s => rw [hs] at hw; exact ⟨s, rfl, hw⟩

/-- In every reachable state `count` (= Len) is the number of elements of the in-order walk. -/
theorem count_eq {cmps : ι → α → α → Int} (ok : ∀ c, CmpOK (cmps c)) (ops : List (Op ι α)) (h : Nat)
    (t : Tree α) (ht : (runModel cmps ops).1.get h = some t) : t.count = (inorder t.root).length := by
  obtain ⟨s, _, r⟩ := reachable_rel ok ops h t ht
  rw [r.cnt, r.ino]
example (ops : List (Op Int Int)) (h : Nat) (t : Tree Int) (ht : (runModel cmpOfId ops).1.get h = some t) :
    t.count = (inorder t.root).length := count_eq cmpOfId_ok ops h t ht
example : (runModel cmpOfId [Op.new 0 (0 : Int), Op.add 0 (5 : Int)]).1.get 0 ≠ none := by decide

/-- `slice`'s `make([]T, 0, n.count)` never panics in a reachable state: the three `Slice*` return their lists. -/
theorem slices_no_panic {cmps : ι → α → α → Int} (ok : ∀ c, CmpOK (cmps c)) (ops : List (Op ι α)) (h : Nat)
    (t : Tree α) (ht : (runModel cmps ops).1.get h = some t) :
    t.SlicePreOrderE = .ok t.SlicePreOrder ∧ t.SliceInOrderE = .ok t.SliceInOrder ∧
      t.SlicePostOrderE = .ok t.SlicePostOrder := by
  have hc := count_eq ok ops h t ht
  have : ¬ t.count < 0 := by omega
  simp [Tree.SlicePreOrderE, Tree.SliceInOrderE, Tree.SlicePostOrderE, Tree.sliceE, this]

/-- In every reachable state the in-order walk is non-decreasing (and the tree is a search tree). -/
theorem sorted {cmps : ι → α → α → Int} (ok : ∀ c, CmpOK (cmps c)) (ops : List (Op ι α)) (h : Nat)
    (t : Tree α) (ht : (runModel cmps ops).1.get h = some t) :
    Sorted t.compare (inorder t.root) ∧ BST t.compare t.root := by
  obtain ⟨s, _, r⟩ := reachable_rel ok ops h t ht
  have okc : CmpOK t.compare := by rw [r.cmp_eq]; exact ok _
  exact ⟨(bst_iff_sorted okc _).mp r.bst, r.bst⟩
example (ops : List (Op Int Int)) (h : Nat) (t : Tree Int) (ht : (runModel cmpOfId ops).1.get h = some t) :
    Sorted t.compare (inorder t.root) ∧ BST t.compare t.root := sorted cmpOfId_ok ops h t ht

omit [DecidableEq α] in
/-- The three slices (and the three callback walks) are the pre-, in- and post-order of one and the same
binary tree — the model tree with the cached heights erased. -/
theorem traversals (t : Tree α) :
    ∃ b : BinTree α, t.SlicePreOrder = b.pre ∧ t.SliceInOrder = b.ino ∧ t.SlicePostOrder = b.post ∧
      (∀ (σ : Type) (f : σ → α → σ) (s : σ),
        t.WalkPreOrder f s = b.pre.foldl f s ∧ t.WalkInOrder f s = b.ino.foldl f s ∧
        t.WalkPostOrder f s = b.post.foldl f s) := by
  refine ⟨erase t.root, ?_, ?_, ?_, ?_⟩
  · rw [SlicePreOrder_eq, erase_pre]
  · rw [SliceInOrder_eq, erase_ino]
  · rw [SlicePostOrder_eq, erase_post]
  · intro σ f s
    refine ⟨by rw [WalkPreOrder_eq, erase_pre], ?_, ?_⟩
    · unfold Tree.WalkInOrder; split
      · rename_i h; rw [isNil_eq_true.mp h]; rfl
      · rw [walkInOrder_eq, erase_ino]
    · unfold Tree.WalkPostOrder; split
      · rename_i h; rw [isNil_eq_true.mp h]; rfl
      · rw [walkPostOrder_eq, erase_post]

/-- Clone of a well-formed tree of any size: same contents in the same order, same Len, same comparator. -/
theorem clone (t : Tree α) (ok : CmpOK t.compare) (hb : BST t.compare t.root)
    (hc : t.count = (inorder t.root).length) :
    inorder t.Clone.root = inorder t.root ∧ t.Clone.count = t.count ∧ t.Clone.compare = t.compare ∧
      BST t.Clone.compare t.Clone.root := by
  obtain ⟨h1, h2, h3, h4⟩ := Clone_spec ok t rfl hb
  exact ⟨h3, by rw [h4, hc], h1, by rw [h1]; exact h2⟩
example : inorder exTree.Clone.root = inorder exTree.root ∧ exTree.Clone.count = exTree.count ∧
    exTree.Clone.compare = exTree.compare ∧ BST exTree.Clone.compare exTree.Clone.root :=
  clone exTree natCmp_ok ex3_bst (by decide)

end C01
