import TypVerif.Gen.Pool
import TypVerif.Gen.AtomicValueCalls
import TypVerif.Gen.PoolCalls
import TypVerif.Model.Pool
import TypVerif.Props.C18
/-
C18, tie 4B: the set of plain stores to receiver-reachable state inside `Pool.Get` / `Pool.Put` is REGENERATED from
sync2/pool.go on every run.  The model's `accesses` function has a switch `pinned` ("Get assigns p.pool.New", the
behaviour of the code before the repair); the race-freedom theorem is stated for the switch position that the
regenerated facts dictate, so re-introducing a plain store in Get or Put makes these theorems fail to re-check.
-/
namespace C18
open TypVerif TypVerif.Conc TypVerif.Model.Pool

/-- does the regenerated code write shared state in Get or Put? -/
def genPinned : Bool := !(Gen.Pool.getWrites.isEmpty && Gen.Pool.putWrites.isEmpty)

/-- the current source performs no plain store to state reachable from the receiver in `Get` or `Put` -/
theorem gen_pool_no_plain_stores : Gen.Pool.getWrites = [] ∧ Gen.Pool.putWrites = [] := by
  constructor <;> rfl

/-- race freedom of the model instantiated with the regenerated access facts -/
theorem gen_pool_race_free {hasNew : Bool} {menu : List Op} {n : Nat} {s : State}
    (h : Reachable (sys hasNew menu n) s) : ¬ racy genPinned s := by
  have hp : genPinned = false := by
    unfold genPinned; rw [gen_pool_no_plain_stores.1, gen_pool_no_plain_stores.2]; rfl
  rw [hp]; exact pool_race_free h

/-! The call shape of every method of `sync2/atomicvalue.go` and `sync2/pool.go`, regenerated from the source on every run: each
`AtomicValue` method is ONE call on the wrapped `atomic.Value` (plus `typ.Zero` for the empty register), `Pool.Put` is one `sync.Pool.Put`,
`Pool.Get` one `sync.Pool.Get` plus `New` — what `Model/AtomicValue.lean` / `Model/Pool.lean` assume when they take `atomic.Value` and
`sync.Pool` by contract (one atomic action per call).  A fast path that reads the register before writing it, a second access, or a
side table next to the pool changes these lists and breaks the `rfl`s. -/

theorem gen_atomicvalue_is_one_atomic_call :
    Gen.AtomicValueCalls.methods =
      [("AtomicValue.CompareAndSwap", ["v.atom.CompareAndSwap"]),
       ("AtomicValue.Load", ["v.atom.Load", "typ.Zero[T]"]),
       ("AtomicValue.Store", ["v.atom.Store"]),
       ("AtomicValue.Swap", ["v.atom.Swap", "typ.Zero[T]"])] := rfl

theorem gen_pool_is_the_wrapped_pool :
    Gen.PoolCalls.methods = [("Pool.Get", ["p.pool.Get", "p.New"]), ("Pool.Put", ["p.pool.Put"])] := rfl

end C18
