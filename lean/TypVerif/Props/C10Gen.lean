import TypVerif.Gen.LockDiscipline
import TypVerif.Gen.PubSubCalls
/-
C10, tie 4B: the lock discipline of `chans/pubsub.go` is REGENERATED from the source on every run: every access to the subscriber
list `o.subs` through the method receiver lies in a region where `o.mutex` is held (read- or write-locked), and the helper
`subIndex` is only called with it held; and every `close(...)` of a subscriber channel lies in a WRITE-locked region
(so a close can never overlap a publish, which sends under the read lock — the reason `C10.sync_exactly_once_in_order` may treat
"send to every current subscriber" and "close and remove" as atomic with respect to each other).  This is the static counterpart of the model's "subs is read under the read lock and
written under the write lock" (the transition system of `Model/PubSub.lean`).
-/
namespace C10

theorem gen_subs_under_lock :
    Gen.LockDiscipline.pubsubViolations = [] ∧ 0 < Gen.LockDiscipline.pubsubGuardedAccesses := ⟨rfl, by decide⟩

/-- **The synchronisation skeleton of every method of `pubsub.go`**, regenerated from the source on every run — lock calls, goroutine starts,
deferred calls, WaitGroup calls, sends and closes in source order — is the task structure of `Model/PubSub.lean`:
`Pub`/`PubSlice` take the read lock, start one `sendAsync` goroutine per (event, subscriber) and release it (`pubStart → pubRet` + `asyncStart` tasks);
`sendAsync` takes the read lock itself, re-checks `subIndex`, sends, releases on return (`asyncStart → asyncSend → done`);
`PubWait`/`PubSliceWait` add to a WaitGroup under the read lock, start `sendWaitGroup` goroutines (send, `Done`) and `Wait` before releasing (`waitWg`, `wgSend`);
`PubSync`/`PubSliceSync` send under the read lock (`syncLoop`); `send` is `SendTimeout` then the timeout callback;
`Sub`/`SubBuf`/`Unsub`/`UnsubAll` work under the write lock and `close` there.  A method that re-takes a lock, sends outside it, or drops the re-check
changes this list. -/
theorem gen_methods_are_the_models :
    Gen.PubSubCalls.methods =
      [("PubSub.Pub", ["o.mutex.RLock", "go o.sendAsync", "o.mutex.RUnlock"]),
       ("PubSub.PubSlice", ["o.mutex.RLock", "go o.sendAsync", "o.mutex.RUnlock"]),
       ("PubSub.PubWait", ["o.mutex.RLock", "wg.Add", "len", "go o.sendWaitGroup", "wg.Wait", "o.mutex.RUnlock"]),
       ("PubSub.PubSliceWait", ["o.mutex.RLock", "wg.Add", "len", "len", "go o.sendWaitGroup", "wg.Wait", "o.mutex.RUnlock"]),
       ("PubSub.PubSync", ["o.mutex.RLock", "o.send", "o.mutex.RUnlock"]),
       ("PubSub.PubSliceSync", ["o.mutex.RLock", "o.send", "o.mutex.RUnlock"]),
       ("PubSub.send", ["SendTimeout", "onTimeout"]),
       ("PubSub.sendAsync", ["o.mutex.RLock", "defer o.mutex.RUnlock", "o.subIndex", "o.send"]),
       ("PubSub.sendWaitGroup", ["o.send", "wg.Done"]),
       ("PubSub.WithOnly", ["o.mutex.RLock", "append", "o.mutex.RUnlock"]),
       ("PubSub.Sub", ["o.mutex.Lock", "make", "append", "o.mutex.Unlock"]),
       ("PubSub.SubBuf", ["o.mutex.Lock", "make", "append", "o.mutex.Unlock"]),
       ("PubSub.Unsub", ["o.mutex.Lock", "defer o.mutex.Unlock", "o.subIndex", "close", "append"]),
       ("PubSub.UnsubAll", ["o.mutex.Lock", "close", "o.mutex.Unlock"]),
       ("PubSub.subIndex", [])] := rfl

end C10
