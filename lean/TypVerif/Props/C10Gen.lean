import TypVerif.Gen.LockDiscipline
/-
C10, tie 4B: the lock discipline of `chans/pubsub.go` is REGENERATED from the source on every run: every access to the subscriber
list `o.subs` through the method receiver lies in a region where `o.mutex` is held (read- or write-locked), and the helper
`subIndex` is only called with it held; and every `close(...)` of a subscriber channel lies in a WRITE-locked region
(so a close can never overlap a publish, which sends under the read lock — the reason `C10.sync_exactly_once_in_order` may treat
"send to every current subscriber" and "close and remove" as atomic with respect to each other).  This is the static counterpart of the model's "subs is read under the read lock and
written under the write lock" (the transition system of `Model/PubSub.lean`).
-/
namespace C10

theorem gen_subs_under_lock :
    Gen.LockDiscipline.pubsubViolations = [] ∧ 0 < Gen.LockDiscipline.pubsubGuardedAccesses := ⟨rfl, by decide⟩

end C10
