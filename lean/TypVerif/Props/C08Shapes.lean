import TypVerif.Gen.Array2DShapes
/-
C08, tie 4B — GOLDEN FUNCTION SHAPES (written by tools/mkshapes.py; do not edit by hand).  For every function of the source files this property's model mirrors,
the extractor regenerates on every run: its calls, its stores through selectors / indices / pointers, its conditions and loop headers, its select cases and
its return expressions, in source order.  The theorems below state that these equal the shapes of the tree the model was written against.  They are the STATIC,
all-paths complement of the differential runs: a guard dropped, a fast path or a threshold added, an early return, a changed comparison or a different callee
on ANY path - also one that no generated input happens to take - changes the regenerated list and breaks the `rfl`.  A broken shape theorem is reported like a
broken proof (with a failing input when the search finds one, else `no-failing-input-found`); after a deliberate change of the source the changed functions are
re-read against the model and this file is regenerated.
-/
namespace C08

/-- arrays/array2d.go: 14 function(s) -/
theorem gen_shapes_array2d :
    Gen.Array2DShapes.funcs =
      [("New2D", ["return Array2D[T]{…}", "call make"]),
       ("New2DFilled", ["call make", "call slices.Fill", "return Array2D[T]{…}"]),
       ("New2DFromJagged", ["call New2D[E]", "range jagged", "if y >= height", "break", "call copy", "call arr.Row", "return arr"]),
       ("Array2D.String", ["call sb.WriteByte", "for y < a.height", "if y > 0", "call sb.WriteByte", "call sb.WriteByte", "for x < a.width", "if x > 0", "call sb.WriteByte", "call fmt.Fprint", "call a.getUnchecked", "call sb.WriteByte", "call sb.WriteByte", "return sb.String()", "call sb.String"]),
       ("Array2D.Get", ["if x < 0 || x >= a.width", "call panic", "call fmt.Sprintf", "if y < 0 || y >= a.height", "call panic", "call fmt.Sprintf", "return a.getUnchecked(x, y)", "call a.getUnchecked"]),
       ("Array2D.getUnchecked", ["return a.slice[x + y * a.width]"]),
       ("Array2D.Set", ["if x < 0 || x >= a.width", "call panic", "call fmt.Sprintf", "if y < 0 || y >= a.height", "call panic", "call fmt.Sprintf", "call a.setUnchecked"]),
       ("Array2D.setUnchecked", ["store a.slice[x + y * a.width]"]),
       ("Array2D.Width", ["return a.width"]),
       ("Array2D.Height", ["return a.height"]),
       ("Array2D.Clone", ["call make", "call len", "call copy", "return Array2D[T]{…}"]),
       ("Array2D.RowSpan", ["if x1 < 0 || x1 >= a.width", "call panic", "call fmt.Sprintf", "if y < 0 || y >= a.height", "call panic", "call fmt.Sprintf", "if x2 < 0 || x2 >= a.width", "call panic", "call fmt.Sprintf", "return a.slice[x1 + y * a.width:1 + x2 + y * a.width]"]),
       ("Array2D.Row", ["if y < 0 || y >= a.height", "call panic", "call fmt.Sprintf", "return a.slice[y * a.width:a.width + y * a.width]"]),
       ("Array2D.Fill", ["if x1 < 0 || x1 >= a.width", "call panic", "call fmt.Sprintf", "if y1 < 0 || y1 >= a.height", "call panic", "call fmt.Sprintf", "if x2 < 0 || x2 >= a.width", "call panic", "call fmt.Sprintf", "if y2 < 0 || y2 >= a.height", "call panic", "call fmt.Sprintf", "if x2 < x1", "if y2 < y1", "call slices.Fill", "for y <= y2", "call copy"])] := rfl

end C08
