import TypVerif.Lemmas.ConcAccept
import TypVerif.Lemmas.ConcAcceptC17
import TypVerif.Lemmas.ConcAcceptC17Drv
import TypVerif.Props.C17
/-
C17 — ACCEPTANCE IS SOUND: a real event trace that the judge `Drv/C17.lean` accepts is the visible trace of an execution of `Model.Once.sys`
(the judge steps the reduced system `red` and grows the number of goroutines as it reads the trace); hence every theorem of `Props/C17*.lean`,
which quantify over ALL executions, applies to that real run — in particular `Spec.Once.holds` (`judge_lines_accepted_spec`).
The generic acceptor (`Conc.tauClosure / stepEvent / after / accepts`, used by several judges) is proved sound in `Lemmas/ConcAccept.lean`
(`Conc.accepts_sound`).  Soundness only: that the acceptor loses no trace of the model is not claimed.
-/
namespace C17
open TypVerif TypVerif.Conc TypVerif.Model.Once TypVerif.Drv.C17

/-- every step of the reduced system the judge runs is a finite sequence of steps of the model, same visible label -/
theorem red_step_sound (n arity : Nat) (res : Nat → List Int) (s s' : State) (l : Option Event)
    (h : (l, s') ∈ (red n arity res).succ s) :
    ∃ ls, Exec (Model.Once.sys n arity res) s ls s' ∧
      visible ls = (match (generalizing := false) l with | some e => [e] | none => []) :=
  Lemmas.ConcAcceptC17.red_step_sound n arity res s s' l h

/-- `pick` evaluates urgent steps with the result function `fun _ => []` instead of `res`: no difference -/
theorem urgent_step_ignores_res (res res' : Nat → List Int) (s : State) (t : Nat) (h : urgent s t = true) :
    stepT res s t = stepT res' s t :=
  Lemmas.ConcAcceptC17.stepT_urgent_res res res' s t h

theorem judge_accept_sound (n arity : Nat) (res : Nat → List Int) (fuel : Nat) (tr : List Event)
    (h : Conc.accepts (red n arity res) fuel tr = true) :
    ∃ ls s, Exec (Model.Once.sys n arity res) (Model.Once.sys n arity res).init ls s ∧ visible ls = tr := by
  obtain ⟨ls', s, hex, hv⟩ := Conc.accepts_sound (red n arity res) fuel tr h
  obtain ⟨ls, hex', hv'⟩ := Lemmas.ConcAcceptC17.red_exec_sound n arity res hex
  exact ⟨ls, s, hex', hv'.trans hv⟩

/-- the point: a trace accepted by the judge's acceptor satisfies the history specification (via `C17.spec_holds`) -/
theorem accepted_trace_spec (n arity : Nat) (res : Nat → List Int) (fuel : Nat) (tr : List Event)
    (h : Conc.accepts (red n arity res) fuel tr = true) : Spec.Once.holds tr = true := by
  obtain ⟨ls, s, hex, hv⟩ := judge_accept_sound n arity res fuel tr h
  rw [← hv]
  exact C17.spec_holds hex

example : Conc.accepts (red 2 2 demoRes) 64 demoTrace = true := by decide

/-! The driver itself (`Drv.C17.step`) does not run `Conc.accepts (red n arity res)` for fixed `n`, `res`: per event it
enlarges `n` (padding its states with idle goroutines) and picks `res` from the event (`fun _ => r` on `fend _ r`).
`Lemmas.ConcAcceptC17.jstep`/`jfold` is that fold on the model-state set; `runLines` is the fold of `step` itself. -/
open TypVerif.Lemmas.ConcAcceptC17 in
/-- the fold the driver really performs is sound: `N` = the final number of goroutines, `res t` = the result of the first
`fend t _` of the trace (an accepted trace has at most one per goroutine) -/
theorem driver_accept_sound (arity fuel : Nat) (tr : List Event) (h : (jfold arity fuel tr).ss ≠ []) :
    ∃ (ls : List (Option Event)) (s : State),
      Exec (Model.Once.sys (jfold arity fuel tr).n arity (resFirst tr))
        (Model.Once.sys (jfold arity fuel tr).n arity (resFirst tr)).init ls s ∧ visible ls = tr :=
  driver_accept_sound_explicit arity fuel tr h

open TypVerif.Lemmas.ConcAcceptC17 TypVerif.Proto in
/-- one event line of the real judge computes exactly `jstep` on the model part -/
theorem judge_step_is_jstep (st : St) (toks : List Val) (impl : String) (e : Event)
    (hp : parseEvent toks = some e) (hst : st.started = true) (hrej : st.rejected = false)
    (harity : arityOk st.arity e = true) :
    (step st toks impl).1.ss = (jstep st.arity closureFuel { n := st.n, ss := st.ss } e).ss ∧
    (step st toks impl).1.n = (jstep st.arity closureFuel { n := st.n, ss := st.ss } e).n :=
  step_model st toks impl e hp hst hrej harity

open TypVerif.Lemmas.ConcAcceptC17 TypVerif.Proto in
/-- the judge itself: after the header `once a` and lines standing for the events `tr` (`lineEvent`: event lines, and
`fpanic t` for `fend t [0,…,0]`), if the judge has not rejected (all model outputs `ok`), `tr` is the visible trace of
an execution of the model from its initial state -/
theorem judge_lines_accept_sound (st0 : St) (a : Int) (impl0 : String) (lines : List (List Val × String))
    (tr : List Event) (hparse : lines.map (fun l => lineEvent a.toNat l.1) = tr.map some)
    (hok : (runLines (step st0 [.w "once", .i a] impl0).1 lines).rejected = false) :
    ∃ (N : Nat) (res : Nat → List Int) (ls : List (Option Event)) (s : State),
      Exec (Model.Once.sys N a.toNat res) (Model.Once.sys N a.toNat res).init ls s ∧ visible ls = tr :=
  Lemmas.ConcAcceptC17.judge_accept_sound st0 a impl0 lines tr hparse hok

open TypVerif.Lemmas.ConcAcceptC17 TypVerif.Proto in
/-- … hence a real trace the judge accepts satisfies the history specification -/
theorem judge_lines_accepted_spec (st0 : St) (a : Int) (impl0 : String) (lines : List (List Val × String))
    (tr : List Event) (hparse : lines.map (fun l => lineEvent a.toNat l.1) = tr.map some)
    (hok : (runLines (step st0 [.w "once", .i a] impl0).1 lines).rejected = false) :
    Spec.Once.holds tr = true := by
  obtain ⟨N, res, ls, s, hex, hv⟩ := judge_lines_accept_sound st0 a impl0 lines tr hparse hok
  rw [← hv]
  exact C17.spec_holds hex

end C17

#print axioms TypVerif.Conc.tauClosure_sound
#print axioms TypVerif.Conc.stepEvent_sound
#print axioms TypVerif.Conc.after_sound
#print axioms TypVerif.Conc.accepts_sound
#print axioms C17.red_step_sound
#print axioms C17.urgent_step_ignores_res
#print axioms C17.judge_accept_sound
#print axioms C17.accepted_trace_spec
#print axioms C17.driver_accept_sound
#print axioms C17.judge_step_is_jstep
#print axioms C17.judge_lines_accept_sound
#print axioms C17.judge_lines_accepted_spec
