import TypVerif.Props.C04range
import TypVerif.Lemmas.SmcRangeTrace
/-
C04, `Range` under every schedule, the TRACE-LEVEL reading that `Props/C04range.lean` leaves unstated:

    a key that is present with the same value `v` in EVERY state of a `Range` call — from the step that takes the
    snapshot up to the return — is passed to the callback, with that value.

Same step-level transition system (`Model/SyncMapConc.lean`), any number of goroutines, any menu, every interleaving.
The states of one call are exposed by `PathAll sys P s s'` ("there is an execution from `s` to `s'` all of whose states,
both ends included, satisfy `P`", `Lemmas/SmcRangeTrace.lean`).

Proof: along the path the invariant `InLoopVisit` holds ("`f(k,v)` has been called, or the pair `(k,e)` of the snapshot
is still to be visited, `e` is `read.m[k]` and `e.p` points to `v`").  It is established by the entering step
(`conc_range_snapshot`: the key is in the snapshot).  A step of another goroutine keeps it because the pair stays
`read.m[k]` unless the entry dies (`conc_range_todo_held`), an entry holding a value cannot die in ONE step (no step of
`map.go` writes `expunged` over a value pointer — `Lemmas.Smc.exec_noExp`, by cases on all 41 program counters; the only
writer of `expunged` is the CAS nil→expunged of `tryExpungeLocked`), and the key still has the value `v` after the step
(hypothesis), so `e.p` still points to `v`.  The goroutine's own steps either move the pair from `todo` to "being
visited" (the snapshot's keys are pairwise distinct, `conc_range_once_loop`) or call `f(k, v)` (`conc_range_value`).
-/
namespace C04
open TypVerif TypVerif.Conc TypVerif.Model TypVerif.Model.SyncMapConc TypVerif.Model.RelObj TypVerif.Lemmas.Smc
open TypVerif.Model.SyncMap (alookup ainsert aerase akeys)

set_option linter.unusedSectionVars false

variable {K V : Type} [DecidableEq K] [DecidableEq V] [Inhabited V]

/-- **No step of `map.go` expunges a value.**  If `e.p` points to a value in `s`, then after ANY single step of ANY
goroutine (any successor of `s`, reachable or not) `e.p` is not `expunged`.
Not claimed: that it still points to a value (a `Delete` may have swapped it to nil). -/
theorem conc_step_no_expunge (menu : List (Op K V)) {s s' : State K V} {l : Option (SyncMapConc.Event K V)}
    (h : (l, s') ∈ succ menu s) {e : EId} (hv : isVal (getP s.sh e) = true) : (getP s'.sh e).isExpunged = false :=
  succ_noExp h e hv

/-- **Present and untouched for the whole call ⇒ visited, in-loop form.**  `s0` is a reachable state in which goroutine
`t` is about to take one of the three steps that enter the `Range` loop (the same three as in `conc_range_snapshot`),
`s1` the state after that step.  If there is an execution from `s1` to `s2` in every state of which (both ends
included) the abstract map (`absOf`, the abstraction under which the model is linearizable) has `k ↦ v` and goroutine
`t` has not yet returned from this call (`pc t ≠ idle`; the steps of the other goroutines are arbitrary), then EVERY
state `s` of that execution is reachable and satisfies the visit invariant:
 * at `rangePick todo acc`: `f(k,v)` has been called (`(k,v) ∈ acc`), or some pair `(k,e)` is still to be visited, `e` is
   `read.m[k]` and `e.p` points to `v`;
 * at `rangeLoad todo acc k' e'`: the same, or `(k', e')`, the pair being visited, is that pair;
 * at `ret (.pairs acc)`: `f(k,v)` has been called;
 * goroutine `t` is at no other program counter. -/
theorem conc_range_untouched_loop (menu : List (Op K V)) (n : Nat) (zst : Bool) {s0 s1 s2 : State K V}
    (h0 : Reachable (sys K V menu n zst) s0) (t : Tid)
    (hent : (s0.pc t = .rangeRead1 ∧ s0.sh.amended = false) ∨ (s0.pc t = .rangeRead2 ∧ s0.sh.amended = false) ∨
      ∃ dm, s0.pc t = .rangeStore dm)
    {sh' : Shared K V} {pc' : Pc K V} (hex : exec s0.sh t (s0.pc t) = some (sh', pc')) (hs1 : s1 = setPc s0 t sh' pc')
    (k : K) (v : V)
    (hpath : PathAll (sys K V menu n zst) (fun s => absOf s.sh k = some v ∧ s.pc t ≠ .idle) s1 s2) :
    PathAll (sys K V menu n zst) (fun s => Reachable (sys K V menu n zst) s ∧
      match s.pc t with
      | .rangePick todo acc =>
        (k, v) ∈ acc ∨ ∃ e, (k, e) ∈ todo ∧ alookup k s.sh.readM = some e ∧ (getP s.sh e).value? = some v
      | .rangeLoad todo acc k' e' =>
        (k, v) ∈ acc ∨ (k' = k ∧ alookup k s.sh.readM = some e' ∧ (getP s.sh e').value? = some v) ∨
          ∃ e, (k, e) ∈ todo ∧ alookup k s.sh.readM = some e ∧ (getP s.sh e).value? = some v
      | .ret (.pairs acc) => (k, v) ∈ acc
      | _ => False) s1 s2 := by
  obtain ⟨a, _, hR⟩ := reachable_R h0
  have hne : s0.pc t ≠ .idle := by
    rcases hent with ⟨h, _⟩ | ⟨h, _⟩ | ⟨dm, h⟩ <;> rw [h] <;> simp
  have hnr : ∀ r, s0.pc t ≠ .ret r := by
    intro r
    rcases hent with ⟨h, _⟩ | ⟨h, _⟩ | ⟨dm, h⟩ <;> rw [h] <;> simp
  have ht : t < s0.pcs.length := lt_length_of_pc_ne_idle hne
  have hm : (none, s1) ∈ succ menu s0 :=
    mem_succ_iff.mpr ⟨t, ht, mem_stepT_iff.mpr (Or.inr (Or.inr ⟨hne, hnr, rfl, Or.inl ⟨sh', pc', hex, hs1⟩⟩))⟩
  have h1 : Reachable (sys K V menu n zst) s1 := Reachable.step h0 hm
  have hI1 : InLoopVisit s1.sh k v (s1.pc t) := by
    have habs := hpath.first.1
    rw [hs1] at habs ⊢
    rw [pc_setPc_self ht]
    exact inLoopVisit_entry hR hent hex habs
  have hstep : ∀ (s : State K V) (l : Option (SyncMapConc.Event K V)) (s' : State K V),
      Reachable (sys K V menu n zst) s → (absOf s.sh k = some v ∧ s.pc t ≠ .idle) → InLoopVisit s.sh k v (s.pc t) →
      (l, s') ∈ (sys K V menu n zst).succ s → (absOf s'.sh k = some v ∧ s'.pc t ≠ .idle) →
      InLoopVisit s'.sh k v (s'.pc t) := by
    intro s l s' hr _ hI hmem hP'
    obtain ⟨b, _, hRs⟩ := reachable_R hr
    obtain ⟨b', _, hRs'⟩ := reachable_R (Reachable.step hr hmem)
    exact inLoopVisit_step hRs hRs' hmem hI hP'.1 hP'.2
  exact (PathAll.strengthen (sys := sys K V menu n zst) hstep hpath h1 hI1).mono (fun s h => ⟨h.1, h.2.2⟩)

/-- **Present and untouched for the whole call ⇒ passed to `f` with that value.**  With `s0`, `s1` as above: if there is
an execution from `s1` to a state `s2` in which goroutine `t` is about to return from `Range` with the callback sequence
`l`, and in every state of that execution (both ends included) the abstract map has `k ↦ v` and goroutine `t` is still
inside the call, then `f` was called with `(k, v)`: `(k, v) ∈ l`.
Claimed: for every schedule of the other goroutines (they may store, delete, promote, expunge other keys; they may even
store `v` again under `k`).  Not claimed: anything for a key whose value changes, or that is absent in some state of
the call (`conc_range_value` / `conc_range_skip` say what happens then); nothing about the order of `l`. -/
theorem conc_range_untouched (menu : List (Op K V)) (n : Nat) (zst : Bool) {s0 s1 s2 : State K V}
    (h0 : Reachable (sys K V menu n zst) s0) (t : Tid)
    (hent : (s0.pc t = .rangeRead1 ∧ s0.sh.amended = false) ∨ (s0.pc t = .rangeRead2 ∧ s0.sh.amended = false) ∨
      ∃ dm, s0.pc t = .rangeStore dm)
    {sh' : Shared K V} {pc' : Pc K V} (hex : exec s0.sh t (s0.pc t) = some (sh', pc')) (hs1 : s1 = setPc s0 t sh' pc')
    (k : K) (v : V)
    (hpath : PathAll (sys K V menu n zst) (fun s => absOf s.sh k = some v ∧ s.pc t ≠ .idle) s1 s2)
    {l : List (K × V)} (hret : s2.pc t = .ret (.pairs l)) :
    (k, v) ∈ l := by
  have h := (conc_range_untouched_loop menu n zst h0 t hent hex hs1 k v hpath).last.2
  rw [hret] at h
  exact h

/-! Non-vacuity: the hypotheses of `conc_range_untouched` (and of `conc_range_untouched_loop`) are satisfiable, with a
second goroutine writing the map during the call.  Two goroutines, menu `Store(1,5)`, `Range`, `Store(2,7)`;
`runSched` replays a schedule (index of the successor taken at each step), `checkPath` replays it checking every
visited state (`pathAll_of_checkPath`). -/

private abbrev sysTr : Sys := sys Int Int [.store 1 5, .range, .store 2 7] 2 false
/-- goroutine 0: `Store(1,5)` (8 steps), then `Range` up to `Range.readStore1` (the inline promotion) -/
private abbrev schedEnter : List Nat := [0, 0, 0, 0, 0, 0, 0, 0] ++ [1, 0, 0, 0, 0]
/-- from the state after the promotion: goroutine 1 runs `Store(2,7)` through `dirtyLocked` up to `Store.readStore1`
(8 steps), goroutine 0 picks `(1, e0)`, goroutine 1 publishes the amended `read`, adds the new entry and returns
(2 steps), goroutine 0 loads `e0.p` and calls `f(1,5)` -/
private abbrev schedCall : List Nat := [3, 1, 1, 1, 1, 1, 1, 1] ++ [0] ++ [1, 1] ++ [0]

/-- entering by `Range.readStore1`; during the call goroutine 1 stores the DIFFERENT key 2 (taking the slow path:
`dirtyLocked`, `read.Store(amended)`, new dirty entry); key 1 has the value 5 in all 13 states of the call; goroutine 0
ends at `ret (.pairs [(1,5)])` in a state where key 2 is present -/
example : ∃ (s0 s1 s2 : State Int Int) (sh' : Shared Int Int) (pc' : Pc Int Int) (l : List (Int × Int)),
    Reachable sysTr s0 ∧ (∃ dm, s0.pc 0 = .rangeStore dm) ∧ exec s0.sh 0 (s0.pc 0) = some (sh', pc') ∧
    s1 = setPc s0 0 sh' pc' ∧
    PathAll sysTr (fun s => absOf s.sh 1 = some 5 ∧ s.pc 0 ≠ .idle) s1 s2 ∧
    s2.pc 0 = .ret (.pairs l) ∧ absOf s1.sh 2 = none ∧ absOf s2.sh 2 = some 7 :=
  ⟨runSched sysTr schedEnter sysTr.init, runSched sysTr (schedEnter ++ [0]) sysTr.init,
    runSched sysTr schedCall (runSched sysTr (schedEnter ++ [0]) sysTr.init),
    (runSched sysTr (schedEnter ++ [0]) sysTr.init).sh, (runSched sysTr (schedEnter ++ [0]) sysTr.init).pc 0, [(1, 5)],
    reachable_runSched _ Reachable.init, ⟨[(1, 0)], by decide⟩, by decide, by decide,
    (pathAll_of_checkPath (sys := sysTr) (fun s => decide (absOf s.sh 1 = some 5 ∧ s.pc 0 ≠ .idle)) schedCall
      (by decide)).mono (fun _ h => of_decide_eq_true h),
    by decide, by decide, by decide⟩

/-- entering by the fast path `Range.readLoad1` (`read` not amended: a first `Range` has promoted), one goroutine -/
example : ∃ (s0 s1 s2 : State Int Int) (sh' : Shared Int Int) (pc' : Pc Int Int) (l : List (Int × Int)),
    Reachable sysTr s0 ∧ (s0.pc 0 = .rangeRead1 ∧ s0.sh.amended = false) ∧
    exec s0.sh 0 (s0.pc 0) = some (sh', pc') ∧ s1 = setPc s0 0 sh' pc' ∧
    PathAll sysTr (fun s => absOf s.sh 1 = some 5 ∧ s.pc 0 ≠ .idle) s1 s2 ∧ s2.pc 0 = .ret (.pairs l) :=
  ⟨runSched sysTr (schedEnter ++ [0, 0, 0, 0] ++ [1, 0]) sysTr.init,
    runSched sysTr (schedEnter ++ [0, 0, 0, 0] ++ [1, 0] ++ [0]) sysTr.init,
    runSched sysTr [0, 0] (runSched sysTr (schedEnter ++ [0, 0, 0, 0] ++ [1, 0] ++ [0]) sysTr.init),
    (runSched sysTr (schedEnter ++ [0, 0, 0, 0] ++ [1, 0] ++ [0]) sysTr.init).sh,
    (runSched sysTr (schedEnter ++ [0, 0, 0, 0] ++ [1, 0] ++ [0]) sysTr.init).pc 0, [(1, 5)],
    reachable_runSched _ Reachable.init, ⟨by decide, by decide⟩, by decide, by decide,
    (pathAll_of_checkPath (sys := sysTr) (fun s => decide (absOf s.sh 1 = some 5 ∧ s.pc 0 ≠ .idle)) [0, 0]
      (by decide)).mono (fun _ h => of_decide_eq_true h),
    by decide⟩

/-- `conc_step_no_expunge`: a reachable state with an entry holding a value, and a successor -/
example : ∃ (s s' : State Int Int) (l : Option (SyncMapConc.Event Int Int)),
    Reachable sysTr s ∧ (l, s') ∈ succ [.store 1 5, .range, .store 2 7] s ∧ isVal (getP s.sh 0) = true :=
  ⟨runSched sysTr schedEnter sysTr.init, runSched sysTr (schedEnter ++ [0]) sysTr.init, none,
    reachable_runSched _ Reachable.init, by decide, by decide⟩

end C04
