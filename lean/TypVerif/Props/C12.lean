import TypVerif.Lemmas.SpliceRemove
import TypVerif.Lemmas.SpliceAlloc
import TypVerif.Lemmas.SpliceExamples
/-
C12: "Insert, InsertSlice, Remove and RemoveSlice turn the slice into exactly the sequence obtained by splicing the
given value(s) in or out at the given position, for every valid position (0..len for insertions, index+length <= len
for removals) and whatever spare capacity the slice had, leaving every other element in place and in order. Fill and
Repeat set every element to the value for every length, Reverse reverses in place, Concat and Clone return the expected
contents in a new slice that shares no memory with the inputs, and Grow appends exactly n zero values."

Everything is stated over the Go slice primitive of `Model/GoSlice.lean`: an arbitrary heap `h`, an arbitrary
well-formed header `s` (any offset, any `len ≤ cap`, any backing array at least `off+cap` long) and an arbitrary
runtime growth choice `spare`.  `contents h s` is the live window.
-/
namespace C12
open TypVerif TypVerif.Model TypVerif.Model.GoSlice

variable {α : Type}

open TypVerif.Lemmas.Splice.Ex (exHeap exSlice exOut exWF)

/-- Insert: for every position `0..len` and every capacity, the contents become `take i c ++ [v] ++ drop i c` -/
theorem insert (h : Heap α) (s : Slice) (i : Nat) (v : α) (spare : List α)
    (hwf : WF h s) (hi : i ≤ s.len) :
    ∃ h' s', Splice.insert h s i v spare = .ok (h', s') ∧ WF h' s' ∧
      contents h' s' = Spec.Splice.insert (contents h s) i v :=
  Lemmas.Splice.insert_contents h s i v spare hwf hi
example : ∃ (h : Heap Nat) (s : Slice), WF h s ∧ 1 ≤ s.len ∧ s.len < s.cap :=
  ⟨exHeap, exSlice, exWF, by decide, by decide⟩
example : exOut (Splice.insert exHeap exSlice 1 9 []) = ([1, 9, 2, 3], [1, 9, 2, 3, 7]) := by decide
example : exOut (Splice.insert exHeap exSlice 3 9 []) = ([1, 2, 3, 9], [1, 2, 3, 9, 7]) := by decide

/-- Insert, frame: with spare capacity it works in place (same backing array, same offset, `len+1`) and writes only
the cells `off+i .. off+len` of that array: every cell before the insertion point and every cell behind the new
logical end (the guard suffix), and every other backing array, keeps its value.  Without spare capacity the result
lives in a fresh backing array and the whole old heap is untouched. -/
theorem insert_frame (h : Heap α) (s : Slice) (i : Nat) (v : α) (spare : List α)
    (hwf : WF h s) (hi : i ≤ s.len) :
    (s.len < s.cap →
      ∃ h', Splice.insert h s i v spare = .ok (h', { s with len := s.len + 1 }) ∧
        (∀ b, b ≠ s.bid → h'.cells b = h.cells b) ∧
        (h'.cells s.bid).length = (h.cells s.bid).length ∧
        ∀ j, (j < s.off + i ∨ s.off + s.len + 1 ≤ j) → (h'.cells s.bid)[j]? = (h.cells s.bid)[j]?) ∧
    (¬ s.len < s.cap →
      ∃ h', Splice.insert h s i v spare =
          .ok (h', { bid := h.next, off := 0, len := s.len + 1, cap := s.len + 1 + spare.length }) ∧
        ∀ b, b < h.next → h'.cells b = h.cells b) := by
  constructor
  · intro hfit
    obtain ⟨h', he, _, hlen, hcells⟩ := Lemmas.Splice.insert_inplace h s i v spare hwf hfit hi
    refine ⟨h', he, ?_, hlen _, ?_⟩
    · intro b hb
      apply List.ext_getElem?
      intro j
      rw [hcells, if_neg (fun hh => hb hh.1)]
    · intro j hj
      rw [hcells, if_neg (by omega)]
  · intro hfit
    obtain ⟨h', he, _, hother, _⟩ := Lemmas.Splice.insert_realloc h s i v spare hwf hfit hi
    exact ⟨h', he, fun b hb => hother b (by omega)⟩

/-- an invalid position panics (after the append) -/
theorem insert_panics (h : Heap α) (s : Slice) (i : Nat) (v : α) (spare : List α) (hi : s.len < i) :
    Splice.insert h s i v spare = .error "panic:bounds" := by
  rw [Lemmas.Splice.insert_eq]
  unfold Lemmas.Splice.insertTail
  have hl : (append h s [v] spare).2.len = s.len + 1 := by
    unfold append; split <;> rfl
  rw [Lemmas.GoSlice.sliceFrom_panic _ (i + 1) (by omega)]; rfl

/-- InsertSlice (the inserted values live in another backing array) -/
theorem insertSlice (h : Heap α) (s : Slice) (i : Nat) (values : Slice) (spare : List α)
    (hwf : WF h s) (hwv : WF h values) (hne : values.bid ≠ s.bid) (hi : i ≤ s.len) :
    ∃ h' s', Splice.insertSlice h s i values spare = .ok (h', s') ∧ WF h' s' ∧
      contents h' s' = Spec.Splice.insertSlice (contents h s) i (contents h values) ∧
      contents h' values = contents h values :=
  Lemmas.Splice.insertSlice_contents h s i values spare hwf hwv hne hi

/-- InsertSlice, frame: in place it writes only the cells `off+i .. off+len+k-1`; otherwise the old heap is untouched -/
theorem insertSlice_frame (h : Heap α) (s : Slice) (i : Nat) (values : Slice) (spare : List α)
    (hwf : WF h s) (hwv : WF h values) (hne : values.bid ≠ s.bid) (hi : i ≤ s.len) :
    (s.len + values.len ≤ s.cap →
      ∃ h', Splice.insertSlice h s i values spare = .ok (h', { s with len := s.len + values.len }) ∧
        (∀ b, b ≠ s.bid → h'.cells b = h.cells b) ∧
        (h'.cells s.bid).length = (h.cells s.bid).length ∧
        ∀ j, (j < s.off + i ∨ s.off + s.len + values.len ≤ j) → (h'.cells s.bid)[j]? = (h.cells s.bid)[j]?) ∧
    (¬ s.len + values.len ≤ s.cap →
      ∃ h', Splice.insertSlice h s i values spare =
          .ok (h', { bid := h.next, off := 0, len := s.len + values.len,
                     cap := s.len + values.len + spare.length }) ∧
        ∀ b, b < h.next → h'.cells b = h.cells b) := by
  constructor
  · intro hfit
    obtain ⟨h', he, _, hlen, hcells⟩ := Lemmas.Splice.insertSlice_inplace h s i values spare hwf hwv hne hfit hi
    refine ⟨h', he, ?_, hlen _, ?_⟩
    · intro b hb
      apply List.ext_getElem?
      intro j
      rw [hcells, if_neg (fun hh => hb hh.1)]
    · intro j hj
      rw [hcells, if_neg (by omega)]
  · intro hfit
    obtain ⟨h', he, _, hother, _⟩ := Lemmas.Splice.insertSlice_realloc h s i values spare hwf hwv hfit hi
    exact ⟨h', he, fun b hb => hother b (by omega)⟩

/-- RemoveSlice: for `i + n ≤ len` the contents become `take i c ++ drop (i+n) c` -/
theorem removeSlice (h : Heap α) (s : Slice) (i n : Nat) (hwf : WF h s) (hi : i + n ≤ s.len) :
    ∃ h' s', Splice.removeSlice h s i n = .ok (h', s') ∧ WF h' s' ∧
      contents h' s' = Spec.Splice.removeSlice (contents h s) i n :=
  Lemmas.Splice.removeSlice_contents h s i n hwf hi
example : exOut (Splice.removeSlice exHeap exSlice 0 2) = ([3], [3, 2, 3, 7, 7]) := by decide

/-- RemoveSlice, frame: always in place (same array, same offset, same capacity, `len-n`); it writes only the cells
`off+i .. off+len-n-1`: in particular the `n` cells just behind the new end keep their OLD values (Go does not zero
them), as does everything behind the old end and every other array. -/
theorem removeSlice_frame (h : Heap α) (s : Slice) (i n : Nat) (hwf : WF h s) (hi : i + n ≤ s.len) :
    ∃ h', Splice.removeSlice h s i n = .ok (h', { s with len := s.len - n }) ∧
      (∀ b, b ≠ s.bid → h'.cells b = h.cells b) ∧
      (h'.cells s.bid).length = (h.cells s.bid).length ∧
      ∀ j, (j < s.off + i ∨ s.off + s.len - n ≤ j) → (h'.cells s.bid)[j]? = (h.cells s.bid)[j]? := by
  obtain ⟨h', he, _, hlen, hcells⟩ := Lemmas.Splice.removeSlice_spec h s i n hwf hi
  refine ⟨h', he, ?_, hlen _, ?_⟩
  · intro b hb
    apply List.ext_getElem?
    intro j
    rw [hcells, if_neg (fun hh => hb hh.1)]
  · intro j hj
    rw [hcells, if_neg (by omega)]

theorem removeSlice_panics (h : Heap α) (s : Slice) (i n : Nat) (hwf : WF h s) (hi : s.len < i + n) :
    Splice.removeSlice h s i n = .error "panic:bounds" :=
  Lemmas.Splice.removeSlice_panics h s i n hwf hi

/-- Remove: for `i < len` the contents become `take i c ++ drop (i+1) c` -/
theorem remove (h : Heap α) (s : Slice) (i : Nat) (hwf : WF h s) (hi : i < s.len) :
    ∃ h' s', Splice.remove h s i = .ok (h', s') ∧ WF h' s' ∧
      contents h' s' = Spec.Splice.remove (contents h s) i := by
  rw [Lemmas.Splice.remove_eq_removeSlice]
  exact Lemmas.Splice.removeSlice_contents h s i 1 hwf hi
example : exOut (Splice.remove exHeap exSlice 1) = ([1, 3], [1, 3, 3, 7, 7]) := by decide

theorem remove_frame (h : Heap α) (s : Slice) (i : Nat) (hwf : WF h s) (hi : i < s.len) :
    ∃ h', Splice.remove h s i = .ok (h', { s with len := s.len - 1 }) ∧
      (∀ b, b ≠ s.bid → h'.cells b = h.cells b) ∧
      (h'.cells s.bid).length = (h.cells s.bid).length ∧
      ∀ j, (j < s.off + i ∨ s.off + s.len - 1 ≤ j) → (h'.cells s.bid)[j]? = (h.cells s.bid)[j]? := by
  rw [Lemmas.Splice.remove_eq_removeSlice]
  exact removeSlice_frame h s i 1 hwf hi

theorem remove_panics (h : Heap α) (s : Slice) (i : Nat) (hwf : WF h s) (hi : s.len ≤ i) :
    Splice.remove h s i = .error "panic:bounds" := by
  rw [Lemmas.Splice.remove_eq_removeSlice]
  exact Lemmas.Splice.removeSlice_panics h s i 1 hwf (by omega)

/-- Fill: every element of the window becomes `v` (every length, including 0), nothing else is written -/
theorem fill_all (h : Heap α) (s : Slice) (v : α) (hwf : WF h s) :
    ∃ h', Splice.fill h s v = .ok h' ∧ WF h' s ∧ contents h' s = List.replicate s.len v ∧
      (∀ b, b ≠ s.bid → h'.cells b = h.cells b) ∧
      (∀ j, (j < s.off ∨ s.off + s.len ≤ j) → (h'.cells s.bid)[j]? = (h.cells s.bid)[j]?) := by
  obtain ⟨h', he, hwf', hcont⟩ := Lemmas.Splice.fill_contents h s v hwf
  obtain ⟨h'', he', _, _, hcells⟩ := Lemmas.Splice.fill_spec h s v hwf
  have : h'' = h' := by rw [he] at he'; injection he' with e; exact e.symm
  subst this
  refine ⟨h'', he, hwf', hcont, ?_, ?_⟩
  · intro b hb
    apply List.ext_getElem?
    intro j
    rw [hcells, if_neg (fun hh => hb hh.1)]
  · intro j hj
    rw [hcells, if_neg (by omega)]
example : (match Splice.fill exHeap exSlice 5 with | .ok h' => h'.cells 0 | .error _ => []) = [5, 5, 5, 7, 7] := by
  decide

/-- Repeat: a new slice of `count` copies of the value -/
theorem «repeat» (h : Heap α) (zero value : α) (count : Nat) :
    ∃ h' r, Splice.repeat_ h zero value count = .ok (h', r) ∧ WF h' r ∧ r.bid = h.next ∧
      (∀ b, b ≠ h.next → h'.cells b = h.cells b) ∧
      contents h' r = Spec.Splice.repeat_ value count :=
  Lemmas.Splice.repeat_contents h zero value count

/-- Reverse: in place, nothing outside the window is written -/
theorem reverse (h : Heap α) (s : Slice) (hwf : WF h s) :
    ∃ h', Splice.reverse h s = .ok h' ∧ WF h' s ∧ contents h' s = Spec.Splice.reverse (contents h s) ∧
      (∀ b, b ≠ s.bid → h'.cells b = h.cells b) ∧
      (∀ j, (j < s.off ∨ s.off + s.len ≤ j) → (h'.cells s.bid)[j]? = (h.cells s.bid)[j]?) := by
  obtain ⟨h', he, hwf', hcont⟩ := Lemmas.Splice.reverse_contents h s hwf
  obtain ⟨h'', he', _, _, hcells⟩ := Lemmas.Splice.reverse_spec h s hwf
  have : h'' = h' := by rw [he] at he'; injection he' with e; exact e.symm
  subst this
  refine ⟨h'', he, hwf', hcont, ?_, ?_⟩
  · intro b hb
    apply List.ext_getElem?
    intro j
    rw [hcells, if_neg (fun hh => hb hh.1)]
  · intro j hj
    rw [hcells, if_neg (by omega)]
example : (match Splice.reverse exHeap exSlice with | .ok h' => h'.cells 0 | .error _ => []) = [3, 2, 1, 7, 7] := by
  decide

/-- Concat: the result is `a ++ b` in a backing array that did not exist before (`bid = h.next`); every
pre-existing backing array — in particular those of `a` and `b` — is unchanged. -/
theorem concat (h : Heap α) (zero : α) (a b : Slice) (hwa : WF h a) (hwb : WF h b) :
    ∃ h' r, Splice.concat h zero a b = .ok (h', r) ∧ WF h' r ∧ r.bid = h.next ∧ r.bid ≠ a.bid ∧ r.bid ≠ b.bid ∧
      (∀ x, x ≠ h.next → h'.cells x = h.cells x) ∧
      contents h' r = Spec.Splice.concat (contents h a) (contents h b) := by
  obtain ⟨h', he, hwf, hother, hcont⟩ := Lemmas.Splice.concat_spec h zero a b hwa hwb
  refine ⟨h', _, he, hwf, rfl, ?_, ?_, hother, hcont⟩
  · simp only []; have := hwa.2.2; omega
  · simp only []; have := hwb.2.2; omega

/-- Clone: same contents in a backing array that did not exist before; every pre-existing array is unchanged -/
theorem clone (h : Heap α) (zero : α) (s : Slice) (hwf : WF h s) :
    WF (Splice.clone h zero s).1 (Splice.clone h zero s).2 ∧
    (Splice.clone h zero s).2.bid = h.next ∧ (Splice.clone h zero s).2.bid ≠ s.bid ∧
    (∀ b, b ≠ h.next → (Splice.clone h zero s).1.cells b = h.cells b) ∧
    contents (Splice.clone h zero s).1 (Splice.clone h zero s).2 = Spec.Splice.clone (contents h s) := by
  obtain ⟨hs, hwf', hother, hcont⟩ := Lemmas.Splice.clone_spec h zero s hwf
  refine ⟨hwf', by rw [hs], ?_, hother, hcont⟩
  rw [hs]; simp only []; have := hwf.2.2; omega

/-- Grow: appends exactly `n` zero values, for every capacity; it stays in the backing array iff they fit -/
theorem grow (h : Heap α) (zero : α) (s : Slice) (n : Nat) (spare : List α) (hwf : WF h s) :
    WF (Splice.grow h zero s n spare).1 (Splice.grow h zero s n spare).2 ∧
    contents (Splice.grow h zero s n spare).1 (Splice.grow h zero s n spare).2 =
      Spec.Splice.grow (contents h s) zero n ∧
    ((Splice.grow h zero s n spare).2.bid = s.bid ↔ s.len + n ≤ s.cap) := by
  obtain ⟨h1, h2⟩ := Lemmas.Splice.grow_contents h zero s n spare hwf
  refine ⟨h1, h2, ?_⟩
  have := (Lemmas.Splice.append_same_iff h s (List.replicate n zero) spare hwf).1
  rw [List.length_replicate] at this
  exact this
example : contents (Splice.grow exHeap 0 exSlice 1 []).1 (Splice.grow exHeap 0 exSlice 1 []).2 = [1, 2, 3, 0] := by
  decide

end C12

#print axioms C12.insert
#print axioms C12.insert_frame
#print axioms C12.insert_panics
#print axioms C12.insertSlice
#print axioms C12.insertSlice_frame
#print axioms C12.removeSlice
#print axioms C12.removeSlice_frame
#print axioms C12.removeSlice_panics
#print axioms C12.remove
#print axioms C12.remove_frame
#print axioms C12.remove_panics
#print axioms C12.fill_all
#print axioms C12.«repeat»
#print axioms C12.reverse
#print axioms C12.concat
#print axioms C12.clone
#print axioms C12.grow
