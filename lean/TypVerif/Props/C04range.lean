import TypVerif.Props.C04conc
import TypVerif.Lemmas.SmcRange
/-
C04, `Range` under every schedule.  `Range` is not an operation of the atomic map (it is not atomic: it is erased from
the linearizable history of `C04.conc_linearizable`); what the property demands of it is stated here, about the same
step-level transition system (`Model/SyncMapConc.lean`), for any number of goroutines, any menu, every interleaving:

 (a) the callback is called at most once per key                                — `conc_range_once`, `conc_range_once_loop`;
 (b) only with a value the key held at some moment during the call              — `conc_range_value` (and `conc_range_skip`);
 (c) the snapshot the loop iterates over contains every key present at the moment it is taken
                                                                                — `conc_range_snapshot`, `conc_range_todo_held`;
     and, as a property of traces: a key that has the value v in EVERY state from the snapshot to the return of the call is
     passed to f with v                                                         — `conc_range_untouched` (`Props/C04rangeTrace.lean`).

The model of `Range`: `rangeRead1` → (`rangeLock` → `rangeRead2` → `rangeStore dm`) → loop `rangePick todo acc`
--pick `(k', e')`--> `rangeLoad (aerase k' todo) acc k' e'` → `rangeNext todo' acc'` … → `ret (.pairs acc)`, where `acc` is
the sequence of callback invocations `f(k, v)` so far and `todo` the part of the `read.m` snapshot still to visit.

Proof: the per-goroutine invariant `T` of the simulation relation `R` (`Lemmas/SmcDefs.lean`) carries, at the program
counters of the loop, `RangeHold sh todo acc` = "keys of `todo` and of `acc` are pairwise distinct, and every pair of
`todo` is still `read.m[k]` or its entry is dead (expunged and dropped from both maps)"; `R` holds in every reachable
state (`Lemmas.Smc.reachable_R`).
-/
namespace C04
open TypVerif TypVerif.Conc TypVerif.Model TypVerif.Model.SyncMapConc TypVerif.Model.RelObj TypVerif.Lemmas.Smc
open TypVerif.Model.SyncMap (alookup ainsert aerase akeys)

set_option linter.unusedSectionVars false

variable {K V : Type} [DecidableEq K] [DecidableEq V] [Inhabited V]

/-- **At most once per key.**  In every reachable state, a goroutine about to return from `Range` with the callback
sequence `l` (`Res.pairs l`: the pairs `f` was called with, in order) has called `f` with pairwise distinct keys.
Claimed: distinctness of the keys of one `Range` call, for every schedule.  Not claimed: anything about the order. -/
theorem conc_range_once (menu : List (Op K V)) (n : Nat) (zst : Bool) {s : State K V}
    (h : Reachable (sys K V menu n zst) s) (t : Tid) {l : List (K × V)} (hpc : s.pc t = .ret (.pairs l)) :
    (l.map Prod.fst).Nodup := by
  obtain ⟨a, _, hR⟩ := reachable_R h
  exact hR.range_ret hpc

/-- **At most once per key, inside the loop.**  At the head of an iteration (`rangePick`) the keys still to visit and
the keys `f` has been called with are pairwise distinct; after the choice of `(k', e')` (`rangeLoad`) the chosen key is
moreover distinct from all of them — so appending `(k', w)` to the callback sequence never repeats a key. -/
theorem conc_range_once_loop (menu : List (Op K V)) (n : Nat) (zst : Bool) {s : State K V}
    (h : Reachable (sys K V menu n zst) s) (t : Tid) :
    (∀ todo acc, s.pc t = .rangePick todo acc → (akeys todo ++ acc.map Prod.fst).Nodup) ∧
    (∀ todo acc k' e', s.pc t = .rangeLoad todo acc k' e' → (k' :: (akeys todo ++ acc.map Prod.fst)).Nodup) := by
  obtain ⟨a, _, hR⟩ := reachable_R h
  exact ⟨fun _ _ hpc => (hR.range_pick hpc).1, fun _ _ _ _ hpc => (hR.range_load hpc).1⟩

/-- **Only values the key held during the call.**  A goroutine parked at `load.loadPtr1` inside `Range` for the pair
`(k', e')`, in a reachable state where `e'.p` points to a value `w`: the step it takes from this state calls `f(k', w)`
(appends `(k', w)` to the callback sequence and leaves the shared state alone), `e'` is still `read.m[k']`, and `w` IS
the abstract map's value for `k'` in this very state (`absOf`, the abstraction under which the model is linearizable,
`C04.conc_inv`) — a state that lies inside the `Range` call.
Not claimed: that `w` is still the key's value when `Range` returns (it need not be). -/
theorem conc_range_value (menu : List (Op K V)) (n : Nat) (zst : Bool) {s : State K V}
    (h : Reachable (sys K V menu n zst) s) (t : Tid) {todo : List (K × EId)} {acc : List (K × V)} {k' : K} {e' : EId}
    (hpc : s.pc t = .rangeLoad todo acc k' e') {i : Nat} {w : V} (hv : getP s.sh e' = .val i w) :
    absOf s.sh k' = some w ∧ alookup k' s.sh.readM = some e' ∧
    exec s.sh t (s.pc t) = some (s.sh, rangeNext todo (acc ++ [(k', w)])) := by
  obtain ⟨a, _, hR⟩ := reachable_R h
  obtain ⟨h1, h2⟩ := (hR.range_load hpc).head.absOf_of_val hv
  exact ⟨h2, h1, by rw [hpc]; exact exec_rangeLoad_val t todo acc k' hv⟩

/-- **Skipped keys.**  In the same situation with `e'.p` nil or expunged, the step skips the key (no callback), and in
this very state either the key is absent from the abstract map, or the entry fetched from the snapshot is dead
(expunged and dropped from both maps).
Not claimed here (it is a property of the trace, not of one state): that in the second case the key was absent at
some moment of the call. -/
theorem conc_range_skip (menu : List (Op K V)) (n : Nat) (zst : Bool) {s : State K V}
    (h : Reachable (sys K V menu n zst) s) (t : Tid) {todo : List (K × EId)} {acc : List (K × V)} {k' : K} {e' : EId}
    (hpc : s.pc t = .rangeLoad todo acc k' e') (hv : (getP s.sh e').value? = none) :
    (absOf s.sh k' = none ∨ Dead s.sh e') ∧ exec s.sh t (s.pc t) = some (s.sh, rangeNext todo acc) := by
  obtain ⟨a, _, hR⟩ := reachable_R h
  exact ⟨(hR.range_load hpc).head.absOf_of_not_val hv, by rw [hpc]; exact exec_rangeLoad_skip t todo acc k' hv⟩

/-- **Snapshot completeness** (one step, under the simulation relation).  The three steps that enter the loop —
`Range.readLoad1` when `read` is not amended, `Range.readLoad2` when it is not amended, `Range.readStore1` (the inline
promotion) — park the goroutine at `rangeNext rm []` (no callback yet) where the snapshot `rm` is the `read.m` of the
shared state `sh'` after the step; `sh'` is not amended and stands for the same abstract map as the state before the
step; hence EVERY KEY PRESENT AT THAT MOMENT IS A KEY OF THE SNAPSHOT, i.e. will be chosen by the loop.
Not claimed: "a key present and untouched for the whole call is passed to `f` with that value".  That reading follows
from this lemma (the key is in the snapshot), `conc_range_todo_held` (its pair stays `read.m[k]` unless the entry
dies, and an entry holding a value is not dead) and `conc_range_value` (the value passed is the key's current value),
but it quantifies over the states of one call, i.e. is a property of traces: it is `C04.conc_range_untouched`
(`Props/C04rangeTrace.lean`). -/
theorem conc_range_snapshot {s : State K V} {a : AState K V} (hR : R s a) (t : Tid)
    (hent : (s.pc t = .rangeRead1 ∧ s.sh.amended = false) ∨ (s.pc t = .rangeRead2 ∧ s.sh.amended = false) ∨
      ∃ dm, s.pc t = .rangeStore dm)
    {sh' : Shared K V} {pc' : Pc K V} (hex : exec s.sh t (s.pc t) = some (sh', pc')) :
    ∃ rm, pc' = rangeNext rm [] ∧ rm = sh'.readM ∧ sh'.amended = false ∧ (∀ k, absOf sh' k = absOf s.sh k) ∧
      ∀ k, absOf sh' k ≠ none → k ∈ akeys rm :=
  range_snapshot hR hent hex

/-- the same for every reachable state -/
theorem conc_range_snapshot_reachable (menu : List (Op K V)) (n : Nat) (zst : Bool) {s : State K V}
    (h : Reachable (sys K V menu n zst) s) (t : Tid)
    (hent : (s.pc t = .rangeRead1 ∧ s.sh.amended = false) ∨ (s.pc t = .rangeRead2 ∧ s.sh.amended = false) ∨
      ∃ dm, s.pc t = .rangeStore dm)
    {sh' : Shared K V} {pc' : Pc K V} (hex : exec s.sh t (s.pc t) = some (sh', pc')) :
    ∃ rm, pc' = rangeNext rm [] ∧ rm = sh'.readM ∧ sh'.amended = false ∧ (∀ k, absOf sh' k = absOf s.sh k) ∧
      ∀ k, absOf sh' k ≠ none → k ∈ akeys rm := by
  obtain ⟨a, _, hR⟩ := reachable_R h
  exact range_snapshot hR hent hex

/-- **The snapshot stays meaningful.**  In every reachable state, every pair `(k, e)` the loop has still to visit
(`todo`, and the chosen pair at `rangeLoad`) is an allocated entry that is still `read.m[k]`, or is dead (expunged and
dropped from both maps — it will be skipped, `conc_range_skip`). -/
theorem conc_range_todo_held (menu : List (Op K V)) (n : Nat) (zst : Bool) {s : State K V}
    (h : Reachable (sys K V menu n zst) s) (t : Tid) :
    (∀ todo acc, s.pc t = .rangePick todo acc → ∀ p ∈ todo, HoldRead s.sh p.1 p.2) ∧
    (∀ todo acc k' e', s.pc t = .rangeLoad todo acc k' e' → ∀ p ∈ (k', e') :: todo, HoldRead s.sh p.1 p.2) := by
  obtain ⟨a, _, hR⟩ := reachable_R h
  exact ⟨fun _ _ hpc => (hR.range_pick hpc).2, fun _ _ _ _ hpc => (hR.range_load hpc).2⟩

/-! Non-vacuity: the hypotheses beyond reachability are satisfiable.  `runSched` replays a schedule (index of the
successor taken at each step) from the initial state; one goroutine, menu `Store(1,5)`, `Range`, `Delete(1)`. -/

/-- `Store(1,5)` (8 steps), then `Range` up to `Range.readStore1` / `load.loadPtr1` / the return -/
private abbrev sysEx : Sys := sys Int Int [.store 1 5, .range, .delete 1] 1 false
private abbrev schedStore : List Nat := [0, 0, 0, 0, 0, 0, 0, 0]

/-- `conc_range_value`: a reachable state parked at `rangeLoad` on an entry holding a value -/
example : ∃ s, Reachable sysEx s ∧ s.pc 0 = .rangeLoad [] [] 1 0 ∧ getP s.sh 0 = .val 0 5 :=
  ⟨runSched sysEx (schedStore ++ [1, 0, 0, 0, 0, 0, 0]) sysEx.init, reachable_runSched _ Reachable.init, by decide,
    by decide⟩

/-- `conc_range_once`: a reachable state about to return from `Range` -/
example : ∃ s, Reachable sysEx s ∧ s.pc 0 = .ret (.pairs [(1, 5)]) :=
  ⟨runSched sysEx (schedStore ++ [1, 0, 0, 0, 0, 0, 0, 0]) sysEx.init, reachable_runSched _ Reachable.init, by decide⟩

/-- `conc_range_skip`: `Store(1,5)`, `Range` (promotes), `Delete(1)` (nil in `read.m`), `Range` up to `load.loadPtr1` -/
example : ∃ s, Reachable sysEx s ∧ s.pc 0 = .rangeLoad [] [] 1 0 ∧ (getP s.sh 0).value? = none :=
  ⟨runSched sysEx (schedStore ++ [1, 0, 0, 0, 0, 0, 0, 0, 0] ++ [2, 0, 0, 0, 0, 0] ++ [1, 0, 0, 0]) sysEx.init,
    reachable_runSched _ Reachable.init, by decide, by decide⟩

/-- `conc_range_snapshot`: the inline promotion (`rangeStore`), enabled, in a reachable state -/
example : ∃ s, Reachable sysEx s ∧ (∃ dm, s.pc 0 = .rangeStore dm) ∧ (exec s.sh 0 (s.pc 0)).isSome = true :=
  ⟨runSched sysEx (schedStore ++ [1, 0, 0, 0, 0]) sysEx.init, reachable_runSched _ Reachable.init,
    ⟨[(1, 0)], by decide⟩, by decide⟩

/-- `conc_range_snapshot`: the fast entry (`rangeRead1`, not amended), enabled, in a reachable state -/
example : ∃ s, Reachable sysEx s ∧ s.pc 0 = .rangeRead1 ∧ s.sh.amended = false ∧
    (exec s.sh 0 (s.pc 0)).isSome = true :=
  ⟨runSched sysEx [1, 0] sysEx.init, reachable_runSched _ Reachable.init, by decide, by decide, by decide⟩

end C04
